(** Proofs about Model/Cycles.v: is_acyclic (directed: exact; undirected: the edge-count criterion,
    via forest_iff_count), get_cycles (soundness, no duplicates), break_cycles (bounded theorems
    by exhaustive evaluation, refutation of the undirected branch). *)
From SKN Require Import Base.Util Model.Bfs Model.Structure Model.Cycles Proofs.BfsProofs Proofs.StructureProofs.
From Coq Require Import Permutation.

(** * Chains, suffixes, rotations *)

Lemma NoDup_app_r {A} (l l' : list A) : NoDup (l ++ l') -> NoDup l'.
Proof. induction l as [|x t IH]; simpl; auto. intros H. inversion H; auto. Qed.

Lemma NoDup_app_intro {A} (l l' : list A) :
  NoDup l -> NoDup l' -> (forall x, In x l -> In x l' -> False) -> NoDup (l ++ l').
Proof.
  induction l as [|x t IH]; simpl; auto. intros H1 H2 H3. inversion H1; subst.
  constructor.
  - intros Hin. apply in_app_or in Hin. destruct Hin as [Hin|Hin]; [contradiction|]. eapply H3; eauto.
  - apply IH; auto. intros y Hy Hy'. eapply H3; eauto.
Qed.

Lemma chain_cons E x t : chain E (x :: t) <-> (t <> [] -> E x (hd 0 t)) /\ chain E t.
Proof.
  simpl. destruct t as [|y t']; simpl; split; intros [A B]; split; auto.
  - intros H; congruence.
  - apply A. discriminate.
Qed.

Lemma chain_app E a b :
  chain E (a ++ b) <-> chain E a /\ chain E b /\ (a <> [] -> b <> [] -> E (last a 0) (hd 0 b)).
Proof.
  induction a as [|x t IH].
  - simpl. intuition congruence.
  - destruct t as [|y t'].
    + clear IH. cbn [app]. rewrite chain_cons. cbn [last].
      split.
      * intros [A B]. split; [simpl; tauto|]. split; [exact B|]. intros _ Hb. apply A. exact Hb.
      * intros [_ [B C]]. split; [|exact B]. intros Hb. apply C; [discriminate | exact Hb].
    + change ((x :: y :: t') ++ b) with (x :: ((y :: t') ++ b)). rewrite chain_cons, IH.
      rewrite (chain_cons E x (y :: t')).
      change (last (x :: y :: t') 0) with (last (y :: t') 0). cbn [app hd].
      split.
      * intros [A [B [C D]]]. split; [split; [intros _; apply A; discriminate | exact B]|].
        split; [exact C|]. intros _ Hb. apply D; [discriminate | exact Hb].
      * intros [[A B] [C D]]. split; [intros _; apply A; discriminate|]. split; [exact B|].
        split; [exact C|]. intros _ Hb. apply D; [discriminate | exact Hb].
Qed.

Lemma last_app_cons {A} (a : list A) x b d : last (a ++ x :: b) d = last (x :: b) d.
Proof.
  induction a as [|y t IH]; [reflexivity|].
  change ((y :: t) ++ x :: b) with (y :: (t ++ x :: b)).
  destruct (t ++ x :: b) as [|z l] eqn:E; [destruct t; discriminate|].
  change (last (y :: z :: l) d) with (last (z :: l) d). exact IH.
Qed.

Lemma last_In {A} (l : list A) d : l <> [] -> In (last l d) l.
Proof.
  induction l as [|x t IH]; [congruence|]. intros _. destruct t as [|y t']; [left; reflexivity|].
  right. apply IH. discriminate.
Qed.

Lemma index_of_split (v : nat) (l : list nat) :
  In v l -> exists pre suf, l = pre ++ v :: suf /\ skipn (index_of v l) l = v :: suf /\
                            firstn (index_of v l) l = pre /\ ~ In v pre.
Proof.
  induction l as [|y t IH]; [intros []|]. intros H. simpl.
  destruct (Nat.eqb_spec v y) as [E|E].
  - subst y. exists [], t. simpl. auto.
  - destruct H as [H|H]; [congruence|]. destruct (IH H) as [pre [suf [H1 [H2 [H3 H4]]]]].
    exists (y :: pre), suf. simpl. rewrite H2, H3. split; [f_equal; exact H1|].
    split; auto. split; auto. intros [A|A]; [congruence | contradiction].
Qed.

Lemma rot_perm (k : nat) (c : list nat) : Permutation (rot k c) c.
Proof.
  unfold rot. rewrite <- (firstn_skipn k c) at 3. apply Permutation_app_comm.
Qed.

Lemma rot_length k c : length (rot k c) = length c.
Proof. apply Permutation_length. apply rot_perm. Qed.

Lemma simple_cycle_rot E k c : simple_cycle E c -> simple_cycle E (rot k c).
Proof.
  intros [Hne [Hnd Hch]]. unfold rot.
  pose proof (firstn_skipn k c) as F.
  destruct (firstn k c) as [|a0 a'] eqn:Ea.
  { rewrite app_nil_r. simpl in F. rewrite F. split; [|split]; assumption. }
  destruct (skipn k c) as [|b0 b'] eqn:Eb.
  { rewrite app_nil_r in F. simpl. rewrite F. split; [|split]; assumption. }
  rewrite <- F in Hnd, Hch.
  split; [discriminate|]. split.
  - eapply Permutation_NoDup; [apply Permutation_app_comm | exact Hnd].
  - assert (Hch' : chain E ((a0 :: a') ++ ((b0 :: b') ++ [a0]))) by (rewrite app_assoc; exact Hch).
    apply chain_app in Hch'. destruct Hch' as [Ca [Cb Hab]].
    apply chain_app in Cb. destruct Cb as [Cb [_ Hba]].
    assert (G : chain E ((b0 :: b') ++ ((a0 :: a') ++ [b0]))); [|rewrite app_assoc in G; exact G].
    apply chain_app. split; [exact Cb|]. split.
    + apply chain_app. split; [exact Ca|]. split; [simpl; auto|].
      intros _ _. cbn [hd]. specialize (Hab ltac:(discriminate) ltac:(discriminate)). exact Hab.
    + intros _ _. cbn [hd app]. apply Hba; discriminate.
Qed.

(** * From reachability to simple paths and cycles *)

(** A simple path: non-empty, distinct nodes, consecutive ones related, given end points. *)
Definition spath (E : nat -> nat -> Prop) (u v : nat) (p : list nat) : Prop :=
  hd 0 p = u /\ last p 0 = v /\ p <> [] /\ NoDup p /\ chain E p.

Lemma reach_spath (E : nat -> nat -> Prop) u v : reach E u v -> exists p, spath E u v p.
Proof.
  intros H. induction H as [u|u x v Hux Hxv [p [P1 [P2 [P3 [P4 P5]]]]]].
  - exists [u]. split; [reflexivity|]. split; [reflexivity|]. split; [discriminate|].
    split; [constructor; [intros []|constructor] | simpl; auto].
  - destruct (in_dec Nat.eq_dec u p) as [Hin|Hout].
    + destruct (index_of_split u p Hin) as [pre [suf [H1 [H2 [H3 H4]]]]].
      exists (u :: suf). subst p. split; [reflexivity|]. split; [|split; [discriminate|split]].
      * rewrite last_app_cons in P2. exact P2.
      * eapply NoDup_app_r; eauto.
      * apply chain_app in P5. tauto.
    + exists (u :: p). split; [reflexivity|]. split; [|split; [discriminate|split]].
      * destruct p; [congruence|]. exact P2.
      * constructor; auto.
      * apply chain_cons. split; auto. intros _. rewrite P1. exact Hux.
Qed.

Lemma spath_reach (E : nat -> nat -> Prop) u v p : spath E u v p -> reach E u v.
Proof.
  intros [P1 [P2 [P3 [_ P5]]]]. revert u P1 P3 P5 P2.
  induction p as [|x t IH]; intros u P1 P3 P5 P2; [congruence|].
  simpl in P1. subst x. destruct t as [|y t'].
  - simpl in P2. subst. apply reach_refl.
  - apply chain_cons in P5. destruct P5 as [A B].
    eapply reach_step; [apply A; discriminate|]. apply IH; auto. discriminate.
Qed.

(** An edge u -> x together with a way back from x to u closes a simple cycle through u. *)
Lemma cycle_from_back_edge (E : nat -> nat -> Prop) u x : E u x -> reach E x u -> exists c, simple_cycle E c /\ In u c /\ In x c.
Proof.
  intros Hux Hxu. destruct (reach_spath E x u Hxu) as [p [P1 [P2 [P3 [P4 P5]]]]].
  exists p. split; [|split].
  - split; [exact P3|]. split; [exact P4|]. apply chain_app. split; [exact P5|]. split; [simpl; auto|].
    intros _ _. cbn [hd]. rewrite P1, P2. exact Hux.
  - rewrite <- P2. apply last_In. exact P3.
  - rewrite <- P1. destruct p; [congruence | left; reflexivity].
Qed.

(** Conversely the nodes of a simple cycle reach each other. *)
Lemma chain_reach_last (E : nat -> nat -> Prop) x t : chain E (x :: t) -> reach E x (last (x :: t) 0).
Proof.
  revert x; induction t as [|y t' IH]; intros x H; [apply reach_refl|].
  apply chain_cons in H. destruct H as [A B].
  eapply reach_step; [apply A; discriminate|]. exact (IH y B).
Qed.

Lemma chain_reach_in (E : nat -> nat -> Prop) x t y : chain E (x :: t) -> In y (x :: t) -> reach E x y.
Proof.
  revert x; induction t as [|z t' IH]; intros x H Hy.
  - destruct Hy as [Hy|[]]. subst. apply reach_refl.
  - destruct Hy as [Hy|Hy]; [subst; apply reach_refl|].
    apply chain_cons in H. destruct H as [A B].
    eapply reach_step; [apply A; discriminate|]. apply IH; auto.
Qed.

Lemma simple_cycle_hd_reach (E : nat -> nat -> Prop) c y :
  simple_cycle E c -> In y c -> reach E (hd 0 c) y /\ reach E y (hd 0 c).
Proof.
  intros [Hne [Hnd Hch]] Hy. destruct c as [|x t]; [congruence|]. cbn [hd] in *.
  split.
  - apply chain_app in Hch. destruct Hch as [Ca _]. exact (chain_reach_in E x t y Ca Hy).
  - destruct (in_split y (x :: t) Hy) as [l1 [l2 El]]. rewrite El in Hch.
    rewrite <- app_assoc in Hch. apply chain_app in Hch. destruct Hch as [_ [Hch _]].
    rewrite <- app_comm_cons in Hch.
    pose proof (chain_reach_last E y (l2 ++ [x]) Hch) as Hr.
    rewrite app_comm_cons in Hr. rewrite last_last in Hr. exact Hr.
Qed.

(** * is_acyclic, directed *)

Lemma nodup_length_le (l : list nat) : length (nodup Nat.eq_dec l) <= length l.
Proof. induction l as [|x t IH]; simpl; auto. destruct (in_dec Nat.eq_dec x t); simpl; lia. Qed.

Lemma n_labels_full (l : list nat) : n_labels l = length l <-> NoDup l.
Proof.
  unfold n_labels. split.
  - induction l as [|x t IH]; intros H; [constructor|]. simpl in H.
    destruct (in_dec Nat.eq_dec x t) as [Hin|Hout].
    + pose proof (nodup_length_le t). lia.
    + simpl in H. constructor; auto.
  - intros H. rewrite nodup_fixed_point; auto.
Qed.

Lemma NoDup_nthn (l : list nat) :
  NoDup l <-> forall i j, i < length l -> j < length l -> nthn l i = nthn l j -> i = j.
Proof. unfold nthn. apply NoDup_nth. Qed.

Lemma resolve_directed_true g : resolve_directed g (Some true) = Ok true.
Proof. reflexivity. Qed.

Theorem is_acyclic_directed_lemma (g : graph) (comp : list nat) (b : bool) :
  wf_graph g -> components_contract g true comp ->
  is_acyclic g (Some true) comp = Ok b ->
  (b = true <-> ~ exists c, dcycle g c).
Proof.
  intros Hwf [Hlen Hc]. unfold is_acyclic. cbn [resolve_directed].
  destruct (has_loops g) eqn:Hl.
  - intros H; inversion H; subst b. split; [discriminate|]. intros Hn. exfalso. apply Hn.
    apply has_loops_spec in Hl. destruct Hl as [u [Hu Huu]]. exists [u].
    split; [discriminate|]. split; [constructor; [intros []|constructor]|]. simpl. auto.
  - intros H; inversion H; subst b. clear H. rewrite Nat.eqb_eq, <- Hlen, n_labels_full, NoDup_nthn.
    rewrite Hlen. split.
    + intros Hinj [c Hcy]. pose proof Hcy as [Hne [Hnd Hch]].
      destruct c as [|x [|y t]]; [congruence| |].
      * simpl in Hch. destruct Hch as [Hxx _]. apply (proj1 (has_loops_false g) Hl x). exact Hxx.
      * assert (Hxy : In y (row g x)) by (simpl in Hch; tauto).
        assert (Hx : x < length g) by (eapply row_nonempty_lt; eauto).
        assert (Hy : y < length g) by (eapply Hwf; eauto).
        destruct (simple_cycle_hd_reach (edge g) (x :: y :: t) y Hcy (or_intror (or_introl eq_refl))) as [R1 R2].
        cbn [hd] in R1, R2.
        assert (x = y) by (apply Hinj; auto; apply Hc; auto; split; assumption).
        subst y. inversion Hnd as [|? ? Hni _]. apply Hni. left. reflexivity.
    + intros Hno i j Hi Hj Eij. destruct (Nat.eq_dec i j) as [|Hne]; auto. exfalso. apply Hno.
      apply (Hc i j Hi Hj) in Eij. destruct Eij as [R1 R2].
      inversion R1 as [|? x ? Hix Hxj]; [congruence|]. subst.
      destruct (cycle_from_back_edge (edge g) i x Hix (reach_trans _ _ _ _ Hxj R2)) as [c [Hcy _]].
      exists c. exact Hcy.
Qed.

(** * get_cycles: soundness *)

Definition good_path (g : graph) (path : list nat) (cur : nat) : Prop :=
  path <> [] /\ last path 0 = cur /\ NoDup path /\ chain (edge g) path /\ forall x, In x path -> x < length g.

Definition cycle_ok (g : graph) (directed : bool) (c : list nat) : Prop :=
  simple_cycle (edge g) c /\ (directed = false -> length c <> 2) /\ forall x, In x c -> x < length g.

Lemma gc_scan_spec (g : graph) directed prev path (cur : nat) : forall nbrs,
  let r := gc_scan directed prev path nbrs in
  (forall c, In c (fst r) -> exists v, In v nbrs /\ In v path /\ c = skipn (index_of v path) path /\
                                       (directed = false -> is_prev prev v = false)) /\
  (forall v, In v (snd r) -> In v nbrs /\ ~ In v path).
Proof.
  induction nbrs as [|v t [IH1 IH2]]; [simpl; split; intros ? []|].
  cbn [gc_scan]. cbv zeta.
  destruct (negb directed && is_prev prev v) eqn:Eskip.
  - split.
    + intros c Hc. destruct (IH1 c Hc) as [w [A B]]. exists w. split; [right; exact A | exact B].
    + intros w Hw. destruct (IH2 w Hw) as [A B]. split; [right; exact A | exact B].
  - destruct (memn v path) eqn:Emem.
    + cbn [fst snd]. split.
      * intros c [Hc|Hc].
        -- exists v. split; [left; reflexivity|]. split; [apply memn_In; exact Emem|]. split; [auto|].
           intros Hd. subst directed. simpl in Eskip. exact Eskip.
        -- destruct (IH1 c Hc) as [w [A B]]. exists w. split; [right; exact A | exact B].
      * intros w Hw. destruct (IH2 w Hw) as [A B]. split; [right; exact A | exact B].
    + cbn [fst snd]. split.
      * intros c Hc. destruct (IH1 c Hc) as [w [A B]]. exists w. split; [right; exact A | exact B].
      * intros w [Hw|Hw].
        -- subst w. split; [left; reflexivity|]. intros Hin. apply memn_In in Hin. congruence.
        -- destruct (IH2 w Hw) as [A B]. split; [right; exact A | exact B].
Qed.

Lemma concat_opt_In {A} (l : list (option (list A))) r c :
  concat_opt l = Some r -> In c r -> exists a, In (Some a) l /\ In c a.
Proof.
  revert r; induction l as [|o t IH]; intros r H Hc; simpl in H.
  - inversion H; subst. destruct Hc.
  - destruct o as [a|]; [|discriminate]. destruct (concat_opt t) as [b|] eqn:E; [|discriminate].
    inversion H; subst r. apply in_app_or in Hc. destruct Hc as [Hc|Hc].
    + exists a. split; [left; reflexivity | exact Hc].
    + destruct (IH b eq_refl Hc) as [a' [H1 H2]]. exists a'. split; [right; exact H1 | exact H2].
Qed.

Lemma prev_of_app path v q : prev_of (path ++ [v; q]) = Some v.
Proof. unfold prev_of. rewrite rev_app_distr. reflexivity. Qed.

Lemma back_edge_cycle g directed path cur v :
  wf_graph g -> good_path g path cur -> In v (row g cur) -> In v path ->
  (directed = false -> is_prev (prev_of path) v = false) ->
  cycle_ok g directed (skipn (index_of v path) path).
Proof.
  intros Hwf [Hne [Hlast [Hnd [Hch Hlt]]]] Hedge Hin Hprev.
  destruct (index_of_split v path Hin) as [pre [suf [H1 [H2 [H3 H4]]]]]. rewrite H2.
  assert (Hsub : forall x, In x (v :: suf) -> In x path).
  { intros x Hx. rewrite H1. apply in_or_app. right. exact Hx. }
  split; [|split].
  - split; [discriminate|]. split.
    + rewrite H1 in Hnd. eapply NoDup_app_r; eauto.
    + apply chain_app. split; [|split; [simpl; auto|]].
      * rewrite H1 in Hch. apply chain_app in Hch. tauto.
      * intros _ _. cbn [hd]. rewrite H1 in Hlast. rewrite last_app_cons in Hlast. rewrite Hlast. exact Hedge.
  - intros Hd Hlen2. specialize (Hprev Hd).
    destruct suf as [|q [|q' suf']]; simpl in Hlen2; try lia.
    rewrite H1 in Hprev. rewrite prev_of_app in Hprev. simpl in Hprev. rewrite Nat.eqb_refl in Hprev. discriminate.
  - intros x Hx. apply Hlt. apply Hsub. exact Hx.
Qed.

Lemma good_path_extend g path cur v :
  wf_graph g -> good_path g path cur -> In v (row g cur) -> ~ In v path -> good_path g (path ++ [v]) v.
Proof.
  intros Hwf [Hne [Hlast [Hnd [Hch Hlt]]]] Hedge Hout. split; [destruct path; discriminate|].
  split; [apply last_last|]. split; [|split].
  - apply NoDup_app_intro; auto; [constructor; [intros []|constructor] | ].
    intros x Hx [Hv|[]]. subst. contradiction.
  - apply chain_app. split; [exact Hch|]. split; [simpl; auto|]. intros _ _. cbn [hd]. rewrite Hlast. exact Hedge.
  - intros x Hx. apply in_app_or in Hx. destruct Hx as [Hx|[Hx|[]]]; [apply Hlt; exact Hx|].
    subst x. eapply Hwf; eauto.
Qed.

Lemma gc_visit_sound g directed : wf_graph g -> forall d cur path cs,
  good_path g path cur -> gc_visit d g directed cur path = Some cs ->
  forall c, In c cs -> cycle_ok g directed c.
Proof.
  intros Hwf. induction d as [|d IH]; intros cur path cs Hgp H c Hc; [discriminate|].
  cbn [gc_visit] in H. cbv zeta in H.
  destruct (gc_scan_spec g directed (prev_of path) path cur (row g cur)) as [S1 S2].
  destruct (concat_opt _) as [sub|] eqn:Esub; [|discriminate]. inversion H; subst cs. clear H.
  apply in_app_or in Hc. destruct Hc as [Hc|Hc].
  - destruct (S1 c Hc) as [v [A [B [C D]]]]. subst c. exact (back_edge_cycle g directed path cur v Hwf Hgp A B D).
  - destruct (concat_opt_In _ _ _ Esub Hc) as [a [Ha Hca]].
    apply in_map_iff in Ha. destruct Ha as [v [Hv Hin]]. apply in_rev in Hin.
    destruct (S2 v Hin) as [A B].
    eapply IH; [|exact Hv|exact Hca]. exact (good_path_extend g path cur v Hwf Hgp A B).
Qed.

(** Minimum and the canonical rotation. *)
Lemma fold_min_spec : forall t x,
  let m := fold_left Nat.min t x in (m = x \/ In m t) /\ m <= x /\ forall y, In y t -> m <= y.
Proof.
  induction t as [|a t IH]; intros x; simpl.
  - split; auto. split; auto. intros y [].
  - destruct (IH (Nat.min x a)) as [H1 [H2 H3]]. split; [|split].
    + destruct H1 as [H1|H1]; [|right; right; exact H1].
      destruct (Nat.min_spec x a) as [[_ E]|[_ E]]; rewrite E in H1; [left | right; left]; congruence.
    + lia.
    + intros y [Hy|Hy]; [subst; lia | apply H3; exact Hy].
Qed.

Lemma list_min_spec (l : list nat) : l <> [] -> In (list_min l) l /\ forall y, In y l -> list_min l <= y.
Proof.
  destruct l as [|x t]; [congruence|]. intros _. unfold list_min.
  destruct (fold_min_spec t x) as [H1 [H2 H3]]. split.
  - destruct H1 as [H1|H1]; [left; congruence | right; exact H1].
  - intros y [Hy|Hy]; [subst; exact H2 | apply H3; exact Hy].
Qed.

Lemma list_min_perm (a b : list nat) : a <> [] -> Permutation a b -> list_min a = list_min b.
Proof.
  intros Ha Hp. assert (Hb : b <> []) by (intros E; subst; apply Permutation_sym, Permutation_nil in Hp; congruence).
  destruct (list_min_spec a Ha) as [A1 A2]. destruct (list_min_spec b Hb) as [B1 B2].
  apply Nat.le_antisymm.
  - apply A2. eapply Permutation_in; [apply Permutation_sym; exact Hp | exact B1].
  - apply B2. eapply Permutation_in; [exact Hp | exact A1].
Qed.

Lemma roll_min_rot c : roll_min c = rot (index_of (list_min c) c) c.
Proof. reflexivity. Qed.

Definition min_first (c : list nat) : Prop := c <> [] /\ hd 0 c = list_min c.

Lemma roll_min_min_first c : c <> [] -> min_first (roll_min c).
Proof.
  intros Hne. destruct (list_min_spec c Hne) as [Hin _].
  destruct (index_of_split _ _ Hin) as [pre [suf [H1 [H2 [H3 H4]]]]].
  assert (E : roll_min c = list_min c :: suf ++ pre).
  { unfold roll_min. cbv zeta. rewrite H2, H3. reflexivity. }
  split; [rewrite E; discriminate|]. rewrite E at 1. cbn [hd].
  apply list_min_perm; auto. apply Permutation_sym. rewrite roll_min_rot. apply rot_perm.
Qed.

Lemma hd_skipn_nth (k : nat) (l : list nat) : hd 0 (skipn k l) = nth k l 0.
Proof. revert l; induction k as [|k IH]; intros [|x t]; simpl; auto. Qed.

Lemma min_first_rot_eq (a b : list nat) k :
  NoDup a -> min_first a -> min_first b -> b = rot k a -> a = b.
Proof.
  intros Hnd [Ha Hma] [Hb Hmb] E. destruct (Nat.eq_dec k 0) as [K0|K0].
  { subst k. unfold rot in E. simpl in E. rewrite app_nil_r in E. congruence. }
  destruct (Nat.le_gt_cases (length a) k) as [Kl|Kl].
  { unfold rot in E. rewrite skipn_all2, firstn_all2 in E by lia. simpl in E. congruence. }
  exfalso. assert (Hperm : Permutation a b) by (subst b; apply Permutation_sym, rot_perm).
  assert (Hmin : list_min a = list_min b) by (apply list_min_perm; auto).
  assert (Hhd : hd 0 b = nth k a 0).
  { subst b. unfold rot. destruct (skipn k a) as [|s0 s'] eqn:Es.
    - pose proof (skipn_length k a) as Hl. rewrite Es in Hl. simpl in Hl. lia.
    - cbn [app hd]. rewrite <- hd_skipn_nth. rewrite Es. reflexivity. }
  assert (E0 : nth k a 0 = nth 0 a 0).
  { rewrite <- Hhd, Hmb, <- Hmin, <- Hma. destruct a; [congruence | reflexivity]. }
  apply K0. apply (proj1 (NoDup_nth a 0) Hnd); auto; lia.
Qed.

(** Insertion sort: equal on permutations. *)
Lemma insert_comm x y l : insert x (insert y l) = insert y (insert x l).
Proof.
  induction l as [|z t IH]; simpl.
  - destruct (x <=? y) eqn:A, (y <=? x) eqn:B; auto.
    + apply Nat.leb_le in A, B. f_equal; try lia. f_equal. lia.
    + apply Nat.leb_gt in A, B. lia.
  - destruct (x <=? z) eqn:A, (y <=? z) eqn:B; simpl; rewrite ?A, ?B.
    + destruct (x <=? y) eqn:C, (y <=? x) eqn:D; auto.
      * apply Nat.leb_le in C, D. assert (x = y) by lia. subst. reflexivity.
      * apply Nat.leb_gt in C, D. lia.
    + destruct (y <=? x) eqn:D; auto. apply Nat.leb_le in A, D. apply Nat.leb_gt in B. lia.
    + destruct (x <=? y) eqn:C; auto. apply Nat.leb_le in B, C. apply Nat.leb_gt in A. lia.
    + f_equal. exact IH.
Qed.

Lemma isort_perm (a b : list nat) : Permutation a b -> isort a = isort b.
Proof.
  intros H. induction H as [|x l l' H IH|x y l|l l' l'' H1 IH1 H2 IH2]; simpl; auto.
  - unfold isort in *. simpl. rewrite IH. reflexivity.
  - apply insert_comm.
  - congruence.
Qed.

Lemma list_eqb_eq a b : list_eqb a b = true <-> a = b.
Proof.
  revert b; induction a as [|x a IH]; intros [|y b]; simpl; split; intros H; try discriminate; auto.
  - apply andb_true_iff in H. destruct H as [H1 H2]. apply Nat.eqb_eq in H1. apply IH in H2. congruence.
  - inversion H; subst. rewrite Nat.eqb_refl. apply IH. reflexivity.
Qed.

(** De-duplication keeps canonical rotations of input cycles, with pairwise distinct keys. *)
Definition okey (directed : bool) (x : list nat) : list nat := if directed then x else isort x.

Lemma dedup_spec directed : forall cycles visited,
  let out := dedup directed cycles visited in
  (forall x, In x out -> exists c, In c cycles /\ x = roll_min c) /\
  NoDup (map (okey directed) out) /\
  (forall x, In x out -> ~ In (okey directed x) visited).
Proof.
  induction cycles as [|c rest IH]; intros visited; simpl.
  - split; [intros x []|]. split; [constructor | intros x []].
  - assert (Ekey : cycle_key directed c = okey directed (roll_min c)) by (destruct directed; reflexivity).
    destruct (existsb (list_eqb (cycle_key directed c)) visited) eqn:Ex.
    + destruct (IH visited) as [I1 [I2 I3]]. split; [|split; auto].
      intros x Hx. destruct (I1 x Hx) as [c' [A B]]. exists c'. split; [right; exact A | exact B].
    + destruct (IH (cycle_key directed c :: visited)) as [I1 [I2 I3]]. split; [|split].
      * intros x [Hx|Hx]; [exists c; split; [left; reflexivity | symmetry; exact Hx]|].
        destruct (I1 x Hx) as [c' [A B]]. exists c'. split; [right; exact A | exact B].
      * simpl. constructor; auto. intros Hin. apply in_map_iff in Hin. destruct Hin as [x [E Hx]].
        apply (I3 x Hx). left. rewrite Ekey. symmetry. exact E.
      * intros x [Hx|Hx].
        -- subst x. intros Hin. rewrite <- Ekey in Hin.
           assert (existsb (list_eqb (cycle_key directed c)) visited = true); [|congruence].
           apply existsb_exists. exists (cycle_key directed c). split; auto. apply list_eqb_eq. reflexivity.
        -- intros Hin. apply (I3 x Hx). right. exact Hin.
Qed.

Lemma cycle_ok_roll g directed c : cycle_ok g directed c -> cycle_ok g directed (roll_min c).
Proof.
  intros [H1 [H2 H3]]. rewrite roll_min_rot. split; [apply simple_cycle_rot; exact H1|]. split.
  - intros Hd. rewrite rot_length. apply H2. exact Hd.
  - intros x Hx. apply H3. eapply Permutation_in; [apply rot_perm | exact Hx].
Qed.

Lemma same_ucycle_perm a b : same_ucycle a b -> Permutation a b.
Proof.
  intros [[k E]|[k E]]; subst b.
  - apply Permutation_sym, rot_perm.
  - eapply Permutation_trans; [apply Permutation_rev|]. apply Permutation_sym, rot_perm.
Qed.

(** Main soundness statement. *)
Theorem get_cycles_sound_lemma (g : graph) (directed : option bool) (comp : list nat) (d : bool) cs :
  wf_graph g -> resolve_directed g directed = Ok d ->
  get_cycles g directed comp = Ok cs ->
  (forall c, In c cs -> cycle_ok g d c) /\
  (forall i j, i < j < length cs ->
     if d then ~ same_dcycle (nth i cs []) (nth j cs []) else ~ same_ucycle (nth i cs []) (nth j cs [])).
Proof.
  intros Hwf Hd. unfold get_cycles. rewrite Hd.
  set (loops := map (fun u => [u]) (filter (fun u => edgeb g u u) (nodes g))).
  assert (Hloops : forall c, In c loops -> cycle_ok g d c).
  { intros c Hc. apply in_map_iff in Hc. destruct Hc as [u [E Hu]]. subst c.
    apply filter_In in Hu. destruct Hu as [Hu Huu]. apply nodes_In in Hu. apply edgeb_true in Huu.
    split; [|split].
    - split; [discriminate|]. split; [constructor; [intros []|constructor]|]. simpl. auto.
    - simpl. intros _; lia.
    - intros x [Hx|[]]. subst. exact Hu. }
  assert (Hloops_nd : forall i j, i < j < length loops ->
     if d then ~ same_dcycle (nth i loops []) (nth j loops []) else ~ same_ucycle (nth i loops []) (nth j loops [])).
  { intros i j Hij.
    assert (Hnd : NoDup (filter (fun u => edgeb g u u) (nodes g))) by (apply NoDup_filter; apply seq_NoDup).
    unfold loops in *. rewrite map_length in Hij.
    set (fl := filter (fun u => edgeb g u u) (nodes g)) in *.
    rewrite (nth_map_lt (fun u => [u]) fl i 0 []) by lia.
    rewrite (nth_map_lt (fun u => [u]) fl j 0 []) by lia.
    assert (Hne : nth i fl 0 <> nth j fl 0).
    { intros E. apply (proj1 (NoDup_nth fl 0) Hnd) in E; lia. }
    assert (Hperm : ~ Permutation [nth i fl 0] [nth j fl 0]).
    { intros P. apply Permutation_length_1 in P. contradiction. }
    destruct d.
    - intros [k E]. apply Hperm. rewrite E. apply Permutation_sym, rot_perm.
    - intros H. apply Hperm. apply same_ucycle_perm. exact H. }
  destruct (d && (n_labels comp =? length g)); [intros H; inversion H; subst cs; split; assumption|].
  destruct (negb d && count_criterion g comp); [intros H; inversion H; subst cs; split; assumption|].
  destruct (concat_opt _) as [found|] eqn:Ef; [|discriminate].
  intros H; inversion H; subst cs. clear H.
  assert (Hfound : forall c, In c found -> cycle_ok g d c).
  { intros c Hc. destruct (concat_opt_In _ _ _ Ef Hc) as [a [Ha Hca]].
    apply in_map_iff in Ha. destruct Ha as [s [Hs Hin]].
    set (labels := (if d then filter (fun l => 1 <? count comp l) (np_unique comp) else np_unique comp)) in *.
    destruct (Nat.lt_ge_cases s (length g)) as [Hlt|Hge].
    - eapply gc_visit_sound; [exact Hwf| |exact Hs|exact Hca].
      split; [discriminate|]. split; [reflexivity|]. split; [constructor; [intros []|constructor]|].
      split; [simpl; auto|]. intros x [Hx|[]]. subst. exact Hlt.
    - (* a start outside the graph has an empty row: nothing is found *)
      exfalso. simpl in Hs. rewrite (row_oob g s Hge) in Hs. simpl in Hs. inversion Hs; subst a. destruct Hca. }
  destruct (dedup_spec d (loops ++ found) []) as [D1 [D2 _]].
  assert (Hall : forall x, In x (dedup d (loops ++ found) []) -> cycle_ok g d x).
  { intros x Hx. destruct (D1 x Hx) as [c [Hc E]]. subst x. apply cycle_ok_roll.
    apply in_app_or in Hc. destruct Hc; auto. }
  split; [exact Hall|].
  intros i j Hij. set (out := dedup d (loops ++ found) []) in *.
  assert (Hi : In (nth i out []) out) by (apply nth_In; lia).
  assert (Hj : In (nth j out []) out) by (apply nth_In; lia).
  assert (Hkeys : okey d (nth i out []) <> okey d (nth j out [])).
  { intros E. assert (Hl : length (map (okey d) out) = length out) by apply map_length.
    pose proof (proj1 (NoDup_nth (map (okey d) out) []) D2 i j) as Hinj.
    rewrite Hl in Hinj. rewrite (nth_map_lt (okey d) out i [] []) in Hinj by lia.
    rewrite (nth_map_lt (okey d) out j [] []) in Hinj by lia.
    specialize (Hinj ltac:(lia) ltac:(lia) E). lia. }
  destruct d.
  - intros [k E]. apply Hkeys. cbn [okey].
    destruct (D1 _ Hi) as [ci [_ Ei]]. destruct (D1 _ Hj) as [cj [_ Ej]].
    destruct (Hall _ Hi) as [[Ni [NDi _]] _]. destruct (Hall _ Hj) as [[Nj _] _].
    eapply (min_first_rot_eq _ _ k); auto.
    + rewrite Ei. apply roll_min_min_first. intros E0. subst ci. rewrite Ei in Ni. apply Ni. reflexivity.
    + rewrite Ej. apply roll_min_min_first. intros E0. subst cj. rewrite Ej in Nj. apply Nj. reflexivity.
  - intros H. apply Hkeys. cbn [okey]. apply isort_perm. apply same_ucycle_perm. exact H.
Qed.

(** * forest_iff_count: a simple undirected graph is acyclic iff #components = n - m *)

(** Undirected simple graphs as edge lists (each edge once, in one orientation). *)
Definition adj (es : list (nat * nat)) (u v : nat) : Prop := In (u, v) es \/ In (v, u) es.
Definition econn (es : list (nat * nat)) : nat -> nat -> Prop := reach (adj es).
Inductive simple_edges (n : nat) : list (nat * nat) -> Prop :=
| se_nil : simple_edges n []
| se_cons u v rest : u < n -> v < n -> u <> v -> ~ adj rest u v -> simple_edges n rest ->
                     simple_edges n ((u, v) :: rest).
Definition forest (es : list (nat * nat)) : Prop := ~ exists c, 3 <= length c /\ simple_cycle (adj es) c.

(** Naive union-find: processing an edge relabels the class of one end point into the other's. *)
Definition relabel (a b : nat) (lab : list nat) : list nat := map (fun x => if x =? a then b else x) lab.
Fixpoint uf (n : nat) (es : list (nat * nat)) : list nat :=
  match es with
  | [] => seq 0 n
  | (u, v) :: rest => let lab := uf n rest in relabel (nthn lab u) (nthn lab v) lab
  end.
(** Number of edges that joined two different classes when they were added. *)
Fixpoint merges (n : nat) (es : list (nat * nat)) : nat :=
  match es with
  | [] => 0
  | (u, v) :: rest => let lab := uf n rest in (if nthn lab u =? nthn lab v then 0 else 1) + merges n rest
  end.

Lemma adj_sym es u v : adj es u v -> adj es v u.
Proof. unfold adj. tauto. Qed.

Lemma adj_cons e es x y : adj (e :: es) x y <-> adj es x y \/ e = (x, y) \/ e = (y, x).
Proof. unfold adj. simpl. tauto. Qed.

Lemma econn_sym es u v : econn es u v -> econn es v u.
Proof. apply reach_sym. apply adj_sym. Qed.

Lemma econn_mono e es u v : econn es u v -> econn (e :: es) u v.
Proof. apply reach_mono. intros a b H. apply adj_cons. left. exact H. Qed.

Lemma simple_edges_range n es u v : simple_edges n es -> adj es u v -> u < n /\ v < n.
Proof.
  intros H. induction H as [|a b rest Ha Hb Hab Hn Hs IH]; intros Hadj.
  - destruct Hadj as [[]|[]].
  - apply adj_cons in Hadj. destruct Hadj as [H|[H|H]]; [apply IH; exact H| |]; inversion H; subst; auto.
Qed.

Lemma uf_length n es : length (uf n es) = n.
Proof.
  induction es as [|[u v] rest IH]; simpl; [apply seq_length|].
  unfold relabel. rewrite map_length. exact IH.
Qed.

Lemma nthn_relabel a b lab x : x < length lab ->
  nthn (relabel a b lab) x = if nthn lab x =? a then b else nthn lab x.
Proof. intros H. unfold nthn, relabel. rewrite (nth_map_lt _ lab x 0 0) by exact H. reflexivity. Qed.

Lemma nthn_seq n x : x < n -> nthn (seq 0 n) x = x.
Proof. intros H. unfold nthn. rewrite seq_nth by exact H. reflexivity. Qed.

(** Labels = connectivity. *)
Lemma uf_conn n es : simple_edges n es ->
  forall x y, x < n -> y < n -> (nthn (uf n es) x = nthn (uf n es) y <-> econn es x y).
Proof.
  intros Hs. induction Hs as [|u v rest Hu Hv Huv Hn Hs IH]; intros x y Hx Hy.
  - simpl. rewrite !nthn_seq by assumption. split.
    + intros E; subst. apply reach_refl.
    + intros H. inversion H as [|? z ? Hxz _]; auto. destruct Hxz as [[]|[]].
  - cbn [uf]. cbv zeta. set (lab := uf n rest) in *.
    assert (Hl : length lab = n) by apply uf_length.
    rewrite !nthn_relabel by lia.
    assert (Euv : adj ((u, v) :: rest) u v) by (apply adj_cons; right; left; reflexivity).
    split.
    + intros E.
      destruct (Nat.eqb_spec (nthn lab x) (nthn lab u)) as [Ex|Ex];
      destruct (Nat.eqb_spec (nthn lab y) (nthn lab u)) as [Ey|Ey].
      * apply econn_mono. apply IH; auto. congruence.
      * apply (IH x u Hx Hu) in Ex. symmetry in E. apply (IH y v Hy Hv) in E.
        eapply reach_trans; [apply econn_mono; exact Ex|].
        eapply reach_step; [exact Euv|]. apply econn_mono. apply econn_sym. exact E.
      * apply (IH y u Hy Hu) in Ey. apply (IH x v Hx Hv) in E.
        eapply reach_trans; [apply econn_mono; exact E|].
        eapply reach_step; [apply adj_sym; exact Euv|]. apply econn_mono. apply econn_sym. exact Ey.
      * apply econn_mono. apply IH; auto.
    + intros H.
      assert (Hstep : forall a b, a < n -> b < n -> adj ((u, v) :: rest) a b ->
                (if nthn lab a =? nthn lab u then nthn lab v else nthn lab a) =
                (if nthn lab b =? nthn lab u then nthn lab v else nthn lab b)).
      { intros a b Ha Hb Hab. apply adj_cons in Hab. destruct Hab as [Hab|[Hab|Hab]].
        - assert (E : nthn lab a = nthn lab b) by (apply IH; auto; apply reach_one; exact Hab).
          rewrite E. reflexivity.
        - inversion Hab; subst a b. rewrite Nat.eqb_refl.
          destruct (nthn lab v =? nthn lab u); reflexivity.
        - inversion Hab; subst a b. rewrite Nat.eqb_refl.
          destruct (nthn lab v =? nthn lab u); reflexivity. }
      assert (Hse : simple_edges n ((u, v) :: rest)) by (constructor; auto).
      revert Hx. induction H as [a|a z b Haz Hzb IHr]; intros Ha; [reflexivity|].
      destruct (simple_edges_range n _ a z Hse Haz) as [_ Hz].
      rewrite (Hstep a z Ha Hz Haz). apply IHr; auto.
Qed.

(** Counting distinct labels. *)
Lemma relabel_same a lab : relabel a a lab = lab.
Proof.
  unfold relabel. induction lab as [|x t IH]; simpl; auto. rewrite IH.
  destruct (Nat.eqb_spec x a); congruence.
Qed.

Lemma In_relabel a b lab x : In b lab -> a <> b -> (In x (relabel a b lab) <-> x <> a /\ In x lab).
Proof.
  intros Hb Hab. unfold relabel. rewrite in_map_iff. split.
  - intros [y [E Hy]]. destruct (Nat.eqb_spec y a) as [Ey|Ey]; subst; split; auto.
  - intros [Hx Hin]. exists x. split; auto. destruct (Nat.eqb_spec x a); congruence.
Qed.

Lemma n_labels_relabel a b lab :
  a <> b -> In a lab -> In b lab -> S (n_labels (relabel a b lab)) = n_labels lab.
Proof.
  intros Hab Ha Hb. unfold n_labels.
  change (S (length (nodup Nat.eq_dec (relabel a b lab)))) with (length (a :: nodup Nat.eq_dec (relabel a b lab))).
  apply Permutation_length. apply NoDup_Permutation.
  - constructor; [|apply NoDup_nodup]. rewrite nodup_In, In_relabel by assumption. intros [H _]; congruence.
  - apply NoDup_nodup.
  - intros x. simpl. rewrite !nodup_In, In_relabel by assumption.
    destruct (Nat.eq_dec x a); subst; intuition congruence.
Qed.

Lemma n_labels_seq n : n_labels (seq 0 n) = n.
Proof. unfold n_labels. rewrite nodup_fixed_point by apply seq_NoDup. apply seq_length. Qed.

Lemma uf_count n es : simple_edges n es -> n_labels (uf n es) + merges n es = n.
Proof.
  intros Hs. induction Hs as [|u v rest Hu Hv Huv Hn Hs IH]; simpl; [rewrite n_labels_seq; lia|].
  set (lab := uf n rest) in *. assert (Hl : length lab = n) by apply uf_length.
  destruct (Nat.eqb_spec (nthn lab u) (nthn lab v)) as [E|E].
  - rewrite E, relabel_same. simpl. exact IH.
  - pose proof (n_labels_relabel _ _ lab E (nthn_In lab u ltac:(lia)) (nthn_In lab v ltac:(lia))). lia.
Qed.

Lemma merges_le n es : merges n es <= length es.
Proof.
  induction es as [|[u v] rest IH]; simpl; auto.
  destruct (nthn (uf n rest) u =? nthn (uf n rest) v); simpl; lia.
Qed.

(** Same kernel => same number of distinct labels. *)
Lemma n_labels_kernel : forall (l1 l2 : list nat),
  length l1 = length l2 ->
  (forall i j, i < length l1 -> j < length l1 -> (nthn l1 i = nthn l1 j <-> nthn l2 i = nthn l2 j)) ->
  n_labels l1 = n_labels l2.
Proof.
  induction l1 as [|x1 t1 IH]; intros [|x2 t2] Hlen Hk; simpl in Hlen; try lia.
  assert (IHt : n_labels t1 = n_labels t2).
  { apply IH; [lia|]. intros i j Hi Hj. apply (Hk (S i) (S j)); simpl; lia. }
  unfold n_labels in *. simpl.
  assert (Hin : In x1 t1 <-> In x2 t2).
  { split; intros H; apply In_nthn in H; destruct H as [i [Hi Ei]].
    - assert (E : nthn (x2 :: t2) (S i) = nthn (x2 :: t2) 0).
      { apply (Hk (S i) 0); simpl; try lia. exact Ei. }
      unfold nthn in E. simpl in E. rewrite <- E. apply nth_In. lia.
    - assert (E : nthn (x1 :: t1) (S i) = nthn (x1 :: t1) 0).
      { apply (Hk (S i) 0); simpl; try lia. exact Ei. }
      unfold nthn in E. simpl in E. rewrite <- E. apply nth_In. lia. }
  destruct (in_dec Nat.eq_dec x1 t1) as [H1|H1]; destruct (in_dec Nat.eq_dec x2 t2) as [H2|H2];
    try tauto; simpl; lia.
Qed.

(** Cycles and the last edge added. *)
Lemma chain_mono (E F : nat -> nat -> Prop) l : (forall a b, E a b -> F a b) -> chain E l -> chain F l.
Proof.
  intros H. induction l as [|x t IH]; simpl; auto. intros [A B]. split; auto.
  destruct t; auto.
Qed.

Lemma NoDup_app_disjoint {A} (l1 l2 : list A) x : NoDup (l1 ++ l2) -> In x l1 -> In x l2 -> False.
Proof.
  induction l1 as [|y t IH]; simpl; [tauto|]. intros H [E|Hin] H2; inversion H; subst.
  - apply H3. apply in_or_app. right. exact H2.
  - apply IH; auto.
Qed.

Lemma hd_app_single (l1 : list nat) a rest : hd 0 (l1 ++ [a]) = hd 0 (l1 ++ a :: rest).
Proof. destruct l1; reflexivity. Qed.

Lemma chain_split_pair (F R : nat -> nat -> Prop) (u v : nat) :
  (forall a b, F a b -> R a b \/ (a = u /\ b = v) \/ (a = v /\ b = u)) ->
  forall l, NoDup l -> chain F l ->
    chain R l \/
    exists l1 a b l2, l = l1 ++ a :: b :: l2 /\ ((a = u /\ b = v) \/ (a = v /\ b = u)) /\
                      chain R (l1 ++ [a]) /\ chain R (b :: l2).
Proof.
  intros HF. induction l as [|x t IH]; intros Hnd Hch; [left; simpl; auto|].
  inversion Hnd as [|? ? Hx Hnt]; subst. apply chain_cons in Hch. destruct Hch as [Hh Hct].
  destruct (IH Hnt Hct) as [HR|[l1 [a [b [l2 [E [Hp [C1 C2]]]]]]]].
  - destruct t as [|y t']; [left; simpl; auto|].
    destruct (HF x y (Hh ltac:(discriminate))) as [Hr|Hpair].
    + left. apply chain_cons. split; auto.
    + right. exists [], x, y, t'. split; [reflexivity|]. split; [exact Hpair|]. split; [simpl; auto | exact HR].
  - right. assert (Hne : t <> []) by (subst t; destruct l1; discriminate).
    assert (Hxa : x <> a) by (intros E'; subst x; apply Hx; subst t; apply in_or_app; right; left; reflexivity).
    assert (Hxb : x <> b) by (intros E'; subst x; apply Hx; subst t; apply in_or_app; right; right; left; reflexivity).
    destruct (HF x (hd 0 t) (Hh Hne)) as [Hr|[[E1 E2]|[E1 E2]]].
    + exists (x :: l1), a, b, l2. split; [subst t; reflexivity|]. split; [exact Hp|]. split; [|exact C2].
      change ((x :: l1) ++ [a]) with (x :: (l1 ++ [a])). apply chain_cons. split; [|exact C1].
      intros _. rewrite (hd_app_single l1 a (b :: l2)). rewrite <- E. exact Hr.
    + exfalso. destruct Hp as [[P1 P2]|[P1 P2]]; congruence.
    + exfalso. destruct Hp as [[P1 P2]|[P1 P2]]; congruence.
Qed.

Lemma adj_cons_split u v rest a b :
  adj ((u, v) :: rest) a b -> adj rest a b \/ (a = u /\ b = v) \/ (a = v /\ b = u).
Proof.
  intros H. apply adj_cons in H. destruct H as [H|[H|H]]; auto; inversion H; subst; auto.
Qed.

Lemma cycle_uses_new_edge u v rest c :
  simple_cycle (adj ((u, v) :: rest)) c -> 3 <= length c ->
  (exists c', 3 <= length c' /\ simple_cycle (adj rest) c') \/ econn rest u v.
Proof.
  intros [Hne [Hnd Hch]] Hlen. apply chain_app in Hch. destruct Hch as [Hc [_ Hclose]].
  specialize (Hclose Hne ltac:(discriminate)). cbn [hd] in Hclose.
  assert (Hor : forall a b, (a = u /\ b = v) \/ (a = v /\ b = u) -> econn rest a b -> econn rest u v).
  { intros a b [[E1 E2]|[E1 E2]] H; subst; auto. apply econn_sym. exact H. }
  destruct (chain_split_pair (adj ((u, v) :: rest)) (adj rest) u v (adj_cons_split u v rest) c Hnd Hc)
    as [HR|[l1 [a [b [l2 [E [Hp [C1 C2]]]]]]]].
  - destruct (adj_cons_split _ _ _ _ _ Hclose) as [Hr|Hpair].
    + left. exists c. split; auto. split; auto. split; auto. apply chain_app. split; auto. split; [simpl; auto|].
      intros _ _. exact Hr.
    + right. destruct c as [|x t]; [congruence|]. cbn [hd] in *.
      apply (Hor (last (x :: t) 0) x Hpair). apply econn_sym. apply chain_reach_last. exact HR.
  - right. subst c.
    assert (Hlast : last (l1 ++ a :: b :: l2) 0 = last (b :: l2) 0).
    { rewrite last_app_cons. reflexivity. }
    assert (Hhd : hd 0 (l1 ++ a :: b :: l2) = hd 0 (l1 ++ [a])) by (symmetry; apply hd_app_single).
    assert (Hba : econn rest b a).
    { destruct (adj_cons_split _ _ _ _ _ Hclose) as [Hr|Hpair].
      - (* b ~> last c -> hd c ~> a *)
        eapply reach_trans; [apply chain_reach_last; exact C2|].
        rewrite <- Hlast. eapply reach_step; [exact Hr|]. rewrite Hhd.
        destruct (l1 ++ [a]) as [|z w] eqn:Ez; [destruct l1; discriminate|]. cbn [hd].
        assert (La : last (z :: w) 0 = a) by (rewrite <- Ez; apply last_last).
        rewrite <- La. apply chain_reach_last. exact C1.
      - exfalso.
        (* the closing pair is {u,v} = {a,b}: then l1 = [] and l2 = [], so the cycle has two nodes *)
        assert (Hhab : hd 0 (l1 ++ a :: b :: l2) = a \/ hd 0 (l1 ++ a :: b :: l2) = b).
        { destruct Hp as [[P1 P2]|[P1 P2]], Hpair as [[Q1 Q2]|[Q1 Q2]]; subst; auto. }
        assert (Hlab : last (l1 ++ a :: b :: l2) 0 = a \/ last (l1 ++ a :: b :: l2) 0 = b).
        { destruct Hp as [[P1 P2]|[P1 P2]], Hpair as [[Q1 Q2]|[Q1 Q2]]; subst; auto. }
        assert (L1 : l1 = []).
        { destruct l1 as [|z l1']; auto. exfalso. cbn [app hd] in Hhab.
          apply (NoDup_app_disjoint (z :: l1') (a :: b :: l2) z Hnd); [left; reflexivity|].
          destruct Hhab; subst; simpl; auto. }
        assert (L2 : l2 = []).
        { destruct l2 as [|z l2']; auto. exfalso. rewrite Hlast in Hlab.
          assert (Hin : In (last (b :: z :: l2') 0) (z :: l2')).
          { change (last (b :: z :: l2') 0) with (last (z :: l2') 0). apply last_In. discriminate. }
          apply NoDup_app_r in Hnd. inversion Hnd as [|? ? Ha Hnd']; subst. inversion Hnd' as [|? ? Hb _]; subst.
          destruct Hlab as [Hl|Hl]; rewrite Hl in Hin; [apply Ha; right; exact Hin | apply Hb; exact Hin]. }
        subst. simpl in Hlen. lia. }
    apply (Hor b a); [tauto | exact Hba].
Qed.

Lemma forest_mono e es : forest (e :: es) -> forest es.
Proof.
  intros H [c [Hl [Hne [Hnd Hch]]]]. apply H. exists c. split; auto. split; auto. split; auto.
  eapply chain_mono; [|exact Hch]. intros a b Hab. apply adj_cons. left. exact Hab.
Qed.

Lemma forest_merges n es : simple_edges n es -> (forest es <-> merges n es = length es).
Proof.
  intros Hs. induction Hs as [|u v rest Hu Hv Huv Hn Hs IH].
  - simpl. split; auto. intros _ [c [Hl [Hne [Hnd Hch]]]].
    destruct c as [|x [|y t]]; simpl in Hl; try lia. simpl in Hch. destruct Hch as [[[]|[]] _].
  - cbn [merges length]. cbv zeta. pose proof (merges_le n rest) as Hle.
    pose proof (uf_conn n rest Hs u v Hu Hv) as Hconn.
    split.
    + intros Hf. apply forest_mono in Hf as Hfr. apply IH in Hfr.
      destruct (Nat.eqb_spec (nthn (uf n rest) u) (nthn (uf n rest) v)) as [E|E]; [|simpl; lia].
      exfalso. apply Hconn in E. destruct (reach_spath _ _ _ E) as [p [P1 [P2 [P3 [P4 P5]]]]].
      apply Hf. exists p. split.
      * destruct p as [|x [|y [|z t]]]; simpl in *; try lia; try congruence.
        subst. exfalso. apply Hn. tauto.
      * split; auto. split; auto. apply chain_app. split.
        -- eapply chain_mono; [|exact P5]. intros a b Hab. apply adj_cons. left. exact Hab.
        -- split; [simpl; auto|]. intros _ _. cbn [hd]. rewrite P1, P2. apply adj_cons. right. right. reflexivity.
    + intros Hm.
      destruct (Nat.eqb_spec (nthn (uf n rest) u) (nthn (uf n rest) v)) as [E|E]; [simpl in Hm; lia|].
      assert (Hmr : merges n rest = length rest) by (simpl in Hm; lia).
      apply IH in Hmr. intros [c [Hl Hc]].
      destruct (cycle_uses_new_edge u v rest c Hc Hl) as [Hcyc|Hcon].
      * apply Hmr. exact Hcyc.
      * apply E. apply Hconn. exact Hcon.
Qed.

(** forest_iff_count: for ANY labelling whose classes are the connected components. *)
Theorem forest_iff_count_lemma (n : nat) (es : list (nat * nat)) (comp : list nat) :
  simple_edges n es -> length comp = n ->
  (forall x y, x < n -> y < n -> (nthn comp x = nthn comp y <-> econn es x y)) ->
  (forest es <-> n_labels comp + length es = n).
Proof.
  intros Hs Hlen Hc.
  assert (Hk : n_labels comp = n_labels (uf n es)).
  { apply n_labels_kernel; [rewrite uf_length; exact Hlen|].
    intros i j Hi Hj. rewrite Hlen in Hi, Hj. rewrite (Hc i j Hi Hj), (uf_conn n es Hs i j Hi Hj). reflexivity. }
  pose proof (uf_count n es Hs) as Hcount. pose proof (merges_le n es) as Hle.
  rewrite (forest_merges n es Hs). rewrite Hk. lia.
Qed.

(** * Bridge to the model: the edge list of a symmetric loop-free pattern *)
Definition edges_of (g : graph) : list (nat * nat) :=
  flat_map (fun u => map (fun v => (u, v)) (filter (fun v => u <? v) (row g u))) (nodes g).

Lemma edges_of_In g u v : In (u, v) (edges_of g) <-> u < v /\ In v (row g u).
Proof.
  unfold edges_of. rewrite in_flat_map. split.
  - intros [x [Hx H]]. apply in_map_iff in H. destruct H as [y [E Hy]]. inversion E; subst.
    apply filter_In in Hy. destruct Hy as [Hy Hlt]. apply Nat.ltb_lt in Hlt. auto.
  - intros [Hlt Hin]. exists u. split; [apply nodes_In; eapply row_nonempty_lt; eauto|].
    apply in_map_iff. exists v. split; auto. apply filter_In. split; auto. apply Nat.ltb_lt. exact Hlt.
Qed.

Definition sym_graph (g : graph) : Prop := forall u v, In v (row g u) -> In u (row g v).
Definition loop_free (g : graph) : Prop := forall u, ~ In u (row g u).

Lemma adj_edges_of g u v : sym_graph g -> loop_free g -> (adj (edges_of g) u v <-> edge g u v).
Proof.
  intros Hs Hl. unfold adj, edge. rewrite !edges_of_In. split.
  - intros [[_ H]|[_ H]]; auto.
  - intros H. destruct (Nat.lt_total u v) as [Hlt|[E|Hgt]]; [left; auto | subst; exfalso; eapply Hl; eauto | right; auto].
Qed.

Lemma NoDup_map_pair (u : nat) (l : list nat) : NoDup l -> NoDup (map (fun v => (u, v)) l).
Proof.
  induction 1 as [|x t Hx Hnd IH]; simpl; constructor; auto.
  intros H. apply in_map_iff in H. destruct H as [y [E Hy]]. inversion E; subst. contradiction.
Qed.

Lemma NoDup_flat_map_fst (L : list nat) (f : nat -> list nat) :
  NoDup L -> (forall u, NoDup (f u)) -> NoDup (flat_map (fun u => map (fun v => (u, v)) (f u)) L).
Proof.
  intros HL Hf. induction HL as [|a L' Ha HL' IH]; simpl; [constructor|].
  apply NoDup_app_intro; auto.
  - apply NoDup_map_pair. apply Hf.
  - intros [x y] H1 H2. apply in_map_iff in H1. destruct H1 as [v [E _]]. inversion E; subst.
    apply in_flat_map in H2. destruct H2 as [u [Hu H2]]. apply in_map_iff in H2. destruct H2 as [w [E2 _]].
    inversion E2; subst. contradiction.
Qed.

Lemma simple_edges_of_ordered n es :
  NoDup es -> (forall a b, In (a, b) es -> a < b /\ b < n) -> simple_edges n es.
Proof.
  intros Hnd. induction Hnd as [|[u v] rest Hx Hnd IH]; intros Hr; [constructor|].
  destruct (Hr u v (or_introl eq_refl)) as [Huv Hv]. constructor; try lia.
  - intros [H|H]; [contradiction|]. destruct (Hr v u (or_intror H)). lia.
  - apply IH. intros a b H. apply Hr. right. exact H.
Qed.

Lemma simple_edges_of g :
  wf_graph g -> (forall u, NoDup (row g u)) -> simple_edges (length g) (edges_of g).
Proof.
  intros Hwf Hnd. apply simple_edges_of_ordered.
  - unfold edges_of. apply NoDup_flat_map_fst; [apply seq_NoDup|]. intros u. apply NoDup_filter. apply Hnd.
  - intros a b H. apply edges_of_In in H. destruct H as [Hlt Hin]. split; auto. eapply Hwf; eauto.
Qed.

(** Counting: nnz = 2 * (number of undirected edges). *)
Lemma flat_map_length {A B} (f : A -> list B) (l : list A) :
  length (flat_map f l) = sumn (map (fun x => length (f x)) l).
Proof. induction l as [|x t IH]; simpl; auto. rewrite app_length, IH. reflexivity. Qed.

Lemma filter_split_length {A} (p : A -> bool) (l : list A) :
  length l = length (filter p l) + length (filter (fun x => negb (p x)) l).
Proof. induction l as [|x t IH]; simpl; auto. destruct (p x); simpl; lia. Qed.

Lemma sumn_map_add {A} (f h : A -> nat) (l : list A) :
  sumn (map (fun x => f x + h x) l) = sumn (map f l) + sumn (map h l).
Proof. induction l as [|x t IH]; simpl; auto. rewrite IH. lia. Qed.

Lemma sumn_map_ext {A} (f h : A -> nat) (l : list A) :
  (forall x, In x l -> f x = h x) -> sumn (map f l) = sumn (map h l).
Proof.
  induction l as [|x t IH]; simpl; intros H; [reflexivity|]. rewrite (H x) by auto. rewrite IH; auto.
Qed.

Lemma count_swap {A B} (f : A -> B -> bool) (L : list A) (M : list B) :
  sumn (map (fun u => length (filter (f u) M)) L) = sumn (map (fun v => length (filter (fun u => f u v) L)) M).
Proof.
  induction L as [|a L' IH]; simpl.
  - induction M as [|b M' IHM]; simpl; auto.
  - rewrite IH. clear IH.
    rewrite (sumn_map_ext (fun v => length (if f a v then a :: filter (fun u => f u v) L' else filter (fun u => f u v) L'))
                          (fun v => (if f a v then 1 else 0) + length (filter (fun u => f u v) L')) M).
    + rewrite sumn_map_add. f_equal. induction M as [|b M' IHM]; simpl; auto.
      destruct (f a b); simpl; rewrite IHM; reflexivity.
    + intros v _. destruct (f a v); reflexivity.
Qed.

Lemma count_via_seq (p : nat -> bool) (l : list nat) (n : nat) :
  NoDup l -> (forall x, In x l -> x < n) ->
  length (filter p l) = length (filter (fun v => p v && memn v l) (seq 0 n)).
Proof.
  intros Hnd Hr. apply Permutation_length. apply NoDup_Permutation.
  - apply NoDup_filter. exact Hnd.
  - apply NoDup_filter. apply seq_NoDup.
  - intros x. rewrite !filter_In, in_seq, andb_true_iff, memn_In. split.
    + intros [H1 H2]. split; [split; [lia | apply Hr; exact H1] | auto].
    + tauto.
Qed.

Lemma nnz_rows g : nnz g = sumn (map (fun u => length (row g u)) (nodes g)).
Proof.
  unfold nnz, nodes. f_equal. apply nth_ext with (d := 0) (d' := 0).
  - rewrite !map_length, seq_length. reflexivity.
  - intros i Hi. rewrite map_length in Hi.
    rewrite (nth_map_lt _ g i [] 0) by exact Hi.
    rewrite nth_map_seq by exact Hi. reflexivity.
Qed.

Lemma nnz_edges_of g :
  wf_graph g -> sym_graph g -> loop_free g -> (forall u, NoDup (row g u)) ->
  nnz g = 2 * length (edges_of g).
Proof.
  intros Hwf Hs Hl Hnd. set (n := length g).
  assert (Hlen : length (edges_of g) = sumn (map (fun u => length (filter (fun v => u <? v) (row g u))) (nodes g))).
  { unfold edges_of. rewrite flat_map_length. apply sumn_map_ext. intros u _. apply map_length. }
  rewrite nnz_rows, Hlen.
  (* |row u| = hi u + lo u *)
  rewrite (sumn_map_ext (fun u => length (row g u))
             (fun u => length (filter (fun v => u <? v) (row g u)) + length (filter (fun v => v <? u) (row g u))) (nodes g)).
  2:{ intros u _. rewrite (filter_split_length (fun v => u <? v) (row g u)). f_equal.
      f_equal. apply filter_ext_in. intros v Hv.
      assert (v <> u) by (intros E; subst; eapply Hl; eauto).
      destruct (Nat.ltb_spec u v), (Nat.ltb_spec v u); simpl; auto; lia. }
  rewrite sumn_map_add.
  assert (Hswap : sumn (map (fun u => length (filter (fun v => v <? u) (row g u))) (nodes g)) =
                  sumn (map (fun u => length (filter (fun v => u <? v) (row g u))) (nodes g))).
  { rewrite (sumn_map_ext _ (fun u => length (filter (fun v => (v <? u) && memn v (row g u)) (nodes g))) (nodes g)).
    2:{ intros u _. apply count_via_seq; [apply Hnd|]. intros x Hx. eapply Hwf; eauto. }
    rewrite (count_swap (fun u v => (v <? u) && memn v (row g u)) (nodes g) (nodes g)).
    apply sumn_map_ext. intros v Hv. symmetry.
    rewrite (count_via_seq (fun u => v <? u) (row g v) n); [|apply Hnd|intros x Hx; eapply Hwf; eauto].
    f_equal. apply filter_ext_in. intros u Hu. f_equal.
    destruct (memn u (row g v)) eqn:E1, (memn v (row g u)) eqn:E2; auto.
    - apply memn_In in E1. apply Hs in E1. apply memn_In in E1. congruence.
    - apply memn_In in E2. apply Hs in E2. apply memn_In in E2. congruence. }
  rewrite Hswap. lia.
Qed.

Lemma simple_cycle_ext (E F : nat -> nat -> Prop) c :
  (forall a b, E a b -> F a b) -> simple_cycle E c -> simple_cycle F c.
Proof. intros H [A [B C]]. split; auto. split; auto. eapply chain_mono; eauto. Qed.

Lemma resolve_directed_false g directed :
  resolve_directed g directed = Ok false -> is_symmetric g = true.
Proof.
  destruct directed as [[|]|]; simpl; try discriminate.
  - destruct (is_symmetric g); [auto | discriminate].
  - destruct (is_symmetric g); simpl; [auto | discriminate].
Qed.

(** is_acyclic on an undirected graph (canonical rows: no duplicate column index). *)
Theorem is_acyclic_undirected_lemma (g : graph) (directed : option bool) (comp : list nat) (b : bool) :
  wf_graph g -> (forall u, NoDup (row g u)) -> components_contract g false comp ->
  resolve_directed g directed = Ok false ->
  is_acyclic g directed comp = Ok b ->
  (b = true <-> ~ exists c, ucycle g c).
Proof.
  intros Hwf Hnd [Hlen Hc] Hd. pose proof (resolve_directed_false g directed Hd) as Hsym0.
  pose proof (proj1 (is_symmetric_spec g) Hsym0) as Hsym. unfold is_acyclic. rewrite Hd.
  destruct (has_loops g) eqn:Hl.
  - intros H; inversion H; subst b. split; [discriminate|]. intros Hn. exfalso. apply Hn.
    apply has_loops_spec in Hl. destruct Hl as [u [Hu Huu]]. exists [u]. split; [|simpl; lia].
    split; [discriminate|]. split; [constructor; [intros []|constructor]|]. simpl. auto.
  - intros H; inversion H; subst b. clear H. pose proof (proj1 (has_loops_false g) Hl) as Hlf.
    pose proof (nnz_edges_of g Hwf Hsym Hlf Hnd) as Hnnz.
    pose proof (simple_edges_of g Hwf Hnd) as Hse.
    assert (Hconn : forall x y, x < length g -> y < length g ->
              (nthn comp x = nthn comp y <-> econn (edges_of g) x y)).
    { intros x y Hx Hy. rewrite (Hc x y Hx Hy). unfold wconn, econn. split; apply reach_mono; intros a c0 Hac.
      - apply adj_edges_of; auto. destruct Hac as [Hac|Hac]; [exact Hac | apply Hsym; exact Hac].
      - left. apply adj_edges_of in Hac; auto. }
    pose proof (forest_iff_count_lemma (length g) (edges_of g) comp Hse Hlen Hconn) as Hf.
    unfold count_criterion. rewrite Hnnz. rewrite Nat.mul_comm, Nat.div_mul by lia.
    rewrite Z.eqb_eq. split.
    + intros E [c [Hcy Hl2]]. assert (Hfo : forest (edges_of g)) by (apply Hf; lia).
      apply Hfo. exists c. split.
      * destruct Hcy as [Hne [_ Hch]]. destruct c as [|x [|y [|z t]]]; simpl in *; try lia; try congruence.
        exfalso. apply (Hlf x). tauto.
      * eapply simple_cycle_ext; [|exact Hcy]. intros a c0 Hac. apply adj_edges_of; auto.
    + intros Hno. assert (Hfo : forest (edges_of g)).
      { intros [c [Hl3 Hcy]]. apply Hno. exists c. split; [|lia].
        eapply simple_cycle_ext; [|exact Hcy]. intros a c0 Hac. apply adj_edges_of in Hac; auto. }
      apply Hf in Hfo. lia.
Qed.

(** * get_cycles: completeness *)

(** Rotations form an equivalence. *)
Lemma skipn_app_exact {A} (l1 l2 : list A) : skipn (length l1) (l1 ++ l2) = l2.
Proof. induction l1; simpl; auto. Qed.
Lemma firstn_app_exact {A} (l1 l2 : list A) : firstn (length l1) (l1 ++ l2) = l1.
Proof. induction l1; simpl; auto. f_equal. auto. Qed.

Lemma same_dcycle_split a b : same_dcycle a b <-> exists l1 l2, a = l1 ++ l2 /\ b = l2 ++ l1.
Proof.
  split.
  - intros [k E]. exists (firstn k a), (skipn k a). split; [symmetry; apply firstn_skipn | exact E].
  - intros [l1 [l2 [E1 E2]]]. exists (length l1). subst. unfold rot.
    rewrite skipn_app_exact, firstn_app_exact. reflexivity.
Qed.

Lemma same_dcycle_refl a : same_dcycle a a.
Proof. exists 0. unfold rot. simpl. rewrite app_nil_r. reflexivity. Qed.

Lemma same_dcycle_sym a b : same_dcycle a b -> same_dcycle b a.
Proof.
  intros H. apply same_dcycle_split in H. destruct H as [l1 [l2 [E1 E2]]].
  apply same_dcycle_split. exists l2, l1. auto.
Qed.

Lemma same_dcycle_trans a b c : same_dcycle a b -> same_dcycle b c -> same_dcycle a c.
Proof.
  intros H1 H2. apply same_dcycle_split in H1, H2.
  destruct H1 as [l1 [l2 [E1 E2]]]. destruct H2 as [m1 [m2 [F1 F2]]]. subst a b c.
  apply app_eq_app in F1. destruct F1 as [l [[A B]|[A B]]]; subst; apply same_dcycle_split.
  - exists (l1 ++ m1), l. rewrite <- !app_assoc. auto.
  - exists l, (m2 ++ l2). rewrite <- !app_assoc. auto.
Qed.

(** Scan: nothing that should be recorded or pushed is missed. *)
Lemma gc_scan_complete directed prev path : forall nbrs v,
  In v nbrs -> negb directed && is_prev prev v = false ->
  let r := gc_scan directed prev path nbrs in
  (In v path -> In (skipn (index_of v path) path) (fst r)) /\ (~ In v path -> In v (snd r)).
Proof.
  induction nbrs as [|x t IH]; intros v Hv Hskip; [destruct Hv|].
  cbn [gc_scan]. cbv zeta. destruct Hv as [Hv|Hv].
  - subst x. rewrite Hskip. destruct (memn v path) eqn:Em.
    + cbn [fst snd]. split; [left; reflexivity|]. intros Hn. exfalso. apply Hn. apply memn_In. exact Em.
    + cbn [fst snd]. split; [|left; reflexivity]. intros Hin. apply memn_In in Hin. congruence.
  - specialize (IH v Hv Hskip). cbv zeta in IH. destruct IH as [I1 I2].
    destruct (negb directed && is_prev prev x); [split; auto|].
    destruct (memn x path); cbn [fst snd]; split; auto.
    + intros Hin. right. auto.
    + intros Hn. right. auto.
Qed.

Lemma concat_opt_incl {A} (l : list (option (list A))) r :
  concat_opt l = Some r -> forall o, In o l -> exists a, o = Some a /\ forall c, In c a -> In c r.
Proof.
  revert r; induction l as [|o t IH]; intros r H o' Ho; [destruct Ho|]. simpl in H.
  destruct o as [a|]; [|discriminate]. destruct (concat_opt t) as [b|] eqn:E; [|discriminate].
  inversion H; subst r. destruct Ho as [Ho|Ho].
  - subst o'. exists a. split; auto. intros c Hc. apply in_or_app. left. exact Hc.
  - destruct (IH b eq_refl o' Ho) as [a' [E' Hs]]. exists a'. split; auto.
    intros c Hc. apply in_or_app. right. apply Hs. exact Hc.
Qed.

Lemma prev_of_some path p : prev_of path = Some p -> exists q0 z, path = q0 ++ [p; z].
Proof.
  unfold prev_of. intros H. destruct (rev path) as [|z [|p' r]] eqn:E; try discriminate.
  inversion H; subst p'. exists (rev r), z.
  rewrite <- (rev_involutive path), E. simpl. rewrite <- app_assoc. reflexivity.
Qed.

Lemma prev_of_In path p : prev_of path = Some p -> In p path.
Proof.
  intros H. destruct (prev_of_some path p H) as [q0 [z E]]. subst. apply in_or_app. right. left. reflexivity.
Qed.

Lemma is_prev_notin path v : ~ In v path -> is_prev (prev_of path) v = false.
Proof.
  intros H. unfold is_prev. destruct (prev_of path) as [p|] eqn:E; auto.
  apply Nat.eqb_neq. intros E'. subst. apply H. eapply prev_of_In; eauto.
Qed.

(** The traversal reaches every simple extension of its path and records every back edge there. *)
Lemma visit_complete g directed : forall d path cur cs,
  gc_visit d g directed cur path = Some cs ->
  forall ext w,
    chain (edge g) (cur :: ext) -> NoDup (path ++ ext) ->
    In w (row g (last (cur :: ext) 0)) -> In w (path ++ ext) ->
    (directed = false -> is_prev (prev_of (path ++ ext)) w = false) ->
    In (skipn (index_of w (path ++ ext)) (path ++ ext)) cs.
Proof.
  induction d as [|d IH]; intros path cur cs H ext w Hch Hnd Hw Hin Hprev; [discriminate|].
  cbn [gc_visit] in H. cbv zeta in H.
  destruct (concat_opt _) as [sub|] eqn:Esub; [|discriminate]. inversion H; subst cs. clear H.
  destruct ext as [|v ext'].
  - rewrite app_nil_r in *. cbn [last] in Hw. apply in_or_app. left.
    apply (gc_scan_complete directed (prev_of path) path (row g cur) w Hw); auto.
    destruct directed; simpl; auto.
  - apply chain_cons in Hch. destruct Hch as [Hcv Hch']. specialize (Hcv ltac:(discriminate)). cbn [hd] in Hcv.
    assert (Hvp : ~ In v path).
    { intros Hvin. eapply (NoDup_app_disjoint path (v :: ext') v); eauto. left. reflexivity. }
    assert (Hskip : negb directed && is_prev (prev_of path) v = false).
    { rewrite is_prev_notin by exact Hvp. apply andb_false_r. }
    destruct (gc_scan_complete directed (prev_of path) path (row g cur) v Hcv Hskip) as [_ Hpush].
    specialize (Hpush Hvp).
    assert (Hmem : In (gc_visit d g directed v (path ++ [v]))
                      (map (fun v0 => gc_visit d g directed v0 (path ++ [v0]))
                           (rev (snd (gc_scan directed (prev_of path) path (row g cur)))))).
    { apply in_map_iff. exists v. split; auto. apply in_rev. rewrite rev_involutive. exact Hpush. }
    destruct (concat_opt_incl _ _ Esub _ Hmem) as [a [Ea Hsub]].
    apply in_or_app. right. apply Hsub.
    assert (Eq : path ++ v :: ext' = (path ++ [v]) ++ ext') by (rewrite <- app_assoc; reflexivity).
    rewrite Eq in *. eapply IH; eauto.
Qed.

Lemma split_first_in (c l : list nat) :
  (exists x, In x l /\ In x c) ->
  exists pre w suf, l = pre ++ w :: suf /\ In w c /\ forall y, In y pre -> ~ In y c.
Proof.
  induction l as [|a t IH]; intros [x [Hx Hc]]; [destruct Hx|].
  destruct (in_dec Nat.eq_dec a c) as [Ha|Ha].
  - exists [], a, t. split; [reflexivity|]. split; [exact Ha|]. intros y Hy. destruct Hy.
  - destruct Hx as [Hx|Hx]; [subst; contradiction|].
    destruct (IH (ex_intro _ x (conj Hx Hc))) as [pre [w [suf [E [Hw Hpre]]]]].
    exists (a :: pre), w, suf. split; [simpl; f_equal; exact E|]. split; auto.
    intros y [Hy|Hy]; [subst; exact Ha | apply Hpre; exact Hy].
Qed.

Lemma skipn_index_of_app (pre : list nat) w r :
  ~ In w pre -> skipn (index_of w (pre ++ w :: r)) (pre ++ w :: r) = w :: r.
Proof.
  induction pre as [|a t IH]; intros H; simpl.
  - rewrite Nat.eqb_refl. reflexivity.
  - destruct (Nat.eqb_spec w a) as [E|E]; [exfalso; apply H; left; auto|]. apply IH. intros Hin. apply H. right. exact Hin.
Qed.

Lemma NoDup_split_unique (a b a' b' : list nat) x :
  NoDup (a ++ x :: b) -> a ++ x :: b = a' ++ x :: b' -> a = a' /\ b = b'.
Proof.
  revert a'. induction a as [|y t IH]; intros a' Hnd E.
  - destruct a' as [|y' t']; simpl in E.
    + inversion E. auto.
    + injection E as E1 E2. subst y'. exfalso. simpl in Hnd. apply NoDup_cons_iff in Hnd. destruct Hnd as [Hx _].
      apply Hx. rewrite E2. apply in_or_app. right. left. reflexivity.
  - destruct a' as [|y' t']; simpl in E.
    + injection E as E1 E2. subst y. exfalso. simpl in Hnd. apply NoDup_cons_iff in Hnd. destruct Hnd as [Hx _].
      apply Hx. apply in_or_app. right. left. reflexivity.
    + injection E as E1 E2. subst y'. simpl in Hnd. apply NoDup_cons_iff in Hnd. destruct Hnd as [_ Hnd].
      destruct (IH t' Hnd E2) as [A B]. subst. auto.
Qed.

(** Every simple cycle reachable from the start node is recorded, up to rotation. *)
Lemma found_complete g directed s c cs :
  wf_graph g ->
  gc_visit (S (length g)) g directed s [s] = Some cs ->
  simple_cycle (edge g) c -> (directed = false -> length c <> 2) ->
  reach (edge g) s (hd 0 c) ->
  exists c', In c' cs /\ same_dcycle c c'.
Proof.
  intros Hwf Hrun Hcy Hlen2 Hreach.
  destruct (reach_spath _ _ _ Hreach) as [p [P1 [P2 [P3 [P4 P5]]]]].
  pose proof Hcy as [Hne [Hnd Hch]].
  assert (Hhd : In (hd 0 c) c) by (destruct c; [congruence | left; reflexivity]).
  destruct (split_first_in c p) as [pre [w [suf [Ep [Hw Hpre]]]]].
  { exists (hd 0 c). split; auto. rewrite <- P2. apply last_In. exact P3. }
  destruct (in_split w c Hw) as [c1 [c2 Ec]].
  set (cw := w :: c2 ++ c1).
  assert (Hrot : cw = rot (length c1) c).
  { unfold rot, cw. rewrite Ec, skipn_app_exact, firstn_app_exact. reflexivity. }
  assert (Hcw : simple_cycle (edge g) cw) by (rewrite Hrot; apply simple_cycle_rot; exact Hcy).
  assert (Hperm : Permutation cw c) by (rewrite Hrot; apply rot_perm).
  destruct Hcw as [_ [Hndw Hchw]]. apply chain_app in Hchw. destruct Hchw as [Hchw [_ Hclose]].
  specialize (Hclose ltac:(discriminate) ltac:(discriminate)). cbn [hd] in Hclose.
  set (q := pre ++ cw).
  assert (Hq : exists ext, q = [s] ++ ext).
  { unfold q. destruct pre as [|a pre'].
    - simpl in Ep. subst p. simpl in P1. subst w. exists (c2 ++ c1). reflexivity.
    - subst p. simpl in P1. subst a. exists (pre' ++ cw). reflexivity. }
  destruct Hq as [ext Eq].
  assert (Hchq : chain (edge g) q).
  { unfold q. apply chain_app. rewrite Ep in P5. apply chain_app in P5. destruct P5 as [C1 [C2 C3]].
    split; auto. split; auto. intros A _. cbn [hd]. specialize (C3 A ltac:(discriminate)). exact C3. }
  assert (Hndq : NoDup q).
  { unfold q. apply NoDup_app_intro; auto.
    - rewrite Ep in P4. apply NoDup_remove_1 in P4. 
      assert (NoDup (pre ++ suf) -> NoDup pre) as F.
      { clear. induction pre; simpl; [constructor|]. intros H. inversion H; subst. constructor; auto.
        intros Hin. apply H2. apply in_or_app. left. exact Hin. }
      apply F. exact P4.
    - intros x Hx Hxc. apply (Hpre x Hx). eapply Permutation_in; eauto. }
  assert (Hlastq : last q 0 = last cw 0) by (unfold q, cw; apply last_app_cons).
  assert (Hwq : In w q) by (unfold q, cw; apply in_or_app; right; left; reflexivity).
  assert (Hprevq : directed = false -> is_prev (prev_of q) w = false).
  { intros Hd. unfold is_prev. destruct (prev_of q) as [p'|] eqn:Epv; auto.
    apply Nat.eqb_neq. intros E. subst p'.
    destruct (prev_of_some q w Epv) as [q0 [z Eq0]].
    assert (Hsp : pre = q0 /\ c2 ++ c1 = [z]).
    { apply (NoDup_split_unique pre (c2 ++ c1) q0 [z] w); [exact Hndq | unfold q, cw in Eq0; exact Eq0]. }
    destruct Hsp as [_ E2]. apply (Hlen2 Hd).
    rewrite <- (Permutation_length Hperm). unfold cw. simpl. rewrite E2. reflexivity. }
  rewrite Eq in Hchq, Hndq, Hlastq, Hwq, Hprevq.
  assert (Hchs : chain (edge g) (s :: ext)) by exact Hchq.
  assert (Hwrow : In w (row g (last (s :: ext) 0))).
  { change (s :: ext) with ([s] ++ ext). rewrite Hlastq. exact Hclose. }
  pose proof (visit_complete g directed (S (length g)) [s] s cs Hrun ext w Hchs Hndq Hwrow Hwq Hprevq) as Hfound.
  rewrite <- Eq in Hfound. unfold q, cw in Hfound. rewrite skipn_index_of_app in Hfound.
  - exists cw. split; [exact Hfound|]. exists (length c1). exact Hrot.
  - intros Hin. apply (Hpre w Hin). exact Hw.
Qed.

(** De-duplication loses no key. *)
Lemma dedup_complete directed : forall cycles visited c,
  In c cycles ->
  In (cycle_key directed c) visited \/
  exists x, In x (dedup directed cycles visited) /\ okey directed x = cycle_key directed c.
Proof.
  induction cycles as [|c0 rest IH]; intros visited c Hc; [destruct Hc|].
  assert (Ekey : forall y, cycle_key directed y = okey directed (roll_min y)) by (destruct directed; reflexivity).
  simpl. destruct (existsb (list_eqb (cycle_key directed c0)) visited) eqn:Ex.
  - destruct Hc as [Hc|Hc].
    + subst c0. left. apply existsb_exists in Ex. destruct Ex as [k [Hk E]]. apply list_eqb_eq in E. subst. exact Hk.
    + apply IH. exact Hc.
  - destruct Hc as [Hc|Hc].
    + subst c0. right. exists (roll_min c). split; [left; reflexivity|]. symmetry. apply Ekey.
    + destruct (IH (cycle_key directed c0 :: visited) c Hc) as [[Hv|Hv]|[x [Hx Ex']]].
      * right. exists (roll_min c0). split; [left; reflexivity|]. rewrite <- Ekey. exact Hv.
      * left. exact Hv.
      * right. exists x. split; [right; exact Hx | exact Ex'].
Qed.

Lemma dedup_nonempty directed c rest : dedup directed (c :: rest) [] <> [].
Proof. simpl. discriminate. Qed.

Lemma count_cons a t x : count (a :: t) x = (if x =? a then 1 else 0) + count t x.
Proof. unfold count. simpl. destruct (x =? a); reflexivity. Qed.

Lemma count_pos l x : In x l -> 0 < count l x.
Proof.
  induction l as [|a t IH]; [intros []|]. intros [H|H]; rewrite count_cons.
  - subst. rewrite Nat.eqb_refl. lia.
  - specialize (IH H). lia.
Qed.

Lemma count_two : forall (l : list nat) i j, i < j -> j < length l -> nthn l i = nthn l j ->
  1 < count l (nthn l i).
Proof.
  induction l as [|a t IH]; intros i j Hij Hj E; [simpl in Hj; lia|].
  rewrite count_cons. destruct j as [|j']; [lia|]. destruct i as [|i'].
  - unfold nthn in *. simpl in *. rewrite Nat.eqb_refl.
    assert (In a t) by (rewrite E; apply nth_In; lia). pose proof (count_pos t a H). lia.
  - unfold nthn in *. simpl in *. assert (H := IH i' j' ltac:(lia) ltac:(lia) E). unfold nthn in H. lia.
Qed.

Lemma hd_In_nonempty (l : list nat) : l <> [] -> In (hd 0 l) l.
Proof. destruct l; [congruence | left; reflexivity]. Qed.

Lemma first_with_label_spec comp l : In l comp ->
  first_with_label comp l < length comp /\ nthn comp (first_with_label comp l) = l.
Proof.
  intros H. apply In_nthn in H. destruct H as [i [Hi Ei]]. unfold first_with_label.
  set (fl := filter (fun u => nthn comp u =? l) (seq 0 (length comp))).
  assert (Hne : fl <> []).
  { intros E. assert (Hin : In i fl) by (apply filter_In; split; [apply in_seq; lia | apply Nat.eqb_eq; exact Ei]).
    rewrite E in Hin. destruct Hin. }
  pose proof (hd_In_nonempty fl Hne) as Hh. apply filter_In in Hh. destruct Hh as [H1 H2].
  apply in_seq in H1. apply Nat.eqb_eq in H2. split; [lia | exact H2].
Qed.

Lemma long_cycle_same_label g comp x y t :
  wf_graph g -> components_contract g true comp -> dcycle g (x :: y :: t) ->
  x < length g /\ y < length g /\ x <> y /\ nthn comp x = nthn comp y.
Proof.
  intros Hwf [Hlen Hc] Hcy. pose proof Hcy as [Hne [Hnd Hch]].
  assert (Hxy : In y (row g x)) by (simpl in Hch; tauto).
  assert (Hx : x < length g) by (eapply row_nonempty_lt; eauto).
  assert (Hy : y < length g) by (eapply Hwf; eauto).
  destruct (simple_cycle_hd_reach (edge g) (x :: y :: t) y Hcy (or_intror (or_introl eq_refl))) as [R1 R2].
  cbn [hd] in R1, R2. split; auto. split; auto. split.
  - intros E. subst y. inversion Hnd as [|? ? Hni _]. apply Hni. left. reflexivity.
  - apply Hc; auto. split; assumption.
Qed.

Lemma loops_In g u : In u (row g u) ->
  In [u] (map (fun u => [u]) (filter (fun u => edgeb g u u) (nodes g))).
Proof.
  intros H. apply in_map_iff. exists u. split; auto. apply filter_In. split.
  - apply nodes_In. eapply row_nonempty_lt; eauto.
  - apply edgeb_true. exact H.
Qed.

Lemma dedup_keeps_directed (cycles : list (list nat)) c c0 :
  In c0 cycles -> same_dcycle c c0 -> exists c', In c' (dedup true cycles []) /\ same_dcycle c c'.
Proof.
  intros Hin Hs. destruct (dedup_complete true cycles [] c0 Hin) as [[]|[x [Hx Ex]]].
  cbn [okey cycle_key] in Ex. subst x. exists (roll_min c0). split; auto.
  eapply same_dcycle_trans; [exact Hs|]. exists (index_of (list_min c0) c0). reflexivity.
Qed.

Theorem get_cycles_complete_directed_lemma (g : graph) (directed : option bool) (comp : list nat) cs :
  wf_graph g -> components_contract g true comp -> resolve_directed g directed = Ok true ->
  get_cycles g directed comp = Ok cs ->
  forall c, dcycle g c -> exists c', In c' cs /\ same_dcycle c c'.
Proof.
  intros Hwf Hcon Hd. pose proof Hcon as [Hlen Hc]. unfold get_cycles. rewrite Hd. cbn [andb negb].
  set (loops := map (fun u => [u]) (filter (fun u => edgeb g u u) (nodes g))).
  destruct (n_labels comp =? length g) eqn:Enl.
  - intros H; inversion H; subst cs. clear H. intros c Hcy. pose proof Hcy as [Hne [Hnd Hch]].
    destruct c as [|x [|y t]]; [congruence| |].
    + exists [x]. split; [|apply same_dcycle_refl]. apply loops_In. simpl in Hch. tauto.
    + exfalso. destruct (long_cycle_same_label g comp x y t Hwf Hcon Hcy) as [Hx [Hy [Hxy El]]].
      apply Nat.eqb_eq in Enl. rewrite <- Hlen in Enl. apply n_labels_full in Enl.
      apply Hxy. apply (proj1 (NoDup_nthn comp) Enl); auto; lia.
  - destruct (concat_opt _) as [found|] eqn:Ef; [|discriminate].
    intros H; inversion H; subst cs. clear H. intros c Hcy. pose proof Hcy as [Hne [Hnd Hch]].
    destruct c as [|x [|y t]]; [congruence| |].
    + apply (dedup_keeps_directed _ [x] [x]); [|apply same_dcycle_refl].
      apply in_or_app. left. apply loops_In. simpl in Hch. tauto.
    + destruct (long_cycle_same_label g comp x y t Hwf Hcon Hcy) as [Hx [Hy [Hxy El]]].
      set (l := nthn comp x).
      assert (Hcnt : 1 < count comp l).
      { destruct (Nat.lt_total x y) as [Hlt|[E|Hgt]]; [|congruence|].
        - apply (count_two comp x y); auto; lia.
        - unfold l. rewrite El. apply (count_two comp y x); auto; lia. }
      assert (Hl : In l comp) by (apply nthn_In; lia).
      destruct (first_with_label_spec comp l Hl) as [Hs1 Hs2]. set (s := first_with_label comp l) in *.
      assert (Hreach : reach (edge g) s x).
      { assert (Hsx : sconn g s x) by (apply Hc; try lia; exact Hs2). destruct Hsx; assumption. }
      assert (Hmem : In (gc_visit (S (length g)) g true s [s])
                (map (fun s => gc_visit (S (length g)) g true s [s])
                     (map (first_with_label comp) (filter (fun l => 1 <? count comp l) (np_unique comp))))).
      { apply in_map_iff. exists s. split; auto. apply in_map_iff. exists l. split; auto.
        apply filter_In. split; [apply np_unique_In; exact Hl | apply Nat.ltb_lt; exact Hcnt]. }
      destruct (concat_opt_incl _ _ Ef _ Hmem) as [a [Ea Hsub]].
      destruct (found_complete g true s (x :: y :: t) a Hwf Ea Hcy ltac:(discriminate) Hreach) as [c' [Hc' Hsame]].
      apply (dedup_keeps_directed _ _ c'); auto. apply in_or_app. right. apply Hsub. exact Hc'.
Qed.

(** Nothing is returned exactly for acyclic graphs (self-loops count as cycles; undirected graphs are
    taken with canonical rows, i.e. without repeated column indices). *)
Theorem get_cycles_empty_iff_acyclic_lemma (g : graph) (directed : option bool) (comp : list nat) (d : bool) cs :
  wf_graph g -> (forall u, NoDup (row g u)) -> resolve_directed g directed = Ok d ->
  components_contract g d comp ->
  get_cycles g directed comp = Ok cs ->
  (cs = [] <-> ~ has_cycle g d).
Proof.
  intros Hwf Hnd Hd Hcon Hrun.
  assert (Hsound : cs <> [] -> has_cycle g d).
  { intros Hne. destruct cs as [|c0 rest]; [congruence|].
    destruct (get_cycles_sound_lemma g directed comp d (c0 :: rest) Hwf Hd Hrun) as [Hall _].
    destruct (Hall c0 (or_introl eq_refl)) as [H1 [H2 _]]. exists c0. destruct d; [exact H1|].
    split; auto. }
  split.
  2:{ intros Hno. destruct cs as [|c0 rest]; auto. exfalso. apply Hno. apply Hsound. discriminate. }
  intros Ecs [c Hcy]. subst cs. destruct d.
  - destruct (get_cycles_complete_directed_lemma g directed comp [] Hwf Hcon Hd Hrun c Hcy) as [c' [[] _]].
  - destruct Hcy as [Hcy Hl2]. pose proof Hcy as [Hne [Hndc Hch]].
    pose proof (resolve_directed_false g directed Hd) as Hsym0.
    pose proof (proj1 (is_symmetric_spec g) Hsym0) as Hsym.
    unfold get_cycles in Hrun. rewrite Hd in Hrun. cbn [andb negb] in Hrun.
    set (loops := map (fun u => [u]) (filter (fun u => edgeb g u u) (nodes g))) in *.
    destruct (has_loops g) eqn:Hl.
    + apply has_loops_spec in Hl. destruct Hl as [u [Hu Huu]].
      assert (Hlo : In [u] loops) by (apply loops_In; exact Huu).
      destruct (count_criterion g comp).
      * inversion Hrun as [E]. rewrite E in Hlo. destruct Hlo.
      * destruct (concat_opt _) as [found|]; [|discriminate]. inversion Hrun as [E].
        destruct loops as [|l0 lr]; [destruct Hlo|]. simpl in E. discriminate.
    + assert (Hcrit : count_criterion g comp = false).
      { assert (Hacy : is_acyclic g directed comp = Ok (count_criterion g comp)).
        { unfold is_acyclic. rewrite Hd, Hl. reflexivity. }
        pose proof (is_acyclic_undirected_lemma g directed comp _ Hwf Hnd Hcon Hd Hacy) as Hiff.
        destruct (count_criterion g comp); auto. exfalso. apply (proj1 Hiff eq_refl).
        exists c. split; auto. }
      rewrite Hcrit in Hrun. destruct (concat_opt _) as [found|] eqn:Ef; [|discriminate].
      inversion Hrun as [E]. clear Hrun.
      destruct Hcon as [Hlen Hc].
      assert (Hx : hd 0 c < length g).
      { destruct c as [|x t]; [congruence|]. cbn [hd]. apply chain_app in Hch. destruct Hch as [_ [_ Hcl]].
        specialize (Hcl ltac:(discriminate) ltac:(discriminate)). cbn [hd] in Hcl.
        eapply Hwf. exact Hcl. }
      set (x := hd 0 c) in *. set (l := nthn comp x).
      assert (Hlin : In l comp) by (apply nthn_In; lia).
      destruct (first_with_label_spec comp l Hlin) as [Hs1 Hs2]. set (s := first_with_label comp l) in *.
      assert (Hreach : reach (edge g) s x).
      { assert (Hw : wconn g s x) by (apply Hc; try lia; exact Hs2).
        eapply reach_mono; [|exact Hw]. intros a b [Hab|Hab]; [exact Hab | apply Hsym; exact Hab]. }
      assert (Hmem : In (gc_visit (S (length g)) g false s [s])
                (map (fun s => gc_visit (S (length g)) g false s [s]) (map (first_with_label comp) (np_unique comp)))).
      { apply in_map_iff. exists s. split; auto. apply in_map_iff. exists l. split; auto.
        apply np_unique_In. exact Hlin. }
      destruct (concat_opt_incl _ _ Ef _ Hmem) as [a [Ea Hsub]].
      destruct (found_complete g false s c a Hwf Ea Hcy (fun _ => Hl2) Hreach) as [c' [Hc' _]].
      apply Hsub in Hc'. destruct (loops ++ found) as [|z zs] eqn:Ez.
      * apply app_eq_nil in Ez. destruct Ez as [_ Ez]. subst found. destruct Hc'.
      * simpl in E. discriminate.
Qed.

(** * break_cycles: BOUNDED theorems (exhaustive evaluation, n <= 4) and the refutation *)

Definition out_degree (g : graph) (root : list nat) : nat := sumn (map (fun r => length (row g r)) root).

(** The model run with the canonical oracle answers (labels = smallest node of the class).
    [vo]: does the undirected branch visit the components without root (false = code as it stands). *)
Definition bc_run (vo : bool) (directed : option bool) (d : bool) (g : graph) (root : list nat) : result graph :=
  break_cycles vo g root directed (canon_labels g d) (canon_labels (drop_loops g) d).
Definition bc_check (vo : bool) (directed : option bool) (d : bool) (g : graph) (root : list nat) : bool :=
  match bc_run vo directed d g root with
  | Ok h => bc_post g root d h
  | Err _ => false
  end.

(** The directed branch does not depend on [vo]. *)
Lemma break_cycles_vo_directed vo g root directed c1 c2 :
  resolve_directed g directed = Ok true ->
  break_cycles vo g root directed c1 c2 = break_cycles false g root directed c1 c2.
Proof.
  intros H. unfold break_cycles. destruct (is_acyclic g directed c1) as [[|]|]; auto.
  destruct (negb (forallb (fun r => r <? length g) root)); auto.
  destruct (sumn (map (fun r => length (row g r)) root) =? 0); auto.
  rewrite H. reflexivity.
Qed.

(** Only the resolved flag matters. *)
Lemma break_cycles_flag_eq vo g root d1 d2 c1 c2 :
  resolve_directed g d1 = resolve_directed g d2 ->
  break_cycles vo g root d1 c1 c2 = break_cycles vo g root d2 c1 c2.
Proof. intros H. unfold break_cycles, is_acyclic. rewrite H. reflexivity. Qed.

(** Directed branch: evaluated with the explicit flag directed=True on every digraph; the inferred
    flag on a non-symmetric pattern resolves to the same value. *)
Definition dir_check (g : graph) : bool :=
  forallb (fun root => negb (0 <? out_degree g root) || bc_check false (Some true) true g root)
          (nonempty_sublists (nodes g)).
Definition small_digraphs : list graph :=
  all_digraphs 0 true ++ all_digraphs 1 true ++ all_digraphs 2 true ++ all_digraphs 3 true ++ all_digraphs 4 false.

Lemma dir_check_small : forallb dir_check small_digraphs = true.
Proof. vm_cast_no_check (eq_refl true). Qed.

Theorem break_cycles_ok_upto_4_lemma (vo : bool) (g : graph) (root : list nat) (directed : option bool) :
  In g small_digraphs -> In root (nonempty_sublists (nodes g)) -> 0 < out_degree g root ->
  directed = Some true \/ (directed = None /\ is_symmetric g = false) ->
  exists h, bc_run vo directed true g root = Ok h /\ bc_post g root true h = true.
Proof.
  intros Hg Hr Hd Hflag.
  assert (Hres : resolve_directed g directed = Ok true).
  { destruct Hflag as [E|[E Hs]]; subst directed; simpl; [reflexivity | rewrite Hs; reflexivity]. }
  unfold bc_run. rewrite (break_cycles_vo_directed vo g root directed _ _ Hres).
  rewrite (break_cycles_flag_eq false g root directed (Some true) _ _ Hres).
  pose proof (proj1 (forallb_forall dir_check small_digraphs) dir_check_small g Hg) as H.
  unfold dir_check in H. rewrite forallb_forall in H. specialize (H root Hr).
  apply Nat.ltb_lt in Hd. rewrite Hd in H. cbn [negb orb] in H.
  unfold bc_check, bc_run in H.
  destruct (break_cycles false g root (Some true) (canon_labels g true) (canon_labels (drop_loops g) true)) as [h|e];
    [|discriminate]. exists h. auto.
Qed.

(** Undirected branch. For the code as it stands ([vo = false]) the positive statement needs the
    hypothesis that every node lying on a cycle (of length >= 3) is reachable from the root set: cycles
    elsewhere are never visited. With the repair ([vo = true]) no hypothesis is needed. *)
Definition on_ucycle_b (g : graph) (u : nat) : bool :=
  existsb (fun v => negb (v =? u) && nthb (reach_from (remove_edge (remove_edge g u v) v u) [v]) u) (row g u).
Definition cycles_covered (g : graph) (root : list nat) : bool :=
  let r := reach_from g root in forallb (fun u => implb (on_ucycle_b g u) (nthb r u)) (nodes g).
Definition und_check (vo : bool) (g : graph) : bool :=
  forallb (fun root => negb (0 <? out_degree g root) || (negb vo && negb (cycles_covered g root)) ||
                       bc_check vo (Some false) false g root)
          (nonempty_sublists (nodes g)).
Definition small_undirected : list graph :=
  all_undirected 0 ++ all_undirected 1 ++ all_undirected 2 ++ all_undirected 3 ++ all_undirected 4.

Lemma small_undirected_symmetric : forallb is_symmetric small_undirected = true.
Proof. vm_cast_no_check (eq_refl true). Qed.
Lemma und_check_small_current : forallb (und_check false) small_undirected = true.
Proof. vm_cast_no_check (eq_refl true). Qed.
Lemma und_check_small_repaired : forallb (und_check true) small_undirected = true.
Proof. vm_cast_no_check (eq_refl true). Qed.

Theorem break_cycles_undirected_ok_upto_4_lemma (vo : bool) (g : graph) (root : list nat) (directed : option bool) :
  In g small_undirected -> In root (nonempty_sublists (nodes g)) -> 0 < out_degree g root ->
  (vo = false -> cycles_covered g root = true) ->
  directed = None \/ directed = Some false ->
  exists h, bc_run vo directed false g root = Ok h /\ bc_post g root false h = true.
Proof.
  intros Hg Hr Hd Hcov Hflag.
  pose proof (proj1 (forallb_forall _ _) small_undirected_symmetric g Hg) as Hsym.
  assert (Hres : resolve_directed g directed = resolve_directed g (Some false)).
  { destruct Hflag as [E|E]; subst directed; simpl; rewrite Hsym; reflexivity. }
  unfold bc_run. rewrite (break_cycles_flag_eq vo g root directed (Some false) _ _ Hres).
  assert (H : und_check vo g = true).
  { destruct vo; [exact (proj1 (forallb_forall _ _) und_check_small_repaired g Hg)
                 | exact (proj1 (forallb_forall _ _) und_check_small_current g Hg)]. }
  unfold und_check in H. rewrite forallb_forall in H. specialize (H root Hr).
  apply Nat.ltb_lt in Hd. rewrite Hd in H. cbn [negb orb] in H.
  assert (Hc : negb vo && negb (cycles_covered g root) = false).
  { destruct vo; [reflexivity|]. rewrite (Hcov eq_refl). reflexivity. }
  rewrite Hc in H. cbn [orb] in H.
  unfold bc_check, bc_run in H.
  destruct (break_cycles vo g root (Some false) (canon_labels g false) (canon_labels (drop_loops g) false)) as [h|e];
    [|discriminate]. exists h. auto.
Qed.

(** Refutation (D22): triangle {0,2,3}, separate root 1 carrying a self-loop. The undirected branch
    as coded ([vo = false]) returns the triangle untouched: the result is not acyclic. The coverage
    hypothesis above fails. *)
Definition d22_graph : graph := [[2; 3]; [1]; [0; 3]; [0; 2]].

Theorem break_cycles_undirected_refuted_lemma :
  exists g root comp h,
    wf_graph g /\ is_symmetric g = true /\ In root (nonempty_sublists (nodes g)) /\ 0 < out_degree g root /\
    components_contract_b g false comp = true /\
    (forall comp2, break_cycles false g root None comp comp2 = Ok h) /\
    ucycle h [0; 2; 3] /\ acyclic_b h false = false /\ bc_post g root false h = false /\
    cycles_covered g root = false.
Proof.
  exists d22_graph, [1], [0; 1; 0; 0], [[2; 3]; []; [0; 3]; [0; 2]].
  split.
  { intros u v H. unfold d22_graph in *.
    destruct u as [|[|[|[|u]]]]; simpl in H; cbn [length]; try lia; try (destruct u; contradiction). }
  split; [reflexivity|]. split; [vm_compute; tauto|]. split; [vm_compute; lia|].
  split; [reflexivity|]. split; [intros comp2; reflexivity|].
  split.
  { split; [|simpl; lia]. split; [discriminate|]. split.
    - repeat constructor; simpl; intuition lia.
    - simpl. unfold edge. simpl. tauto. }
  split; [reflexivity|]. split; reflexivity.
Qed.

(** * Meaning of the brute-force postcondition [bc_post] (directed case) *)

(** The BFS of Model/Bfs.v ends with the invariant of BfsProofs: reached = reachable. *)
Lemma bfs_loop_inv g src :
  forall fuel r reach dist,
    Inv g src r reach dist -> cf reach < fuel ->
    exists dist' r' reach', bfs_loop fuel g (Z.of_nat (S r)) reach dist = Some dist' /\
                            Inv g src r' reach' dist' /\
                            existsb (fun b : bool => b) (frontier g reach') = false.
Proof.
  induction fuel as [|f IH]; intros r reach dist HI Hf; [lia|].
  cbn [bfs_loop].
  destruct (existsb (fun b : bool => b) (frontier g reach)) eqn:E.
  - replace (Z.of_nat (S r) + 1)%Z with (Z.of_nat (S (S r))) by lia.
    apply IH.
    + apply inv_step. exact HI.
    + apply existsb_exists in E. destruct E as [b [Hb Hbt]]. subst b.
      destruct (In_nth _ _ false Hb) as [i [Hi Hn]].
      rewrite frontier_length in Hi.
      assert (Hfi : nthb reach i = false).
      { apply (frontier_true g reach i Hi). exact Hn. }
      pose proof (inv_lr _ _ _ _ _ HI) as Hlr.
      assert (Hlt : cf (map2 orb reach (frontier g reach)) < cf reach).
      { apply (cf_map2_lt reach (frontier g reach) i); auto. lia. }
      lia.
  - exists dist, r, reach. split; [reflexivity|]. split; assumption.
Qed.

Lemma one_hot_length n srcs : length (one_hot n srcs) = n.
Proof. unfold one_hot. rewrite map_length, seq_length. reflexivity. Qed.

Lemma nthb_one_hot n srcs v : v < n -> nthb (one_hot n srcs) v = memn v srcs.
Proof. intros H. unfold nthb, one_hot. exact (nth_map_seq (fun v => memn v srcs) n v false H). Qed.

Lemma reach_from_spec g srcs v : v < length g ->
  (nthb (reach_from g srcs) v = true <-> exists k, reachk g (one_hot (length g) srcs) k v).
Proof.
  intros Hv. unfold reach_from. set (src := one_hot (length g) srcs).
  assert (Hs : length src = length g) by apply one_hot_length.
  unfold bfs. change 1%Z with (Z.of_nat (S 0)).
  destruct (bfs_loop_inv g src (S (length g)) 0 src _ (inv_init g src Hs)) as [dist [r [rch [Hb [HI HE]]]]].
  { pose proof (cf_le_length src). lia. }
  rewrite Hb. pose proof (inv_closed _ _ _ _ _ HI HE) as Hcl.
  unfold nthb. rewrite (nth_map_lt (fun x => (0 <=? x)%Z) dist v 0%Z false) by (rewrite (inv_ld _ _ _ _ _ HI); exact Hv).
  fold (nthz dist v). destruct (nthb rch v) eqn:E.
  - destruct (inv_dist_t _ _ _ _ _ HI v Hv E) as [k [Hd [Hr _]]]. split.
    + intros _. exists k. exact Hr.
    + intros _. apply Z.leb_le. lia.
  - rewrite (inv_dist_f _ _ _ _ _ HI v Hv E). split; [discriminate|].
    intros [k Hr]. rewrite (Hcl k v Hr Hv) in E. discriminate.
Qed.

Lemma reach_step_right (E : nat -> nat -> Prop) u x v : reach E u x -> E x v -> reach E u v.
Proof. intros H1 H2. eapply reach_trans; [exact H1 | apply reach_one; exact H2]. Qed.

Lemma reachk_reach g src : forall k v, reachk g src k v -> exists s, nthb src s = true /\ reach (edge g) s v.
Proof.
  induction k as [|k IH]; intros v H; simpl in H.
  - exists v. split; auto. apply reach_refl.
  - destruct H as [u [Hu Huv]]. destruct (IH u Hu) as [s [Hs Hr]]. exists s. split; auto.
    eapply reach_step_right; eauto.
Qed.

Lemma reach_reachk g src u v : reach (edge g) u v -> (exists k, reachk g src k u) -> exists k, reachk g src k v.
Proof.
  intros H. induction H as [u|u x v Hux Hxv IH]; auto.
  intros [k Hk]. apply IH. exists (S k). simpl. exists u. split; auto.
Qed.

Lemma reach_from_iff g srcs v : v < length g ->
  (nthb (reach_from g srcs) v = true <-> exists s, In s srcs /\ s < length g /\ reach (edge g) s v).
Proof.
  intros Hv. rewrite (reach_from_spec g srcs v Hv). split.
  - intros [k Hk]. destruct (reachk_reach g _ k v Hk) as [s [Hs Hr]]. exists s.
    destruct (Nat.lt_ge_cases s (length g)) as [Hlt|Hge].
    + rewrite nthb_one_hot in Hs by exact Hlt. apply memn_In in Hs. auto.
    + unfold nthb in Hs. rewrite nth_overflow in Hs by (rewrite one_hot_length; exact Hge). discriminate.
  - intros [s [Hin [Hs Hr]]]. apply (reach_reachk g _ s v Hr). exists 0. simpl.
    rewrite nthb_one_hot by exact Hs. apply memn_In. exact Hin.
Qed.

Lemma reach_lt g u v : wf_graph g -> u < length g -> reach (edge g) u v -> v < length g.
Proof.
  intros Hwf Hu H. induction H as [u|u x v Hux Hxv IH]; auto. apply IH. eapply Hwf; eauto.
Qed.

Lemma acyclic_dir_b_sound h : acyclic_dir_b h = true -> ~ exists c, dcycle h c.
Proof.
  unfold acyclic_dir_b. rewrite forallb_forall. intros H [c Hcy]. pose proof Hcy as [Hne [Hnd Hch]].
  destruct c as [|u t]; [congruence|].
  assert (Hedge : exists y, In y (row h u) /\ reach (edge h) y u).
  { destruct t as [|y t'].
    - exists u. simpl in Hch. split; [tauto | apply reach_refl].
    - exists y. split; [simpl in Hch; tauto|].
      destruct (simple_cycle_hd_reach (edge h) (u :: y :: t') y Hcy (or_intror (or_introl eq_refl))) as [_ R].
      exact R. }
  destruct Hedge as [y [Hy Hr]].
  assert (Hu : u < length h) by (eapply row_nonempty_lt; eauto).
  specialize (H u (proj2 (nodes_In h u) Hu)). apply negb_true_iff in H.
  rewrite existsb_false in H. specialize (H y Hy).
  assert (Ht : nthb (reach_from h [y]) u = true); [|congruence].
  apply reach_from_iff; auto. exists y. split; [left; reflexivity|]. split; auto.
  (* y < length h: it has an outgoing walk to u unless y = u *)
  inversion Hr as [|? x ? Hyx _]; subst; auto. eapply row_nonempty_lt; eauto.
Qed.

Lemma subgraph_b_sound h g : subgraph_b h g = true ->
  length h = length g /\ forall u v, In v (row h u) -> In v (row g u).
Proof.
  unfold subgraph_b. intros H. apply andb_true_iff in H. destruct H as [H1 H2].
  apply Nat.eqb_eq in H1. split; auto. rewrite forallb_forall in H2. intros u v Hv.
  assert (Hu : u < length h) by (eapply row_nonempty_lt; eauto).
  specialize (H2 u (proj2 (nodes_In h u) Hu)). rewrite forallb_forall in H2.
  apply edgeb_true. apply H2. exact Hv.
Qed.

Lemma keeps_reach_b_sound g h root : wf_graph g -> length h = length g ->
  keeps_reach_b g h root = true ->
  forall r v, In r root -> r < length g -> reach (edge g) r v ->
    exists r', In r' root /\ reach (edge h) r' v.
Proof.
  intros Hwf Hlen H r v Hr Hrl Hrv. unfold keeps_reach_b in H. cbv zeta in H. rewrite forallb_forall in H.
  assert (Hv : v < length g) by (eapply reach_lt; eauto).
  specialize (H v (proj2 (nodes_In g v) Hv)).
  assert (Ha : nthb (reach_from g root) v = true) by (apply reach_from_iff; auto; exists r; auto).
  rewrite Ha in H. simpl in H. apply reach_from_iff in H; [|lia].
  destruct H as [s [Hs [_ Hsv]]]. exists s. auto.
Qed.

(** What [bc_post g root true h = true] means. *)
Theorem bc_post_directed_sound g root h : wf_graph g -> bc_post g root true h = true ->
  length h = length g /\
  (forall u v, edge h u v -> edge g u v) /\
  (~ exists c, dcycle h c) /\
  (forall r v, In r root -> r < length g -> reach (edge g) r v -> exists r', In r' root /\ reach (edge h) r' v).
Proof.
  intros Hwf H. unfold bc_post in H. cbn [orb acyclic_b] in H. rewrite andb_true_r in H.
  apply andb_true_iff in H. destruct H as [H H3]. apply andb_true_iff in H. destruct H as [H1 H2].
  destruct (subgraph_b_sound h g H1) as [Hlen Hsub]. split; auto. split; [exact Hsub|].
  split; [apply acyclic_dir_b_sound; exact H2|]. apply keeps_reach_b_sound; auto.
Qed.

Definition wf_b (g : graph) : bool := forallb (fun r => forallb (fun v => v <? length g) r) g.
Lemma wf_b_sound g : wf_b g = true -> wf_graph g.
Proof.
  unfold wf_b. rewrite forallb_forall. intros H u v Hv.
  assert (Hu : u < length g) by (eapply row_nonempty_lt; eauto).
  specialize (H (row g u) (nth_In g [] Hu)). rewrite forallb_forall in H. apply Nat.ltb_lt. apply H. exact Hv.
Qed.
Lemma small_digraphs_wf : forallb wf_b small_digraphs = true.
Proof. vm_cast_no_check (eq_refl true). Qed.

(** The bounded theorem in propositional form. *)
Theorem break_cycles_ok_upto_4_prop_lemma (vo : bool) (g : graph) (root : list nat) (directed : option bool) :
  In g small_digraphs -> In root (nonempty_sublists (nodes g)) -> 0 < out_degree g root ->
  directed = Some true \/ (directed = None /\ is_symmetric g = false) ->
  exists h, bc_run vo directed true g root = Ok h /\
    length h = length g /\
    (forall u v, edge h u v -> edge g u v) /\
    (~ exists c, dcycle h c) /\
    (forall r v, In r root -> r < length g -> reach (edge g) r v -> exists r', In r' root /\ reach (edge h) r' v).
Proof.
  intros Hg Hr Hd Hf. destruct (break_cycles_ok_upto_4_lemma vo g root directed Hg Hr Hd Hf) as [h [H1 H2]].
  exists h. split; auto. apply bc_post_directed_sound; auto.
  apply wf_b_sound. exact (proj1 (forallb_forall wf_b small_digraphs) small_digraphs_wf g Hg).
Qed.

(** * Meaning of [bc_post] (undirected case) *)
Lemma remove_edge_length g a b : length (remove_edge g a b) = length g.
Proof. unfold remove_edge, nodes. rewrite map_length, seq_length. reflexivity. Qed.

Lemma remove_edge_row g a b x : x < length g ->
  row (remove_edge g a b) x = if x =? a then filter (fun y => negb (y =? b)) (row g x) else row g x.
Proof.
  intros H. unfold remove_edge, nodes. unfold row at 1.
  exact (nth_map_seq (fun i => if i =? a then filter (fun y => negb (y =? b)) (row g i) else row g i) (length g) x [] H).
Qed.

Lemma remove_edge_edge g a b x y :
  edge g x y -> ~ (x = a /\ y = b) -> edge (remove_edge g a b) x y.
Proof.
  intros He Hn. unfold edge in *. assert (Hx : x < length g) by (eapply row_nonempty_lt; eauto).
  rewrite remove_edge_row by exact Hx. destruct (Nat.eqb_spec x a) as [E|E]; auto.
  apply filter_In. split; auto. apply negb_true_iff. apply Nat.eqb_neq. intros E'. apply Hn. auto.
Qed.

Lemma chain_mono_In (E F : nat -> nat -> Prop) l :
  (forall a b, In a l -> In b l -> E a b -> F a b) -> chain E l -> chain F l.
Proof.
  induction l as [|x t IH]; intros H Hc; [exact I|].
  apply chain_cons in Hc. destruct Hc as [A B]. apply chain_cons. split.
  - intros Hne. apply H; [left; reflexivity | right; destruct t; [congruence | left; reflexivity] | apply A; exact Hne].
  - apply IH; auto. intros a b Ha Hb. apply H; right; assumption.
Qed.

Lemma acyclic_und_b_sound h : acyclic_und_b h = true -> ~ exists c, ucycle h c.
Proof.
  unfold acyclic_und_b. intros H. apply andb_true_iff in H. destruct H as [Hl H].
  apply negb_true_iff in Hl. pose proof (proj1 (has_loops_false h) Hl) as Hlf.
  rewrite forallb_forall in H. intros [c [Hcy Hl2]]. pose proof Hcy as [Hne [Hnd Hch]].
  destruct c as [|u [|v [|w t]]]; [congruence | | simpl in Hl2; lia |].
  - simpl in Hch. apply (Hlf u). tauto.
  - assert (Huv : In v (row h u)) by (simpl in Hch; tauto).
    assert (Hu : u < length h) by (eapply row_nonempty_lt; eauto).
    specialize (H u (proj2 (nodes_In h u) Hu)). rewrite forallb_forall in H. specialize (H v Huv).
    apply negb_true_iff in H.
    set (h' := remove_edge (remove_edge h u v) v u) in *.
    assert (Hlen : length h' = length h) by (unfold h'; rewrite !remove_edge_length; reflexivity).
    (* distinctness facts *)
    inversion Hnd as [|? ? Hu_notin Hnd1]; subst. inversion Hnd1 as [|? ? Hv_notin Hnd2]; subst.
    assert (Huv_ne : u <> v) by (intros E; apply Hu_notin; left; auto).
    assert (Hkeep : forall a b, edge h a b -> ~ (a = u /\ b = v) -> ~ (a = v /\ b = u) -> edge h' a b).
    { intros a b He N1 N2. unfold h'. apply remove_edge_edge; [apply remove_edge_edge|]; auto. }
    change ((u :: v :: w :: t) ++ [hd 0 (u :: v :: w :: t)]) with (u :: v :: (w :: t ++ [u])) in Hch.
    apply chain_cons in Hch. destruct Hch as [_ Hch]. apply chain_cons in Hch. destruct Hch as [Hvw Hch].
    specialize (Hvw ltac:(discriminate)). cbn [hd app] in Hvw.
    assert (Hch' : chain (edge h') (v :: (w :: t ++ [u]))).
    { apply chain_cons. split.
      - intros _. cbn [hd app]. apply Hkeep; auto.
        + intros [E _]. congruence.
        + intros [_ E]. subst w. apply Hu_notin. right. left. reflexivity.
      - eapply chain_mono_In; [|exact Hch]. intros a b Ha Hb He.
        assert (Hav : a <> v).
        { intros E; subst a. change (w :: t ++ [u]) with ((w :: t) ++ [u]) in Ha. apply in_app_or in Ha.
          destruct Ha as [Ha|[Ha|[]]]; [apply Hv_notin; exact Ha | congruence]. }
        assert (Hbv : b <> v).
        { intros E; subst b. change (w :: t ++ [u]) with ((w :: t) ++ [u]) in Hb. apply in_app_or in Hb.
          destruct Hb as [Hb|[Hb|[]]]; [apply Hv_notin; exact Hb | congruence]. }
        apply Hkeep; auto; intros [E1 E2]; congruence. }
    pose proof (chain_reach_last (edge h') v (w :: t ++ [u]) Hch') as Hr.
    assert (Elast : last (v :: w :: t ++ [u]) 0 = u).
    { change (v :: w :: t ++ [u]) with ((v :: w :: t) ++ [u]). apply last_last. }
    rewrite Elast in Hr.
    assert (Ht : nthb (reach_from h' [v]) u = true); [|congruence].
    apply reach_from_iff; [lia|]. exists v. split; [left; reflexivity|]. split; auto.
    rewrite Hlen. eapply row_nonempty_lt. exact Hvw.
Qed.

Theorem bc_post_undirected_sound g root h : wf_graph g -> bc_post g root false h = true ->
  length h = length g /\
  (forall u v, edge h u v -> edge g u v) /\
  (forall u v, edge h u v -> edge h v u) /\
  (~ exists c, ucycle h c) /\
  (forall r v, In r root -> r < length g -> reach (edge g) r v -> exists r', In r' root /\ reach (edge h) r' v).
Proof.
  intros Hwf H. unfold bc_post in H. cbn [orb acyclic_b] in H.
  apply andb_true_iff in H. destruct H as [H H4]. apply andb_true_iff in H. destruct H as [H H3].
  apply andb_true_iff in H. destruct H as [H1 H2].
  destruct (subgraph_b_sound h g H1) as [Hlen Hsub]. split; auto. split; [exact Hsub|].
  split; [exact (proj1 (is_symmetric_spec h) H3)|].
  split; [apply acyclic_und_b_sound; exact H2|]. apply keeps_reach_b_sound; auto.
Qed.

Lemma small_undirected_wf : forallb wf_b small_undirected = true.
Proof. vm_cast_no_check (eq_refl true). Qed.

Theorem break_cycles_undirected_ok_upto_4_prop_lemma (vo : bool) (g : graph) (root : list nat) (directed : option bool) :
  In g small_undirected -> In root (nonempty_sublists (nodes g)) -> 0 < out_degree g root ->
  (vo = false -> cycles_covered g root = true) ->
  directed = None \/ directed = Some false ->
  exists h, bc_run vo directed false g root = Ok h /\
    length h = length g /\
    (forall u v, edge h u v -> edge g u v) /\
    (forall u v, edge h u v -> edge h v u) /\
    (~ exists c, ucycle h c) /\
    (forall r v, In r root -> r < length g -> reach (edge g) r v -> exists r', In r' root /\ reach (edge h) r' v).
Proof.
  intros Hg Hr Hd Hc Hf.
  destruct (break_cycles_undirected_ok_upto_4_lemma vo g root directed Hg Hr Hd Hc Hf) as [h [H1 H2]].
  exists h. split; auto. apply bc_post_undirected_sound; auto.
  apply wf_b_sound. exact (proj1 (forallb_forall wf_b small_undirected) small_undirected_wf g Hg).
Qed.

Theorem break_cycles_undirected_repaired_lemma (g : graph) (root : list nat) (directed : option bool) :
  In g small_undirected -> In root (nonempty_sublists (nodes g)) -> 0 < out_degree g root ->
  directed = None \/ directed = Some false ->
  exists h, bc_run true directed false g root = Ok h /\
    length h = length g /\
    (forall u v, edge h u v -> edge g u v) /\
    (forall u v, edge h u v -> edge h v u) /\
    (~ exists c, ucycle h c) /\
    (forall r v, In r root -> r < length g -> reach (edge g) r v -> exists r', In r' root /\ reach (edge h) r' v).
Proof.
  intros Hg Hr Hd Hf. apply break_cycles_undirected_ok_upto_4_prop_lemma; auto. discriminate.
Qed.

(** * get_cycles never runs out of depth budget *)
Lemma concat_opt_all_some {A} (l : list (option (list A))) :
  (forall o, In o l -> exists a, o = Some a) -> exists r, concat_opt l = Some r.
Proof.
  induction l as [|o t IH]; intros H; [exists []; reflexivity|].
  destruct (H o (or_introl eq_refl)) as [a Ea]. subst o.
  destruct IH as [r Er]; [intros o Ho; apply H; right; exact Ho|].
  exists (a ++ r). simpl. rewrite Er. reflexivity.
Qed.

Lemma good_path_length g path cur : good_path g path cur -> length path <= length g.
Proof.
  intros [_ [_ [Hnd [_ Hlt]]]].
  assert (Hincl : incl path (seq 0 (length g))) by (intros x Hx; apply in_seq; specialize (Hlt x Hx); lia).
  pose proof (NoDup_incl_length Hnd Hincl) as H. rewrite seq_length in H. exact H.
Qed.

Lemma gc_visit_total g directed : wf_graph g -> forall d path cur,
  good_path g path cur -> length g < d + length path ->
  exists cs, gc_visit d g directed cur path = Some cs.
Proof.
  intros Hwf. induction d as [|d IH]; intros path cur Hgp Hd.
  - pose proof (good_path_length g path cur Hgp). lia.
  - cbn [gc_visit]. cbv zeta.
    destruct (gc_scan_spec g directed (prev_of path) path cur (row g cur)) as [_ S2].
    destruct (concat_opt_all_some
                (map (fun v => gc_visit d g directed v (path ++ [v]))
                     (rev (snd (gc_scan directed (prev_of path) path (row g cur)))))) as [r Er].
    + intros o Ho. apply in_map_iff in Ho. destruct Ho as [v [Ev Hv]]. apply in_rev in Hv.
      destruct (S2 v Hv) as [A B]. subst o. apply IH.
      * exact (good_path_extend g path cur v Hwf Hgp A B).
      * rewrite app_length. simpl. lia.
    + rewrite Er. eexists; reflexivity.
Qed.

Theorem get_cycles_total_lemma (g : graph) (directed : option bool) (comp : list nat) (d : bool) :
  wf_graph g -> resolve_directed g directed = Ok d -> exists cs, get_cycles g directed comp = Ok cs.
Proof.
  intros Hwf Hd. unfold get_cycles. rewrite Hd.
  destruct (d && (n_labels comp =? length g)); [eexists; reflexivity|].
  destruct (negb d && count_criterion g comp); [eexists; reflexivity|].
  match goal with |- context [concat_opt ?l] => destruct (concat_opt_all_some l) as [r Er] end.
  - intros o Ho. apply in_map_iff in Ho. destruct Ho as [s [Es _]]. subst o.
    destruct (Nat.lt_ge_cases s (length g)) as [Hlt|Hge].
    + apply gc_visit_total; auto; [|simpl; lia].
      split; [discriminate|]. split; [reflexivity|]. split; [constructor; [intros []|constructor]|].
      split; [simpl; auto|]. intros x [Hx|[]]. subst. exact Hlt.
    + simpl. rewrite (row_oob g s Hge). simpl. eexists; reflexivity.
  - rewrite Er. eexists; reflexivity.
Qed.

(** Proofs about Model/Cycles.v: is_acyclic (directed: exact; undirected: the edge-count criterion,
    via forest_iff_count), get_cycles (soundness, no duplicates), break_cycles (bounded theorems
    by exhaustive evaluation, refutation of the undirected branch). *)
From SKN Require Import Base.Util Model.Bfs Model.Structure Model.Cycles Proofs.BfsProofs Proofs.StructureProofs.
From Coq Require Import Permutation.

(** * Chains, suffixes, rotations *)

Lemma NoDup_app_r {A} (l l' : list A) : NoDup (l ++ l') -> NoDup l'.
Proof. induction l as [|x t IH]; simpl; auto. intros H. inversion H; auto. Qed.

Lemma NoDup_app_intro {A} (l l' : list A) :
  NoDup l -> NoDup l' -> (forall x, In x l -> In x l' -> False) -> NoDup (l ++ l').
Proof.
  induction l as [|x t IH]; simpl; auto. intros H1 H2 H3. inversion H1; subst.
  constructor.
  - intros Hin. apply in_app_or in Hin. destruct Hin as [Hin|Hin]; [contradiction|]. eapply H3; eauto.
  - apply IH; auto. intros y Hy Hy'. eapply H3; eauto.
Qed.

Lemma chain_cons E x t : chain E (x :: t) <-> (t <> [] -> E x (hd 0 t)) /\ chain E t.
Proof.
  simpl. destruct t as [|y t']; simpl; split; intros [A B]; split; auto.
  - intros H; congruence.
  - apply A. discriminate.
Qed.

Lemma chain_app E a b :
  chain E (a ++ b) <-> chain E a /\ chain E b /\ (a <> [] -> b <> [] -> E (last a 0) (hd 0 b)).
Proof.
  induction a as [|x t IH].
  - simpl. intuition congruence.
  - destruct t as [|y t'].
    + clear IH. cbn [app]. rewrite chain_cons. cbn [last].
      split.
      * intros [A B]. split; [simpl; tauto|]. split; [exact B|]. intros _ Hb. apply A. exact Hb.
      * intros [_ [B C]]. split; [|exact B]. intros Hb. apply C; [discriminate | exact Hb].
    + change ((x :: y :: t') ++ b) with (x :: ((y :: t') ++ b)). rewrite chain_cons, IH.
      rewrite (chain_cons E x (y :: t')).
      change (last (x :: y :: t') 0) with (last (y :: t') 0). cbn [app hd].
      split.
      * intros [A [B [C D]]]. split; [split; [intros _; apply A; discriminate | exact B]|].
        split; [exact C|]. intros _ Hb. apply D; [discriminate | exact Hb].
      * intros [[A B] [C D]]. split; [intros _; apply A; discriminate|]. split; [exact B|].
        split; [exact C|]. intros _ Hb. apply D; [discriminate | exact Hb].
Qed.

Lemma last_app_cons {A} (a : list A) x b d : last (a ++ x :: b) d = last (x :: b) d.
Proof.
  induction a as [|y t IH]; [reflexivity|].
  change ((y :: t) ++ x :: b) with (y :: (t ++ x :: b)).
  destruct (t ++ x :: b) as [|z l] eqn:E; [destruct t; discriminate|].
  change (last (y :: z :: l) d) with (last (z :: l) d). exact IH.
Qed.

Lemma last_In {A} (l : list A) d : l <> [] -> In (last l d) l.
Proof.
  induction l as [|x t IH]; [congruence|]. intros _. destruct t as [|y t']; [left; reflexivity|].
  right. apply IH. discriminate.
Qed.

Lemma index_of_split (v : nat) (l : list nat) :
  In v l -> exists pre suf, l = pre ++ v :: suf /\ skipn (index_of v l) l = v :: suf /\
                            firstn (index_of v l) l = pre /\ ~ In v pre.
Proof.
  induction l as [|y t IH]; [intros []|]. intros H. simpl.
  destruct (Nat.eqb_spec v y) as [E|E].
  - subst y. exists [], t. simpl. auto.
  - destruct H as [H|H]; [congruence|]. destruct (IH H) as [pre [suf [H1 [H2 [H3 H4]]]]].
    exists (y :: pre), suf. simpl. rewrite H2, H3. split; [f_equal; exact H1|].
    split; auto. split; auto. intros [A|A]; [congruence | contradiction].
Qed.

Lemma rot_perm (k : nat) (c : list nat) : Permutation (rot k c) c.
Proof.
  unfold rot. rewrite <- (firstn_skipn k c) at 3. apply Permutation_app_comm.
Qed.

Lemma rot_length k c : length (rot k c) = length c.
Proof. apply Permutation_length. apply rot_perm. Qed.

Lemma simple_cycle_rot E k c : simple_cycle E c -> simple_cycle E (rot k c).
Proof.
  intros [Hne [Hnd Hch]]. unfold rot.
  pose proof (firstn_skipn k c) as F.
  destruct (firstn k c) as [|a0 a'] eqn:Ea.
  { rewrite app_nil_r. simpl in F. rewrite F. split; [|split]; assumption. }
  destruct (skipn k c) as [|b0 b'] eqn:Eb.
  { rewrite app_nil_r in F. simpl. rewrite F. split; [|split]; assumption. }
  rewrite <- F in Hnd, Hch.
  split; [discriminate|]. split.
  - eapply Permutation_NoDup; [apply Permutation_app_comm | exact Hnd].
  - assert (Hch' : chain E ((a0 :: a') ++ ((b0 :: b') ++ [a0]))) by (rewrite app_assoc; exact Hch).
    apply chain_app in Hch'. destruct Hch' as [Ca [Cb Hab]].
    apply chain_app in Cb. destruct Cb as [Cb [_ Hba]].
    assert (G : chain E ((b0 :: b') ++ ((a0 :: a') ++ [b0]))); [|rewrite app_assoc in G; exact G].
    apply chain_app. split; [exact Cb|]. split.
    + apply chain_app. split; [exact Ca|]. split; [simpl; auto|].
      intros _ _. cbn [hd]. specialize (Hab ltac:(discriminate) ltac:(discriminate)). exact Hab.
    + intros _ _. cbn [hd app]. apply Hba; discriminate.
Qed.

(** * From reachability to simple paths and cycles *)

(** A simple path: non-empty, distinct nodes, consecutive ones related, given end points. *)
Definition spath (E : nat -> nat -> Prop) (u v : nat) (p : list nat) : Prop :=
  hd 0 p = u /\ last p 0 = v /\ p <> [] /\ NoDup p /\ chain E p.

Lemma reach_spath (E : nat -> nat -> Prop) u v : reach E u v -> exists p, spath E u v p.
Proof.
  intros H. induction H as [u|u x v Hux Hxv [p [P1 [P2 [P3 [P4 P5]]]]]].
  - exists [u]. split; [reflexivity|]. split; [reflexivity|]. split; [discriminate|].
    split; [constructor; [intros []|constructor] | simpl; auto].
  - destruct (in_dec Nat.eq_dec u p) as [Hin|Hout].
    + destruct (index_of_split u p Hin) as [pre [suf [H1 [H2 [H3 H4]]]]].
      exists (u :: suf). subst p. split; [reflexivity|]. split; [|split; [discriminate|split]].
      * rewrite last_app_cons in P2. exact P2.
      * eapply NoDup_app_r; eauto.
      * apply chain_app in P5. tauto.
    + exists (u :: p). split; [reflexivity|]. split; [|split; [discriminate|split]].
      * destruct p; [congruence|]. exact P2.
      * constructor; auto.
      * apply chain_cons. split; auto. intros _. rewrite P1. exact Hux.
Qed.

Lemma spath_reach (E : nat -> nat -> Prop) u v p : spath E u v p -> reach E u v.
Proof.
  intros [P1 [P2 [P3 [_ P5]]]]. revert u P1 P3 P5 P2.
  induction p as [|x t IH]; intros u P1 P3 P5 P2; [congruence|].
  simpl in P1. subst x. destruct t as [|y t'].
  - simpl in P2. subst. apply reach_refl.
  - apply chain_cons in P5. destruct P5 as [A B].
    eapply reach_step; [apply A; discriminate|]. apply IH; auto. discriminate.
Qed.

(** An edge u -> x together with a way back from x to u closes a simple cycle through u. *)
Lemma cycle_from_back_edge (E : nat -> nat -> Prop) u x : E u x -> reach E x u -> exists c, simple_cycle E c /\ In u c /\ In x c.
Proof.
  intros Hux Hxu. destruct (reach_spath E x u Hxu) as [p [P1 [P2 [P3 [P4 P5]]]]].
  exists p. split; [|split].
  - split; [exact P3|]. split; [exact P4|]. apply chain_app. split; [exact P5|]. split; [simpl; auto|].
    intros _ _. cbn [hd]. rewrite P1, P2. exact Hux.
  - rewrite <- P2. apply last_In. exact P3.
  - rewrite <- P1. destruct p; [congruence | left; reflexivity].
Qed.

(** Conversely the nodes of a simple cycle reach each other. *)
Lemma chain_reach_last (E : nat -> nat -> Prop) x t : chain E (x :: t) -> reach E x (last (x :: t) 0).
Proof.
  revert x; induction t as [|y t' IH]; intros x H; [apply reach_refl|].
  apply chain_cons in H. destruct H as [A B].
  eapply reach_step; [apply A; discriminate|]. exact (IH y B).
Qed.

Lemma chain_reach_in (E : nat -> nat -> Prop) x t y : chain E (x :: t) -> In y (x :: t) -> reach E x y.
Proof.
  revert x; induction t as [|z t' IH]; intros x H Hy.
  - destruct Hy as [Hy|[]]. subst. apply reach_refl.
  - destruct Hy as [Hy|Hy]; [subst; apply reach_refl|].
    apply chain_cons in H. destruct H as [A B].
    eapply reach_step; [apply A; discriminate|]. apply IH; auto.
Qed.

Lemma simple_cycle_hd_reach (E : nat -> nat -> Prop) c y :
  simple_cycle E c -> In y c -> reach E (hd 0 c) y /\ reach E y (hd 0 c).
Proof.
  intros [Hne [Hnd Hch]] Hy. destruct c as [|x t]; [congruence|]. cbn [hd] in *.
  split.
  - apply chain_app in Hch. destruct Hch as [Ca _]. exact (chain_reach_in E x t y Ca Hy).
  - destruct (in_split y (x :: t) Hy) as [l1 [l2 El]]. rewrite El in Hch.
    rewrite <- app_assoc in Hch. apply chain_app in Hch. destruct Hch as [_ [Hch _]].
    rewrite <- app_comm_cons in Hch.
    pose proof (chain_reach_last E y (l2 ++ [x]) Hch) as Hr.
    rewrite app_comm_cons in Hr. rewrite last_last in Hr. exact Hr.
Qed.

(** * is_acyclic, directed *)

Lemma nodup_length_le (l : list nat) : length (nodup Nat.eq_dec l) <= length l.
Proof. induction l as [|x t IH]; simpl; auto. destruct (in_dec Nat.eq_dec x t); simpl; lia. Qed.

Lemma n_labels_full (l : list nat) : n_labels l = length l <-> NoDup l.
Proof.
  unfold n_labels. split.
  - induction l as [|x t IH]; intros H; [constructor|]. simpl in H.
    destruct (in_dec Nat.eq_dec x t) as [Hin|Hout].
    + pose proof (nodup_length_le t). lia.
    + simpl in H. constructor; auto.
  - intros H. rewrite nodup_fixed_point; auto.
Qed.

Lemma NoDup_nthn (l : list nat) :
  NoDup l <-> forall i j, i < length l -> j < length l -> nthn l i = nthn l j -> i = j.
Proof. unfold nthn. apply NoDup_nth. Qed.

Lemma resolve_directed_true g : resolve_directed g (Some true) = Ok true.
Proof. reflexivity. Qed.

Theorem is_acyclic_directed_lemma (g : graph) (comp : list nat) (b : bool) :
  wf_graph g -> components_contract g true comp ->
  is_acyclic g (Some true) comp = Ok b ->
  (b = true <-> ~ exists c, dcycle g c).
Proof.
  intros Hwf [Hlen Hc]. unfold is_acyclic. cbn [resolve_directed].
  destruct (has_loops g) eqn:Hl.
  - intros H; inversion H; subst b. split; [discriminate|]. intros Hn. exfalso. apply Hn.
    apply has_loops_spec in Hl. destruct Hl as [u [Hu Huu]]. exists [u].
    split; [discriminate|]. split; [constructor; [intros []|constructor]|]. simpl. auto.
  - intros H; inversion H; subst b. clear H. rewrite Nat.eqb_eq, <- Hlen, n_labels_full, NoDup_nthn.
    rewrite Hlen. split.
    + intros Hinj [c Hcy]. pose proof Hcy as [Hne [Hnd Hch]].
      destruct c as [|x [|y t]]; [congruence| |].
      * simpl in Hch. destruct Hch as [Hxx _]. apply (proj1 (has_loops_false g) Hl x). exact Hxx.
      * assert (Hxy : In y (row g x)) by (simpl in Hch; tauto).
        assert (Hx : x < length g) by (eapply row_nonempty_lt; eauto).
        assert (Hy : y < length g) by (eapply Hwf; eauto).
        destruct (simple_cycle_hd_reach (edge g) (x :: y :: t) y Hcy (or_intror (or_introl eq_refl))) as [R1 R2].
        cbn [hd] in R1, R2.
        assert (x = y) by (apply Hinj; auto; apply Hc; auto; split; assumption).
        subst y. inversion Hnd as [|? ? Hni _]. apply Hni. left. reflexivity.
    + intros Hno i j Hi Hj Eij. destruct (Nat.eq_dec i j) as [|Hne]; auto. exfalso. apply Hno.
      apply (Hc i j Hi Hj) in Eij. destruct Eij as [R1 R2].
      inversion R1 as [|? x ? Hix Hxj]; [congruence|]. subst.
      destruct (cycle_from_back_edge (edge g) i x Hix (reach_trans _ _ _ _ Hxj R2)) as [c [Hcy _]].
      exists c. exact Hcy.
Qed.

(** * get_cycles: soundness *)

Definition good_path (g : graph) (path : list nat) (cur : nat) : Prop :=
  path <> [] /\ last path 0 = cur /\ NoDup path /\ chain (edge g) path /\ forall x, In x path -> x < length g.

Definition cycle_ok (g : graph) (directed : bool) (c : list nat) : Prop :=
  simple_cycle (edge g) c /\ (directed = false -> length c <> 2) /\ forall x, In x c -> x < length g.

Lemma gc_scan_spec (g : graph) directed prev path (cur : nat) : forall nbrs,
  let r := gc_scan directed prev path nbrs in
  (forall c, In c (fst r) -> exists v, In v nbrs /\ In v path /\ c = skipn (index_of v path) path /\
                                       (directed = false -> is_prev prev v = false)) /\
  (forall v, In v (snd r) -> In v nbrs /\ ~ In v path).
Proof.
  induction nbrs as [|v t [IH1 IH2]]; [simpl; split; intros ? []|].
  cbn [gc_scan]. cbv zeta.
  destruct (negb directed && is_prev prev v) eqn:Eskip.
  - split.
    + intros c Hc. destruct (IH1 c Hc) as [w [A B]]. exists w. split; [right; exact A | exact B].
    + intros w Hw. destruct (IH2 w Hw) as [A B]. split; [right; exact A | exact B].
  - destruct (memn v path) eqn:Emem.
    + cbn [fst snd]. split.
      * intros c [Hc|Hc].
        -- exists v. split; [left; reflexivity|]. split; [apply memn_In; exact Emem|]. split; [auto|].
           intros Hd. subst directed. simpl in Eskip. exact Eskip.
        -- destruct (IH1 c Hc) as [w [A B]]. exists w. split; [right; exact A | exact B].
      * intros w Hw. destruct (IH2 w Hw) as [A B]. split; [right; exact A | exact B].
    + cbn [fst snd]. split.
      * intros c Hc. destruct (IH1 c Hc) as [w [A B]]. exists w. split; [right; exact A | exact B].
      * intros w [Hw|Hw].
        -- subst w. split; [left; reflexivity|]. intros Hin. apply memn_In in Hin. congruence.
        -- destruct (IH2 w Hw) as [A B]. split; [right; exact A | exact B].
Qed.

Lemma concat_opt_In {A} (l : list (option (list A))) r c :
  concat_opt l = Some r -> In c r -> exists a, In (Some a) l /\ In c a.
Proof.
  revert r; induction l as [|o t IH]; intros r H Hc; simpl in H.
  - inversion H; subst. destruct Hc.
  - destruct o as [a|]; [|discriminate]. destruct (concat_opt t) as [b|] eqn:E; [|discriminate].
    inversion H; subst r. apply in_app_or in Hc. destruct Hc as [Hc|Hc].
    + exists a. split; [left; reflexivity | exact Hc].
    + destruct (IH b eq_refl Hc) as [a' [H1 H2]]. exists a'. split; [right; exact H1 | exact H2].
Qed.

Lemma prev_of_app path v q : prev_of (path ++ [v; q]) = Some v.
Proof. unfold prev_of. rewrite rev_app_distr. reflexivity. Qed.

Lemma back_edge_cycle g directed path cur v :
  wf_graph g -> good_path g path cur -> In v (row g cur) -> In v path ->
  (directed = false -> is_prev (prev_of path) v = false) ->
  cycle_ok g directed (skipn (index_of v path) path).
Proof.
  intros Hwf [Hne [Hlast [Hnd [Hch Hlt]]]] Hedge Hin Hprev.
  destruct (index_of_split v path Hin) as [pre [suf [H1 [H2 [H3 H4]]]]]. rewrite H2.
  assert (Hsub : forall x, In x (v :: suf) -> In x path).
  { intros x Hx. rewrite H1. apply in_or_app. right. exact Hx. }
  split; [|split].
  - split; [discriminate|]. split.
    + rewrite H1 in Hnd. eapply NoDup_app_r; eauto.
    + apply chain_app. split; [|split; [simpl; auto|]].
      * rewrite H1 in Hch. apply chain_app in Hch. tauto.
      * intros _ _. cbn [hd]. rewrite H1 in Hlast. rewrite last_app_cons in Hlast. rewrite Hlast. exact Hedge.
  - intros Hd Hlen2. specialize (Hprev Hd).
    destruct suf as [|q [|q' suf']]; simpl in Hlen2; try lia.
    rewrite H1 in Hprev. rewrite prev_of_app in Hprev. simpl in Hprev. rewrite Nat.eqb_refl in Hprev. discriminate.
  - intros x Hx. apply Hlt. apply Hsub. exact Hx.
Qed.

Lemma good_path_extend g path cur v :
  wf_graph g -> good_path g path cur -> In v (row g cur) -> ~ In v path -> good_path g (path ++ [v]) v.
Proof.
  intros Hwf [Hne [Hlast [Hnd [Hch Hlt]]]] Hedge Hout. split; [destruct path; discriminate|].
  split; [apply last_last|]. split; [|split].
  - apply NoDup_app_intro; auto; [constructor; [intros []|constructor] | ].
    intros x Hx [Hv|[]]. subst. contradiction.
  - apply chain_app. split; [exact Hch|]. split; [simpl; auto|]. intros _ _. cbn [hd]. rewrite Hlast. exact Hedge.
  - intros x Hx. apply in_app_or in Hx. destruct Hx as [Hx|[Hx|[]]]; [apply Hlt; exact Hx|].
    subst x. eapply Hwf; eauto.
Qed.

Lemma gc_visit_sound g directed : wf_graph g -> forall d cur path cs,
  good_path g path cur -> gc_visit d g directed cur path = Some cs ->
  forall c, In c cs -> cycle_ok g directed c.
Proof.
  intros Hwf. induction d as [|d IH]; intros cur path cs Hgp H c Hc; [discriminate|].
  cbn [gc_visit] in H. cbv zeta in H.
  destruct (gc_scan_spec g directed (prev_of path) path cur (row g cur)) as [S1 S2].
  destruct (concat_opt _) as [sub|] eqn:Esub; [|discriminate]. inversion H; subst cs. clear H.
  apply in_app_or in Hc. destruct Hc as [Hc|Hc].
  - destruct (S1 c Hc) as [v [A [B [C D]]]]. subst c. exact (back_edge_cycle g directed path cur v Hwf Hgp A B D).
  - destruct (concat_opt_In _ _ _ Esub Hc) as [a [Ha Hca]].
    apply in_map_iff in Ha. destruct Ha as [v [Hv Hin]]. apply in_rev in Hin.
    destruct (S2 v Hin) as [A B].
    eapply IH; [|exact Hv|exact Hca]. exact (good_path_extend g path cur v Hwf Hgp A B).
Qed.

(** Minimum and the canonical rotation. *)
Lemma fold_min_spec : forall t x,
  let m := fold_left Nat.min t x in (m = x \/ In m t) /\ m <= x /\ forall y, In y t -> m <= y.
Proof.
  induction t as [|a t IH]; intros x; simpl.
  - split; auto. split; auto. intros y [].
  - destruct (IH (Nat.min x a)) as [H1 [H2 H3]]. split; [|split].
    + destruct H1 as [H1|H1]; [|right; right; exact H1].
      destruct (Nat.min_spec x a) as [[_ E]|[_ E]]; rewrite E in H1; [left | right; left]; congruence.
    + lia.
    + intros y [Hy|Hy]; [subst; lia | apply H3; exact Hy].
Qed.

Lemma list_min_spec (l : list nat) : l <> [] -> In (list_min l) l /\ forall y, In y l -> list_min l <= y.
Proof.
  destruct l as [|x t]; [congruence|]. intros _. unfold list_min.
  destruct (fold_min_spec t x) as [H1 [H2 H3]]. split.
  - destruct H1 as [H1|H1]; [left; congruence | right; exact H1].
  - intros y [Hy|Hy]; [subst; exact H2 | apply H3; exact Hy].
Qed.

Lemma list_min_perm (a b : list nat) : a <> [] -> Permutation a b -> list_min a = list_min b.
Proof.
  intros Ha Hp. assert (Hb : b <> []) by (intros E; subst; apply Permutation_sym, Permutation_nil in Hp; congruence).
  destruct (list_min_spec a Ha) as [A1 A2]. destruct (list_min_spec b Hb) as [B1 B2].
  apply Nat.le_antisymm.
  - apply A2. eapply Permutation_in; [apply Permutation_sym; exact Hp | exact B1].
  - apply B2. eapply Permutation_in; [exact Hp | exact A1].
Qed.

Lemma roll_min_rot c : roll_min c = rot (index_of (list_min c) c) c.
Proof. reflexivity. Qed.

Definition min_first (c : list nat) : Prop := c <> [] /\ hd 0 c = list_min c.

Lemma roll_min_min_first c : c <> [] -> min_first (roll_min c).
Proof.
  intros Hne. destruct (list_min_spec c Hne) as [Hin _].
  destruct (index_of_split _ _ Hin) as [pre [suf [H1 [H2 [H3 H4]]]]].
  assert (E : roll_min c = list_min c :: suf ++ pre).
  { unfold roll_min. cbv zeta. rewrite H2, H3. reflexivity. }
  split; [rewrite E; discriminate|]. rewrite E at 1. cbn [hd].
  apply list_min_perm; auto. apply Permutation_sym. rewrite roll_min_rot. apply rot_perm.
Qed.

Lemma hd_skipn_nth (k : nat) (l : list nat) : hd 0 (skipn k l) = nth k l 0.
Proof. revert l; induction k as [|k IH]; intros [|x t]; simpl; auto. Qed.

Lemma min_first_rot_eq (a b : list nat) k :
  NoDup a -> min_first a -> min_first b -> b = rot k a -> a = b.
Proof.
  intros Hnd [Ha Hma] [Hb Hmb] E. destruct (Nat.eq_dec k 0) as [K0|K0].
  { subst k. unfold rot in E. simpl in E. rewrite app_nil_r in E. congruence. }
  destruct (Nat.le_gt_cases (length a) k) as [Kl|Kl].
  { unfold rot in E. rewrite skipn_all2, firstn_all2 in E by lia. simpl in E. congruence. }
  exfalso. assert (Hperm : Permutation a b) by (subst b; apply Permutation_sym, rot_perm).
  assert (Hmin : list_min a = list_min b) by (apply list_min_perm; auto).
  assert (Hhd : hd 0 b = nth k a 0).
  { subst b. unfold rot. destruct (skipn k a) as [|s0 s'] eqn:Es.
    - pose proof (skipn_length k a) as Hl. rewrite Es in Hl. simpl in Hl. lia.
    - cbn [app hd]. rewrite <- hd_skipn_nth. rewrite Es. reflexivity. }
  assert (E0 : nth k a 0 = nth 0 a 0).
  { rewrite <- Hhd, Hmb, <- Hmin, <- Hma. destruct a; [congruence | reflexivity]. }
  apply K0. apply (proj1 (NoDup_nth a 0) Hnd); auto; lia.
Qed.

(** Insertion sort: equal on permutations. *)
Lemma insert_comm x y l : insert x (insert y l) = insert y (insert x l).
Proof.
  induction l as [|z t IH]; simpl.
  - destruct (x <=? y) eqn:A, (y <=? x) eqn:B; auto.
    + apply Nat.leb_le in A, B. f_equal; try lia. f_equal. lia.
    + apply Nat.leb_gt in A, B. lia.
  - destruct (x <=? z) eqn:A, (y <=? z) eqn:B; simpl; rewrite ?A, ?B.
    + destruct (x <=? y) eqn:C, (y <=? x) eqn:D; auto.
      * apply Nat.leb_le in C, D. assert (x = y) by lia. subst. reflexivity.
      * apply Nat.leb_gt in C, D. lia.
    + destruct (y <=? x) eqn:D; auto. apply Nat.leb_le in A, D. apply Nat.leb_gt in B. lia.
    + destruct (x <=? y) eqn:C; auto. apply Nat.leb_le in B, C. apply Nat.leb_gt in A. lia.
    + f_equal. exact IH.
Qed.

Lemma isort_perm (a b : list nat) : Permutation a b -> isort a = isort b.
Proof.
  intros H. induction H as [|x l l' H IH|x y l|l l' l'' H1 IH1 H2 IH2]; simpl; auto.
  - unfold isort in *. simpl. rewrite IH. reflexivity.
  - apply insert_comm.
  - congruence.
Qed.

Lemma list_eqb_eq a b : list_eqb a b = true <-> a = b.
Proof.
  revert b; induction a as [|x a IH]; intros [|y b]; simpl; split; intros H; try discriminate; auto.
  - apply andb_true_iff in H. destruct H as [H1 H2]. apply Nat.eqb_eq in H1. apply IH in H2. congruence.
  - inversion H; subst. rewrite Nat.eqb_refl. apply IH. reflexivity.
Qed.

(** De-duplication keeps canonical rotations of input cycles, with pairwise distinct keys. *)
Definition okey (directed : bool) (x : list nat) : list nat := if directed then x else isort x.

Lemma dedup_spec directed : forall cycles visited,
  let out := dedup directed cycles visited in
  (forall x, In x out -> exists c, In c cycles /\ x = roll_min c) /\
  NoDup (map (okey directed) out) /\
  (forall x, In x out -> ~ In (okey directed x) visited).
Proof.
  induction cycles as [|c rest IH]; intros visited; simpl.
  - split; [intros x []|]. split; [constructor | intros x []].
  - assert (Ekey : cycle_key directed c = okey directed (roll_min c)) by (destruct directed; reflexivity).
    destruct (existsb (list_eqb (cycle_key directed c)) visited) eqn:Ex.
    + destruct (IH visited) as [I1 [I2 I3]]. split; [|split; auto].
      intros x Hx. destruct (I1 x Hx) as [c' [A B]]. exists c'. split; [right; exact A | exact B].
    + destruct (IH (cycle_key directed c :: visited)) as [I1 [I2 I3]]. split; [|split].
      * intros x [Hx|Hx]; [exists c; split; [left; reflexivity | symmetry; exact Hx]|].
        destruct (I1 x Hx) as [c' [A B]]. exists c'. split; [right; exact A | exact B].
      * simpl. constructor; auto. intros Hin. apply in_map_iff in Hin. destruct Hin as [x [E Hx]].
        apply (I3 x Hx). left. rewrite Ekey. symmetry. exact E.
      * intros x [Hx|Hx].
        -- subst x. intros Hin. rewrite <- Ekey in Hin.
           assert (existsb (list_eqb (cycle_key directed c)) visited = true); [|congruence].
           apply existsb_exists. exists (cycle_key directed c). split; auto. apply list_eqb_eq. reflexivity.
        -- intros Hin. apply (I3 x Hx). right. exact Hin.
Qed.

Lemma cycle_ok_roll g directed c : cycle_ok g directed c -> cycle_ok g directed (roll_min c).
Proof.
  intros [H1 [H2 H3]]. rewrite roll_min_rot. split; [apply simple_cycle_rot; exact H1|]. split.
  - intros Hd. rewrite rot_length. apply H2. exact Hd.
  - intros x Hx. apply H3. eapply Permutation_in; [apply rot_perm | exact Hx].
Qed.

Lemma same_ucycle_perm a b : same_ucycle a b -> Permutation a b.
Proof.
  intros [[k E]|[k E]]; subst b.
  - apply Permutation_sym, rot_perm.
  - eapply Permutation_trans; [apply Permutation_rev|]. apply Permutation_sym, rot_perm.
Qed.

(** Main soundness statement. *)
Theorem get_cycles_sound_lemma (g : graph) (directed : option bool) (comp : list nat) (d : bool) cs :
  wf_graph g -> resolve_directed g directed = Ok d ->
  get_cycles g directed comp = Ok cs ->
  (forall c, In c cs -> cycle_ok g d c) /\
  (forall i j, i < j < length cs ->
     if d then ~ same_dcycle (nth i cs []) (nth j cs []) else ~ same_ucycle (nth i cs []) (nth j cs [])).
Proof.
  intros Hwf Hd. unfold get_cycles. rewrite Hd.
  set (loops := map (fun u => [u]) (filter (fun u => edgeb g u u) (nodes g))).
  assert (Hloops : forall c, In c loops -> cycle_ok g d c).
  { intros c Hc. apply in_map_iff in Hc. destruct Hc as [u [E Hu]]. subst c.
    apply filter_In in Hu. destruct Hu as [Hu Huu]. apply nodes_In in Hu. apply edgeb_true in Huu.
    split; [|split].
    - split; [discriminate|]. split; [constructor; [intros []|constructor]|]. simpl. auto.
    - simpl. intros _; lia.
    - intros x [Hx|[]]. subst. exact Hu. }
  assert (Hloops_nd : forall i j, i < j < length loops ->
     if d then ~ same_dcycle (nth i loops []) (nth j loops []) else ~ same_ucycle (nth i loops []) (nth j loops [])).
  { intros i j Hij.
    assert (Hnd : NoDup (filter (fun u => edgeb g u u) (nodes g))) by (apply NoDup_filter; apply seq_NoDup).
    unfold loops in *. rewrite map_length in Hij.
    set (fl := filter (fun u => edgeb g u u) (nodes g)) in *.
    rewrite (nth_map_lt (fun u => [u]) fl i 0 []) by lia.
    rewrite (nth_map_lt (fun u => [u]) fl j 0 []) by lia.
    assert (Hne : nth i fl 0 <> nth j fl 0).
    { intros E. apply (proj1 (NoDup_nth fl 0) Hnd) in E; lia. }
    assert (Hperm : ~ Permutation [nth i fl 0] [nth j fl 0]).
    { intros P. apply Permutation_length_1 in P. contradiction. }
    destruct d.
    - intros [k E]. apply Hperm. rewrite E. apply Permutation_sym, rot_perm.
    - intros H. apply Hperm. apply same_ucycle_perm. exact H. }
  destruct (d && (n_labels comp =? length g)); [intros H; inversion H; subst cs; split; assumption|].
  destruct (negb d && count_criterion g comp); [intros H; inversion H; subst cs; split; assumption|].
  destruct (concat_opt _) as [found|] eqn:Ef; [|discriminate].
  intros H; inversion H; subst cs. clear H.
  assert (Hfound : forall c, In c found -> cycle_ok g d c).
  { intros c Hc. destruct (concat_opt_In _ _ _ Ef Hc) as [a [Ha Hca]].
    apply in_map_iff in Ha. destruct Ha as [s [Hs Hin]].
    set (labels := (if d then filter (fun l => 1 <? count comp l) (np_unique comp) else np_unique comp)) in *.
    destruct (Nat.lt_ge_cases s (length g)) as [Hlt|Hge].
    - eapply gc_visit_sound; [exact Hwf| |exact Hs|exact Hca].
      split; [discriminate|]. split; [reflexivity|]. split; [constructor; [intros []|constructor]|].
      split; [simpl; auto|]. intros x [Hx|[]]. subst. exact Hlt.
    - (* a start outside the graph has an empty row: nothing is found *)
      exfalso. simpl in Hs. rewrite (row_oob g s Hge) in Hs. simpl in Hs. inversion Hs; subst a. destruct Hca. }
  destruct (dedup_spec d (loops ++ found) []) as [D1 [D2 _]].
  assert (Hall : forall x, In x (dedup d (loops ++ found) []) -> cycle_ok g d x).
  { intros x Hx. destruct (D1 x Hx) as [c [Hc E]]. subst x. apply cycle_ok_roll.
    apply in_app_or in Hc. destruct Hc; auto. }
  split; [exact Hall|].
  intros i j Hij. set (out := dedup d (loops ++ found) []) in *.
  assert (Hi : In (nth i out []) out) by (apply nth_In; lia).
  assert (Hj : In (nth j out []) out) by (apply nth_In; lia).
  assert (Hkeys : okey d (nth i out []) <> okey d (nth j out [])).
  { intros E. assert (Hl : length (map (okey d) out) = length out) by apply map_length.
    pose proof (proj1 (NoDup_nth (map (okey d) out) []) D2 i j) as Hinj.
    rewrite Hl in Hinj. rewrite (nth_map_lt (okey d) out i [] []) in Hinj by lia.
    rewrite (nth_map_lt (okey d) out j [] []) in Hinj by lia.
    specialize (Hinj ltac:(lia) ltac:(lia) E). lia. }
  destruct d.
  - intros [k E]. apply Hkeys. cbn [okey].
    destruct (D1 _ Hi) as [ci [_ Ei]]. destruct (D1 _ Hj) as [cj [_ Ej]].
    destruct (Hall _ Hi) as [[Ni [NDi _]] _]. destruct (Hall _ Hj) as [[Nj _] _].
    eapply (min_first_rot_eq _ _ k); auto.
    + rewrite Ei. apply roll_min_min_first. intros E0. subst ci. rewrite Ei in Ni. apply Ni. reflexivity.
    + rewrite Ej. apply roll_min_min_first. intros E0. subst cj. rewrite Ej in Nj. apply Nj. reflexivity.
  - intros H. apply Hkeys. cbn [okey]. apply isort_perm. apply same_ucycle_perm. exact H.
Qed.

(** * forest_iff_count: a simple undirected graph is acyclic iff #components = n - m *)

(** Undirected simple graphs as edge lists (each edge once, in one orientation). *)
Definition adj (es : list (nat * nat)) (u v : nat) : Prop := In (u, v) es \/ In (v, u) es.
Definition econn (es : list (nat * nat)) : nat -> nat -> Prop := reach (adj es).
Inductive simple_edges (n : nat) : list (nat * nat) -> Prop :=
| se_nil : simple_edges n []
| se_cons u v rest : u < n -> v < n -> u <> v -> ~ adj rest u v -> simple_edges n rest ->
                     simple_edges n ((u, v) :: rest).
Definition forest (es : list (nat * nat)) : Prop := ~ exists c, 3 <= length c /\ simple_cycle (adj es) c.

(** Naive union-find: processing an edge relabels the class of one end point into the other's. *)
Definition relabel (a b : nat) (lab : list nat) : list nat := map (fun x => if x =? a then b else x) lab.
Fixpoint uf (n : nat) (es : list (nat * nat)) : list nat :=
  match es with
  | [] => seq 0 n
  | (u, v) :: rest => let lab := uf n rest in relabel (nthn lab u) (nthn lab v) lab
  end.
(** Number of edges that joined two different classes when they were added. *)
Fixpoint merges (n : nat) (es : list (nat * nat)) : nat :=
  match es with
  | [] => 0
  | (u, v) :: rest => let lab := uf n rest in (if nthn lab u =? nthn lab v then 0 else 1) + merges n rest
  end.

Lemma adj_sym es u v : adj es u v -> adj es v u.
Proof. unfold adj. tauto. Qed.

Lemma adj_cons e es x y : adj (e :: es) x y <-> adj es x y \/ e = (x, y) \/ e = (y, x).
Proof. unfold adj. simpl. tauto. Qed.

Lemma econn_sym es u v : econn es u v -> econn es v u.
Proof. apply reach_sym. apply adj_sym. Qed.

Lemma econn_mono e es u v : econn es u v -> econn (e :: es) u v.
Proof. apply reach_mono. intros a b H. apply adj_cons. left. exact H. Qed.

Lemma simple_edges_range n es u v : simple_edges n es -> adj es u v -> u < n /\ v < n.
Proof.
  intros H. induction H as [|a b rest Ha Hb Hab Hn Hs IH]; intros Hadj.
  - destruct Hadj as [[]|[]].
  - apply adj_cons in Hadj. destruct Hadj as [H|[H|H]]; [apply IH; exact H| |]; inversion H; subst; auto.
Qed.

Lemma uf_length n es : length (uf n es) = n.
Proof.
  induction es as [|[u v] rest IH]; simpl; [apply seq_length|].
  unfold relabel. rewrite map_length. exact IH.
Qed.

Lemma nthn_relabel a b lab x : x < length lab ->
  nthn (relabel a b lab) x = if nthn lab x =? a then b else nthn lab x.
Proof. intros H. unfold nthn, relabel. rewrite (nth_map_lt _ lab x 0 0) by exact H. reflexivity. Qed.

Lemma nthn_seq n x : x < n -> nthn (seq 0 n) x = x.
Proof. intros H. unfold nthn. rewrite seq_nth by exact H. reflexivity. Qed.

(** Labels = connectivity. *)
Lemma uf_conn n es : simple_edges n es ->
  forall x y, x < n -> y < n -> (nthn (uf n es) x = nthn (uf n es) y <-> econn es x y).
Proof.
  intros Hs. induction Hs as [|u v rest Hu Hv Huv Hn Hs IH]; intros x y Hx Hy.
  - simpl. rewrite !nthn_seq by assumption. split.
    + intros E; subst. apply reach_refl.
    + intros H. inversion H as [|? z ? Hxz _]; auto. destruct Hxz as [[]|[]].
  - cbn [uf]. cbv zeta. set (lab := uf n rest) in *.
    assert (Hl : length lab = n) by apply uf_length.
    rewrite !nthn_relabel by lia.
    assert (Euv : adj ((u, v) :: rest) u v) by (apply adj_cons; right; left; reflexivity).
    split.
    + intros E.
      destruct (Nat.eqb_spec (nthn lab x) (nthn lab u)) as [Ex|Ex];
      destruct (Nat.eqb_spec (nthn lab y) (nthn lab u)) as [Ey|Ey].
      * apply econn_mono. apply IH; auto. congruence.
      * apply (IH x u Hx Hu) in Ex. symmetry in E. apply (IH y v Hy Hv) in E.
        eapply reach_trans; [apply econn_mono; exact Ex|].
        eapply reach_step; [exact Euv|]. apply econn_mono. apply econn_sym. exact E.
      * apply (IH y u Hy Hu) in Ey. apply (IH x v Hx Hv) in E.
        eapply reach_trans; [apply econn_mono; exact E|].
        eapply reach_step; [apply adj_sym; exact Euv|]. apply econn_mono. apply econn_sym. exact Ey.
      * apply econn_mono. apply IH; auto.
    + intros H.
      assert (Hstep : forall a b, a < n -> b < n -> adj ((u, v) :: rest) a b ->
                (if nthn lab a =? nthn lab u then nthn lab v else nthn lab a) =
                (if nthn lab b =? nthn lab u then nthn lab v else nthn lab b)).
      { intros a b Ha Hb Hab. apply adj_cons in Hab. destruct Hab as [Hab|[Hab|Hab]].
        - assert (E : nthn lab a = nthn lab b) by (apply IH; auto; apply reach_one; exact Hab).
          rewrite E. reflexivity.
        - inversion Hab; subst a b. rewrite Nat.eqb_refl.
          destruct (nthn lab v =? nthn lab u); reflexivity.
        - inversion Hab; subst a b. rewrite Nat.eqb_refl.
          destruct (nthn lab v =? nthn lab u); reflexivity. }
      assert (Hse : simple_edges n ((u, v) :: rest)) by (constructor; auto).
      revert Hx. induction H as [a|a z b Haz Hzb IHr]; intros Ha; [reflexivity|].
      destruct (simple_edges_range n _ a z Hse Haz) as [_ Hz].
      rewrite (Hstep a z Ha Hz Haz). apply IHr; auto.
Qed.

(** Counting distinct labels. *)
Lemma relabel_same a lab : relabel a a lab = lab.
Proof.
  unfold relabel. induction lab as [|x t IH]; simpl; auto. rewrite IH.
  destruct (Nat.eqb_spec x a); congruence.
Qed.

Lemma In_relabel a b lab x : In b lab -> a <> b -> (In x (relabel a b lab) <-> x <> a /\ In x lab).
Proof.
  intros Hb Hab. unfold relabel. rewrite in_map_iff. split.
  - intros [y [E Hy]]. destruct (Nat.eqb_spec y a) as [Ey|Ey]; subst; split; auto.
  - intros [Hx Hin]. exists x. split; auto. destruct (Nat.eqb_spec x a); congruence.
Qed.

Lemma n_labels_relabel a b lab :
  a <> b -> In a lab -> In b lab -> S (n_labels (relabel a b lab)) = n_labels lab.
Proof.
  intros Hab Ha Hb. unfold n_labels.
  change (S (length (nodup Nat.eq_dec (relabel a b lab)))) with (length (a :: nodup Nat.eq_dec (relabel a b lab))).
  apply Permutation_length. apply NoDup_Permutation.
  - constructor; [|apply NoDup_nodup]. rewrite nodup_In, In_relabel by assumption. intros [H _]; congruence.
  - apply NoDup_nodup.
  - intros x. simpl. rewrite !nodup_In, In_relabel by assumption.
    destruct (Nat.eq_dec x a); subst; intuition congruence.
Qed.

Lemma n_labels_seq n : n_labels (seq 0 n) = n.
Proof. unfold n_labels. rewrite nodup_fixed_point by apply seq_NoDup. apply seq_length. Qed.

Lemma uf_count n es : simple_edges n es -> n_labels (uf n es) + merges n es = n.
Proof.
  intros Hs. induction Hs as [|u v rest Hu Hv Huv Hn Hs IH]; simpl; [rewrite n_labels_seq; lia|].
  set (lab := uf n rest) in *. assert (Hl : length lab = n) by apply uf_length.
  destruct (Nat.eqb_spec (nthn lab u) (nthn lab v)) as [E|E].
  - rewrite E, relabel_same. simpl. exact IH.
  - pose proof (n_labels_relabel _ _ lab E (nthn_In lab u ltac:(lia)) (nthn_In lab v ltac:(lia))). lia.
Qed.

Lemma merges_le n es : merges n es <= length es.
Proof.
  induction es as [|[u v] rest IH]; simpl; auto.
  destruct (nthn (uf n rest) u =? nthn (uf n rest) v); simpl; lia.
Qed.

(** Same kernel => same number of distinct labels. *)
Lemma n_labels_kernel : forall (l1 l2 : list nat),
  length l1 = length l2 ->
  (forall i j, i < length l1 -> j < length l1 -> (nthn l1 i = nthn l1 j <-> nthn l2 i = nthn l2 j)) ->
  n_labels l1 = n_labels l2.
Proof.
  induction l1 as [|x1 t1 IH]; intros [|x2 t2] Hlen Hk; simpl in Hlen; try lia.
  assert (IHt : n_labels t1 = n_labels t2).
  { apply IH; [lia|]. intros i j Hi Hj. apply (Hk (S i) (S j)); simpl; lia. }
  unfold n_labels in *. simpl.
  assert (Hin : In x1 t1 <-> In x2 t2).
  { split; intros H; apply In_nthn in H; destruct H as [i [Hi Ei]].
    - assert (E : nthn (x2 :: t2) (S i) = nthn (x2 :: t2) 0).
      { apply (Hk (S i) 0); simpl; try lia. exact Ei. }
      unfold nthn in E. simpl in E. rewrite <- E. apply nth_In. lia.
    - assert (E : nthn (x1 :: t1) (S i) = nthn (x1 :: t1) 0).
      { apply (Hk (S i) 0); simpl; try lia. exact Ei. }
      unfold nthn in E. simpl in E. rewrite <- E. apply nth_In. lia. }
  destruct (in_dec Nat.eq_dec x1 t1) as [H1|H1]; destruct (in_dec Nat.eq_dec x2 t2) as [H2|H2];
    try tauto; simpl; lia.
Qed.

(** Cycles and the last edge added. *)
Lemma chain_mono (E F : nat -> nat -> Prop) l : (forall a b, E a b -> F a b) -> chain E l -> chain F l.
Proof.
  intros H. induction l as [|x t IH]; simpl; auto. intros [A B]. split; auto.
  destruct t; auto.
Qed.

Lemma NoDup_app_disjoint {A} (l1 l2 : list A) x : NoDup (l1 ++ l2) -> In x l1 -> In x l2 -> False.
Proof.
  induction l1 as [|y t IH]; simpl; [tauto|]. intros H [E|Hin] H2; inversion H; subst.
  - apply H3. apply in_or_app. right. exact H2.
  - apply IH; auto.
Qed.

Lemma hd_app_single (l1 : list nat) a rest : hd 0 (l1 ++ [a]) = hd 0 (l1 ++ a :: rest).
Proof. destruct l1; reflexivity. Qed.

Lemma chain_split_pair (F R : nat -> nat -> Prop) (u v : nat) :
  (forall a b, F a b -> R a b \/ (a = u /\ b = v) \/ (a = v /\ b = u)) ->
  forall l, NoDup l -> chain F l ->
    chain R l \/
    exists l1 a b l2, l = l1 ++ a :: b :: l2 /\ ((a = u /\ b = v) \/ (a = v /\ b = u)) /\
                      chain R (l1 ++ [a]) /\ chain R (b :: l2).
Proof.
  intros HF. induction l as [|x t IH]; intros Hnd Hch; [left; simpl; auto|].
  inversion Hnd as [|? ? Hx Hnt]; subst. apply chain_cons in Hch. destruct Hch as [Hh Hct].
  destruct (IH Hnt Hct) as [HR|[l1 [a [b [l2 [E [Hp [C1 C2]]]]]]]].
  - destruct t as [|y t']; [left; simpl; auto|].
    destruct (HF x y (Hh ltac:(discriminate))) as [Hr|Hpair].
    + left. apply chain_cons. split; auto.
    + right. exists [], x, y, t'. split; [reflexivity|]. split; [exact Hpair|]. split; [simpl; auto | exact HR].
  - right. assert (Hne : t <> []) by (subst t; destruct l1; discriminate).
    assert (Hxa : x <> a) by (intros E'; subst x; apply Hx; subst t; apply in_or_app; right; left; reflexivity).
    assert (Hxb : x <> b) by (intros E'; subst x; apply Hx; subst t; apply in_or_app; right; right; left; reflexivity).
    destruct (HF x (hd 0 t) (Hh Hne)) as [Hr|[[E1 E2]|[E1 E2]]].
    + exists (x :: l1), a, b, l2. split; [subst t; reflexivity|]. split; [exact Hp|]. split; [|exact C2].
      change ((x :: l1) ++ [a]) with (x :: (l1 ++ [a])). apply chain_cons. split; [|exact C1].
      intros _. rewrite (hd_app_single l1 a (b :: l2)). rewrite <- E. exact Hr.
    + exfalso. destruct Hp as [[P1 P2]|[P1 P2]]; congruence.
    + exfalso. destruct Hp as [[P1 P2]|[P1 P2]]; congruence.
Qed.

Lemma adj_cons_split u v rest a b :
  adj ((u, v) :: rest) a b -> adj rest a b \/ (a = u /\ b = v) \/ (a = v /\ b = u).
Proof.
  intros H. apply adj_cons in H. destruct H as [H|[H|H]]; auto; inversion H; subst; auto.
Qed.

Lemma cycle_uses_new_edge u v rest c :
  simple_cycle (adj ((u, v) :: rest)) c -> 3 <= length c ->
  (exists c', 3 <= length c' /\ simple_cycle (adj rest) c') \/ econn rest u v.
Proof.
  intros [Hne [Hnd Hch]] Hlen. apply chain_app in Hch. destruct Hch as [Hc [_ Hclose]].
  specialize (Hclose Hne ltac:(discriminate)). cbn [hd] in Hclose.
  assert (Hor : forall a b, (a = u /\ b = v) \/ (a = v /\ b = u) -> econn rest a b -> econn rest u v).
  { intros a b [[E1 E2]|[E1 E2]] H; subst; auto. apply econn_sym. exact H. }
  destruct (chain_split_pair (adj ((u, v) :: rest)) (adj rest) u v (adj_cons_split u v rest) c Hnd Hc)
    as [HR|[l1 [a [b [l2 [E [Hp [C1 C2]]]]]]]].
  - destruct (adj_cons_split _ _ _ _ _ Hclose) as [Hr|Hpair].
    + left. exists c. split; auto. split; auto. split; auto. apply chain_app. split; auto. split; [simpl; auto|].
      intros _ _. exact Hr.
    + right. destruct c as [|x t]; [congruence|]. cbn [hd] in *.
      apply (Hor (last (x :: t) 0) x Hpair). apply econn_sym. apply chain_reach_last. exact HR.
  - right. subst c.
    assert (Hlast : last (l1 ++ a :: b :: l2) 0 = last (b :: l2) 0).
    { rewrite last_app_cons. reflexivity. }
    assert (Hhd : hd 0 (l1 ++ a :: b :: l2) = hd 0 (l1 ++ [a])) by (symmetry; apply hd_app_single).
    assert (Hba : econn rest b a).
    { destruct (adj_cons_split _ _ _ _ _ Hclose) as [Hr|Hpair].
      - (* b ~> last c -> hd c ~> a *)
        eapply reach_trans; [apply chain_reach_last; exact C2|].
        rewrite <- Hlast. eapply reach_step; [exact Hr|]. rewrite Hhd.
        destruct (l1 ++ [a]) as [|z w] eqn:Ez; [destruct l1; discriminate|]. cbn [hd].
        assert (La : last (z :: w) 0 = a) by (rewrite <- Ez; apply last_last).
        rewrite <- La. apply chain_reach_last. exact C1.
      - exfalso.
        (* the closing pair is {u,v} = {a,b}: then l1 = [] and l2 = [], so the cycle has two nodes *)
        assert (Hhab : hd 0 (l1 ++ a :: b :: l2) = a \/ hd 0 (l1 ++ a :: b :: l2) = b).
        { destruct Hp as [[P1 P2]|[P1 P2]], Hpair as [[Q1 Q2]|[Q1 Q2]]; subst; auto. }
        assert (Hlab : last (l1 ++ a :: b :: l2) 0 = a \/ last (l1 ++ a :: b :: l2) 0 = b).
        { destruct Hp as [[P1 P2]|[P1 P2]], Hpair as [[Q1 Q2]|[Q1 Q2]]; subst; auto. }
        assert (L1 : l1 = []).
        { destruct l1 as [|z l1']; auto. exfalso. cbn [app hd] in Hhab.
          apply (NoDup_app_disjoint (z :: l1') (a :: b :: l2) z Hnd); [left; reflexivity|].
          destruct Hhab; subst; simpl; auto. }
        assert (L2 : l2 = []).
        { destruct l2 as [|z l2']; auto. exfalso. rewrite Hlast in Hlab.
          assert (Hin : In (last (b :: z :: l2') 0) (z :: l2')).
          { change (last (b :: z :: l2') 0) with (last (z :: l2') 0). apply last_In. discriminate. }
          apply NoDup_app_r in Hnd. inversion Hnd as [|? ? Ha Hnd']; subst. inversion Hnd' as [|? ? Hb _]; subst.
          destruct Hlab as [Hl|Hl]; rewrite Hl in Hin; [apply Ha; right; exact Hin | apply Hb; exact Hin]. }
        subst. simpl in Hlen. lia. }
    apply (Hor b a); [tauto | exact Hba].
Qed.

Lemma forest_mono e es : forest (e :: es) -> forest es.
Proof.
  intros H [c [Hl [Hne [Hnd Hch]]]]. apply H. exists c. split; auto. split; auto. split; auto.
  eapply chain_mono; [|exact Hch]. intros a b Hab. apply adj_cons. left. exact Hab.
Qed.

Lemma forest_merges n es : simple_edges n es -> (forest es <-> merges n es = length es).
Proof.
  intros Hs. induction Hs as [|u v rest Hu Hv Huv Hn Hs IH].
  - simpl. split; auto. intros _ [c [Hl [Hne [Hnd Hch]]]].
    destruct c as [|x [|y t]]; simpl in Hl; try lia. simpl in Hch. destruct Hch as [[[]|[]] _].
  - cbn [merges length]. cbv zeta. pose proof (merges_le n rest) as Hle.
    pose proof (uf_conn n rest Hs u v Hu Hv) as Hconn.
    split.
    + intros Hf. apply forest_mono in Hf as Hfr. apply IH in Hfr.
      destruct (Nat.eqb_spec (nthn (uf n rest) u) (nthn (uf n rest) v)) as [E|E]; [|simpl; lia].
      exfalso. apply Hconn in E. destruct (reach_spath _ _ _ E) as [p [P1 [P2 [P3 [P4 P5]]]]].
      apply Hf. exists p. split.
      * destruct p as [|x [|y [|z t]]]; simpl in *; try lia; try congruence.
        subst. exfalso. apply Hn. tauto.
      * split; auto. split; auto. apply chain_app. split.
        -- eapply chain_mono; [|exact P5]. intros a b Hab. apply adj_cons. left. exact Hab.
        -- split; [simpl; auto|]. intros _ _. cbn [hd]. rewrite P1, P2. apply adj_cons. right. right. reflexivity.
    + intros Hm.
      destruct (Nat.eqb_spec (nthn (uf n rest) u) (nthn (uf n rest) v)) as [E|E]; [simpl in Hm; lia|].
      assert (Hmr : merges n rest = length rest) by (simpl in Hm; lia).
      apply IH in Hmr. intros [c [Hl Hc]].
      destruct (cycle_uses_new_edge u v rest c Hc Hl) as [Hcyc|Hcon].
      * apply Hmr. exact Hcyc.
      * apply E. apply Hconn. exact Hcon.
Qed.

(** forest_iff_count: for ANY labelling whose classes are the connected components. *)
Theorem forest_iff_count_lemma (n : nat) (es : list (nat * nat)) (comp : list nat) :
  simple_edges n es -> length comp = n ->
  (forall x y, x < n -> y < n -> (nthn comp x = nthn comp y <-> econn es x y)) ->
  (forest es <-> n_labels comp + length es = n).
Proof.
  intros Hs Hlen Hc.
  assert (Hk : n_labels comp = n_labels (uf n es)).
  { apply n_labels_kernel; [rewrite uf_length; exact Hlen|].
    intros i j Hi Hj. rewrite Hlen in Hi, Hj. rewrite (Hc i j Hi Hj), (uf_conn n es Hs i j Hi Hj). reflexivity. }
  pose proof (uf_count n es Hs) as Hcount. pose proof (merges_le n es) as Hle.
  rewrite (forest_merges n es Hs). rewrite Hk. lia.
Qed.

(** * Bridge to the model: the edge list of a symmetric loop-free pattern *)
Definition edges_of (g : graph) : list (nat * nat) :=
  flat_map (fun u => map (fun v => (u, v)) (filter (fun v => u <? v) (row g u))) (nodes g).

Lemma edges_of_In g u v : In (u, v) (edges_of g) <-> u < v /\ In v (row g u).
Proof.
  unfold edges_of. rewrite in_flat_map. split.
  - intros [x [Hx H]]. apply in_map_iff in H. destruct H as [y [E Hy]]. inversion E; subst.
    apply filter_In in Hy. destruct Hy as [Hy Hlt]. apply Nat.ltb_lt in Hlt. auto.
  - intros [Hlt Hin]. exists u. split; [apply nodes_In; eapply row_nonempty_lt; eauto|].
    apply in_map_iff. exists v. split; auto. apply filter_In. split; auto. apply Nat.ltb_lt. exact Hlt.
Qed.

Definition sym_graph (g : graph) : Prop := forall u v, In v (row g u) -> In u (row g v).
Definition loop_free (g : graph) : Prop := forall u, ~ In u (row g u).

Lemma adj_edges_of g u v : sym_graph g -> loop_free g -> (adj (edges_of g) u v <-> edge g u v).
Proof.
  intros Hs Hl. unfold adj, edge. rewrite !edges_of_In. split.
  - intros [[_ H]|[_ H]]; auto.
  - intros H. destruct (Nat.lt_total u v) as [Hlt|[E|Hgt]]; [left; auto | subst; exfalso; eapply Hl; eauto | right; auto].
Qed.

Lemma NoDup_map_pair (u : nat) (l : list nat) : NoDup l -> NoDup (map (fun v => (u, v)) l).
Proof.
  induction 1 as [|x t Hx Hnd IH]; simpl; constructor; auto.
  intros H. apply in_map_iff in H. destruct H as [y [E Hy]]. inversion E; subst. contradiction.
Qed.

Lemma NoDup_flat_map_fst (L : list nat) (f : nat -> list nat) :
  NoDup L -> (forall u, NoDup (f u)) -> NoDup (flat_map (fun u => map (fun v => (u, v)) (f u)) L).
Proof.
  intros HL Hf. induction HL as [|a L' Ha HL' IH]; simpl; [constructor|].
  apply NoDup_app_intro; auto.
  - apply NoDup_map_pair. apply Hf.
  - intros [x y] H1 H2. apply in_map_iff in H1. destruct H1 as [v [E _]]. inversion E; subst.
    apply in_flat_map in H2. destruct H2 as [u [Hu H2]]. apply in_map_iff in H2. destruct H2 as [w [E2 _]].
    inversion E2; subst. contradiction.
Qed.

Lemma simple_edges_of_ordered n es :
  NoDup es -> (forall a b, In (a, b) es -> a < b /\ b < n) -> simple_edges n es.
Proof.
  intros Hnd. induction Hnd as [|[u v] rest Hx Hnd IH]; intros Hr; [constructor|].
  destruct (Hr u v (or_introl eq_refl)) as [Huv Hv]. constructor; try lia.
  - intros [H|H]; [contradiction|]. destruct (Hr v u (or_intror H)). lia.
  - apply IH. intros a b H. apply Hr. right. exact H.
Qed.

Lemma simple_edges_of g :
  wf_graph g -> (forall u, NoDup (row g u)) -> simple_edges (length g) (edges_of g).
Proof.
  intros Hwf Hnd. apply simple_edges_of_ordered.
  - unfold edges_of. apply NoDup_flat_map_fst; [apply seq_NoDup|]. intros u. apply NoDup_filter. apply Hnd.
  - intros a b H. apply edges_of_In in H. destruct H as [Hlt Hin]. split; auto. eapply Hwf; eauto.
Qed.

(** Counting: nnz = 2 * (number of undirected edges). *)
Lemma flat_map_length {A B} (f : A -> list B) (l : list A) :
  length (flat_map f l) = sumn (map (fun x => length (f x)) l).
Proof. induction l as [|x t IH]; simpl; auto. rewrite app_length, IH. reflexivity. Qed.

Lemma filter_split_length {A} (p : A -> bool) (l : list A) :
  length l = length (filter p l) + length (filter (fun x => negb (p x)) l).
Proof. induction l as [|x t IH]; simpl; auto. destruct (p x); simpl; lia. Qed.

Lemma sumn_map_add {A} (f h : A -> nat) (l : list A) :
  sumn (map (fun x => f x + h x) l) = sumn (map f l) + sumn (map h l).
Proof. induction l as [|x t IH]; simpl; auto. rewrite IH. lia. Qed.

Lemma sumn_map_ext {A} (f h : A -> nat) (l : list A) :
  (forall x, In x l -> f x = h x) -> sumn (map f l) = sumn (map h l).
Proof.
  induction l as [|x t IH]; simpl; intros H; [reflexivity|]. rewrite (H x) by auto. rewrite IH; auto.
Qed.

Lemma count_swap {A B} (f : A -> B -> bool) (L : list A) (M : list B) :
  sumn (map (fun u => length (filter (f u) M)) L) = sumn (map (fun v => length (filter (fun u => f u v) L)) M).
Proof.
  induction L as [|a L' IH]; simpl.
  - induction M as [|b M' IHM]; simpl; auto.
  - rewrite IH. clear IH.
    rewrite (sumn_map_ext (fun v => length (if f a v then a :: filter (fun u => f u v) L' else filter (fun u => f u v) L'))
                          (fun v => (if f a v then 1 else 0) + length (filter (fun u => f u v) L')) M).
    + rewrite sumn_map_add. f_equal. induction M as [|b M' IHM]; simpl; auto.
      destruct (f a b); simpl; rewrite IHM; reflexivity.
    + intros v _. destruct (f a v); reflexivity.
Qed.

Lemma count_via_seq (p : nat -> bool) (l : list nat) (n : nat) :
  NoDup l -> (forall x, In x l -> x < n) ->
  length (filter p l) = length (filter (fun v => p v && memn v l) (seq 0 n)).
Proof.
  intros Hnd Hr. apply Permutation_length. apply NoDup_Permutation.
  - apply NoDup_filter. exact Hnd.
  - apply NoDup_filter. apply seq_NoDup.
  - intros x. rewrite !filter_In, in_seq, andb_true_iff, memn_In. split.
    + intros [H1 H2]. split; [split; [lia | apply Hr; exact H1] | auto].
    + tauto.
Qed.

Lemma nnz_rows g : nnz g = sumn (map (fun u => length (row g u)) (nodes g)).
Proof.
  unfold nnz, nodes. f_equal. apply nth_ext with (d := 0) (d' := 0).
  - rewrite !map_length, seq_length. reflexivity.
  - intros i Hi. rewrite map_length in Hi.
    rewrite (nth_map_lt _ g i [] 0) by exact Hi.
    rewrite nth_map_seq by exact Hi. reflexivity.
Qed.

Lemma nnz_edges_of g :
  wf_graph g -> sym_graph g -> loop_free g -> (forall u, NoDup (row g u)) ->
  nnz g = 2 * length (edges_of g).
Proof.
  intros Hwf Hs Hl Hnd. set (n := length g).
  assert (Hlen : length (edges_of g) = sumn (map (fun u => length (filter (fun v => u <? v) (row g u))) (nodes g))).
  { unfold edges_of. rewrite flat_map_length. apply sumn_map_ext. intros u _. apply map_length. }
  rewrite nnz_rows, Hlen.
  (* |row u| = hi u + lo u *)
  rewrite (sumn_map_ext (fun u => length (row g u))
             (fun u => length (filter (fun v => u <? v) (row g u)) + length (filter (fun v => v <? u) (row g u))) (nodes g)).
  2:{ intros u _. rewrite (filter_split_length (fun v => u <? v) (row g u)). f_equal.
      f_equal. apply filter_ext_in. intros v Hv.
      assert (v <> u) by (intros E; subst; eapply Hl; eauto).
      destruct (Nat.ltb_spec u v), (Nat.ltb_spec v u); simpl; auto; lia. }
  rewrite sumn_map_add.
  assert (Hswap : sumn (map (fun u => length (filter (fun v => v <? u) (row g u))) (nodes g)) =
                  sumn (map (fun u => length (filter (fun v => u <? v) (row g u))) (nodes g))).
  { rewrite (sumn_map_ext _ (fun u => length (filter (fun v => (v <? u) && memn v (row g u)) (nodes g))) (nodes g)).
    2:{ intros u _. apply count_via_seq; [apply Hnd|]. intros x Hx. eapply Hwf; eauto. }
    rewrite (count_swap (fun u v => (v <? u) && memn v (row g u)) (nodes g) (nodes g)).
    apply sumn_map_ext. intros v Hv. symmetry.
    rewrite (count_via_seq (fun u => v <? u) (row g v) n); [|apply Hnd|intros x Hx; eapply Hwf; eauto].
    f_equal. apply filter_ext_in. intros u Hu. f_equal.
    destruct (memn u (row g v)) eqn:E1, (memn v (row g u)) eqn:E2; auto.
    - apply memn_In in E1. apply Hs in E1. apply memn_In in E1. congruence.
    - apply memn_In in E2. apply Hs in E2. apply memn_In in E2. congruence. }
  rewrite Hswap. lia.
Qed.

Lemma simple_cycle_ext (E F : nat -> nat -> Prop) c :
  (forall a b, E a b -> F a b) -> simple_cycle E c -> simple_cycle F c.
Proof. intros H [A [B C]]. split; auto. split; auto. eapply chain_mono; eauto. Qed.

Lemma resolve_directed_false g directed :
  resolve_directed g directed = Ok false -> is_symmetric g = true.
Proof.
  destruct directed as [[|]|]; simpl; try discriminate.
  - destruct (is_symmetric g); [auto | discriminate].
  - destruct (is_symmetric g); simpl; [auto | discriminate].
Qed.

(** is_acyclic on an undirected graph (canonical rows: no duplicate column index). *)
Theorem is_acyclic_undirected_lemma (g : graph) (directed : option bool) (comp : list nat) (b : bool) :
  wf_graph g -> (forall u, NoDup (row g u)) -> components_contract g false comp ->
  resolve_directed g directed = Ok false ->
  is_acyclic g directed comp = Ok b ->
  (b = true <-> ~ exists c, ucycle g c).
Proof.
  intros Hwf Hnd [Hlen Hc] Hd. pose proof (resolve_directed_false g directed Hd) as Hsym0.
  pose proof (proj1 (is_symmetric_spec g) Hsym0) as Hsym. unfold is_acyclic. rewrite Hd.
  destruct (has_loops g) eqn:Hl.
  - intros H; inversion H; subst b. split; [discriminate|]. intros Hn. exfalso. apply Hn.
    apply has_loops_spec in Hl. destruct Hl as [u [Hu Huu]]. exists [u]. split; [|simpl; lia].
    split; [discriminate|]. split; [constructor; [intros []|constructor]|]. simpl. auto.
  - intros H; inversion H; subst b. clear H. pose proof (proj1 (has_loops_false g) Hl) as Hlf.
    pose proof (nnz_edges_of g Hwf Hsym Hlf Hnd) as Hnnz.
    pose proof (simple_edges_of g Hwf Hnd) as Hse.
    assert (Hconn : forall x y, x < length g -> y < length g ->
              (nthn comp x = nthn comp y <-> econn (edges_of g) x y)).
    { intros x y Hx Hy. rewrite (Hc x y Hx Hy). unfold wconn, econn. split; apply reach_mono; intros a c0 Hac.
      - apply adj_edges_of; auto. destruct Hac as [Hac|Hac]; [exact Hac | apply Hsym; exact Hac].
      - left. apply adj_edges_of in Hac; auto. }
    pose proof (forest_iff_count_lemma (length g) (edges_of g) comp Hse Hlen Hconn) as Hf.
    unfold count_criterion. rewrite Hnnz. rewrite Nat.mul_comm, Nat.div_mul by lia.
    rewrite Z.eqb_eq. split.
    + intros E [c [Hcy Hl2]]. assert (Hfo : forest (edges_of g)) by (apply Hf; lia).
      apply Hfo. exists c. split.
      * destruct Hcy as [Hne [_ Hch]]. destruct c as [|x [|y [|z t]]]; simpl in *; try lia; try congruence.
        exfalso. apply (Hlf x). tauto.
      * eapply simple_cycle_ext; [|exact Hcy]. intros a c0 Hac. apply adj_edges_of; auto.
    + intros Hno. assert (Hfo : forest (edges_of g)).
      { intros [c [Hl3 Hcy]]. apply Hno. exists c. split; [|lia].
        eapply simple_cycle_ext; [|exact Hcy]. intros a c0 Hac. apply adj_edges_of in Hac; auto. }
      apply Hf in Hfo. lia.
Qed.

(** * break_cycles: BOUNDED theorems (exhaustive evaluation, n <= 4) and the refutation *)

Definition out_degree (g : graph) (root : list nat) : nat := sumn (map (fun r => length (row g r)) root).

(** The model run with the canonical oracle answers (labels = smallest node of the class). *)
Definition bc_run (directed : option bool) (d : bool) (g : graph) (root : list nat) : result graph :=
  break_cycles g root directed (canon_labels g d) (canon_labels (drop_loops g) d).
Definition bc_check (directed : option bool) (d : bool) (g : graph) (root : list nat) : bool :=
  match bc_run directed d g root with
  | Ok h => bc_post g root d h
  | Err _ => false
  end.

(** Directed branch: explicit directed=True on every digraph, inferred flag on the non-symmetric ones. *)
Definition dir_check (g : graph) : bool :=
  forallb (fun root => negb (0 <? out_degree g root) ||
                       (bc_check (Some true) true g root && (is_symmetric g || bc_check None true g root)))
          (nonempty_sublists (nodes g)).
Definition small_digraphs : list graph :=
  all_digraphs 0 true ++ all_digraphs 1 true ++ all_digraphs 2 true ++ all_digraphs 3 true ++ all_digraphs 4 false.

Lemma dir_check_small : forallb dir_check small_digraphs = true.
Proof. vm_cast_no_check (eq_refl true). Qed.

Theorem break_cycles_ok_upto_4_lemma (g : graph) (root : list nat) (directed : option bool) :
  In g small_digraphs -> In root (nonempty_sublists (nodes g)) -> 0 < out_degree g root ->
  directed = Some true \/ (directed = None /\ is_symmetric g = false) ->
  exists h, bc_run directed true g root = Ok h /\ bc_post g root true h = true.
Proof.
  intros Hg Hr Hd Hflag.
  pose proof (proj1 (forallb_forall dir_check small_digraphs) dir_check_small g Hg) as H.
  unfold dir_check in H. rewrite forallb_forall in H. specialize (H root Hr).
  apply Nat.ltb_lt in Hd. rewrite Hd in H. cbn [negb orb] in H.
  apply andb_true_iff in H. destruct H as [H1 H2].
  destruct Hflag as [E|[E Hs]]; subst directed.
  - unfold bc_check in H1. destruct (bc_run (Some true) true g root) as [h|e]; [|discriminate].
    exists h. auto.
  - rewrite Hs in H2. cbn [orb] in H2. unfold bc_check in H2.
    destruct (bc_run None true g root) as [h|e]; [|discriminate]. exists h. auto.
Qed.

(** Undirected branch. The positive statement needs the hypothesis that every node lying on a cycle
    (of length >= 3) is reachable from the root set: cycles elsewhere are never visited. *)
Definition on_ucycle_b (g : graph) (u : nat) : bool :=
  existsb (fun v => negb (v =? u) && nthb (reach_from (remove_edge (remove_edge g u v) v u) [v]) u) (row g u).
Definition cycles_covered (g : graph) (root : list nat) : bool :=
  let r := reach_from g root in forallb (fun u => implb (on_ucycle_b g u) (nthb r u)) (nodes g).
Definition und_check (g : graph) : bool :=
  forallb (fun root => negb (0 <? out_degree g root) || negb (cycles_covered g root) ||
                       (bc_check None false g root && bc_check (Some false) false g root))
          (nonempty_sublists (nodes g)).
Definition small_undirected : list graph :=
  filter is_symmetric (all_digraphs 0 true ++ all_digraphs 1 true ++ all_digraphs 2 true ++
                       all_digraphs 3 true ++ all_digraphs 4 true).

Lemma und_check_small : forallb und_check small_undirected = true.
Proof. vm_cast_no_check (eq_refl true). Qed.

Theorem break_cycles_undirected_ok_upto_4_lemma (g : graph) (root : list nat) (directed : option bool) :
  In g small_undirected -> In root (nonempty_sublists (nodes g)) -> 0 < out_degree g root ->
  cycles_covered g root = true ->
  directed = None \/ directed = Some false ->
  exists h, bc_run directed false g root = Ok h /\ bc_post g root false h = true.
Proof.
  intros Hg Hr Hd Hcov Hflag.
  pose proof (proj1 (forallb_forall und_check small_undirected) und_check_small g Hg) as H.
  unfold und_check in H. rewrite forallb_forall in H. specialize (H root Hr).
  apply Nat.ltb_lt in Hd. rewrite Hd, Hcov in H. cbn [negb orb] in H.
  apply andb_true_iff in H. destruct H as [H1 H2].
  destruct Hflag as [E|E]; subst directed.
  - unfold bc_check in H1. destruct (bc_run None false g root) as [h|e]; [|discriminate]. exists h. auto.
  - unfold bc_check in H2. destruct (bc_run (Some false) false g root) as [h|e]; [|discriminate]. exists h. auto.
Qed.

(** Refutation (D22): triangle {0,2,3}, separate root 1 carrying a self-loop. The undirected branch
    returns the triangle untouched: the result is not acyclic. The coverage hypothesis above fails. *)
Definition d22_graph : graph := [[2; 3]; [1]; [0; 3]; [0; 2]].

Theorem break_cycles_undirected_refuted_lemma :
  exists g root comp h,
    wf_graph g /\ is_symmetric g = true /\ In root (nonempty_sublists (nodes g)) /\ 0 < out_degree g root /\
    components_contract_b g false comp = true /\
    (forall comp2, break_cycles g root None comp comp2 = Ok h) /\
    ucycle h [0; 2; 3] /\ acyclic_b h false = false /\ bc_post g root false h = false /\
    cycles_covered g root = false.
Proof.
  exists d22_graph, [1], [0; 1; 0; 0], [[2; 3]; []; [0; 3]; [0; 2]].
  split.
  { intros u v H. unfold d22_graph in *.
    destruct u as [|[|[|[|u]]]]; simpl in H; cbn [length]; try lia; try (destruct u; contradiction). }
  split; [reflexivity|]. split; [vm_compute; tauto|]. split; [vm_compute; lia|].
  split; [reflexivity|]. split; [intros comp2; reflexivity|].
  split.
  { split; [|simpl; lia]. split; [discriminate|]. split.
    - repeat constructor; simpl; intuition lia.
    - simpl. unfold edge. simpl. tauto. }
  split; [reflexivity|]. split; reflexivity.
Qed.

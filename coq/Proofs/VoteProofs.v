(** Proofs about Model/Vote.v: what one call of vote_update computes (for every kernel variant),
    and the fixed-point / local-evidence theorem of label propagation. *)
From SKN Require Import Base.Util Model.Vote.
From Coq Require Import Lqa Psatz Sorted Permutation.
Close Scope Q_scope.
Open Scope nat_scope.

(** * Lists *)

Lemma upd_length {A} (l : list A) i x : length (upd l i x) = length l.
Proof. revert i; induction l as [|a t IH]; intros [|i]; simpl; auto. Qed.

Lemma nth_upd_same {A} (l : list A) i x d : i < length l -> nth i (upd l i x) d = x.
Proof. revert i; induction l as [|a t IH]; intros [|i] H; simpl in *; try lia; auto. apply IH; lia. Qed.

Lemma nth_upd_other {A} (l : list A) i j x d : i <> j -> nth j (upd l i x) d = nth j l d.
Proof.
  revert i j; induction l as [|a t IH]; intros [|i] [|j] H; simpl; auto; try lia.
  all: apply IH; lia.
Qed.

Lemma upd_upd {A} (l : list A) i x y : upd (upd l i x) i y = upd l i y.
Proof. revert i; induction l as [|a t IH]; intros [|i]; simpl; auto. f_equal; apply IH. Qed.

Lemma upd_nth_same {A} (l : list A) i d : upd l i (nth i l d) = l.
Proof. revert i; induction l as [|a t IH]; intros [|i]; simpl; auto. f_equal; apply IH. Qed.

Lemma In_upd {A} (l : list A) i x y : In y (upd l i x) -> y = x \/ In y l.
Proof.
  revert i; induction l as [|a t IH]; intros [|i]; simpl; auto.
  - intros [E|H]; auto.
  - intros [E|H]; auto. destruct (IH _ H); auto.
Qed.

Lemma nth_error_nthn l i x : nth_error l i = Some x -> nthn l i = x.
Proof. intros H. unfold nthn. apply nth_error_nth. exact H. Qed.
Lemma nth_error_nthz l i x : nth_error l i = Some x -> nthz l i = x.
Proof. intros H. unfold nthz. apply nth_error_nth. exact H. Qed.
Lemma nth_error_nthq l i x : nth_error l i = Some x -> nthq l i = x.
Proof. intros H. unfold nthq. apply nth_error_nth. exact H. Qed.

Lemma nth_error_lt {A} (l : list A) i x : nth_error l i = Some x -> i < length l.
Proof. intros H. apply nth_error_Some. rewrite H. discriminate. Qed.

Lemma skipn_nth_error {A} (l : list A) p x : nth_error l p = Some x -> skipn p l = x :: skipn (S p) l.
Proof.
  revert p; induction l as [|a t IH]; intros [|p] H; simpl in *; try discriminate.
  - inversion H; reflexivity.
  - apply IH. exact H.
Qed.

Lemma skipn_S_nil {A} (l : list A) p : skipn p l = [] -> skipn (S p) l = [].
Proof.
  revert p; induction l as [|a t IH]; intros [|p] H; simpl in *; auto; try discriminate.
Qed.

Lemma skipn_S_cons {A} (l : list A) p x r : skipn p l = x :: r -> skipn (S p) l = r.
Proof.
  revert p; induction l as [|a t IH]; intros [|p] H; simpl in *; try discriminate.
  - inversion H; reflexivity.
  - apply IH. exact H.
Qed.

(** * std::set as a strictly increasing list *)

Lemma set_insert_In x s y : In y (set_insert x s) <-> y = x \/ In y s.
Proof.
  induction s as [|a t IH]; simpl.
  - intuition.
  - destruct (x <? a) eqn:E1; simpl; [intuition|].
    destruct (x =? a) eqn:E2; simpl.
    + apply Nat.eqb_eq in E2. subst. intuition.
    + rewrite IH. intuition.
Qed.

Lemma set_insert_sorted x s : StronglySorted lt s -> StronglySorted lt (set_insert x s).
Proof.
  induction s as [|a t IH]; simpl; intros H.
  - repeat constructor.
  - inversion H as [|? ? Ht Ha]; subst.
    destruct (x <? a) eqn:E1.
    + apply Nat.ltb_lt in E1. constructor; [exact H|].
      constructor; [exact E1|]. rewrite Forall_forall in *. intros y Hy. specialize (Ha y Hy). lia.
    + destruct (x =? a) eqn:E2; [exact H|].
      apply Nat.ltb_ge in E1. apply Nat.eqb_neq in E2.
      constructor; [apply IH; exact Ht|].
      rewrite Forall_forall in *. intros y Hy. apply set_insert_In in Hy. destruct Hy as [->|Hy]; [lia|auto].
Qed.

Lemma ssorted_nodup s : StronglySorted lt s -> NoDup s.
Proof.
  induction s as [|a t IH]; intros H; constructor; inversion H as [|? ? Ht Ha]; subst.
  - intros Hin. rewrite Forall_forall in Ha. specialize (Ha a Hin). lia.
  - apply IH; exact Ht.
Qed.

Definition uniq_of (ln : list Z) (s : list nat) : list nat :=
  fold_left (fun s x => if (x <? 0)%Z then s else set_insert (Z.to_nat x) s) ln s.

Lemma uniq_of_In ln : forall s x, In x (uniq_of ln s) <-> In x s \/ In (Z.of_nat x) ln.
Proof.
  induction ln as [|a t IH]; intros s x; simpl.
  - intuition.
  - unfold uniq_of in *. simpl. rewrite IH. destruct (a <? 0)%Z eqn:E.
    + apply Z.ltb_lt in E. split; [intuition|]. intros [H|[H|H]]; auto. lia.
    + apply Z.ltb_ge in E. rewrite set_insert_In. split.
      * intros [[->|H]|H]; auto. right; left. lia.
      * intros [H|[H|H]]; auto. left; left. subst a. lia.
Qed.

Lemma uniq_of_sorted ln : forall s, StronglySorted lt s -> StronglySorted lt (uniq_of ln s).
Proof.
  induction ln as [|a t IH]; intros s H; simpl; auto.
  unfold uniq_of in *. simpl. apply IH. destruct (a <? 0)%Z; auto. apply set_insert_sorted; exact H.
Qed.

(** * Sums over Q *)

Lemma sumq_nonneg (l : list Q) : Forall (fun x => 0 <= x)%Q l -> (0 <= sumq l)%Q.
Proof.
  induction l as [|a t IH]; intros H; simpl; [lra|].
  inversion H; subst. specialize (IH H3). lra.
Qed.

(** [wsum ln ws l]: the number the kernel accumulates in [votes[l]]: the sum of [ws[p]] over the positions
    [p] of [labels_neigh] holding label [l] (positions beyond [ws] contribute nothing). *)
Fixpoint wsum (ln : list Z) (ws : list Q) (l : nat) : Q :=
  match ln, ws with
  | x :: t, w :: ws' => ((if (x =? Z.of_nat l)%Z then w else 0) + wsum t ws' l)%Q
  | _, _ => 0%Q
  end.

Lemma wsum_nil_r ln l : wsum ln [] l = 0%Q.
Proof. destruct ln; reflexivity. Qed.

Lemma wsum_notin ln : forall ws l, ~ In (Z.of_nat l) ln -> (wsum ln ws l == 0)%Q.
Proof.
  induction ln as [|x t IH]; intros [|w ws] l H; simpl; try reflexivity.
  destruct (x =? Z.of_nat l)%Z eqn:E.
  - apply Z.eqb_eq in E. exfalso. apply H. left. exact E.
  - rewrite IH; [lra|]. intros Hin. apply H. right. exact Hin.
Qed.

Lemma wsum_nonneg ln : forall ws l, Forall (fun w => 0 <= w)%Q ws -> (0 <= wsum ln ws l)%Q.
Proof.
  induction ln as [|x t IH]; intros [|w ws] l H; simpl; try lra.
  inversion H; subst. specialize (IH ws l H3). destruct (x =? Z.of_nat l)%Z; lra.
Qed.

Lemma wsum_neg_head x t ws l : (x < 0)%Z -> (wsum (x :: t) ws l == wsum t (tl ws) l)%Q.
Proof.
  intros H. destruct ws as [|w ws]; simpl.
  - rewrite wsum_nil_r. reflexivity.
  - destruct (x =? Z.of_nat l)%Z eqn:E; [apply Z.eqb_eq in E; lia|]. lra.
Qed.

(** unit weights: the accumulated number is the count of the label. *)
Lemma wsum_ones ln : forall ws l,
  Forall (fun w => w == 1)%Q ws -> length ln <= length ws ->
  (wsum ln ws l == sumq (map (fun x => if (x =? Z.of_nat l)%Z then 1 else 0)%Q ln))%Q.
Proof.
  induction ln as [|x t IH]; intros [|w ws] l H Hl; simpl in *; try reflexivity; try lia.
  inversion H; subst. rewrite (IH ws l H3) by lia.
  destruct (x =? Z.of_nat l)%Z; [rewrite H2|]; reflexivity.
Qed.

(** true weights: position p of [labels_neigh] is paired with its own weight. *)
Lemma wsum_map {A} (f : A -> Z) (g : A -> Q) (js : list A) l :
  wsum (map f js) (map g js) l = sumq (map (fun j => if (f j =? Z.of_nat l)%Z then g j else 0%Q) js).
Proof. induction js as [|j t IH]; simpl; [reflexivity|]. rewrite IH. reflexivity. Qed.

Lemma total_vote_map {A} (f : A -> nat) (g : A -> Q) (js : list A) labels z :
  total_vote (map (fun j => (f j, g j)) js) labels z =
  sumq (map (fun j => if (nthz labels (f j) =? z)%Z then g j else 0%Q) js).
Proof. unfold total_vote. rewrite map_map. reflexivity. Qed.

Lemma total_vote_nonneg nb labels z :
  Forall (fun p : nat * Q => 0 <= snd p)%Q nb -> (0 <= total_vote nb labels z)%Q.
Proof.
  intros H. unfold total_vote. apply sumq_nonneg. rewrite Forall_forall in *.
  intros x Hx. apply in_map_iff in Hx. destruct Hx as [p [<- Hp]].
  specialize (H p Hp). cbn beta. destruct (nthz labels (fst p) =? z)%Z; [exact H|lra].
Qed.

(** * The three inner loops *)

Lemma gather_ok kv indices data labels js : forall ln vn ln' vn',
  gather kv indices data labels js ln vn = VOk (ln', vn') ->
  ln' = ln ++ map (fun j => nthz labels (nthn indices j)) js /\
  vn' = vn ++ map (fun j => nthq data (if wpos kv then j else nthn indices j)) js /\
  Forall (fun j => nthn indices j < length labels /\
                   (if wpos kv then j else nthn indices j) < length data) js.
Proof.
  induction js as [|j t IH]; intros ln vn ln' vn' H; simpl in H.
  - inversion H; subst. rewrite !app_nil_r. auto.
  - destruct (nth_error indices j) as [jj|] eqn:E1; [|discriminate].
    destruct (nth_error labels jj) as [l|] eqn:E2; [|discriminate].
    destruct (nth_error data (if wpos kv then j else jj)) as [w|] eqn:E3; [|discriminate].
    apply IH in H. destruct H as [H1 [H2 H3]].
    pose proof (nth_error_nthn _ _ _ E1) as Hjj. simpl.
    rewrite Hjj, (nth_error_nthz _ _ _ E2), (nth_error_nthq _ _ _ E3).
    rewrite <- !app_assoc in *. simpl in *. split; [exact H1|]. split; [exact H2|].
    constructor; [|exact H3]. rewrite Hjj. split; eapply nth_error_lt; eassumption.
Qed.

Lemma tally_ok ln : forall p vn uniq votes uniq' votes',
  tally ln p vn uniq votes = VOk (uniq', votes') ->
  length votes' = length votes /\
  (forall l, nthq votes' l == nthq votes l + wsum ln (skipn p vn) l)%Q /\
  uniq' = uniq_of ln uniq.
Proof.
  induction ln as [|x t IH]; intros p vn uniq votes uniq' votes' H; simpl in H.
  - inversion H; subst. split; [reflexivity|]. split; [|reflexivity]. intros l. simpl. lra.
  - destruct (x <? 0)%Z eqn:Ex.
    + apply IH in H. destruct H as [H1 [H2 H3]]. split; [exact H1|]. split.
      * intros l. rewrite H2. apply Z.ltb_lt in Ex. rewrite (wsum_neg_head x t _ l Ex).
        destruct (skipn p vn) as [|w r] eqn:Es.
        -- rewrite (skipn_S_nil _ _ Es). reflexivity.
        -- rewrite (skipn_S_cons _ _ _ _ Es). reflexivity.
      * unfold uniq_of in *. simpl. rewrite Ex. exact H3.
    + destruct (nth_error vn p) as [w|] eqn:E1; [|discriminate].
      destruct (nth_error votes (Z.to_nat x)) as [v|] eqn:E2; [|discriminate].
      apply IH in H. destruct H as [H1 [H2 H3]]. rewrite upd_length in H1. split; [exact H1|]. split.
      * intros l. rewrite H2. rewrite (skipn_nth_error _ _ _ E1). simpl.
        apply Z.ltb_ge in Ex. pose proof (nth_error_lt _ _ _ E2) as Hlt.
        destruct (Nat.eq_dec l (Z.to_nat x)) as [->|Ne].
        -- unfold nthq at 1. rewrite nth_upd_same by exact Hlt.
           rewrite (nth_error_nthq _ _ _ E2). rewrite Z2Nat.id by exact Ex. rewrite Z.eqb_refl. lra.
        -- unfold nthq at 1. rewrite nth_upd_other by (intros E; apply Ne; symmetry; exact E).
           fold (nthq votes l). destruct (x =? Z.of_nat l)%Z eqn:E; [|lra].
           apply Z.eqb_eq in E. exfalso. apply Ne. subst x. rewrite Nat2Z.id. reflexivity.
      * unfold uniq_of in *. simpl. rewrite Ex. exact H3.
Qed.

Lemma memn_false x l : memn x l = false <-> ~ In x l.
Proof.
  split.
  - intros H Hin. apply memn_In in Hin. congruence.
  - intros H. destruct (memn x l) eqn:E; [|reflexivity]. apply memn_In in E. contradiction.
Qed.

Lemma select_ok uniq : forall i best labels votes labels' votes',
  NoDup uniq ->
  select uniq i best labels votes = VOk (labels', votes') ->
  length votes' = length votes /\ length labels' = length labels /\
  (forall l, nthq votes' l = if memn l uniq then 0%Q else nthq votes l) /\
  ((labels' = labels /\ forall l, In l uniq -> (nthq votes l <= best)%Q) \/
   (exists l, In l uniq /\ i < length labels /\ labels' = upd labels i (Z.of_nat l) /\
              (best < nthq votes l)%Q /\ forall l', In l' uniq -> (nthq votes l' <= nthq votes l)%Q)).
Proof.
  induction uniq as [|l t IH]; intros i best labels votes labels' votes' Hnd H; simpl in H.
  - inversion H; subst. repeat split; auto. left. split; [reflexivity|]. intros l [].
  - inversion Hnd as [|? ? Hnotin Hnd']; subst.
    destruct (nth_error votes l) as [v|] eqn:E; [|discriminate].
    pose proof (nth_error_nthq _ _ _ E) as Hv. pose proof (nth_error_lt _ _ _ E) as Hlt.
    assert (Hother : forall l', In l' t -> nthq (upd votes l 0%Q) l' = nthq votes l').
    { intros l' Hl'. unfold nthq. apply nth_upd_other. intros ->. contradiction. }
    assert (Hvotes : forall votes'', (forall x, nthq votes'' x = if memn x t then 0%Q else nthq (upd votes l 0%Q) x) ->
                                     forall x, nthq votes'' x = if memn x (l :: t) then 0%Q else nthq votes x).
    { intros votes'' Hx x. rewrite Hx. unfold memn at 2. simpl. fold (memn x t).
      destruct (memn x t) eqn:Em; [rewrite orb_true_r; reflexivity|]. rewrite orb_false_r.
      destruct (x =? l) eqn:Exl.
      - apply Nat.eqb_eq in Exl. subst x. unfold nthq. apply nth_upd_same. exact Hlt.
      - apply Nat.eqb_neq in Exl. unfold nthq. apply nth_upd_other. auto. }
    destruct (Qle_bool v best) eqn:Eb.
    + apply Qle_bool_iff in Eb.
      apply IH in H; [|exact Hnd']. destruct H as [H1 [H2 [H3 H4]]]. rewrite upd_length in H1.
      split; [exact H1|]. split; [exact H2|]. split; [apply Hvotes; exact H3|].
      destruct H4 as [[Heq Hle]|[l0 [Hin [Hi [Heq [Hb Hmax]]]]]].
      * left. split; [exact Heq|]. intros l' [<-|Hl']; [rewrite Hv; exact Eb|].
        rewrite <- (Hother l' Hl'). apply Hle. exact Hl'.
      * right. exists l0. rewrite (Hother l0 Hin) in *. split; [right; exact Hin|].
        split; [exact Hi|]. split; [exact Heq|]. split; [exact Hb|].
        intros l' [<-|Hl']; [rewrite Hv; lra|]. rewrite <- (Hother l' Hl'). apply Hmax. exact Hl'.
    + assert (Hbv : (best < v)%Q).
      { destruct (Qlt_le_dec best v) as [L|L]; [exact L|]. apply Qle_bool_iff in L. congruence. }
      destruct (i <? length labels) eqn:Ei; [|discriminate]. apply Nat.ltb_lt in Ei.
      apply IH in H; [|exact Hnd']. destruct H as [H1 [H2 [H3 H4]]]. rewrite upd_length in H1. rewrite upd_length in H2.
      split; [exact H1|]. split; [exact H2|]. split; [apply Hvotes; exact H3|].
      right. destruct H4 as [[Heq Hle]|[l0 [Hin [Hi [Heq [Hb Hmax]]]]]].
      * exists l. split; [left; reflexivity|]. split; [exact Ei|]. split; [exact Heq|].
        rewrite Hv. split; [exact Hbv|].
        intros l' [<-|Hl']; [rewrite Hv; lra|]. rewrite <- (Hother l' Hl'). apply Hle. exact Hl'.
      * exists l0. rewrite (Hother l0 Hin) in *. split; [right; exact Hin|]. split; [exact Ei|].
        split; [rewrite Heq; apply upd_upd|]. split; [lra|].
        intros l' [<-|Hl']; [rewrite Hv; lra|]. rewrite <- (Hother l' Hl'). apply Hmax. exact Hl'.
Qed.

(** * One node *)

Definition zero_votes (votes : list Q) : Prop := forall l, (nthq votes l == 0)%Q.

Lemma zero_votes_repeat n : zero_votes (repeat 0%Q n).
Proof.
  intros l. unfold nthq. destruct (Nat.lt_ge_cases l n) as [H|H].
  - rewrite nth_repeat. reflexivity.
  - rewrite nth_overflow by (rewrite repeat_length; exact H). reflexivity.
Qed.

Definition node_ln (indptr indices : list nat) (labels : list Z) (i : nat) : list Z :=
  map (fun j => nthz labels (nthn indices j)) (row_range indptr i).
Definition node_ws (kv : kvariant) (indptr indices : list nat) (data : list Q) (i : nat) : list Q :=
  map (fun j => nthq data (if wpos kv then j else nthn indices j)) (row_range indptr i).
(** the weights the kernel really pairs with the positions of [labels_neigh] *)
Definition node_eff (kv : kvariant) (indptr indices : list nat) (data : list Q) (i : nat) (vn : list Q) : list Q :=
  (if clr kv then [] else vn) ++ node_ws kv indptr indices data i.

Lemma vote_node_ok kv indptr indices data i labels votes vn labels1 votes1 vn1 :
  vote_node kv indptr indices data i (labels, votes, vn) = VOk (labels1, votes1, vn1) ->
  zero_votes votes ->
  let ln := node_ln indptr indices labels i in
  let eff := node_eff kv indptr indices data i vn in
  vn1 = eff /\ zero_votes votes1 /\ length labels1 = length labels /\ length votes1 = length votes /\
  Forall (fun j => nthn indices j < length labels /\
                   (if wpos kv then j else nthn indices j) < length data) (row_range indptr i) /\
  ((labels1 = labels /\ forall l, In (Z.of_nat l) ln -> (wsum ln eff l <= -1)%Q) \/
   (exists l, In (Z.of_nat l) ln /\ i < length labels /\ labels1 = upd labels i (Z.of_nat l) /\
              forall l', In (Z.of_nat l') ln -> (wsum ln eff l' <= wsum ln eff l)%Q)).
Proof.
  intros H Hz ln eff. unfold vote_node in H.
  destruct (nth_error indptr i) as [a|] eqn:Ea; [|discriminate].
  destruct (nth_error indptr (S i)) as [b|] eqn:Eb; [|discriminate].
  destruct (gather kv indices data labels (seq a (b - a)) [] (if clr kv then [] else vn)) as [[ln0 vn0]|] eqn:Eg; [|discriminate].
  destruct (tally ln0 0 vn0 [] votes) as [[uniq votes0]|] eqn:Et; [|discriminate].
  destruct (select uniq i (-1)%Q labels votes0) as [[labels2 votes2]|] eqn:Es; [|discriminate].
  inversion H; subst labels2 votes2 vn0. clear H.
  assert (Hrr : seq a (b - a) = row_range indptr i).
  { unfold row_range. rewrite (nth_error_nthn _ _ _ Ea), (nth_error_nthn _ _ _ Eb). reflexivity. }
  rewrite Hrr in Eg. apply gather_ok in Eg. destruct Eg as [G1 [G2 G3]]. simpl in G1.
  fold (node_ln indptr indices labels i) in G1. fold ln in G1. subst ln0.
  fold (node_ws kv indptr indices data i) in G2. fold (node_eff kv indptr indices data i vn) in G2. fold eff in G2.
  apply tally_ok in Et. destruct Et as [T1 [T2 T3]]. simpl in T2.
  assert (Hss : StronglySorted lt uniq). { subst uniq. apply uniq_of_sorted. constructor. }
  assert (Hin : forall l, In l uniq <-> In (Z.of_nat l) ln).
  { intros l. subst uniq. rewrite uniq_of_In. simpl. intuition. }
  apply select_ok in Es; [|apply ssorted_nodup; exact Hss]. destruct Es as [S1 [S2 [S3 S4]]].
  assert (Hv0 : forall l, (nthq votes0 l == wsum ln eff l)%Q).
  { intros l. rewrite T2, (Hz l), <- G2. lra. }
  split; [exact G2|]. split.
  { intros l. rewrite S3. destruct (memn l uniq) eqn:Em; [reflexivity|].
    rewrite Hv0. apply wsum_notin. rewrite <- Hin. apply memn_false. exact Em. }
  split; [exact S2|]. split; [lia|]. split; [exact G3|].
  destruct S4 as [[Heq Hle]|[l [Hl [Hi [Heq [Hb Hmax]]]]]].
  - left. split; [exact Heq|]. intros l Hl. rewrite <- Hv0. apply Hle. apply Hin. exact Hl.
  - right. exists l. split; [apply Hin; exact Hl|]. split; [exact Hi|]. split; [exact Heq|].
    intros l' Hl'. rewrite <- !Hv0. apply Hmax. apply Hin. exact Hl'.
Qed.

Lemma vote_node_frame kv indptr indices data i labels votes vn labels1 votes1 vn1 :
  vote_node kv indptr indices data i (labels, votes, vn) = VOk (labels1, votes1, vn1) ->
  zero_votes votes ->
  (forall v, v <> i -> nthz labels1 v = nthz labels v) /\
  (forall x, In x labels1 -> In x labels).
Proof.
  intros H Hz. destruct (vote_node_ok _ _ _ _ _ _ _ _ _ _ _ H Hz) as [_ [_ [_ [_ [Hf [[-> _]|[l [Hl [Hi [-> _]]]]]]]]]].
  - split; auto.
  - split.
    + intros v Hv. unfold nthz. apply nth_upd_other. auto.
    + intros x Hx. apply In_upd in Hx. destruct Hx as [->|Hx]; [|exact Hx].
      unfold node_ln in Hl. apply in_map_iff in Hl. destruct Hl as [j [Hj Hjin]].
      rewrite <- Hj. rewrite Forall_forall in Hf. destruct (Hf j Hjin) as [Hlt _].
      unfold nthz. apply nth_In. exact Hlt.
Qed.

(** If the node keeps its label, that label is a local arg-max for the weights the kernel used,
    provided those weights are non-negative and are the weights of the neighbourhood [nb]. *)
Lemma node_local_max (nb : nbrs) labels labels1 i ln eff :
  ln = map (fun p : nat * Q => nthz labels (fst p)) nb ->
  (forall l, total_vote nb labels (Z.of_nat l) == wsum ln eff l)%Q ->
  Forall (fun w => 0 <= w)%Q eff ->
  ((labels1 = labels /\ forall l, In (Z.of_nat l) ln -> (wsum ln eff l <= -1)%Q) \/
   (exists l, In (Z.of_nat l) ln /\ i < length labels /\ labels1 = upd labels i (Z.of_nat l) /\
              forall l', In (Z.of_nat l') ln -> (wsum ln eff l' <= wsum ln eff l)%Q)) ->
  nthz labels1 i = nthz labels i -> has_labelled_neighbour nb labels -> local_max nb labels i.
Proof.
  intros Hln Hbridge Hnn Hcase Hkeep [p [Hp Hpl]].
  destruct Hcase as [[_ Hle]|[l [Hl [Hi [Heq Hmax]]]]].
  - exfalso. set (z := nthz labels (fst p)) in *.
    assert (Hin : In (Z.of_nat (Z.to_nat z)) ln).
    { rewrite Z2Nat.id by exact Hpl. rewrite Hln. apply in_map_iff. exists p. split; [reflexivity|exact Hp]. }
    specialize (Hle _ Hin). pose proof (wsum_nonneg ln eff (Z.to_nat z) Hnn). lra.
  - assert (Hli : nthz labels i = Z.of_nat l).
    { rewrite <- Hkeep, Heq. unfold nthz. apply nth_upd_same. exact Hi. }
    split; [lia|]. intros z Hz. rewrite Hli.
    rewrite <- (Z2Nat.id z Hz). rewrite !Hbridge.
    destruct (in_dec Z.eq_dec (Z.of_nat (Z.to_nat z)) ln) as [Hin|Hnin].
    + apply Hmax. exact Hin.
    + rewrite (wsum_notin ln eff _ Hnin). apply wsum_nonneg. exact Hnn.
Qed.

(** * One sweep *)

Lemma vote_loop_frame kv indptr indices data index : forall labels votes vn labels' votes' vn',
  vote_loop kv indptr indices data index (labels, votes, vn) = VOk (labels', votes', vn') ->
  zero_votes votes ->
  zero_votes votes' /\ length labels' = length labels /\
  (forall v, ~ In v index -> nthz labels' v = nthz labels v) /\
  (forall x, In x labels' -> In x labels).
Proof.
  induction index as [|i t IH]; intros labels votes vn labels' votes' vn' H Hz; cbn [vote_loop] in H.
  - inversion H; subst. auto.
  - destruct (vote_node kv indptr indices data i (labels, votes, vn)) as [[[l1 v1] n1]|] eqn:En; [|discriminate].
    destruct (vote_node_ok _ _ _ _ _ _ _ _ _ _ _ En Hz) as [_ [Hz1 [Hl1 _]]].
    destruct (vote_node_frame _ _ _ _ _ _ _ _ _ _ _ En Hz) as [Hf1 Hi1].
    destruct (IH _ _ _ _ _ _ H Hz1) as [Hz' [Hl' [Hf' Hi']]].
    split; [exact Hz'|]. split; [lia|]. split.
    + intros v Hv. rewrite Hf' by (intros Hin; apply Hv; right; exact Hin).
      apply Hf1. intros ->. apply Hv. left. reflexivity.
    + intros x Hx. apply Hi1. apply Hi'. exact Hx.
Qed.

(** Generic fixed-point argument: [Inv] is an invariant of the votes_neigh vector, [Good labels i] the
    conclusion wanted at node i; a node that keeps its label under [Inv] is [Good]. *)
Lemma vote_loop_fixed kv indptr indices data (Inv : list Q -> Prop) (Good : list Z -> nat -> Prop) :
  (forall i labels votes vn labels1 votes1 vn1,
      vote_node kv indptr indices data i (labels, votes, vn) = VOk (labels1, votes1, vn1) ->
      zero_votes votes -> Inv vn -> Inv vn1 /\ (nthz labels1 i = nthz labels i -> Good labels i)) ->
  forall index labels votes vn labels' votes' vn',
  vote_loop kv indptr indices data index (labels, votes, vn) = VOk (labels', votes', vn') ->
  zero_votes votes -> Inv vn -> NoDup index ->
  (forall i, In i index -> nthz labels' i = nthz labels i) ->
  forall i, In i index -> Good labels i.
Proof.
  intros Hnode. induction index as [|i t IH]; intros labels votes vn labels' votes' vn' H Hz HI Hnd Hsame j Hj.
  - destruct Hj.
  - cbn [vote_loop] in H.
    destruct (vote_node kv indptr indices data i (labels, votes, vn)) as [[[l1 v1] n1]|] eqn:En; [|discriminate].
    inversion Hnd as [|? ? Hnotin Hnd']; subst.
    destruct (Hnode _ _ _ _ _ _ _ En Hz HI) as [HI1 Hgood].
    destruct (vote_node_ok _ _ _ _ _ _ _ _ _ _ _ En Hz) as [_ [Hz1 [_ [_ [_ Hcase]]]]].
    destruct (vote_loop_frame _ _ _ _ _ _ _ _ _ _ _ H Hz1) as [_ [_ [Hf' _]]].
    assert (Hkeep : nthz l1 i = nthz labels i).
    { rewrite <- (Hf' i Hnotin). apply Hsame. left. reflexivity. }
    assert (Hl1 : l1 = labels).
    { destruct Hcase as [[-> _]|[l [_ [Hi [Heq _]]]]]; [reflexivity|].
      assert (E : nthz labels i = Z.of_nat l).
      { rewrite <- Hkeep, Heq. unfold nthz. apply nth_upd_same. exact Hi. }
      rewrite Heq, <- E. apply upd_nth_same. }
    destruct Hj as [<-|Hj]; [apply Hgood; exact Hkeep|].
    subst l1. apply (IH _ _ _ _ _ _ H Hz1 HI1 Hnd'); [|exact Hj].
    intros k Hk. apply Hsame. right. exact Hk.
Qed.

(** ** Unweighted path: [data] is a vector of ones (of any length the kernel did not run out of). *)

Definition all_ones (l : list Q) : Prop := Forall (fun w => w == 1)%Q l.

Lemma all_ones_nonneg l : all_ones l -> Forall (fun w => 0 <= w)%Q l.
Proof. unfold all_ones. rewrite !Forall_forall. intros H x Hx. rewrite (H x Hx). lra. Qed.

Lemma node_unweighted kv indptr indices m i labels votes vn labels1 votes1 vn1 :
  vote_node kv indptr indices (repeat 1%Q m) i (labels, votes, vn) = VOk (labels1, votes1, vn1) ->
  zero_votes votes -> all_ones vn ->
  all_ones vn1 /\
  (nthz labels1 i = nthz labels i ->
   has_labelled_neighbour (nbrs_unit indptr indices i) labels -> local_max (nbrs_unit indptr indices i) labels i).
Proof.
  intros H Hz Hones.
  destruct (vote_node_ok _ _ _ _ _ _ _ _ _ _ _ H Hz) as [Hvn [_ [_ [_ [Hf Hcase]]]]].
  assert (Hws : all_ones (node_ws kv indptr indices (repeat 1%Q m) i)).
  { unfold all_ones, node_ws. rewrite Forall_forall. intros w Hw. apply in_map_iff in Hw.
    destruct Hw as [j [<- Hj]]. rewrite Forall_forall in Hf. destruct (Hf j Hj) as [_ Hlt].
    unfold nthq. rewrite (repeat_spec m 1%Q (nth (if wpos kv then j else nthn indices j) (repeat 1%Q m) 0%Q)); [reflexivity|].
    apply nth_In. exact Hlt. }
  assert (Heff : all_ones (node_eff kv indptr indices (repeat 1%Q m) i vn)).
  { unfold node_eff, all_ones. apply Forall_app. split; [|exact Hws]. destruct (clr kv); [constructor|exact Hones]. }
  split; [rewrite Hvn; exact Heff|].
  intros Hkeep Hnb.
  apply (node_local_max _ labels labels1 i (node_ln indptr indices labels i)
                        (node_eff kv indptr indices (repeat 1%Q m) i vn)); auto.
  - unfold node_ln, nbrs_unit. rewrite map_map. reflexivity.
  - intros l. unfold nbrs_unit. rewrite total_vote_map.
    rewrite wsum_ones; [|exact Heff|].
    + unfold node_ln. rewrite map_map. reflexivity.
    + unfold node_eff, node_ln, node_ws. rewrite app_length, !map_length. lia.
  - apply all_ones_nonneg. exact Heff.
Qed.

Theorem vote_fixed_point_unweighted kv indptr indices m labels index labels' :
  vote_update kv indptr indices (repeat 1%Q m) labels index = VOk labels' ->
  NoDup index ->
  (forall i, In i index -> nthz labels' i = nthz labels i) ->
  labels' = labels /\
  forall i, In i index -> has_labelled_neighbour (nbrs_unit indptr indices i) labels' ->
            local_max (nbrs_unit indptr indices i) labels' i.
Proof.
  intros H Hnd Hsame. unfold vote_update in H.
  destruct (vote_loop kv indptr indices (repeat 1%Q m) index (labels, repeat 0%Q (votes_size kv labels), []))
    as [[[l1 v1] n1]|] eqn:El; [|discriminate].
  inversion H; subst l1. clear H.
  pose proof (zero_votes_repeat (votes_size kv labels)) as Hz.
  destruct (vote_loop_frame _ _ _ _ _ _ _ _ _ _ _ El Hz) as [_ [Hlen [Hframe _]]].
  assert (Heq : labels' = labels).
  { apply nth_ext with (d := 0%Z) (d' := 0%Z); [exact Hlen|]. intros v _.
    destruct (in_dec Nat.eq_dec v index) as [Hin|Hnin]; [apply Hsame; exact Hin|apply Hframe; exact Hnin]. }
  split; [exact Heq|]. rewrite Heq. intros i Hi Hnb.
  refine (vote_loop_fixed kv indptr indices (repeat 1%Q m) all_ones
            (fun lab i => has_labelled_neighbour (nbrs_unit indptr indices i) lab -> local_max (nbrs_unit indptr indices i) lab i)
            _ index labels _ [] labels' v1 n1 El Hz _ Hnd Hsame i Hi Hnb).
  - intros. eapply node_unweighted; eassumption.
  - constructor.
Qed.

(** ** Weighted path of a kernel that reads the weight at the edge position and clears votes_neigh
    (the repaired source; not the legacy kernel, see [vote_weighted_refuted_legacy]); weights non-negative. *)

Lemma node_weighted_fixed kv indptr indices data i labels votes vn labels1 votes1 vn1 :
  wpos kv = true -> clr kv = true ->
  Forall (fun w => 0 <= w)%Q data ->
  vote_node kv indptr indices data i (labels, votes, vn) = VOk (labels1, votes1, vn1) ->
  zero_votes votes -> True ->
  True /\
  (nthz labels1 i = nthz labels i ->
   has_labelled_neighbour (nbrs_weighted indptr indices data i) labels ->
   local_max (nbrs_weighted indptr indices data i) labels i).
Proof.
  intros Hw Hc Hnn H Hz _. split; [exact I|].
  destruct (vote_node_ok _ _ _ _ _ _ _ _ _ _ _ H Hz) as [_ [_ [_ [_ [Hf Hcase]]]]].
  intros Hkeep Hnb.
  apply (node_local_max _ labels labels1 i (node_ln indptr indices labels i)
                        (node_eff kv indptr indices data i vn)); auto.
  - unfold node_ln, nbrs_weighted. rewrite map_map. reflexivity.
  - intros l. unfold nbrs_weighted. rewrite total_vote_map.
    unfold node_eff, node_ln, node_ws. rewrite Hw, Hc. simpl. rewrite wsum_map. reflexivity.
  - unfold node_eff, node_ws. rewrite Hw, Hc. simpl. rewrite Forall_forall. intros w Hw'. apply in_map_iff in Hw'.
    destruct Hw' as [j [<- Hj]]. rewrite Forall_forall in Hf. destruct (Hf j Hj) as [_ Hlt]. rewrite Hw in Hlt.
    rewrite Forall_forall in Hnn. apply Hnn. unfold nthq. apply nth_In. exact Hlt.
Qed.

Theorem vote_fixed_point_weighted kv indptr indices data labels index labels' :
  wpos kv = true -> clr kv = true ->
  Forall (fun w => 0 <= w)%Q data ->
  vote_update kv indptr indices data labels index = VOk labels' ->
  NoDup index ->
  (forall i, In i index -> nthz labels' i = nthz labels i) ->
  labels' = labels /\
  forall i, In i index -> has_labelled_neighbour (nbrs_weighted indptr indices data i) labels' ->
            local_max (nbrs_weighted indptr indices data i) labels' i.
Proof.
  intros Hw Hc Hnn H Hnd Hsame. unfold vote_update in H.
  destruct (vote_loop kv indptr indices data index (labels, repeat 0%Q (votes_size kv labels), []))
    as [[[l1 v1] n1]|] eqn:El; [|discriminate].
  inversion H; subst l1. clear H.
  pose proof (zero_votes_repeat (votes_size kv labels)) as Hz.
  destruct (vote_loop_frame _ _ _ _ _ _ _ _ _ _ _ El Hz) as [_ [Hlen [Hframe _]]].
  assert (Heq : labels' = labels).
  { apply nth_ext with (d := 0%Z) (d' := 0%Z); [exact Hlen|]. intros v _.
    destruct (in_dec Nat.eq_dec v index) as [Hin|Hnin]; [apply Hsame; exact Hin|apply Hframe; exact Hnin]. }
  split; [exact Heq|]. rewrite Heq. intros i Hi Hnb.
  refine (vote_loop_fixed kv indptr indices data (fun _ => True)
            (fun lab i => has_labelled_neighbour (nbrs_weighted indptr indices data i) lab ->
                          local_max (nbrs_weighted indptr indices data i) lab i)
            _ index labels _ [] labels' v1 n1 El Hz I Hnd Hsame i Hi Hnb).
  intros. eapply (node_weighted_fixed kv); eassumption.
Qed.

(** ** Labels only move around: every label after a sweep was a label before it. *)
Theorem vote_update_labels_from_input kv indptr indices data labels index labels' :
  vote_update kv indptr indices data labels index = VOk labels' ->
  length labels' = length labels /\
  (forall v, ~ In v index -> nthz labels' v = nthz labels v) /\
  (forall x, In x labels' -> In x labels).
Proof.
  intros H. unfold vote_update in H.
  destruct (vote_loop kv indptr indices data index (labels, repeat 0%Q (votes_size kv labels), []))
    as [[[l1 v1] n1]|] eqn:El; [|discriminate].
  inversion H; subst l1.
  destruct (vote_loop_frame _ _ _ _ _ _ _ _ _ _ _ El (zero_votes_repeat _)) as [_ [H1 [H2 H3]]]. auto.
Qed.

(** ** The LEGACY kernel on a weighted graph: a fixed point holding a non-maximal label.
    Graph: 1 -(1)- 3 -(2)- 2, node 0 isolated; seeds 1:0, 2:1; node 3 keeps label 0 although label 1
    has weight 2 against 1 (the kernel pairs neighbour 1 with data[1] = 2 and neighbour 2 with data[2] = 1). *)
Definition wit_indptr := [0; 0; 1; 2; 4].
Definition wit_indices := [3; 3; 1; 2].
Definition wit_data : list Q := [1; 2; 1; 2]%Q.
Definition wit_labels : list Z := [-1; 0; 1; 0]%Z.
Definition wit_index := [0; 3].

Theorem vote_weighted_refuted_legacy :
  vote_update_legacy wit_indptr wit_indices wit_data wit_labels wit_index = VOk wit_labels /\
  NoDup wit_index /\ Forall (fun w => 0 < w)%Q wit_data /\
  In 3 wit_index /\
  has_labelled_neighbour (nbrs_weighted wit_indptr wit_indices wit_data 3) wit_labels /\
  ~ local_max (nbrs_weighted wit_indptr wit_indices wit_data 3) wit_labels 3.
Proof.
  split; [vm_compute; reflexivity|].
  split; [repeat constructor; simpl; intuition; discriminate|].
  split; [repeat constructor|].
  split; [simpl; auto|].
  split.
  - exists (1, 1%Q). split; [vm_compute; auto|]. vm_compute. discriminate.
  - intros [_ H]. specialize (H 1%Z ltac:(lia)). vm_compute in H. apply H. reflexivity.
Qed.

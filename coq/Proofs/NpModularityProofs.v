(** C06, first clause, about the terms regenerated from sknetwork/clustering/metrics.py (Gen/NpModularity.v, language and
    semantics of Model/NpVec.v), over R: for every matrix (as an index function), every non-negative label vector, both
    weightings and every resolution, the denotation of get_modularity's [fit], [div] and [mod] is

      fit = (1/w) sum_ij A_ij d(i,j)      div = sum_ij pc_i pr_j d(i,j)      mod = fit - resolution * div

    with d(i,j) = [label i = label j], pr = out-weights / w (or 1/n), pc = in-weights / w (or 1/n): the modularity of the
    documentation, and fit and diversity add up to it. *)
From SKN Require Import Base.Util Model.Gnn Model.NpExpr Model.NpVec Gen.NpModularity Proofs.NpVecProofs.
Set Warnings "-notation-overridden,-ambiguous-paths".
From Coq Require Import Reals Lra String.
Local Open Scope R_scope.
Local Open Scope string_scope.

Definition env_mod (n : nat) (A : nat -> nat -> R) (l : list Z) (deg : bool) (gamma : R) : venv :=
  ("adjacency", WM n n A) :: ("labels", WLab l) :: ("weights", WKind deg) :: ("resolution", WS gamma) :: nil.

Definition lab (l : list Z) (i : nat) : Z := nth i l (-1)%Z.
Definition ind (l : list Z) (i c : nat) : R := if Z.eqb (lab l i) (Z.of_nat c) then 1 else 0.
Definition nlab (l : list Z) : nat := Z.to_nat (fold_right Z.max (-1)%Z l + 1).
Definition delta (l : list Z) (i j : nat) : R := if Z.eqb (lab l j) (lab l i) then 1 else 0.
Definition labels_ok (n : nat) (l : list Z) : Prop := List.length l = n /\ forall i, (i < n)%nat -> (0 <= lab l i)%Z.

(* ------------------------------------------------------------------------------------------- *)
(** * Sums *)
Lemma lsum_swap (l1 l2 : list nat) (f : nat -> nat -> R) :
  lsum l1 (fun i => lsum l2 (fun j => f i j)) = lsum l2 (fun j => lsum l1 (fun i => f i j)).
Proof.
  induction l1 as [|a t IH].
  - unfold lsum at 1. cbn. symmetry. apply lsum_zero. intros; reflexivity.
  - unfold lsum at 1. cbn [map g_sum fold_right]. fold (g_sum Rplus 0 (map (fun i => lsum l2 (fun j => f i j)) t)).
    fold (lsum t (fun i => lsum l2 (fun j => f i j))). rewrite IH.
    rewrite <- lsum_add. apply lsum_ext. intros j _. unfold lsum. cbn. reflexivity.
Qed.

Lemma lsum_pick (l : list nat) (a : nat) (g : nat -> R) :
  NoDup l -> In a l -> lsum l (fun c => (if Nat.eqb a c then 1 else 0) * g c) = g a.
Proof.
  unfold lsum, g_sum. induction l as [|x t IH]; intros Hnd Hin; [destruct Hin|].
  inversion Hnd as [|? ? Hnot Hnd']; subst. cbn [map fold_right].
  destruct Hin as [->|Hin].
  - rewrite Nat.eqb_refl.
    fold (g_sum Rplus 0 (map (fun c => (if Nat.eqb a c then 1 else 0) * g c) t)).
    fold (lsum t (fun c => (if Nat.eqb a c then 1 else 0) * g c)).
    rewrite lsum_zero; [lra|]. intros c Hc. destruct (Nat.eqb_spec a c); [subst; contradiction | lra].
  - destruct (Nat.eqb_spec a x); [subst; contradiction|]. rewrite IH by assumption. lra.
Qed.

(* ------------------------------------------------------------------------------------------- *)
(** * Labels *)
Lemma max_ge (l : list Z) (z : Z) : In z l -> (z <= fold_right Z.max (-1) l)%Z.
Proof. induction l as [|a t IH]; intros H; [destruct H|]. cbn. destruct H as [->|H]; [lia | specialize (IH H); lia]. Qed.

Lemma lab_below n l i : labels_ok n l -> (i < n)%nat -> (Z.to_nat (lab l i) < nlab l)%nat.
Proof.
  intros [Hlen Hpos] Hi. specialize (Hpos i Hi). unfold nlab.
  assert (lab l i <= fold_right Z.max (-1) l)%Z by (apply max_ge; unfold lab; apply nth_In; lia). lia.
Qed.

Lemma ind_eqb n l i c : labels_ok n l -> (i < n)%nat ->
  ind l i c = if Nat.eqb (Z.to_nat (lab l i)) c then 1 else 0.
Proof.
  intros [Hlen Hpos] Hi. specialize (Hpos i Hi). unfold ind.
  destruct (Z.eqb_spec (lab l i) (Z.of_nat c)) as [E|E]; destruct (Nat.eqb_spec (Z.to_nat (lab l i)) c) as [E'|E'];
    try reflexivity; exfalso; lia.
Qed.

Lemma ind_collapse n l i (g : nat -> R) : labels_ok n l -> (i < n)%nat ->
  lsum (seq 0 (nlab l)) (fun c => ind l i c * g c) = g (Z.to_nat (lab l i)).
Proof.
  intros Hok Hi.
  rewrite (lsum_ext _ _ (fun c => (if Nat.eqb (Z.to_nat (lab l i)) c then 1 else 0) * g c))
    by (intros c _; rewrite (ind_eqb n l i c Hok Hi); reflexivity).
  apply lsum_pick; [apply seq_NoDup | apply in_seq0; apply (lab_below n); assumption].
Qed.

Lemma ind_at_label n l i j : labels_ok n l -> (i < n)%nat -> ind l j (Z.to_nat (lab l i)) = delta l i j.
Proof.
  intros [Hlen Hpos] Hi. specialize (Hpos i Hi). unfold ind, delta. rewrite Z2Nat.id by exact Hpos. reflexivity.
Qed.

(* ------------------------------------------------------------------------------------------- *)
(** * The two algebraic identities *)
(** trace(M^T A M) = sum_ij A_ij [label i = label j] *)
Lemma trace_identity n l (A : nat -> nat -> R) : labels_ok n l ->
  lsum (seq 0 (nlab l)) (fun c => lsum (seq 0 n) (fun i => ind l i c * lsum (seq 0 n) (fun j => A i j * ind l j c)))
  = lsum (seq 0 n) (fun i => lsum (seq 0 n) (fun j => A i j * delta l i j)).
Proof.
  intros Hok. rewrite lsum_swap. apply lsum_ext. intros i Hi. apply in_seq0 in Hi.
  rewrite (ind_collapse n l i (fun c => lsum (seq 0 n) (fun j => A i j * ind l j c)) Hok Hi).
  apply lsum_ext. intros j _. rewrite (ind_at_label n l i j Hok Hi). reflexivity.
Qed.

(** (M^T p) . (M^T q) = sum_ij p_i q_j [label i = label j] *)
Lemma product_identity n l (p q : nat -> R) : labels_ok n l ->
  lsum (seq 0 (nlab l)) (fun c => lsum (seq 0 n) (fun i => ind l i c * p i) * lsum (seq 0 n) (fun j => ind l j c * q j))
  = lsum (seq 0 n) (fun i => lsum (seq 0 n) (fun j => p i * q j * delta l i j)).
Proof.
  intros Hok.
  rewrite (lsum_ext _ _ (fun c => lsum (seq 0 n) (fun i => ind l i c * (p i * lsum (seq 0 n) (fun j => ind l j c * q j))))).
  2:{ intros c _. rewrite <- lsum_scale_r. apply lsum_ext. intros i _. ring. }
  rewrite lsum_swap. apply lsum_ext. intros i Hi. apply in_seq0 in Hi.
  rewrite (ind_collapse n l i (fun c => p i * lsum (seq 0 n) (fun j => ind l j c * q j)) Hok Hi).
  rewrite <- lsum_scale. apply lsum_ext. intros j _. rewrite (ind_at_label n l i j Hok Hi). ring.
Qed.

(* ------------------------------------------------------------------------------------------- *)
(** * get_modularity *)
Definition total (n : nat) (A : nat -> nat -> R) : R := rsum n (fun i => rsum n (A i)).
(** probability of node i as a source (row sums) / as a target (column sums), or uniform *)
Definition p_out (n : nat) (A : nat -> nat -> R) (deg : bool) (i : nat) : R :=
  if deg then rsum n (A i) / total n A else 1 / rsum n (fun _ => 1).
Definition p_in (n : nat) (A : nat -> nat -> R) (deg : bool) (j : nat) : R :=
  if deg then rsum n (fun i => A i j) / rsum n (fun j' => rsum n (fun i => A i j')) else 1 / rsum n (fun _ => 1).
Definition fit_def (n : nat) (A : nat -> nat -> R) (l : list Z) : R :=
  rsum n (fun i => rsum n (fun j => A i j * delta l i j)) / total n A.
Definition div_def (n : nat) (A : nat -> nat -> R) (l : list Z) (deg : bool) : R :=
  rsum n (fun i => rsum n (fun j => p_in n A deg i * p_out n A deg j * delta l i j)).

Theorem source_modularity_def n A l deg gamma :
  labels_ok n l ->
  rvdenote (env_mod n A l deg gamma) src_modularity_fit = Some (WS (fit_def n A l)) /\
  rvdenote (env_mod n A l deg gamma) src_modularity_div = Some (WS (div_def n A l deg)) /\
  rvdenote (env_mod n A l deg gamma) src_modularity_mod = Some (WS (fit_def n A l - gamma * div_def n A l deg)).
Proof.
  intros Hok. pose proof (proj1 Hok) as Hl.
  assert (Hfit : vsum Rplus 0 (Nat.min (nlab l) (nlab l))
            (fun c => vsum Rplus 0 n (fun i => ind l i c * vsum Rplus 0 n (fun j => A i j * ind l j c)))
          = rsum n (fun i => rsum n (fun j => A i j * delta l i j))).
  { rewrite Nat.min_id. exact (trace_identity n l A Hok). }
  assert (Hdiv : forall p q : nat -> R,
            vsum Rplus 0 (nlab l) (fun c => vsum Rplus 0 n (fun i => ind l i c * p i) * vsum Rplus 0 n (fun j => ind l j c * q j))
            = rsum n (fun i => rsum n (fun j => p i * q j * delta l i j))).
  { intros p q. exact (product_identity n l p q Hok). }
  destruct deg; unfold rvdenote, env_mod, src_modularity_fit, src_modularity_div, src_modularity_mod;
    repeat (cbn; rewrite ?Nat.eqb_refl, ?Hl);
    fold (nlab l); change (fun i c => if Z.eqb (nth i l (-1)%Z) (Z.of_nat c) then 1 else 0) with (ind l).
  - split; [|split].
    + do 2 f_equal. unfold fit_def, total. f_equal. exact Hfit.
    + do 2 f_equal. unfold div_def. exact (Hdiv (p_in n A true) (p_out n A true)).
    + do 2 f_equal. unfold fit_def, div_def, total. f_equal; [f_equal; exact Hfit|].
      f_equal. exact (Hdiv (p_in n A true) (p_out n A true)).
  - split; [|split].
    + do 2 f_equal. unfold fit_def, total. f_equal. exact Hfit.
    + do 2 f_equal. unfold div_def. exact (Hdiv (p_in n A false) (p_out n A false)).
    + do 2 f_equal. unfold fit_def, div_def, total. f_equal; [f_equal; exact Hfit|].
      f_equal. exact (Hdiv (p_in n A false) (p_out n A false)).
Qed.

(** The in-weight total equals the out-weight total: with weights='degree' the diversity term is the documented
    sum_ij (d+_i / w)(d-_j / w) [label i = label j]. *)
Lemma total_in_eq_total_out n A : rsum n (fun j' => rsum n (fun i => A i j')) = total n A.
Proof. unfold total. rewrite !rsum_lsum. unfold rsum, vsum. fold (lsum (seq 0 n)). apply lsum_swap. Qed.

(** C17 — proofs about the checked flat models of Model/Safety.v (and Model/Vote.v, Model/Bfs.v):
    on well-formed CSR input and the stated argument contracts no access is out of bounds and the
    stated fuel suffices. *)
From SKN Require Import Base.Util Model.Bfs Proofs.BfsProofs Model.Vote Proofs.VoteProofs Model.Safety.
From Coq Require Import Lia.

(** * Checked accesses *)

Lemma rd_ok {A} (l : list A) i d : i < length l -> rd l i = KOk (nth i l d).
Proof. intros H. unfold rd. rewrite (nth_error_nth' l d H). reflexivity. Qed.

Lemma set_nth_length {A} (l : list A) i x : length (set_nth l i x) = length l.
Proof. revert i; induction l as [|a t IH]; intros [|i]; simpl; auto. Qed.

Lemma wr_ok {A} (l : list A) i x : i < length l -> wr l i x = KOk (set_nth l i x).
Proof. intros H. unfold wr. apply Nat.ltb_lt in H. rewrite H. reflexivity. Qed.

Lemma Forall_set_nth {A} (P : A -> Prop) (l : list A) i x :
  Forall P l -> P x -> Forall P (set_nth l i x).
Proof.
  revert i; induction l as [|a t IH]; intros [|i] HF Hx; simpl; auto.
  - inversion HF; subst. constructor; auto.
  - inversion HF; subst. constructor; auto.
Qed.

Lemma Forall_nth_lt {A} (P : A -> Prop) (l : list A) i d : Forall P l -> i < length l -> P (nth i l d).
Proof. intros HF Hi. rewrite Forall_forall in HF. apply HF. apply nth_In. exact Hi. Qed.

Lemma rd_Forall {A} (P : A -> Prop) (l : list A) i :
  Forall P l -> i < length l -> exists x, rd l i = KOk x /\ P x.
Proof.
  intros HF Hi. destruct l as [|d t] eqn:E; [simpl in Hi; lia|]. rewrite <- E in *.
  exists (nth i l d). split; [apply rd_ok; exact Hi | apply Forall_nth_lt; assumption].
Qed.

Lemma rd_some {A} (l : list A) i : i < length l -> exists x, rd l i = KOk x.
Proof.
  intros Hi. destruct (rd_Forall (fun _ => True) l i) as [x [Hx _]]; auto.
  - apply Forall_forall. auto.
  - eauto.
Qed.

(** * CSR facts *)

Lemma csr_mono n indptr indices :
  csr_pat_wf n indptr indices -> forall i j, i <= j -> j <= n -> ip indptr i <= ip indptr j.
Proof.
  intros (_ & _ & Hm & _ & _) i j Hij. induction Hij as [|j Hij IH]; intros Hj; [lia|].
  specialize (Hm j). lia.
Qed.

Lemma csr_le_nnz n indptr indices i :
  csr_pat_wf n indptr indices -> i <= n -> ip indptr i <= length indices.
Proof.
  intros Hwf Hi. pose proof (csr_mono _ _ _ Hwf i n Hi (le_n _)) as H.
  destruct Hwf as (_ & _ & _ & Hl & _). lia.
Qed.

Lemma csr_rd_indptr n indptr indices i :
  csr_pat_wf n indptr indices -> i <= n -> rd indptr i = KOk (ip indptr i).
Proof. intros (Hl & _) Hi. apply rd_ok. lia. Qed.

Lemma csr_rd_indices n indptr indices k :
  csr_pat_wf n indptr indices -> k < length indices ->
  rd indices k = KOk (nth k indices 0) /\ nth k indices 0 < n.
Proof. intros (_ & _ & _ & _ & Hi) Hk. split; [apply rd_ok; exact Hk | apply Hi; exact Hk]. Qed.

Lemma csr_pat_wf_b_sound n indptr indices :
  csr_pat_wf_b n indptr indices = true -> csr_pat_wf n indptr indices.
Proof.
  unfold csr_pat_wf_b. rewrite !andb_true_iff.
  intros ((((H1 & H2) & H3) & H4) & H5).
  apply Nat.eqb_eq in H1, H2, H4. rewrite forallb_forall in H3, H5.
  repeat split; auto.
  - intros i Hi. apply Nat.leb_le. apply H3. apply in_seq. lia.
  - intros k Hk. apply Nat.ltb_lt. apply H5. apply nth_In. exact Hk.
Qed.

Lemma csr_wf_b_sound {W} n indptr indices (data : list W) :
  csr_wf_b n indptr indices data = true -> csr_wf n indptr indices data.
Proof.
  unfold csr_wf_b. rewrite andb_true_iff. intros [H1 H2]. split.
  - apply csr_pat_wf_b_sound. exact H1.
  - apply Nat.eqb_eq. exact H2.
Qed.

(** * 1. triangles *)

Lemma tri_while_ok n indptr indices node neighbor :
  csr_pat_wf n indptr indices -> node < n -> neighbor < n ->
  forall fuel i j acc,
    (ip indptr (S node) - i) + (ip indptr (S neighbor) - j) <= fuel ->
    exists r, tri_while fuel indptr indices node neighbor i j acc = KOk r.
Proof.
  intros Hwf Hnode Hnb.
  pose proof (csr_le_nnz _ _ _ (S node) Hwf ltac:(lia)) as He1.
  pose proof (csr_le_nnz _ _ _ (S neighbor) Hwf ltac:(lia)) as He2.
  assert (Hstep : forall fuel i j acc,
             (forall i' j' acc', (ip indptr (S node) - i') + (ip indptr (S neighbor) - j') < 
                                 (ip indptr (S node) - i) + (ip indptr (S neighbor) - j) ->
                                 (ip indptr (S node) - i') + (ip indptr (S neighbor) - j') <= fuel - 1 ->
                 exists r, tri_while (fuel - 1) indptr indices node neighbor i' j' acc' = KOk r) ->
             (ip indptr (S node) - i) + (ip indptr (S neighbor) - j) <= fuel ->
             exists r, tri_while fuel indptr indices node neighbor i j acc = KOk r).
  { intros fuel i j acc IH Hf.
    destruct fuel as [|f]; cbn [tri_while];
      rewrite (csr_rd_indptr _ _ _ (S node) Hwf) by lia; cbn [kbind];
      (destruct (i <? ip indptr (S node)) eqn:Ei; [|eexists; reflexivity]);
      rewrite (csr_rd_indptr _ _ _ (S neighbor) Hwf) by lia; cbn [kbind];
      (destruct (j <? ip indptr (S neighbor)) eqn:Ej; [|eexists; reflexivity]);
      apply Nat.ltb_lt in Ei, Ej; [lia|].
    replace (S f - 1) with f in IH by lia.
    rewrite (rd_ok indices i 0) by lia. cbn [kbind].
    rewrite (rd_ok indices j 0) by lia. cbn [kbind].
    destruct (nth i indices 0 =? nth j indices 0); [apply IH; lia|].
    destruct (nth i indices 0 <? nth j indices 0); apply IH; lia. }
  induction fuel as [|f IH]; intros i j acc Hf; apply Hstep; auto.
  - intros i' j' acc' Hlt _. lia.
  - intros i' j' acc' _ Hle. replace (S f - 1) with f in * by lia. apply IH. exact Hle.
Qed.

Lemma tri_for_ok n indptr indices node :
  csr_pat_wf n indptr indices -> node < n ->
  forall ks acc, (forall k, In k ks -> k < length indices) ->
    exists r, tri_for ks indptr indices node acc = KOk r.
Proof.
  intros Hwf Hnode. induction ks as [|k t IH]; intros acc Hks; cbn [tri_for]; [eexists; reflexivity|].
  destruct (csr_rd_indices _ _ _ k Hwf (Hks k (or_introl eq_refl))) as [Hr Hlt].
  rewrite Hr. cbn [kbind].
  rewrite (csr_rd_indptr _ _ _ node Hwf) by lia. cbn [kbind].
  rewrite (csr_rd_indptr _ _ _ (nth k indices 0) Hwf) by lia. cbn [kbind].
  destruct (tri_while_ok n indptr indices node (nth k indices 0) Hwf Hnode Hlt
              (row_len indptr node + row_len indptr (nth k indices 0))
              (ip indptr node) (ip indptr (nth k indices 0)) acc) as [r Hr2].
  { unfold row_len. lia. }
  rewrite Hr2. cbn [kbind]. apply IH. intros k' Hk'. apply Hks. right. exact Hk'.
Qed.

Lemma count_local_ok n indptr indices node :
  csr_pat_wf n indptr indices -> node < n ->
  exists r, count_local_triangles_flat node indptr indices = KOk r.
Proof.
  intros Hwf Hnode. unfold count_local_triangles_flat.
  rewrite (csr_rd_indptr _ _ _ node Hwf) by lia. cbn [kbind].
  rewrite (csr_rd_indptr _ _ _ (S node) Hwf) by lia. cbn [kbind].
  apply (tri_for_ok n); auto.
  intros k Hk. apply in_seq in Hk.
  pose proof (csr_le_nnz _ _ _ (S node) Hwf ltac:(lia)).
  pose proof (csr_mono _ _ _ Hwf node (S node) ltac:(lia) ltac:(lia)). lia.
Qed.

Lemma tri_nodes_ok n indptr indices :
  csr_pat_wf n indptr indices ->
  forall nodes acc, (forall v, In v nodes -> v < n) ->
    exists r, tri_nodes nodes indptr indices acc = KOk r.
Proof.
  intros Hwf. induction nodes as [|v t IH]; intros acc Hn; cbn [tri_nodes]; [eexists; reflexivity|].
  destruct (count_local_ok n indptr indices v Hwf (Hn v (or_introl eq_refl))) as [c Hc].
  rewrite Hc. cbn [kbind]. apply IH. intros v' Hv'. apply Hn. right. exact Hv'.
Qed.

Theorem count_triangles_flat_ok n indptr indices :
  csr_pat_wf n indptr indices -> exists t, count_triangles_flat indptr indices = KOk t.
Proof.
  intros Hwf. unfold count_triangles_flat. apply (tri_nodes_ok n); auto.
  intros v Hv. apply in_seq in Hv. destruct Hwf as (Hl & _). lia.
Qed.

(** The while loop of count_local_triangles_from_dag, started as the code starts it, ends within
    (row length of node + row length of neighbor) iterations. *)
Theorem tri_while_bound n indptr indices node neighbor acc :
  csr_pat_wf n indptr indices -> node < n -> neighbor < n ->
  exists r, tri_while (row_len indptr node + row_len indptr neighbor) indptr indices node neighbor
                      (ip indptr node) (ip indptr neighbor) acc = KOk r.
Proof.
  intros Hwf H1 H2. apply (tri_while_ok n); auto; unfold row_len; lia.
Qed.

(** * 2. vote_update (Model/Vote.v, [repaired_kernel]) *)

Lemma nth_error_some {A} (l : list A) i d : i < length l -> nth_error l i = Some (nth i l d).
Proof. intros H. apply nth_error_nth'. exact H. Qed.

Lemma gather_safe n indices (data : list Q) labels :
  length data = length indices -> length labels = n ->
  (forall k, k < length indices -> nth k indices 0 < n) ->
  forall js ln vn,
    (forall j, In j js -> j < length indices) -> length ln = length vn ->
    exists ln' vn', gather repaired_kernel indices data labels js ln vn = VOk (ln', vn') /\
                    length ln' = length vn' /\
                    (forall l, In l ln' -> In l ln \/ In l labels).
Proof.
  intros Hd Hl Hidx. induction js as [|j t IH]; intros ln vn Hjs Hlen; cbn [gather].
  - exists ln, vn. auto.
  - assert (Hj : j < length indices) by (apply Hjs; left; reflexivity).
    rewrite (nth_error_some indices j 0 Hj).
    pose proof (Hidx j Hj) as Hjj.
    rewrite (nth_error_some labels (nth j indices 0) 0%Z) by lia.
    cbn [wpos repaired_kernel].
    rewrite (nth_error_some data j 0%Q) by lia.
    destruct (IH (ln ++ [nth (nth j indices 0) labels 0%Z]) (vn ++ [nth j data 0%Q])) as (ln' & vn' & Hg & Hlen' & Hin).
    + intros j' Hj'. apply Hjs. right. exact Hj'.
    + rewrite !app_length. simpl. lia.
    + exists ln', vn'. split; [exact Hg|]. split; [exact Hlen'|].
      intros l Hl'. destruct (Hin l Hl') as [H|H]; [|right; exact H].
      apply in_app_or in H. destruct H as [H|[H|[]]]; [left; exact H|].
      right. subst l. apply nth_In. lia.
Qed.

Lemma tally_safe m : forall ln p vn uniq votes,
  length votes = m -> p + length ln <= length vn ->
  (forall l, In l ln -> (l < Z.of_nat m)%Z) -> Forall (fun u => u < m) uniq ->
  exists uniq' votes', tally ln p vn uniq votes = VOk (uniq', votes') /\
                       length votes' = m /\ Forall (fun u => u < m) uniq'.
Proof.
  induction ln as [|l t IH]; intros p vn uniq votes Hv Hp Hl Hu; cbn [tally].
  - exists uniq, votes. auto.
  - simpl in Hp. destruct (l <? 0)%Z eqn:El.
    + apply IH; auto; try lia. intros l' Hl'. apply Hl. right. exact Hl'.
    + apply Z.ltb_ge in El.
      rewrite (nth_error_some vn p 0%Q) by lia.
      assert (Hlm : Z.to_nat l < m) by (specialize (Hl l (or_introl eq_refl)); lia).
      rewrite (nth_error_some votes (Z.to_nat l) 0%Q) by lia.
      apply IH.
      * rewrite upd_length. exact Hv.
      * lia.
      * intros l' Hl'. apply Hl. right. exact Hl'.
      * apply Forall_forall. intros u Hu'. apply set_insert_In in Hu'.
        destruct Hu' as [->|Hu']; [exact Hlm|]. rewrite Forall_forall in Hu. apply Hu. exact Hu'.
Qed.

Lemma select_safe m : forall uniq i best labels votes,
  length votes = m -> Forall (fun u => u < m) uniq -> i < length labels ->
  Forall (fun l => (l < Z.of_nat m)%Z) labels ->
  exists labels' votes', select uniq i best labels votes = VOk (labels', votes') /\
                         length labels' = length labels /\ length votes' = m /\
                         Forall (fun l => (l < Z.of_nat m)%Z) labels'.
Proof.
  induction uniq as [|l t IH]; intros i best labels votes Hv Hu Hi HL; cbn [select].
  - exists labels, votes. auto.
  - inversion Hu as [|? ? Hlm Hu']; subst.
    rewrite (nth_error_some votes l 0%Q) by lia.
    destruct (Qle_bool (nth l votes 0%Q) best).
    + apply IH; auto. rewrite upd_length. reflexivity.
    + apply Nat.ltb_lt in Hi. rewrite Hi. apply Nat.ltb_lt in Hi.
      destruct (IH i (nth l votes 0%Q) (upd labels i (Z.of_nat l)) (upd votes l 0%Q))
        as (labels' & votes' & Hs & Hl1 & Hl2 & HF).
      * rewrite upd_length. reflexivity.
      * exact Hu'.
      * rewrite upd_length. exact Hi.
      * apply Forall_forall. intros x Hx. apply In_upd in Hx. destruct Hx as [->|Hx]; [lia|].
        rewrite Forall_forall in HL. apply HL. exact Hx.
      * exists labels', votes'. rewrite upd_length in Hl1. auto.
Qed.

Definition vinv (n m : nat) (st : vstate) : Prop :=
  let '(labels, votes, _) := st in
  length labels = n /\ length votes = m /\ Forall (fun l => (l < Z.of_nat m)%Z) labels.

Lemma vote_node_safe n m indptr indices (data : list Q) i st :
  csr_wf n indptr indices data -> i < n -> vinv n m st ->
  exists st', vote_node repaired_kernel indptr indices data i st = VOk st' /\ vinv n m st'.
Proof.
  intros [Hwf Hd] Hi Hinv. destruct st as [[labels votes] vn]. destruct Hinv as (HL & HV & HF).
  unfold vote_node.
  pose proof Hwf as (Hlen & _ & _ & _ & Hidx).
  rewrite (nth_error_some indptr i 0) by lia.
  rewrite (nth_error_some indptr (S i) 0) by lia.
  fold (ip indptr i). fold (ip indptr (S i)).
  cbn [clr repaired_kernel].
  destruct (gather_safe n indices data labels Hd HL Hidx
              (seq (ip indptr i) (ip indptr (S i) - ip indptr i)) [] [])
    as (ln & vn' & Hg & Hlen' & Hin).
  { intros j Hj. apply in_seq in Hj.
    pose proof (csr_le_nnz _ _ _ (S i) Hwf ltac:(lia)).
    pose proof (csr_mono _ _ _ Hwf i (S i) ltac:(lia) ltac:(lia)). lia. }
  { reflexivity. }
  rewrite Hg.
  destruct (tally_safe m ln 0 vn' [] votes HV) as (uniq & votes' & Ht & HV' & HU).
  { lia. }
  { intros l Hl. destruct (Hin l Hl) as [[]|Hl']. rewrite Forall_forall in HF. apply HF. exact Hl'. }
  { constructor. }
  rewrite Ht.
  destruct (select_safe m uniq i (-1)%Q labels votes' HV' HU ltac:(lia) HF)
    as (labels' & votes'' & Hs & HL' & HV'' & HF').
  rewrite Hs. eexists. split; [reflexivity|]. unfold vinv. repeat split; auto. lia.
Qed.

Lemma vote_loop_safe n m indptr indices (data : list Q) :
  csr_wf n indptr indices data ->
  forall index st, (forall i, In i index -> i < n) -> vinv n m st ->
    exists st', vote_loop repaired_kernel indptr indices data index st = VOk st' /\ vinv n m st'.
Proof.
  intros Hwf. induction index as [|i t IH]; intros st Hidx Hinv; cbn [vote_loop].
  - exists st. auto.
  - destruct (vote_node_safe n m indptr indices data i st Hwf (Hidx i (or_introl eq_refl)) Hinv)
      as (st' & Hn & Hinv').
    rewrite Hn. apply IH; auto. intros i' Hi'. apply Hidx. right. exact Hi'.
Qed.

Lemma zmax_ge labels l : In l labels -> (l <= fold_right Z.max (-1)%Z labels)%Z.
Proof.
  induction labels as [|a t IH]; intros H; [destruct H|]. simpl.
  destruct H as [->|H]; [lia|]. specialize (IH H). lia.
Qed.

(** vote_update of the current source: no out-of-bounds access on well-formed input. The contract
    [labels >= -1] of the caller is not needed. There is no while loop in the kernel (three nested
    [for] loops over finite ranges): the model is a structural recursion and needs no fuel. *)
Theorem vote_update_safe_ok n indptr indices (data : list Q) labels index :
  csr_wf n indptr indices data -> length labels = n -> (forall i, In i index -> i < n) ->
  exists labels', vote_update repaired_kernel indptr indices data labels index = VOk labels' /\
                  length labels' = n.
Proof.
  intros Hwf HL Hidx. unfold vote_update.
  destruct (vote_loop_safe n (votes_size repaired_kernel labels) indptr indices data Hwf index
              (labels, repeat 0%Q (votes_size repaired_kernel labels), []) Hidx)
    as ([[labels' votes'] vn'] & Hl & Hinv).
  { unfold vinv. split; [exact HL|]. split; [apply repeat_length|].
    apply Forall_forall. intros l Hl. pose proof (zmax_ge labels l Hl) as Hm.
    unfold votes_size. cbn [vlab repaired_kernel]. lia. }
  rewrite Hl. exists labels'. split; [reflexivity|]. destruct Hinv as (H & _). exact H.
Qed.

(** The legacy kernel (weight read at [data[jj]], jj the neighbour NODE; [votes] sized n) *)
Definition leg1_indptr := [0; 1; 1; 1].
Definition leg1_indices := [2].
Definition leg1_data : list Q := [1%Q].
Definition leg1_labels : list Z := [-1; 0; 1]%Z.
Definition leg1_index := [0].

Definition leg2_indptr := [0; 1; 2].
Definition leg2_indices := [1; 0].
Definition leg2_data : list Q := [1%Q; 1%Q].
Definition leg2_labels : list Z := [-1; 5]%Z.
Definition leg2_index := [0].

Theorem vote_legacy_oob_refuted_ok :
  (csr_wf 3 leg1_indptr leg1_indices leg1_data /\ length leg1_labels = 3 /\
   (forall i, In i leg1_index -> i < 3) /\ length leg1_indices < 3 /\
   vote_update legacy_kernel leg1_indptr leg1_indices leg1_data leg1_labels leg1_index = VOOB At_data /\
   exists l, vote_update repaired_kernel leg1_indptr leg1_indices leg1_data leg1_labels leg1_index = VOk l) /\
  (csr_wf 2 leg2_indptr leg2_indices leg2_data /\ length leg2_labels = 2 /\
   (forall i, In i leg2_index -> i < 2) /\ In 5%Z leg2_labels /\
   vote_update legacy_kernel leg2_indptr leg2_indices leg2_data leg2_labels leg2_index = VOOB At_votes /\
   exists l, vote_update repaired_kernel leg2_indptr leg2_indices leg2_data leg2_labels leg2_index = VOk l).
Proof.
  split.
  - split; [apply csr_wf_b_sound; reflexivity|]. split; [reflexivity|].
    split; [intros i [<-|[]]; lia|]. split; [simpl; lia|]. split; [vm_compute; reflexivity|].
    eexists. vm_compute. reflexivity.
  - split; [apply csr_wf_b_sound; reflexivity|]. split; [reflexivity|].
    split; [intros i [<-|[]]; lia|]. split; [simpl; auto|]. split; [vm_compute; reflexivity|].
    eexists. vm_compute. reflexivity.
Qed.

(** * 3. MinHeap and compute_core *)

Lemma Forall_repeat0 n : Forall (fun v => v < n) (repeat 0 n).
Proof.
  destruct n as [|n]; [constructor|]. apply Forall_forall. intros x Hx.
  apply repeat_spec in Hx. lia.
Qed.

Lemma hinv_resize n : hinv n (cheap_resize n).
Proof.
  unfold hinv, cheap_resize; cbn [c_val c_pos c_size]. rewrite !repeat_length.
  repeat split; auto using Forall_repeat0. lia.
Qed.

Lemma cparent_lt i : (0 <= cparent i)%Z -> Z.to_nat (cparent i) < i.
Proof. unfold cparent. intros H. Z.div_mod_to_equations. lia. Qed.

Lemma cparent_nonneg i : i <> 0 -> (0 <= cparent i)%Z.
Proof. unfold cparent. intros H. Z.div_mod_to_equations. lia. Qed.

Lemma cscore_ok n h scores i :
  hinv n h -> length scores = n -> i < n -> exists s, cscore h scores i = KOk s.
Proof.
  intros (Hv & _ & _ & HFv & _) Hs Hi. unfold cscore.
  destruct (rd_Forall _ (c_val h) i HFv ltac:(lia)) as (v & Hr & Hvn).
  rewrite Hr. cbn [kbind]. apply rd_some. lia.
Qed.

Lemma cscorez_ok n h scores (p : Z) :
  hinv n h -> length scores = n -> (0 <= p)%Z -> Z.to_nat p < n ->
  exists s, cscorez h scores p = KOk s.
Proof.
  intros Hh Hs Hp Hpn. unfold cscorez, rdz.
  assert (E : (p <? 0)%Z = false) by (apply Z.ltb_ge; exact Hp). rewrite E.
  exact (cscore_ok n h scores (Z.to_nat p) Hh Hs Hpn).
Qed.

Lemma cswap_ok n h x y :
  hinv n h -> x < n -> y < n ->
  exists h', cswap h x y = KOk h' /\ hinv n h' /\ c_size h' = c_size h.
Proof.
  intros (Hv & Hp & Hsz & HFv & HFp) Hx Hy. unfold cswap.
  destruct (rd_Forall _ (c_val h) x HFv ltac:(lia)) as (tmp & Hr1 & Htmp). rewrite Hr1. cbn [kbind].
  destruct (rd_Forall _ (c_val h) y HFv ltac:(lia)) as (vy & Hr2 & Hvy). rewrite Hr2. cbn [kbind].
  rewrite wr_ok by lia. cbn [kbind].
  rewrite wr_ok by (rewrite set_nth_length; lia). cbn [kbind].
  set (val2 := set_nth (set_nth (c_val h) x vy) y tmp).
  assert (HF2 : Forall (fun v => v < n) val2) by (unfold val2; auto using Forall_set_nth).
  assert (HL2 : length val2 = n) by (unfold val2; rewrite !set_nth_length; exact Hv).
  destruct (rd_Forall _ val2 x HF2 ltac:(lia)) as (vx' & Hr3 & Hvx'). rewrite Hr3. cbn [kbind].
  rewrite wr_ok by lia. cbn [kbind].
  destruct (rd_Forall _ val2 y HF2 ltac:(lia)) as (vy' & Hr4 & Hvy'). rewrite Hr4. cbn [kbind].
  rewrite wr_ok by (rewrite set_nth_length; lia). cbn [kbind].
  eexists. split; [reflexivity|]. split; [|reflexivity].
  unfold hinv; cbn [c_val c_pos c_size]. rewrite !set_nth_length.
  repeat split; auto using Forall_set_nth.
Qed.

Lemma cinsert_loop_ok n scores : length scores = n ->
  forall fuel h i, hinv n h -> i < n -> i <= fuel ->
    exists h', cinsert_loop fuel h scores i (cparent i) = KOk h' /\ hinv n h' /\ c_size h' = c_size h.
Proof.
  intros Hs. induction fuel as [|f IH]; intros h i Hh Hi Hf; cbn [cinsert_loop];
    (destruct (0 <=? cparent i)%Z eqn:Ep; [|exists h; auto]);
    apply Z.leb_le in Ep; pose proof (cparent_lt i Ep) as Hlt; [lia|].
  destruct (cscorez_ok n h scores (cparent i) Hh Hs Ep ltac:(lia)) as (sp & Hsp). rewrite Hsp. cbn [kbind].
  destruct (cscore_ok n h scores i Hh Hs Hi) as (si & Hsi). rewrite Hsi. cbn [kbind].
  destruct (sp >? si)%Z; [|exists h; auto].
  destruct (cswap_ok n h i (Z.to_nat (cparent i)) Hh Hi ltac:(lia)) as (h1 & Hsw & Hh1 & Hsz1).
  rewrite Hsw. cbn [kbind].
  destruct (IH h1 (Z.to_nat (cparent i)) Hh1 ltac:(lia) ltac:(lia)) as (h2 & Hl & Hh2 & Hsz2).
  exists h2. split; [exact Hl|]. split; [exact Hh2|]. lia.
Qed.

Lemma cinsert_key_ok n h k scores :
  hinv n h -> length scores = n -> c_size h < n -> k < n ->
  exists h', cinsert_key h k scores = KOk h' /\ hinv n h' /\ c_size h' = S (c_size h).
Proof.
  intros (Hv & Hp & Hsz & HFv & HFp) Hs Hlt Hk. unfold cinsert_key.
  rewrite wr_ok by lia. cbn [kbind]. rewrite wr_ok by lia. cbn [kbind].
  apply (cinsert_loop_ok n scores Hs); auto.
  unfold hinv; cbn [c_val c_pos c_size]. rewrite !set_nth_length.
  repeat split; auto using Forall_set_nth.
Qed.

Lemma cdecrease_loop_ok n scores : length scores = n ->
  forall fuel h pos, hinv n h -> pos < n -> pos <= fuel ->
    exists h', cdecrease_loop fuel h scores pos (cparent pos) = KOk h' /\ hinv n h' /\ c_size h' = c_size h.
Proof.
  intros Hs. induction fuel as [|f IH]; intros h pos Hh Hi Hf; cbn [cdecrease_loop];
    (destruct (pos =? 0) eqn:E0; cbn [negb]; [exists h; auto|]);
    apply Nat.eqb_neq in E0; [lia|].
  pose proof (cparent_nonneg pos E0) as Ep. pose proof (cparent_lt pos Ep) as Hlt.
  destruct (cscorez_ok n h scores (cparent pos) Hh Hs Ep ltac:(lia)) as (sp & Hsp). rewrite Hsp. cbn [kbind].
  destruct (cscore_ok n h scores pos Hh Hs Hi) as (si & Hsi). rewrite Hsi. cbn [kbind].
  destruct (sp >? si)%Z; [|exists h; auto].
  destruct (cswap_ok n h pos (Z.to_nat (cparent pos)) Hh Hi ltac:(lia)) as (h1 & Hsw & Hh1 & Hsz1).
  rewrite Hsw. cbn [kbind].
  destruct (IH h1 (Z.to_nat (cparent pos)) Hh1 ltac:(lia) ltac:(lia)) as (h2 & Hl & Hh2 & Hsz2).
  exists h2. split; [exact Hl|]. split; [exact Hh2|]. lia.
Qed.

Lemma cdecrease_key_ok n h i scores :
  hinv n h -> length scores = n -> i < n ->
  exists h', cdecrease_key h i scores = KOk h' /\ hinv n h' /\ c_size h' = c_size h.
Proof.
  intros Hh Hs Hi. pose proof Hh as (Hv & Hp & Hsz & HFv & HFp). unfold cdecrease_key.
  destruct (rd_Forall _ (c_pos h) i HFp ltac:(lia)) as (pos & Hr & Hpos). rewrite Hr. cbn [kbind].
  destruct (pos <? c_size h); [|exists h; auto].
  apply (cdecrease_loop_ok n scores Hs); auto.
Qed.

(** min_heapify: the recursion descends ([smallest] is a child of [i] below [size]), so [size - i] units
    of fuel suffice. *)
Lemma cmin_heapify_ok n scores : length scores = n ->
  forall fuel h i, hinv n h -> i < c_size h -> c_size h - i <= fuel ->
    exists h', cmin_heapify fuel h i scores = KOk h' /\ hinv n h' /\ c_size h' = c_size h.
Proof.
  intros Hs. induction fuel as [|f IH]; intros h i Hh Hi Hf; [lia|].
  pose proof Hh as (Hv & Hp & Hsz & HFv & HFp).
  cbn [cmin_heapify]. unfold cleft, cright.
  assert (H1 : exists sm1,
             (if 2 * i + 1 <? c_size h
              then do sl <- cscore h scores (2 * i + 1) ;; do si <- cscore h scores i ;;
                   KOk (if (sl <? si)%Z then 2 * i + 1 else i)
              else KOk i) = KOk sm1 /\ (sm1 = i \/ (sm1 = 2 * i + 1 /\ sm1 < c_size h))).
  { destruct (2 * i + 1 <? c_size h) eqn:El; [|exists i; auto].
    apply Nat.ltb_lt in El.
    destruct (cscore_ok n h scores (2 * i + 1) Hh Hs ltac:(lia)) as (sl & Hsl). rewrite Hsl. cbn [kbind].
    destruct (cscore_ok n h scores i Hh Hs ltac:(lia)) as (si & Hsi). rewrite Hsi. cbn [kbind].
    destruct (sl <? si)%Z; eexists; split; try reflexivity; auto. }
  destruct H1 as (sm1 & E1 & Hsm1). rewrite E1. cbn [kbind].
  assert (H2 : exists sm2,
             (if 2 * i + 2 <? c_size h
              then do sr <- cscore h scores (2 * i + 2) ;; do ss <- cscore h scores sm1 ;;
                   KOk (if (sr <? ss)%Z then 2 * i + 2 else sm1)
              else KOk sm1) = KOk sm2 /\ (sm2 = sm1 \/ (sm2 = 2 * i + 2 /\ sm2 < c_size h))).
  { destruct (2 * i + 2 <? c_size h) eqn:Er; [|exists sm1; auto].
    apply Nat.ltb_lt in Er.
    destruct (cscore_ok n h scores (2 * i + 2) Hh Hs ltac:(lia)) as (sr & Hsr). rewrite Hsr. cbn [kbind].
    destruct (cscore_ok n h scores sm1 Hh Hs ltac:(lia)) as (ss & Hss). rewrite Hss. cbn [kbind].
    destruct (sr <? ss)%Z; eexists; split; try reflexivity; auto. }
  destruct H2 as (sm2 & E2 & Hsm2). rewrite E2. cbn [kbind].
  destruct (sm2 =? i) eqn:E; cbn [negb]; [exists h; auto|].
  apply Nat.eqb_neq in E.
  destruct (cswap_ok n h i sm2 Hh ltac:(lia) ltac:(lia)) as (h1 & Hsw & Hh1 & Hsz1).
  rewrite Hsw. cbn [kbind].
  destruct (IH h1 sm2 Hh1 ltac:(lia) ltac:(lia)) as (h2 & Hl & Hh2 & Hsz2).
  exists h2. split; [exact Hl|]. split; [exact Hh2|]. lia.
Qed.

Lemma cpop_min_ok n h scores :
  hinv n h -> length scores = n -> 1 <= c_size h ->
  exists r h', cpop_min h scores = KOk (r, h') /\ hinv n h' /\ c_size h' = c_size h - 1 /\ r < n.
Proof.
  intros Hh Hs H1. pose proof Hh as (Hv & Hp & Hsz & HFv & HFp). unfold cpop_min.
  destruct (rd_Forall _ (c_val h) 0 HFv ltac:(lia)) as (root & Hr & Hroot).
  destruct (c_size h =? 1) eqn:E1.
  - apply Nat.eqb_eq in E1. rewrite Hr. cbn [kbind]. eexists. eexists. split; [reflexivity|].
    split; [|split; [cbn [c_size]; lia | exact Hroot]].
    unfold hinv; cbn [c_val c_pos c_size]. repeat split; auto. lia.
  - apply Nat.eqb_neq in E1. rewrite Hr. cbn [kbind].
    destruct (c_size h) as [|s] eqn:Esz; [lia|].
    destruct (rd_Forall _ (c_val h) s HFv ltac:(lia)) as (last & Hr2 & Hlast). rewrite Hr2. cbn [kbind].
    rewrite wr_ok by lia. cbn [kbind].
    assert (HF1 : Forall (fun v => v < n) (set_nth (c_val h) 0 last)) by auto using Forall_set_nth.
    destruct (rd_Forall _ _ 0 HF1 ltac:(rewrite set_nth_length; lia)) as (v0 & Hr3 & Hv0).
    rewrite Hr3. cbn [kbind]. rewrite wr_ok by lia. cbn [kbind].
    set (h1 := {| c_val := set_nth (c_val h) 0 last; c_pos := set_nth (c_pos h) v0 0;
                  c_size := s; c_cap := c_cap h |}).
    assert (Hh1 : hinv n h1).
    { unfold hinv, h1; cbn [c_val c_pos c_size]. rewrite !set_nth_length.
      repeat split; auto using Forall_set_nth; try lia. apply Forall_set_nth; auto. lia. }
    destruct (cmin_heapify_ok n scores Hs s h1 0 Hh1) as (h2 & Hm & Hh2 & Hsz2).
    { unfold h1; cbn [c_size]. lia. }
    { unfold h1; cbn [c_size]. lia. }
    rewrite Hm. cbn [kbind]. exists root, h2. split; [reflexivity|]. split; [exact Hh2|].
    split; [|exact Hroot]. rewrite Hsz2. unfold h1; cbn [c_size]. lia.
Qed.

Lemma ccore_inner_ok n indptr indices : csr_pat_wf n indptr indices ->
  forall ks degrees mh, (forall k, In k ks -> k < length indices) -> length degrees = n -> hinv n mh ->
    exists degrees' mh', ccore_inner ks indices degrees mh = KOk (degrees', mh') /\
                         length degrees' = n /\ hinv n mh' /\ c_size mh' = c_size mh.
Proof.
  intros Hwf. induction ks as [|k t IH]; intros degrees mh Hks Hd Hh; cbn [ccore_inner].
  - exists degrees, mh. auto.
  - destruct (csr_rd_indices _ _ _ k Hwf (Hks k (or_introl eq_refl))) as [Hr Hlt].
    rewrite Hr. cbn [kbind].
    rewrite (rd_ok degrees _ 0%Z) by lia. cbn [kbind].
    rewrite wr_ok by lia. cbn [kbind].
    destruct (cdecrease_key_ok n mh (nth k indices 0)
                (set_nth degrees (nth k indices 0) (nth (nth k indices 0%nat) degrees 0 - 1)%Z) Hh)
      as (mh1 & Hdk & Hh1 & Hsz1).
    { rewrite set_nth_length. exact Hd. }
    { exact Hlt. }
    rewrite Hdk. cbn [kbind].
    destruct (IH (set_nth degrees (nth k indices 0) (nth (nth k indices 0%nat) degrees 0 - 1)%Z) mh1)
      as (d' & mh' & Hi & Hd' & Hh' & Hsz'); auto.
    { intros k' Hk'. apply Hks. right. exact Hk'. }
    { rewrite set_nth_length. exact Hd. }
    exists d', mh'. split; [exact Hi|]. split; [exact Hd'|]. split; [exact Hh'|]. lia.
Qed.

Lemma ccore_loop_ok n indptr indices : csr_pat_wf n indptr indices ->
  forall fuel degrees mh cv labels pops,
    hinv n mh -> length degrees = n -> length labels = n -> c_size mh <= fuel ->
    exists labels', ccore_loop fuel indptr indices degrees mh cv labels pops
                    = KOk (labels', pops + c_size mh) /\ length labels' = n.
Proof.
  intros Hwf. induction fuel as [|f IH]; intros degrees mh cv labels pops Hh Hd Hl Hf; cbn [ccore_loop];
    (destruct (c_size mh =? 0) eqn:E0;
     [apply Nat.eqb_eq in E0; rewrite E0, Nat.add_0_r; exists labels; auto|]);
    apply Nat.eqb_neq in E0; [lia|].
  destruct (cpop_min_ok n mh degrees Hh Hd ltac:(lia)) as (r & mh1 & Hp & Hh1 & Hsz1 & Hr).
  rewrite Hp. cbn [kbind fst snd].
  rewrite (rd_ok degrees r 0%Z) by lia. cbn [kbind].
  rewrite (csr_rd_indptr _ _ _ r Hwf) by lia. cbn [kbind].
  rewrite (csr_rd_indptr _ _ _ (S r) Hwf) by lia. cbn [kbind].
  destruct (ccore_inner_ok n indptr indices Hwf (seq (ip indptr r) (ip indptr (S r) - ip indptr r))
              degrees mh1) as (d' & mh2 & Hi & Hd' & Hh2 & Hsz2); auto.
  { intros k Hk. apply in_seq in Hk.
    pose proof (csr_le_nnz _ _ _ (S r) Hwf ltac:(lia)).
    pose proof (csr_mono _ _ _ Hwf r (S r) ltac:(lia) ltac:(lia)). lia. }
  rewrite Hi. cbn [kbind fst snd].
  rewrite wr_ok by lia. cbn [kbind].
  destruct (IH d' mh2 (Z.max cv (nth r degrees 0%Z))
               (set_nth labels r (Z.max cv (nth r degrees 0%Z))) (S pops)) as (labels' & Hl' & Hlen'); auto.
  { rewrite set_nth_length. exact Hl. }
  { lia. }
  exists labels'. split; [|exact Hlen']. rewrite Hl'. f_equal. f_equal. lia.
Qed.

Lemma cinsert_all_ok n degrees : length degrees = n ->
  forall keys mh, hinv n mh -> (forall k, In k keys -> k < n) -> c_size mh + length keys <= n ->
    exists mh', cinsert_all keys mh degrees = KOk mh' /\ hinv n mh' /\
                c_size mh' = c_size mh + length keys.
Proof.
  intros Hd. induction keys as [|k t IH]; intros mh Hh Hk Hsz; cbn [cinsert_all].
  - exists mh. split; [reflexivity|]. split; [exact Hh|]. simpl. lia.
  - simpl in Hsz.
    destruct (cinsert_key_ok n mh k degrees Hh Hd ltac:(lia) (Hk k (or_introl eq_refl)))
      as (mh1 & Hi & Hh1 & Hsz1).
    rewrite Hi. cbn [kbind].
    destruct (IH mh1 Hh1) as (mh' & Ha & Hh' & Hsz').
    { intros k' Hk'. apply Hk. right. exact Hk'. }
    { lia. }
    exists mh'. split; [exact Ha|]. split; [exact Hh'|]. simpl. lia.
Qed.

(** compute_core with the repaired MinHeap ([resize(n)]): no access out of bounds, n units of fuel
    suffice, and exactly n pops are performed. *)
Theorem ccompute_core_ok n indptr indices :
  csr_pat_wf n indptr indices ->
  exists labels, ccompute_core cheap_resize indptr indices = KOk (labels, n) /\ length labels = n.
Proof.
  intros Hwf. pose proof Hwf as (Hlen & _). unfold ccompute_core.
  replace (length indptr - 1) with n by lia.
  set (degrees := map _ (seq 0 n)).
  assert (Hd : length degrees = n) by (unfold degrees; rewrite map_length, seq_length; reflexivity).
  destruct (cinsert_all_ok n degrees Hd (seq 0 n) (cheap_resize n) (hinv_resize n))
    as (mh & Ha & Hh & Hsz).
  { intros k Hk. apply in_seq in Hk. lia. }
  { rewrite seq_length. cbn [cheap_resize c_size]. lia. }
  rewrite Ha. cbn [kbind].
  destruct (ccore_loop_ok n indptr indices Hwf n degrees mh 0%Z (repeat 0%Z n) 0 Hh Hd)
    as (labels & Hl & Hlen').
  { apply repeat_length. }
  { rewrite Hsz, seq_length. cbn [cheap_resize c_size]. lia. }
  exists labels. split; [|exact Hlen']. rewrite Hl. rewrite Hsz, seq_length.
  cbn [cheap_resize c_size]. reflexivity.
Qed.

(** Legacy MinHeap ([reserve(n)]: SIZE 0, capacity n): the first insert_key writes at index 0 >= size 0. *)
Theorem cinsert_key_reserve_oob n k scores : cinsert_key (cheap_reserve n) k scores = OOB.
Proof. reflexivity. Qed.

Theorem ccompute_core_reserve_oob n indptr indices :
  csr_pat_wf n indptr indices -> 1 <= n -> ccompute_core cheap_reserve indptr indices = OOB.
Proof.
  intros (Hlen & _) Hn. unfold ccompute_core.
  replace (length indptr - 1) with (S (n - 1)) by lia.
  cbn [seq cinsert_all]. rewrite cinsert_key_reserve_oob. reflexivity.
Qed.

(** * 4. BFS of get_distances: the fuel n + 1 of Model/Bfs.v is never exhausted *)

Theorem bfs_never_out_of_fuel (g : graph) (src : list bool) :
  length src = length g -> bfs g src <> None.
Proof. intros H. destruct (bfs_exact g src H) as (d & Hd & _). rewrite Hd. discriminate. Qed.

Lemma set_mask_length n off idx mask mk : set_mask n off idx mask = Ok mk -> length mk = n.
Proof.
  unfold set_mask. destruct (forallb _ idx); [|discriminate].
  intros H. inversion H. rewrite map_length, seq_length. reflexivity.
Qed.

Lemma set_mask_cases n off idx mask :
  (exists mk, set_mask n off idx mask = Ok mk /\ length mk = n) \/ set_mask n off idx mask = Err IndexError.
Proof.
  unfold set_mask. destruct (forallb _ idx); [left|right; reflexivity].
  eexists. split; [reflexivity|]. rewrite map_length, seq_length. reflexivity.
Qed.

(** get_distances as a whole never reports OutOfFuel, whatever the arguments. *)
Theorem get_distances_never_out_of_fuel m0 source source_row source_col tf fb :
  get_distances m0 source source_row source_col tf fb <> Err Bfs.OutOfFuel.
Proof.
  unfold get_distances.
  set (m := if tf then transpose m0 else m0).
  set (fb' := match source_row, source_col with None, None => fb | _, _ => true end).
  assert (Hfin : forall (bip : bool) g mk, length mk = length g ->
            match bfs g mk with
            | Some dist => if bip then Ok (firstn (p_nrow m) dist, Some (skipn (p_nrow m) dist))
                           else Ok (dist, None)
            | None => Err Bfs.OutOfFuel
            end <> Err Bfs.OutOfFuel).
  { intros bip g mk Hl. pose proof (bfs_never_out_of_fuel g mk Hl) as Hb.
    destruct (bfs g mk); [|congruence]. destruct bip; discriminate. }
  destruct (fb' || negb (p_nrow m =? p_ncol m)); clear fb'.
  - set (g := block_undirected m). pose proof (repeat_length false (length g)) as Hrep.
    destruct source as [s|], source_row as [sr|], source_col as [sc|]; try discriminate;
      repeat match goal with
             | |- context [set_mask ?n ?o ?i ?k] =>
                 destruct (set_mask_cases n o i k) as [(? & -> & ?) | ->]
             end; try discriminate; apply (Hfin true); assumption.
  - set (g := p_rows m).
    destruct source as [s|]; try discriminate.
    destruct (set_mask_cases (length g) 0 s (repeat false (length g))) as [(mk & -> & Hl) | ->];
      [apply (Hfin false); assumption | discriminate].
Qed.

(** * 5. diteration and push *)

Lemma row_range_lt n indptr indices i :
  csr_pat_wf n indptr indices -> i < n ->
  forall k, In k (seq (ip indptr i) (ip indptr (S i) - ip indptr i)) -> k < length indices.
Proof.
  intros Hwf Hi k Hk. apply in_seq in Hk.
  pose proof (csr_le_nnz _ _ _ (S i) Hwf ltac:(lia)).
  pose proof (csr_mono _ _ _ Hwf i (S i) ltac:(lia) ltac:(lia)). lia.
Qed.

Lemma dit_row_ok n indptr indices (data : list Q) tmp :
  csr_wf n indptr indices data ->
  forall jjs fluid, (forall k, In k jjs -> k < length indices) -> length fluid = n ->
    exists fluid', dit_row jjs indices data fluid tmp = KOk fluid' /\ length fluid' = n.
Proof.
  intros [Hwf Hd]. induction jjs as [|jj t IH]; intros fluid Hjs Hf; cbn [dit_row].
  - exists fluid. auto.
  - destruct (csr_rd_indices _ _ _ jj Hwf (Hjs jj (or_introl eq_refl))) as [Hr Hlt].
    rewrite Hr. cbn [kbind].
    rewrite (rd_ok fluid _ 0%Q) by lia. cbn [kbind].
    rewrite (rd_ok data jj 0%Q) by (rewrite Hd; apply Hjs; left; reflexivity). cbn [kbind].
    rewrite wr_ok by lia. cbn [kbind].
    apply IH.
    + intros k Hk. apply Hjs. right. exact Hk.
    + rewrite set_nth_length. exact Hf.
Qed.

Definition dinv (n : nat) (st : dstate) : Prop :=
  let '(scores, fluid, _) := st in length scores = n /\ length fluid = n.

Lemma dit_node_ok n indptr indices (data : list Q) damping i st :
  csr_wf n indptr indices data -> i < n -> dinv n st ->
  exists st', dit_node indptr indices data damping i st = KOk st' /\ dinv n st'.
Proof.
  intros Hwf Hi Hinv. pose proof Hwf as [Hpat Hd].
  destruct st as [[scores fluid] residu]. destruct Hinv as [Hs Hf].
  unfold dit_node.
  rewrite (rd_ok fluid i 0%Q) by lia. cbn [kbind].
  destruct (Qlt_le_dec 0 (nth i fluid 0%Q)); [|eexists; split; [reflexivity|split; assumption]].
  rewrite (rd_ok scores i 0%Q) by lia. cbn [kbind].
  rewrite wr_ok by lia. cbn [kbind]. rewrite wr_ok by lia. cbn [kbind].
  rewrite (csr_rd_indptr _ _ _ i Hpat) by lia. cbn [kbind].
  rewrite (csr_rd_indptr _ _ _ (S i) Hpat) by lia. cbn [kbind].
  destruct (negb (ip indptr (S i) =? ip indptr i)).
  - destruct (dit_row_ok n indptr indices data (nth i fluid 0%Q * damping)%Q Hwf
                (seq (ip indptr i) (ip indptr (S i) - ip indptr i)) (set_nth fluid i 0%Q))
      as (fluid2 & Hr & Hl2).
    { apply (row_range_lt n); auto. }
    { rewrite set_nth_length. exact Hf. }
    rewrite Hr. cbn [kbind]. eexists. split; [reflexivity|].
    split; [rewrite set_nth_length; exact Hs | exact Hl2].
  - eexists. split; [reflexivity|]. split; rewrite set_nth_length; assumption.
Qed.

Lemma dit_sweep_ok n indptr indices (data : list Q) damping :
  csr_wf n indptr indices data ->
  forall nodes st, (forall i, In i nodes -> i < n) -> dinv n st ->
    exists st', dit_sweep nodes indptr indices data damping st = KOk st' /\ dinv n st'.
Proof.
  intros Hwf. induction nodes as [|i t IH]; intros st Hn Hinv; cbn [dit_sweep].
  - exists st. auto.
  - destruct (dit_node_ok n indptr indices data damping i st Hwf (Hn i (or_introl eq_refl)) Hinv)
      as (st1 & H1 & Hinv1).
    rewrite H1. cbn [kbind]. apply IH; auto. intros i' Hi'. apply Hn. right. exact Hi'.
Qed.

Lemma dit_iter_ok n indptr indices (data : list Q) damping tol :
  csr_wf n indptr indices data ->
  forall k st sweeps, dinv n st ->
    exists st' s, dit_iter k n indptr indices data damping tol st sweeps = KOk (st', s) /\
                  dinv n st' /\ s <= sweeps + k.
Proof.
  intros Hwf. induction k as [|k IH]; intros st sweeps Hinv; cbn [dit_iter].
  - exists st, sweeps. split; [reflexivity|]. split; [exact Hinv|lia].
  - destruct (dit_sweep_ok n indptr indices data damping Hwf (seq 0 n) st) as (st1 & H1 & Hinv1); auto.
    { intros i Hi. apply in_seq in Hi. lia. }
    rewrite H1. cbn [kbind]. destruct st1 as [[sc fl] residu].
    destruct (Qlt_le_dec residu (tol * (1 - damping))%Q).
    + eexists. eexists. split; [reflexivity|]. split; [exact Hinv1|lia].
    + destruct (IH (sc, fl, residu) (S sweeps) Hinv1) as (st' & s & Hi & Hinv' & Hs).
      exists st', s. split; [exact Hi|]. split; [exact Hinv'|lia].
Qed.

(** diffusion (D-iteration): no access out of bounds; the outer loop runs at most n_iter sweeps
    (it is a [for] over range(n_iter): structural, no fuel). *)
Theorem diteration_ok n indptr indices (data scores fluid : list Q) damping n_iter tol :
  csr_wf n indptr indices data -> length scores = n -> length fluid = n ->
  exists st s, diteration indptr indices data scores fluid damping n_iter tol = KOk (st, s) /\
               s <= n_iter.
Proof.
  intros Hwf Hs Hf. unfold diteration. rewrite Hf.
  destruct (dit_iter_ok n indptr indices data damping tol Hwf n_iter
              (scores, fluid, (1 - damping)%Q) 0) as (st & s & Hi & _ & Hle).
  { split; assumption. }
  exists st, s. split; [exact Hi|lia].
Qed.

(** push_pagerank *)
Lemma push_init_row_ok n rev_indptr rev_indices degrees vertex :
  csr_pat_wf n rev_indptr rev_indices -> length degrees = n -> vertex < n ->
  forall js residuals, (forall k, In k js -> k < length rev_indices) -> length residuals = n ->
    exists r, push_init_row js rev_indices degrees residuals vertex = KOk r /\ length r = n.
Proof.
  intros Hwf Hdg Hv. induction js as [|j t IH]; intros residuals Hjs Hr; cbn [push_init_row].
  - exists residuals. auto.
  - destruct (csr_rd_indices _ _ _ j Hwf (Hjs j (or_introl eq_refl))) as [Hrd Hlt].
    rewrite Hrd. cbn [kbind].
    rewrite (rd_ok degrees _ 0) by lia. cbn [kbind].
    rewrite (rd_ok residuals vertex 0%Q) by lia. cbn [kbind].
    rewrite wr_ok by lia. cbn [kbind].
    apply IH.
    + intros k Hk. apply Hjs. right. exact Hk.
    + rewrite set_nth_length. exact Hr.
Qed.

Lemma push_init_ok n rev_indptr rev_indices degrees (seeds : list Q) damping :
  csr_pat_wf n rev_indptr rev_indices -> length degrees = n -> length seeds = n ->
  forall vs residuals, (forall v, In v vs -> v < n) -> length residuals = n ->
    exists r, push_init vs rev_indptr rev_indices degrees seeds damping residuals = KOk r /\ length r = n.
Proof.
  intros Hwf Hdg Hsd. induction vs as [|v t IH]; intros residuals Hvs Hr; cbn [push_init].
  - exists residuals. auto.
  - assert (Hv : v < n) by (apply Hvs; left; reflexivity).
    rewrite (csr_rd_indptr _ _ _ v Hwf) by lia. cbn [kbind].
    rewrite (csr_rd_indptr _ _ _ (S v) Hwf) by lia. cbn [kbind].
    destruct (push_init_row_ok n rev_indptr rev_indices degrees v Hwf Hdg Hv
                (seq (ip rev_indptr v) (ip rev_indptr (S v) - ip rev_indptr v)) residuals)
      as (res1 & H1 & Hl1); auto.
    { apply (row_range_lt n); auto. }
    rewrite H1. cbn [kbind].
    rewrite (rd_ok res1 v 0%Q) by lia. cbn [kbind].
    rewrite (rd_ok seeds v 0%Q) by lia. cbn [kbind].
    rewrite wr_ok by lia. cbn [kbind].
    apply IH.
    + intros v' Hv'. apply Hvs. right. exact Hv'.
    + rewrite set_nth_length. exact Hl1.
Qed.

Lemma push_row_ok n indptr indices degrees damping tol vertex :
  csr_pat_wf n indptr indices -> length degrees = n -> vertex < n ->
  forall js residuals worklist,
    (forall k, In k js -> k < length indices) -> length residuals = n ->
    Forall (fun v => v < n) worklist ->
    exists r w, push_row js indices degrees damping tol vertex residuals worklist = KOk (r, w) /\
                length r = n /\ Forall (fun v => v < n) w.
Proof.
  intros Hwf Hdg Hv. induction js as [|j t IH]; intros residuals worklist Hjs Hr Hw; cbn [push_row].
  - exists residuals, worklist. auto.
  - destruct (csr_rd_indices _ _ _ j Hwf (Hjs j (or_introl eq_refl))) as [Hrd Hlt].
    rewrite Hrd. cbn [kbind].
    rewrite (rd_ok residuals (nth j indices 0) 0%Q) by lia. cbn [kbind].
    rewrite (rd_ok residuals vertex 0%Q) by lia. cbn [kbind].
    rewrite (rd_ok degrees vertex 0) by lia. cbn [kbind].
    rewrite wr_ok by lia. cbn [kbind].
    rewrite (rd_ok (set_nth _ _ _) (nth j indices 0) 0%Q) by (rewrite set_nth_length; lia). cbn [kbind].
    apply IH.
    + intros k Hk. apply Hjs. right. exact Hk.
    + rewrite set_nth_length. exact Hr.
    + destruct (Qlt_le_dec tol _); [|exact Hw].
      destruct (Qlt_le_dec _ tol); [|exact Hw].
      apply Forall_app. split; [exact Hw|]. constructor; [exact Hlt|constructor].
Qed.

Lemma push_loop_safe n indptr indices degrees damping tol :
  csr_pat_wf n indptr indices -> length degrees = n ->
  forall fuel scores residuals worklist,
    length scores = n -> length residuals = n -> Forall (fun v => v < n) worklist ->
    push_loop fuel indptr indices degrees damping tol scores residuals worklist <> OOB.
Proof.
  intros Hwf Hdg. induction fuel as [|f IH]; intros scores residuals worklist Hs Hr Hw;
    destruct worklist as [|v rest]; cbn [push_loop]; try discriminate.
  apply Forall_cons_iff in Hw. destruct Hw as [Hv Hrest].
  rewrite (rd_ok scores v 0%Q) by lia. cbn [kbind].
  rewrite (rd_ok residuals v 0%Q) by lia. cbn [kbind].
  rewrite wr_ok by lia. cbn [kbind].
  rewrite (csr_rd_indptr _ _ _ v Hwf) by lia. cbn [kbind].
  rewrite (csr_rd_indptr _ _ _ (S v) Hwf) by lia. cbn [kbind].
  destruct (push_row_ok n indptr indices degrees damping tol v Hwf Hdg Hv
              (seq (ip indptr v) (ip indptr (S v) - ip indptr v)) residuals rest)
    as (r & w & H1 & Hl1 & Hw1); auto.
  { apply (row_range_lt n); auto. }
  rewrite H1. cbn [kbind fst snd]. apply IH; auto. rewrite set_nth_length. exact Hs.
Qed.

(** push_pagerank: no access out of bounds, for every fuel. Termination of the work-list loop is NOT
    claimed (with exact arithmetic nothing bounds the number of re-insertions by a function of n alone). *)
Theorem push_pagerank_safe_ok fuel n degrees indptr indices rev_indptr rev_indices (seeds : list Q)
        damping tol argsort :
  csr_pat_wf n indptr indices -> csr_pat_wf n rev_indptr rev_indices ->
  length degrees = n -> length seeds = n ->
  (forall r, Forall (fun v => v < n) (argsort r)) ->
  push_pagerank fuel n degrees indptr indices rev_indptr rev_indices seeds damping tol argsort <> OOB.
Proof.
  intros Hwf Hrev Hdg Hsd Harg. unfold push_pagerank.
  destruct (push_init_ok n rev_indptr rev_indices degrees seeds damping Hrev Hdg Hsd
              (seq 0 n) (repeat 0%Q n)) as (res & H1 & Hl1).
  { intros v Hv. apply in_seq in Hv. lia. }
  { apply repeat_length. }
  rewrite H1. cbn [kbind].
  apply (push_loop_safe n); auto. apply repeat_length.
Qed.

(** * 6. The driver loop of Propagation.fit *)

Lemma prop_loop_eq fuel n_iter S_ idx t lr labels :
  prop_loop fuel n_iter S_ idx t lr labels =
  if (match n_iter with None => true | Some m => t <? m end) && negb (zlist_eqb lr (take labels idx)) then
    match fuel with
    | O => OutOfFuel
    | S f => match S_ labels with
             | VOOB _ => OOB
             | VOk labels' => prop_loop f n_iter S_ idx (S t) (take labels idx) labels'
             end
    end
  else KOk (labels, t).
Proof. destruct fuel; reflexivity. Qed.

(** With a finite n_iter the loop runs at most n_iter sweeps: fuel n_iter - t suffices, for ANY sweep
    function that is safe on the labellings satisfying an invariant [I]. *)
Lemma prop_loop_finite (I : list Z -> Prop) S_ idx m :
  (forall l, I l -> exists l', S_ l = VOk l' /\ I l') ->
  forall fuel t lr labels, I labels -> m - t <= fuel ->
    exists l' t', prop_loop fuel (Some m) S_ idx t lr labels = KOk (l', t') /\ t' <= Nat.max t m.
Proof.
  intros HS. induction fuel as [|f IH]; intros t lr labels HI Hf; rewrite prop_loop_eq.
  - assert (E : t <? m = false) by (apply Nat.ltb_ge; lia). rewrite E. cbn [andb].
    exists labels, t. split; [reflexivity|lia].
  - destruct (t <? m) eqn:E; cbn [andb]; [|exists labels, t; split; [reflexivity|lia]].
    apply Nat.ltb_lt in E.
    destruct (negb (zlist_eqb lr (take labels idx))); [|exists labels, t; split; [reflexivity|lia]].
    destruct (HS labels HI) as (l' & Hl' & HI'). rewrite Hl'.
    destruct (IH (S t) (take labels idx) l' HI' ltac:(lia)) as (l2 & t2 & H2 & Ht2).
    exists l2, t2. split; [exact H2|lia].
Qed.

Theorem propagation_fit_finite_ok n indptr indices (data : list Q) index labels0 m :
  csr_wf n indptr indices data -> length labels0 = n -> (forall i, In i index -> i < n) ->
  exists labels t, propagation_fit m (Some m) indptr indices data index labels0 = KOk (labels, t) /\
                   t <= m.
Proof.
  intros Hwf Hl Hidx. unfold propagation_fit.
  destruct (prop_loop_finite (fun l => length l = n) (sweep indptr indices data index) index m)
    with (fuel := m) (t := 0) (lr := map (fun _ : nat => 0%Z) index) (labels := labels0)
    as (l' & t' & H1 & H2); auto; try lia.
  { intros l Hlen. unfold sweep. apply (vote_update_safe_ok n); auto. }
  exists l', t'. split; [exact H1|lia].
Qed.

(** Oscillation witness (found by search with the real implementation, see the report):
    5 nodes, seeds {0: 0, 1: 1}, directed weighted edges
      2 -> 0 (1), 2 -> 3 (3), 3 -> 1 (1), 3 -> 4 (3), 4 -> 0 (1), 4 -> 2 (3). *)
Definition osc_indptr := [0; 0; 0; 2; 4; 6].
Definition osc_indices := [0; 3; 1; 4; 0; 2].
Definition osc_data : list Q := [1; 3; 1; 3; 1; 3]%Q.
Definition osc_labels0 : list Z := [0; 1; -1; -1; -1]%Z.
Definition osc_index := [2; 3; 4].
Definition osc_l1 : list Z := [0; 1; 0; 1; 0]%Z.
Definition osc_l2 : list Z := [0; 1; 1; 0; 1]%Z.
Definition osc_S := sweep osc_indptr osc_indices osc_data osc_index.

Lemma osc_S0 : osc_S osc_labels0 = VOk osc_l1. Proof. vm_compute. reflexivity. Qed.
Lemma osc_S1 : osc_S osc_l1 = VOk osc_l2. Proof. vm_compute. reflexivity. Qed.
Lemma osc_S2 : osc_S osc_l2 = VOk osc_l1. Proof. vm_compute. reflexivity. Qed.

Lemma osc_loop_forever : forall fuel t,
  prop_loop fuel None osc_S osc_index t (take osc_l2 osc_index) osc_l1 = OutOfFuel /\
  prop_loop fuel None osc_S osc_index t (take osc_l1 osc_index) osc_l2 = OutOfFuel.
Proof.
  induction fuel as [|f IH]; intros t; split; rewrite prop_loop_eq.
  - reflexivity.
  - reflexivity.
  - replace (true && negb (zlist_eqb (take osc_l2 osc_index) (take osc_l1 osc_index))) with true
      by (vm_compute; reflexivity).
    rewrite osc_S1. apply IH.
  - replace (true && negb (zlist_eqb (take osc_l1 osc_index) (take osc_l2 osc_index))) with true
      by (vm_compute; reflexivity).
    rewrite osc_S2. apply IH.
Qed.

Theorem propagation_oscillation_refuted_ok :
  csr_wf 5 osc_indptr osc_indices osc_data /\ length osc_labels0 = 5 /\
  (forall i, In i osc_index -> i < 5) /\
  osc_S osc_labels0 = VOk osc_l1 /\
  osc_S osc_l1 = VOk osc_l2 /\ osc_S osc_l2 = VOk osc_l1 /\ osc_l2 <> osc_l1 /\
  forall fuel, propagation_fit fuel None osc_indptr osc_indices osc_data osc_index osc_labels0 = OutOfFuel.
Proof.
  split; [apply csr_wf_b_sound; reflexivity|]. split; [reflexivity|].
  split; [intros i Hi; simpl in Hi; lia|].
  split; [exact osc_S0|]. split; [exact osc_S1|]. split; [exact osc_S2|].
  split; [discriminate|].
  intros fuel. unfold propagation_fit. fold osc_S.
  rewrite prop_loop_eq.
  replace (true && negb (zlist_eqb (map (fun _ : nat => 0%Z) osc_index) (take osc_labels0 osc_index)))
    with true by (vm_compute; reflexivity).
  destruct fuel as [|f]; [reflexivity|]. rewrite osc_S0.
  rewrite prop_loop_eq.
  replace (true && negb (zlist_eqb (take osc_labels0 osc_index) (take osc_l1 osc_index)))
    with true by (vm_compute; reflexivity).
  destruct f as [|f]; [reflexivity|]. rewrite osc_S1.
  apply osc_loop_forever.
Qed.

(** * Summary statements in the [K_safe] / [K_terminates] form *)

Lemma kok_not_oob {A} (x : kres A) : (exists r, x = KOk r) -> x <> OOB.
Proof. intros [r ->]. discriminate. Qed.
Lemma kok_not_fuel {A} (x : kres A) : (exists r, x = KOk r) -> x <> OutOfFuel.
Proof. intros [r ->]. discriminate. Qed.

Theorem count_triangles_safe_ok n indptr indices :
  csr_pat_wf n indptr indices -> count_triangles_flat indptr indices <> OOB.
Proof. intros H. apply kok_not_oob. exact (count_triangles_flat_ok n indptr indices H). Qed.

Theorem count_triangles_terminates_ok n indptr indices :
  csr_pat_wf n indptr indices -> count_triangles_flat indptr indices <> OutOfFuel.
Proof. intros H. apply kok_not_fuel. exact (count_triangles_flat_ok n indptr indices H). Qed.

Theorem count_local_triangles_safe_ok n indptr indices node :
  csr_pat_wf n indptr indices -> node < n ->
  count_local_triangles_flat node indptr indices <> OOB /\
  count_local_triangles_flat node indptr indices <> OutOfFuel.
Proof.
  intros H Hn. pose proof (count_local_ok n indptr indices node H Hn) as E.
  split; [apply kok_not_oob | apply kok_not_fuel]; exact E.
Qed.

Theorem vote_update_safe_all n indptr indices (data : list Q) labels index s :
  csr_wf n indptr indices data -> length labels = n -> (forall i, In i index -> i < n) ->
  vote_update repaired_kernel indptr indices data labels index <> VOOB s.
Proof.
  intros Hwf Hl Hi. destruct (vote_update_safe_ok n indptr indices data labels index Hwf Hl Hi)
    as (l' & -> & _). discriminate.
Qed.

Theorem compute_core_safe_ok n indptr indices :
  csr_pat_wf n indptr indices -> ccompute_core cheap_resize indptr indices <> OOB.
Proof.
  intros H. destruct (ccompute_core_ok n indptr indices H) as (l & -> & _). discriminate.
Qed.

Theorem compute_core_terminates_ok n indptr indices :
  csr_pat_wf n indptr indices -> ccompute_core cheap_resize indptr indices <> OutOfFuel.
Proof.
  intros H. destruct (ccompute_core_ok n indptr indices H) as (l & -> & _). discriminate.
Qed.

Theorem diteration_safe_ok n indptr indices (data scores fluid : list Q) damping n_iter tol :
  csr_wf n indptr indices data -> length scores = n -> length fluid = n ->
  diteration indptr indices data scores fluid damping n_iter tol <> OOB.
Proof.
  intros H1 H2 H3.
  destruct (diteration_ok n indptr indices data scores fluid damping n_iter tol H1 H2 H3)
    as (st & s & -> & _). discriminate.
Qed.

(** * 7. optimize_core (Louvain): accesses in range *)

Ltac step_rd d := rewrite (rd_ok _ _ d) by (rewrite ?set_nth_length; lia); cbn [kbind].
Ltac step_wr := rewrite wr_ok by (rewrite ?set_nth_length; lia); cbn [kbind].

Definition linv (n : nat) (st : lstate) : Prop :=
  length (l_labels st) = n /\ Forall (fun l => l < n) (l_labels st) /\
  length (l_ocw st) = n /\ length (l_icw st) = n /\ length (l_cw st) = n.

Lemma lv_gather_ok n indptr indices (data : list Q) labels :
  csr_wf n indptr indices data -> length labels = n -> Forall (fun l => l < n) labels ->
  forall js lset cw, (forall k, In k js -> k < length indices) ->
    Forall (fun l => l < n) lset -> length cw = n ->
    exists lset' cw', lv_gather js indices data labels lset cw = KOk (lset', cw') /\
                      Forall (fun l => l < n) lset' /\ length cw' = n.
Proof.
  intros [Hwf Hd] Hl HF. induction js as [|j t IH]; intros lset cw Hjs Hls Hcw; cbn [lv_gather].
  - exists lset, cw. auto.
  - assert (Hj : j < length indices) by (apply Hjs; left; reflexivity).
    destruct (csr_rd_indices _ _ _ j Hwf Hj) as [Hr Hlt]. rewrite Hr. cbn [kbind].
    destruct (rd_Forall _ labels (nth j indices 0) HF ltac:(lia)) as (lt & Hr2 & Hlt2).
    rewrite Hr2. cbn [kbind].
    step_rd 0%Q. step_rd 0%Q. step_wr.
    apply IH.
    + intros k Hk. apply Hjs. right. exact Hk.
    + apply Forall_forall. intros u Hu. apply set_insert_In in Hu.
      destruct Hu as [->|Hu]; [exact Hlt2|]. rewrite Forall_forall in Hls. apply Hls. exact Hu.
    + rewrite set_nth_length. exact Hcw.
Qed.

Lemma lv_select_ok n res ow iw delta icw ocw :
  length icw = n -> length ocw = n ->
  forall ls cw dbest lbest, Forall (fun l => l < n) ls -> length cw = n -> lbest < n ->
    exists db lb cw', lv_select ls res ow iw delta icw ocw cw dbest lbest = KOk (db, lb, cw') /\
                      lb < n /\ length cw' = n.
Proof.
  intros Hi Ho. induction ls as [|lt t IH]; intros cw dbest lbest Hls Hcw Hlb; cbn [lv_select].
  - exists dbest, lbest, cw. auto.
  - apply Forall_cons_iff in Hls. destruct Hls as [Hlt Hls].
    step_rd 0%Q. step_rd 0%Q. step_rd 0%Q. step_wr.
    destruct (Qlt_le_dec dbest _); apply IH; auto; rewrite set_nth_length; exact Hcw.
Qed.

Lemma Forall_remove n x (l : list nat) :
  Forall (fun u => u < n) l -> Forall (fun u => u < n) (remove Nat.eq_dec x l).
Proof.
  intros H. apply Forall_forall. intros u Hu. apply in_remove in Hu. destruct Hu as [Hu _].
  rewrite Forall_forall in H. apply H. exact Hu.
Qed.

Lemma lv_node_ok n indptr indices (data ow_ iw_ sl_ : list Q) res i st :
  csr_wf n indptr indices data -> length ow_ = n -> length iw_ = n -> length sl_ = n ->
  i < n -> linv n st ->
  exists st', lv_node indptr indices data ow_ iw_ sl_ res i st = KOk st' /\ linv n st'.
Proof.
  intros Hwf How Hiw Hsl Hi (HL & HF & HO & HI & HC). pose proof Hwf as [Hpat Hd].
  unfold lv_node.
  destruct (rd_Forall _ (l_labels st) i HF ltac:(lia)) as (label & Hr & Hlab). rewrite Hr. cbn [kbind].
  rewrite (csr_rd_indptr _ _ _ i Hpat) by lia. cbn [kbind].
  rewrite (csr_rd_indptr _ _ _ (S i) Hpat) by lia. cbn [kbind].
  destruct (lv_gather_ok n indptr indices data (l_labels st) Hwf HL HF
              (seq (ip indptr i) (ip indptr (S i) - ip indptr i)) [] (l_cw st))
    as (lset0 & cw1 & Hg & Hls0 & Hcw1); auto.
  { apply (row_range_lt n); auto. }
  rewrite Hg. cbn [kbind fst snd].
  pose proof (Forall_remove n label lset0 Hls0) as Hls.
  match goal with |- exists st', (do st1 <- ?X ;; _) = _ /\ _ =>
    assert (H1 : exists st1, X = KOk st1 /\ linv n st1) end.
  { destruct (remove Nat.eq_dec label lset0) as [|l0 lrest] eqn:Erm.
    - eexists. split; [reflexivity|]. unfold linv; cbn [l_labels l_ocw l_icw l_cw]. auto.
    - step_rd 0%Q. step_rd 0%Q. step_rd 0%Q. step_rd 0%Q. step_rd 0%Q. step_rd 0%Q.
      match goal with |- context [lv_select ?ls ?r ?o ?w ?d ?ic ?oc ?c ?db ?lb] =>
        destruct (lv_select_ok n r o w d ic oc HI HO ls c db lb Hls Hcw1 Hlab)
          as (db' & lb' & cw2 & Hs & Hlb' & Hcw2) end.
      rewrite Hs. cbn [kbind fst snd].
      destruct (negb (lb' =? label)).
      + repeat first [step_rd 0%Q | step_wr].
        eexists. split; [reflexivity|]. unfold linv; cbn [l_labels l_ocw l_icw l_cw].
        rewrite !set_nth_length. repeat split; auto. apply Forall_set_nth; auto.
      + eexists. split; [reflexivity|]. unfold linv; cbn [l_labels l_ocw l_icw l_cw]. auto. }
  destruct H1 as (st1 & E1 & (HL1 & HF1 & HO1 & HI1 & HC1)). rewrite E1. cbn [kbind].
  step_wr. eexists. split; [reflexivity|]. unfold linv; cbn [l_labels l_ocw l_icw l_cw].
  rewrite set_nth_length. auto.
Qed.

Lemma lv_pass_ok n indptr indices (data ow_ iw_ sl_ : list Q) res :
  csr_wf n indptr indices data -> length ow_ = n -> length iw_ = n -> length sl_ = n ->
  forall nodes st, (forall i, In i nodes -> i < n) -> linv n st ->
    exists st', lv_pass nodes indptr indices data ow_ iw_ sl_ res st = KOk st' /\ linv n st'.
Proof.
  intros Hwf How Hiw Hsl. induction nodes as [|i t IH]; intros st Hn Hinv; cbn [lv_pass].
  - exists st. auto.
  - destruct (lv_node_ok n indptr indices data ow_ iw_ sl_ res i st Hwf How Hiw Hsl
                (Hn i (or_introl eq_refl)) Hinv) as (st1 & H1 & Hinv1).
    rewrite H1. cbn [kbind]. apply IH; auto. intros i' Hi'. apply Hn. right. exact Hi'.
Qed.

Lemma lv_loop_safe n indptr indices (data ow_ iw_ sl_ : list Q) res tol :
  csr_wf n indptr indices data -> length ow_ = n -> length iw_ = n -> length sl_ = n ->
  forall fuel st increase passes, linv n st ->
    lv_loop fuel n indptr indices data ow_ iw_ sl_ res tol st increase passes <> OOB.
Proof.
  intros Hwf How Hiw Hsl. induction fuel as [|f IH]; intros st increase passes Hinv; cbn [lv_loop];
    [discriminate|].
  destruct (lv_pass_ok n indptr indices data ow_ iw_ sl_ res Hwf How Hiw Hsl (seq 0 n)
              {| l_labels := l_labels st; l_ocw := l_ocw st; l_icw := l_icw st; l_cw := l_cw st;
                 l_inc := 0%Q |}) as (st' & H1 & Hinv').
  { intros i Hi. apply in_seq in Hi. lia. }
  { exact Hinv. }
  rewrite H1. cbn [kbind]. destruct (Qlt_le_dec tol (l_inc st')); [apply IH; exact Hinv'|discriminate].
Qed.

(** optimize_core: no access out of bounds, for every fuel. Contract of the caller: labels are node
    indices (< n), every per-node / per-cluster array has n entries. Termination is not covered here. *)
Theorem optimize_core_safe_ok fuel n labels indices indptr
        (data ow_ iw_ ocw icw cw sl_ : list Q) res tol :
  csr_wf n indptr indices data -> length labels = n -> Forall (fun l => l < n) labels ->
  length ow_ = n -> length iw_ = n -> length ocw = n -> length icw = n -> length cw = n ->
  length sl_ = n ->
  optimize_core fuel labels indices indptr data ow_ iw_ ocw icw cw sl_ res tol <> OOB.
Proof.
  intros Hwf HL HF How Hiw Hocw Hicw Hcw Hsl. unfold optimize_core. rewrite HL.
  apply (lv_loop_safe n); auto. unfold linv; cbn [l_labels l_ocw l_icw l_cw]. auto.
Qed.

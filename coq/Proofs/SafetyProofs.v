(** C17 — proofs about the checked flat models of Model/Safety.v (and Model/Vote.v, Model/Bfs.v):
    on well-formed CSR input and the stated argument contracts no access is out of bounds and the
    stated fuel suffices. *)
From SKN Require Import Base.Util Model.Bfs Proofs.BfsProofs Model.Vote Proofs.VoteProofs Model.Safety.
From Coq Require Import Lia.

(** * Checked accesses *)

Lemma rd_ok {A} (l : list A) i d : i < length l -> rd l i = KOk (nth i l d).
Proof. intros H. unfold rd. rewrite (nth_error_nth' l d H). reflexivity. Qed.

Lemma set_nth_length {A} (l : list A) i x : length (set_nth l i x) = length l.
Proof. revert i; induction l as [|a t IH]; intros [|i]; simpl; auto. Qed.

Lemma wr_ok {A} (l : list A) i x : i < length l -> wr l i x = KOk (set_nth l i x).
Proof. intros H. unfold wr. apply Nat.ltb_lt in H. rewrite H. reflexivity. Qed.

Lemma Forall_set_nth {A} (P : A -> Prop) (l : list A) i x :
  Forall P l -> P x -> Forall P (set_nth l i x).
Proof.
  revert i; induction l as [|a t IH]; intros [|i] HF Hx; simpl; auto.
  - inversion HF; subst. constructor; auto.
  - inversion HF; subst. constructor; auto.
Qed.

Lemma Forall_nth_lt {A} (P : A -> Prop) (l : list A) i d : Forall P l -> i < length l -> P (nth i l d).
Proof. intros HF Hi. rewrite Forall_forall in HF. apply HF. apply nth_In. exact Hi. Qed.

Lemma rd_Forall {A} (P : A -> Prop) (l : list A) i :
  Forall P l -> i < length l -> exists x, rd l i = KOk x /\ P x.
Proof.
  intros HF Hi. destruct l as [|d t] eqn:E; [simpl in Hi; lia|]. rewrite <- E in *.
  exists (nth i l d). split; [apply rd_ok; exact Hi | apply Forall_nth_lt; assumption].
Qed.

Lemma rd_some {A} (l : list A) i : i < length l -> exists x, rd l i = KOk x.
Proof.
  intros Hi. destruct (rd_Forall (fun _ => True) l i) as [x [Hx _]]; auto.
  - apply Forall_forall. auto.
  - eauto.
Qed.

(** * CSR facts *)

Lemma csr_mono n indptr indices :
  csr_pat_wf n indptr indices -> forall i j, i <= j -> j <= n -> ip indptr i <= ip indptr j.
Proof.
  intros (_ & _ & Hm & _ & _) i j Hij. induction Hij as [|j Hij IH]; intros Hj; [lia|].
  specialize (Hm j). lia.
Qed.

Lemma csr_le_nnz n indptr indices i :
  csr_pat_wf n indptr indices -> i <= n -> ip indptr i <= length indices.
Proof.
  intros Hwf Hi. pose proof (csr_mono _ _ _ Hwf i n Hi (le_n _)) as H.
  destruct Hwf as (_ & _ & _ & Hl & _). lia.
Qed.

Lemma csr_rd_indptr n indptr indices i :
  csr_pat_wf n indptr indices -> i <= n -> rd indptr i = KOk (ip indptr i).
Proof. intros (Hl & _) Hi. apply rd_ok. lia. Qed.

Lemma csr_rd_indices n indptr indices k :
  csr_pat_wf n indptr indices -> k < length indices ->
  rd indices k = KOk (nth k indices 0) /\ nth k indices 0 < n.
Proof. intros (_ & _ & _ & _ & Hi) Hk. split; [apply rd_ok; exact Hk | apply Hi; exact Hk]. Qed.

Lemma csr_pat_wf_b_sound n indptr indices :
  csr_pat_wf_b n indptr indices = true -> csr_pat_wf n indptr indices.
Proof.
  unfold csr_pat_wf_b. rewrite !andb_true_iff.
  intros ((((H1 & H2) & H3) & H4) & H5).
  apply Nat.eqb_eq in H1, H2, H4. rewrite forallb_forall in H3, H5.
  repeat split; auto.
  - intros i Hi. apply Nat.leb_le. apply H3. apply in_seq. lia.
  - intros k Hk. apply Nat.ltb_lt. apply H5. apply nth_In. exact Hk.
Qed.

Lemma csr_wf_b_sound {W} n indptr indices (data : list W) :
  csr_wf_b n indptr indices data = true -> csr_wf n indptr indices data.
Proof.
  unfold csr_wf_b. rewrite andb_true_iff. intros [H1 H2]. split.
  - apply csr_pat_wf_b_sound. exact H1.
  - apply Nat.eqb_eq. exact H2.
Qed.

(** * 1. triangles *)

Lemma tri_while_ok n indptr indices node neighbor :
  csr_pat_wf n indptr indices -> node < n -> neighbor < n ->
  forall fuel i j acc,
    (ip indptr (S node) - i) + (ip indptr (S neighbor) - j) <= fuel ->
    exists r, tri_while fuel indptr indices node neighbor i j acc = KOk r.
Proof.
  intros Hwf Hnode Hnb.
  pose proof (csr_le_nnz _ _ _ (S node) Hwf ltac:(lia)) as He1.
  pose proof (csr_le_nnz _ _ _ (S neighbor) Hwf ltac:(lia)) as He2.
  assert (Hstep : forall fuel i j acc,
             (forall i' j' acc', (ip indptr (S node) - i') + (ip indptr (S neighbor) - j') < 
                                 (ip indptr (S node) - i) + (ip indptr (S neighbor) - j) ->
                                 (ip indptr (S node) - i') + (ip indptr (S neighbor) - j') <= fuel - 1 ->
                 exists r, tri_while (fuel - 1) indptr indices node neighbor i' j' acc' = KOk r) ->
             (ip indptr (S node) - i) + (ip indptr (S neighbor) - j) <= fuel ->
             exists r, tri_while fuel indptr indices node neighbor i j acc = KOk r).
  { intros fuel i j acc IH Hf.
    destruct fuel as [|f]; cbn [tri_while];
      rewrite (csr_rd_indptr _ _ _ (S node) Hwf) by lia; cbn [kbind];
      (destruct (i <? ip indptr (S node)) eqn:Ei; [|eexists; reflexivity]);
      rewrite (csr_rd_indptr _ _ _ (S neighbor) Hwf) by lia; cbn [kbind];
      (destruct (j <? ip indptr (S neighbor)) eqn:Ej; [|eexists; reflexivity]);
      apply Nat.ltb_lt in Ei, Ej; [lia|].
    replace (S f - 1) with f in IH by lia.
    rewrite (rd_ok indices i 0) by lia. cbn [kbind].
    rewrite (rd_ok indices j 0) by lia. cbn [kbind].
    destruct (nth i indices 0 =? nth j indices 0); [apply IH; lia|].
    destruct (nth i indices 0 <? nth j indices 0); apply IH; lia. }
  induction fuel as [|f IH]; intros i j acc Hf; apply Hstep; auto.
  - intros i' j' acc' Hlt _. lia.
  - intros i' j' acc' _ Hle. replace (S f - 1) with f in * by lia. apply IH. exact Hle.
Qed.

Lemma tri_for_ok n indptr indices node :
  csr_pat_wf n indptr indices -> node < n ->
  forall ks acc, (forall k, In k ks -> k < length indices) ->
    exists r, tri_for ks indptr indices node acc = KOk r.
Proof.
  intros Hwf Hnode. induction ks as [|k t IH]; intros acc Hks; cbn [tri_for]; [eexists; reflexivity|].
  destruct (csr_rd_indices _ _ _ k Hwf (Hks k (or_introl eq_refl))) as [Hr Hlt].
  rewrite Hr. cbn [kbind].
  rewrite (csr_rd_indptr _ _ _ node Hwf) by lia. cbn [kbind].
  rewrite (csr_rd_indptr _ _ _ (nth k indices 0) Hwf) by lia. cbn [kbind].
  destruct (tri_while_ok n indptr indices node (nth k indices 0) Hwf Hnode Hlt
              (row_len indptr node + row_len indptr (nth k indices 0))
              (ip indptr node) (ip indptr (nth k indices 0)) acc) as [r Hr2].
  { unfold row_len. lia. }
  rewrite Hr2. cbn [kbind]. apply IH. intros k' Hk'. apply Hks. right. exact Hk'.
Qed.

Lemma count_local_ok n indptr indices node :
  csr_pat_wf n indptr indices -> node < n ->
  exists r, count_local_triangles_flat node indptr indices = KOk r.
Proof.
  intros Hwf Hnode. unfold count_local_triangles_flat.
  rewrite (csr_rd_indptr _ _ _ node Hwf) by lia. cbn [kbind].
  rewrite (csr_rd_indptr _ _ _ (S node) Hwf) by lia. cbn [kbind].
  apply (tri_for_ok n); auto.
  intros k Hk. apply in_seq in Hk.
  pose proof (csr_le_nnz _ _ _ (S node) Hwf ltac:(lia)).
  pose proof (csr_mono _ _ _ Hwf node (S node) ltac:(lia) ltac:(lia)). lia.
Qed.

Lemma tri_nodes_ok n indptr indices :
  csr_pat_wf n indptr indices ->
  forall nodes acc, (forall v, In v nodes -> v < n) ->
    exists r, tri_nodes nodes indptr indices acc = KOk r.
Proof.
  intros Hwf. induction nodes as [|v t IH]; intros acc Hn; cbn [tri_nodes]; [eexists; reflexivity|].
  destruct (count_local_ok n indptr indices v Hwf (Hn v (or_introl eq_refl))) as [c Hc].
  rewrite Hc. cbn [kbind]. apply IH. intros v' Hv'. apply Hn. right. exact Hv'.
Qed.

Theorem count_triangles_flat_ok n indptr indices :
  csr_pat_wf n indptr indices -> exists t, count_triangles_flat indptr indices = KOk t.
Proof.
  intros Hwf. unfold count_triangles_flat. apply (tri_nodes_ok n); auto.
  intros v Hv. apply in_seq in Hv. destruct Hwf as (Hl & _). lia.
Qed.

From Coq Require Import String Ascii.
From Coq Require Import Lia.
From SKN Require Import Base.Util Model.Graphml.
Set Warnings "-notation-overridden".
(** The key table of a GraphML document: the second walk of [from_graphml] ([scan_keys]) agrees, on
    every document it accepts, with the exception-free reading [doc_keys]; the weight-key rule read
    off [doc_keys]; and the two dialect switches ([d_for_checked], [d_bool_strict]) spelled out. *)
Local Open Scope string_scope.
Local Open Scope list_scope.
Local Open Scope nat_scope.
Local Infix "==s" := String.eqb (at level 70).
Local Notation "x <- r ;; k" := (bind r (fun x => k)) (at level 61, r at next level, right associativity).

(** * Inversion of the exception monad *)

Lemma bind_ok {A B} (r : result A) (f : A -> result B) b :
  bind r f = Ok b -> exists a, r = Ok a /\ f a = Ok b.
Proof.
  destruct r as [a|e]; cbn [bind]; intros H.
  - exists a. split; [reflexivity | exact H].
  - discriminate H.
Qed.

Ltac bind_inv H x Hx :=
  apply bind_ok in H; destruct H as [x [Hx H]]; cbv beta zeta in H.

Lemma get_attr_ok k e v :
  get_attr k e = Ok v -> attr k e = Some v /\ attr_or_empty k e = v.
Proof.
  unfold get_attr, attr_or_empty.
  destruct (attr k e) as [w|] eqn:E; intros H; inversion H; subst; auto.
Qed.

(** * Children of a key *)

Lemma weight_default_ok dl ty kes dw v :
  weight_default dl ty kes dw = Ok v -> v = weight_default_pure dl ty kes dw.
Proof.
  unfold weight_default_pure. revert dw.
  induction kes as [|ke t IH]; cbn [weight_default fold_left]; intros dw H.
  - inversion H; reflexivity.
  - destruct (is_tag "default" ke) eqn:Ed.
    + bind_inv H w Hc. unfold cast_or. rewrite Hc. apply IH. exact H.
    + apply IH. exact H.
Qed.

Lemma key_children_ok dl name ty kes descs dv descs' dv' :
  key_children dl name ty kes descs dv = Ok (descs', dv') ->
  descs' = descs_pure name kes descs /\ dv' = last_default dl ty kes dv.
Proof.
  unfold descs_pure, last_default. revert descs dv.
  induction kes as [|ke t IH]; cbn [key_children fold_left]; intros descs dv H.
  - inversion H; auto.
  - destruct (is_tag "desc" ke) eqn:Es; cbn [negb andb].
    + apply IH. exact H.
    + destruct (is_tag "default" ke) eqn:Ed.
      * bind_inv H w Hc. unfold cast_or. rewrite Hc. apply IH. exact H.
      * apply IH. exact H.
Qed.

(** * One step of the second walk *)

Lemma key_step_ok dl wk mss k fe k' :
  key_step dl wk mss (Ok k) fe = Ok k' -> k' = key_step_pure dl wk mss k fe.
Proof.
  intros H. unfold key_step in H. cbn [bind] in H.
  unfold key_step_pure, key_type. cbv zeta.
  destruct (is_tag "key" fe) eqn:Ek.
  - bind_inv H name Hn. apply get_attr_ok in Hn. destruct Hn as [_ Hn].
    bind_inv H tyname Ht. apply get_attr_ok in Ht. destruct Ht as [_ Ht].
    rewrite Hn, Ht.
    destruct (weight_key_test dl wk name fe) eqn:Ew.
    + bind_inv H kid Hid. apply get_attr_ok in Hid. destruct Hid as [Hid _].
      bind_inv H dw Hdw. apply weight_default_ok in Hdw.
      inversion H; subst k'; clear H. rewrite Hid, <- Hdw. reflexivity.
    + bind_inv H dom Hd. apply get_attr_ok in Hd. destruct Hd as [_ Hd].
      bind_inv H k1 Hk1.
      bind_inv H kid Hid. apply get_attr_ok in Hid. destruct Hid as [_ Hid].
      inversion H; subst k'; clear H. rewrite Hd, Hid.
      destruct (dom ==s "node") eqn:En.
      * bind_inv Hk1 r Hr. destruct r as [ds dv].
        apply key_children_ok in Hr. destruct Hr as [Hr1 Hr2].
        inversion Hk1; subst k1; clear Hk1.
        cbn [fst snd k_dw k_wty k_wid k_nattr k_eattr k_keys k_desc k_dnode k_dedge].
        rewrite Hr1, Hr2. reflexivity.
      * destruct (dom ==s "edge") eqn:Ee.
        -- bind_inv Hk1 r Hr. destruct r as [ds dv].
           apply key_children_ok in Hr. destruct Hr as [Hr1 Hr2].
           inversion Hk1; subst k1; clear Hk1.
           cbn [fst snd k_dw k_wty k_wid k_nattr k_eattr k_keys k_desc k_dnode k_dedge].
           rewrite Hr1, Hr2. reflexivity.
        -- inversion Hk1; subst k1; clear Hk1. reflexivity.
  - destruct (is_tag "desc" fe) eqn:Es; inversion H; reflexivity.
Qed.

Lemma key_step_raise dl wk mss e fe : key_step dl wk mss (Raise e) fe = Raise e.
Proof. reflexivity. Qed.

Lemma fold_key_step_raise dl wk mss l e :
  fold_left (key_step dl wk mss) l (Raise e) = Raise e.
Proof.
  induction l as [|fe t IH]; cbn [fold_left].
  - reflexivity.
  - rewrite key_step_raise. exact IH.
Qed.

(** * The whole walk *)

Lemma fold_key_step_pure dl wk mss l :
  forall k0 k, fold_left (key_step dl wk mss) l (Ok k0) = Ok k ->
               k = fold_left (key_step_pure dl wk mss) l k0.
Proof.
  induction l as [|fe t IH]; cbn [fold_left]; intros k0 k H.
  - inversion H; reflexivity.
  - destruct (key_step dl wk mss (Ok k0) fe) as [k1|e] eqn:E.
    + apply key_step_ok in E. subst k1. apply IH. exact H.
    + rewrite fold_key_step_raise in H. discriminate H.
Qed.

Theorem scan_keys_pure dl wk mss root k :
  scan_keys dl wk mss root = Ok k -> k = doc_keys dl wk mss root.
Proof. unfold scan_keys, doc_keys. apply fold_key_step_pure. Qed.

(** * The weight-key rule on [doc_keys] *)

Lemma key_step_pure_nonweight dl wk mss k fe :
  is_weight_key dl wk fe = false ->
  k_dw (key_step_pure dl wk mss k fe) = k_dw k /\
  k_wty (key_step_pure dl wk mss k fe) = k_wty k /\
  k_wid (key_step_pure dl wk mss k fe) = k_wid k.
Proof.
  unfold is_weight_key, key_step_pure. cbv zeta.
  destruct (is_tag "key" fe) eqn:Ek; cbn [andb]; intros H.
  - rewrite H. cbn [k_dw k_wty k_wid]. auto.
  - destruct (is_tag "desc" fe) eqn:Es; cbn [k_dw k_wty k_wid]; auto.
Qed.

Lemma key_step_pure_weight dl wk mss k fe :
  is_weight_key dl wk fe = true ->
  k_dw (key_step_pure dl wk mss k fe) = weight_default_pure dl (key_type fe) (x_children fe) (k_dw k) /\
  k_wty (key_step_pure dl wk mss k fe) = key_type fe /\
  k_wid (key_step_pure dl wk mss k fe) = attr "id" fe.
Proof.
  unfold is_weight_key, key_step_pure. cbv zeta. intros H.
  apply andb_true_iff in H. destruct H as [Hk Hw].
  rewrite Hk, Hw. cbn [k_dw k_wty k_wid]. auto.
Qed.

Lemma fold_key_step_pure_nonweight dl wk mss l :
  forall k, (forall fe, In fe l -> is_weight_key dl wk fe = false) ->
  k_dw (fold_left (key_step_pure dl wk mss) l k) = k_dw k /\
  k_wty (fold_left (key_step_pure dl wk mss) l k) = k_wty k /\
  k_wid (fold_left (key_step_pure dl wk mss) l k) = k_wid k.
Proof.
  induction l as [|fe t IH]; cbn [fold_left]; intros k Hall.
  - auto.
  - destruct (IH (key_step_pure dl wk mss k fe)) as [H1 [H2 H3]].
    { intros fe' Hin. apply Hall. right. exact Hin. }
    destruct (key_step_pure_nonweight dl wk mss k fe) as [G1 [G2 G3]].
    { apply Hall. left. reflexivity. }
    rewrite H1, H2, H3, G1, G2, G3. auto.
Qed.

Theorem weight_rule_no_key dl wk mss root :
  (forall fe, In fe (x_children root) -> is_weight_key dl wk fe = false) ->
  k_dw (doc_keys dl wk mss root) = VInt 1 /\
  k_wty (doc_keys dl wk mss root) = PBool /\
  k_wid (doc_keys dl wk mss root) = None.
Proof.
  intros Hall. unfold doc_keys.
  destruct (fold_key_step_pure_nonweight dl wk mss (x_children root) kinit Hall) as [H1 [H2 H3]].
  rewrite H1, H2, H3. cbn [kinit k_dw k_wty k_wid]. auto.
Qed.

Theorem weight_rule_one_key dl wk mss root pre kw post :
  x_children root = pre ++ kw :: post ->
  is_weight_key dl wk kw = true ->
  (forall fe, In fe pre \/ In fe post -> is_weight_key dl wk fe = false) ->
  k_wty (doc_keys dl wk mss root) = key_type kw /\
  k_wid (doc_keys dl wk mss root) = attr "id" kw /\
  k_dw (doc_keys dl wk mss root) = weight_default_pure dl (key_type kw) (x_children kw) (VInt 1).
Proof.
  intros Hsplit Hkw Hall. unfold doc_keys. rewrite Hsplit, fold_left_app. cbn [fold_left].
  destruct (fold_key_step_pure_nonweight dl wk mss pre kinit) as [P1 [P2 P3]].
  { intros fe Hin. apply Hall. left. exact Hin. }
  destruct (key_step_pure_weight dl wk mss (fold_left (key_step_pure dl wk mss) pre kinit) kw Hkw)
    as [W1 [W2 W3]].
  destruct (fold_key_step_pure_nonweight dl wk mss post
              (key_step_pure dl wk mss (fold_left (key_step_pure dl wk mss) pre kinit) kw))
    as [Q1 [Q2 Q3]].
  { intros fe Hin. apply Hall. right. exact Hin. }
  rewrite Q1, Q2, Q3, W1, W2, W3, P1. cbn [kinit k_dw]. auto.
Qed.

(** The default weight is the cast of the LAST <default> child of the weight key. *)
Lemma weight_default_pure_last dl ty kes dw :
  (forall d, In d kes -> is_tag "default" d = true -> exists v, cast dl ty (x_text d) = Ok v) ->
  weight_default_pure dl ty kes dw =
  match rev (filter (is_tag "default") kes) with
  | d :: _ => cast_or dl ty (x_text d) dw
  | [] => dw
  end.
Proof.
  unfold weight_default_pure.
  induction kes as [|x l IH] using rev_ind; intros Hall.
  - reflexivity.
  - rewrite fold_left_app, filter_app. cbn [fold_left filter].
    destruct (is_tag "default" x) eqn:Ed.
    + rewrite rev_app_distr. cbn [rev app].
      destruct (Hall x) as [v Hv].
      { apply in_or_app. right. left. reflexivity. }
      { exact Ed. }
      unfold cast_or. rewrite Hv. reflexivity.
    + rewrite app_nil_r. apply IH.
      intros d Hin Hd. apply Hall; [apply in_or_app; left; exact Hin | exact Hd].
Qed.

(** * The two dialect switches *)

Theorem weight_key_current wk fe : is_weight_key current wk fe = is_edge_weight_key wk fe.
Proof.
  unfold is_weight_key, is_edge_weight_key, weight_key_test. cbn [current d_for_checked].
  rewrite andb_assoc. reflexivity.
Qed.

Theorem weight_key_legacy wk fe :
  is_weight_key legacy wk fe = (is_tag "key" fe && (attr_or_empty "attr.name" fe ==s wk)).
Proof.
  unfold is_weight_key, weight_key_test. cbn [legacy d_for_checked].
  rewrite andb_true_r. reflexivity.
Qed.

Theorem bool_cast_current text : cast current PBool text = Ok (VBool (bool_text text)).
Proof. reflexivity. Qed.

Theorem bool_cast_legacy text :
  cast legacy PBool text =
  Ok (VBool (match text with Some s => negb (String.eqb s "") | None => false end)).
Proof. reflexivity. Qed.

(** * [bool_text] against xs:boolean on lower-case text *)

Lemma lower_cons_fix a t :
  lower (String a t) = String a t -> lower_ascii a = a /\ lower t = t.
Proof. cbn [lower]. intros H. injection H as H1 H2. auto. Qed.

Lemma lower_lstrip_fix s : lower s = s -> lower (lstrip s) = lstrip s.
Proof.
  induction s as [|a t IH]; intros H.
  - reflexivity.
  - cbn [lstrip]. destruct (is_blank a) eqn:Eb.
    + apply IH. apply (lower_cons_fix a t H).
    + exact H.
Qed.

Lemma lower_rstrip_fix s : lower s = s -> lower (rstrip s) = rstrip s.
Proof.
  induction s as [|a t IH]; intros H.
  - reflexivity.
  - destruct (lower_cons_fix a t H) as [Ha Ht]. specialize (IH Ht).
    cbn [rstrip]. destruct (rstrip t) as [|b r] eqn:Er.
    + destruct (is_blank a) eqn:Eb.
      * reflexivity.
      * cbn [lower]. rewrite Ha. reflexivity.
    + change (lower (String a (String b r))) with (String (lower_ascii a) (lower (String b r))).
      rewrite Ha, IH. reflexivity.
Qed.

Lemma lower_strip_fix s : lower s = s -> lower (strip s) = strip s.
Proof. intros H. unfold strip. apply lower_rstrip_fix. apply lower_lstrip_fix. exact H. Qed.

Theorem bool_text_gml s : lower s = s -> bool_text (Some s) = gml_bool (Some s).
Proof.
  intros H. unfold bool_text, gml_bool. cbv beta iota zeta.
  rewrite (lower_strip_fix s H). reflexivity.
Qed.

Theorem bool_text_none : bool_text None = false.
Proof. reflexivity. Qed.

(** C02 / C01 corollaries: equivariance (renumbering the nodes) and independence of the stored form (order of
    the stored indices, duplicates, container) of the REAL kernel models, each obtained as
        X_equivariant := X_exact o spec_equivariant_X
    from the exactness theorem of the kernel against its textbook specification (C04, C06, C08, C11, C14) and
    the equivariance of that specification, or, for iteration models, by induction on the coded loop.
    One module per model family (the model files define clashing names: wrow, entry, result, matvec ...):
    every module imports its model inside the module only. *)
From Coq Require Import Permutation Sorted Lia Lqa Qreduction Qabs Setoid Morphisms.
From SKN Require Import Base.Util Model.Bfs Model.Format Proofs.BfsProofs Proofs.FormatProofs.
From SKN Require Model.Topology Proofs.TopologyProofs Proofs.HeapProofs Proofs.CliqueProofs Model.Diffusion Proofs.DiffusionProofs Model.PageRank Proofs.PageRankProofs Model.Centrality Proofs.CentralityProofs Proofs.BrandesProofs Model.Modularity Proofs.ModularityProofs Model.Dendrogram Model.Cuts Proofs.CutsProofs Model.Vote Proofs.VoteProofs.
Set Warnings "-notation-overridden".

(* ==================================================================================================== *)
(** * Topology kernels (triangles, cliques, core numbers): renumbering and row order *)
Module EqT.
Import Topology TopologyProofs HeapProofs CliqueProofs.

(** ** Generic *)

Lemma map_nthn_seq (l : list nat) : map (nthn l) (seq 0 (length l)) = l.
Proof.
  apply nth_ext with (d := 0) (d' := 0).
  - rewrite map_length, seq_length. reflexivity.
  - intros i Hi. rewrite map_length, seq_length in Hi.
    rewrite (BfsProofs.nth_map_seq (nthn l)) by exact Hi. reflexivity.
Qed.

(** Relabelling the elements of the list and the relation together does not change the number of
    k-subsets that are cliques. *)
Lemma count_sub_map (adj adj' : nat -> nat -> bool) (f : nat -> nat) :
  forall k l,
    (forall a b, In a l -> In b l -> adj' (f a) (f b) = adj a b) ->
    count_sub adj' k (map f l) = count_sub adj k l.
Proof.
  induction k as [|k IHk]; intros l H.
  - rewrite !count_sub_0. reflexivity.
  - induction l as [|a t IHl]; [reflexivity|].
    cbn [map]. rewrite !count_sub_cons. f_equal.
    + rewrite filter_map_comm.
      rewrite (filter_ext_in (fun x => adj' (f a) (f x)) (adj a)).
      * apply IHk. intros x y Hx Hy. apply filter_In in Hx. apply filter_In in Hy.
        apply H; right; tauto.
      * intros x Hx. apply H; [left; reflexivity|right; exact Hx].
    + apply IHl. intros x y Hx Hy. apply H; right; assumption.
Qed.

(** On a strictly increasing list, the (k+1)-cliques are found from their least element. *)
Lemma count_sub_sorted (adj : nat -> nat -> bool) (k : nat) (l : list nat) :
  StronglySorted lt l ->
  count_sub adj (S k) l =
  sumn (map (fun a => count_sub adj k (filter (fun b => (a <? b) && adj a b) l)) l).
Proof.
  induction 1 as [|x t Ht IH Hx]; [reflexivity|].
  rewrite count_sub_cons. cbn [map sumn fold_right]. fold (sumn (map (fun a => count_sub adj k
     (filter (fun b => (a <? b) && adj a b) (x :: t))) t)).
  rewrite Forall_forall in Hx. f_equal.
  - cbn [filter]. rewrite Nat.ltb_irrefl. cbn [andb]. f_equal.
    apply filter_ext_in. intros b Hb. specialize (Hx b Hb).
    apply Nat.ltb_lt in Hx. rewrite Hx. reflexivity.
  - rewrite IH. apply sumn_map_ext_in. intros a Ha. specialize (Hx a Ha).
    cbn [filter]. destruct (Nat.ltb_spec a x) as [L|L]; [lia|]. reflexivity.
Qed.

(** The triple enumeration of [triangles_spec] counts the 3-subsets that are cliques. *)
Lemma triangles_spec_cliques (adj : nat -> nat -> bool) (n : nat) :
  triangles_spec adj n = cliques_spec adj n 3.
Proof.
  rewrite triangles_spec_sum. unfold cliques_spec.
  rewrite count_sub_sorted by apply sorted_seq.
  apply sumn_map_ext_in. intros a _.
  rewrite count_sub_sorted by (apply sorted_filter; apply sorted_seq).
  rewrite sumn_map_filter. apply sumn_map_ext_in. intros b _.
  rewrite count_sub_1, filter_filter, length_filter_sum, b2n_mul_sum.
  apply sumn_map_ext_in. intros c _. rewrite b2n_and. f_equal.
  destruct (Nat.ltb_spec a b), (Nat.ltb_spec b c), (Nat.ltb_spec a c);
    destruct (adj a b), (adj a c), (adj b c); simpl; try reflexivity; lia.
Qed.

(** ** The renumbered graph *)
Section Renumber.
Context (n : nat) (p : list nat) (Hp : Permutation p (seq 0 n)).
Context (g : graph) (HL : length g = n) (Hwf : wf_graph g).

Lemma memn_map_perm (l : list nat) (j : nat) :
  (forall x, In x l -> x < n) -> j < n ->
  memn (nthn p j) (map (nthn p) l) = memn j l.
Proof.
  intros Hl Hj. destruct (memn j l) eqn:E.
  - apply memn_In. apply memn_In in E. apply in_map. exact E.
  - destruct (memn (nthn p j) (map (nthn p) l)) eqn:E'; [|reflexivity].
    apply memn_In in E'. apply in_map_iff in E'. destruct E' as [x [Ex Hx]].
    apply (perm_inj n p Hp) in Ex; [|apply Hl; exact Hx|exact Hj]. subst x.
    apply memn_In in Hx. congruence.
Qed.

Lemma row_lt (u x : nat) : In x (row g u) -> x < n.
Proof. intros H. rewrite <- HL. exact (Hwf _ _ H). Qed.

(** Adjacency in the associated undirected graph is carried by the renumbering. *)
Lemma adjb_perm (i j : nat) : i < n -> j < n ->
  adjb (perm_graph p g) (nthn p i) (nthn p j) = adjb g i j.
Proof.
  intros Hi Hj. unfold adjb.
  rewrite !(perm_graph_row n p Hp) by assumption.
  rewrite !memn_map_perm by (try assumption; apply row_lt). reflexivity.
Qed.

(** SPECIFICATION: the number of k-subsets of the nodes that are pairwise adjacent is invariant. *)
Theorem cliques_spec_invariant (k : nat) :
  cliques_spec (adjb (perm_graph p g)) n k = cliques_spec (adjb g) n k.
Proof.
  unfold cliques_spec.
  rewrite (count_sub_perm (adjb (perm_graph p g)) (adjb_sym _) k (seq 0 n) p)
    by (apply Permutation_sym; exact Hp).
  rewrite <- (map_nthn_seq p) at 2. rewrite (perm_length n p Hp).
  apply count_sub_map. intros a b Ha Hb. apply in_seq in Ha. apply in_seq in Hb.
  apply adjb_perm; lia.
Qed.

Theorem triangles_spec_invariant :
  triangles_spec (adjb (perm_graph p g)) n = triangles_spec (adjb g) n.
Proof. rewrite !triangles_spec_cliques. apply cliques_spec_invariant. Qed.

(** CODE: count_triangles (directed2undirected, get_dag, merge loops) through its exactness theorem. *)
Theorem count_triangles_invariant :
  count_triangles (perm_graph p g) = count_triangles g.
Proof.
  rewrite !count_triangles_exact. rewrite (perm_graph_length n p Hp), HL.
  apply triangles_spec_invariant.
Qed.


(** Rows of the renumbered graph, read from the new index. *)
Lemma row_perm_graph_inv (u : nat) : u < n ->
  row (perm_graph p g) u = map (nthn p) (row g (index_of u p)).
Proof.
  intros Hu. rewrite <- (perm_index_nth n p Hp u Hu) at 1.
  apply (perm_graph_row n p Hp). apply (perm_index_lt n p Hp). exact Hu.
Qed.

Lemma NoDup_map_perm (l : list nat) :
  (forall x, In x l -> x < n) -> NoDup l -> NoDup (map (nthn p) l).
Proof.
  intros Hl Hnd. induction Hnd as [|a t Ha Ht IH]; [constructor|].
  cbn [map]. constructor.
  - intros Hin. apply in_map_iff in Hin. destruct Hin as [x [Ex Hx]].
    apply (perm_inj n p Hp) in Ex; [|apply Hl; right; exact Hx|apply Hl; left; reflexivity].
    subst x. contradiction.
  - apply IH. intros x Hx. apply Hl. right. exact Hx.
Qed.

(** The hypotheses of the exactness theorems (duplicate-free rows, symmetric pattern) are carried. *)
Lemma perm_graph_nodup : (forall u, NoDup (row g u)) -> forall u, NoDup (row (perm_graph p g) u).
Proof.
  intros Hnd u. destruct (Nat.lt_ge_cases u n) as [L|L].
  - rewrite row_perm_graph_inv by exact L. apply NoDup_map_perm; [apply row_lt|apply Hnd].
  - rewrite row_overflow by (rewrite (perm_graph_length n p Hp); exact L). constructor.
Qed.

Lemma perm_graph_sym :
  (forall u v, In v (row g u) -> In u (row g v)) ->
  forall u v, In v (row (perm_graph p g) u) -> In u (row (perm_graph p g) v).
Proof.
  intros Hsym u v Hin.
  pose proof (row_nonempty_lt _ _ _ Hin) as Hu. rewrite (perm_graph_length n p Hp) in Hu.
  rewrite row_perm_graph_inv in Hin by exact Hu.
  apply in_map_iff in Hin. destruct Hin as [w [<- Hw]].
  pose proof (row_lt _ _ Hw) as Hwn.
  rewrite (perm_graph_row n p Hp) by exact Hwn.
  rewrite <- (perm_index_nth n p Hp u Hu). apply in_map. apply Hsym. exact Hw.
Qed.

(** CODE: count_cliques (np.argsort of the core values, get_dag, ListingBox kernel) for every clique size
    k >= 2 and ANY admissible answers of argsort on the two sides. *)
Theorem count_cliques_invariant (k : nat) (argsort argsort' : list nat) :
  (forall u, NoDup (row g u)) -> (forall u v, In v (row g u) -> In u (row g v)) ->
  NoDup argsort -> length argsort = n -> NoDup argsort' -> length argsort' = n -> 2 <= k ->
  count_cliques (perm_graph p g) k argsort' = count_cliques g k argsort.
Proof.
  intros Hnd Hsym Ha La Ha' La' Hk.
  rewrite (count_cliques_L0_exact g k argsort) by (try assumption; lia).
  rewrite (count_cliques_L0_exact (perm_graph p g) k argsort');
    try assumption.
  - rewrite (perm_graph_length n p Hp), HL. f_equal. apply cliques_spec_invariant.
  - apply (perm_graph_wf n p Hp); assumption.
  - apply perm_graph_nodup. exact Hnd.
  - apply perm_graph_sym. exact Hsym.
  - rewrite (perm_graph_length n p Hp). exact La'.
Qed.


(** Degrees, connected triples and the clustering coefficient. *)
Lemma degree_spec_perm (v : nat) : v < n ->
  degree_spec (adjb (perm_graph p g)) n (nthn p v) = degree_spec (adjb g) n v.
Proof.
  intros Hv. unfold degree_spec.
  rewrite (Permutation_length (perm_filter (adjb (perm_graph p g) (nthn p v)) _ _ (Permutation_sym Hp))).
  set (P0 := adjb (perm_graph p g) (nthn p v)).
  rewrite <- (map_nthn_seq p). rewrite (perm_length n p Hp).
  rewrite filter_map_comm, map_length. unfold P0. f_equal.
  apply filter_ext_in. intros x Hx. apply in_seq in Hx. apply adjb_perm; lia.
Qed.

Lemma triples_spec2_invariant :
  triples_spec2 (adjb (perm_graph p g)) n = triples_spec2 (adjb g) n.
Proof.
  unfold triples_spec2.
  rewrite (sumn_perm _ _ (Permutation_map _ (Permutation_sym Hp))).
  set (F0 := fun v => let d := degree_spec (adjb (perm_graph p g)) n v in if 1 <? d then d * (d - 1) else 0).
  rewrite <- (map_nthn_seq p). rewrite (perm_length n p Hp), map_map. unfold F0.
  apply sumn_map_ext_in. intros v Hv. apply in_seq in Hv.
  rewrite degree_spec_perm by lia. reflexivity.
Qed.

Theorem clustering_coefficient_invariant :
  clustering_coefficient (perm_graph p g) = clustering_coefficient g.
Proof.
  unfold clustering_coefficient, n_edge_pairs.
  rewrite !sum_dd1_spec, count_triangles_invariant, (perm_graph_length n p Hp), HL.
  rewrite triples_spec2_invariant. reflexivity.
Qed.

End Renumber.

(** ** Core numbers *)

(** The specification [core_number] (largest k such that the node lies in a set whose members all have at
    least k neighbours inside the set) is carried along any map that carries the rows. *)
Lemma in_core_transport (g1 g2 : graph) (f : nat -> nat) (n : nat) :
  (forall u, n <= u -> row g1 u = []) ->
  (forall u, u < n -> row g2 (f u) = map f (row g1 u)) ->
  (forall u x, In x (row g1 u) -> x < n) ->
  (forall a b, a < n -> b < n -> f a = f b -> a = b) ->
  forall k v, v < n -> in_core g1 k v -> in_core g2 k (f v).
Proof.
  intros Hov Hrow Hlt Hinj k v Hv [s [Hvs Hs]].
  set (s' := map f (filter (fun u => u <? n) s)).
  assert (Hmem : forall x, x < n -> memn (f x) s' = memn x s).
  { intros x Hx. destruct (memn x s) eqn:E.
    - apply memn_In. apply memn_In in E. apply in_map. apply filter_In. split; [exact E|].
      apply Nat.ltb_lt. exact Hx.
    - destruct (memn (f x) s') eqn:E'; [|reflexivity].
      apply memn_In in E'. apply in_map_iff in E'. destruct E' as [y [Ey Hy]].
      apply filter_In in Hy. destruct Hy as [Hy Hyn]. apply Nat.ltb_lt in Hyn.
      apply Hinj in Ey; [|assumption|assumption]. subst y.
      apply memn_In in Hy. congruence. }
  exists s'. split.
  - apply in_map. apply filter_In. split; [exact Hvs|apply Nat.ltb_lt; exact Hv].
  - intros u' Hu'. apply in_map_iff in Hu'. destruct Hu' as [u [<- Hu]].
    apply filter_In in Hu. destruct Hu as [Hus Hun]. apply Nat.ltb_lt in Hun.
    specialize (Hs u Hus). unfold deg_in in *. rewrite Hrow by exact Hun.
    rewrite filter_map_comm, map_length.
    rewrite (filter_ext_in (fun x => memn (f x) s') (fun w => memn w s)); [exact Hs|].
    intros x Hx. apply Hmem. exact (Hlt _ _ Hx).
Qed.

Section RenumberCore.
Context (n : nat) (p : list nat) (Hp : Permutation p (seq 0 n)).
Context (g : graph) (HL : length g = n) (Hwf : wf_graph g).

Lemma in_core_perm (k v : nat) : v < n -> in_core g k v -> in_core (perm_graph p g) k (nthn p v).
Proof.
  apply (in_core_transport g (perm_graph p g) (nthn p) n).
  - intros u Hu. apply row_overflow. lia.
  - intros u Hu. apply (perm_graph_row n p Hp). exact Hu.
  - intros u x Hx. exact (row_lt n g HL Hwf u x Hx).
  - intros a b Ha Hb E. exact (perm_inj n p Hp a b Ha Hb E).
Qed.

Lemma in_core_perm_inv (k v : nat) : v < n -> in_core (perm_graph p g) k (nthn p v) -> in_core g k v.
Proof.
  intros Hv H.
  rewrite <- (perm_index_of n p Hp v Hv).
  revert H. apply (in_core_transport (perm_graph p g) g (fun u => index_of u p) n).
  - intros u Hu. apply row_overflow. rewrite (perm_graph_length n p Hp). exact Hu.
  - intros u Hu. rewrite (row_perm_graph_inv n p Hp g u Hu), map_map.
    rewrite (map_ext_in _ (fun x => x)); [symmetry; apply map_id|].
    intros x Hx. apply (perm_index_of n p Hp). exact (row_lt n g HL Hwf _ x Hx).
  - intros u x Hx. pose proof (perm_graph_wf n p Hp g HL Hwf u x Hx) as H0.
    rewrite (perm_graph_length n p Hp) in H0. exact H0.
  - intros a b Ha Hb E. rewrite <- (perm_index_nth n p Hp a Ha), <- (perm_index_nth n p Hp b Hb), E.
    reflexivity.
  - apply (perm_lt n p Hp). exact Hv.
Qed.

(** SPECIFICATION: the core number of the renumbered node in the renumbered graph is the core number. *)
Theorem core_number_equivariant (v k : nat) : v < n ->
  (core_number (perm_graph p g) (nthn p v) k <-> core_number g v k).
Proof.
  intros Hv. unfold core_number. split; intros [H1 H2]; split.
  - apply in_core_perm_inv; assumption.
  - intros k' Hk'. apply H2. apply in_core_perm; assumption.
  - apply in_core_perm; assumption.
  - intros k' Hk'. apply H2. apply in_core_perm_inv; assumption.
Qed.

(** CODE: compute_core (MinHeap arrays included) through its exactness theorem. *)
Theorem core_equivariant (labels : list Z) :
  (forall u, NoDup (row g u)) -> (forall u v, In v (row g u) -> In u (row g v)) ->
  compute_core g = Some labels ->
  compute_core (perm_graph p g) = Some (perm_vecz p labels).
Proof.
  intros Hnd Hsym Hc.
  destruct (compute_core_exact g Hnd Hsym) as [l [Hl [Ll Cl]]].
  destruct (compute_core_exact (perm_graph p g) (perm_graph_nodup n p Hp g HL Hwf Hnd)
                               (perm_graph_sym n p Hp g HL Hwf Hsym)) as [l' [Hl' [Ll' Cl']]].
  rewrite (perm_graph_length n p Hp) in Ll', Cl'. rewrite HL in Ll, Cl.
  rewrite Hc in Hl. injection Hl as ->. rewrite Hl'. f_equal.
  apply nth_ext with (d := 0%Z) (d' := 0%Z).
  - unfold perm_vecz. rewrite map_length, (perm_vec_length n p Hp). exact Ll'.
  - intros w Hw. rewrite map_length, Ll' in Hw.
    rewrite <- (perm_index_nth n p Hp w Hw).
    pose proof (perm_index_lt n p Hp w Hw) as Hv. set (v := index_of w p) in *.
    unfold perm_vecz. rewrite (perm_vec_nth n p Hp) by exact Hv.
    rewrite (nth_map_lt Z.of_nat l' (nthn p v) 0 0%Z) by (rewrite Ll'; apply (perm_lt n p Hp); exact Hv).
    rewrite (nth_map_lt Z.of_nat l v 0 0%Z) by (rewrite Ll; exact Hv).
    f_equal. fold (nthn l' (nthn p v)). fold (nthn l v).
    apply (core_number_unique g v).
    + apply core_number_equivariant; [exact Hv|]. apply Cl'. apply (perm_lt n p Hp). exact Hv.
    + apply Cl. exact Hv.
Qed.

End RenumberCore.

(** ** C01: order of the stored indices / duplicates *)

Lemma adjb_same (g g' : graph) : same_rows g g' -> forall i j, adjb g i j = adjb g' i j.
Proof.
  intros [_ HR] i j. unfold adjb. f_equal; apply memn_same; apply HR.
Qed.

Lemma triangles_spec_ext (adj adj' : nat -> nat -> bool) (n : nat) :
  (forall a b, adj a b = adj' a b) -> triangles_spec adj n = triangles_spec adj' n.
Proof.
  intros H. unfold triangles_spec. f_equal. apply filter_ext. intros [[a b] c].
  rewrite !H. reflexivity.
Qed.

(** count_triangles depends on the edge SET only: any order of the stored indices, repeated indices
    (the pipeline re-sorts through directed2undirected / get_dag; here for the entry point itself). *)
Theorem count_triangles_row_order_irrelevant (g g' : graph) :
  same_rows g g' -> count_triangles g = count_triangles g'.
Proof.
  intros H. rewrite !count_triangles_exact. destruct H as [HLen HR]. rewrite <- HLen.
  apply triangles_spec_ext. apply adjb_same. split; assumption.
Qed.

Lemma count_sub_ext (adj adj' : nat -> nat -> bool) :
  (forall a b, adj a b = adj' a b) -> forall k l, count_sub adj k l = count_sub adj' k l.
Proof.
  intros H k l.
  rewrite <- (map_id l) at 2. symmetry. apply count_sub_map. intros a b _ _. symmetry. apply H.
Qed.

(** Rows given in another order (duplicate-free, symmetric pattern): same clique counts. *)
Theorem count_cliques_row_order_irrelevant (g g' : graph) (k : nat) (argsort argsort' : list nat) :
  length g = length g' -> (forall u, Permutation (row g u) (row g' u)) ->
  (forall u, NoDup (row g u)) -> (forall u v, In v (row g u) -> In u (row g v)) ->
  NoDup argsort -> length argsort = length g -> NoDup argsort' -> length argsort' = length g -> 2 <= k ->
  count_cliques g' k argsort' = count_cliques g k argsort.
Proof.
  intros HLen HP Hnd Hsym Ha La Ha' La' Hk.
  assert (Hsame : same_rows g g').
  { split; [exact HLen|]. intros u v. split; intros H.
    - exact (Permutation_in _ (HP u) H).
    - exact (Permutation_in _ (Permutation_sym (HP u)) H). }
  assert (Hwf : wf_graph g).
  { intros u v Hin. exact (row_nonempty_lt _ _ _ (Hsym _ _ Hin)). }
  rewrite (count_cliques_L0_exact g k argsort) by assumption.
  rewrite (count_cliques_L0_exact g' k argsort').
  - rewrite <- HLen. f_equal. unfold cliques_spec. symmetry. apply count_sub_ext.
    apply adjb_same. exact Hsame.
  - intros u v Hin. rewrite <- HLen. apply (Hwf u). apply (proj2 Hsame). exact Hin.
  - intros u. exact (Permutation_NoDup (HP u) (Hnd u)).
  - intros u v Hin. apply (proj2 Hsame). apply Hsym. apply (proj2 Hsame). exact Hin.
  - exact Ha'.
  - rewrite <- HLen. exact La'.
  - exact Hk.
Qed.

Lemma deg_in_perm_rows (g g' : graph) (s : list nat) (v : nat) :
  Permutation (row g v) (row g' v) -> deg_in g s v = deg_in g' s v.
Proof.
  intros H. unfold deg_in. apply Permutation_length. apply perm_filter. exact H.
Qed.

Lemma core_number_perm_rows (g g' : graph) :
  (forall u, Permutation (row g u) (row g' u)) ->
  forall v k, core_number g v k -> core_number g' v k.
Proof.
  intros HP.
  assert (Hin : forall g1 g2 : graph, (forall u, Permutation (row g1 u) (row g2 u)) ->
                forall k v, in_core g1 k v -> in_core g2 k v).
  { intros g1 g2 H12 k v [s [Hv Hs]]. exists s. split; [exact Hv|].
    intros u Hu. rewrite <- (deg_in_perm_rows g1 g2 s u (H12 u)). apply Hs. exact Hu. }
  intros v k [H1 H2]. split.
  - apply (Hin g g'); assumption.
  - intros k' Hk'. apply H2. apply (Hin g' g); [|exact Hk'].
    intros u. apply Permutation_sym. apply HP.
Qed.

(** compute_core on duplicate-free rows stored in another order returns the same labels (the order in which
    the heap pops the nodes may differ, the result may not). *)
Theorem core_row_order_irrelevant (g g' : graph) :
  length g = length g' -> (forall u, Permutation (row g u) (row g' u)) ->
  (forall u, NoDup (row g u)) -> (forall u v, In v (row g u) -> In u (row g v)) ->
  compute_core g' = compute_core g.
Proof.
  intros HLen HP Hnd Hsym.
  assert (Hnd' : forall u, NoDup (row g' u)) by (intros u; exact (Permutation_NoDup (HP u) (Hnd u))).
  assert (Hsym' : forall u v, In v (row g' u) -> In u (row g' v)).
  { intros u v Hin. apply (Permutation_in _ (HP v)). apply Hsym.
    apply (Permutation_in _ (Permutation_sym (HP u))). exact Hin. }
  destruct (compute_core_exact g Hnd Hsym) as [l [Hl [Ll Cl]]].
  destruct (compute_core_exact g' Hnd' Hsym') as [l' [Hl' [Ll' Cl']]].
  rewrite Hl, Hl'. do 2 f_equal.
  apply nth_ext with (d := 0) (d' := 0); [lia|].
  intros v Hv. fold (nthn l' v). fold (nthn l v).
  apply (core_number_unique g' v).
  - apply Cl'. lia.
  - apply (core_number_perm_rows g g' HP). apply Cl. lia.
Qed.

End EqT.

(* ==================================================================================================== *)
(** * C01: linear-algebra kernels depend on the DENOTATION of the stored rows only
    (order of the stored entries, duplicate positions that are summed, explicit zeros). *)

Lemma sumq_map_ext {A} (f h : A -> Q) (l : list A) :
  (forall x, In x l -> (f x == h x)%Q) -> (sumq (map f l) == sumq (map h l))%Q.
Proof.
  induction l as [|a t IH]; intros H; simpl; [reflexivity|].
  rewrite (H a) by (left; reflexivity). rewrite IH; [reflexivity|].
  intros x Hx. apply H. right. exact Hx.
Qed.

Lemma sumq_map_plus {A} (f h : A -> Q) (l : list A) :
  (sumq (map (fun x => f x + h x) l) == sumq (map f l) + sumq (map h l))%Q.
Proof. induction l as [|a t IH]; simpl; [reflexivity|]. rewrite IH. ring. Qed.

Lemma sumq_indicator_notin (k : nat) (c : Q) (f : nat -> Q) (l : list nat) :
  ~ In k l -> (sumq (map (fun j => (if Nat.eqb k j then c else 0) * f j) l) == 0)%Q.
Proof.
  induction l as [|a t IH]; intros H; simpl; [reflexivity|].
  destruct (Nat.eqb_spec k a) as [E|Ne]; [exfalso; apply H; left; auto|].
  rewrite IH by (intros Hin; apply H; right; exact Hin). ring.
Qed.

Lemma sumq_indicator_in (k : nat) (c : Q) (f : nat -> Q) (l : list nat) :
  NoDup l -> In k l -> (sumq (map (fun j => (if Nat.eqb k j then c else 0) * f j) l) == c * f k)%Q.
Proof.
  induction 1 as [|a t Ha Ht IH]; intros Hin; [destruct Hin|].
  simpl. destruct (Nat.eqb_spec k a) as [E|Ne].
  - subst a. rewrite sumq_indicator_notin by exact Ha. ring.
  - destruct Hin as [E|Hin]; [congruence|]. rewrite IH by exact Hin. ring.
Qed.

(** A sparse dot product, accumulated in stored order, is the dense one over the denotation of the row. *)
Lemma dot_row_denotation (n : nat) (r : wrow) (x : list Q) :
  Forall (fun e : nat * Q => fst e < n) r ->
  (sumq (map (fun e : nat * Q => snd e * nthq x (fst e)) r) ==
   sumq (map (fun j => entry_row r j * nthq x j) (seq 0 n)))%Q.
Proof.
  induction 1 as [|e t He Ht IH].
  - simpl. symmetry. rewrite (sumq_map_ext _ (fun _ => 0%Q)).
    + induction (seq 0 n) as [|a l IHl]; simpl; [reflexivity|]. rewrite IHl. ring.
    + intros j _. unfold entry_row. simpl. ring.
  - cbn [map sumq fold_right]. fold (sumq (map (fun e0 : nat * Q => (snd e0 * nthq x (fst e0))%Q) t)).
    rewrite IH.
    rewrite (sumq_map_ext (fun j => (entry_row (e :: t) j * nthq x j)%Q)
               (fun j => ((if Nat.eqb (fst e) j then snd e else 0) * nthq x j + entry_row t j * nthq x j)%Q)).
    + rewrite sumq_map_plus. rewrite sumq_indicator_in; [reflexivity|apply seq_NoDup|].
      apply in_seq. lia.
    + intros j _. rewrite entry_row_cons. destruct (Nat.eqb (fst e) j); ring.
Qed.

Lemma Forall2_Qeq_nth (u v : list Q) :
  length u = length v -> (forall i, i < length u -> (nthq u i == nthq v i)%Q) -> Forall2 Qeq u v.
Proof.
  revert v; induction u as [|a u IH]; intros [|b v] HL H; simpl in HL; try discriminate; constructor.
  - exact (H 0 ltac:(simpl; lia)).
  - apply IH; [lia|]. intros i Hi. exact (H (S i) ltac:(simpl; lia)).
Qed.

(** [matvec] (the product every iterative algorithm is built from): two stored matrices with the same
    denotation give the same product, entry by entry. *)
Theorem matvec_depends_on_denotation (n : nat) (a a' : wrows) (x : list Q) :
  wf_rows n a -> wf_rows n a' -> length a = length a' ->
  (forall i j, (entry a i j == entry a' i j)%Q) ->
  Forall2 Qeq (matvec a x) (matvec a' x).
Proof.
  intros Hwf Hwf' HL Hden. apply Forall2_Qeq_nth.
  - unfold matvec. rewrite !map_length. exact HL.
  - intros i Hi. unfold matvec in Hi. rewrite map_length in Hi.
    unfold nthq, matvec.
    rewrite (nth_map_lt _ a i [] 0%Q) by exact Hi.
    rewrite (nth_map_lt _ a' i [] 0%Q) by lia.
    unfold wf_rows in Hwf, Hwf'. rewrite Forall_forall in Hwf, Hwf'.
    rewrite (dot_row_denotation n (nth i a [])) by (apply Hwf; apply nth_In; exact Hi).
    rewrite (dot_row_denotation n (nth i a' [])) by (apply Hwf'; apply nth_In; lia).
    apply sumq_map_ext. intros j _. specialize (Hden i j). unfold entry in Hden. rewrite Hden. reflexivity.
Qed.

Module EqDen.
Import Diffusion DiffusionProofs.

Lemma iterate_ext {A} (f h : A -> A) : (forall x, f x = h x) -> forall k x, iterate k f x = iterate k h x.
Proof. intros H. induction k as [|k IH]; intros x; simpl; [reflexivity|]. rewrite H. apply IH. Qed.

Lemma wf_row_of (n : nat) (rows : list wrow) (i : nat) :
  wf_rows n rows -> forall e, In e (wrow_of rows i) -> fst e < n /\ (0 <= snd e)%Q.
Proof. intros H e He. exact (wf_rows_wrow_of n rows i e H He). Qed.

Lemma wf_row_lt (n : nat) (rows : list wrow) (i : nat) :
  wf_rows n rows -> Forall (fun e : nat * Q => fst e < n) (wrow_of rows i).
Proof. intros H. apply Forall_forall. intros e He. exact (proj1 (wf_row_of n rows i H e He)). Qed.

(** For non-negative weights the row norm is the sum of the denotation. *)
Lemma row_norm_denotation (n : nat) (r : wrow) :
  (forall e, In e r -> fst e < n /\ (0 <= snd e)%Q) ->
  (row_norm r == sumq (map (Format.entry_row r) (seq 0 n)))%Q.
Proof.
  intros H.
  assert (HF : Forall (fun e : nat * Q => fst e < n) r).
  { apply Forall_forall. intros e He. exact (proj1 (H e He)). }
  pose proof (dot_row_denotation n r (repeat 1%Q n) HF) as E.
  rewrite (sumq_map_ext (fun j => (Format.entry_row r j * nthq (repeat 1%Q n) j)%Q) (Format.entry_row r)) in E.
  - rewrite <- E. unfold row_norm. apply sumq_map_ext. intros e He. destruct (H e He) as [H1 H2].
    rewrite nthq_repeat' by exact H1. rewrite Qabs.Qabs_pos by exact H2. ring.
  - intros j Hj. apply in_seq in Hj. rewrite nthq_repeat' by lia. ring.
Qed.

Lemma dot_row_scaled (r : wrow) (s : Q) (v : list Q) :
  (dot_row (map (fun e : nat * Q => (fst e, (snd e / s)%Q)) r) v == dot_row r v / s)%Q.
Proof.
  unfold dot_row. induction r as [|e t IH]; simpl.
  - unfold Qdiv. ring.
  - rewrite IH. unfold Qdiv. ring.
Qed.

Lemma dot_normalize_row_denotation (n : nat) (r r' : wrow) (v : list Q) :
  (forall e, In e r -> fst e < n /\ (0 <= snd e)%Q) ->
  (forall e, In e r' -> fst e < n /\ (0 <= snd e)%Q) ->
  (forall j, (Format.entry_row r j == Format.entry_row r' j)%Q) ->
  (dot_row (normalize_row r) v == dot_row (normalize_row r') v)%Q.
Proof.
  intros H H' Hden.
  assert (Es : (row_norm r == row_norm r')%Q).
  { rewrite (row_norm_denotation n r H), (row_norm_denotation n r' H').
    apply sumq_map_ext. intros j _. apply Hden. }
  assert (Ed : (dot_row r v == dot_row r' v)%Q).
  { unfold dot_row.
    rewrite (dot_row_denotation n r v) by (apply Forall_forall; intros e He; exact (proj1 (H e He))).
    rewrite (dot_row_denotation n r' v) by (apply Forall_forall; intros e He; exact (proj1 (H' e He))).
    apply sumq_map_ext. intros j _. rewrite Hden. reflexivity. }
  unfold normalize_row.
  destruct (Qeq_bool (row_norm r) 0) eqn:E1; destruct (Qeq_bool (row_norm r') 0) eqn:E2.
  - reflexivity.
  - apply Qeq_bool_iff in E1. apply Qeq_bool_neq in E2. exfalso. apply E2. rewrite <- Es. exact E1.
  - apply Qeq_bool_iff in E2. apply Qeq_bool_neq in E1. exfalso. apply E1. rewrite Es. exact E2.
  - rewrite !dot_row_scaled. rewrite Ed, Es. reflexivity.
Qed.

Lemma matvec_normalize_denotation (n : nat) (rows rows' : list wrow) (v : list Q) :
  wf_rows n rows -> wf_rows n rows' -> length rows = length rows' ->
  (forall i j, (Format.entry rows i j == Format.entry rows' i j)%Q) ->
  matvec (normalize rows) v = matvec (normalize rows') v.
Proof.
  intros Hwf Hwf' HL Hden.
  apply nth_ext with (d := 0%Q) (d' := 0%Q).
  - rewrite !matvec_length, !normalize_length. exact HL.
  - intros i Hi. rewrite matvec_length, normalize_length in Hi.
    fold (nthq (matvec (normalize rows) v) i). fold (nthq (matvec (normalize rows') v) i).
    rewrite !nth_matvec by (rewrite normalize_length; lia).
    rewrite !wrow_of_normalize. apply Qred_complete.
    apply (dot_normalize_row_denotation n).
    + apply wf_row_of. exact Hwf.
    + apply wf_row_of. exact Hwf'.
    + intros j. exact (Hden i j).
Qed.

(** Dirichlet.fit's iteration on two stored matrices (non-negative weights, column indices in range) with the
    same denotation: identical values after every number of iterations (the model stores reduced fractions,
    so the equality is literal). *)
Theorem dirichlet_depends_on_denotation (n k : nat) (rows rows' : list wrow) (border : list bool) (temps : list Q) :
  wf_rows n rows -> wf_rows n rows' -> length rows = length rows' ->
  (forall i j, (Format.entry rows i j == Format.entry rows' i j)%Q) ->
  dirichlet_core k rows border temps = dirichlet_core k rows' border temps.
Proof.
  intros Hwf Hwf' HL Hden. unfold dirichlet_core. apply iterate_ext. intros v.
  unfold dirichlet_step. rewrite (matvec_normalize_denotation n rows rows' v Hwf Hwf' HL Hden). reflexivity.
Qed.


(** ... in particular on the CSR matrices [check_format] builds from two containers (Dense, Coo with
    duplicates in any order, Csc, Lil, Csr unsorted / with duplicates) that denote the same matrix. *)
Theorem dirichlet_container_independent (n k : nat) (c1 c2 : container) (border : list bool) (temps : list Q) :
  wf_shape c1 -> wf_shape c2 -> c_nrow c1 = c_nrow c2 ->
  (forall i j, (den c1 i j == den c2 i j)%Q) ->
  wf_rows n (snd (to_csr c1)) -> wf_rows n (snd (to_csr c2)) ->
  dirichlet_core k (snd (to_csr c1)) border temps = dirichlet_core k (snd (to_csr c2)) border temps.
Proof.
  intros Hs1 Hs2 Hr Hden Hw1 Hw2. apply (dirichlet_depends_on_denotation n); try assumption.
  - exact (eq_trans (proj2 (to_csr_shape c1)) (eq_trans Hr (eq_sym (proj2 (to_csr_shape c2))))).
  - intros i j. rewrite (to_csr_denotation c1 Hs1 i j), (to_csr_denotation c2 Hs2 i j). apply Hden.
Qed.

End EqDen.

Theorem matvec_container_independent (c1 c2 : container) (x : list Q) :
  wf_shape c1 -> wf_shape c2 -> c_nrow c1 = c_nrow c2 -> c_ncol c1 = c_ncol c2 ->
  (forall i j, (den c1 i j == den c2 i j)%Q) ->
  wf_wmat (to_csr c1) -> wf_wmat (to_csr c2) ->
  Forall2 Qeq (matvec (snd (to_csr c1)) x) (matvec (snd (to_csr c2)) x).
Proof.
  intros Hs1 Hs2 Hr Hc Hden Hw1 Hw2. unfold wf_wmat in Hw1, Hw2.
  rewrite (proj1 (to_csr_shape c1)) in Hw1. rewrite (proj1 (to_csr_shape c2)), <- Hc in Hw2.
  apply (matvec_depends_on_denotation (c_ncol c1)); try assumption.
  - rewrite (proj2 (to_csr_shape c1)), (proj2 (to_csr_shape c2)). exact Hr.
  - intros i j. rewrite (to_csr_denotation c1 Hs1 i j), (to_csr_denotation c2 Hs2 i j). apply Hden.
Qed.


(** ** PageRank: the operator, power iteration and the Horner solver depend on the denotation only *)
Module EqDenPR.
Import PageRank PageRankProofs.

Definition same_den (g g' : wgraph) : Prop :=
  forall i j, (entry (wrow_of g i) j == entry (wrow_of g' i) j)%Q.

Lemma good_row (g : wgraph) (i : nat) :
  good_graph g -> wf_row (length g) (wrow_of g i) = true /\ nonneg_row (wrow_of g i) = true.
Proof.
  intros [Hwf Hnn]. split; unfold wrow_of;
    [apply (forallb_nth (wf_row (length g))) | apply (forallb_nth nonneg_row)]; try assumption; reflexivity.
Qed.

Lemma entry_scaled (r : wrow) (s : Q) (j : nat) :
  (entry (map (fun e : nat * Q => (fst e, Qred (snd e / s))) r) j == entry r j / s)%Q.
Proof.
  induction r as [|e t IH]; [cbn; unfold Qdiv; ring|].
  cbn [map]. rewrite !entry_cons, IH. cbn [fst snd].
  destruct (Nat.eqb (fst e) j); [rewrite (Qred_correct (snd e / s))|]; unfold Qdiv; ring.
Qed.

Lemma row_sum_den (n : nat) (r r' : wrow) :
  wf_row n r = true -> wf_row n r' = true -> (forall j, (entry r j == entry r' j)%Q) ->
  (sumq (map snd r) == sumq (map snd r'))%Q.
Proof.
  intros H H' Hd. rewrite <- (bsum_entry n r H), <- (bsum_entry n r' H').
  apply bsum_ext. intros j _. apply Hd.
Qed.

Lemma entry_normalize_den (n : nat) (r r' : wrow) (j : nat) :
  wf_row n r = true -> nonneg_row r = true -> wf_row n r' = true -> nonneg_row r' = true ->
  (forall k, (entry r k == entry r' k)%Q) ->
  (entry (normalize_row r) j == entry (normalize_row r') j)%Q.
Proof.
  intros Hw Hn Hw' Hn' Hd.
  assert (Es : (Qred (row_norm r) == Qred (row_norm r'))%Q).
  { rewrite !Qred_correct, (row_norm_nonneg_eq r Hn), (row_norm_nonneg_eq r' Hn').
    exact (row_sum_den n r r' Hw Hw' Hd). }
  unfold normalize_row.
  destruct (Qeq_bool (Qred (row_norm r)) 0) eqn:E1; destruct (Qeq_bool (Qred (row_norm r')) 0) eqn:E2.
  - reflexivity.
  - apply Qeq_bool_iff in E1. apply Qeq_bool_neq in E2. exfalso. apply E2. rewrite <- Es. exact E1.
  - apply Qeq_bool_iff in E2. apply Qeq_bool_neq in E1. exfalso. apply E1. rewrite Es. exact E2.
  - rewrite !entry_scaled. rewrite (Hd j), Es. reflexivity.
Qed.

Section Den.
Context (g g' : wgraph) (Hg : good_graph g) (Hg' : good_graph g') (HL : length g = length g')
        (Hden : same_den g g').

Lemma P_den (i j : nat) : (P g i j == P g' i j)%Q.
Proof.
  unfold P, Pn. rewrite !wrow_of_normalize.
  destruct (good_row g i Hg) as [H1 H2]. destruct (good_row g' i Hg') as [H1' H2'].
  rewrite <- HL in H1'.
  apply (entry_normalize_den (length g)); try assumption. intros k. apply Hden.
Qed.

Lemma has_out_den (i : nat) : has_out g i = has_out g' i.
Proof.
  unfold has_out.
  destruct (good_row g i Hg) as [H1 _]. destruct (good_row g' i Hg') as [H1' _]. rewrite <- HL in H1'.
  pose proof (row_sum_den (length g) _ _ H1 H1' (Hden i)) as E.
  destruct (Qeq_bool (sumq (map snd (wrow_of g i))) 0) eqn:E1;
    destruct (Qeq_bool (sumq (map snd (wrow_of g' i))) 0) eqn:E2; try reflexivity.
  - apply Qeq_bool_iff in E1. apply Qeq_bool_neq in E2. exfalso. apply E2. rewrite <- E. exact E1.
  - apply Qeq_bool_iff in E2. apply Qeq_bool_neq in E1. exfalso. apply E1. rewrite E. exact E2.
Qed.

Lemma tab_ext (n : nat) (f h : vec) : (forall j, j < n -> (f j == h j)%Q) -> tab n f = tab n h.
Proof.
  intros H. unfold tab. apply map_ext_in. intros j Hj. apply in_seq in Hj.
  apply Qred_complete. apply H. lia.
Qed.

Lemma mv_Ma_den (alpha : Q) (z : vec) (j : nat) :
  (mv (length g) (Ma (normalize g) alpha) z j == mv (length g') (Ma (normalize g') alpha) z j)%Q.
Proof.
  rewrite <- HL. unfold mv, Ma. apply bsum_ext. intros i _.
  pose proof (P_den i j) as E. unfold P in E. rewrite E. reflexivity.
Qed.

(** RandomSurferOperator._matvec. *)
Theorem surfer_matvec_den (alpha : Q) (y x : list Q) :
  surfer_matvec g alpha y x = surfer_matvec g' alpha y x.
Proof.
  unfold surfer_matvec. rewrite <- HL at 1. apply tab_ext. intros j Hj.
  rewrite mv_Ma_den. rewrite <- HL.
  rewrite !Qred_correct.
  rewrite (bsum_ext (length g) (fun i => restart g alpha i * V x i)%Q (fun i => restart g' alpha i * V x i)%Q).
  - reflexivity.
  - intros i _. unfold restart. rewrite has_out_den. reflexivity.
Qed.

Lemma piteration_loop_ext (op op' : list Q -> list Q) (tol : Q) :
  (forall x, op x = op' x) -> forall k s, piteration_loop k op tol s = piteration_loop k op' tol s.
Proof.
  intros H. induction k as [|k IH]; intros s; [reflexivity|].
  cbn [piteration_loop]. unfold piteration_step. rewrite H.
  destruct (Qltb _ tol); [reflexivity|apply IH].
Qed.

(** get_pagerank, solver = 'piteration'. *)
Theorem piteration_den (alpha : Q) (y : list Q) (n_iter : nat) (tol : Q) :
  piteration g alpha y n_iter tol = piteration g' alpha y n_iter tol.
Proof. unfold piteration. apply piteration_loop_ext. intros x. apply surfer_matvec_den. Qed.

Lemma fold_left_ext {A B} (f h : A -> B -> A) : (forall a b, f a b = h a b) ->
  forall l a, fold_left f l a = fold_left h l a.
Proof. intros H. induction l as [|b l IH]; intros a; simpl; [reflexivity|]. rewrite H. apply IH. Qed.

(** get_pagerank, solver = 'RH' (Polynome / Ruffini-Horner). *)
Theorem rh_den (alpha : Q) (y : list Q) (n_iter : nat) :
  rh g alpha y n_iter = rh g' alpha y n_iter.
Proof.
  unfold rh, horner. destruct (rev (repeat 1%Q (S n_iter))) as [|c rest]; [reflexivity|].
  apply fold_left_ext. intros a b. f_equal. unfold mvl. rewrite <- HL at 1. apply tab_ext.
  intros j _. rewrite mv_Ma_den. rewrite <- HL. reflexivity.
Qed.

End Den.
End EqDenPR.

(* ==================================================================================================== *)
Module EqA.
Import PageRank PageRankProofs Centrality CentralityProofs BrandesProofs.
Close Scope Q_scope.
Open Scope nat_scope.

(** Renumbering of the column index of a stored entry (the function [perm_bip] maps over a row). *)
Definition relab (p : list nat) : nat * Q -> nat * Q := fun e => (nthn p (fst e), snd e).

(* ---------------------------------------------------------------------------------------------- *)
(** * Sums *)

Lemma sumq_app (a b : list Q) : (sumq (a ++ b) == sumq a + sumq b)%Q.
Proof. unfold sumq. induction a as [|x a IH]; cbn [app fold_right]; [ring|]. rewrite IH. ring. Qed.

Lemma bsum_sumq (n : nat) (f : nat -> Q) : (bsum n f == sumq (map f (seq 0 n)))%Q.
Proof.
  induction n as [|n IH]; [reflexivity|].
  rewrite seq_S, map_app, sumq_app. cbn [bsum Nat.add map sumq fold_right]. rewrite IH. ring.
Qed.

Lemma wf_row_In (n : nat) (r : wrow) (e : nat * Q) : wf_row n r = true -> In e r -> fst e < n.
Proof. intros H He. unfold wf_row in H. rewrite forallb_forall in H. apply Nat.ltb_lt. exact (H e He). Qed.

Lemma wf_graph_row (g : wgraph) (i : nat) : wf_graph g = true -> wf_row (length g) (wrow_of g i) = true.
Proof. intros H. unfold wrow_of. apply (forallb_nth (wf_row (length g))); [exact H|reflexivity]. Qed.

Lemma nonneg_graph_row (g : wgraph) (i : nat) : nonneg_graph g = true -> nonneg_row (wrow_of g i) = true.
Proof. intros H. unfold wrow_of. apply (forallb_nth nonneg_row); [exact H|reflexivity]. Qed.

Lemma wf_row_normalize (n : nat) (r : wrow) : wf_row n r = true -> wf_row n (normalize_row r) = true.
Proof.
  intros H. unfold normalize_row. destruct (Qeq_bool _ _); [reflexivity|].
  rewrite (wf_row_map n (fun w => Qred (w / Qred (row_norm r))%Q)). exact H.
Qed.

Lemma normalize_length (g : wgraph) : length (normalize g) = length g.
Proof. apply map_length. Qed.

Lemma wf_graph_normalize_row (g : wgraph) (i : nat) :
  wf_graph g = true -> wf_row (length g) (wrow_of (normalize g) i) = true.
Proof. intros H. rewrite wrow_of_normalize. apply wf_row_normalize. apply wf_graph_row. exact H. Qed.

Lemma is_solution_ext (n : nat) (M : mat) (alpha : Q) (y y' x : vec) :
  (forall j, j < n -> (y j == y' j)%Q) -> is_solution n M alpha y x -> is_solution n M alpha y' x.
Proof. intros Hy H j Hj. rewrite <- (Hy j Hj). exact (H j Hj). Qed.

Lemma is_pagerank_ext (n : nat) (M : mat) (alpha : Q) (y y' x x' : vec) :
  (forall j, j < n -> (y j == y' j)%Q) -> (forall j, j < n -> (x j == x' j)%Q) ->
  is_pagerank n M alpha y x -> is_pagerank n M alpha y' x'.
Proof.
  intros Hy Hx (z & Hz & Hs & Hp). exists z. split; [exact (is_solution_ext n M alpha y y' z Hy Hz)|].
  split; [exact Hs|]. intros j Hj. rewrite <- (Hx j Hj). exact (Hp j Hj).
Qed.

Lemma existsb_Permutation {A} (f : A -> bool) (u v : list A) : Permutation u v -> existsb f u = existsb f v.
Proof.
  intros H; induction H as [|x l l' H IH|x y l|l l' l'' H1 IH1 H2 IH2]; cbn [existsb].
  - reflexivity.
  - rewrite IH. reflexivity.
  - destruct (f x), (f y); reflexivity.
  - rewrite IH1. exact IH2.
Qed.

Lemma sumz_Permutation (u v : list Z) : Permutation u v -> sumz u = sumz v.
Proof.
  intros H; induction H as [|x l l' H IH|x y l|l l' l'' H1 IH1 H2 IH2]; cbn [sumz fold_right].
  - reflexivity.
  - fold (sumz l). fold (sumz l'). rewrite IH. reflexivity.
  - fold (sumz l). lia.
  - rewrite IH1. exact IH2.
Qed.

(** Executable admissibility test for a renumbering (used by the examples and the harness). *)
Definition is_perm (p : list nat) (n : nat) : bool :=
  Nat.eqb (length p) n && forallb (fun k => memn k p) (seq 0 n).

Lemma is_perm_sound (p : list nat) (n : nat) : is_perm p n = true -> Permutation p (seq 0 n).
Proof.
  intros H. unfold is_perm in H. apply andb_prop in H. destruct H as [HL Hin]. apply Nat.eqb_eq in HL.
  apply Permutation_sym. apply NoDup_Permutation_bis.
  - apply seq_NoDup.
  - rewrite seq_length, HL. apply le_n.
  - intros k Hk. rewrite forallb_forall in Hin. apply memn_In. exact (Hin k Hk).
Qed.

(** ** Lists of [Qred] normal forms: pointwise [==] is Leibniz equality *)
Definition qreduced (x : Q) : Prop := Qred x = x.

Lemma Qred_reduced (x : Q) : qreduced (Qred x).
Proof. unfold qreduced. apply Qred_complete. apply Qred_correct. Qed.

Lemma qreduced_0 : qreduced 0%Q.
Proof. reflexivity. Qed.

Lemma reduced_eq (a b : list Q) :
  Forall qreduced a -> Forall qreduced b -> length a = length b ->
  (forall k, k < length a -> (V a k == V b k)%Q) -> a = b.
Proof.
  intros Ha Hb HL H. apply nth_ext with (d := 0%Q) (d' := 0%Q); [exact HL|]. intros k Hk.
  rewrite Forall_forall in Ha, Hb.
  rewrite <- (Ha (nth k a 0%Q) (nth_In a 0%Q Hk)).
  rewrite <- (Hb (nth k b 0%Q) (nth_In b 0%Q ltac:(rewrite <- HL; exact Hk))).
  apply Qred_complete. exact (H k Hk).
Qed.

Lemma upd_reduced (l : list Q) (j : nat) (v : Q) : Forall qreduced l -> qreduced v -> Forall qreduced (upd l j v).
Proof.
  intros Hl Hv. revert j. induction Hl as [|x l Hx Hl IH]; intros j; [destruct j; constructor|].
  destruct j as [|j]; cbn [upd]; constructor; auto.
Qed.

Lemma back_step_reduced (s : nat) (sigma : list Z) (preds : list (list nat)) (acc : list Q * list Q) (j : nat) :
  Forall qreduced (snd acc) -> Forall qreduced (snd (back_step s sigma preds acc j)).
Proof.
  destruct acc as [delta scores]. cbn [snd back_step]. intros H.
  destruct (Nat.eqb j s); [exact H|]. apply upd_reduced; [exact H|apply Qred_reduced].
Qed.

Lemma brandes_source_reduced (q : graph) (scores : list Q) (s : nat) :
  Forall qreduced scores -> Forall qreduced (brandes_source q scores s).
Proof.
  intros H. rewrite brandes_source_eq.
  generalize (repeat 0%Q (length q), scores) (H : Forall qreduced (snd (repeat 0%Q (length q), scores))).
  generalize (snd (brandes_forward q s)).
  intros seen. induction seen as [|j seen IH]; intros acc Hacc; cbn [fold_left]; [exact Hacc|].
  apply IH. apply back_step_reduced. exact Hacc.
Qed.

Lemma betweenness_reduced (g : wgraph) : Forall qreduced (betweenness g).
Proof.
  unfold betweenness. cbv zeta.
  assert (H : Forall qreduced (fold_left (brandes_source (pattern g)) (seq 0 (length (pattern g)))
                                         (repeat 0%Q (length (pattern g))))).
  { generalize (seq 0 (length (pattern g))). intros l.
    assert (H0 : Forall qreduced (repeat 0%Q (length (pattern g)))).
    { apply Forall_forall. intros x Hx. apply repeat_spec in Hx. subst x. exact qreduced_0. }
    revert H0. generalize (repeat 0%Q (length (pattern g))).
    induction l as [|s l IH]; intros sc Hsc; cbn [fold_left]; [exact Hsc|].
    apply IH. apply brandes_source_reduced. exact Hsc. }
  destruct (is_symmetric g); [|exact H].
  apply Forall_forall. intros x Hx. apply in_map_iff in Hx. destruct Hx as [y [<- _]]. apply Qred_reduced.
Qed.

(* ---------------------------------------------------------------------------------------------- *)
Section EqPerm.
Context (n : nat) (p : list nat) (Hp : Permutation p (seq 0 n)).

Local Notation idx := (fun k => index_of k p).

Lemma index_of_inj (k k' : nat) : k < n -> k' < n -> index_of k p = index_of k' p -> k = k'.
Proof.
  intros Hk Hk' E. rewrite <- (perm_index_nth n p Hp k Hk), <- (perm_index_nth n p Hp k' Hk'). rewrite E. reflexivity.
Qed.

Lemma map_nthn_seq : map (nthn p) (seq 0 n) = p.
Proof.
  apply nth_ext with (d := 0) (d' := 0).
  - rewrite map_length, seq_length. symmetry. exact (perm_length n p Hp).
  - intros i Hi. rewrite map_length, seq_length in Hi. rewrite nth_map_seq by exact Hi. reflexivity.
Qed.

(** ** Reindexing a finite sum by a permutation *)
Lemma bsum_reindex (f : nat -> Q) : (bsum n f == bsum n (fun i => f (nthn p i)))%Q.
Proof.
  rewrite !bsum_sumq. rewrite <- (map_map (nthn p) f). rewrite map_nthn_seq.
  apply sumq_Permutation. apply Permutation_map. apply Permutation_sym. exact Hp.
Qed.

Lemma bsum_reindex_inv (f : nat -> Q) : (bsum n f == bsum n (fun k => f (index_of k p)))%Q.
Proof.
  rewrite (bsum_reindex (fun k => f (index_of k p))). apply bsum_ext. intros i Hi.
  rewrite (perm_index_of n p Hp i Hi). reflexivity.
Qed.

(** ** Rows of the renumbered graph *)
Lemma perm_wrows_length (g : wgraph) : length (perm_wrows p g) = n.
Proof. unfold perm_wrows, perm_bip. rewrite map_length, seq_length. exact (perm_length n p Hp). Qed.

Lemma wrow_of_perm (g : wgraph) (i : nat) :
  i < n -> wrow_of (perm_wrows p g) (nthn p i) = map (relab p) (wrow_of g i).
Proof. intros Hi. exact (perm_bip_row n p p g i Hp Hi). Qed.

Lemma wrow_of_perm_inv (g : wgraph) (k : nat) :
  k < n -> wrow_of (perm_wrows p g) k = map (relab p) (wrow_of g (index_of k p)).
Proof.
  intros Hk. unfold wrow_of, perm_wrows, perm_bip. rewrite (perm_length n p Hp).
  rewrite nth_map_seq by exact Hk. reflexivity.
Qed.

Lemma wf_row_relab (r : wrow) : wf_row n r = true -> wf_row n (map (relab p) r) = true.
Proof.
  intros H. unfold wf_row. apply forallb_forall. intros e He. apply in_map_iff in He.
  destruct He as [e0 [<- He0]]. apply Nat.ltb_lt. cbn [relab fst]. apply (perm_lt n p Hp).
  exact (wf_row_In n r e0 H He0).
Qed.

Lemma nonneg_row_relab (r : wrow) : nonneg_row (map (relab p) r) = nonneg_row r.
Proof. unfold nonneg_row. induction r as [|e r IH]; [reflexivity|]. cbn [map forallb relab snd]. rewrite IH. reflexivity. Qed.

(** The entry function of a renumbered row (Leibniz: the same stored values are added in the same order). *)
Lemma entry_relab (r : wrow) (j : nat) :
  wf_row n r = true -> j < n -> entry (map (relab p) r) (nthn p j) = entry r j.
Proof.
  intros Hwf Hj. unfold entry. f_equal.
  induction r as [|e r IH]; [reflexivity|].
  cbn [wf_row forallb] in Hwf. apply andb_prop in Hwf. destruct Hwf as [He Hr]. apply Nat.ltb_lt in He.
  cbn [map filter relab fst].
  destruct (Nat.eqb_spec (nthn p (fst e)) (nthn p j)) as [E|Ne]; destruct (Nat.eqb_spec (fst e) j) as [E'|Ne'].
  - cbn [map snd]. f_equal. exact (IH Hr).
  - exfalso. apply Ne'. exact (perm_inj n p Hp _ _ He Hj E).
  - exfalso. apply Ne. rewrite E'. reflexivity.
  - exact (IH Hr).
Qed.

Lemma normalize_row_relab (r : wrow) : normalize_row (map (relab p) r) = map (relab p) (normalize_row r).
Proof.
  unfold normalize_row.
  assert (E : row_norm (map (relab p) r) = row_norm r) by (unfold row_norm; rewrite map_map; reflexivity).
  rewrite E. destruct (Qeq_bool (Qred (row_norm r)) 0); [reflexivity|].
  rewrite !map_map. apply map_ext. intros e. reflexivity.
Qed.

(** Row normalisation commutes with the renumbering (no hypothesis). *)
Lemma normalize_perm (g : wgraph) : normalize (perm_wrows p g) = perm_wrows p (normalize g).
Proof.
  unfold normalize, perm_wrows, perm_bip. rewrite map_map. apply map_ext. intros k.
  change (fun e : nat * Q => (nthn p (fst e), snd e)) with (relab p).
  rewrite normalize_row_relab. f_equal. exact (eq_sym (wrow_of_normalize g (index_of k p))).
Qed.

Lemma Pn_perm (pr : wgraph) (i j : nat) :
  (forall u, wf_row n (wrow_of pr u) = true) -> i < n -> j < n ->
  Pn (perm_wrows p pr) (nthn p i) (nthn p j) = Pn pr i j.
Proof. intros Hwf Hi Hj. unfold Pn. rewrite wrow_of_perm by exact Hi. apply entry_relab; [apply Hwf|exact Hj]. Qed.

(** A1.1  The transition matrix of the renumbered graph is the renumbered transition matrix. *)
Theorem P_perm (g : wgraph) (i j : nat) :
  length g = n -> wf_graph g = true -> i < n -> j < n ->
  P (perm_wrows p g) (nthn p i) (nthn p j) = P g i j.
Proof.
  intros HL Hwf Hi Hj. unfold P. rewrite normalize_perm. apply Pn_perm; try assumption.
  intros u. rewrite <- HL. apply wf_graph_normalize_row. exact Hwf.
Qed.

Theorem has_out_perm (g : wgraph) (i : nat) : i < n -> has_out (perm_wrows p g) (nthn p i) = has_out g i.
Proof.
  intros Hi. unfold has_out. rewrite wrow_of_perm by exact Hi. rewrite map_map.
  change (map (fun x : nat * Q => snd (relab p x)) (wrow_of g i)) with (map snd (wrow_of g i)). reflexivity.
Qed.

Lemma restart_perm (g : wgraph) (alpha : Q) (i : nat) :
  i < n -> restart (perm_wrows p g) alpha (nthn p i) = restart g alpha i.
Proof. intros Hi. unfold restart. rewrite has_out_perm by exact Hi. reflexivity. Qed.

(** A1.3  Well-formedness is preserved. *)
Theorem wf_graph_perm (g : wgraph) : length g = n -> wf_graph g = true -> wf_graph (perm_wrows p g) = true.
Proof.
  intros HL Hwf. unfold wf_graph. rewrite perm_wrows_length. apply forallb_forall. intros r Hr.
  unfold perm_wrows, perm_bip in Hr. apply in_map_iff in Hr. destruct Hr as [k [<- _]].
  apply (wf_row_relab (wrow_of g (index_of k p))). rewrite <- HL. apply wf_graph_row. exact Hwf.
Qed.

Theorem nonneg_graph_perm (g : wgraph) : nonneg_graph g = true -> nonneg_graph (perm_wrows p g) = true.
Proof.
  intros Hnn. unfold nonneg_graph. apply forallb_forall. intros r Hr.
  unfold perm_wrows, perm_bip in Hr. apply in_map_iff in Hr. destruct Hr as [k [<- _]].
  change (nonneg_row (map (relab p) (wrow_of g (index_of k p))) = true).
  rewrite (nonneg_row_relab (wrow_of g (index_of k p))). apply nonneg_graph_row. exact Hnn.
Qed.

Theorem good_graph_perm (g : wgraph) : length g = n -> good_graph g -> good_graph (perm_wrows p g).
Proof. intros HL [H1 H2]. split; [apply wf_graph_perm; assumption|apply nonneg_graph_perm; assumption]. Qed.

(** ** Matrices as entry functions: M' = P M P^T *)
Definition mat_equiv (M M' : mat) : Prop :=
  forall i j, i < n -> j < n -> (M' (nthn p i) (nthn p j) == M i j)%Q.

Lemma mv_perm (M M' : mat) (x x' : vec) (k : nat) :
  mat_equiv M M' -> (forall k, k < n -> (x' k == x (index_of k p))%Q) -> k < n ->
  (mv n M' x' k == mv n M x (index_of k p))%Q.
Proof.
  intros HM Hx Hk. unfold mv. rewrite (bsum_reindex (fun j => (M' k j * x' j)%Q)).
  apply bsum_ext. intros j Hj.
  pose proof (HM (index_of k p) j (perm_index_lt n p Hp k Hk) Hj) as E.
  rewrite (perm_index_nth n p Hp k Hk) in E. rewrite E.
  rewrite (Hx (nthn p j) (perm_lt n p Hp j Hj)). rewrite (perm_index_of n p Hp j Hj). reflexivity.
Qed.

Lemma PT_equiv (g : wgraph) (alpha : Q) :
  length g = n -> wf_graph g = true -> mat_equiv (PT alpha (P g)) (PT alpha (P (perm_wrows p g))).
Proof. intros HL Hwf i j Hi Hj. unfold PT. rewrite P_perm by assumption. reflexivity. Qed.

Lemma Ma_equiv (g : wgraph) (alpha : Q) :
  length g = n -> wf_graph g = true ->
  mat_equiv (Ma (normalize g) alpha) (Ma (normalize (perm_wrows p g)) alpha).
Proof. exact (PT_equiv g alpha). Qed.

(** A1.4  The PageRank equation and the PageRank vector of the renumbered graph. *)
Theorem is_solution_perm (g : wgraph) (alpha : Q) (y x : vec) :
  length g = n -> wf_graph g = true ->
  is_solution n (P g) alpha y x ->
  is_solution n (P (perm_wrows p g)) alpha (fun k => y (index_of k p)) (fun k => x (index_of k p)).
Proof.
  intros HL Hwf Hs k Hk. cbv beta.
  rewrite (mv_perm (PT alpha (P g)) (PT alpha (P (perm_wrows p g))) x (fun k => x (index_of k p)) k
             (PT_equiv g alpha HL Hwf) (fun k _ => Qeq_refl _) Hk).
  apply Hs. exact (perm_index_lt n p Hp k Hk).
Qed.

Lemma vsum_perm_inv (x : vec) : (vsum n (fun k => x (index_of k p)) == vsum n x)%Q.
Proof. unfold vsum. symmetry. apply bsum_reindex_inv. Qed.

Theorem is_pagerank_perm (g : wgraph) (alpha : Q) (y x : vec) :
  length g = n -> wf_graph g = true ->
  is_pagerank n (P g) alpha y x ->
  is_pagerank n (P (perm_wrows p g)) alpha (fun k => y (index_of k p)) (fun k => x (index_of k p)).
Proof.
  intros HL Hwf (z & Hz & Hs & Hx). exists (fun k => z (index_of k p)).
  split; [exact (is_solution_perm g alpha y z HL Hwf Hz)|].
  split; [rewrite vsum_perm_inv; exact Hs|]. intros k Hk. rewrite vsum_perm_inv. apply Hx. exact (perm_index_lt n p Hp k Hk).
Qed.

(** ** Lists as vectors *)
Lemma V_perm (x : list Q) (k : nat) : k < n -> V (perm_vecq p x) k = V x (index_of k p).
Proof. intros Hk. exact (perm_vec_nth_inv n p Hp 0%Q x k Hk). Qed.

Lemma V_perm_nth (x : list Q) (i : nat) : i < n -> V (perm_vecq p x) (nthn p i) = V x i.
Proof. intros Hi. exact (FormatProofs.perm_vec_nth n p Hp 0%Q x i Hi). Qed.

Lemma perm_vecq_length (x : list Q) : length (perm_vecq p x) = n.
Proof. exact (FormatProofs.perm_vec_length n p Hp 0%Q x). Qed.

Theorem is_pagerank_perm_list (g : wgraph) (alpha : Q) (y x : list Q) :
  length g = n -> wf_graph g = true ->
  is_pagerank n (P g) alpha (V y) (V x) ->
  is_pagerank n (P (perm_wrows p g)) alpha (V (perm_vecq p y)) (V (perm_vecq p x)).
Proof.
  intros HL Hwf H. apply (is_pagerank_ext n _ alpha (fun k => V y (index_of k p)) _ (fun k => V x (index_of k p))).
  - intros k Hk. rewrite V_perm by exact Hk. reflexivity.
  - intros k Hk. rewrite V_perm by exact Hk. reflexivity.
  - exact (is_pagerank_perm g alpha (V y) (V x) HL Hwf H).
Qed.

(** A1.5  Equivariance of the PageRank vector: the PageRank vector of the renumbered problem is the
    renumbered PageRank vector (uniqueness + the previous theorem). *)
Theorem pagerank_equivariant (g : wgraph) (alpha : Q) (y y' x x' : vec) :
  length g = n -> good_graph g -> (0 <= alpha < 1)%Q ->
  (forall j, j < n -> (y' (nthn p j) == y j)%Q) ->
  is_pagerank n (P g) alpha y x ->
  is_pagerank n (P (perm_wrows p g)) alpha y' x' ->
  forall j, j < n -> (x' (nthn p j) == x j)%Q.
Proof.
  intros HL Hg Ha Hy Hx Hx' j Hj.
  pose proof (is_pagerank_perm g alpha y x HL (proj1 Hg) Hx) as H1.
  assert (H2 : is_pagerank n (P (perm_wrows p g)) alpha y' (fun k => x (index_of k p))).
  { apply (is_pagerank_ext n _ alpha (fun k => y (index_of k p)) y' (fun k => x (index_of k p)) (fun k => x (index_of k p)));
      [| |exact H1].
    - intros k Hk. rewrite <- (perm_index_nth n p Hp k Hk) at 2.
      symmetry. apply Hy. exact (perm_index_lt n p Hp k Hk).
    - intros k Hk. reflexivity. }
  pose proof (good_graph_perm g HL Hg) as Hg'.
  rewrite <- (perm_wrows_length g) in Hx', H2.
  pose proof (pagerank_unique (perm_wrows p g) alpha y' x' _ Hg' Ha Hx' H2 (nthn p j)) as E.
  rewrite perm_wrows_length in E. rewrite (E (perm_lt n p Hp j Hj)).
  rewrite (perm_index_of n p Hp j Hj). reflexivity.
Qed.

(** The same for the solutions of the PageRank equation (before the division by the sum). *)
Theorem solution_equivariant (g : wgraph) (alpha : Q) (y y' x x' : vec) :
  length g = n -> good_graph g -> (0 <= alpha < 1)%Q ->
  (forall j, j < n -> (y' (nthn p j) == y j)%Q) ->
  is_solution n (P g) alpha y x ->
  is_solution n (P (perm_wrows p g)) alpha y' x' ->
  forall j, j < n -> (x' (nthn p j) == x j)%Q.
Proof.
  intros HL Hg Ha Hy Hx Hx' j Hj.
  pose proof (is_solution_perm g alpha y x HL (proj1 Hg) Hx) as H1.
  assert (H2 : is_solution n (P (perm_wrows p g)) alpha y' (fun k => x (index_of k p))).
  { apply (is_solution_ext n _ alpha (fun k => y (index_of k p)) y' _); [|exact H1].
    intros k Hk. rewrite <- (perm_index_nth n p Hp k Hk) at 2.
    symmetry. apply Hy. exact (perm_index_lt n p Hp k Hk). }
  pose proof (good_graph_perm g HL Hg) as Hg'.
  rewrite <- (perm_wrows_length g) in Hx', H2.
  pose proof (solution_unique (perm_wrows p g) alpha y' x' _ Hg' Ha Hx' H2 (nthn p j)) as E.
  rewrite perm_wrows_length in E. rewrite (E (perm_lt n p Hp j Hj)).
  rewrite (perm_index_of n p Hp j Hj). reflexivity.
Qed.

(* ---------------------------------------------------------------------------------------------- *)
(** * The coded operators commute with the renumbering (Leibniz equality) *)

Lemma tab_perm (F F' : vec) :
  (forall k, k < n -> (F' k == F (index_of k p))%Q) -> tab n F' = perm_vecq p (tab n F).
Proof.
  intros H. unfold perm_vecq, perm_vec, tab. rewrite (perm_length n p Hp).
  apply map_ext_in. intros k Hk. apply in_seq in Hk.
  assert (Hk' : k < n) by lia.
  rewrite (nth_map_seq (fun i => Qred (F i)) n (index_of k p) 0%Q (perm_index_lt n p Hp k Hk')).
  apply Qred_complete. exact (H k Hk').
Qed.

Lemma repeat_perm (c : Q) : perm_vecq p (repeat c n) = repeat c n.
Proof.
  apply nth_ext with (d := 0%Q) (d' := 0%Q).
  - rewrite perm_vecq_length, repeat_length. reflexivity.
  - intros k Hk. rewrite perm_vecq_length in Hk.
    unfold perm_vecq. rewrite (perm_vec_nth_inv n p Hp 0%Q _ k Hk).
    fold (nthq (repeat c n) (index_of k p)). fold (nthq (repeat c n) k).
    rewrite !nthq_repeat; [reflexivity|exact Hk|exact (perm_index_lt n p Hp k Hk)].
Qed.

Lemma bsum_V_perm (f : Q -> Q) (a : list Q) :
  (bsum n (fun i => f (V (perm_vecq p a) i)) == bsum n (fun i => f (V a i)))%Q.
Proof.
  rewrite (bsum_reindex_inv (fun i => f (V a i))). apply bsum_ext. intros k Hk.
  rewrite V_perm by exact Hk. reflexivity.
Qed.

Lemma lsum_perm (a : list Q) : length a = n -> lsum (perm_vecq p a) = lsum a.
Proof.
  intros Ha. unfold lsum. rewrite perm_vecq_length, Ha. apply Qred_complete.
  exact (bsum_V_perm (fun q => q) a).
Qed.

Lemma lnorm1_perm (a : list Q) : length a = n -> lnorm1 (perm_vecq p a) = lnorm1 a.
Proof.
  intros Ha. unfold lnorm1, norm1. rewrite perm_vecq_length, Ha. apply Qred_complete.
  exact (bsum_V_perm Qabs a).
Qed.

Lemma vnormalize_length (a : list Q) : length (vnormalize a) = length a.
Proof. unfold vnormalize. apply map_length. Qed.

Lemma vnormalize_perm (a : list Q) : length a = n -> vnormalize (perm_vecq p a) = perm_vecq p (vnormalize a).
Proof.
  intros Ha. unfold vnormalize. rewrite lsum_perm by exact Ha. cbv zeta.
  exact (map_perm n p (fun x => Qred (x / lsum a)%Q) 0%Q 0%Q a Hp Ha).
Qed.

Lemma vscale_perm (c : Q) (a : list Q) : length a = n -> vscale c (perm_vecq p a) = perm_vecq p (vscale c a).
Proof. intros Ha. exact (map_perm n p (fun x => Qred (c * x)%Q) 0%Q 0%Q a Hp Ha). Qed.

Lemma vadd_perm (a b : list Q) :
  length a = n -> length b = n -> vadd (perm_vecq p a) (perm_vecq p b) = perm_vecq p (vadd a b).
Proof. intros Ha Hb. exact (map2_perm n p (fun x y => Qred (x + y)%Q) 0%Q 0%Q 0%Q a b Hp Ha Hb). Qed.

Lemma vsub_perm (a b : list Q) :
  length a = n -> length b = n -> vsub (perm_vecq p a) (perm_vecq p b) = perm_vecq p (vsub a b).
Proof. intros Ha Hb. exact (map2_perm n p (fun x y => Qred (x - y)%Q) 0%Q 0%Q 0%Q a b Hp Ha Hb). Qed.

Lemma vadd_length (a b : list Q) : length a = n -> length b = n -> length (vadd a b) = n.
Proof. intros Ha Hb. unfold vadd. rewrite map2_length, Ha, Hb. apply Nat.min_id. Qed.

(** Dense product through an entry function. *)
Lemma mvl_perm (M M' : mat) (x : list Q) :
  mat_equiv M M' -> mvl n M' (perm_vecq p x) = perm_vecq p (mvl n M x).
Proof.
  intros HM. unfold mvl. apply tab_perm. intros k Hk.
  apply (mv_perm M M' (V x) (V (perm_vecq p x)) k HM); [|exact Hk].
  intros k' Hk'. rewrite V_perm by exact Hk'. reflexivity.
Qed.

(** A1.6  RandomSurferOperator._matvec commutes with the renumbering. *)
Theorem surfer_matvec_perm (g : wgraph) (alpha : Q) (y x : list Q) :
  length g = n -> wf_graph g = true ->
  surfer_matvec (perm_wrows p g) alpha (perm_vecq p y) (perm_vecq p x) =
  perm_vecq p (surfer_matvec g alpha y x).
Proof.
  intros HL Hwf. unfold surfer_matvec. rewrite perm_wrows_length, HL. cbv zeta.
  apply tab_perm. intros k Hk.
  rewrite !Qred_correct.
  rewrite (mv_perm (Ma (normalize g) alpha) (Ma (normalize (perm_wrows p g)) alpha) (V x) (V (perm_vecq p x)) k
             (Ma_equiv g alpha HL Hwf)); [| |exact Hk].
  2:{ intros k' Hk'. rewrite V_perm by exact Hk'. reflexivity. }
  rewrite (V_perm y k Hk).
  assert (E : (bsum n (fun i => restart (perm_wrows p g) alpha i * V (perm_vecq p x) i) ==
               bsum n (fun i => restart g alpha i * V x i))%Q).
  { rewrite (bsum_reindex (fun i => (restart (perm_wrows p g) alpha i * V (perm_vecq p x) i)%Q)).
    apply bsum_ext. intros i Hi. rewrite restart_perm by exact Hi. rewrite V_perm_nth by exact Hi. reflexivity. }
  rewrite E. reflexivity.
Qed.

(** One power-iteration step, and the whole loop with its early exit, for any pair of operators that
    commute with the renumbering. *)
Lemma piteration_step_perm (op op' : list Q -> list Q) (x : list Q) :
  (forall x, length x = n -> op' (perm_vecq p x) = perm_vecq p (op x)) ->
  (forall x, length (op x) = n) -> length x = n ->
  piteration_step op' (perm_vecq p x) = perm_vecq p (piteration_step op x).
Proof.
  intros Hop Hlen Hx. unfold piteration_step. rewrite (Hop x Hx). apply vnormalize_perm. apply Hlen.
Qed.

Lemma piteration_loop_perm (op op' : list Q -> list Q) (tol : Q) :
  (forall x, length x = n -> op' (perm_vecq p x) = perm_vecq p (op x)) ->
  (forall x, length (op x) = n) ->
  forall k x, length x = n ->
  piteration_loop k op' tol (perm_vecq p x) = perm_vecq p (piteration_loop k op tol x).
Proof.
  intros Hop Hlen. induction k as [|k IH]; intros x Hx; cbn [piteration_loop]; [reflexivity|].
  rewrite (piteration_step_perm op op' x Hop Hlen Hx).
  assert (Hs : length (piteration_step op x) = n).
  { unfold piteration_step. rewrite vnormalize_length. apply Hlen. }
  rewrite (vsub_perm x (piteration_step op x) Hx Hs).
  rewrite lnorm1_perm by (rewrite vsub_length_same; rewrite ?Hs; assumption).
  destruct (Qltb (lnorm1 (vsub x (piteration_step op x))) tol); [reflexivity|].
  apply IH. exact Hs.
Qed.

Theorem piteration_step_surfer_perm (g : wgraph) (alpha : Q) (y x : list Q) :
  length g = n -> wf_graph g = true -> length x = n ->
  piteration_step (surfer_matvec (perm_wrows p g) alpha (perm_vecq p y)) (perm_vecq p x) =
  perm_vecq p (piteration_step (surfer_matvec g alpha y) x).
Proof.
  intros HL Hwf Hx. apply piteration_step_perm; [| |exact Hx].
  - intros z _. exact (surfer_matvec_perm g alpha y z HL Hwf).
  - intros z. rewrite surfer_matvec_length. exact HL.
Qed.

Theorem piteration_loop_surfer_perm (g : wgraph) (alpha : Q) (y : list Q) (n_iter : nat) (tol : Q) (x : list Q) :
  length g = n -> wf_graph g = true -> length x = n ->
  piteration_loop n_iter (surfer_matvec (perm_wrows p g) alpha (perm_vecq p y)) tol (perm_vecq p x) =
  perm_vecq p (piteration_loop n_iter (surfer_matvec g alpha y) tol x).
Proof.
  intros HL Hwf Hx. apply piteration_loop_perm; [| |exact Hx].
  - intros z _. exact (surfer_matvec_perm g alpha y z HL Hwf).
  - intros z. rewrite surfer_matvec_length. exact HL.
Qed.

(** A1.7  The power-iteration solver as coded, for every n_iter and tol. *)
Theorem piteration_equivariant (g : wgraph) (alpha : Q) (y : list Q) (n_iter : nat) (tol : Q) :
  length g = n -> wf_graph g = true -> length y = n ->
  piteration (perm_wrows p g) alpha (perm_vecq p y) n_iter tol = perm_vecq p (piteration g alpha y n_iter tol).
Proof. intros HL Hwf Hy. unfold piteration. exact (piteration_loop_surfer_perm g alpha y n_iter tol y HL Hwf Hy). Qed.

Lemma piteration_loop_length (op : list Q -> list Q) (tol : Q) :
  (forall x, length (op x) = n) -> forall k x, length x = n -> length (piteration_loop k op tol x) = n.
Proof.
  intros Hlen. induction k as [|k IH]; intros x Hx; cbn [piteration_loop]; [exact Hx|].
  destruct (Qltb _ _); [exact Hx|]. apply IH. unfold piteration_step. rewrite vnormalize_length. apply Hlen.
Qed.

(** ** Horner's scheme *)
Lemma horner_perm (op op' : list Q -> list Q) (coeffs x : list Q) :
  (forall x, length x = n -> op' (perm_vecq p x) = perm_vecq p (op x)) ->
  (forall x, length (op x) = n) -> coeffs <> [] -> length x = n ->
  horner op' coeffs (perm_vecq p x) = perm_vecq p (horner op coeffs x) /\ length (horner op coeffs x) = n.
Proof.
  intros Hop Hlen Hc Hx. unfold horner. destruct (rev coeffs) as [|c rest] eqn:E.
  - exfalso. apply Hc. rewrite <- (rev_involutive coeffs), E. reflexivity.
  - rewrite (vscale_perm c x Hx).
    assert (Hs : length (vscale c x) = n) by (rewrite vscale_length; exact Hx).
    generalize (vscale c x) Hs. clear E Hs. induction rest as [|a rest IH]; intros y0 Hy0; cbn [fold_left].
    + split; [reflexivity|exact Hy0].
    + rewrite (Hop y0 Hy0). rewrite (vscale_perm a x Hx).
      assert (Hax : length (vscale a x) = n) by (rewrite vscale_length; exact Hx).
      rewrite (vadd_perm (op y0) (vscale a x) (Hlen y0) Hax).
      apply IH. apply vadd_length; [apply Hlen|exact Hax].
Qed.

Lemma mvl_length (m : nat) (M : mat) (x : list Q) : length (mvl m M x) = m.
Proof. unfold mvl. apply tab_length. Qed.

(** A1.8  The RH (Ruffini-Horner) solver as coded. *)
Theorem rh_equivariant (g : wgraph) (alpha : Q) (y : list Q) (n_iter : nat) :
  length g = n -> wf_graph g = true -> length y = n ->
  rh (perm_wrows p g) alpha (perm_vecq p y) n_iter = perm_vecq p (rh g alpha y n_iter).
Proof.
  intros HL Hwf Hy. unfold rh. rewrite perm_wrows_length, HL. cbv zeta.
  apply (horner_perm (mvl n (Ma (normalize g) alpha)) (mvl n (Ma (normalize (perm_wrows p g)) alpha))).
  - intros z _. apply mvl_perm. exact (Ma_equiv g alpha HL Hwf).
  - intros z. apply mvl_length.
  - cbn [repeat]. discriminate.
  - exact Hy.
Qed.

Lemma rh_length (g : wgraph) (alpha : Q) (y : list Q) (n_iter : nat) :
  length g = n -> wf_graph g = true -> length y = n -> length (rh g alpha y n_iter) = n.
Proof.
  intros HL Hwf Hy. unfold rh. rewrite HL. cbv zeta.
  apply (horner_perm (mvl n (Ma (normalize g) alpha)) (mvl n (Ma (normalize (perm_wrows p g)) alpha))).
  - intros z _. apply mvl_perm. exact (Ma_equiv g alpha HL Hwf).
  - intros z. apply mvl_length.
  - cbn [repeat]. discriminate.
  - exact Hy.
Qed.

(** A1.9  get_pagerank (dispatch + final normalisation) for the two solvers that are plain matrix
    iterations.  (bicgstab / lanczos are oracles; diteration and push sweep the nodes in index order.) *)
Theorem get_pagerank_equivariant (g : wgraph) (y : list Q) (alpha : Q) (n_iter : nat) (tol : Q) (s : solver)
        (oracle : list Q) (order : list nat) (r : list Q) :
  length g = n -> wf_graph g = true -> length y = n -> s = Piteration \/ s = RH ->
  get_pagerank g y alpha n_iter tol s oracle order = Some r ->
  get_pagerank (perm_wrows p g) (perm_vecq p y) alpha n_iter tol s oracle order = Some (perm_vecq p r).
Proof.
  intros HL Hwf Hy [-> | ->] H; cbn [get_pagerank] in *; injection H as <-; f_equal.
  - rewrite (piteration_equivariant g alpha y n_iter tol HL Hwf Hy). apply vnormalize_perm.
    unfold piteration. apply piteration_loop_length; [|exact Hy].
    intros z. rewrite surfer_matvec_length. exact HL.
  - rewrite (rh_equivariant g alpha y n_iter HL Hwf Hy). apply vnormalize_perm.
    exact (rh_length g alpha y n_iter HL Hwf Hy).
Qed.

(** A1.10  Through exactness: two probability vectors fixed by one coded power-iteration step, on the
    graph and on the renumbered graph, correspond (piteration_fixed_point + pagerank_equivariant). *)
Theorem piteration_fixed_points_correspond (g : wgraph) (alpha : Q) (y x x' : list Q) :
  length g = n -> good_graph g -> (0 <= alpha < 1)%Q ->
  (vsum n (V y) == 1)%Q -> (vsum n (V x) == 1)%Q -> (vsum n (V x') == 1)%Q ->
  (forall j, j < n -> (V (piteration_step (surfer_matvec g alpha y) x) j == V x j)%Q) ->
  (forall j, j < n ->
     (V (piteration_step (surfer_matvec (perm_wrows p g) alpha (perm_vecq p y)) x') j == V x' j)%Q) ->
  forall j, j < n -> (V x' (nthn p j) == V x j)%Q.
Proof.
  intros HL Hg Ha Hy Hx Hx' Hfix Hfix'.
  pose proof (good_graph_perm g HL Hg) as Hg'.
  assert (Hy' : (vsum n (V (perm_vecq p y)) == 1)%Q).
  { rewrite <- Hy. exact (bsum_V_perm (fun q => q) y). }
  apply (pagerank_equivariant g alpha (V y) (V (perm_vecq p y)) (V x) (V x') HL Hg Ha).
  - intros j Hj. rewrite V_perm_nth by exact Hj. reflexivity.
  - rewrite <- HL. apply piteration_fixed_point_proof; rewrite ?HL; assumption.
  - rewrite <- (perm_wrows_length g). apply piteration_fixed_point_proof; rewrite ?perm_wrows_length; assumption.
Qed.

(* ---------------------------------------------------------------------------------------------- *)
(** * A2. Katz *)

(** The pattern (stored column indices) of the renumbered graph (no hypothesis). *)
Theorem pattern_perm (g : wgraph) : pattern (perm_wrows p g) = perm_graph p (pattern g).
Proof.
  unfold pattern, perm_wrows, perm_bip, perm_graph. rewrite map_map. apply map_ext. intros k.
  rewrite map_map. unfold row.
  change (@nil nat) with (map (@fst nat Q) []). rewrite (map_nth (map (@fst nat Q)) g [] (index_of k p)).
  rewrite map_map. reflexivity.
Qed.

Lemma row_pattern (g : wgraph) (u : nat) : row (pattern g) u = map fst (wrow_of g u).
Proof.
  unfold row, pattern, wrow_of. change (@nil nat) with (map (@fst nat Q) []). apply map_nth.
Qed.

(** Column indices < n, on patterns (BfsProofs.wf_graph) and on weighted rows (PageRank.wf_graph). *)
Lemma pattern_wf (g : wgraph) : wf_graph g = true -> BfsProofs.wf_graph (pattern g).
Proof.
  intros Hwf u v Hin. rewrite pattern_length. rewrite row_pattern in Hin.
  apply in_map_iff in Hin. destruct Hin as [e [<- He]].
  exact (wf_row_In (length g) _ e (wf_graph_row g u Hwf) He).
Qed.

Lemma memn_map_perm (r : list nat) (j : nat) :
  (forall v, In v r -> v < n) -> j < n -> memn (nthn p j) (map (nthn p) r) = memn j r.
Proof.
  intros Hr Hj. destruct (memn j r) eqn:E.
  - apply memn_In. apply in_map. apply memn_In. exact E.
  - destruct (memn (nthn p j) (map (nthn p) r)) eqn:E'; [|reflexivity].
    apply memn_In in E'. apply in_map_iff in E'. destruct E' as [v [Ev Hv]].
    apply (perm_inj n p Hp v j (Hr v Hv) Hj) in Ev. subst v.
    apply memn_In in Hv. rewrite Hv in E. discriminate.
Qed.

Lemma BT_equiv (q : graph) :
  length q = n -> BfsProofs.wf_graph q -> mat_equiv (BT q) (BT (perm_graph p q)).
Proof.
  intros HL Hwf j i Hj Hi. unfold BT. rewrite (perm_graph_row n p Hp q i Hi).
  rewrite memn_map_perm; [reflexivity| |exact Hj].
  intros v Hv. rewrite <- HL. exact (Hwf i v Hv).
Qed.

Lemma A01_equiv (q : graph) :
  length q = n -> BfsProofs.wf_graph q -> mat_equiv (A01 q) (A01 (perm_graph p q)).
Proof. intros HL Hwf i j Hi Hj. exact (BT_equiv q HL Hwf j i Hj Hi). Qed.

(** Specification: numbers of walks and the Katz series. *)
Theorem walks_to_perm (q : graph) (k j : nat) :
  length q = n -> BfsProofs.wf_graph q -> j < n ->
  (walks_to (perm_graph p q) k (nthn p j) == walks_to q k j)%Q.
Proof.
  intros HL Hwf. revert j. induction k as [|k IH]; intros j Hj; cbn [walks_to]; [reflexivity|].
  rewrite (perm_graph_length n p Hp), HL.
  rewrite (mv_perm (BT q) (BT (perm_graph p q)) (walks_to q k) (walks_to (perm_graph p q) k) (nthn p j)
             (BT_equiv q HL Hwf)); [| |exact (perm_lt n p Hp j Hj)].
  - rewrite (perm_index_of n p Hp j Hj). reflexivity.
  - intros k' Hk'. rewrite <- (perm_index_nth n p Hp k' Hk') at 1. apply IH. exact (perm_index_lt n p Hp k' Hk').
Qed.

Theorem katz_spec_perm (q : graph) (alpha : Q) (K j : nat) :
  length q = n -> BfsProofs.wf_graph q -> j < n ->
  (katz_spec (perm_graph p q) alpha K (nthn p j) == katz_spec q alpha K j)%Q.
Proof.
  intros HL Hwf Hj. unfold katz_spec. apply bsum_ext. intros k _.
  rewrite (walks_to_perm q (S k) j HL Hwf Hj). reflexivity.
Qed.

(** The coded Katz (Horner loop on the 0/1 pattern), Leibniz equality. *)
Theorem katz_equivariant (g : wgraph) (alpha : Q) (K : nat) :
  length g = n -> wf_graph g = true ->
  katz (perm_wrows p g) alpha K = perm_vecq p (katz g alpha K).
Proof.
  intros HL Hwf. unfold katz. rewrite perm_wrows_length, HL. cbv zeta.
  rewrite <- (repeat_perm 1%Q) at 1. rewrite pattern_perm.
  apply (horner_perm (mvl n (BT (pattern g))) (mvl n (BT (perm_graph p (pattern g))))).
  - intros z _. apply mvl_perm. apply BT_equiv; [rewrite pattern_length; exact HL|apply pattern_wf; exact Hwf].
  - intros z. apply mvl_length.
  - rewrite katz_coefs_shape. discriminate.
  - apply repeat_length.
Qed.

(** ... and through exactness (katz_def_proof on both sides + katz_spec_perm). *)
Theorem katz_equivariant_via_spec (g : wgraph) (alpha : Q) (K j : nat) :
  length g = n -> wf_graph g = true -> j < n ->
  (V (katz (perm_wrows p g) alpha K) (nthn p j) == V (katz g alpha K) j)%Q.
Proof.
  intros HL Hwf Hj.
  destruct (katz_def_proof g alpha K) as [_ H]. destruct (katz_def_proof (perm_wrows p g) alpha K) as [_ H'].
  rewrite H' by (rewrite perm_wrows_length; exact (perm_lt n p Hp j Hj)).
  rewrite H by (rewrite HL; exact Hj). rewrite pattern_perm.
  apply katz_spec_perm; [rewrite pattern_length; exact HL|apply pattern_wf; exact Hwf|exact Hj].
Qed.

(* ---------------------------------------------------------------------------------------------- *)
(** * A3. Closeness (method = 'exact') *)

Lemma single_source_perm (k : nat) :
  k < n -> single_source n k = perm_vecb p (single_source n (index_of k p)).
Proof.
  intros Hk. unfold perm_vecb, perm_vec, single_source. rewrite (perm_length n p Hp).
  apply map_ext_in. intros k' Hk'. apply in_seq in Hk'. assert (Hk'' : k' < n) by lia.
  rewrite (nth_map_seq (Nat.eqb (index_of k p)) n (index_of k' p) false (perm_index_lt n p Hp k' Hk'')).
  destruct (Nat.eqb_spec k k') as [E|Ne]; destruct (Nat.eqb_spec (index_of k p) (index_of k' p)) as [E'|Ne'];
    try reflexivity.
  - exfalso. apply Ne'. rewrite E. reflexivity.
  - exfalso. apply Ne. exact (index_of_inj k k' Hk Hk'' E').
Qed.

Lemma closeness_of_Permutation (m : nat) (u v : list Z) :
  Permutation u v -> closeness_of m u = closeness_of m v.
Proof.
  intros H. unfold closeness_of. rewrite (existsb_Permutation _ u v H), (sumz_Permutation u v H),
    (Permutation_length H). reflexivity.
Qed.

Theorem closeness_equivariant (g : graph) :
  length g = n -> BfsProofs.wf_graph g ->
  closeness_exact (perm_graph p g) = perm_vecq p (closeness_exact g).
Proof.
  intros HL Hwf. unfold closeness_exact, dist_rows. rewrite (perm_graph_length n p Hp), HL. rewrite !map_map.
  unfold perm_vecq, perm_vec. rewrite (perm_length n p Hp). apply map_ext_in. intros k Hk.
  apply in_seq in Hk. assert (Hk' : k < n) by lia.
  pose proof (perm_index_lt n p Hp k Hk') as Hi.
  rewrite (nth_map_seq (fun s => closeness_of n match bfs g (single_source n s) with Some d => d | None => [] end)
             n (index_of k p) 0%Q Hi).
  destruct (bfs_exact g (single_source n (index_of k p))) as (dist & Hb & Ld & _).
  { rewrite single_source_length. symmetry. exact HL. }
  rewrite Hb. rewrite (single_source_perm k Hk').
  rewrite (bfs_equivariant n p g _ dist Hp HL Hwf (single_source_length n _) Hb).
  apply closeness_of_Permutation. apply (perm_vec_Permutation n p 0%Z dist Hp). rewrite Ld. exact HL.
Qed.

(** Approximate closeness (sampled sources; the sample is an oracle, renumbered with the graph). *)
Lemma nthz_perm (r : list Z) (k : nat) : k < n -> nthz (perm_vecz p r) k = nthz r (index_of k p).
Proof. intros Hk. exact (perm_vec_nth_inv n p Hp 0%Z r k Hk). Qed.

Theorem closeness_approx_equivariant (g : graph) (sources : list nat) :
  length g = n -> BfsProofs.wf_graph g -> (forall s, In s sources -> s < n) ->
  closeness_approx (perm_graph p g) (map (nthn p) sources) = perm_vecq p (closeness_approx g sources).
Proof.
  intros HL Hwf Hsrc. unfold closeness_approx. cbv zeta. rewrite (perm_graph_length n p Hp), HL.
  assert (Ed : dist_rows (perm_graph p g) (map (nthn p) sources) = map (perm_vecz p) (dist_rows g sources)).
  { unfold dist_rows. rewrite (perm_graph_length n p Hp), HL. rewrite !map_map. apply map_ext_in. intros s Hs.
    pose proof (Hsrc s Hs) as Hsn.
    destruct (bfs_exact g (single_source n s)) as (dist & Hb & Ld & _).
    { rewrite single_source_length. symmetry. exact HL. }
    rewrite Hb. rewrite (single_source_perm (nthn p s) (perm_lt n p Hp s Hsn)).
    rewrite (perm_index_of n p Hp s Hsn).
    rewrite (bfs_equivariant n p g _ dist Hp HL Hwf (single_source_length n _) Hb). reflexivity. }
  rewrite Ed. unfold perm_vecq, perm_vec. rewrite (perm_length n p Hp). apply map_ext_in. intros k Hk.
  apply in_seq in Hk. assert (Hk' : k < n) by lia.
  pose proof (perm_index_lt n p Hp k Hk') as Hi.
  rewrite (nth_map_seq (fun v => closeness_of n (column (dist_rows g sources) v)) n (index_of k p) 0%Q Hi).
  f_equal. unfold column. rewrite map_map. apply map_ext. intros r. apply nthz_perm. exact Hk'.
Qed.

(* ---------------------------------------------------------------------------------------------- *)
(** * A4. Betweenness *)

Lemma eqb_perm (i j : nat) : i < n -> j < n -> Nat.eqb (nthn p i) (nthn p j) = Nat.eqb i j.
Proof.
  intros Hi Hj. destruct (Nat.eqb_spec i j) as [->|Ne]; [apply Nat.eqb_refl|].
  apply Nat.eqb_neq. intros E. apply Ne. exact (perm_inj n p Hp i j Hi Hj E).
Qed.

(** Specification side: numbers of walks, shortest-path information, pair dependencies. *)
Lemma nw_perm (q : graph) (k s t : nat) :
  length q = n -> BfsProofs.wf_graph q -> s < n -> t < n ->
  (nw (perm_graph p q) k (nthn p s) (nthn p t) == nw q k s t)%Q.
Proof.
  intros HL Hwf Hs. revert t. induction k as [|k IH]; intros t Ht; cbn [nw].
  - rewrite eqb_perm by assumption. reflexivity.
  - rewrite (perm_graph_length n p Hp), HL.
    etransitivity; [apply bsum_reindex|]. apply bsum_ext. intros u Hu. cbv beta.
    rewrite (IH u Hu). rewrite (A01_equiv q HL Hwf u t Hu Ht). reflexivity.
Qed.

Theorem nwalks_perm (q : graph) (k s t : nat) :
  length q = n -> BfsProofs.wf_graph q -> s < n -> t < n ->
  (V (nwalks (perm_graph p q) k (nthn p s)) (nthn p t) == V (nwalks q k s) t)%Q.
Proof.
  intros HL Hwf Hs Ht.
  rewrite nwalks_nw by (rewrite (perm_graph_length n p Hp); apply (perm_lt n p Hp); exact Ht).
  rewrite nwalks_nw by (rewrite HL; exact Ht). apply nw_perm; assumption.
Qed.

Lemma Qeq_bool_0_ext (a b : Q) : (a == b)%Q -> Qeq_bool a 0 = Qeq_bool b 0.
Proof.
  intros E. destruct (Qeq_bool b 0) eqn:Eb.
  - apply Qeq_bool_iff. apply Qeq_bool_iff in Eb. rewrite E. exact Eb.
  - destruct (Qeq_bool a 0) eqn:Ea; [|reflexivity]. apply Qeq_bool_iff in Ea. apply Qeq_bool_neq in Eb.
    exfalso. apply Eb. rewrite <- E. exact Ea.
Qed.

Theorem sp_info_perm (q : graph) (s t : nat) :
  length q = n -> BfsProofs.wf_graph q -> s < n -> t < n ->
  sp_match (sp_info (perm_graph p q) (nthn p s) (nthn p t)) (sp_info q s t).
Proof.
  intros HL Hwf Hs Ht. rewrite !sp_info_unfold. rewrite (perm_graph_length n p Hp), HL.
  assert (E : filter (nzb (perm_graph p q) (nthn p s) (nthn p t)) (seq 0 n) = filter (nzb q s t) (seq 0 n)).
  { apply filter_ext. intros k. unfold nzb. f_equal. apply Qeq_bool_0_ext. apply nwalks_perm; assumption. }
  rewrite E. destruct (filter (nzb q s t) (seq 0 n)) as [|k r]; cbn [sp_match]; [exact I|].
  split; [reflexivity|apply nwalks_perm; assumption].
Qed.

Theorem pair_dependency_perm (q : graph) (s t v : nat) :
  length q = n -> BfsProofs.wf_graph q -> s < n -> t < n -> v < n ->
  (pair_dependency (perm_graph p q) (nthn p s) (nthn p t) (nthn p v) == pair_dependency q s t v)%Q.
Proof.
  intros HL Hwf Hs Ht Hv. unfold pair_dependency.
  pose proof (sp_info_perm q s t HL Hwf Hs Ht) as H1.
  pose proof (sp_info_perm q s v HL Hwf Hs Hv) as H2.
  pose proof (sp_info_perm q v t HL Hwf Hv Ht) as H3.
  destruct (sp_info (perm_graph p q) (nthn p s) (nthn p t)) as [[d x]|], (sp_info q s t) as [[d' x']|];
    cbn [sp_match] in H1; try contradiction; [|reflexivity].
  destruct (sp_info (perm_graph p q) (nthn p s) (nthn p v)) as [[d1 x1]|], (sp_info q s v) as [[d1' x1']|];
    cbn [sp_match] in H2; try contradiction; [|reflexivity].
  destruct (sp_info (perm_graph p q) (nthn p v) (nthn p t)) as [[d2 x2]|], (sp_info q v t) as [[d2' x2']|];
    cbn [sp_match] in H3; try contradiction; [|reflexivity].
  destruct H1 as [<- E1]. destruct H2 as [<- E2]. destruct H3 as [<- E3].
  destruct (Nat.eqb (d1 + d2) d); [|reflexivity]. rewrite E1, E2, E3. reflexivity.
Qed.

Theorem betweenness_ordered_perm (q : graph) (v : nat) :
  length q = n -> BfsProofs.wf_graph q -> v < n ->
  betweenness_ordered (perm_graph p q) (nthn p v) = betweenness_ordered q v.
Proof.
  intros HL Hwf Hv. unfold betweenness_ordered. rewrite (perm_graph_length n p Hp), HL. cbv zeta.
  apply Qred_complete.
  etransitivity; [apply bsum_reindex|]. apply bsum_ext. intros s Hs. cbv beta.
  etransitivity; [apply bsum_reindex|]. apply bsum_ext. intros t Ht. cbv beta.
  rewrite !eqb_perm by assumption.
  destruct (Nat.eqb s v || Nat.eqb t v || Nat.eqb s t); [reflexivity|].
  apply pair_dependency_perm; assumption.
Qed.

(** [is_symmetric] (weights included) is invariant. *)
Lemma forallb_Permutation {A} (f : A -> bool) (u v : list A) : Permutation u v -> forallb f u = forallb f v.
Proof.
  intros H; induction H as [|x l l' H IH|x y l|l l' l'' H1 IH1 H2 IH2]; cbn [forallb].
  - reflexivity.
  - rewrite IH. reflexivity.
  - destruct (f x), (f y); reflexivity.
  - rewrite IH1. exact IH2.
Qed.

Lemma forallb_map {A B} (f : B -> bool) (h : A -> B) (l : list A) : forallb f (map h l) = forallb (fun a => f (h a)) l.
Proof. induction l as [|a l IH]; [reflexivity|]. cbn [map forallb]. rewrite IH. reflexivity. Qed.

Lemma forallb_ext_in {A} (f h : A -> bool) (l : list A) : (forall a, In a l -> f a = h a) -> forallb f l = forallb h l.
Proof.
  induction l as [|a l IH]; intros H; [reflexivity|]. cbn [forallb].
  rewrite (H a (or_introl eq_refl)). rewrite IH; [reflexivity|]. intros b Hb. apply H. right. exact Hb.
Qed.

Lemma forallb_reindex (f : nat -> bool) : forallb f (seq 0 n) = forallb (fun i => f (nthn p i)) (seq 0 n).
Proof.
  transitivity (forallb f (map (nthn p) (seq 0 n))); [|apply forallb_map].
  rewrite map_nthn_seq. symmetry. apply forallb_Permutation. exact Hp.
Qed.

Theorem is_symmetric_perm (g : wgraph) :
  length g = n -> wf_graph g = true -> is_symmetric (perm_wrows p g) = is_symmetric g.
Proof.
  intros HL Hwf. unfold is_symmetric. rewrite perm_wrows_length, HL. cbv zeta.
  etransitivity; [apply forallb_reindex|]. apply forallb_ext_in. intros i Hi. apply in_seq in Hi.
  etransitivity; [apply forallb_reindex|]. apply forallb_ext_in. intros j Hj. apply in_seq in Hj.
  rewrite !wrow_of_perm by lia.
  rewrite !entry_relab; try lia; try (rewrite <- HL; apply wf_graph_row; exact Hwf). reflexivity.
Qed.

(** The textbook betweenness of the renumbered graph is the renumbered textbook betweenness (Leibniz). *)
Theorem betweenness_spec_perm (g : wgraph) :
  length g = n -> wf_graph g = true ->
  betweenness_spec (perm_wrows p g) = perm_vecq p (betweenness_spec g).
Proof.
  intros HL Hwf. unfold betweenness_spec. cbv zeta.
  rewrite (is_symmetric_perm g HL Hwf), pattern_perm, (perm_graph_length n p Hp), pattern_length, HL.
  assert (Lq : length (pattern g) = n) by (rewrite pattern_length; exact HL).
  pose proof (pattern_wf g Hwf) as Hq.
  unfold perm_vecq, perm_vec. rewrite (perm_length n p Hp). apply map_ext_in. intros k Hk.
  apply in_seq in Hk. assert (Hk' : k < n) by lia.
  pose proof (perm_index_lt n p Hp k Hk') as Hi.
  rewrite (nth_map_seq (fun v => if is_symmetric g then Qred (betweenness_ordered (pattern g) v / 2)%Q
                                 else betweenness_ordered (pattern g) v) n (index_of k p) 0%Q Hi).
  rewrite <- (betweenness_ordered_perm (pattern g) (index_of k p) Lq Hq Hi).
  rewrite (perm_index_nth n p Hp k Hk'). reflexivity.
Qed.

(** The hypotheses of the exactness theorem are preserved by the renumbering. *)
Lemma wf_graph_of_pattern (g : wgraph) :
  (forall u v, In v (row (pattern g) u) -> v < length g) -> wf_graph g = true.
Proof.
  intros H. unfold wf_graph. apply forallb_forall. intros r Hr.
  destruct (In_nth g r [] Hr) as [u [Hu Er]].
  unfold wf_row. apply forallb_forall. intros e He. apply Nat.ltb_lt. apply (H u).
  rewrite row_pattern. unfold wrow_of. rewrite Er. apply in_map. exact He.
Qed.

Theorem gnd_perm (q : graph) :
  length q = n -> BfsProofs.wf_graph q -> (forall u, NoDup (row q u)) -> forall u, NoDup (row (perm_graph p q) u).
Proof.
  intros HL Hwf Hnd k. destruct (Nat.lt_ge_cases k n) as [Hk|Hk].
  - rewrite <- (perm_index_nth n p Hp k Hk). rewrite (perm_graph_row n p Hp) by exact (perm_index_lt n p Hp k Hk).
    apply NoDup_map_inj_in; [|apply Hnd]. intros x y Hx Hy E.
    apply (perm_inj n p Hp x y); [rewrite <- HL; exact (Hwf _ _ Hx)|rewrite <- HL; exact (Hwf _ _ Hy)|exact E].
  - unfold row. rewrite nth_overflow by (rewrite (perm_graph_length n p Hp); exact Hk). constructor.
Qed.

Theorem brandes_hyps_perm (g : wgraph) :
  length g = n ->
  (forall u v, In v (row (pattern g) u) -> v < length g) -> (forall u, NoDup (row (pattern g) u)) ->
  (forall u v, In v (row (pattern (perm_wrows p g)) u) -> v < length (perm_wrows p g)) /\
  (forall u, NoDup (row (pattern (perm_wrows p g)) u)).
Proof.
  intros HL H1 H2. pose proof (wf_graph_of_pattern g H1) as Hwf.
  assert (Lq : length (pattern g) = n) by (rewrite pattern_length; exact HL).
  rewrite pattern_perm, perm_wrows_length. split.
  - intros u v Hin. pose proof (perm_graph_wf n p Hp (pattern g) Lq (pattern_wf g Hwf) u v Hin) as H.
    rewrite (perm_graph_length n p Hp) in H. exact H.
  - apply gnd_perm; [exact Lq|apply pattern_wf; exact Hwf|exact H2].
Qed.

(** Betweenness.fit as coded, through [brandes_exact_explicit] on both sides. *)
Theorem betweenness_equivariant (g : wgraph) (v : nat) :
  length g = n ->
  (forall u w, In w (row (pattern g) u) -> w < length g) -> (forall u, NoDup (row (pattern g) u)) ->
  v < n ->
  (V (betweenness (perm_wrows p g)) (nthn p v) == V (betweenness g) v)%Q.
Proof.
  intros HL H1 H2 Hv. pose proof (wf_graph_of_pattern g H1) as Hwf.
  destruct (brandes_hyps_perm g HL H1 H2) as [H1' H2'].
  destruct (brandes_exact_explicit g H1 H2) as [_ He].
  destruct (brandes_exact_explicit (perm_wrows p g) H1' H2') as [_ He'].
  rewrite perm_wrows_length in He'. rewrite HL in He.
  rewrite (proj1 (He' (nthn p v) (perm_lt n p Hp v Hv))). rewrite (proj1 (He v Hv)).
  rewrite (betweenness_spec_perm g HL Hwf). rewrite V_perm_nth by exact Hv. reflexivity.
Qed.

Lemma perm_vecq_reduced (l : list Q) : Forall qreduced l -> Forall qreduced (perm_vecq p l).
Proof.
  intros H. apply Forall_forall. intros x Hx. unfold perm_vecq, perm_vec in Hx.
  apply in_map_iff in Hx. destruct Hx as [k [<- _]].
  destruct (Nat.lt_ge_cases (index_of k p) (length l)) as [L|L].
  - rewrite Forall_forall in H. apply H. apply nth_In. exact L.
  - rewrite nth_overflow by exact L. exact qreduced_0.
Qed.

(** ... with Leibniz equality: every stored score is a [Qred] normal form. *)
Theorem betweenness_equivariant_eq (g : wgraph) :
  length g = n ->
  (forall u w, In w (row (pattern g) u) -> w < length g) -> (forall u, NoDup (row (pattern g) u)) ->
  betweenness (perm_wrows p g) = perm_vecq p (betweenness g).
Proof.
  intros HL H1 H2.
  destruct (brandes_hyps_perm g HL H1 H2) as [H1' H2'].
  destruct (brandes_exact_explicit (perm_wrows p g) H1' H2') as [L' _]. rewrite perm_wrows_length in L'.
  apply reduced_eq.
  - apply betweenness_reduced.
  - apply perm_vecq_reduced. apply betweenness_reduced.
  - rewrite L', perm_vecq_length. reflexivity.
  - intros k Hk. rewrite L' in Hk. rewrite V_perm by exact Hk.
    rewrite <- (perm_index_nth n p Hp k Hk) at 1.
    apply betweenness_equivariant; try assumption. exact (perm_index_lt n p Hp k Hk).
Qed.

(** The same with the hypotheses decided by the executable [rows_ok]. *)
Theorem betweenness_equivariant_rows_ok (g : wgraph) :
  length g = n -> rows_ok (pattern g) = true ->
  betweenness (perm_wrows p g) = perm_vecq p (betweenness g).
Proof.
  intros HL H. destruct (rows_ok_sound _ H) as [Hwf Hnd]. apply betweenness_equivariant_eq; [exact HL| |exact Hnd].
  intros u w Hin. rewrite <- pattern_length. exact (Hwf u w Hin).
Qed.

End EqPerm.

(* ---------------------------------------------------------------------------------------------- *)
(** * D-iteration is a sequential sweep in node order: a FINITE number of sweeps is not equivariant
      (only its limit, the PageRank vector, is).  Path 0 -> 1 -> 2, restart at 0, one sweep: in the
      original numbering the fluid travels down the whole path within the sweep; after reversing the
      numbering it moves one node per sweep. *)
Lemma diteration_not_equivariant_exactly :
  exists (p : list nat) (g : wgraph) (alpha : Q) (y : list Q),
    Permutation p (seq 0 3) /\ length g = 3 /\ good_graph g /\ (0 <= alpha < 1)%Q /\
    diteration g alpha y 1 0 = [1 # 2; 1 # 4; 1 # 8]%Q /\
    perm_vecq p (diteration g alpha y 1 0) = [1 # 8; 1 # 4; 1 # 2]%Q /\
    diteration (perm_wrows p g) alpha (perm_vecq p y) 1 0 = [0; 0; 1 # 2]%Q.
Proof.
  exists [2; 1; 0], [[(1, 1%Q)]; [(2, 1%Q)]; []], (1 # 2)%Q, [1; 0; 0]%Q.
  split; [|repeat split; try reflexivity; try (cbn; lra); vm_compute; reflexivity].
  apply Permutation_sym. cbn [seq].
  apply perm_trans with (l' := [1; 0; 2]); [apply perm_swap|].
  apply perm_trans with (l' := [1; 2; 0]); [apply perm_skip; apply perm_swap|apply perm_swap].
Qed.

End EqA.

(* ==================================================================================================== *)
(** * B1. Modularity *)
Module EqB_Mod.
Import Modularity ModularityProofs.
Local Open Scope Q_scope.

Lemma sumn_Permutation (u v : list nat) : Permutation u v -> sumn u = sumn v.
Proof.
  intros H; induction H as [|x l l' H IH|x y l|l l' l'' H1 IH1 H2 IH2]; simpl; lia.
Qed.

Lemma sumq_qsum_nth (l : list Q) : sumq l == qsum (length l) (nthq l).
Proof.
  rewrite <- (CutsProofs.map_nth_seq l 0) at 1. apply sumq_map_seq.
Qed.

Lemma Qle_bool_0_comp (x y : Q) : x == y -> Qle_bool x 0 = Qle_bool y 0.
Proof.
  intros E. apply eq_true_iff_eq. rewrite !Qle_bool_iff, E. reflexivity.
Qed.

Lemma neg_comp (x y : Q) : x == y -> negb (Qle_bool 0 x) = negb (Qle_bool 0 y).
Proof.
  intros E. f_equal. apply eq_true_iff_eq. rewrite !Qle_bool_iff, E. reflexivity.
Qed.

Section ModPerm.
Context (n : nat) (p : list nat) (Hp : Permutation p (seq 0 n)).

Lemma map_nthn_seq : map (nthn p) (seq 0 n) = p.
Proof.
  pose proof (CutsProofs.map_nth_seq p 0%nat) as E.
  rewrite (FormatProofs.perm_length n p Hp) in E. exact E.
Qed.

(** ** Reindexing a finite sum along a permutation *)
Lemma qsum_reindex (f : nat -> Q) : qsum n f == qsum n (fun i => f (nthn p i)).
Proof.
  rewrite <- (sumq_map_seq n f), <- (sumq_map_seq n (fun i => f (nthn p i))).
  rewrite <- (map_map (nthn p) f (seq 0 n)), map_nthn_seq.
  apply FormatProofs.sumq_Permutation. apply Permutation_map. apply Permutation_sym. exact Hp.
Qed.

Lemma qsum2_reindex (F : nat -> nat -> Q) :
  qsum n (fun i => qsum n (fun j => F i j))
  == qsum n (fun i => qsum n (fun j => F (nthn p i) (nthn p j))).
Proof.
  rewrite (qsum_reindex (fun i => qsum n (fun j => F i j))).
  apply qsum_ext. intros i _. apply (qsum_reindex (fun j => F (nthn p i) j)).
Qed.

Lemma qsum2_perm_ext (F G : nat -> nat -> Q) :
  (forall i j, (i < n)%nat -> (j < n)%nat -> F (nthn p i) (nthn p j) == G i j) ->
  qsum n (fun i => qsum n (fun j => F i j)) == qsum n (fun i => qsum n (fun j => G i j)).
Proof.
  intros H. rewrite (qsum2_reindex F).
  apply qsum_ext. intros i Hi. apply qsum_ext. intros j Hj. apply H; assumption.
Qed.

Lemma qsum_perm_ext (f g : nat -> Q) :
  (forall i, (i < n)%nat -> f (nthn p i) == g i) -> qsum n f == qsum n g.
Proof.
  intros H. rewrite (qsum_reindex f). apply qsum_ext. exact H.
Qed.

(** ** The renumbered matrix P A P^T *)
Lemma pw_length (g : wgraph) : length (perm_wrows p g) = n.
Proof.
  unfold perm_wrows, perm_bip. rewrite map_length, seq_length. exact (FormatProofs.perm_length n p Hp).
Qed.

Lemma pw_row (g : wgraph) (i : nat) :
  (i < n)%nat ->
  wrow_of (perm_wrows p g) (nthn p i) = map (fun e : nat * Q => (nthn p (fst e), snd e)) (wrow_of g i).
Proof. intros Hi. exact (FormatProofs.perm_bip_row n p p g i Hp Hi). Qed.

Lemma pw_wf (g : wgraph) : length g = n -> wf_wgraph g -> wf_wgraph (perm_wrows p g).
Proof.
  intros HL Hwf i j w Hin. rewrite pw_length.
  destruct (Nat.lt_ge_cases i n) as [Hi|Hi].
  - rewrite <- (FormatProofs.perm_index_nth n p Hp i Hi) in Hin.
    rewrite pw_row in Hin by (apply (FormatProofs.perm_index_lt n p Hp); exact Hi).
    apply in_map_iff in Hin. destruct Hin as [[j0 w0] [E Hin]]. cbn [fst snd] in E.
    injection E as <- <-. apply (FormatProofs.perm_lt n p Hp). rewrite <- HL. exact (Hwf _ _ _ Hin).
  - unfold wrow_of in Hin. rewrite nth_overflow in Hin by (rewrite pw_length; lia). destruct Hin.
Qed.

Lemma pw_rsum (g : wgraph) (i : nat) (h : nat -> Q) :
  (i < n)%nat ->
  rsum (wrow_of (perm_wrows p g) (nthn p i)) h == rsum (wrow_of g i) (fun j => h (nthn p j)).
Proof. intros Hi. rewrite (pw_row g i Hi). apply rsum_map_fst. Qed.

(** Entry (p i, p j) of the renumbered matrix is entry (i, j) of the original one. *)
Lemma pw_entry (g : wgraph) (i j : nat) :
  length g = n -> wf_wgraph g -> (i < n)%nat -> (j < n)%nat ->
  entry (perm_wrows p g) (nthn p i) (nthn p j) == entry g i j.
Proof.
  intros HL Hwf Hi Hj. unfold entry. rewrite (pw_rsum g i _ Hi).
  apply rsum_ext. intros j0 w Hin.
  assert (Hj0 : (j0 < n)%nat) by (rewrite <- HL; exact (Hwf _ _ _ Hin)).
  destruct (Nat.eqb_spec (nthn p j0) (nthn p j)) as [E|E]; destruct (Nat.eqb_spec j0 j) as [E'|E'];
    try reflexivity; exfalso.
  - apply (FormatProofs.perm_inj n p Hp) in E; [contradiction|assumption|assumption].
  - apply E. rewrite E'. reflexivity.
Qed.

Lemma pw_total_weight (g : wgraph) :
  length g = n -> wf_wgraph g -> total_weight (perm_wrows p g) == total_weight g.
Proof.
  intros HL Hwf. unfold total_weight. rewrite pw_length, HL.
  apply qsum2_perm_ext. intros i j Hi Hj. apply pw_entry; assumption.
Qed.

Lemma pw_spec_out_deg (g : wgraph) (i : nat) :
  length g = n -> wf_wgraph g -> (i < n)%nat ->
  spec_out_deg (perm_wrows p g) (nthn p i) == spec_out_deg g i.
Proof.
  intros HL Hwf Hi. unfold spec_out_deg. rewrite pw_length, HL.
  apply qsum_perm_ext. intros j Hj. apply pw_entry; assumption.
Qed.

Lemma pw_spec_in_deg (g : wgraph) (j : nat) :
  length g = n -> wf_wgraph g -> (j < n)%nat ->
  spec_in_deg (perm_wrows p g) (nthn p j) == spec_in_deg g j.
Proof.
  intros HL Hwf Hj. unfold spec_in_deg. rewrite pw_length, HL.
  apply qsum_perm_ext. intros i Hi. apply pw_entry; assumption.
Qed.

(** ** The renumbered labelling *)
Lemma pv_lab (labels : list nat) (i : nat) :
  (i < n)%nat -> lab (perm_vec 0%nat p labels) (nthn p i) = lab labels i.
Proof. intros Hi. exact (FormatProofs.perm_vec_nth n p Hp 0%nat labels i Hi). Qed.

Lemma pv_delta (labels : list nat) (i j : nat) :
  (i < n)%nat -> (j < n)%nat ->
  delta (perm_vec 0%nat p labels) (nthn p i) (nthn p j) = delta labels i j.
Proof. intros Hi Hj. unfold delta. rewrite !pv_lab by assumption. reflexivity. Qed.

(** ** The specifications are invariant *)
Theorem spec_modularity_invariant (g : wgraph) (labels : list nat) (gamma : Q) :
  length g = n -> wf_wgraph g ->
  spec_modularity (perm_wrows p g) (perm_vec 0%nat p labels) gamma == spec_modularity g labels gamma.
Proof.
  intros HL Hwf. unfold spec_modularity. rewrite pw_length, HL.
  rewrite (pw_total_weight g HL Hwf) at 1.
  apply Qmult_comp; [reflexivity|].
  apply qsum2_perm_ext. intros i j Hi Hj.
  rewrite (pw_entry g i j HL Hwf Hi Hj), (pw_spec_out_deg g i HL Hwf Hi), (pw_spec_in_deg g j HL Hwf Hj),
    (pv_delta labels i j Hi Hj), (pw_total_weight g HL Hwf).
  reflexivity.
Qed.

Theorem spec_modularity_uniform_invariant (g : wgraph) (labels : list nat) (gamma : Q) :
  length g = n -> wf_wgraph g ->
  spec_modularity_uniform (perm_wrows p g) (perm_vec 0%nat p labels) gamma
  == spec_modularity_uniform g labels gamma.
Proof.
  intros HL Hwf. unfold spec_modularity_uniform. rewrite pw_length, HL.
  apply qsum2_perm_ext. intros i j Hi Hj.
  rewrite (pw_entry g i j HL Hwf Hi Hj), (pv_delta labels i j Hi Hj), (pw_total_weight g HL Hwf).
  reflexivity.
Qed.

Theorem spec_fit_invariant (g : wgraph) (labels : list nat) :
  length g = n -> wf_wgraph g ->
  spec_fit (perm_wrows p g) (perm_vec 0%nat p labels) == spec_fit g labels.
Proof.
  intros HL Hwf. unfold spec_fit. rewrite pw_length, HL.
  rewrite (pw_total_weight g HL Hwf).
  apply Qmult_comp; [|reflexivity].
  apply qsum2_perm_ext. intros i j Hi Hj.
  rewrite (pw_entry g i j HL Hwf Hi Hj), (pv_delta labels i j Hi Hj). reflexivity.
Qed.

Theorem spec_of_invariant (wk : weighting) (g : wgraph) (labels : list nat) (gamma : Q) :
  length g = n -> wf_wgraph g ->
  spec_of wk (perm_wrows p g) (perm_vec 0%nat p labels) gamma == spec_of wk g labels gamma.
Proof.
  destruct wk; [apply spec_modularity_invariant | apply spec_modularity_uniform_invariant].
Qed.

(** ** The coded terms *)
Lemma fit_term_spec (g : wgraph) (labels : list nat) :
  wf_wgraph g -> length labels = length g -> fit_term g labels == spec_fit g labels.
Proof.
  intros Hwf Hlen. unfold fit_term, spec_fit.
  rewrite (fit_num_spec _ _ Hwf Hlen), (data_sum_spec _ Hwf). reflexivity.
Qed.

Lemma fit_term_invariant (g : wgraph) (labels : list nat) :
  length g = n -> wf_wgraph g -> length labels = n ->
  fit_term (perm_wrows p g) (perm_vec 0%nat p labels) == fit_term g labels.
Proof.
  intros HL Hwf Hl.
  rewrite (fit_term_spec g labels Hwf) by lia.
  rewrite (fit_term_spec (perm_wrows p g) _ (pw_wf g HL Hwf))
    by (rewrite pw_length; exact (FormatProofs.perm_vec_length n p Hp 0%nat labels)).
  apply spec_fit_invariant; assumption.
Qed.

(** [ws'] is [ws] renumbered (up to [==]). *)
Definition vperm (ws ws' : list Q) : Prop :=
  length ws = n /\ length ws' = n /\ forall i, (i < n)%nat -> nthq ws' (nthn p i) == nthq ws i.

Lemma vperm_sumq (ws ws' : list Q) : vperm ws ws' -> sumq ws' == sumq ws.
Proof.
  intros [H1 [H2 H3]]. rewrite (sumq_qsum_nth ws'), (sumq_qsum_nth ws), H1, H2.
  apply qsum_perm_ext. exact H3.
Qed.

Lemma vperm_existsb (f : Q -> bool) (ws ws' : list Q) :
  (forall x y, x == y -> f x = f y) -> vperm ws ws' -> existsb f ws' = existsb f ws.
Proof.
  intros Hf [H1 [H2 H3]]. apply eq_true_iff_eq. rewrite !existsb_exists.
  split; intros [x [Hin Hx]]; apply (In_nth _ _ 0) in Hin; destruct Hin as [k [Hk E]].
  - rewrite H2 in Hk. pose proof (FormatProofs.perm_index_lt n p Hp k Hk) as Hi.
    exists (nthq ws (index_of k p)). split.
    + unfold nthq. apply nth_In. lia.
    + rewrite <- Hx. apply Hf. rewrite <- (H3 _ Hi).
      rewrite (FormatProofs.perm_index_nth n p Hp k Hk). unfold nthq. rewrite E. reflexivity.
  - rewrite H1 in Hk. exists (nthq ws' (nthn p k)). split.
    + unfold nthq. apply nth_In. rewrite H2. apply (FormatProofs.perm_lt n p Hp). exact Hk.
    + rewrite <- Hx. apply Hf. rewrite (H3 _ Hk). unfold nthq. rewrite E. reflexivity.
Qed.

(** get_probs commutes with the renumbering: same error, or probabilities renumbered with Leibniz
    equality (they are stored reduced). *)
Lemma get_probs_perm (ws ws' : list Q) :
  vperm ws ws' ->
  match get_probs_of ws, get_probs_of ws' with
  | MOk pr, MOk pr' => forall i, (i < n)%nat -> nthq pr' (nthn p i) = nthq pr i
  | MErr e, MErr e' => e = e'
  | _, _ => False
  end.
Proof.
  intros Hv. unfold get_probs_of.
  rewrite (vperm_existsb _ ws ws' neg_comp Hv), (Qle_bool_0_comp _ _ (vperm_sumq _ _ Hv)).
  destruct (existsb (fun x : Q => negb (Qle_bool 0 x)) ws || Qle_bool (sumq ws) 0); [reflexivity|].
  destruct Hv as [H1 [H2 H3]]. intros i Hi.
  rewrite (nthq_map _ ws') by (rewrite H2; apply (FormatProofs.perm_lt n p Hp); exact Hi).
  rewrite (nthq_map _ ws) by lia.
  apply Qred_complete. rewrite (H3 i Hi), (vperm_sumq ws ws' (conj H1 (conj H2 H3))). reflexivity.
Qed.

Lemma out_deg_perm (g : wgraph) (i : nat) :
  (i < n)%nat -> out_deg (perm_wrows p g) (nthn p i) == out_deg g i.
Proof. intros Hi. unfold out_deg. rewrite (pw_rsum g i _ Hi). reflexivity. Qed.

Lemma in_deg_perm (g : wgraph) (j : nat) :
  length g = n -> wf_wgraph g -> (j < n)%nat -> in_deg (perm_wrows p g) (nthn p j) == in_deg g j.
Proof. exact (pw_spec_in_deg g j). Qed.

Lemma make_weights_out_perm (wk : weighting) (g : wgraph) :
  length g = n -> vperm (make_weights_out wk g) (make_weights_out wk (perm_wrows p g)).
Proof.
  intros HL. destruct wk; cbn [make_weights_out]; rewrite pw_length, HL.
  - split; [|split]; [rewrite map_length, seq_length; reflexivity ..|].
    intros i Hi. rewrite !nthq_map_seq by (try apply (FormatProofs.perm_lt n p Hp); exact Hi).
    apply out_deg_perm. exact Hi.
  - split; [|split]; [apply repeat_length ..|].
    intros i Hi. rewrite !nthq_repeat by (try apply (FormatProofs.perm_lt n p Hp); exact Hi). reflexivity.
Qed.

Lemma make_weights_in_perm (wk : weighting) (g : wgraph) :
  length g = n -> wf_wgraph g -> vperm (make_weights_in wk g) (make_weights_in wk (perm_wrows p g)).
Proof.
  intros HL Hwf. destruct wk; cbn [make_weights_in]; rewrite pw_length, HL.
  - split; [|split]; [rewrite map_length, seq_length; reflexivity ..|].
    intros i Hi. rewrite !nthq_map_seq by (try apply (FormatProofs.perm_lt n p Hp); exact Hi).
    apply in_deg_perm; assumption.
  - split; [|split]; [apply repeat_length ..|].
    intros i Hi. rewrite !nthq_repeat by (try apply (FormatProofs.perm_lt n p Hp); exact Hi). reflexivity.
Qed.

Lemma div_term_invariant (labels : list nat) (pr pc pr' pc' : list Q) :
  length labels = n ->
  (forall i, (i < n)%nat -> nthq pr' (nthn p i) = nthq pr i) ->
  (forall i, (i < n)%nat -> nthq pc' (nthn p i) = nthq pc i) ->
  div_term n (perm_vec 0%nat p labels) pr' pc' == div_term n labels pr pc.
Proof.
  intros Hl Hr Hc. unfold div_term.
  rewrite (div_spec n (perm_vec 0%nat p labels) (nthq pr') (nthq pc')
             (FormatProofs.perm_vec_length n p Hp 0%nat labels)).
  rewrite (div_spec n labels (nthq pr) (nthq pc) Hl).
  apply qsum2_perm_ext. intros i j Hi Hj.
  rewrite (Hr i Hi), (Hc j Hj), (pv_delta labels i j Hi Hj). reflexivity.
Qed.

Lemma pw_nnz (g : wgraph) : length g = n -> nnz (perm_wrows p g) = nnz g.
Proof.
  intros HL. unfold nnz. apply sumn_Permutation.
  assert (E : map (@length (nat * Q)) (perm_wrows p g) = perm_vec 0%nat p (map (@length (nat * Q)) g)).
  { unfold perm_wrows, perm_bip, perm_vec. rewrite map_map. apply map_ext. intros k.
    rewrite map_length. symmetry. exact (map_nth (@length (nat * Q)) g [] (index_of k p)). }
  rewrite E. apply (FormatProofs.perm_vec_Permutation n p 0%nat _ Hp). rewrite map_length. exact HL.
Qed.

(** ** get_modularity is invariant: same answer (value or error), with Leibniz equality. *)
Theorem get_modularity_invariant (m : wmat) (labels : list nat) (lc : option (list nat))
        (wk : weighting) (gamma : Q) :
  w_nrow m = n -> w_ncol m = n -> wf_wgraph (w_rows m) -> length labels = n ->
  get_modularity {| w_ncol := n; w_rows := perm_wrows p (w_rows m) |} (perm_vec 0%nat p labels) lc wk gamma
  = get_modularity m labels lc wk gamma.
Proof.
  intros Hr Hc Hwf Hl. unfold w_nrow in Hr. unfold get_modularity.
  cbn [w_rows]. rewrite (pw_nnz _ Hr).
  destruct (Nat.eqb (nnz (w_rows m)) 0); [reflexivity|].
  unfold get_adjacency_default, w_nrow. cbn [w_rows w_ncol].
  rewrite pw_length, Hr, Hc, Nat.eqb_refl.
  rewrite pw_length, (FormatProofs.perm_vec_length n p Hp 0%nat labels), Hr, Hl, Nat.eqb_refl.
  cbn [negb].
  pose proof (get_probs_perm _ _ (make_weights_out_perm wk _ Hr)) as Ho.
  pose proof (get_probs_perm _ _ (make_weights_in_perm wk _ Hr Hwf)) as Hi.
  destruct (get_probs_of (make_weights_out wk (w_rows m))) as [pr|e];
    destruct (get_probs_of (make_weights_out wk (perm_wrows p (w_rows m)))) as [pr'|e'];
    try contradiction.
  - destruct (get_probs_of (make_weights_in wk (w_rows m))) as [pc|e];
      destruct (get_probs_of (make_weights_in wk (perm_wrows p (w_rows m)))) as [pc'|e'];
      try contradiction.
    + assert (Ef : Qred (fit_term (perm_wrows p (w_rows m)) (perm_vec 0%nat p labels))
                   = Qred (fit_term (w_rows m) labels)).
      { apply Qred_complete. apply fit_term_invariant; assumption. }
      assert (Ed : Qred (div_term n (perm_vec 0%nat p labels) pr' pc') = Qred (div_term n labels pr pc)).
      { apply Qred_complete. apply div_term_invariant; assumption. }
      rewrite Ef, Ed. reflexivity.
    + rewrite Hi. reflexivity.
  - rewrite Ho. reflexivity.
Qed.

(** The renumbered call returns whenever the original one does, with the same triple. *)
Corollary modularity_invariant_returns (m : wmat) (labels : list nat) (lc : option (list nat))
          (wk : weighting) (gamma md ft dv : Q) :
  w_nrow m = n -> w_ncol m = n -> wf_wgraph (w_rows m) -> length labels = n ->
  get_modularity m labels lc wk gamma = MOk (md, ft, dv) ->
  get_modularity {| w_ncol := n; w_rows := perm_wrows p (w_rows m) |} (perm_vec 0%nat p labels) lc wk gamma
  = MOk (md, ft, dv).
Proof.
  intros Hr Hc Hwf Hl H. rewrite get_modularity_invariant by assumption. exact H.
Qed.

(** The conditional form: two returned triples are equal (Leibniz). *)
Corollary modularity_invariant (m : wmat) (labels : list nat) (lc : option (list nat))
          (wk : weighting) (gamma md ft dv md' ft' dv' : Q) :
  w_nrow m = n -> w_ncol m = n -> wf_wgraph (w_rows m) -> length labels = n ->
  get_modularity m labels lc wk gamma = MOk (md, ft, dv) ->
  get_modularity {| w_ncol := n; w_rows := perm_wrows p (w_rows m) |} (perm_vec 0%nat p labels) lc wk gamma
  = MOk (md', ft', dv') ->
  md = md' /\ ft = ft' /\ dv = dv'.
Proof.
  intros Hr Hc Hwf Hl H H'. rewrite get_modularity_invariant in H' by assumption.
  rewrite H in H'. exact (MOk_triple_inj _ _ _ _ _ _ H').
Qed.

(** Composition with the exactness theorem: the renumbered call computes the specification of the
    ORIGINAL graph and labelling. *)
Corollary modularity_invariant_spec (m : wmat) (labels : list nat) (lc : option (list nat))
          (wk : weighting) (gamma md ft dv : Q) :
  w_nrow m = n -> w_ncol m = n -> wf_wgraph (w_rows m) -> length labels = n ->
  get_modularity {| w_ncol := n; w_rows := perm_wrows p (w_rows m) |} (perm_vec 0%nat p labels) lc wk gamma
  = MOk (md, ft, dv) ->
  md == match wk with
        | Degree => spec_modularity (w_rows m) labels gamma
        | Uniform => spec_modularity_uniform (w_rows m) labels gamma
        end /\ ft == spec_fit (w_rows m) labels.
Proof.
  intros Hr Hc Hwf Hl H. rewrite get_modularity_invariant in H by assumption.
  assert (Hsq : w_nrow m = w_ncol m) by lia.
  split.
  - exact (modularity_def_square_match m labels lc wk gamma md ft dv Hsq Hwf H).
  - exact (proj2 (modularity_fit_minus_div_square m labels lc wk gamma md ft dv Hsq Hwf H)).
Qed.

End ModPerm.
End EqB_Mod.

(** * B2. Dasgupta cost *)
Module EqB_Das.
Import Dendrogram Cuts CutsProofs.

(** The permutation action on this model: a child id below n is a leaf (a node) and is renumbered,
    an id n + t is the cluster created by row t and is kept; edges have their endpoints renumbered. *)
Definition relabel_id (n : nat) (p : list nat) (c : nat) : nat := if Nat.ltb c n then nthn p c else c.
Definition relabel_row (n : nat) (p : list nat) (r : drow) : drow :=
  (relabel_id n p (r_left r), relabel_id n p (r_right r), r_height r, r_size r).
Definition relabel_dendrogram (n : nat) (p : list nat) (D : dendrogram) : dendrogram :=
  map (relabel_row n p) D.
Definition relabel_edge (p : list nat) (e : nat * nat * Q) : nat * nat * Q :=
  (nthn p (e_src e), nthn p (e_dst e), e_w e).
Definition relabel_edges (p : list nat) (G : wgraph) : wgraph := map (relabel_edge p) G.

(** The inverse permutation, as an image list: entry p[i] is i. *)
Definition inv_perm (p : list nat) : list nat := perm_vec 0 p (seq 0 (length p)).

Lemma filter_map_comm {A B} (f : A -> B) (g : B -> bool) (h : A -> bool) (l : list A) :
  (forall a, In a l -> g (f a) = h a) -> filter g (map f l) = map f (filter h l).
Proof.
  induction l as [|a l IH]; intros H; simpl; [reflexivity|].
  rewrite (H a (or_introl eq_refl)), IH by (intros b Hb; apply H; right; exact Hb).
  destruct (h a); reflexivity.
Qed.

Lemma r_size_nth_map (f : drow -> drow) (D : dendrogram) (i : nat) :
  (forall r, r_size (f r) = r_size r) -> r_size (nth i (map f D) drow0) = r_size (nth i D drow0).
Proof.
  intros Hf. revert i. induction D as [|r D IH]; intros [|i]; simpl; try reflexivity; [apply Hf | apply IH].
Qed.

Lemma flat_map_children_map (f : drow -> drow) (g : nat -> nat) (L : dendrogram) :
  (forall r, r_left (f r) = g (r_left r) /\ r_right (f r) = g (r_right r)) ->
  flat_map children (map f L) = map g (flat_map children L).
Proof.
  intros Hf. induction L as [|r L IH]; simpl; [reflexivity|].
  destruct (Hf r) as [E1 E2]. rewrite E1, E2, IH. reflexivity.
Qed.

Lemma leaves_f_lt (n : nat) (D : dendrogram) :
  forall fuel k u, In u (leaves_f fuel n D k) -> u < n.
Proof.
  induction fuel as [|f IH]; intros k u H; simpl in H; [destruct H|].
  destruct (Nat.ltb k n) eqn:E.
  - destruct H as [<-|[]]. apply Nat.ltb_lt. exact E.
  - destruct (nth_error D (k - n)) as [r|]; [|destruct H].
    apply in_app_iff in H. destruct H as [H|H]; exact (IH _ _ H).
Qed.

Lemma leaves_lt (n : nat) (D : dendrogram) (k u : nat) : In u (leaves n D k) -> u < n.
Proof. apply leaves_f_lt. Qed.

Lemma tree_clusters_lt (n : nat) (D : dendrogram) (c : list nat) (x : nat) :
  In c (tree_clusters n D) -> In x c -> x < n.
Proof.
  unfold tree_clusters. intros Hc Hx. apply in_map_iff in Hc. destruct Hc as [t [<- _]].
  exact (leaves_lt _ _ _ _ Hx).
Qed.

Lemma fold_pick_in (cands : list (list nat)) :
  let res := fold_right (fun c best => match best with [] => c | _ => if Nat.leb (length c) (length best) then c else best end) [] cands in
  res = [] \/ In res cands.
Proof.
  induction cands as [|c cands IH]; cbn zeta; cbn [fold_right]; [left; reflexivity|].
  cbn zeta in IH.
  destruct (fold_right (fun c best => match best with [] => c | _ => if Nat.leb (length c) (length best) then c else best end) [] cands) as [|b0 bs] eqn:E.
  - right. left. reflexivity.
  - destruct (Nat.leb (length c) (length (b0 :: bs))).
    + right. left. reflexivity.
    + right. right. destruct IH as [IH|IH]; [discriminate|exact IH].
Qed.

Lemma smallest_common_lt (n : nat) (D : dendrogram) (u v x : nat) :
  In x (smallest_common n D u v) -> x < n.
Proof.
  unfold smallest_common. intros Hx.
  destruct (fold_pick_in (filter (fun c => memn u c && memn v c) (tree_clusters n D))) as [E|Hin];
    cbn zeta in *.
  - rewrite E in Hx. destruct Hx.
  - apply filter_In in Hin. destruct Hin as [Hin _]. exact (tree_clusters_lt n D _ x Hin Hx).
Qed.

Lemma dasgupta_cost_inv (degree : bool) (n : nat) (G : wgraph) (D : dendrogram) (c : Q) :
  dasgupta_cost degree n G D false = Ok c ->
  exists x, dasgupta_cost degree n G D true = Ok x /\ Qred x = x /\
            c = Qred (x * (if degree then total_weight G else inject_Z (Z.of_nat n)))%Q.
Proof.
  unfold dasgupta_cost. intros H.
  destruct (Nat.eqb (length G) 0); [discriminate|]. destruct (Nat.ltb n 2); [discriminate|].
  destruct (get_sampling_distributions degree n G D) as [sd|e]; [|discriminate].
  injection H as <-. eexists. split; [reflexivity|]. split.
  - generalize (map (fun x : Q * Q * Q => (fst (fst x) * snd x)%Q) sd). intros l.
    destruct l as [|a l]; [reflexivity|]. cbn [qsum fold_right]. apply Qred_complete, Qred_correct.
  - destruct degree; reflexivity.
Qed.

Section DasPerm.
Context (n : nat) (p : list nat) (Hp : Permutation p (seq 0 n)).

Notation rl := (relabel_id n p).
Notation P := (nthn p).

Lemma rl_lt (c : nat) : c < n -> rl c = P c.
Proof. intros H. unfold relabel_id. apply Nat.ltb_lt in H. rewrite H. reflexivity. Qed.

Lemma rl_ge (c : nat) : n <= c -> rl c = c.
Proof. intros H. unfold relabel_id. apply Nat.ltb_ge in H. rewrite H. reflexivity. Qed.

Lemma rl_bound (c m : nat) : n <= m -> (rl c < m <-> c < m).
Proof.
  intros Hm. destruct (Nat.lt_ge_cases c n) as [H|H].
  - rewrite (rl_lt c H). pose proof (FormatProofs.perm_lt n p Hp c H). lia.
  - rewrite (rl_ge c H). reflexivity.
Qed.

Lemma rl_inj (a b : nat) : rl a = rl b -> a = b.
Proof.
  intros E. destruct (Nat.lt_ge_cases a n) as [Ha|Ha]; destruct (Nat.lt_ge_cases b n) as [Hb|Hb].
  - rewrite (rl_lt a Ha), (rl_lt b Hb) in E. exact (FormatProofs.perm_inj n p Hp a b Ha Hb E).
  - rewrite (rl_lt a Ha), (rl_ge b Hb) in E. pose proof (FormatProofs.perm_lt n p Hp a Ha). lia.
  - rewrite (rl_ge a Ha), (rl_lt b Hb) in E. pose proof (FormatProofs.perm_lt n p Hp b Hb). lia.
  - rewrite (rl_ge a Ha), (rl_ge b Hb) in E. exact E.
Qed.

Lemma relabel_row_fields (r : drow) :
  r_left (relabel_row n p r) = rl (r_left r) /\ r_right (relabel_row n p r) = rl (r_right r).
Proof. split; reflexivity. Qed.

Lemma relabel_length (D : dendrogram) : length (relabel_dendrogram n p D) = length D.
Proof. apply map_length. Qed.

Lemma relabel_nth_error (D : dendrogram) (t : nat) :
  nth_error (relabel_dendrogram n p D) t = option_map (relabel_row n p) (nth_error D t).
Proof. apply nth_error_map. Qed.

(** ** Validity is preserved *)
Lemma wsz_relabel (D : dendrogram) (x : nat) :
  wsz n (repeat 1 n) (relabel_dendrogram n p D) (rl x) = wsz n (repeat 1 n) D x.
Proof.
  unfold wsz. destruct (Nat.lt_ge_cases x n) as [H|H].
  - rewrite (rl_lt x H). pose proof (FormatProofs.perm_lt n p Hp x H) as H'.
    apply Nat.ltb_lt in H, H'. rewrite H, H'. apply Nat.ltb_lt in H, H'.
    rewrite !nth_repeat_lt_aux by assumption. reflexivity.
  - rewrite (rl_ge x H). apply Nat.ltb_ge in H. rewrite H.
    apply r_size_nth_map. intros r. reflexivity.
Qed.

Lemma relabel_valid (D : dendrogram) :
  valid n D = true -> valid n (relabel_dendrogram n p D) = true.
Proof.
  intros Hv. unfold valid.
  destruct (valid_rows n D Hv) as [Hlen Hrows].
  pose proof (validw_sizes (repeat 1 n) D Hv) as Hsz. rewrite repeat_length in Hsz.
  pose proof (static_validw (repeat 1 n) (relabel_dendrogram n p D)) as Hs.
  rewrite repeat_length, relabel_length in Hs. apply Hs; [exact Hlen|]. clear Hs.
  intros t r' Hr'. rewrite relabel_nth_error in Hr'.
  destruct (nth_error D t) as [r|] eqn:Hr; [|discriminate]. cbn [option_map] in Hr'. injection Hr' as <-.
  destruct (Hrows t r Hr) as (Hne & Hl & Hrr & Hnl & Hnr).
  destruct (relabel_row_fields r) as [El Er]. split.
  - unfold row_ok. rewrite El, Er.
    unfold relabel_dendrogram. rewrite firstn_map.
    rewrite (flat_map_children_map (relabel_row n p) rl _ relabel_row_fields).
    repeat split.
    + intros E. apply Hne. exact (rl_inj _ _ E).
    + apply rl_bound; [lia|exact Hl].
    + apply rl_bound; [lia|exact Hrr].
    + intros Hin. apply in_map_iff in Hin. destruct Hin as [x [E Hx]]. apply rl_inj in E. subst x. exact (Hnl Hx).
    + intros Hin. apply in_map_iff in Hin. destruct Hin as [x [E Hx]]. apply rl_inj in E. subst x. exact (Hnr Hx).
  - rewrite El, Er, !wsz_relabel. exact (Hsz t r Hr).
Qed.

(** ** Leaf sets, clusters, smallest common cluster *)
Lemma relabel_ids_lt (D : dendrogram) : ids_lt n D -> ids_lt n (relabel_dendrogram n p D).
Proof.
  intros H t r' Hr'. rewrite relabel_nth_error in Hr'.
  destruct (nth_error D t) as [r|] eqn:Hr; [|discriminate]. cbn [option_map] in Hr'. injection Hr' as <-.
  destruct (H t r Hr) as [H1 H2]. destruct (relabel_row_fields r) as [El Er]. rewrite El, Er.
  split; apply rl_bound; (lia || assumption).
Qed.

Theorem leaves_relabel (D : dendrogram) :
  ids_lt n D ->
  forall c, c < n + length D ->
  leaves n (relabel_dendrogram n p D) (rl c) = map P (leaves n D c).
Proof.
  intros Hids c. induction c as [c IH] using lt_wf_ind. intros Hc.
  destruct (Nat.lt_ge_cases c n) as [H|H].
  - rewrite (rl_lt c H), (leaves_leaf n D c H).
    rewrite leaves_leaf by (apply (FormatProofs.perm_lt n p Hp); exact H). reflexivity.
  - rewrite (rl_ge c H). replace c with (n + (c - n)) by lia.
    destruct (nth_error D (c - n)) as [r|] eqn:Hr.
    2:{ apply nth_error_None in Hr. lia. }
    rewrite (leaves_node n D (c - n) r Hids Hr).
    assert (Hr' : nth_error (relabel_dendrogram n p D) (c - n) = Some (relabel_row n p r))
      by (rewrite relabel_nth_error, Hr; reflexivity).
    rewrite (leaves_node n _ (c - n) _ (relabel_ids_lt D Hids) Hr').
    destruct (relabel_row_fields r) as [El Er]. rewrite El, Er.
    destruct (Hids _ _ Hr) as [H1 H2].
    rewrite (IH (r_left r)) by lia. rewrite (IH (r_right r)) by lia.
    rewrite map_app. reflexivity.
Qed.

Theorem tree_clusters_relabel (D : dendrogram) :
  ids_lt n D ->
  tree_clusters n (relabel_dendrogram n p D) = map (map P) (tree_clusters n D).
Proof.
  intros Hids. unfold tree_clusters. rewrite relabel_length, map_map. apply map_ext_in.
  intros t Ht. apply in_seq in Ht.
  rewrite <- (rl_ge (n + t)) at 1 by lia. apply leaves_relabel; [exact Hids|lia].
Qed.

Lemma memn_map_P (u : nat) (c : list nat) :
  u < n -> (forall x, In x c -> x < n) -> memn (P u) (map P c) = memn u c.
Proof.
  intros Hu Hc. apply eq_true_iff_eq. rewrite !memn_In, in_map_iff. split.
  - intros [x [E Hx]]. apply (FormatProofs.perm_inj n p Hp) in E; [subst x; exact Hx|apply Hc; exact Hx|exact Hu].
  - intros H. exists u. split; [reflexivity|exact H].
Qed.

Lemma fold_pick_map (f : nat -> nat) (cands : list (list nat)) :
  fold_right (fun c best => match best with [] => c | _ => if Nat.leb (length c) (length best) then c else best end) []
             (map (map f) cands)
  = map f (fold_right (fun c best => match best with [] => c | _ => if Nat.leb (length c) (length best) then c else best end) []
                      cands).
Proof.
  induction cands as [|c cands IH]; [reflexivity|]. cbn [map fold_right]. rewrite IH.
  destruct (fold_right (fun c best => match best with [] => c | _ => if Nat.leb (length c) (length best) then c else best end) [] cands) as [|b0 bs];
    [reflexivity|].
  cbn [map]. change (f b0 :: map f bs) with (map f (b0 :: bs)). rewrite !map_length.
  destruct (Nat.leb (length c) (length (b0 :: bs))); reflexivity.
Qed.

Theorem smallest_common_relabel (D : dendrogram) (u v : nat) :
  ids_lt n D -> u < n -> v < n ->
  smallest_common n (relabel_dendrogram n p D) (P u) (P v) = map P (smallest_common n D u v).
Proof.
  intros Hids Hu Hv. unfold smallest_common. rewrite (tree_clusters_relabel D Hids).
  rewrite (filter_map_comm (map P) _ (fun c => memn u c && memn v c)).
  - apply fold_pick_map.
  - intros c Hc. pose proof (tree_clusters_lt n D c) as Hlt.
    rewrite !memn_map_P by (try assumption; intros x Hx; exact (Hlt x Hc Hx)). reflexivity.
Qed.

(** ** Weights *)
Definition edges_lt (G : wgraph) : Prop := forall e, In e G -> e_src e < n /\ e_dst e < n.

Lemma e_src_relabel e : e_src (relabel_edge p e) = P (e_src e). Proof. reflexivity. Qed.
Lemma e_dst_relabel e : e_dst (relabel_edge p e) = P (e_dst e). Proof. reflexivity. Qed.
Lemma e_w_relabel e : e_w (relabel_edge p e) = e_w e. Proof. reflexivity. Qed.

Lemma map_e_w_relabel (G : wgraph) : map e_w (map (relabel_edge p) G) = map e_w G.
Proof. rewrite map_map. apply map_ext. intros e. apply e_w_relabel. Qed.

Lemma eqb_P (a b : nat) : a < n -> b < n -> Nat.eqb (P a) (P b) = Nat.eqb a b.
Proof.
  intros Ha Hb. destruct (Nat.eqb_spec a b) as [->|Hne]; [apply Nat.eqb_refl|].
  apply Nat.eqb_neq. intros E. apply Hne. exact (FormatProofs.perm_inj n p Hp a b Ha Hb E).
Qed.

Theorem total_weight_relabel (G : wgraph) : total_weight (relabel_edges p G) = total_weight G.
Proof. unfold total_weight, relabel_edges. rewrite map_e_w_relabel. reflexivity. Qed.

Theorem out_weight_relabel (G : wgraph) (u : nat) :
  edges_lt G -> u < n -> out_weight (relabel_edges p G) (P u) = out_weight G u.
Proof.
  intros HG Hu. unfold out_weight, relabel_edges.
  rewrite (filter_map_comm (relabel_edge p) _ (fun e => Nat.eqb (e_src e) u)).
  - rewrite map_e_w_relabel. reflexivity.
  - intros e He. rewrite e_src_relabel. apply eqb_P; [apply (HG e He)|exact Hu].
Qed.

Theorem in_weight_relabel (G : wgraph) (v : nat) :
  edges_lt G -> v < n -> in_weight (relabel_edges p G) (P v) = in_weight G v.
Proof.
  intros HG Hv. unfold in_weight, relabel_edges.
  rewrite (filter_map_comm (relabel_edge p) _ (fun e => Nat.eqb (e_dst e) v)).
  - rewrite map_e_w_relabel. reflexivity.
  - intros e He. rewrite e_dst_relabel. apply eqb_P; [apply (HG e He)|exact Hv].
Qed.

Theorem cluster_measure_relabel (degree : bool) (G : wgraph) (c : list nat) :
  edges_lt G -> (forall x, In x c -> x < n) ->
  cluster_measure degree (relabel_edges p G) (map P c) = cluster_measure degree G c.
Proof.
  intros HG Hc. unfold cluster_measure. destruct degree.
  - rewrite !map_map.
    rewrite (map_ext_in (fun x => out_weight (relabel_edges p G) (P x)) (out_weight G) c)
      by (intros x Hx; apply out_weight_relabel; [exact HG|exact (Hc x Hx)]).
    rewrite (map_ext_in (fun x => in_weight (relabel_edges p G) (P x)) (in_weight G) c)
      by (intros x Hx; apply in_weight_relabel; [exact HG|exact (Hc x Hx)]).
    reflexivity.
  - rewrite map_length. reflexivity.
Qed.

(** ** The specification is invariant (Leibniz equality: the same rational is built) *)
Theorem dasgupta_spec_invariant (degree : bool) (G : wgraph) (D : dendrogram) :
  ids_lt n D -> edges_lt G ->
  dasgupta_spec degree n (relabel_edges p G) (relabel_dendrogram n p D) = dasgupta_spec degree n G D.
Proof.
  intros Hids HG. unfold dasgupta_spec. rewrite total_weight_relabel. f_equal. f_equal.
  unfold relabel_edges at 2. rewrite map_map. apply map_ext_in. intros e He.
  rewrite e_w_relabel, e_src_relabel, e_dst_relabel.
  destruct (HG e He) as [Hs Hd].
  rewrite (smallest_common_relabel D _ _ Hids Hs Hd).
  rewrite (cluster_measure_relabel degree G _ HG) by (intros x Hx; exact (smallest_common_lt n D _ _ x Hx)).
  reflexivity.
Qed.

(** ** The premises of the exactness theorem are preserved *)
Lemma relabel_edges_ok (G : wgraph) :
  (forall e, In e G -> e_src e < n /\ e_dst e < n /\ e_src e <> e_dst e) ->
  forall e, In e (relabel_edges p G) -> e_src e < n /\ e_dst e < n /\ e_src e <> e_dst e.
Proof.
  intros HG e' He'. unfold relabel_edges in He'. apply in_map_iff in He'. destruct He' as [e [<- He]].
  destruct (HG e He) as (Hs & Hd & Hne). rewrite e_src_relabel, e_dst_relabel.
  split; [apply (FormatProofs.perm_lt n p Hp); exact Hs|].
  split; [apply (FormatProofs.perm_lt n p Hp); exact Hd|].
  intros E. apply Hne. exact (FormatProofs.perm_inj n p Hp _ _ Hs Hd E).
Qed.

Lemma relabel_edges_nonempty (G : wgraph) : G <> [] -> relabel_edges p G <> [].
Proof. destruct G; [congruence|discriminate]. Qed.

(** ** The coded cost is invariant *)
Theorem dasgupta_invariant (degree : bool) (G : wgraph) (D : dendrogram) :
  valid n D = true ->
  (forall e, In e G -> e_src e < n /\ e_dst e < n /\ e_src e <> e_dst e) ->
  (0 < total_weight G)%Q -> 2 <= n -> G <> [] ->
  exists c,
    dasgupta_cost degree n G D false = Ok c /\
    dasgupta_cost degree n (relabel_edges p G) (relabel_dendrogram n p D) false = Ok c /\
    (c == dasgupta_spec degree n G D)%Q.
Proof.
  intros Hv HG Hw Hn Hne.
  destruct (dasgupta_cost_is_spec degree n G D Hv HG Hw Hn Hne) as [c [Hc Ec]].
  assert (Hw' : (0 < total_weight (relabel_edges p G))%Q) by (rewrite total_weight_relabel; exact Hw).
  destruct (dasgupta_cost_is_spec degree n _ _ (relabel_valid D Hv) (relabel_edges_ok G HG) Hw' Hn
              (relabel_edges_nonempty G Hne)) as [c' [Hc' Ec']].
  rewrite dasgupta_spec_invariant in Ec'
    by (try exact (valid_ids_lt n D Hv); intros e He; destruct (HG e He) as (H1 & H2 & _); split; assumption).
  exists c. split; [exact Hc|]. split; [|exact Ec].
  rewrite Hc'. f_equal.
  destruct (dasgupta_cost_inv _ _ _ _ _ Hc) as [x [_ [_ Ex]]].
  destruct (dasgupta_cost_inv _ _ _ _ _ Hc') as [x' [_ [_ Ex']]].
  rewrite Ex, Ex'. apply Qred_complete. rewrite <- (Qred_correct (x' * _)), <- (Qred_correct (x * _)).
  rewrite <- Ex, <- Ex', Ec, Ec'. reflexivity.
Qed.

Theorem dasgupta_normalized_invariant (degree : bool) (G : wgraph) (D : dendrogram) :
  valid n D = true ->
  (forall e, In e G -> e_src e < n /\ e_dst e < n /\ e_src e <> e_dst e) ->
  (0 < total_weight G)%Q -> 2 <= n -> G <> [] ->
  exists x,
    dasgupta_cost degree n G D true = Ok x /\
    dasgupta_cost degree n (relabel_edges p G) (relabel_dendrogram n p D) true = Ok x.
Proof.
  intros Hv HG Hw Hn Hne.
  destruct (dasgupta_invariant degree G D Hv HG Hw Hn Hne) as [c [Hc [Hc' _]]].
  destruct (dasgupta_cost_inv _ _ _ _ _ Hc) as [x [Hx [Rx Ex]]].
  destruct (dasgupta_cost_inv _ _ _ _ _ Hc') as [x' [Hx' [Rx' Ex']]].
  exists x. split; [exact Hx|]. rewrite Hx'. f_equal.
  rewrite <- Rx, <- Rx'. apply Qred_complete.
  rewrite total_weight_relabel in Ex'.
  set (K := (if degree then total_weight G else inject_Z (Z.of_nat n))%Q) in *.
  assert (HK : (0 < K)%Q) by (unfold K; destruct degree; [exact Hw|apply nQ_pos; exact Hn]).
  assert (E : (x' * K == x * K)%Q).
  { rewrite <- (Qred_correct (x' * K)), <- (Qred_correct (x * K)), <- Ex, <- Ex'. reflexivity. }
  apply (Qmult_inj_r x' x K); [intros E0; rewrite E0 in HK; lra|exact E].
Qed.

Theorem dasgupta_score_invariant (degree : bool) (G : wgraph) (D : dendrogram) :
  valid n D = true ->
  (forall e, In e G -> e_src e < n /\ e_dst e < n /\ e_src e <> e_dst e) ->
  (0 < total_weight G)%Q -> 2 <= n -> G <> [] ->
  exists s,
    dasgupta_score degree n G D = Ok s /\
    dasgupta_score degree n (relabel_edges p G) (relabel_dendrogram n p D) = Ok s.
Proof.
  intros Hv HG Hw Hn Hne.
  destruct (dasgupta_normalized_invariant degree G D Hv HG Hw Hn Hne) as [x [Hx Hx']].
  unfold dasgupta_score. rewrite Hx, Hx'. eexists. split; reflexivity.
Qed.

End DasPerm.

(** Validity is invariant (both directions, through the inverse permutation), and the
    statements under the single premise [valid n D = true]. *)
Section DasPerm2.
Context (n : nat) (p : list nat) (Hp : Permutation p (seq 0 n)).

Lemma inv_perm_Permutation : Permutation (inv_perm p) (seq 0 n).
Proof.
  unfold inv_perm. rewrite (FormatProofs.perm_length n p Hp).
  apply (FormatProofs.perm_vec_Permutation n p 0 (seq 0 n) Hp). apply seq_length.
Qed.

Lemma inv_perm_nth (c : nat) : c < n -> nthn (inv_perm p) (nthn p c) = c.
Proof.
  intros H. unfold inv_perm, nthn at 1. rewrite (FormatProofs.perm_length n p Hp).
  rewrite (FormatProofs.perm_vec_nth n p Hp 0 (seq 0 n) c H). apply seq_nth. exact H.
Qed.

Lemma relabel_id_inverse (c : nat) : relabel_id n (inv_perm p) (relabel_id n p c) = c.
Proof.
  destruct (Nat.lt_ge_cases c n) as [H|H].
  - rewrite (rl_lt n p c H). rewrite rl_lt by (apply (FormatProofs.perm_lt n p Hp); exact H).
    apply inv_perm_nth. exact H.
  - rewrite (rl_ge n p c H). apply rl_ge. exact H.
Qed.

Lemma relabel_inverse (D : dendrogram) :
  relabel_dendrogram n (inv_perm p) (relabel_dendrogram n p D) = D.
Proof.
  unfold relabel_dendrogram. rewrite map_map. rewrite <- (map_id D) at 2. apply map_ext.
  intros [[[i j] h] s]. unfold relabel_row. cbn [r_left r_right r_height r_size fst snd].
  rewrite !relabel_id_inverse. reflexivity.
Qed.

Theorem valid_relabel (D : dendrogram) : valid n (relabel_dendrogram n p D) = valid n D.
Proof.
  destruct (valid n D) eqn:E.
  - exact (relabel_valid n p Hp D E).
  - destruct (valid n (relabel_dendrogram n p D)) eqn:E'; [|reflexivity].
    apply (relabel_valid n (inv_perm p) inv_perm_Permutation) in E'.
    rewrite relabel_inverse in E'. congruence.
Qed.

Theorem leaves_relabel_valid (D : dendrogram) (c : nat) :
  valid n D = true -> c < n + length D ->
  leaves n (relabel_dendrogram n p D) (relabel_id n p c) = map (nthn p) (leaves n D c).
Proof. intros Hv. exact (leaves_relabel n p Hp D (valid_ids_lt n D Hv) c). Qed.

Theorem tree_clusters_relabel_valid (D : dendrogram) :
  valid n D = true ->
  tree_clusters n (relabel_dendrogram n p D) = map (map (nthn p)) (tree_clusters n D).
Proof. intros Hv. exact (tree_clusters_relabel n p Hp D (valid_ids_lt n D Hv)). Qed.

Theorem smallest_common_relabel_valid (D : dendrogram) (u v : nat) :
  valid n D = true -> u < n -> v < n ->
  smallest_common n (relabel_dendrogram n p D) (nthn p u) (nthn p v)
  = map (nthn p) (smallest_common n D u v).
Proof. intros Hv. exact (smallest_common_relabel n p Hp D u v (valid_ids_lt n D Hv)). Qed.

Theorem dasgupta_spec_invariant_valid (degree : bool) (G : wgraph) (D : dendrogram) :
  valid n D = true -> (forall e, In e G -> e_src e < n /\ e_dst e < n) ->
  dasgupta_spec degree n (relabel_edges p G) (relabel_dendrogram n p D) = dasgupta_spec degree n G D.
Proof. intros Hv HG. exact (dasgupta_spec_invariant n p Hp degree G D (valid_ids_lt n D Hv) HG). Qed.

End DasPerm2.
End EqB_Das.

(* ==================================================================================================== *)
Close Scope Q_scope.
Open Scope nat_scope.

Module EqC.
Import Diffusion DiffusionProofs.

(** * Generic list helpers *)

Lemma flat_map_ext_in' {A B} (f g : A -> list B) (l : list A) :
  (forall a, In a l -> f a = g a) -> flat_map f l = flat_map g l.
Proof.
  induction l as [|a l IH]; intros H; simpl; [reflexivity|].
  rewrite (H a) by (left; reflexivity). f_equal. apply IH. intros x Hx. apply H. right. exact Hx.
Qed.

Lemma flat_map_map' {A B C} (f : A -> B) (g : B -> list C) (l : list A) :
  flat_map g (map f l) = flat_map (fun a => g (f a)) l.
Proof. induction l as [|a l IH]; simpl; [reflexivity|]. rewrite IH. reflexivity. Qed.

Lemma map_flat_map' {A B C} (f : A -> list B) (g : B -> C) (l : list A) :
  map g (flat_map f l) = flat_map (fun a => map g (f a)) l.
Proof. induction l as [|a l IH]; simpl; [reflexivity|]. rewrite map_app, IH. reflexivity. Qed.

Lemma filter_map_comm {A B} (f : B -> bool) (g : A -> B) (l : list A) :
  filter f (map g l) = map g (filter (fun a => f (g a)) l).
Proof.
  induction l as [|a l IH]; simpl; [reflexivity|]. rewrite IH. destruct (f (g a)); reflexivity.
Qed.

Lemma Permutation_flat_map_pointwise {A B} (f g : A -> list B) (l : list A) :
  (forall a, In a l -> Permutation (f a) (g a)) -> Permutation (flat_map f l) (flat_map g l).
Proof.
  induction l as [|a l IH]; intros H; simpl; [constructor|].
  apply Permutation_app; [apply H; left; reflexivity|]. apply IH. intros x Hx. apply H. right. exact Hx.
Qed.

Lemma sumn_Permutation (u v : list nat) : Permutation u v -> sumn u = sumn v.
Proof.
  intros H; induction H as [|x l l' H IH|x y l|l l' l'' H1 IH1 H2 IH2]; simpl; try lia.
Qed.

Lemma Forall2_nth_gen {A} (R : A -> A -> Prop) (d : A) (a b : list A) (i : nat) :
  R d d -> Forall2 R a b -> R (nth i a d) (nth i b d).
Proof.
  intros H0 H. revert i; induction H as [|x y a b Hxy Hab IH]; intros [|i]; simpl; auto.
Qed.

Lemma Forall2_length' {A} (R : A -> A -> Prop) (a b : list A) : Forall2 R a b -> length a = length b.
Proof. intros H; induction H; simpl; auto. Qed.

Lemma Forall2_map' {A B} (R : A -> A -> Prop) (S : B -> B -> Prop) (f g : A -> B) (a b : list A) :
  (forall x y, R x y -> S (f x) (g y)) -> Forall2 R a b -> Forall2 S (map f a) (map g b).
Proof. intros H H2; induction H2; simpl; constructor; auto. Qed.

Lemma Forall2_map_same {A B} (S : B -> B -> Prop) (f g : A -> B) (l : list A) :
  (forall x, In x l -> S (f x) (g x)) -> Forall2 S (map f l) (map g l).
Proof.
  induction l as [|a l IH]; intros H; simpl; constructor.
  - apply H. left. reflexivity.
  - apply IH. intros x Hx. apply H. right. exact Hx.
Qed.

(** * Rows up to the order of the stored entries and [==] on the weights *)

Definition ent_eq (e e' : nat * Q) : Prop := fst e = fst e' /\ (snd e == snd e')%Q.
Definition row_sim (r r' : wrow) : Prop := exists m, Permutation r m /\ Forall2 ent_eq m r'.

Lemma ent_eq_refl e : ent_eq e e.
Proof. split; reflexivity. Qed.

Lemma Forall2_ent_eq_refl r : Forall2 ent_eq r r.
Proof. induction r; constructor; auto using ent_eq_refl. Qed.

Lemma row_sim_refl r : row_sim r r.
Proof. exists r. split; [apply Permutation_refl|apply Forall2_ent_eq_refl]. Qed.

Lemma row_sim_of_Permutation r r' : Permutation r r' -> row_sim r r'.
Proof. intros H. exists r'. split; [exact H|apply Forall2_ent_eq_refl]. Qed.

Lemma row_sim_length r r' : row_sim r r' -> length r = length r'.
Proof.
  intros [m [P F]]. rewrite (Permutation_length P). exact (Forall2_length' _ _ _ F).
Qed.

Lemma row_sim_cons a b r r' : ent_eq a b -> row_sim r r' -> row_sim (a :: r) (b :: r').
Proof.
  intros E [m [P F]]. exists (a :: m). split; [constructor; exact P|constructor; assumption].
Qed.

Lemma row_sim_map (f g : nat * Q -> nat * Q) r r' :
  (forall x y, ent_eq x y -> ent_eq (f x) (g y)) -> row_sim r r' -> row_sim (map f r) (map g r').
Proof.
  intros H [m [P F]]. exists (map f m). split; [apply Permutation_map; exact P|].
  exact (Forall2_map' ent_eq ent_eq f g m r' H F).
Qed.

Lemma sumq_Forall2 (f : nat * Q -> Q) m r :
  (forall x y, ent_eq x y -> (f x == f y)%Q) -> Forall2 ent_eq m r ->
  (sumq (map f m) == sumq (map f r))%Q.
Proof.
  intros H F; induction F as [|x y m r E F IH]; simpl; [reflexivity|].
  rewrite IH, (H x y E). reflexivity.
Qed.

Lemma sumq_row_sim (f : nat * Q -> Q) r r' :
  (forall x y, ent_eq x y -> (f x == f y)%Q) -> row_sim r r' ->
  (sumq (map f r) == sumq (map f r'))%Q.
Proof.
  intros H [m [P F]].
  rewrite (sumq_Permutation (map f r) (map f m)) by (apply Permutation_map; exact P).
  apply sumq_Forall2; assumption.
Qed.

Lemma dot_row_sim r r' v : row_sim r r' -> (dot_row r v == dot_row r' v)%Q.
Proof.
  intros H. unfold dot_row. apply sumq_row_sim; [|exact H].
  intros x y [E1 E2]. rewrite E1, E2. reflexivity.
Qed.

Lemma row_norm_sim r r' : row_sim r r' -> (row_norm r == row_norm r')%Q.
Proof.
  intros H. unfold row_norm. apply sumq_row_sim; [|exact H].
  intros x y [_ E2]. rewrite E2. reflexivity.
Qed.

Lemma normalize_row_sim r r' : row_sim r r' -> row_sim (normalize_row r) (normalize_row r').
Proof.
  intros H. pose proof (row_norm_sim r r' H) as En. unfold normalize_row.
  assert (Eb : Qeq_bool (row_norm r) 0 = Qeq_bool (row_norm r') 0).
  { destruct (Qeq_bool (row_norm r) 0) eqn:E1, (Qeq_bool (row_norm r') 0) eqn:E2; auto.
    - apply Qeq_bool_iff in E1. apply Qeq_bool_neq in E2. exfalso. apply E2. rewrite <- En. exact E1.
    - apply Qeq_bool_iff in E2. apply Qeq_bool_neq in E1. exfalso. apply E1. rewrite En. exact E2. }
  rewrite <- Eb. destruct (Qeq_bool (row_norm r) 0) eqn:E1; [apply row_sim_refl|].
  apply row_sim_map; [|exact H].
  intros x y [X1 X2]. split; cbn [fst snd]; [exact X1|]. rewrite X2, En. reflexivity.
Qed.

Definition rows_sim (a b : list wrow) : Prop := Forall2 row_sim a b.

Lemma rows_sim_of_Permutation a b : Forall2 (@Permutation (nat * Q)) a b -> rows_sim a b.
Proof. intros H; induction H; constructor; auto using row_sim_of_Permutation. Qed.

Lemma rows_sim_nth a b i : rows_sim a b -> row_sim (wrow_of a i) (wrow_of b i).
Proof. intros H. unfold wrow_of. apply Forall2_nth_gen; [apply row_sim_refl|exact H]. Qed.

Lemma normalize_rows_sim a b : rows_sim a b -> rows_sim (normalize a) (normalize b).
Proof. intros H; induction H; simpl; constructor; auto using normalize_row_sim. Qed.

(** C01: the product does not see the order of the stored entries (Leibniz, through [Qred]). *)
Lemma matvec_rows_sim a b v : rows_sim a b -> matvec a v = matvec b v.
Proof.
  intros H; induction H as [|r r' a b Hr Hab IH]; simpl; [reflexivity|].
  f_equal; [|exact IH]. apply Qred_complete. apply dot_row_sim. exact Hr.
Qed.

Lemma iterate_ext {A} (f g : A -> A) k x : (forall y, f y = g y) -> iterate k f x = iterate k g x.
Proof.
  intros H. revert x; induction k as [|k IH]; intros x; simpl; [reflexivity|]. rewrite H. apply IH.
Qed.

Lemma dirichlet_core_rows_sim n_iter a b border temps :
  rows_sim a b -> dirichlet_core n_iter a border temps = dirichlet_core n_iter b border temps.
Proof.
  intros H. unfold dirichlet_core. apply iterate_ext. intros v. unfold dirichlet_step.
  rewrite (matvec_rows_sim (normalize a) (normalize b) v) by (apply normalize_rows_sim; exact H).
  reflexivity.
Qed.

(* C01 *)
Theorem matvec_row_order_irrelevant rows rows' v :
  Forall2 (@Permutation (nat * Q)) rows rows' -> matvec rows v = matvec rows' v.
Proof. intros H. apply matvec_rows_sim. apply rows_sim_of_Permutation. exact H. Qed.

(* C01 *)
Theorem normalize_row_order rows rows' :
  Forall2 (@Permutation (nat * Q)) rows rows' -> rows_sim (normalize rows) (normalize rows').
Proof. intros H. apply normalize_rows_sim. apply rows_sim_of_Permutation. exact H. Qed.

(* C01 *)
Theorem dirichlet_core_row_order_irrelevant n_iter rows rows' border temps :
  Forall2 (@Permutation (nat * Q)) rows rows' ->
  dirichlet_core n_iter rows border temps = dirichlet_core n_iter rows' border temps.
Proof. intros H. apply dirichlet_core_rows_sim. apply rows_sim_of_Permutation. exact H. Qed.

(** * C1: one Dirichlet step commutes with renumbering *)

Definition renum (p : list nat) (r : wrow) : wrow := map (fun e : nat * Q => (nthn p (fst e), snd e)) r.

Lemma row_norm_renum p r : row_norm (renum p r) = row_norm r.
Proof. unfold row_norm, renum. rewrite map_map. reflexivity. Qed.

Lemma normalize_row_renum p r : normalize_row (renum p r) = renum p (normalize_row r).
Proof.
  unfold normalize_row. rewrite row_norm_renum. destruct (Qeq_bool (row_norm r) 0); [reflexivity|].
  unfold renum. rewrite !map_map. reflexivity.
Qed.

(** [normalize] is row-wise: it commutes exactly with P . P^T (no hypothesis at all). *)
Lemma normalize_perm p adj : normalize (perm_wrows p adj) = perm_wrows p (normalize adj).
Proof.
  unfold perm_wrows, perm_bip, normalize at 1. rewrite map_map. apply map_ext. intros k.
  change (normalize_row (renum p (nth (index_of k p) adj [])) = renum p (nth (index_of k p) (normalize adj) [])).
  rewrite normalize_row_renum. f_equal. symmetry. apply (wrow_of_normalize adj (index_of k p)).
Qed.

Lemma wf_of_diffusion_wf n rows : wf_rows n rows -> Format.wf_rows n rows.
Proof.
  intros W. unfold Format.wf_rows. apply Forall_forall. intros r Hr. apply Forall_forall. intros e He.
  exact (proj1 (W r e Hr He)).
Qed.

Lemma format_wf_normalize n rows : Format.wf_rows n rows -> Format.wf_rows n (normalize rows).
Proof.
  unfold Format.wf_rows. intros W. unfold normalize. apply Forall_forall. intros r Hr.
  apply in_map_iff in Hr. destruct Hr as [r0 [E Hr0]]. subst r.
  rewrite Forall_forall in W. specialize (W r0 Hr0). unfold normalize_row.
  destruct (Qeq_bool (row_norm r0) 0); [constructor|].
  apply Forall_forall. intros e He. apply in_map_iff in He. destruct He as [e0 [E He0]]. subst e.
  cbn [fst]. rewrite Forall_forall in W. exact (W e0 He0).
Qed.

Section PermC.
Context (n : nat) (p : list nat) (Hp : Permutation p (seq 0 n)).

Lemma dot_row_renum r v :
  Forall (fun e : nat * Q => fst e < n) r -> dot_row (renum p r) (perm_vecq p v) = dot_row r v.
Proof.
  intros W. unfold dot_row, renum. rewrite map_map. f_equal. apply map_ext_in. intros e He.
  cbn [fst snd]. f_equal. unfold nthq. apply (FormatProofs.perm_vec_nth n p Hp).
  rewrite Forall_forall in W. exact (W e He).
Qed.

Lemma wrow_of_perm_inv adj k :
  k < n -> wrow_of (perm_wrows p adj) k = renum p (wrow_of adj (index_of k p)).
Proof.
  intros Hk. unfold wrow_of, perm_wrows, perm_bip. rewrite (FormatProofs.perm_length n p Hp).
  apply (nth_map_seq (fun k0 => map (fun e : nat * Q => (nthn p (fst e), snd e)) (nth (index_of k0 p) adj []))).
  exact Hk.
Qed.

Lemma wrow_of_perm adj i :
  i < n -> wrow_of (perm_wrows p adj) (nthn p i) = renum p (wrow_of adj i).
Proof.
  intros Hi. rewrite wrow_of_perm_inv by (apply (FormatProofs.perm_lt n p Hp); exact Hi).
  rewrite (FormatProofs.perm_index_of n p Hp) by exact Hi. reflexivity.
Qed.

Lemma perm_wrows_length adj : length (perm_wrows p adj) = n.
Proof.
  unfold perm_wrows, perm_bip. rewrite map_length, seq_length. exact (FormatProofs.perm_length n p Hp).
Qed.

Lemma format_wf_wrow_of adj i : Format.wf_rows n adj -> Forall (fun e : nat * Q => fst e < n) (wrow_of adj i).
Proof.
  intros W. apply Forall_forall. intros e He. exact (FormatProofs.wf_rows_nth n adj i e W He).
Qed.

(** (P A P^T)(P x) = P (A x) for the product that reduces what it stores. *)
Lemma dmatvec_perm (a : list wrow) (x : list Q) :
  Format.wf_rows n a ->
  matvec (perm_wrows p a) (perm_vecq p x) = perm_vecq p (matvec a x).
Proof.
  intros W. unfold matvec at 1, perm_wrows, perm_bip, perm_vecq at 2, perm_vec.
  rewrite map_map. apply map_ext. intros k.
  change (Qred (dot_row (renum p (wrow_of a (index_of k p))) (perm_vecq p x))
          = nth (index_of k p) (matvec a x) 0%Q).
  rewrite dot_row_renum by (apply format_wf_wrow_of; exact W).
  unfold matvec, wrow_of. symmetry.
  exact (map_nth (fun r => Qred (dot_row r x)) a [] (index_of k p)).
Qed.

Lemma clamp_perm border temps w :
  length w = n ->
  clamp (perm_vecb p border) (perm_vecq p temps) (perm_vecq p w) = perm_vecq p (clamp border temps w).
Proof.
  intros Hw. unfold clamp at 1. unfold perm_vecq at 3. rewrite (FormatProofs.perm_vec_length n p Hp).
  unfold perm_vecq at 3, perm_vec. rewrite (FormatProofs.perm_length n p Hp).
  apply map_ext_in. intros k Hk. apply in_seq in Hk.
  assert (Hk' : k < n) by lia.
  pose proof (FormatProofs.perm_index_lt n p Hp k Hk') as Hi.
  change (nth (index_of k p) (clamp border temps w) 0%Q) with (nthq (clamp border temps w) (index_of k p)).
  rewrite nth_clamp by lia.
  unfold nthb, nthq, perm_vecb, perm_vecq.
  rewrite !(FormatProofs.perm_vec_nth_inv n p Hp) by exact Hk'. reflexivity.
Qed.

Theorem dirichlet_step_perm P border temps v :
  length P = n -> Format.wf_rows n P ->
  dirichlet_step (perm_wrows p P) (perm_vecb p border) (perm_vecq p temps) (perm_vecq p v)
  = perm_vecq p (dirichlet_step P border temps v).
Proof.
  intros HL W. unfold dirichlet_step. rewrite dmatvec_perm by exact W.
  apply clamp_perm. rewrite matvec_length. exact HL.
Qed.

Theorem dirichlet_core_perm n_iter adj border temps :
  length adj = n -> Format.wf_rows n adj ->
  dirichlet_core n_iter (perm_wrows p adj) (perm_vecb p border) (perm_vecq p temps)
  = perm_vecq p (dirichlet_core n_iter adj border temps).
Proof.
  intros HL W. unfold dirichlet_core. rewrite normalize_perm.
  induction n_iter as [|k IH]; [reflexivity|].
  rewrite !iterate_S, IH.
  apply dirichlet_step_perm; [rewrite normalize_length; exact HL|apply format_wf_normalize; exact W].
Qed.

End PermC.

(** * C2: the diffusion operator (normalised TRANSPOSE, damped) *)

(** Row j of the transpose, and row i of the operator, as functions of the index. *)
Definition trow (adj : list wrow) (j : nat) : wrow :=
  flat_map (fun i => map (fun e : nat * Q => (i, snd e))
                         (filter (fun e : nat * Q => Nat.eqb (fst e) j) (wrow_of adj i)))
           (seq 0 (length adj)).
Definition dflt (i : nat) (r : wrow) : wrow := match r with [] => [(i, 1%Q)] | x :: t => x :: t end.
Definition op_row (alpha : Q) (adj : list wrow) (i : nat) : wrow :=
  (i, (1 - alpha)%Q) :: map (fun e : nat * Q => (fst e, (alpha * snd e)%Q)) (dflt i (normalize_row (trow adj i))).

Lemma diffusion_operator_rows alpha adj :
  diffusion_operator alpha adj = map (op_row alpha adj) (seq 0 (length adj)).
Proof.
  unfold diffusion_operator. apply map_ext_in. intros i Hi. apply in_seq in Hi.
  rewrite wrow_of_normalize.
  change (w_rows (transpose {| w_ncol := length adj; w_rows := adj |}))
    with (map (trow adj) (seq 0 (length adj))).
  unfold wrow_of at 1. rewrite (nth_map_seq (trow adj) (length adj) i []) by lia.
  reflexivity.
Qed.

Lemma wrow_of_diffusion_operator alpha adj i :
  i < length adj -> wrow_of (diffusion_operator alpha adj) i = op_row alpha adj i.
Proof.
  intros Hi. rewrite diffusion_operator_rows. unfold wrow_of.
  exact (nth_map_seq (op_row alpha adj) (length adj) i [] Hi).
Qed.

Lemma trow_cols adj j : Forall (fun e : nat * Q => fst e < length adj) (trow adj j).
Proof.
  apply Forall_forall. intros e He. unfold trow in He. apply in_flat_map in He.
  destruct He as [i [Hi He]]. apply in_seq in Hi. apply in_map_iff in He. destruct He as [e0 [E _]].
  subst e. cbn [fst]. lia.
Qed.

Lemma normalize_row_cols m r :
  Forall (fun e : nat * Q => fst e < m) r -> Forall (fun e : nat * Q => fst e < m) (normalize_row r).
Proof.
  intros W. unfold normalize_row. destruct (Qeq_bool (row_norm r) 0); [constructor|].
  apply Forall_forall. intros e He. apply in_map_iff in He. destruct He as [e0 [E He0]]. subst e.
  cbn [fst]. rewrite Forall_forall in W. exact (W e0 He0).
Qed.

Lemma op_row_cols alpha adj i :
  i < length adj -> Forall (fun e : nat * Q => fst e < length adj) (op_row alpha adj i).
Proof.
  intros Hi. unfold op_row. constructor; [exact Hi|].
  apply Forall_forall. intros e He. apply in_map_iff in He. destruct He as [e0 [E He0]]. subst e.
  cbn [fst]. pose proof (normalize_row_cols (length adj) (trow adj i) (trow_cols adj i)) as W.
  unfold dflt in He0. destruct (normalize_row (trow adj i)) as [|x t].
  - destruct He0 as [E|[]]. subst e0. exact Hi.
  - rewrite Forall_forall in W. exact (W e0 He0).
Qed.

Lemma dflt_sim i r r' : row_sim r r' -> row_sim (dflt i r) (dflt i r').
Proof.
  intros H. pose proof (row_sim_length r r' H) as L.
  destruct r as [|x t], r' as [|y t']; simpl in L; try discriminate; [apply row_sim_refl|exact H].
Qed.

Lemma renum_dflt p i r : renum p (dflt i r) = dflt (nthn p i) (renum p r).
Proof. destruct r; reflexivity. Qed.

Lemma op_row_sim_gen alpha i t t' :
  row_sim t t' ->
  row_sim ((i, (1 - alpha)%Q) :: map (fun e : nat * Q => (fst e, (alpha * snd e)%Q)) (dflt i (normalize_row t)))
          ((i, (1 - alpha)%Q) :: map (fun e : nat * Q => (fst e, (alpha * snd e)%Q)) (dflt i (normalize_row t'))).
Proof.
  intros H. apply row_sim_cons; [apply ent_eq_refl|].
  apply row_sim_map.
  - intros x y [X1 X2]. split; cbn [fst snd]; [exact X1|]. rewrite X2. reflexivity.
  - apply dflt_sim. apply normalize_row_sim. exact H.
Qed.

(** C01 side: the transpose of a matrix whose rows are stored in another order has its rows in
    another order. *)
Lemma trow_Permutation a b j :
  Forall2 (@Permutation (nat * Q)) a b -> Permutation (trow a j) (trow b j).
Proof.
  intros H. unfold trow. rewrite <- (@Forall2_length' wrow _ a b H).
  apply Permutation_flat_map_pointwise. intros i _.
  apply Permutation_map. apply perm_filter. unfold wrow_of.
  apply (Forall2_nth_gen (@Permutation (nat * Q))); [constructor|exact H].
Qed.

Lemma diffusion_operator_rows_sim alpha a b :
  Forall2 (@Permutation (nat * Q)) a b ->
  rows_sim (diffusion_operator alpha a) (diffusion_operator alpha b).
Proof.
  intros H. rewrite !diffusion_operator_rows. rewrite <- (@Forall2_length' wrow _ a b H).
  unfold rows_sim. apply Forall2_map_same. intros i _.
  unfold op_row. apply op_row_sim_gen. apply row_sim_of_Permutation. apply trow_Permutation. exact H.
Qed.

(* C01 *)
Theorem diffusion_core_row_order_irrelevant n_iter alpha rows rows' temps :
  Forall2 (@Permutation (nat * Q)) rows rows' ->
  diffusion_core n_iter alpha rows temps = diffusion_core n_iter alpha rows' temps.
Proof.
  intros H. unfold diffusion_core. apply iterate_ext. intros v.
  apply matvec_rows_sim. apply diffusion_operator_rows_sim. exact H.
Qed.

(** C01, whole [fit]: two matrices whose rows list the same stored entries in another order. *)
Lemma nnz_row_order (a b : list wrow) :
  Forall2 (@Permutation (nat * Q)) a b -> map (@length (nat * Q)) a = map (@length (nat * Q)) b.
Proof. intros H; induction H as [|x y a b P H IH]; simpl; [reflexivity|]. rewrite IH, (Permutation_length P). reflexivity. Qed.

Lemma transpose_rows_trow m :
  w_rows (transpose m) = map (trow (w_rows m)) (seq 0 (w_ncol m)).
Proof. reflexivity. Qed.

Lemma block_undirected_row_order m m' :
  w_ncol m = w_ncol m' -> Forall2 (@Permutation (nat * Q)) (w_rows m) (w_rows m') ->
  Forall2 (@Permutation (nat * Q)) (block_undirected m) (block_undirected m').
Proof.
  intros HC H. unfold block_undirected. rewrite !transpose_rows_trow, <- HC.
  assert (HR : w_nrow m = w_nrow m') by (exact (@Forall2_length' wrow _ _ _ H)).
  rewrite <- HR. apply Forall2_app.
  - apply (Forall2_map' (@Permutation (nat * Q)) (@Permutation (nat * Q))); [|exact H].
    intros x y P. apply Permutation_map. exact P.
  - apply Forall2_map_same. intros j _. apply trow_Permutation. exact H.
Qed.

Lemma gav_row_order m m' fb values vr vc :
  w_ncol m = w_ncol m' -> Forall2 (@Permutation (nat * Q)) (w_rows m) (w_rows m') ->
  match get_adjacency_values m fb values vr vc, get_adjacency_values m' fb values vr vc with
  | Ok (adj, s, b), Ok (adj', s', b') => Forall2 (@Permutation (nat * Q)) adj adj' /\ s = s' /\ b = b'
  | Err e, Err e' => e = e'
  | _, _ => False
  end.
Proof.
  intros HC H. unfold get_adjacency_values.
  assert (HR : w_nrow m = w_nrow m') by (exact (@Forall2_length' wrow _ _ _ H)).
  assert (HN : nnz m = nnz m') by (unfold nnz; rewrite (nnz_row_order _ _ H); reflexivity).
  rewrite <- HN, <- HR, <- HC. destruct (Nat.eqb (nnz m) 0); [reflexivity|].
  destruct ((match vr, vc with None, None => fb | _, _ => true end) || negb (Nat.eqb (w_nrow m) (w_ncol m))).
  - destruct (match values with
              | None => stack_values (w_nrow m) (w_ncol m) vr vc (-1)%Q
              | Some _ => stack_values (w_nrow m) (w_ncol m) values None (-1)%Q
              end) as [v|e]; [|reflexivity].
    split; [apply block_undirected_row_order; assumption|split; reflexivity].
  - destruct (get_values (w_nrow m) values (-1)%Q) as [v|e]; [|reflexivity].
    split; [exact H|split; reflexivity].
Qed.

(* C01 *)
Theorem dirichlet_fit_row_order_irrelevant n_iter m m' values vr vc init fb :
  w_ncol m = w_ncol m' -> Forall2 (@Permutation (nat * Q)) (w_rows m) (w_rows m') ->
  dirichlet_fit n_iter m values vr vc init fb = dirichlet_fit n_iter m' values vr vc init fb.
Proof.
  intros HC H. unfold dirichlet_fit. destruct (Nat.eqb n_iter 0); [reflexivity|].
  pose proof (gav_row_order m m' fb values vr vc HC H) as G.
  assert (HR : w_nrow m = w_nrow m') by (exact (@Forall2_length' wrow _ _ _ H)).
  destruct (get_adjacency_values m fb values vr vc) as [[[adj s] b]|e],
           (get_adjacency_values m' fb values vr vc) as [[[adj' s'] b']|e']; try contradiction.
  - destruct G as [G1 [G2 G3]]. subst s' b'.
    destruct (init_temperatures s init) as [[temps border]|e]; [|reflexivity].
    rewrite (dirichlet_core_row_order_irrelevant n_iter adj adj' border temps G1), HR. reflexivity.
  - subst e'. reflexivity.
Qed.

(* C01 *)
Theorem diffusion_fit_row_order_irrelevant n_iter alpha m m' values vr vc init fb :
  w_ncol m = w_ncol m' -> Forall2 (@Permutation (nat * Q)) (w_rows m) (w_rows m') ->
  diffusion_fit n_iter alpha m values vr vc init fb = diffusion_fit n_iter alpha m' values vr vc init fb.
Proof.
  intros HC H. unfold diffusion_fit. destruct (Nat.eqb n_iter 0); [reflexivity|].
  pose proof (gav_row_order m m' fb values vr vc HC H) as G.
  assert (HR : w_nrow m = w_nrow m') by (exact (@Forall2_length' wrow _ _ _ H)).
  destruct (get_adjacency_values m fb values vr vc) as [[[adj s] b]|e],
           (get_adjacency_values m' fb values vr vc) as [[[adj' s'] b']|e']; try contradiction.
  - destruct G as [G1 [G2 G3]]. subst s' b'.
    destruct (init_temperatures s init) as [[temps border]|e]; [|reflexivity].
    rewrite (diffusion_core_row_order_irrelevant n_iter alpha adj adj' temps G1), HR. reflexivity.
  - subst e'. reflexivity.
Qed.

Section PermD.
Context (n : nat) (p : list nat) (Hp : Permutation p (seq 0 n)).

Lemma map_nthn_seq : map (nthn p) (seq 0 n) = p.
Proof.
  apply nth_ext with (d := 0) (d' := 0).
  - rewrite map_length, seq_length. symmetry. exact (FormatProofs.perm_length n p Hp).
  - intros i Hi. rewrite map_length, seq_length in Hi.
    rewrite (nth_map_seq (nthn p) n i 0 Hi). reflexivity.
Qed.

(** Row p(i) of the transpose of P A P^T lists the renumbered entries of row i of the transpose of A
    in another order (the source rows are visited in the new numbering). *)
Lemma trow_perm (adj : list wrow) i :
  length adj = n -> Format.wf_rows n adj -> i < n ->
  Permutation (trow (perm_wrows p adj) (nthn p i)) (renum p (trow adj i)).
Proof.
  intros HL W Hi.
  set (G := fun k : nat => map (fun e : nat * Q => (k, snd e))
                              (filter (fun e : nat * Q => Nat.eqb (fst e) i) (wrow_of adj (index_of k p)))).
  assert (E1 : trow (perm_wrows p adj) (nthn p i) = flat_map G (seq 0 n)).
  { unfold trow. rewrite (perm_wrows_length n p Hp). apply flat_map_ext_in'. intros k Hk.
    apply in_seq in Hk. rewrite (wrow_of_perm_inv n p Hp) by lia.
    unfold renum. rewrite filter_map_comm, map_map. cbn [fst snd]. unfold G. f_equal.
    apply filter_ext_in. intros e He.
    pose proof (FormatProofs.wf_rows_nth n adj _ e W He) as Hc.
    destruct (Nat.eqb_spec (fst e) i) as [E|Ne].
    - rewrite E. apply Nat.eqb_refl.
    - apply Nat.eqb_neq. intros E. apply Ne. exact (FormatProofs.perm_inj n p Hp _ _ Hc Hi E). }
  assert (E2 : renum p (trow adj i) = flat_map G p).
  { rewrite <- map_nthn_seq at 2. rewrite flat_map_map'. unfold renum, trow. rewrite map_flat_map', HL.
    apply flat_map_ext_in'. intros k Hk. apply in_seq in Hk. rewrite map_map. cbn [fst snd].
    unfold G. rewrite (FormatProofs.perm_index_of n p Hp) by lia. reflexivity. }
  rewrite E1, E2. apply Permutation_flat_map. apply Permutation_sym. exact Hp.
Qed.

Lemma op_row_perm alpha (adj : list wrow) i :
  length adj = n -> Format.wf_rows n adj -> i < n ->
  row_sim (op_row alpha (perm_wrows p adj) (nthn p i)) (renum p (op_row alpha adj i)).
Proof.
  intros HL W Hi.
  assert (E : renum p (op_row alpha adj i)
              = (nthn p i, (1 - alpha)%Q)
                :: map (fun e : nat * Q => (fst e, (alpha * snd e)%Q))
                       (dflt (nthn p i) (normalize_row (renum p (trow adj i))))).
  { unfold op_row. rewrite normalize_row_renum, <- renum_dflt. unfold renum. cbn [map fst snd].
    rewrite !map_map. reflexivity. }
  rewrite E. unfold op_row. apply op_row_sim_gen. apply row_sim_of_Permutation.
  apply trow_perm; assumption.
Qed.

Lemma diffusion_operator_row_perm alpha (adj : list wrow) i :
  length adj = n -> Format.wf_rows n adj -> i < n ->
  row_sim (wrow_of (diffusion_operator alpha (perm_wrows p adj)) (nthn p i))
          (renum p (wrow_of (diffusion_operator alpha adj) i)).
Proof.
  intros HL W Hi.
  rewrite wrow_of_diffusion_operator
    by (rewrite (perm_wrows_length n p Hp); apply (FormatProofs.perm_lt n p Hp); exact Hi).
  rewrite wrow_of_diffusion_operator by (rewrite HL; exact Hi).
  apply op_row_perm; assumption.
Qed.

Theorem diffusion_matvec_perm alpha (adj : list wrow) v :
  length adj = n -> Format.wf_rows n adj ->
  matvec (diffusion_operator alpha (perm_wrows p adj)) (perm_vecq p v)
  = perm_vecq p (matvec (diffusion_operator alpha adj) v).
Proof.
  intros HL W. rewrite (diffusion_operator_rows alpha (perm_wrows p adj)), (perm_wrows_length n p Hp).
  unfold matvec at 1. unfold perm_vecq at 2, perm_vec. rewrite (FormatProofs.perm_length n p Hp).
  rewrite map_map. apply map_ext_in. intros k Hk. apply in_seq in Hk.
  assert (Hk' : k < n) by lia.
  pose proof (FormatProofs.perm_index_lt n p Hp k Hk') as Hi.
  change (nth (index_of k p) (matvec (diffusion_operator alpha adj) v) 0%Q)
    with (nthq (matvec (diffusion_operator alpha adj) v) (index_of k p)).
  rewrite nth_matvec by (rewrite diffusion_operator_length; lia).
  rewrite wrow_of_diffusion_operator by lia.
  apply Qred_complete.
  rewrite <- (FormatProofs.perm_index_nth n p Hp k Hk') at 1.
  rewrite (dot_row_sim _ _ (perm_vecq p v) (op_row_perm alpha adj (index_of k p) HL W Hi)).
  rewrite (dot_row_renum n p Hp); [reflexivity|].
  rewrite <- HL. apply op_row_cols. lia.
Qed.

Theorem diffusion_core_perm n_iter alpha (adj : list wrow) temps :
  length adj = n -> Format.wf_rows n adj ->
  diffusion_core n_iter alpha (perm_wrows p adj) (perm_vecq p temps)
  = perm_vecq p (diffusion_core n_iter alpha adj temps).
Proof.
  intros HL W. unfold diffusion_core.
  induction n_iter as [|k IH]; [reflexivity|].
  rewrite !iterate_S, IH. apply diffusion_matvec_perm; assumption.
Qed.

End PermD.

(** * C4: the whole [fit], square case, seeds given as an array *)

Definition perm_wmat (p : list nat) (m : wmat) : wmat :=
  {| w_ncol := w_ncol m; w_rows := perm_wrows p (w_rows m) |}.

Lemma gav_square m l :
  w_nrow m = w_ncol m ->
  get_adjacency_values m false (Some (SArray l)) None None =
  if Nat.eqb (nnz m) 0 then Err ValueError
  else if Nat.eqb (length l) (w_nrow m) then Ok (w_rows m, l, false) else Err ValueError.
Proof.
  intros H. unfold get_adjacency_values. destruct (Nat.eqb (nnz m) 0); [reflexivity|].
  rewrite <- H, Nat.eqb_refl. cbn [negb orb]. unfold get_values.
  destruct (Nat.eqb (length l) (w_nrow m)); reflexivity.
Qed.

Lemma qmean_Permutation u v : Permutation u v -> qmean u = qmean v.
Proof.
  intros H. unfold qmean. rewrite (Permutation_length H). apply Qred_complete.
  rewrite (sumq_Permutation u v H). reflexivity.
Qed.

Lemma init_temperatures_intro seeds init t0 :
  match init with
  | Some t => t0 = t
  | None => filter is_seed seeds <> [] /\ t0 = qmean (filter is_seed seeds)
  end ->
  init_temperatures seeds init
  = Ok (map (fun x => if is_seed x then x else t0) seeds, map is_seed seeds).
Proof.
  unfold init_temperatures. destruct init as [t|].
  - intros E. subst t0. reflexivity.
  - intros [Hne E]. destruct (filter is_seed seeds) as [|x sv] eqn:F; [contradiction|].
    subst t0. reflexivity.
Qed.

Section PermF.
Context (n : nat) (p : list nat) (Hp : Permutation p (seq 0 n)).

Lemma nnz_perm m : w_nrow m = n -> nnz (perm_wmat p m) = nnz m.
Proof.
  intros HL. unfold nnz, perm_wmat. cbn [w_rows].
  assert (E : map (@length (nat * Q)) (perm_wrows p (w_rows m))
              = perm_vec 0 p (map (@length (nat * Q)) (w_rows m))).
  { unfold perm_wrows, perm_bip, perm_vec. rewrite map_map. apply map_ext. intros k.
    rewrite map_length. symmetry.
    exact (map_nth (@length (nat * Q)) (w_rows m) [] (index_of k p)). }
  rewrite E. apply sumn_Permutation. apply (FormatProofs.perm_vec_Permutation n); [exact Hp|].
  rewrite map_length. exact HL.
Qed.

(** The start temperatures of the renumbered seeds are the renumbered start temperatures (the mean of
    the seeds is a reduced sum over a permutation of the same list). *)
Theorem init_temperatures_perm seeds init temps border :
  length seeds = n ->
  init_temperatures seeds init = Ok (temps, border) ->
  init_temperatures (perm_vecq p seeds) init = Ok (perm_vecq p temps, perm_vecb p border).
Proof.
  intros HL E. apply init_temperatures_spec in E. destruct E as [t0 [Eb [Et Ht0]]].
  assert (PF : Permutation (filter is_seed (perm_vecq p seeds)) (filter is_seed seeds)).
  { apply perm_filter. apply (FormatProofs.perm_vec_Permutation n); assumption. }
  rewrite (init_temperatures_intro (perm_vecq p seeds) init t0).
  - subst temps border. unfold perm_vecq, perm_vecb.
    rewrite (FormatProofs.map_perm n p (fun x => if is_seed x then x else t0) 0%Q 0%Q seeds Hp HL).
    rewrite (FormatProofs.map_perm n p is_seed 0%Q false seeds Hp HL). reflexivity.
  - destruct init as [t|]; [exact Ht0|]. destruct Ht0 as [Hne Et0]. split.
    + intros En. rewrite En in PF. apply Permutation_nil in PF. exact (Hne PF).
    + rewrite Et0. symmetry. apply qmean_Permutation. exact PF.
Qed.

Theorem dirichlet_fit_perm n_iter m l init v :
  w_nrow m = n -> w_ncol m = n -> Format.wf_rows n (w_rows m) ->
  dirichlet_fit n_iter m (Some (SArray l)) None None init false = Ok (v, None) ->
  dirichlet_fit n_iter (perm_wmat p m) (Some (SArray (perm_vecq p l))) None None init false
  = Ok (perm_vecq p v, None).
Proof.
  intros HR HC W. unfold dirichlet_fit. destruct (Nat.eqb n_iter 0); [discriminate|].
  assert (HR' : w_nrow (perm_wmat p m) = n) by (exact (perm_wrows_length n p Hp (w_rows m))).
  rewrite !gav_square by (try rewrite HR'; try rewrite HR; symmetry; exact HC).
  rewrite (nnz_perm m HR), HR', HR. unfold perm_vecq at 1. rewrite (FormatProofs.perm_vec_length n p Hp).
  rewrite Nat.eqb_refl. destruct (Nat.eqb (nnz m) 0); [discriminate|].
  destruct (Nat.eqb (length l) n) eqn:EL; [|discriminate]. apply Nat.eqb_eq in EL.
  destruct (init_temperatures l init) as [[temps border]|e] eqn:EI; [|discriminate].
  rewrite (init_temperatures_perm l init temps border EL EI).
  unfold split_vars. intros E. inversion E. cbn [perm_wmat w_rows].
  rewrite (dirichlet_core_perm n p Hp n_iter (w_rows m) border temps HR W). reflexivity.
Qed.

Theorem diffusion_fit_perm n_iter alpha m l init v :
  w_nrow m = n -> w_ncol m = n -> Format.wf_rows n (w_rows m) ->
  diffusion_fit n_iter alpha m (Some (SArray l)) None None init false = Ok (v, None) ->
  diffusion_fit n_iter alpha (perm_wmat p m) (Some (SArray (perm_vecq p l))) None None init false
  = Ok (perm_vecq p v, None).
Proof.
  intros HR HC W. unfold diffusion_fit. destruct (Nat.eqb n_iter 0); [discriminate|].
  assert (HR' : w_nrow (perm_wmat p m) = n) by (exact (perm_wrows_length n p Hp (w_rows m))).
  rewrite !gav_square by (try rewrite HR'; try rewrite HR; symmetry; exact HC).
  rewrite (nnz_perm m HR), HR', HR. unfold perm_vecq at 1. rewrite (FormatProofs.perm_vec_length n p Hp).
  rewrite Nat.eqb_refl. destruct (Nat.eqb (nnz m) 0); [discriminate|].
  destruct (Nat.eqb (length l) n) eqn:EL; [|discriminate]. apply Nat.eqb_eq in EL.
  destruct (init_temperatures l init) as [[temps border]|e] eqn:EI; [|discriminate].
  rewrite (init_temperatures_perm l init temps border EL EI).
  unfold split_vars. intros E. inversion E. cbn [perm_wmat w_rows].
  rewrite (diffusion_core_perm n p Hp n_iter alpha (w_rows m) temps HR W). reflexivity.
Qed.

End PermF.

(** * C3: the textbook Dirichlet problem is equivariant *)

Section PermH.
Context (n : nat) (p : list nat) (Hp : Permutation p (seq 0 n)).

Theorem harmonic_perm (adj : list wrow) border temps f :
  length adj = n -> Format.wf_rows n adj ->
  harmonic adj border temps f ->
  harmonic (perm_wrows p adj) (perm_vecb p border) (perm_vecq p temps) (perm_vecq p f).
Proof.
  intros HL W [Hlen H]. split.
  - unfold perm_vecq. rewrite (FormatProofs.perm_vec_length n p Hp), (perm_wrows_length n p Hp). reflexivity.
  - rewrite (perm_wrows_length n p Hp). intros k Hk.
    pose proof (FormatProofs.perm_index_lt n p Hp k Hk) as Hi.
    specialize (H (index_of k p)). rewrite HL in H. specialize (H Hi).
    unfold nthb, nthq, perm_vecb, perm_vecq in *.
    rewrite !(FormatProofs.perm_vec_nth_inv n p Hp) by exact Hk.
    rewrite (wrow_of_perm_inv n p Hp) by exact Hk.
    rewrite normalize_row_renum.
    change (perm_vec 0%Q p f) with (perm_vecq p f).
    rewrite (dot_row_renum n p Hp)
      by (apply normalize_row_cols; apply (format_wf_wrow_of n); exact W).
    exact H.
Qed.

(** Transport of the hypotheses of the uniqueness theorems (C14) to the renumbered graph. *)
Lemma diffusion_wf_perm (adj : list wrow) :
  wf_rows n adj -> wf_rows n (perm_wrows p adj).
Proof.
  intros W r e Hr He. unfold perm_wrows, perm_bip in Hr. apply in_map_iff in Hr.
  destruct Hr as [k [E _]]. subst r. apply in_map_iff in He. destruct He as [e0 [E He0]]. subst e.
  cbn [fst snd]. pose proof (wf_rows_wrow_of n adj (index_of k p) e0 W He0) as [H1 H2].
  split; [apply (FormatProofs.perm_lt n p Hp); exact H1|exact H2].
Qed.

Lemma edge_perm (adj : list wrow) i j :
  i < n -> edge adj i j -> edge (perm_wrows p adj) (nthn p i) (nthn p j).
Proof.
  intros Hi [w [Hin Hw]]. exists w. split; [|exact Hw].
  rewrite (wrow_of_perm n p Hp) by exact Hi. unfold renum.
  apply in_map_iff. exists (j, w). split; [reflexivity|exact Hin].
Qed.

Lemma path_perm (adj : list wrow) i j :
  wf_rows n adj -> i < n -> path adj i j -> path (perm_wrows p adj) (nthn p i) (nthn p j).
Proof.
  intros W Hi P. induction P as [i|i j k E P IH]; [apply path_refl|].
  apply (path_step _ _ (nthn p j)); [apply edge_perm; assumption|].
  apply IH. destruct E as [w [Hin _]].
  exact (proj1 (wf_rows_wrow_of n adj i (j, w) W Hin)).
Qed.

Lemma connected_perm (adj : list wrow) :
  length adj = n -> wf_rows n adj -> connected adj -> connected (perm_wrows p adj).
Proof.
  intros HL W C k l Hk Hl. rewrite (perm_wrows_length n p Hp) in Hk, Hl.
  rewrite <- (FormatProofs.perm_index_nth n p Hp k Hk), <- (FormatProofs.perm_index_nth n p Hp l Hl).
  pose proof (FormatProofs.perm_index_lt n p Hp k Hk) as Hi.
  pose proof (FormatProofs.perm_index_lt n p Hp l Hl) as Hj.
  apply path_perm; [exact W|exact Hi|]. apply C; rewrite HL; assumption.
Qed.

Lemma reaches_border_perm (adj : list wrow) border :
  length adj = n -> wf_rows n adj -> reaches_border adj border ->
  reaches_border (perm_wrows p adj) (perm_vecb p border).
Proof.
  intros HL W R k Hk. rewrite (perm_wrows_length n p Hp) in *.
  pose proof (FormatProofs.perm_index_lt n p Hp k Hk) as Hi.
  destruct (R (index_of k p)) as [b [Hb [Bb Pb]]]; [rewrite HL; exact Hi|]. rewrite HL in Hb.
  exists (nthn p b). split; [apply (FormatProofs.perm_lt n p Hp); exact Hb|]. split.
  - unfold nthb, perm_vecb. rewrite (FormatProofs.perm_vec_nth n p Hp) by exact Hb. exact Bb.
  - rewrite <- (FormatProofs.perm_index_nth n p Hp k Hk) at 1. apply path_perm; assumption.
Qed.

(** The harmonic solution of the renumbered problem is the renumbered harmonic solution
    (hypotheses on the ORIGINAL graph only). *)
Theorem harmonic_solution_perm_reach (adj : list wrow) border temps h g :
  length adj = n -> wf_rows n adj -> reaches_border adj border ->
  harmonic adj border temps h ->
  harmonic (perm_wrows p adj) (perm_vecb p border) (perm_vecq p temps) g ->
  forall k, k < n -> (nthq g k == nthq (perm_vecq p h) k)%Q.
Proof.
  intros HL W R Hh Hg k Hk.
  apply (harmonic_unique_reach (perm_wrows p adj) (perm_vecb p border) (perm_vecq p temps) g (perm_vecq p h)).
  - rewrite (perm_wrows_length n p Hp). apply diffusion_wf_perm. exact W.
  - apply reaches_border_perm; assumption.
  - exact Hg.
  - apply harmonic_perm; [exact HL|apply wf_of_diffusion_wf; exact W|exact Hh].
  - rewrite (perm_wrows_length n p Hp). exact Hk.
Qed.

Theorem harmonic_solution_perm_connected (adj : list wrow) border temps h g :
  length adj = n -> wf_rows n adj -> connected adj ->
  (exists s, s < n /\ nthb border s = true) ->
  harmonic adj border temps h ->
  harmonic (perm_wrows p adj) (perm_vecb p border) (perm_vecq p temps) g ->
  forall i, i < n -> (nthq g (nthn p i) == nthq h i)%Q.
Proof.
  intros HL W C S Hh Hg i Hi.
  assert (R : reaches_border adj border) by (apply connected_reaches; [exact C|rewrite HL; exact S]).
  rewrite (harmonic_solution_perm_reach adj border temps h g HL W R Hh Hg (nthn p i))
    by (apply (FormatProofs.perm_lt n p Hp); exact Hi).
  unfold nthq, perm_vecq. rewrite (FormatProofs.perm_vec_nth n p Hp) by exact Hi. reflexivity.
Qed.

End PermH.

End EqC.

(** * C6 (C01 side): the vote kernel (classification/vote.pyx) and the order of the stored entries *)
Module EqC_Vote.
Import Vote VoteProofs.

(** Two strictly increasing lists with the same elements are equal (std::set is canonical). *)
Lemma ssorted_ext (s t : list nat) :
  StronglySorted lt s -> StronglySorted lt t -> (forall x, In x s <-> In x t) -> s = t.
Proof.
  revert t; induction s as [|a s IH]; intros [|b t] Hs Ht H.
  - reflexivity.
  - exfalso. apply (proj2 (H b)). left. reflexivity.
  - exfalso. apply (proj1 (H a)). left. reflexivity.
  - inversion Hs as [|? ? Hs' Ha]; subst. inversion Ht as [|? ? Ht' Hb]; subst.
    rewrite Forall_forall in Ha, Hb.
    assert (E : a = b).
    { destruct (proj1 (H a) (or_introl eq_refl)) as [E|Hin]; [symmetry; exact E|].
      destruct (proj2 (H b) (or_introl eq_refl)) as [E|Hin2]; [exact E|].
      specialize (Ha _ Hin2). specialize (Hb _ Hin). lia. }
    subst b. f_equal. apply IH; [exact Hs'|exact Ht'|].
    intros x. split; intros Hx.
    + destruct (proj1 (H x) (or_intror Hx)) as [E|Hin]; [|exact Hin]. specialize (Ha _ Hx). lia.
    + destruct (proj2 (H x) (or_intror Hx)) as [E|Hin]; [|exact Hin]. specialize (Hb _ Hx). lia.
Qed.

(** Vote counters up to [==]. *)
Definition veq (v1 v2 : list Q) : Prop := length v1 = length v2 /\ forall l, (nthq v1 l == nthq v2 l)%Q.

Lemma veq_refl v : veq v v.
Proof. split; [reflexivity|]. intros l. reflexivity. Qed.

Lemma veq_upd v1 v2 l x y : veq v1 v2 -> (x == y)%Q -> veq (upd v1 l x) (upd v2 l y).
Proof.
  intros [HL HE] Hxy. split; [rewrite !upd_length; exact HL|].
  intros k. destruct (Nat.eq_dec l k) as [E|Ne].
  - subst k. destruct (Nat.lt_ge_cases l (length v1)) as [Hlt|Hge].
    + unfold nthq. rewrite !nth_upd_same by lia. exact Hxy.
    + unfold nthq. rewrite !nth_overflow by (rewrite upd_length; lia). reflexivity.
  - unfold nthq. rewrite !nth_upd_other by exact Ne. apply HE.
Qed.

(** When a loop stays within bounds. *)
Lemma gather_idx kv indices data labels js : forall ln vn r,
  gather kv indices data labels js ln vn = VOk r -> Forall (fun j => j < length indices) js.
Proof.
  induction js as [|j t IH]; intros ln vn r H; simpl in H; [constructor|].
  destruct (nth_error indices j) as [jj|] eqn:E1; [|discriminate].
  destruct (nth_error labels jj) as [l|] eqn:E2; [|discriminate].
  destruct (nth_error data (if wpos kv then j else jj)) as [w|] eqn:E3; [|discriminate].
  constructor; [eapply nth_error_lt; exact E1|]. eapply IH. exact H.
Qed.

Lemma gather_total kv indices data labels js : forall ln vn,
  Forall (fun j => j < length indices /\ nthn indices j < length labels /\
                   (if wpos kv then j else nthn indices j) < length data) js ->
  exists r, gather kv indices data labels js ln vn = VOk r.
Proof.
  induction js as [|j t IH]; intros ln vn F; simpl; [eexists; reflexivity|].
  inversion F as [|? ? [A [B C]] F']; subst. unfold nthn in B, C.
  rewrite (nth_error_nth' indices 0 A), (nth_error_nth' labels 0%Z B), (nth_error_nth' data 0%Q C).
  apply IH. exact F'.
Qed.

Lemma tally_dom ln : forall p vn uniq votes r,
  tally ln p vn uniq votes = VOk r ->
  forall l, In l ln -> (0 <= l)%Z -> Z.to_nat l < length votes.
Proof.
  induction ln as [|x t IH]; intros p vn uniq votes r H l Hl Hpos; [destruct Hl|]. simpl in H.
  destruct (x <? 0)%Z eqn:Ex.
  - destruct Hl as [E|Hl]; [subst x; apply Z.ltb_lt in Ex; lia|]. exact (IH _ _ _ _ _ H l Hl Hpos).
  - destruct (nth_error vn p) as [w|] eqn:E1; [|discriminate].
    destruct (nth_error votes (Z.to_nat x)) as [v|] eqn:E2; [|discriminate].
    destruct Hl as [E|Hl]; [subst x; eapply nth_error_lt; exact E2|].
    pose proof (IH _ _ _ _ _ H l Hl Hpos) as Hlt. rewrite upd_length in Hlt. exact Hlt.
Qed.

Lemma tally_total ln : forall p vn uniq votes,
  (forall l, In l ln -> (0 <= l)%Z -> Z.to_nat l < length votes) -> p + length ln <= length vn ->
  exists r, tally ln p vn uniq votes = VOk r.
Proof.
  induction ln as [|x t IH]; intros p vn uniq votes Hd Hlen; simpl; [eexists; reflexivity|].
  simpl in Hlen. destruct (x <? 0)%Z eqn:Ex.
  - apply IH; [|lia]. intros l Hl. apply Hd. right. exact Hl.
  - assert (A : p < length vn) by lia.
    assert (B : Z.to_nat x < length votes) by (apply Hd; [left; reflexivity|apply Z.ltb_ge; exact Ex]).
    rewrite (nth_error_nth' vn 0%Q A), (nth_error_nth' votes 0%Q B).
    apply IH; [|lia]. intros l Hl Hpos. rewrite upd_length. apply Hd; [right; exact Hl|exact Hpos].
Qed.

(** The arg-max loop only compares ([<=] on Q): it does not see the representation of the counters. *)
Lemma select_veq uniq : forall i b1 b2 labels v1 v2 lab' v1',
  veq v1 v2 -> (b1 == b2)%Q -> select uniq i b1 labels v1 = VOk (lab', v1') ->
  exists v2', select uniq i b2 labels v2 = VOk (lab', v2') /\ veq v1' v2'.
Proof.
  induction uniq as [|l t IH]; intros i b1 b2 labels v1 v2 lab' v1' HV Hb H; simpl in H |- *.
  - inversion H; subst. eexists. split; [reflexivity|exact HV].
  - destruct (nth_error v1 l) as [x|] eqn:E1; [|discriminate].
    assert (Hlt : l < length v2) by (rewrite <- (proj1 HV); eapply nth_error_lt; exact E1).
    rewrite (nth_error_nth' v2 0%Q Hlt). fold (nthq v2 l).
    assert (Hx : (x == nthq v2 l)%Q) by (rewrite <- (proj2 HV l), (nth_error_nthq _ _ _ E1); reflexivity).
    assert (Eb : Qle_bool x b1 = Qle_bool (nthq v2 l) b2) by (rewrite Hx, Hb; reflexivity).
    rewrite <- Eb. destruct (Qle_bool x b1).
    + apply (IH i b1 b2 labels (upd v1 l 0%Q)); [apply veq_upd; [exact HV|reflexivity]|exact Hb|exact H].
    + destruct (i <? length labels); [|discriminate].
      apply (IH i x (nthq v2 l) _ (upd v1 l 0%Q)); [apply veq_upd; [exact HV|reflexivity]|exact Hx|exact H].
Qed.

(** The votes of a label are a sum over the neighbourhood: invariant under its rearrangements. *)
Lemma total_vote_Permutation nb nb' labels z :
  Permutation nb nb' -> (total_vote nb labels z == total_vote nb' labels z)%Q.
Proof.
  intros H. unfold total_vote. apply FormatProofs.sumq_Permutation. apply Permutation_map. exact H.
Qed.

(** Two CSR matrices with the same [indptr] whose row i stores the same (neighbour, weight) pairs. *)
Definition same_row (indptr indices indices' : list nat) (data data' : list Q) (i : nat) : Prop :=
  Permutation (nbrs_weighted indptr indices data i) (nbrs_weighted indptr indices' data' i).

Definition st_eq (s1 s2 : vstate) : Prop :=
  fst (fst s1) = fst (fst s2) /\ veq (snd (fst s1)) (snd (fst s2)).

Section Kernel.
Context (kv : kvariant) (Hclr : clr kv = true) (Hwpos : wpos kv = true).
Context (indptr indices indices' : list nat) (data data' : list Q).
Context (HLi : length indices = length indices') (HLd : length data = length data').

Lemma vote_node_transfer i st1 st2 st1' :
  same_row indptr indices indices' data data' i ->
  st_eq st1 st2 ->
  vote_node kv indptr indices data i st1 = VOk st1' ->
  exists st2', vote_node kv indptr indices' data' i st2 = VOk st2' /\ st_eq st1' st2'.
Proof.
  intros HP HS H.
  destruct st1 as [[labels votes] vn], st2 as [[labels2 votes2] vn2].
  destruct HS as [HSl HV]. cbn [fst snd] in HSl, HV. subst labels2.
  unfold vote_node in H |- *.
  destruct (nth_error indptr i) as [a|] eqn:Ea; [|discriminate].
  destruct (nth_error indptr (S i)) as [b|] eqn:Eb; [|discriminate].
  rewrite Hclr in H |- *.
  destruct (gather kv indices data labels (seq a (b - a)) [] []) as [[ln ws]|] eqn:Eg; [|discriminate].
  destruct (tally ln 0 ws [] votes) as [[uniq votes0]|] eqn:Et; [|discriminate].
  destruct (select uniq i (-1)%Q labels votes0) as [[lab1 votes1]|] eqn:Es; [|discriminate].
  inversion H; subst st1'. clear H.
  assert (Hrr : seq a (b - a) = row_range indptr i).
  { unfold row_range. rewrite (nth_error_nthn _ _ _ Ea), (nth_error_nthn _ _ _ Eb). reflexivity. }
  rewrite Hrr in Eg |- *. set (js := row_range indptr i) in *.
  unfold same_row, nbrs_weighted in HP. fold js in HP.
  pose proof (gather_idx _ _ _ _ _ _ _ _ Eg) as Gi.
  apply gather_ok in Eg. destruct Eg as [G1 [G2 G3]]. rewrite Hwpos in G2, G3. cbn [app] in G1, G2.
  (* the other matrix stays within bounds too *)
  assert (F2 : Forall (fun j => j < length indices' /\ nthn indices' j < length labels /\
                                (if wpos kv then j else nthn indices' j) < length data') js).
  { rewrite Hwpos. rewrite Forall_forall in Gi, G3 |- *. intros j Hj.
    split; [rewrite <- HLi; apply Gi; exact Hj|]. split; [|rewrite <- HLd; apply (G3 j Hj)].
    assert (Hin : In (nthn indices' j, nthq data' j) (map (fun j0 => (nthn indices j0, nthq data j0)) js)).
    { apply (Permutation_in _ (Permutation_sym HP)). apply in_map_iff. exists j. split; [reflexivity|exact Hj]. }
    apply in_map_iff in Hin. destruct Hin as [j0 [E Hj0]]. injection E as E1 E2.
    rewrite <- E1. apply (G3 j0 Hj0). }
  destruct (gather_total kv indices' data' labels js [] [] F2) as [[ln2 ws2] Eg2].
  rewrite Eg2. apply gather_ok in Eg2. destruct Eg2 as [G1' [G2' _]]. rewrite Hwpos in G2'. cbn [app] in G1', G2'.
  (* labels of the neighbours: a rearrangement *)
  assert (PL : Permutation ln ln2).
  { subst ln ln2.
    assert (E1 : map (fun j => nthz labels (nthn indices j)) js
                 = map (fun q : nat * Q => nthz labels (fst q)) (map (fun j => (nthn indices j, nthq data j)) js))
      by (rewrite map_map; reflexivity).
    assert (E2 : map (fun j => nthz labels (nthn indices' j)) js
                 = map (fun q : nat * Q => nthz labels (fst q)) (map (fun j => (nthn indices' j, nthq data' j)) js))
      by (rewrite map_map; reflexivity).
    rewrite E1, E2. apply Permutation_map. exact HP. }
  assert (T2 : exists r, tally ln2 0 ws2 [] votes2 = VOk r).
  { apply tally_total.
    - intros l Hl Hpos. rewrite <- (proj1 HV). apply (tally_dom _ _ _ _ _ _ Et l); [|exact Hpos].
      apply (Permutation_in _ (Permutation_sym PL)). exact Hl.
    - subst ln2 ws2. rewrite !map_length. lia. }
  destruct T2 as [[uniq2 votes02] Et2]. rewrite Et2.
  apply tally_ok in Et. destruct Et as [T1 [T3 T4]].
  apply tally_ok in Et2. destruct Et2 as [T1' [T3' T4']]. cbn [skipn] in T3, T3'.
  assert (Eu : uniq2 = uniq).
  { subst uniq uniq2. apply ssorted_ext; try (apply uniq_of_sorted; constructor).
    intros x. rewrite !uniq_of_In. split; intros [Hx|Hx]; try (destruct Hx); right.
    - apply (Permutation_in _ (Permutation_sym PL)). exact Hx.
    - apply (Permutation_in _ PL). exact Hx. }
  rewrite Eu. clear Eu T4'.
  assert (HV0 : veq votes0 votes02).
  { split; [rewrite T1, T1'; exact (proj1 HV)|]. intros l. rewrite T3, T3', (proj2 HV l).
    subst ln ws ln2 ws2. rewrite !wsum_map.
    rewrite <- (total_vote_map (nthn indices) (nthq data) js labels (Z.of_nat l)).
    rewrite <- (total_vote_map (nthn indices') (nthq data') js labels (Z.of_nat l)).
    rewrite (total_vote_Permutation _ _ labels (Z.of_nat l) HP). reflexivity. }
  destruct (select_veq uniq i (-1)%Q (-1)%Q labels votes0 votes02 lab1 votes1 HV0 ltac:(reflexivity) Es)
    as [votes12 [Es2 HV1]].
  rewrite Es2. eexists. split; [reflexivity|]. split; [reflexivity|exact HV1].
Qed.

Lemma vote_loop_transfer index : forall st1 st2 st1',
  (forall i, In i index -> same_row indptr indices indices' data data' i) ->
  st_eq st1 st2 ->
  vote_loop kv indptr indices data index st1 = VOk st1' ->
  exists st2', vote_loop kv indptr indices' data' index st2 = VOk st2' /\ st_eq st1' st2'.
Proof.
  induction index as [|i t IH]; intros st1 st2 st1' HP HS H; cbn [vote_loop] in H |- *.
  - inversion H; subst. eexists. split; [reflexivity|exact HS].
  - destruct (vote_node kv indptr indices data i st1) as [s1|] eqn:En; [|discriminate].
    destruct (vote_node_transfer i st1 st2 s1 (HP i (or_introl eq_refl)) HS En) as [s2 [En2 HS2]].
    rewrite En2. apply (IH s1 s2 st1'); [|exact HS2|exact H].
    intros k Hk. apply HP. right. exact Hk.
Qed.

Theorem vote_update_transfer labels index labels' :
  (forall i, In i index -> same_row indptr indices indices' data data' i) ->
  vote_update kv indptr indices data labels index = VOk labels' ->
  vote_update kv indptr indices' data' labels index = VOk labels'.
Proof.
  intros HP H. unfold vote_update in H |- *.
  destruct (vote_loop kv indptr indices data index (labels, repeat 0%Q (votes_size kv labels), []))
    as [[[l1 v1] n1]|] eqn:EL; [|discriminate].
  inversion H; subst l1. clear H.
  destruct (vote_loop_transfer index _ (labels, repeat 0%Q (votes_size kv labels), []) _ HP
              (conj eq_refl (veq_refl _)) EL) as [[[l2 v2] n2] [EL2 [HS _]]].
  rewrite EL2. cbn [fst snd] in HS. subst l2. reflexivity.
Qed.

End Kernel.

(* C01 *)
(** For a kernel that clears [votes_neigh] for every node and reads the weight at the edge position (the
    repaired source), the labels after one sweep do not depend on the order in which each row stores its
    (neighbour, weight) pairs: the tie-break of the arg-max is by label VALUE (std::set order, strict [>]),
    not by position in the row.  Both directions, successful runs (no out-of-bounds access). *)
Theorem vote_row_order_irrelevant kv indptr indices indices' data data' labels index labels' :
  clr kv = true -> wpos kv = true ->
  length indices = length indices' -> length data = length data' ->
  (forall i, In i index ->
     Permutation (nbrs_weighted indptr indices data i) (nbrs_weighted indptr indices' data' i)) ->
  (vote_update kv indptr indices data labels index = VOk labels' <->
   vote_update kv indptr indices' data' labels index = VOk labels').
Proof.
  intros Hc Hw HLi HLd HP. split.
  - apply (vote_update_transfer kv Hc Hw indptr indices indices' data data' HLi HLd labels index labels' HP).
  - apply (vote_update_transfer kv Hc Hw indptr indices' indices data' data (eq_sym HLi) (eq_sym HLd)).
    intros i Hi. unfold same_row. apply Permutation_sym. apply HP. exact Hi.
Qed.

End EqC_Vote.

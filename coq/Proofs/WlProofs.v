(** C02 — Weisfeiler-Lehman: the functional model (Model/Wl.v) against colour refinement.

    1. one kernel round = one refinement step, under the computable hypothesis [no_hash_collision]
       (the converse direction, equal multisets => equal hashes, is unconditional);
    2. the colouring = the iterate of colour refinement (partial: the hypothesis in every round);
    3. equivariance: the colours of a renumbered graph (rows stored in any order) are the renumbered
       colours, label for label, whatever the two sorts do with ties;
    4. are_isomorphic on a graph and a renumbered copy returns True. *)
From Coq Require Import Qabs Qreduction Sorted Permutation Lqa Setoid Morphisms.
From SKN Require Import Base.Util Model.Bfs Model.Format Model.Wl Proofs.BfsProofs Proofs.FormatProofs.
Set Warnings "-notation-overridden". (* keep: a line with a parenthesis after the imports *)

(** * 0. Small facts *)

Lemma Qltb_lt a b : Qltb a b = true <-> (a < b)%Q.
Proof.
  unfold Qltb. rewrite negb_true_iff. split.
  - intros H. apply Qnot_le_lt. intros L. apply Qle_bool_iff in L. congruence.
  - intros H. destruct (Qle_bool b a) eqn:E; [|reflexivity].
    apply Qle_bool_iff in E. exfalso. exact (Qlt_not_le _ _ H E).
Qed.

Lemma Qltb_ge a b : Qltb a b = false <-> (b <= a)%Q.
Proof.
  unfold Qltb. rewrite negb_false_iff. apply Qle_bool_iff.
Qed.

Lemma wl_upd_length l i x : length (wl_upd l i x) = length l.
Proof. revert i; induction l as [|a l IH]; intros [|i]; simpl; auto. Qed.

Lemma wl_upd_same l i x : i < length l -> nthn (wl_upd l i x) i = x.
Proof.
  unfold nthn. revert i; induction l as [|a l IH]; intros [|i] H; simpl in *; try lia; auto.
  apply IH. lia.
Qed.

Lemma wl_upd_other l i j x : i <> j -> nthn (wl_upd l i x) j = nthn l j.
Proof.
  unfold nthn. revert i j; induction l as [|a l IH]; intros [|i] [|j] H; simpl; try lia; auto.
Qed.

(** * 1. The hash is a function of the multiset of neighbour labels *)

Definition hsum (powers : list Q) (ls : list nat) : Q := sumq (map (nthq powers) ls).

Lemma wl_fold_sum powers labels r a :
  (fold_left (fun h j => Qred (h + nthq powers (nthn labels j))) r a
   == a + hsum powers (map (nthn labels) r))%Q.
Proof.
  revert a; induction r as [|j r IH]; intros a; simpl.
  - unfold hsum; simpl. ring.
  - rewrite IH. pose proof (Qred_correct (a + nthq powers (nthn labels j))) as E. rewrite E.
    unfold hsum. simpl. ring.
Qed.

Lemma wl_hash_perm powers labels labels' r r' :
  Permutation (map (nthn labels) r) (map (nthn labels') r') ->
  wl_hash powers labels r = wl_hash powers labels' r'.
Proof.
  intros H. unfold wl_hash. apply Qred_complete. rewrite !wl_fold_sum. unfold hsum.
  rewrite (sumq_Permutation _ _ (Permutation_map (nthq powers) H)). reflexivity.
Qed.

Definition canonq (q : Q) : Prop := Qred q = q.

Lemma wl_hash_canon powers labels r : canonq (wl_hash powers labels r).
Proof. unfold canonq, wl_hash. apply Qred_complete. apply Qred_correct. Qed.

Lemma canonq_eq a b : canonq a -> canonq b -> (a == b)%Q -> a = b.
Proof. unfold canonq. intros Ha Hb E. rewrite <- Ha, <- Hb. apply Qred_complete. exact E. Qed.

(** * 2. The order of [is_lower] and the sort *)

Definition kle (a b : wtuple) : Prop :=
  t_label a < t_label b \/ (t_label a = t_label b /\ (t_hash a <= t_hash b)%Q).
Definition keq (a b : wtuple) : Prop := t_label a = t_label b /\ (t_hash a == t_hash b)%Q.

Lemma is_lower_false a b : is_lower b a = false <-> kle a b.
Proof.
  unfold is_lower, kle. destruct (Nat.eqb_spec (t_label b) (t_label a)) as [E|N].
  - rewrite Qltb_ge. split.
    + intros H. right. split; [symmetry; exact E | exact H].
    + intros [H|[_ H]]; [lia | exact H].
  - rewrite Nat.ltb_ge. split.
    + intros H. left. lia.
    + intros [H|[H _]]; [lia | congruence].
Qed.

Lemma is_lower_true a b :
  is_lower a b = true <-> t_label a < t_label b \/ (t_label a = t_label b /\ (t_hash a < t_hash b)%Q).
Proof.
  unfold is_lower. destruct (Nat.eqb_spec (t_label a) (t_label b)) as [E|N].
  - rewrite Qltb_lt. split.
    + intros H. right. split; assumption.
    + intros [H|[_ H]]; [lia | exact H].
  - rewrite Nat.ltb_lt. split.
    + intros H. left. exact H.
    + intros [H|[H _]]; [exact H | congruence].
Qed.

Lemma kle_refl a : kle a a.
Proof. right. split; [reflexivity | apply Qle_refl]. Qed.

Lemma kle_trans a b c : kle a b -> kle b c -> kle a c.
Proof.
  unfold kle. intros [H1|[E1 H1]] [H2|[E2 H2]].
  - left; lia.
  - left; lia.
  - left; lia.
  - right. split; [congruence | eapply Qle_trans; eassumption].
Qed.

Lemma kle_total a b : kle a b \/ kle b a.
Proof.
  unfold kle. destruct (lt_eq_lt_dec (t_label a) (t_label b)) as [[H|H]|H].
  - left; left; exact H.
  - destruct (Qlt_le_dec (t_hash b) (t_hash a)) as [L|L].
    + right. right. split; [symmetry; exact H | apply Qlt_le_weak; exact L].
    + left. right. split; assumption.
  - right; left; exact H.
Qed.

Lemma kle_antisym a b : kle a b -> kle b a -> keq a b.
Proof.
  unfold kle, keq. intros [H1|[E1 H1]] [H2|[E2 H2]]; try lia.
  split; [exact E1 | apply Qle_antisym; assumption].
Qed.

Lemma keq_kle a b : keq a b -> kle a b.
Proof. intros [E H]. right. split; [exact E | rewrite H; apply Qle_refl]. Qed.

Lemma keq_sym a b : keq a b -> keq b a.
Proof. intros [E H]. split; [symmetry; exact E | symmetry; exact H]. Qed.

Lemma keq_trans a b c : keq a b -> keq b c -> keq a c.
Proof. intros [E1 H1] [E2 H2]. split; [congruence | rewrite H1; exact H2]. Qed.

Lemma keq_of_key a b : t_key a = t_key b -> keq a b.
Proof.
  unfold t_key, keq, t_label, t_hash. intros E. rewrite E. split; reflexivity.
Qed.

Definition ksorted (l : list wtuple) : Prop := StronglySorted kle l.

Lemma wl_sorted_ksorted l : wl_sorted l <-> ksorted l.
Proof.
  unfold wl_sorted, ksorted. induction l as [|a l IH].
  - split; intros _; constructor.
  - split; intros H; inversion H as [|x y Hs Hf]; subst; constructor.
    + apply IH; exact Hs.
    + eapply Forall_impl; [|exact Hf]. intros b Hb. apply is_lower_false. exact Hb.
    + apply IH; exact Hs.
    + eapply Forall_impl; [|exact Hf]. intros b Hb. apply is_lower_false. exact Hb.
Qed.

Lemma wl_insert_perm t l : Permutation (wl_insert t l) (t :: l).
Proof.
  induction l as [|x r IH]; simpl.
  - apply Permutation_refl.
  - destruct (is_lower t x).
    + apply Permutation_refl.
    + eapply Permutation_trans; [apply perm_skip; exact IH | apply perm_swap].
Qed.

Lemma wl_insert_ksorted t l : ksorted l -> ksorted (wl_insert t l).
Proof.
  unfold ksorted. induction l as [|x r IH]; intros Hs; simpl.
  - constructor; constructor.
  - inversion Hs as [|x' r' Hsr Hf]; subst.
    destruct (is_lower t x) eqn:E.
    + assert (Htx : kle t x).
      { apply is_lower_true in E. destruct E as [H|[H1 H2]];
          [left; exact H | right; split; [exact H1 | apply Qlt_le_weak; exact H2]]. }
      constructor; [exact Hs|]. constructor; [exact Htx|].
      eapply Forall_impl; [|exact Hf]. intros b Hb. eapply kle_trans; eassumption.
    + constructor; [apply IH; exact Hsr|].
      apply (Permutation_Forall (Permutation_sym (wl_insert_perm t r))).
      constructor; [apply is_lower_false; exact E | exact Hf].
Qed.

Theorem wl_sort_ok : sort_ok wl_sort.
Proof.
  intros l. split.
  - induction l as [|a l IH]; simpl; [apply Permutation_refl|].
    eapply Permutation_trans; [apply wl_insert_perm | apply perm_skip; exact IH].
  - apply wl_sorted_ksorted. induction l as [|a l IH]; simpl; [constructor|].
    apply wl_insert_ksorted. exact IH.
Qed.

(** Sorted rearrangements of the same keys list the keys in the same order (the hashes being kept in
    lowest terms, equivalent keys are equal). *)
Definition canont (t : wtuple) : Prop := canonq (t_hash t).

Lemma keq_canon_key a b : canont a -> canont b -> keq a b -> t_key a = t_key b.
Proof.
  unfold canont, keq, t_key, t_label, t_hash. destruct a as [[la ha] na], b as [[lb hb] nb]; simpl.
  intros Ha Hb [E H]. rewrite E, (canonq_eq _ _ Ha Hb H). reflexivity.
Qed.

Lemma kle_key a a' b b' : t_key a = t_key a' -> t_key b = t_key b' -> kle a b -> kle a' b'.
Proof.
  unfold t_key, kle, t_label, t_hash. intros Ea Eb. rewrite Ea, Eb. auto.
Qed.

Lemma sorted_keys_unique (l1 l2 : list wtuple) :
  ksorted l1 -> ksorted l2 -> Forall canont l1 -> Forall canont l2 ->
  Permutation (map t_key l1) (map t_key l2) -> map t_key l1 = map t_key l2.
Proof.
  unfold ksorted. revert l2. induction l1 as [|a t1 IH]; intros l2 S1 S2 C1 C2 P.
  - apply Permutation_nil in P. symmetry. exact P.
  - destruct l2 as [|b t2].
    { apply Permutation_sym, Permutation_nil in P. discriminate. }
    inversion S1 as [|? ? S1t F1]; subst. inversion S2 as [|? ? S2t F2]; subst.
    inversion C1 as [|? ? Ca C1t]; subst. inversion C2 as [|? ? Cb C2t]; subst.
    assert (Hab : kle a b).
    { assert (Hin : In (t_key b) (map t_key (a :: t1))).
      { apply (Permutation_in _ (Permutation_sym P)). left. reflexivity. }
      simpl in Hin. destruct Hin as [E|Hin].
      - apply keq_kle. apply keq_of_key. exact E.
      - apply in_map_iff in Hin. destruct Hin as [x [Ex Hx]].
        rewrite Forall_forall in F1. apply (kle_key a a x b eq_refl Ex). apply F1. exact Hx. }
    assert (Hba : kle b a).
    { assert (Hin : In (t_key a) (map t_key (b :: t2))).
      { apply (Permutation_in _ P). left. reflexivity. }
      simpl in Hin. destruct Hin as [E|Hin].
      - apply keq_kle. apply keq_of_key. exact E.
      - apply in_map_iff in Hin. destruct Hin as [x [Ex Hx]].
        rewrite Forall_forall in F2. apply (kle_key b b x a eq_refl Ex). apply F2. exact Hx. }
    assert (E : t_key a = t_key b).
    { apply keq_canon_key; [exact Ca | exact Cb | apply kle_antisym; assumption]. }
    simpl. rewrite E. f_equal. apply IH; try assumption.
    simpl in P. rewrite E in P. apply Permutation_cons_inv in P. exact P.
Qed.

(** * 3. The relabelling pass as a function of the sorted keys *)

Fixpoint ranks_from (eps : Q) (prev : wtuple) (label : nat) (l : list wtuple) : list nat :=
  match l with
  | [] => []
  | t :: r =>
      let label' := if wl_bump eps prev t then S label else label in
      label' :: ranks_from eps t label' r
  end.

Definition changed_of (ls rs : list nat) : bool :=
  existsb (fun ab => negb (fst ab =? snd ab)) (combine ls rs).

Lemma ranks_from_length eps prev label l : length (ranks_from eps prev label l) = length l.
Proof. revert prev label; induction l as [|t r IH]; intros; simpl; auto. Qed.

Lemma wl_relabel_spec eps (d : wtuple) l : forall prev label labels changed,
  NoDup (map t_node l) ->
  Forall (fun t => t_node t < length labels /\ nthn labels (t_node t) = t_label t) l ->
  let res := wl_relabel eps l prev label labels changed in
  length (fst res) = length labels /\
  (forall j, j < length l ->
     nthn (fst res) (t_node (nth j l d)) = nth j (ranks_from eps prev label l) 0) /\
  (forall i, ~ In i (map t_node l) -> nthn (fst res) i = nthn labels i) /\
  snd res = changed || changed_of (map t_label l) (ranks_from eps prev label l).
Proof.
  induction l as [|tn rest IH]; intros prev label labels changed Hnd Hf; simpl.
  - split; [reflexivity|]. split; [intros j Hj; lia|]. split; [reflexivity|].
    unfold changed_of. simpl. rewrite orb_false_r. reflexivity.
  - set (label' := if wl_bump eps prev tn then S label else label).
    set (labels' := wl_upd labels (t_node tn) label').
    set (changed' := if nthn labels (t_node tn) =? label' then changed else true).
    inversion Hnd as [|x xs Hnin Hnd']; subst.
    inversion Hf as [|x xs [Hlt Hlab] Hf']; subst.
    assert (Hf2 : Forall (fun t => t_node t < length labels' /\ nthn labels' (t_node t) = t_label t) rest).
    { rewrite Forall_forall in Hf'. apply Forall_forall. intros t Ht.
      destruct (Hf' t Ht) as [H1 H2]. unfold labels'. rewrite wl_upd_length. split; [exact H1|].
      rewrite wl_upd_other; [exact H2|]. intros E. apply Hnin. rewrite E. apply in_map. exact Ht. }
    destruct (IH tn label' labels' changed' Hnd' Hf2) as [I1 [I2 [I3 I4]]].
    split; [rewrite I1; unfold labels'; apply wl_upd_length|].
    split; [|split].
    + intros [|j] Hj.
      * rewrite I3 by exact Hnin. unfold labels'. apply wl_upd_same. exact Hlt.
      * apply I2. lia.
    + intros i Hi. rewrite I3 by (intros H; apply Hi; right; exact H).
      unfold labels'. apply wl_upd_other. intros E. apply Hi. left. exact E.
    + rewrite I4. unfold changed_of. simpl. fold label'. unfold changed'. rewrite Hlab.
      destruct (t_label tn =? label'); simpl; [reflexivity|]. rewrite orb_true_r. reflexivity.
Qed.

(** The labels given to the positions of the sorted vector. *)
Definition ranks (eps : Q) (s : list wtuple) : list nat :=
  match s with [] => [] | t0 :: rest => 0 :: ranks_from eps t0 0 rest end.
Definition round_changed (eps : Q) (s : list wtuple) : bool :=
  match s with [] => false | t0 :: rest => changed_of (map t_label rest) (ranks_from eps t0 0 rest) end.

Lemma ranks_length eps s : length (ranks eps s) = length s.
Proof. destruct s; simpl; [reflexivity|]. rewrite ranks_from_length. reflexivity. Qed.

(** Facts about [wl_tuples]. *)
Lemma wl_tuples_nodes g powers labels : map t_node (wl_tuples g powers labels) = seq 0 (length g).
Proof. unfold wl_tuples. rewrite map_map. simpl. apply map_id. Qed.

Lemma wl_tuples_in g powers labels t :
  In t (wl_tuples g powers labels) <->
  t_node t < length g /\ t = (nthn labels (t_node t), wl_hash powers labels (row g (t_node t)), t_node t).
Proof.
  unfold wl_tuples. rewrite in_map_iff. split.
  - intros [i [E Hi]]. apply in_seq in Hi. subst t. simpl. split; [lia | reflexivity].
  - intros [H E]. exists (t_node t). split; [symmetry; exact E | apply in_seq; lia].
Qed.

(** Characterisation of one round: there is a sorted rearrangement [s] of the tuples such that the node
    at position j receives [ranks s][j]; has_changed is a function of the keys of [s]. *)
Lemma wl_round_spec sort g powers eps labels (d : wtuple) :
  sort_ok sort -> length labels = length g ->
  let s := sort (wl_tuples g powers labels) in
  let res := wl_round sort g powers eps labels in
  Permutation s (wl_tuples g powers labels) /\ ksorted s /\
  length (fst res) = length g /\
  (forall j, j < length g -> nthn (fst res) (t_node (nth j s d)) = nth j (ranks eps s) 0) /\
  snd res = round_changed eps s.
Proof.
  intros Hsort HL s res. destruct (Hsort (wl_tuples g powers labels)) as [HP HS]. fold s in HP, HS.
  apply wl_sorted_ksorted in HS.
  split; [exact HP|]. split; [exact HS|].
  assert (Hnodes : Permutation (map t_node s) (seq 0 (length g))).
  { rewrite <- (wl_tuples_nodes g powers labels). apply Permutation_map. exact HP. }
  assert (Hnd : NoDup (map t_node s)).
  { apply (Permutation_NoDup (Permutation_sym Hnodes)). apply seq_NoDup. }
  assert (Hall : Forall (fun t => t_node t < length labels /\ nthn labels (t_node t) = t_label t) s).
  { apply Forall_forall. intros t Ht. apply (Permutation_in _ HP) in Ht.
    apply wl_tuples_in in Ht. destruct Ht as [H1 H2]. split; [lia|]. rewrite H2 at 2. reflexivity. }
  assert (Hlen : length s = length g).
  { rewrite (Permutation_length HP). unfold wl_tuples. rewrite map_length, seq_length. reflexivity. }
  unfold res, wl_round. fold s. destruct s as [|t0 rest] eqn:Es.
  - simpl in Hlen. simpl. split; [exact HL|]. split; [intros j Hj; lia | reflexivity].
  - inversion Hnd as [|x xs Hnin Hnd']; subst x xs.
    inversion Hall as [|x xs [Hlt Hlab] Hall']; subst x xs.
    set (labels1 := wl_upd labels (t_node t0) 0).
    assert (Hall1 : Forall (fun t => t_node t < length labels1 /\ nthn labels1 (t_node t) = t_label t) rest).
    { rewrite Forall_forall in Hall'. apply Forall_forall. intros t Ht.
      destruct (Hall' t Ht) as [H1 H2]. unfold labels1. rewrite wl_upd_length. split; [exact H1|].
      rewrite wl_upd_other; [exact H2|]. intros E. apply Hnin. rewrite E. apply in_map. exact Ht. }
    destruct (wl_relabel_spec eps d rest t0 0 labels1 false Hnd' Hall1) as [I1 [I2 [I3 I4]]].
    split; [rewrite I1; unfold labels1; rewrite wl_upd_length; exact HL|].
    split.
    + intros [|j] Hj; simpl.
      * rewrite I3 by exact Hnin. unfold labels1. apply wl_upd_same. exact Hlt.
      * apply I2. simpl in Hlen. lia.
    + rewrite I4. reflexivity.
Qed.

(** * 4. Ranks on a sorted vector *)

Lemma wl_bump_false eps a b :
  wl_bump eps a b = false <-> t_label b = t_label a /\ (Qabs (t_hash b - t_hash a) <= eps)%Q.
Proof.
  unfold wl_bump. rewrite orb_false_iff, Qltb_ge, negb_false_iff, Nat.eqb_eq. tauto.
Qed.

Lemma wl_bump_keq eps a b : (0 <= eps)%Q -> keq a b -> wl_bump eps a b = false.
Proof.
  intros He [E H]. apply wl_bump_false. split; [symmetry; exact E|].
  apply Qabs_Qle_condition. split; lra.
Qed.

Lemma ranks_from_ge eps l : forall prev label j,
  j < length l -> label <= nth j (ranks_from eps prev label l) 0.
Proof.
  induction l as [|k r IH]; intros prev label [|j] Hj; simpl in *; try lia.
  - destruct (wl_bump eps prev k); lia.
  - assert (Hj' : j < length r) by lia.
    pose proof (IH k (if wl_bump eps prev k then S label else label) j Hj') as H.
    destruct (wl_bump eps prev k); lia.
Qed.

Lemma sorted_nth_kle (d : wtuple) k r j : StronglySorted kle (k :: r) -> j < length r -> kle k (nth j r d).
Proof.
  intros HS Hj. inversion HS as [|? ? _ Hf]; subst. rewrite Forall_forall in Hf.
  apply Hf. apply nth_In. exact Hj.
Qed.

Lemma ranks_from_keq eps (d : wtuple) l : (0 <= eps)%Q -> forall prev label j,
  StronglySorted kle (prev :: l) -> j < length l -> keq prev (nth j l d) ->
  nth j (ranks_from eps prev label l) 0 = label.
Proof.
  intros He. induction l as [|k r IH]; intros prev label [|j] HS Hj Hk; simpl in *; try lia.
  - rewrite wl_bump_keq by assumption. reflexivity.
  - assert (Hj' : j < length r) by lia.
    inversion HS as [|? ? HSk Hf]; subst.
    assert (Hpk : kle prev k) by (inversion Hf; assumption).
    assert (Hkj : kle k (nth j r d)) by (apply sorted_nth_kle; assumption).
    assert (Hkp : kle k prev).
    { eapply kle_trans; [exact Hkj|]. apply keq_kle. apply keq_sym. exact Hk. }
    assert (Eq : keq prev k) by (apply kle_antisym; assumption).
    rewrite wl_bump_keq by assumption.
    apply IH; [exact HSk | exact Hj' |]. eapply keq_trans; [apply keq_sym; exact Eq | exact Hk].
Qed.

Lemma ranks_from_chain eps (d : wtuple) (R : wtuple -> wtuple -> Prop) l :
  (forall a b c, R a b -> R b c -> R a c) ->
  forall prev label j,
  (forall a b, In a (prev :: l) -> In b (prev :: l) -> wl_bump eps a b = false -> R a b) ->
  j < length l -> nth j (ranks_from eps prev label l) 0 = label -> R prev (nth j l d).
Proof.
  intros Htr. induction l as [|k r IH]; intros prev label [|j] HR Hj E; simpl in *; try lia.
  - destruct (wl_bump eps prev k) eqn:B; [lia|]. apply HR; auto.
  - assert (Hj' : j < length r) by lia.
    destruct (wl_bump eps prev k) eqn:B.
    + pose proof (ranks_from_ge eps r k (S label) j Hj') as H. lia.
    + apply Htr with k; [apply HR; auto|].
      apply IH with label; [|exact Hj'|exact E].
      intros a b Ha Hb. apply HR; right; assumption.
Qed.

Lemma ranks_from_pair_keq eps (d : wtuple) l : (0 <= eps)%Q -> forall prev label i j,
  StronglySorted kle (prev :: l) -> i <= j -> j < length l -> keq (nth i l d) (nth j l d) ->
  nth i (ranks_from eps prev label l) 0 = nth j (ranks_from eps prev label l) 0.
Proof.
  intros He. induction l as [|k r IH]; intros prev label [|i] [|j] HS Hij Hj Hk; simpl in *; try lia.
  - inversion HS as [|? ? HSk _]; subst.
    symmetry. apply (ranks_from_keq eps d r He); [exact HSk | lia | exact Hk].
  - inversion HS as [|? ? HSk _]; subst.
    apply IH; [exact HSk | lia | lia | exact Hk].
Qed.

Lemma ranks_from_pair_chain eps (d : wtuple) (R : wtuple -> wtuple -> Prop) l :
  (0 <= eps)%Q -> (forall a b c, R a b -> R b c -> R a c) ->
  forall prev label i j,
  (forall a b, In a (prev :: l) -> In b (prev :: l) -> wl_bump eps a b = false -> R a b) ->
  i <= j -> j < length l ->
  nth i (ranks_from eps prev label l) 0 = nth j (ranks_from eps prev label l) 0 ->
  R (nth i l d) (nth j l d).
Proof.
  intros He Htr. induction l as [|k r IH]; intros prev label [|i] [|j] HR Hij Hj E; simpl in *; try lia.
  - apply HR; auto. apply wl_bump_keq; [exact He|]. split; reflexivity.
  - apply (ranks_from_chain eps d R r Htr k (if wl_bump eps prev k then S label else label) j).
    + intros a b Ha Hb. apply HR; right; assumption.
    + lia.
    + symmetry. exact E.
  - apply (IH k (if wl_bump eps prev k then S label else label) i j).
    + intros a b Ha Hb. apply HR; right; assumption.
    + lia.
    + lia.
    + exact E.
Qed.

Lemma ranks_as_from eps t0 rest :
  (0 <= eps)%Q -> ranks eps (t0 :: rest) = ranks_from eps t0 0 (t0 :: rest).
Proof.
  intros He. simpl. rewrite wl_bump_keq; [reflexivity | exact He | split; reflexivity].
Qed.

Lemma ranks_keq eps (d : wtuple) s i j :
  (0 <= eps)%Q -> ksorted s -> i < length s -> j < length s ->
  keq (nth i s d) (nth j s d) -> nth i (ranks eps s) 0 = nth j (ranks eps s) 0.
Proof.
  intros He HS Hi Hj Hk. destruct s as [|t0 rest]; [simpl in Hi; lia|].
  rewrite ranks_as_from by exact He.
  assert (HS2 : StronglySorted kle (t0 :: t0 :: rest)).
  { constructor; [exact HS|]. constructor; [apply kle_refl|]. inversion HS; assumption. }
  destruct (Nat.le_ge_cases i j) as [L|L].
  - apply (ranks_from_pair_keq eps d); assumption.
  - symmetry. apply (ranks_from_pair_keq eps d); try assumption. apply keq_sym. exact Hk.
Qed.

Lemma ranks_chain eps (d : wtuple) (R : wtuple -> wtuple -> Prop) s i j :
  (0 <= eps)%Q -> (forall a b c, R a b -> R b c -> R a c) -> (forall a b, R a b -> R b a) ->
  (forall a b, In a s -> In b s -> wl_bump eps a b = false -> R a b) ->
  i < length s -> j < length s ->
  nth i (ranks eps s) 0 = nth j (ranks eps s) 0 -> R (nth i s d) (nth j s d).
Proof.
  intros He Htr Hsym HR Hi Hj E. destruct s as [|t0 rest]; [simpl in Hi; lia|].
  rewrite ranks_as_from in E by exact He.
  assert (HR2 : forall a b, In a (t0 :: t0 :: rest) -> In b (t0 :: t0 :: rest) ->
                            wl_bump eps a b = false -> R a b).
  { intros a b Ha Hb. apply HR.
    - destruct Ha as [Ha|Ha]; [left; exact Ha | exact Ha].
    - destruct Hb as [Hb|Hb]; [left; exact Hb | exact Hb]. }
  destruct (Nat.le_ge_cases i j) as [L|L].
  - apply (ranks_from_pair_chain eps d R (t0 :: rest) He Htr t0 0); assumption.
  - apply Hsym. apply (ranks_from_pair_chain eps d R (t0 :: rest) He Htr t0 0); try assumption.
    symmetry. exact E.
Qed.

(** The ranks, and has_changed, depend on the keys only. *)
Lemma wl_bump_key eps a a' b b' : t_key a = t_key a' -> t_key b = t_key b' -> wl_bump eps a b = wl_bump eps a' b'.
Proof.
  unfold wl_bump, t_key, t_label, t_hash. intros Ea Eb. rewrite Ea, Eb. reflexivity.
Qed.

Lemma ranks_from_keys eps l : forall l' prev prev' label,
  t_key prev = t_key prev' -> map t_key l = map t_key l' ->
  ranks_from eps prev label l = ranks_from eps prev' label l'.
Proof.
  induction l as [|k r IH]; intros [|k' r'] prev prev' label Ep El; simpl in *; try discriminate; auto.
  injection El as Ek Er. rewrite (wl_bump_key eps prev prev' k k' Ep Ek).
  f_equal. apply IH; assumption.
Qed.

Lemma ranks_keys eps s s' : map t_key s = map t_key s' -> ranks eps s = ranks eps s'.
Proof.
  destruct s as [|t0 r], s' as [|t0' r']; simpl; intros E; try discriminate; auto.
  injection E as E0 Er. f_equal. apply ranks_from_keys; assumption.
Qed.

Lemma map_label_keys l l' : map t_key l = map t_key l' -> map t_label l = map t_label l'.
Proof.
  intros E. change t_label with (fun t => fst (t_key t)).
  rewrite <- (map_map t_key fst l), <- (map_map t_key fst l'), E. reflexivity.
Qed.

Lemma round_changed_keys eps s s' : map t_key s = map t_key s' -> round_changed eps s = round_changed eps s'.
Proof.
  destruct s as [|t0 r], s' as [|t0' r']; simpl; intros E; try discriminate; auto.
  injection E as E0 Er. rewrite (ranks_from_keys eps r r' t0 t0' 0 E0 Er), (map_label_keys r r' Er).
  reflexivity.
Qed.

(** * 5. One round = one refinement step *)

Definition wl_tuple_of (g : graph) (powers : list Q) (labels : list nat) (u : nat) : wtuple :=
  (nthn labels u, wl_hash powers labels (row g u), u).

Lemma node_pos (d : wtuple) g powers labels s u :
  Permutation s (wl_tuples g powers labels) -> u < length g ->
  exists j, j < length g /\ nth j s d = wl_tuple_of g powers labels u.
Proof.
  intros HP Hu.
  assert (Hin : In (wl_tuple_of g powers labels u) s).
  { apply (Permutation_in _ (Permutation_sym HP)). apply wl_tuples_in. simpl. split; [exact Hu | reflexivity]. }
  destruct (In_nth _ _ d Hin) as [j [Hj E]]. exists j. split; [|exact E].
  rewrite (Permutation_length HP) in Hj. unfold wl_tuples in Hj. rewrite map_length, seq_length in Hj. exact Hj.
Qed.

Lemma countb_count_occ x l : countb x l = count_occ Nat.eq_dec l x.
Proof.
  unfold countb. induction l as [|a l IH]; simpl; [reflexivity|].
  destruct (Nat.eq_dec a x) as [E|N].
  - subst a. rewrite Nat.eqb_refl. simpl. rewrite IH. reflexivity.
  - destruct (Nat.eqb_spec x a) as [E|_]; [congruence | exact IH].
Qed.

Lemma ms_eqb_perm a b : ms_eqb a b = true -> Permutation a b.
Proof.
  unfold ms_eqb. rewrite andb_true_iff, !forallb_forall. intros [Ha Hb].
  apply (Permutation_count_occ Nat.eq_dec). intros x. rewrite <- !countb_count_occ.
  destruct (in_dec Nat.eq_dec x a) as [I|NI]; [apply Nat.eqb_eq, Ha, I|].
  destruct (in_dec Nat.eq_dec x b) as [I'|NI']; [apply Nat.eqb_eq, Hb, I'|].
  rewrite !countb_count_occ.
  rewrite (proj1 (count_occ_not_In Nat.eq_dec a x) NI), (proj1 (count_occ_not_In Nat.eq_dec b x) NI').
  reflexivity.
Qed.

Lemma perm_ms_eqb a b : Permutation a b -> ms_eqb a b = true.
Proof.
  intros P. unfold ms_eqb. apply andb_true_iff. split; apply forallb_forall; intros x _; apply Nat.eqb_eq;
    rewrite !countb_count_occ; apply (Permutation_count_occ Nat.eq_dec); exact P.
Qed.

Lemma no_hash_collision_lt g powers eps labels :
  no_hash_collision g powers eps labels = true ->
  forall u v, u < v -> v < length g -> nthn labels u = nthn labels v ->
  (Qabs (wl_hash powers labels (row g u) - wl_hash powers labels (row g v)) <= eps)%Q ->
  Permutation (nbr_labels g labels u) (nbr_labels g labels v).
Proof.
  unfold no_hash_collision. rewrite forallb_forall. intros H u v Huv Hv El Hh.
  assert (Hu : u < length g) by lia.
  assert (Hu' : In u (seq 0 (length g))) by (apply in_seq; lia).
  assert (Hv' : In v (seq 0 (length g))) by (apply in_seq; lia).
  pose proof (H u Hu') as H1. rewrite forallb_forall in H1. pose proof (H1 v Hv') as H2.
  unfold nthq in H2. rewrite !nth_map_seq in H2 by assumption.
  apply Nat.ltb_lt in Huv. rewrite Huv in H2.
  apply Nat.eqb_eq in El. rewrite El in H2. apply Qle_bool_iff in Hh. rewrite Hh in H2.
  apply ms_eqb_perm. exact H2.
Qed.

Lemma no_hash_collision_spec g powers eps labels :
  no_hash_collision g powers eps labels = true ->
  forall u v, u < length g -> v < length g -> nthn labels u = nthn labels v ->
  (Qabs (wl_hash powers labels (row g u) - wl_hash powers labels (row g v)) <= eps)%Q ->
  Permutation (nbr_labels g labels u) (nbr_labels g labels v).
Proof.
  intros H u v Hu Hv El Hh. destruct (lt_eq_lt_dec u v) as [[L|E]|L].
  - apply (no_hash_collision_lt g powers eps labels H u v); assumption.
  - subst v. apply Permutation_refl.
  - apply Permutation_sym. apply (no_hash_collision_lt g powers eps labels H v u); try assumption.
    + symmetry. exact El.
    + rewrite Qabs_Qminus. exact Hh.
Qed.

(** Unconditional direction: nodes that one refinement step keeps together keep a common colour. *)
Theorem wl_round_coarser sort g powers eps labels :
  sort_ok sort -> length labels = length g -> (0 <= eps)%Q ->
  forall u v, u < length g -> v < length g -> refines_to g labels u v ->
  nthn (fst (wl_round sort g powers eps labels)) u = nthn (fst (wl_round sort g powers eps labels)) v.
Proof.
  intros Hsort HL He u v Hu Hv [El Hp].
  set (d := (0, 0%Q, 0) : wtuple).
  destruct (wl_round_spec sort g powers eps labels d Hsort HL) as [HP [HS [Hlen [Hpos _]]]].
  destruct (node_pos d g powers labels _ u HP Hu) as [i [Hi Ei]].
  destruct (node_pos d g powers labels _ v HP Hv) as [j [Hj Ej]].
  pose proof (Hpos i Hi) as Pi. rewrite Ei in Pi. simpl in Pi.
  pose proof (Hpos j Hj) as Pj. rewrite Ej in Pj. simpl in Pj.
  rewrite Pi, Pj.
  assert (Hls : length (sort (wl_tuples g powers labels)) = length g).
  { rewrite (Permutation_length HP). unfold wl_tuples. rewrite map_length, seq_length. reflexivity. }
  apply (ranks_keq eps d); [exact He | exact HS | lia | lia |].
  rewrite Ei, Ej. apply keq_of_key. unfold t_key, wl_tuple_of. simpl.
  rewrite El. f_equal. apply wl_hash_perm. exact Hp.
Qed.

(** Under the hypothesis, exactly one refinement step. *)
Theorem wl_round_refines sort g powers eps labels :
  sort_ok sort -> length labels = length g -> (0 <= eps)%Q ->
  no_hash_collision g powers eps labels = true ->
  forall u v, u < length g -> v < length g ->
  (nthn (fst (wl_round sort g powers eps labels)) u = nthn (fst (wl_round sort g powers eps labels)) v
   <-> refines_to g labels u v).
Proof.
  intros Hsort HL He Hnc u v Hu Hv. split; [|apply wl_round_coarser; assumption].
  set (d := (0, 0%Q, 0) : wtuple).
  destruct (wl_round_spec sort g powers eps labels d Hsort HL) as [HP [HS [Hlen [Hpos _]]]].
  destruct (node_pos d g powers labels _ u HP Hu) as [i [Hi Ei]].
  destruct (node_pos d g powers labels _ v HP Hv) as [j [Hj Ej]].
  pose proof (Hpos i Hi) as Pi. rewrite Ei in Pi. simpl in Pi.
  pose proof (Hpos j Hj) as Pj. rewrite Ej in Pj. simpl in Pj.
  rewrite Pi, Pj. intros E.
  assert (Hls : length (sort (wl_tuples g powers labels)) = length g).
  { rewrite (Permutation_length HP). unfold wl_tuples. rewrite map_length, seq_length. reflexivity. }
  set (R := fun a b : wtuple => t_node a < length g /\ t_node b < length g /\
                                  refines_to g labels (t_node a) (t_node b)).
  assert (HR : R (nth i (sort (wl_tuples g powers labels)) d) (nth j (sort (wl_tuples g powers labels)) d)).
  { apply (ranks_chain eps d R); try assumption; try lia.
    - intros a b c [Ha [Hb [E1 P1]]] [_ [Hc [E2 P2]]]. split; [exact Ha|]. split; [exact Hc|].
      split; [congruence | eapply Permutation_trans; eassumption].
    - intros a b [Ha [Hb [E1 P1]]]. split; [exact Hb|]. split; [exact Ha|].
      split; [symmetry; exact E1 | apply Permutation_sym; exact P1].
    - intros a b Ha Hb B. apply (Permutation_in _ HP) in Ha. apply (Permutation_in _ HP) in Hb.
      apply wl_tuples_in in Ha. apply wl_tuples_in in Hb.
      destruct Ha as [Ha Ea]. destruct Hb as [Hb Eb].
      apply wl_bump_false in B. destruct B as [B1 B2].
      rewrite Ea, Eb in B1, B2. unfold t_label, t_hash in B1, B2. simpl in B1, B2.
      split; [exact Ha|]. split; [exact Hb|]. split; [symmetry; exact B1|].
      apply (no_hash_collision_spec g powers eps labels Hnc); try assumption; [symmetry; exact B1|].
      rewrite Qabs_Qminus. exact B2. }
  rewrite Ei, Ej in HR. destruct HR as [_ [_ HR]]. exact HR.
Qed.

(** * 6. The refinement step on partitions and on labellings *)

Definition part_eq (n : nat) (E E' : nat -> nat -> bool) : Prop :=
  forall u v, u < n -> v < n -> E u v = E' u v.

Lemma count_in_ext f f' r : (forall x, In x r -> f x = f' x) -> count_in f r = count_in f' r.
Proof.
  unfold count_in. intros H. induction r as [|a r IH]; simpl; [reflexivity|].
  rewrite (H a (or_introl eq_refl)). destruct (f' a); simpl; rewrite IH; auto; intros x Hx; apply H; right; exact Hx.
Qed.

Lemma forallb_ext_in {A} (f f' : A -> bool) l : (forall x, In x l -> f x = f' x) -> forallb f l = forallb f' l.
Proof.
  intros H. induction l as [|a l IH]; simpl; [reflexivity|].
  rewrite (H a (or_introl eq_refl)), IH; [reflexivity|]. intros x Hx. apply H. right. exact Hx.
Qed.

Lemma cr_step_ext g E E' :
  wf_graph g -> part_eq (length g) E E' -> part_eq (length g) (cr_step g E) (cr_step g E').
Proof.
  intros Hwf HE u v Hu Hv. unfold cr_step. rewrite (HE u v Hu Hv). f_equal.
  apply forallb_ext_in. intros w Hw. apply in_seq in Hw.
  rewrite (count_in_ext (E w) (E' w) (row g u)), (count_in_ext (E w) (E' w) (row g v)); [reflexivity| |].
  - intros x Hx. apply HE; [lia | apply (Hwf v x Hx)].
  - intros x Hx. apply HE; [lia | apply (Hwf u x Hx)].
Qed.

Lemma count_in_same_label L w r :
  count_in (same_label L w) r = count_occ Nat.eq_dec (map (nthn L) r) (nthn L w).
Proof.
  unfold count_in, same_label. induction r as [|a r IH]; simpl; [reflexivity|].
  destruct (Nat.eq_dec (nthn L a) (nthn L w)) as [E|N].
  - rewrite E, Nat.eqb_refl. simpl. rewrite IH. reflexivity.
  - destruct (Nat.eqb_spec (nthn L w) (nthn L a)) as [E|_]; [congruence | exact IH].
Qed.

Theorem cr_step_labels g L u v :
  wf_graph g -> u < length g -> v < length g ->
  (cr_step g (same_label L) u v = true <-> refines_to g L u v).
Proof.
  intros Hwf Hu Hv. unfold cr_step, refines_to. rewrite andb_true_iff, forallb_forall.
  unfold same_label at 1. rewrite Nat.eqb_eq. split.
  - intros [El Hc]. split; [exact El|]. apply (Permutation_count_occ Nat.eq_dec). intros x.
    unfold nbr_labels.
    destruct (in_dec Nat.eq_dec x (map (nthn L) (row g u))) as [I|NI].
    { apply in_map_iff in I. destruct I as [w [Ew Hw]]. subst x.
      assert (Hwn : In w (seq 0 (length g))) by (apply in_seq; pose proof (Hwf u w Hw); lia).
      specialize (Hc w Hwn). apply Nat.eqb_eq in Hc. rewrite !count_in_same_label in Hc. exact Hc. }
    destruct (in_dec Nat.eq_dec x (map (nthn L) (row g v))) as [I'|NI'].
    { apply in_map_iff in I'. destruct I' as [w [Ew Hw]]. subst x.
      assert (Hwn : In w (seq 0 (length g))) by (apply in_seq; pose proof (Hwf v w Hw); lia).
      specialize (Hc w Hwn). apply Nat.eqb_eq in Hc. rewrite !count_in_same_label in Hc. exact Hc. }
    rewrite (proj1 (count_occ_not_In Nat.eq_dec _ x) NI), (proj1 (count_occ_not_In Nat.eq_dec _ x) NI').
    reflexivity.
  - intros [El Hp]. split; [exact El|]. intros w _. apply Nat.eqb_eq. rewrite !count_in_same_label.
    apply (Permutation_count_occ Nat.eq_dec). exact Hp.
Qed.

Lemma bool_iff_eq (a b : bool) : (a = true <-> b = true) -> a = b.
Proof.
  destruct a, b; intros [H1 H2]; auto; try (symmetry; apply H1; reflexivity); try (apply H2; reflexivity).
Qed.

Lemma same_label_true L u v : same_label L u v = true <-> nthn L u = nthn L v.
Proof. unfold same_label. apply Nat.eqb_eq. Qed.

(** One round, on partitions. *)
Lemma wl_round_step sort g powers eps L E :
  sort_ok sort -> wf_graph g -> length L = length g -> (0 <= eps)%Q ->
  no_hash_collision g powers eps L = true ->
  part_eq (length g) (same_label L) E ->
  part_eq (length g) (same_label (fst (wl_round sort g powers eps L))) (cr_step g E).
Proof.
  intros Hsort Hwf HL He Hnc HE u v Hu Hv.
  rewrite <- (cr_step_ext g (same_label L) E Hwf HE u v Hu Hv).
  apply bool_iff_eq. rewrite same_label_true, cr_step_labels by assumption.
  apply wl_round_refines; assumption.
Qed.

(** has_changed = False: no label was changed (the caller's labels contain the colour 0). *)
Lemma changed_of_false ls rs :
  changed_of ls rs = false -> length ls = length rs -> forall j, j < length ls -> nth j ls 0 = nth j rs 0.
Proof.
  unfold changed_of. revert rs. induction ls as [|a ls IH]; intros [|b rs] H HL j Hj; simpl in *; try lia.
  apply orb_false_iff in H. destruct H as [H1 H2]. destruct j as [|j].
  - apply negb_false_iff, Nat.eqb_eq in H1. exact H1.
  - apply IH; [exact H2 | lia | lia].
Qed.

Definition has_zero (n : nat) (L : list nat) : Prop := n = 0 \/ exists u, u < n /\ nthn L u = 0.

Lemma wl_round_has_zero sort g powers eps L :
  sort_ok sort -> length L = length g -> has_zero (length g) (fst (wl_round sort g powers eps L)).
Proof.
  intros Hsort HL. destruct (Nat.eq_dec (length g) 0) as [En|En]; [left; exact En|]. right.
  set (d := (0, 0%Q, 0) : wtuple).
  destruct (wl_round_spec sort g powers eps L d Hsort HL) as [HP [HS [Hlen [Hpos _]]]].
  assert (H0 : 0 < length g) by lia.
  exists (t_node (nth 0 (sort (wl_tuples g powers L)) d)). split.
  - assert (Hin : In (nth 0 (sort (wl_tuples g powers L)) d) (wl_tuples g powers L)).
    { apply (Permutation_in _ HP). apply nth_In. rewrite (Permutation_length HP).
      unfold wl_tuples. rewrite map_length, seq_length. exact H0. }
    apply wl_tuples_in in Hin. apply Hin.
  - rewrite (Hpos 0 H0). destruct (sort (wl_tuples g powers L)); reflexivity.
Qed.

Lemma wl_round_unchanged sort g powers eps L :
  sort_ok sort -> length L = length g -> has_zero (length g) L ->
  snd (wl_round sort g powers eps L) = false ->
  forall u, u < length g -> nthn (fst (wl_round sort g powers eps L)) u = nthn L u.
Proof.
  intros Hsort HL Hz Hc u Hu.
  set (d := (0, 0%Q, 0) : wtuple).
  destruct (wl_round_spec sort g powers eps L d Hsort HL) as [HP [HS [Hlen [Hpos Hch]]]].
  rewrite Hc in Hch.
  assert (Hls : length (sort (wl_tuples g powers L)) = length g).
  { rewrite (Permutation_length HP). unfold wl_tuples. rewrite map_length, seq_length. reflexivity. }
  destruct (node_pos d g powers L _ u HP Hu) as [j [Hj Ej]].
  pose proof (Hpos j Hj) as Pj. rewrite Ej in Pj. simpl in Pj. rewrite Pj.
  destruct (sort (wl_tuples g powers L)) as [|t0 rest] eqn:Es; [simpl in Hls; lia|].
  destruct j as [|j].
  - simpl in Ej. simpl. subst t0.
    destruct Hz as [Hz|[z [Hz Ez]]]; [lia|].
    destruct (node_pos d g powers L (wl_tuple_of g powers L u :: rest) z HP Hz) as [i [Hi Ei]].
    destruct i as [|i].
    + simpl in Ei. unfold wl_tuple_of in Ei. injection Ei as E1 _ E3. subst z. symmetry. exact Ez.
    + simpl in Ei. simpl in Hls.
      assert (Hk : kle (wl_tuple_of g powers L u) (nth i rest d)) by (apply sorted_nth_kle; [exact HS | lia]).
      rewrite Ei in Hk. unfold kle, wl_tuple_of, t_label in Hk. simpl in Hk. lia.
  - simpl in Ej. simpl. simpl in Hch. symmetry in Hch. simpl in Hls.
    assert (HLr : length (map t_label rest) = length (ranks_from eps t0 0 rest)).
    { rewrite map_length, ranks_from_length. reflexivity. }
    assert (Hjr : j < length (map t_label rest)) by (rewrite map_length; lia).
    pose proof (changed_of_false _ _ Hch HLr j Hjr) as H.
    rewrite <- H. rewrite (nth_indep _ 0 (t_label d)) by exact Hjr. rewrite map_nth, Ej. reflexivity.
Qed.

(** * 7. The whole colouring *)

Lemma cr_stable_forever g k :
  wf_graph g -> part_eq (length g) (cr_iter g (S k)) (cr_iter g k) ->
  forall m, part_eq (length g) (cr_iter g (k + m)) (cr_iter g k).
Proof.
  intros Hwf Hs m. induction m as [|m IH].
  - rewrite Nat.add_0_r. intros u v _ _. reflexivity.
  - rewrite Nat.add_succ_r. intros u v Hu Hv. simpl.
    rewrite (cr_step_ext g _ _ Hwf IH u v Hu Hv). apply (Hs u v Hu Hv).
Qed.

Lemma wl_loop_refines sort g powers eps :
  sort_ok sort -> wf_graph g -> (0 <= eps)%Q ->
  forall todo L changed rounds k,
  length L = length g -> has_zero (length g) L ->
  part_eq (length g) (same_label L) (cr_iter g k) ->
  (changed = false -> part_eq (length g) (cr_iter g (S k)) (cr_iter g k)) ->
  wl_collision_free sort g powers eps todo L changed = true ->
  let res := wl_loop sort g powers eps todo L changed rounds in
  length (fst (fst res)) = length g /\
  part_eq (length g) (same_label (fst (fst res))) (cr_iter g (k + todo)).
Proof.
  intros Hsort Hwf He. induction todo as [|todo IH]; intros L changed rounds k HL Hz HE Hst Hcf; simpl.
  - rewrite Nat.add_0_r. split; assumption.
  - destruct changed.
    + simpl in Hcf. apply andb_true_iff in Hcf. destruct Hcf as [Hnc Hcf].
      rewrite Nat.add_succ_r, <- Nat.add_succ_l.
      set (r := wl_round sort g powers eps L) in *.
      assert (HL1 : length (fst r) = length g).
      { set (d := (0, 0%Q, 0) : wtuple).
        destruct (wl_round_spec sort g powers eps L d Hsort HL) as [_ [_ [Hlen _]]]. exact Hlen. }
      assert (HE1 : part_eq (length g) (same_label (fst r)) (cr_iter g (S k))).
      { simpl. apply wl_round_step; assumption. }
      apply IH; try assumption.
      * apply wl_round_has_zero; assumption.
      * intros Hc.
        assert (Hsame : part_eq (length g) (cr_iter g (S k)) (cr_iter g k)).
        { intros u v Hu Hv. rewrite <- (HE1 u v Hu Hv), <- (HE u v Hu Hv). unfold same_label.
          unfold r. rewrite !(wl_round_unchanged sort g powers eps L Hsort HL Hz Hc) by assumption.
          reflexivity. }
        intros u v Hu Hv. change (cr_iter g (S (S k))) with (cr_step g (cr_iter g (S k))).
        change (cr_iter g (S k)) with (cr_step g (cr_iter g k)) at 2.
        apply cr_step_ext; assumption.
    + simpl. split; [exact HL|]. intros u v Hu Hv. rewrite (HE u v Hu Hv). symmetry.
      apply (cr_stable_forever g k Hwf (Hst eq_refl) (S todo)); assumption.
Qed.

Lemma wl_eps_nonneg : (0 <= wl_eps)%Q.
Proof. unfold wl_eps, Qle. simpl. lia. Qed.

Theorem wl_colouring_is_refinement_partial sort g powers max_iter :
  sort_ok sort -> wf_graph g ->
  wl_collision_free sort g powers wl_eps (wl_max_iter (length g) max_iter) (repeat 0 (length g)) true = true ->
  forall u v, u < length g -> v < length g ->
  (nthn (color_weisfeiler_lehman sort g powers max_iter) u
   = nthn (color_weisfeiler_lehman sort g powers max_iter) v
   <-> cr_iter g (wl_max_iter (length g) max_iter) u v = true).
Proof.
  intros Hsort Hwf Hcf u v Hu Hv. unfold color_weisfeiler_lehman, wl_kernel.
  destruct (wl_loop_refines sort g powers wl_eps Hsort Hwf wl_eps_nonneg
              (wl_max_iter (length g) max_iter) (repeat 0 (length g)) true 0 0) as [_ H].
  - apply repeat_length.
  - destruct (length g) eqn:En; [left; reflexivity|]. right. exists 0. split; [lia | reflexivity].
  - intros a b _ _. simpl. unfold same_label, nthn.
    rewrite !(nth_repeat 0). reflexivity.
  - discriminate.
  - exact Hcf.
  - simpl in H. rewrite <- (H u v Hu Hv). symmetry. apply same_label_true.
Qed.

(** With the default [max_iter = -1] (or any value outside 0..n) this is [cr_fix]. *)
Corollary wl_colouring_is_refinement_default_partial sort g powers max_iter :
  sort_ok sort -> wf_graph g -> ((max_iter < 0)%Z \/ (Z.of_nat (length g) <= max_iter)%Z) ->
  wl_collision_free sort g powers wl_eps (length g) (repeat 0 (length g)) true = true ->
  forall u v, u < length g -> v < length g ->
  (nthn (color_weisfeiler_lehman sort g powers max_iter) u
   = nthn (color_weisfeiler_lehman sort g powers max_iter) v
   <-> cr_fix g u v = true).
Proof.
  intros Hsort Hwf Hmi Hcf u v Hu Hv.
  assert (E : wl_max_iter (length g) max_iter = length g).
  { unfold wl_max_iter. destruct (max_iter <? 0)%Z eqn:E1; [reflexivity|]. simpl.
    destruct (Z.of_nat (length g) <? max_iter)%Z eqn:E2; [reflexivity|].
    apply Z.ltb_ge in E1, E2. destruct Hmi as [Hmi|Hmi]; lia. }
  pose proof (wl_colouring_is_refinement_partial sort g powers max_iter Hsort Hwf) as H.
  rewrite E in H. unfold cr_fix. apply H; assumption.
Qed.

(** * 8. Renumbering (rows stored in any order) *)

Section Iso.
Context (n : nat) (p : list nat) (Hp : Permutation p (seq 0 n)).
Context (g g' : graph) (Hn : length g = n) (Hwf : wf_graph g) (Hiso : csr_iso p g g').
Context (powers : list Q) (eps : Q) (He : (0 <= eps)%Q).
Context (sort sort' : list wtuple -> list wtuple) (Hsort : sort_ok sort) (Hsort' : sort_ok sort').

Local Notation pv := (perm_vec 0 p).

Lemma iso_length : length g' = n.
Proof. destruct Hiso as [H _]. lia. Qed.

Lemma iso_labels L i : i < n -> nthn (pv L) (nthn p i) = nthn L i.
Proof. intros Hi. unfold nthn at 1 3. apply (FormatProofs.perm_vec_nth n p Hp 0 L i Hi). Qed.

Lemma iso_tuple L i :
  i < n -> wl_tuple_of g' powers (pv L) (nthn p i) = (nthn L i, wl_hash powers L (row g i), nthn p i).
Proof.
  intros Hi. unfold wl_tuple_of. rewrite iso_labels by exact Hi. f_equal. f_equal.
  apply wl_hash_perm. destruct Hiso as [_ Hrow].
  eapply Permutation_trans; [apply Permutation_map; apply Hrow; lia|].
  rewrite map_map. replace (map (fun x => nthn (pv L) (nthn p x)) (row g i)) with (map (nthn L) (row g i));
    [apply Permutation_refl|].
  apply map_ext_in. intros x Hx. symmetry. apply iso_labels. rewrite <- Hn. apply (Hwf i x Hx).
Qed.

Lemma perm_as_map : p = map (nthn p) (seq 0 n).
Proof.
  apply nth_ext with (d := 0) (d' := 0).
  - rewrite map_length, seq_length. apply (perm_length n p Hp).
  - intros i Hi. rewrite (perm_length n p Hp) in Hi.
    rewrite nth_map_seq by exact Hi. reflexivity.
Qed.

Lemma wl_tuples_as_map h powers0 L : wl_tuples h powers0 L = map (wl_tuple_of h powers0 L) (seq 0 (length h)).
Proof. reflexivity. Qed.

Lemma iso_keys L :
  Permutation (map t_key (wl_tuples g' powers (pv L))) (map t_key (wl_tuples g powers L)).
Proof.
  rewrite !wl_tuples_as_map, !map_map, iso_length, Hn.
  eapply Permutation_trans; [apply Permutation_map; apply Permutation_sym; exact Hp|].
  rewrite perm_as_map at 1. rewrite map_map.
  replace (map (fun x => t_key (wl_tuple_of g' powers (pv L) (nthn p x))) (seq 0 n))
    with (map (fun x => t_key (wl_tuple_of g powers L x)) (seq 0 n)); [apply Permutation_refl|].
  apply map_ext_in. intros i Hi. apply in_seq in Hi. rewrite iso_tuple by lia. reflexivity.
Qed.

Lemma wl_tuples_canon h powers0 L s : Permutation s (wl_tuples h powers0 L) -> Forall canont s.
Proof.
  intros HP. apply Forall_forall. intros t Ht. apply (Permutation_in _ HP) in Ht.
  apply wl_tuples_in in Ht. destruct Ht as [_ E]. rewrite E. unfold canont, t_hash. simpl. apply wl_hash_canon.
Qed.

Lemma wl_tuples_length h powers0 L : length (wl_tuples h powers0 L) = length h.
Proof. unfold wl_tuples. rewrite map_length, seq_length. reflexivity. Qed.

Theorem wl_round_equivariant L :
  length L = n ->
  fst (wl_round sort' g' powers eps (pv L)) = pv (fst (wl_round sort g powers eps L)) /\
  snd (wl_round sort' g' powers eps (pv L)) = snd (wl_round sort g powers eps L).
Proof.
  intros HL.
  set (d := (0, 0%Q, 0) : wtuple).
  assert (HL1 : length L = length g) by lia.
  assert (HL2 : length (pv L) = length g').
  { rewrite iso_length. apply (FormatProofs.perm_vec_length n p Hp). }
  destruct (wl_round_spec sort g powers eps L d Hsort HL1) as [HP [HS [Hlen [Hpos Hch]]]].
  destruct (wl_round_spec sort' g' powers eps (pv L) d Hsort' HL2) as [HP' [HS' [Hlen' [Hpos' Hch']]]].
  set (s := sort (wl_tuples g powers L)) in *.
  set (s' := sort' (wl_tuples g' powers (pv L))) in *.
  assert (Hkeys : map t_key s' = map t_key s).
  { apply sorted_keys_unique; try assumption.
    - apply (wl_tuples_canon _ _ _ _ HP').
    - apply (wl_tuples_canon _ _ _ _ HP).
    - eapply Permutation_trans; [apply Permutation_map; exact HP'|].
      eapply Permutation_trans; [apply iso_keys|]. apply Permutation_map. apply Permutation_sym. exact HP. }
  assert (Hls : length s = n) by (rewrite (Permutation_length HP), wl_tuples_length; exact Hn).
  assert (Hls' : length s' = n) by (rewrite (Permutation_length HP'), wl_tuples_length; exact iso_length).
  split.
  - apply nth_ext with (d := 0) (d' := 0).
    + rewrite Hlen', iso_length. symmetry. apply (FormatProofs.perm_vec_length n p Hp).
    + intros k Hk. rewrite Hlen', iso_length in Hk.
      rewrite (FormatProofs.perm_vec_nth_inv n p Hp 0 _ k Hk).
      pose proof (perm_index_lt n p Hp k Hk) as Hi. set (i := index_of k p) in *.
      assert (Ek : k = nthn p i) by (symmetry; apply (perm_index_nth n p Hp k Hk)).
      assert (Hig : i < length g) by lia.
      assert (Hkg' : k < length g') by (rewrite iso_length; exact Hk).
      destruct (node_pos d g powers L s i HP Hig) as [j [Hj Ej]].
      destruct (node_pos d g' powers (pv L) s' k HP' Hkg') as [j' [Hj' Ej']].
      rewrite iso_length in Hj'. rewrite Hn in Hj.
      pose proof (Hpos j) as Pj. rewrite Ej in Pj. simpl in Pj. fold (nthn (fst (wl_round sort g powers eps L)) i).
      rewrite Pj by lia.
      assert (Hj'g : j' < length g') by (rewrite iso_length; exact Hj').
      pose proof (Hpos' j' Hj'g) as Pj'. rewrite Ej' in Pj'. simpl in Pj'.
      fold (nthn (fst (wl_round sort' g' powers eps (pv L))) k). rewrite Pj'.
      rewrite (ranks_keys eps s' s Hkeys).
      apply (ranks_keq eps d); [exact He | exact HS | lia | lia |].
      apply keq_of_key.
      assert (K1 : t_key (nth j' s d) = t_key (nth j' s' d)).
      { rewrite <- !(map_nth t_key). rewrite Hkeys. reflexivity. }
      rewrite K1, Ej', Ej. rewrite Ek, iso_tuple by exact Hi. reflexivity.
  - rewrite Hch, Hch'. apply round_changed_keys. exact Hkeys.
Qed.

Lemma wl_round_length L : length L = n -> length (fst (wl_round sort g powers eps L)) = n.
Proof.
  intros HL. assert (HL1 : length L = length g) by lia.
  destruct (wl_round_spec sort g powers eps L (0, 0%Q, 0) Hsort HL1) as [_ [_ [Hlen _]]]. lia.
Qed.

Theorem wl_loop_equivariant todo : forall L changed rounds,
  length L = n ->
  wl_loop sort' g' powers eps todo (pv L) changed rounds =
  (pv (fst (fst (wl_loop sort g powers eps todo L changed rounds))),
   snd (fst (wl_loop sort g powers eps todo L changed rounds)),
   snd (wl_loop sort g powers eps todo L changed rounds)).
Proof.
  induction todo as [|todo IH]; intros L changed rounds HL; simpl; [reflexivity|].
  destruct changed; [|reflexivity].
  destruct (wl_round_equivariant L HL) as [E1 E2]. rewrite E1, E2.
  apply IH. apply wl_round_length. exact HL.
Qed.

Lemma pv_zeros : pv (repeat 0 n) = repeat 0 n.
Proof.
  apply nth_ext with (d := 0) (d' := 0).
  - rewrite (FormatProofs.perm_vec_length n p Hp), repeat_length. reflexivity.
  - intros k Hk. rewrite (FormatProofs.perm_vec_length n p Hp) in Hk.
    rewrite (FormatProofs.perm_vec_nth_inv n p Hp 0 _ k Hk), !nth_repeat. reflexivity.
Qed.

Lemma sumn_perm a b : Permutation a b -> sumn a = sumn b.
Proof. intros H; induction H; simpl; lia. Qed.

Lemma g_nnz_rows (h : graph) : g_nnz h = sumn (map (fun i => length (row h i)) (seq 0 (length h))).
Proof.
  unfold g_nnz. f_equal. apply nth_ext with (d := 0) (d' := 0).
  - rewrite !map_length, seq_length. reflexivity.
  - intros i Hi. rewrite map_length in Hi.
    rewrite (nth_map_lt (@length nat) h i [] 0) by exact Hi.
    rewrite nth_map_seq by exact Hi. reflexivity.
Qed.

Lemma iso_nnz : g_nnz g' = g_nnz g.
Proof.
  rewrite !g_nnz_rows, iso_length, Hn.
  rewrite (sumn_perm _ _ (Permutation_map (fun i => length (row g' i)) (Permutation_sym Hp))).
  rewrite perm_as_map at 1. rewrite map_map. f_equal. apply map_ext_in. intros i Hi. apply in_seq in Hi.
  destruct Hiso as [_ Hrow]. rewrite (Permutation_length (Hrow i ltac:(lia))). apply map_length.
Qed.
End Iso.

Lemma list_max_perm a b : Permutation a b -> list_max a = list_max b.
Proof. intros H; induction H; simpl; lia. Qed.

Lemma uniq_counts_perm a b : Permutation a b -> uniq_counts a = uniq_counts b.
Proof.
  intros H. unfold uniq_counts. rewrite (list_max_perm a b H). f_equal.
  apply map_ext. intros v. apply (Permutation_count_occ Nat.eq_dec). exact H.
Qed.

Lemma counts_differ_refl c : counts_differ c c = Ok false.
Proof.
  unfold counts_differ. rewrite Nat.eqb_refl. f_equal.
  induction c as [|a c IH]; simpl; [reflexivity|]. rewrite Nat.eqb_refl. simpl. exact IH.
Qed.

(** 3. The colours of a renumbered graph are the renumbered colours, label for label. *)
Theorem wl_equivariant_iso (n : nat) (p : list nat) (g g' : graph) (powers : list Q)
        (sort sort' : list wtuple -> list wtuple) (max_iter : Z) :
  Permutation p (seq 0 n) -> length g = n -> wf_graph g -> csr_iso p g g' ->
  sort_ok sort -> sort_ok sort' ->
  color_weisfeiler_lehman sort' g' powers max_iter
  = perm_vec 0 p (color_weisfeiler_lehman sort g powers max_iter).
Proof.
  intros Hp Hn Hwf Hiso Hs Hs'. unfold color_weisfeiler_lehman, wl_kernel.
  rewrite (iso_length n p g g' Hn Hiso), Hn.
  rewrite <- (pv_zeros n p Hp) at 1.
  rewrite (wl_loop_equivariant n p Hp g g' Hn Hwf Hiso powers wl_eps wl_eps_nonneg sort sort' Hs Hs').
  - reflexivity.
  - apply repeat_length.
Qed.

Lemma perm_graph_csr_iso (n : nat) (p : list nat) (g : graph) :
  Permutation p (seq 0 n) -> length g = n -> csr_iso p g (perm_graph p g).
Proof.
  intros Hp Hn. split.
  - rewrite (FormatProofs.perm_graph_length n p Hp). symmetry. exact Hn.
  - intros i Hi. rewrite (FormatProofs.perm_graph_row n p Hp g i) by lia. apply Permutation_refl.
Qed.

Theorem wl_equivariant (n : nat) (p : list nat) (g : graph) (powers : list Q)
        (sort sort' : list wtuple -> list wtuple) (max_iter : Z) :
  Permutation p (seq 0 n) -> length g = n -> wf_graph g -> sort_ok sort -> sort_ok sort' ->
  color_weisfeiler_lehman sort' (perm_graph p g) powers max_iter
  = perm_vec 0 p (color_weisfeiler_lehman sort g powers max_iter).
Proof.
  intros Hp Hn Hwf Hs Hs'. apply (wl_equivariant_iso n); try assumption.
  apply (perm_graph_csr_iso n); assumption.
Qed.

(** The partition form: nodes p[u], p[v] of the renumbered graph share a colour iff u, v do. *)
Corollary wl_equivariant_partition (n : nat) (p : list nat) (g g' : graph) (powers : list Q)
        (sort sort' : list wtuple -> list wtuple) (max_iter : Z) (u v : nat) :
  Permutation p (seq 0 n) -> length g = n -> wf_graph g -> csr_iso p g g' ->
  sort_ok sort -> sort_ok sort' -> u < n -> v < n ->
  (nthn (color_weisfeiler_lehman sort' g' powers max_iter) (nthn p u)
   = nthn (color_weisfeiler_lehman sort' g' powers max_iter) (nthn p v)
   <-> nthn (color_weisfeiler_lehman sort g powers max_iter) u
       = nthn (color_weisfeiler_lehman sort g powers max_iter) v).
Proof.
  intros Hp Hn Hwf Hiso Hs Hs' Hu Hv.
  rewrite (wl_equivariant_iso n p g g' powers sort sort' max_iter Hp Hn Hwf Hiso Hs Hs').
  unfold nthn at 1 3. rewrite !(FormatProofs.perm_vec_nth n p Hp 0) by assumption. reflexivity.
Qed.

Lemma wl_loop_length sort g powers eps :
  sort_ok sort -> forall todo L ch rounds,
  length L = length g -> length (fst (fst (wl_loop sort g powers eps todo L ch rounds))) = length g.
Proof.
  intros Hs. induction todo as [|todo IH]; intros L ch rounds HL; simpl; [exact HL|].
  destruct ch; [|exact HL]. apply IH.
  destruct (wl_round_spec sort g powers eps L (0, 0%Q, 0) Hs HL) as [_ [_ [Hlen _]]]. exact Hlen.
Qed.

Lemma forall2_len {A B} (R : A -> B -> Prop) l l' : Forall2 R l l' -> length l = length l'.
Proof. intros H; induction H; simpl; auto. Qed.

(** The order in which a row is stored, and the way the sort breaks ties, are irrelevant. *)
Theorem wl_row_order_irrelevant (g g' : graph) (powers : list Q)
        (sort sort' : list wtuple -> list wtuple) (max_iter : Z) :
  wf_graph g -> Forall2 (@Permutation nat) g' g -> sort_ok sort -> sort_ok sort' ->
  color_weisfeiler_lehman sort' g' powers max_iter = color_weisfeiler_lehman sort g powers max_iter.
Proof.
  intros Hwf HF Hs Hs'.
  assert (Hid : Permutation (seq 0 (length g)) (seq 0 (length g))) by apply Permutation_refl.
  assert (Hnth : forall i, i < length g -> nthn (seq 0 (length g)) i = i).
  { intros i Hi. unfold nthn. apply seq_nth. exact Hi. }
  assert (Hiso : csr_iso (seq 0 (length g)) g g').
  { split; [apply (forall2_len _ _ _ HF)|]. intros i Hi. rewrite Hnth by exact Hi.
    replace (map (nthn (seq 0 (length g))) (row g i)) with (row g i).
    - unfold row. clear -HF Hi. revert i Hi. induction HF as [|a b l l' Hab HF IH]; intros i Hi; simpl in *; [lia|].
      destruct i as [|i]; [exact Hab | apply IH; lia].
    - rewrite <- (map_id (row g i)) at 1. apply map_ext_in. intros x Hx. symmetry. apply Hnth.
      apply (Hwf i x Hx). }
  rewrite (wl_equivariant_iso (length g) (seq 0 (length g)) g g' powers sort sort' max_iter Hid eq_refl Hwf Hiso Hs Hs').
  set (c := color_weisfeiler_lehman sort g powers max_iter).
  assert (Hc : length c = length g).
  { unfold c, color_weisfeiler_lehman, wl_kernel. apply wl_loop_length; [exact Hs | apply repeat_length]. }
  apply nth_ext with (d := 0) (d' := 0).
  - rewrite (FormatProofs.perm_vec_length (length g) _ Hid). symmetry. exact Hc.
  - intros k Hk. rewrite (FormatProofs.perm_vec_length (length g) _ Hid) in Hk.
    rewrite (FormatProofs.perm_vec_nth_inv (length g) _ Hid 0 c k Hk).
    f_equal. rewrite <- (Hnth k Hk) at 1. apply (perm_index_of (length g) _ Hid k Hk).
Qed.

(** 4. are_isomorphic on a graph and a renumbered copy returns True. *)
Lemma iso_loop_self (n : nat) (p : list nat) (g g' : graph) (powers : list Q)
      (sort : list wtuple -> list wtuple) :
  Permutation p (seq 0 n) -> length g = n -> wf_graph g -> csr_iso p g g' -> sort_ok sort ->
  forall todo L c, length L = n ->
  iso_loop sort g g' powers todo L (perm_vec 0 p L) c c = Ok true.
Proof.
  intros Hp Hn Hwf Hiso Hs. induction todo as [|todo IH]; intros L c HL; simpl; [reflexivity|].
  destruct c; simpl; [|reflexivity].
  destruct (wl_round_equivariant n p Hp g g' Hn Hwf Hiso powers wl_eps wl_eps_nonneg sort sort Hs Hs L HL)
    as [E1 E2].
  rewrite E1, E2.
  assert (HL1 : length (fst (wl_round sort g powers wl_eps L)) = n).
  { apply (wl_round_length n g Hn powers wl_eps sort Hs L HL). }
  rewrite (uniq_counts_perm _ _ (perm_vec_Permutation n p 0 _ Hp HL1)).
  rewrite counts_differ_refl. apply IH. exact HL1.
Qed.

Theorem are_isomorphic_iso (n : nat) (p : list nat) (g g' : graph) (powers : list Q)
        (sort : list wtuple -> list wtuple) (max_iter : Z) :
  Permutation p (seq 0 n) -> length g = n -> wf_graph g -> csr_iso p g g' -> sort_ok sort ->
  are_isomorphic sort g g' powers max_iter = Ok true.
Proof.
  intros Hp Hn Hwf Hiso Hs. unfold are_isomorphic.
  rewrite (iso_length n p g g' Hn Hiso), Hn, Nat.eqb_refl.
  rewrite (iso_nnz n p Hp g g' Hn Hiso), Nat.eqb_refl. simpl.
  rewrite <- (pv_zeros n p Hp) at 2.
  apply (iso_loop_self n p g g' powers sort Hp Hn Hwf Hiso Hs). apply repeat_length.
Qed.

Theorem are_isomorphic_self (n : nat) (p : list nat) (g : graph) (powers : list Q)
        (sort : list wtuple -> list wtuple) (max_iter : Z) :
  Permutation p (seq 0 n) -> length g = n -> wf_graph g -> sort_ok sort ->
  are_isomorphic sort g (perm_graph p g) powers max_iter = Ok true.
Proof.
  intros Hp Hn Hwf Hs. apply (are_isomorphic_iso n p); try assumption.
  apply (perm_graph_csr_iso n); assumption.
Qed.

(** * 9. The specification: iterates are equivalences, the n-th iterate is stable *)

Definition is_equiv (n : nat) (E : nat -> nat -> bool) : Prop :=
  (forall u, u < n -> E u u = true) /\
  (forall u v, u < n -> v < n -> E u v = true -> E v u = true) /\
  (forall u v w, u < n -> v < n -> w < n -> E u v = true -> E v w = true -> E u w = true).

Lemma cr_step_true g E u v :
  cr_step g E u v = true <->
  E u v = true /\ forall w, w < length g -> count_in (E w) (row g u) = count_in (E w) (row g v).
Proof.
  unfold cr_step. rewrite andb_true_iff, forallb_forall. split; intros [H1 H2]; split; try exact H1.
  - intros w Hw. apply Nat.eqb_eq. apply H2. apply in_seq. lia.
  - intros w Hw. apply in_seq in Hw. apply Nat.eqb_eq. apply H2. lia.
Qed.

Lemma cr_step_equiv g E : is_equiv (length g) E -> is_equiv (length g) (cr_step g E).
Proof.
  intros [Hr [Hs Ht]]. split; [|split].
  - intros u Hu. apply cr_step_true. split; [apply Hr; exact Hu | reflexivity].
  - intros u v Hu Hv H. apply cr_step_true in H. destruct H as [H1 H2]. apply cr_step_true.
    split; [apply Hs; assumption|]. intros w Hw. symmetry. apply H2. exact Hw.
  - intros u v w Hu Hv Hw H H'. apply cr_step_true in H. apply cr_step_true in H'.
    destruct H as [H1 H2]. destruct H' as [H1' H2']. apply cr_step_true.
    split; [apply (Ht u v w); assumption|]. intros x Hx. rewrite H2 by exact Hx. apply H2'. exact Hx.
Qed.

Lemma cr_iter_equiv g k : is_equiv (length g) (cr_iter g k).
Proof.
  induction k as [|k IH]; simpl.
  - split; [|split]; intros; reflexivity.
  - apply cr_step_equiv. exact IH.
Qed.

Lemma cr_iter_refines g k u v : cr_iter g (S k) u v = true -> cr_iter g k u v = true.
Proof. simpl. intros H. apply cr_step_true in H. apply H. Qed.

(** The executable version. *)
Lemma tab_rel_cr_tab n E u v : u < n -> v < n -> tab_rel (cr_tab n E) u v = E u v.
Proof.
  intros Hu Hv. unfold tab_rel, cr_tab.
  rewrite (nth_map_seq (fun u0 => map (E u0) (seq 0 n)) n u [] Hu).
  apply (nth_map_seq (E u) n v false Hv).
Qed.

Theorem cr_iter_tab_correct g k :
  wf_graph g -> part_eq (length g) (tab_rel (cr_iter_tab g k)) (cr_iter g k).
Proof.
  intros Hwf. induction k as [|k IH]; intros u v Hu Hv; simpl.
  - apply tab_rel_cr_tab; assumption.
  - rewrite tab_rel_cr_tab by assumption. apply cr_step_ext; assumption.
Qed.

(** Counting classes by their least members. *)
Definition cmin (n : nat) (E : nat -> nat -> bool) (u : nat) : bool :=
  forallb (fun v => negb (E u v) || (u <=? v)) (seq 0 n).
Definition ncls (n : nat) (E : nat -> nat -> bool) : nat := length (filter (cmin n E) (seq 0 n)).

Lemma forallb_false_ex {A} (f : A -> bool) l : forallb f l = false -> exists x, In x l /\ f x = false.
Proof.
  induction l as [|a l IH]; simpl; [discriminate|]. intros H. apply andb_false_iff in H.
  destruct H as [H|H].
  - exists a. split; [left; reflexivity | exact H].
  - destruct (IH H) as [x [Hx Fx]]. exists x. split; [right; exact Hx | exact Fx].
Qed.

Lemma cmin_true n E u : cmin n E u = true <-> forall v, v < n -> E u v = true -> u <= v.
Proof.
  unfold cmin. rewrite forallb_forall. split.
  - intros H v Hv Ev. assert (Hin : In v (seq 0 n)) by (apply in_seq; lia).
    specialize (H v Hin). rewrite Ev in H. simpl in H. apply Nat.leb_le. exact H.
  - intros H v Hv. apply in_seq in Hv. destruct (E u v) eqn:Ev; simpl; [|reflexivity].
    apply Nat.leb_le. apply H; [lia | exact Ev].
Qed.

Lemma class_min n E : is_equiv n E -> forall u, u < n -> exists m, m < n /\ E u m = true /\ cmin n E m = true.
Proof.
  intros [Hr [Hs Ht]] u. induction u as [u IH] using lt_wf_ind. intros Hu.
  destruct (cmin n E u) eqn:C.
  - exists u. split; [exact Hu|]. split; [apply Hr; exact Hu | exact C].
  - unfold cmin in C. apply forallb_false_ex in C. destruct C as [v [Hv Fv]].
    apply in_seq in Hv. apply orb_false_iff in Fv. destruct Fv as [F1 F2].
    apply negb_false_iff in F1. apply Nat.leb_gt in F2.
    destruct (IH v F2 ltac:(lia)) as [m [Hm [Em Cm]]].
    exists m. split; [exact Hm|]. split; [|exact Cm]. apply (Ht u v m); try assumption; lia.
Qed.

Lemma filter_length_le {A} (f f' : A -> bool) l :
  (forall x, In x l -> f x = true -> f' x = true) -> length (filter f l) <= length (filter f' l).
Proof.
  intros H. induction l as [|a l IH]; simpl; [lia|].
  assert (IH' : length (filter f l) <= length (filter f' l)) by (apply IH; intros x Hx; apply H; right; exact Hx).
  destruct (f a) eqn:Fa.
  - rewrite (H a (or_introl eq_refl) Fa). simpl. lia.
  - destruct (f' a); simpl; lia.
Qed.

Lemma filter_length_lt {A} (f f' : A -> bool) l x :
  (forall y, In y l -> f y = true -> f' y = true) -> In x l -> f x = false -> f' x = true ->
  length (filter f l) < length (filter f' l).
Proof.
  intros H. induction l as [|a l IH]; simpl; intros Hin Fx F'x; [destruct Hin|].
  assert (Hl : forall y, In y l -> f y = true -> f' y = true) by (intros y Hy; apply H; right; exact Hy).
  pose proof (filter_length_le f f' l Hl) as Hle.
  destruct Hin as [E|Hin].
  - subst a. rewrite Fx, F'x. simpl. lia.
  - specialize (IH Hl Hin Fx F'x). destruct (f a) eqn:Fa.
    + rewrite (H a (or_introl eq_refl) Fa). simpl. lia.
    + destruct (f' a); simpl; lia.
Qed.

Lemma ncls_strict n E E' :
  is_equiv n E -> is_equiv n E' ->
  (forall u v, u < n -> v < n -> E' u v = true -> E u v = true) ->
  (exists u v, u < n /\ v < n /\ E u v = true /\ E' u v = false) ->
  ncls n E < ncls n E'.
Proof.
  intros HE HE' Href [u [v [Hu [Hv [Euv E'uv]]]]].
  assert (Hmono : forall y, In y (seq 0 n) -> cmin n E y = true -> cmin n E' y = true).
  { intros y Hy C. apply in_seq in Hy. apply cmin_true. intros w Hw Ew.
    apply (proj1 (cmin_true n E y) C w Hw). apply Href; [lia | exact Hw | exact Ew]. }
  destruct (class_min n E' HE' u Hu) as [mu [Hmu [Eu Cu]]].
  destruct (class_min n E' HE' v Hv) as [mv [Hmv [Ev Cv]]].
  destruct HE as [Hr [Hs Ht]]. destruct HE' as [Hr' [Hs' Ht']].
  assert (Nuv : E' mu mv = false).
  { destruct (E' mu mv) eqn:X; [|reflexivity]. exfalso.
    assert (E' u mv = true) by (apply (Ht' u mu mv); assumption).
    assert (E' mv v = true) by (apply Hs'; assumption).
    assert (E' u v = true) by (apply (Ht' u mv v); assumption). congruence. }
  assert (Emm : E mu mv = true).
  { assert (E u mu = true) by (apply Href; assumption).
    assert (E v mv = true) by (apply Href; assumption).
    assert (E mu u = true) by (apply Hs; assumption).
    assert (E mu v = true) by (apply (Ht mu u v); assumption).
    apply (Ht mu v mv); assumption. }
  assert (Hne : mu <> mv).
  { intros X. subst mv. rewrite (Hr' mu Hmu) in Nuv. discriminate. }
  unfold ncls. destruct (Nat.lt_ge_cases mu mv) as [L|L].
  - apply (filter_length_lt _ _ _ mv Hmono); [apply in_seq; lia | | exact Cv].
    destruct (cmin n E mv) eqn:C; [|reflexivity]. exfalso.
    pose proof (proj1 (cmin_true n E mv) C mu Hmu (Hs mu mv Hmu Hmv Emm)). lia.
  - apply (filter_length_lt _ _ _ mu Hmono); [apply in_seq; lia | | exact Cu].
    destruct (cmin n E mu) eqn:C; [|reflexivity]. exfalso.
    pose proof (proj1 (cmin_true n E mu) C mv Hmv Emm). lia.
Qed.

Lemma ncls_le n E : ncls n E <= n.
Proof.
  unfold ncls.
  assert (H : forall (f : nat -> bool) l, length (filter f l) <= length l).
  { intros f l. induction l as [|a l IH]; simpl; [lia|]. destruct (f a); simpl; lia. }
  pose proof (H (cmin n E) (seq 0 n)) as H1. rewrite seq_length in H1. exact H1.
Qed.

Definition part_eqb (n : nat) (E E' : nat -> nat -> bool) : bool :=
  forallb (fun u => forallb (fun v => Bool.eqb (E u v) (E' u v)) (seq 0 n)) (seq 0 n).

Lemma part_eqb_true n E E' : part_eqb n E E' = true <-> part_eq n E E'.
Proof.
  unfold part_eqb, part_eq. rewrite forallb_forall. split.
  - intros H u v Hu Hv. assert (Hu' : In u (seq 0 n)) by (apply in_seq; lia).
    specialize (H u Hu'). rewrite forallb_forall in H. apply eqb_prop. apply H. apply in_seq. lia.
  - intros H u Hu. apply forallb_forall. intros v Hv. apply in_seq in Hu. apply in_seq in Hv.
    rewrite (H u v) by lia. apply eqb_reflx.
Qed.

Lemma part_eqb_false n E E' :
  part_eqb n E E' = false -> exists u v, u < n /\ v < n /\ E u v <> E' u v.
Proof.
  unfold part_eqb. intros H. apply forallb_false_ex in H. destruct H as [u [Hu H]].
  apply forallb_false_ex in H. destruct H as [v [Hv H]]. apply in_seq in Hu. apply in_seq in Hv.
  exists u, v. split; [lia|]. split; [lia|]. intros X. rewrite X, eqb_reflx in H. discriminate.
Qed.

Lemma cr_classes_grow g k :
  0 < length g ->
  (forall j, j < k -> part_eqb (length g) (cr_iter g (S j)) (cr_iter g j) = false) ->
  k + 1 <= ncls (length g) (cr_iter g k).
Proof.
  intros Hn. induction k as [|k IH]; intros Hch.
  - unfold ncls.
    assert (Hin : In 0 (filter (cmin (length g) (cr_iter g 0)) (seq 0 (length g)))).
    { apply filter_In. split; [apply in_seq; lia|]. apply cmin_true. intros; lia. }
    destruct (filter (cmin (length g) (cr_iter g 0)) (seq 0 (length g))); [destruct Hin | simpl; lia].
  - assert (IH' : k + 1 <= ncls (length g) (cr_iter g k)) by (apply IH; intros j Hj; apply Hch; lia).
    assert (Hlt : ncls (length g) (cr_iter g k) < ncls (length g) (cr_iter g (S k))).
    { apply ncls_strict.
      - apply cr_iter_equiv.
      - apply cr_iter_equiv.
      - intros u v _ _. apply cr_iter_refines.
      - destruct (part_eqb_false _ _ _ (Hch k (Nat.lt_succ_diag_r k))) as [u [v [Hu [Hv Hne]]]].
        exists u, v. split; [exact Hu|]. split; [exact Hv|].
        destruct (cr_iter g (S k) u v) eqn:X.
        + apply cr_iter_refines in X. congruence.
        + destruct (cr_iter g k u v); [split; reflexivity | congruence]. }
    lia.
Qed.

Lemma bounded_search (f : nat -> bool) k :
  (forall j, j < k -> f j = false) \/ (exists j, j < k /\ f j = true).
Proof.
  induction k as [|k [IH|[j [Hj Fj]]]].
  - left. intros j Hj. lia.
  - destruct (f k) eqn:Fk.
    + right. exists k. split; [lia | exact Fk].
    + left. intros j Hj. destruct (Nat.eq_dec j k) as [->|N]; [exact Fk | apply IH; lia].
  - right. exists j. split; [lia | exact Fj].
Qed.

(** Colour refinement is stable after n rounds: [cr_fix] is a fixed point of the refinement step, and every
    later iterate is the same partition. *)
Theorem cr_fix_stable g :
  wf_graph g -> part_eq (length g) (cr_step g (cr_fix g)) (cr_fix g).
Proof.
  intros Hwf. destruct (Nat.eq_dec (length g) 0) as [Z|NZ].
  { intros u v Hu _. lia. }
  destruct (bounded_search (fun j => part_eqb (length g) (cr_iter g (S j)) (cr_iter g j)) (length g))
    as [Hall|[j [Hj Fj]]].
  - pose proof (cr_classes_grow g (length g) ltac:(lia) Hall) as H1.
    pose proof (ncls_le (length g) (cr_iter g (length g))) as H2. lia.
  - apply part_eqb_true in Fj.
    pose proof (cr_stable_forever g j Hwf Fj) as Hst.
    intros u v Hu Hv.
    assert (H1 : cr_iter g (S (length g)) u v = cr_iter g j u v).
    { pose proof (Hst (S (length g) - j) u v Hu Hv) as H.
      replace (j + (S (length g) - j)) with (S (length g)) in H by lia. exact H. }
    assert (H2 : cr_iter g (length g) u v = cr_iter g j u v).
    { pose proof (Hst (length g - j) u v Hu Hv) as H.
      replace (j + (length g - j)) with (length g) in H by lia. exact H. }
    unfold cr_fix. change (cr_step g (cr_iter g (length g)) u v) with (cr_iter g (S (length g)) u v).
    congruence.
Qed.

Corollary cr_iter_fix g k :
  wf_graph g -> length g <= k -> part_eq (length g) (cr_iter g k) (cr_fix g).
Proof.
  intros Hwf Hk. replace k with (length g + (k - length g)) by lia.
  apply cr_stable_forever; [exact Hwf|]. apply cr_fix_stable. exact Hwf.
Qed.

Lemma cr_iter_mono g k m u v : cr_iter g (k + m) u v = true -> cr_iter g k u v = true.
Proof.
  induction m as [|m IH].
  - rewrite Nat.add_0_r. auto.
  - rewrite Nat.add_succ_r. intros H. apply IH. apply cr_iter_refines. exact H.
Qed.

(** "Refinement cannot separate u and v": no round does. *)
Theorem cr_fix_never_separated g u v :
  wf_graph g -> u < length g -> v < length g ->
  (cr_fix g u v = true <-> forall k, cr_iter g k u v = true).
Proof.
  intros Hwf Hu Hv. split.
  - intros H k. destruct (Nat.le_ge_cases k (length g)) as [L|L].
    + apply (cr_iter_mono g k (length g - k)). replace (k + (length g - k)) with (length g) by lia. exact H.
    + rewrite (cr_iter_fix g k Hwf L u v Hu Hv). exact H.
  - intros H. apply H.
Qed.

(** * 10. The hypothesis cannot be dropped for the table the implementation builds

    A graph on 90 nodes: the connected antiregular graph on the nodes 0..43 (i ~ j iff i + j >= 43), two
    nodes 44 and 45 joined to 22 of them each, and a clique 46..89 joined to 44 and 45. The degree classes
    are stable under refinement except that 44 and 45 see different colours; with [wl_cex_powers], the exact
    values of the float64 entries of [(-pi / 3.15) ** arange(90)], their two hashes differ by 2.4e-13 <
    epsilon, so the second round changes no label and the kernel stops. (The real implementation returns the
    same colours on this graph: harness/props/c02.py runs it.) *)
Definition wl_cex_g : graph :=
  [[43; 44];
   [42; 43; 44];
   [41; 42; 43; 45];
   [40; 41; 42; 43; 45];
   [39; 40; 41; 42; 43; 45];
   [38; 39; 40; 41; 42; 43; 44];
   [37; 38; 39; 40; 41; 42; 43; 45];
   [36; 37; 38; 39; 40; 41; 42; 43; 45];
   [35; 36; 37; 38; 39; 40; 41; 42; 43; 45];
   [34; 35; 36; 37; 38; 39; 40; 41; 42; 43; 44];
   [33; 34; 35; 36; 37; 38; 39; 40; 41; 42; 43; 44];
   [32; 33; 34; 35; 36; 37; 38; 39; 40; 41; 42; 43; 45];
   [31; 32; 33; 34; 35; 36; 37; 38; 39; 40; 41; 42; 43; 44];
   [30; 31; 32; 33; 34; 35; 36; 37; 38; 39; 40; 41; 42; 43; 44];
   [29; 30; 31; 32; 33; 34; 35; 36; 37; 38; 39; 40; 41; 42; 43; 44];
   [28; 29; 30; 31; 32; 33; 34; 35; 36; 37; 38; 39; 40; 41; 42; 43; 45];
   [27; 28; 29; 30; 31; 32; 33; 34; 35; 36; 37; 38; 39; 40; 41; 42; 43; 45];
   [26; 27; 28; 29; 30; 31; 32; 33; 34; 35; 36; 37; 38; 39; 40; 41; 42; 43; 44];
   [25; 26; 27; 28; 29; 30; 31; 32; 33; 34; 35; 36; 37; 38; 39; 40; 41; 42; 43; 45];
   [24; 25; 26; 27; 28; 29; 30; 31; 32; 33; 34; 35; 36; 37; 38; 39; 40; 41; 42; 43; 45];
   [23; 24; 25; 26; 27; 28; 29; 30; 31; 32; 33; 34; 35; 36; 37; 38; 39; 40; 41; 42; 43; 44];
   [22; 23; 24; 25; 26; 27; 28; 29; 30; 31; 32; 33; 34; 35; 36; 37; 38; 39; 40; 41; 42; 43; 44];
   [21; 23; 24; 25; 26; 27; 28; 29; 30; 31; 32; 33; 34; 35; 36; 37; 38; 39; 40; 41; 42; 43; 45];
   [20; 21; 22; 24; 25; 26; 27; 28; 29; 30; 31; 32; 33; 34; 35; 36; 37; 38; 39; 40; 41; 42; 43; 44];
   [19; 20; 21; 22; 23; 25; 26; 27; 28; 29; 30; 31; 32; 33; 34; 35; 36; 37; 38; 39; 40; 41; 42; 43; 44];
   [18; 19; 20; 21; 22; 23; 24; 26; 27; 28; 29; 30; 31; 32; 33; 34; 35; 36; 37; 38; 39; 40; 41; 42; 43; 44];
   [17; 18; 19; 20; 21; 22; 23; 24; 25; 27; 28; 29; 30; 31; 32; 33; 34; 35; 36; 37; 38; 39; 40; 41; 42; 43; 45];
   [16; 17; 18; 19; 20; 21; 22; 23; 24; 25; 26; 28; 29; 30; 31; 32; 33; 34; 35; 36; 37; 38; 39; 40; 41; 42; 43; 44];
   [15; 16; 17; 18; 19; 20; 21; 22; 23; 24; 25; 26; 27; 29; 30; 31; 32; 33; 34; 35; 36; 37; 38; 39; 40; 41; 42; 43; 45];
   [14; 15; 16; 17; 18; 19; 20; 21; 22; 23; 24; 25; 26; 27; 28; 30; 31; 32; 33; 34; 35; 36; 37; 38; 39; 40; 41; 42; 43; 45];
   [13; 14; 15; 16; 17; 18; 19; 20; 21; 22; 23; 24; 25; 26; 27; 28; 29; 31; 32; 33; 34; 35; 36; 37; 38; 39; 40; 41; 42; 43; 45];
   [12; 13; 14; 15; 16; 17; 18; 19; 20; 21; 22; 23; 24; 25; 26; 27; 28; 29; 30; 32; 33; 34; 35; 36; 37; 38; 39; 40; 41; 42; 43; 44];
   [11; 12; 13; 14; 15; 16; 17; 18; 19; 20; 21; 22; 23; 24; 25; 26; 27; 28; 29; 30; 31; 33; 34; 35; 36; 37; 38; 39; 40; 41; 42; 43; 44];
   [10; 11; 12; 13; 14; 15; 16; 17; 18; 19; 20; 21; 22; 23; 24; 25; 26; 27; 28; 29; 30; 31; 32; 34; 35; 36; 37; 38; 39; 40; 41; 42; 43; 45];
   [9; 10; 11; 12; 13; 14; 15; 16; 17; 18; 19; 20; 21; 22; 23; 24; 25; 26; 27; 28; 29; 30; 31; 32; 33; 35; 36; 37; 38; 39; 40; 41; 42; 43; 44];
   [8; 9; 10; 11; 12; 13; 14; 15; 16; 17; 18; 19; 20; 21; 22; 23; 24; 25; 26; 27; 28; 29; 30; 31; 32; 33; 34; 36; 37; 38; 39; 40; 41; 42; 43; 44];
   [7; 8; 9; 10; 11; 12; 13; 14; 15; 16; 17; 18; 19; 20; 21; 22; 23; 24; 25; 26; 27; 28; 29; 30; 31; 32; 33; 34; 35; 37; 38; 39; 40; 41; 42; 43; 44];
   [6; 7; 8; 9; 10; 11; 12; 13; 14; 15; 16; 17; 18; 19; 20; 21; 22; 23; 24; 25; 26; 27; 28; 29; 30; 31; 32; 33; 34; 35; 36; 38; 39; 40; 41; 42; 43; 44];
   [5; 6; 7; 8; 9; 10; 11; 12; 13; 14; 15; 16; 17; 18; 19; 20; 21; 22; 23; 24; 25; 26; 27; 28; 29; 30; 31; 32; 33; 34; 35; 36; 37; 39; 40; 41; 42; 43; 45];
   [4; 5; 6; 7; 8; 9; 10; 11; 12; 13; 14; 15; 16; 17; 18; 19; 20; 21; 22; 23; 24; 25; 26; 27; 28; 29; 30; 31; 32; 33; 34; 35; 36; 37; 38; 40; 41; 42; 43; 45];
   [3; 4; 5; 6; 7; 8; 9; 10; 11; 12; 13; 14; 15; 16; 17; 18; 19; 20; 21; 22; 23; 24; 25; 26; 27; 28; 29; 30; 31; 32; 33; 34; 35; 36; 37; 38; 39; 41; 42; 43; 45];
   [2; 3; 4; 5; 6; 7; 8; 9; 10; 11; 12; 13; 14; 15; 16; 17; 18; 19; 20; 21; 22; 23; 24; 25; 26; 27; 28; 29; 30; 31; 32; 33; 34; 35; 36; 37; 38; 39; 40; 42; 43; 45];
   [1; 2; 3; 4; 5; 6; 7; 8; 9; 10; 11; 12; 13; 14; 15; 16; 17; 18; 19; 20; 21; 22; 23; 24; 25; 26; 27; 28; 29; 30; 31; 32; 33; 34; 35; 36; 37; 38; 39; 40; 41; 43; 44];
   [0; 1; 2; 3; 4; 5; 6; 7; 8; 9; 10; 11; 12; 13; 14; 15; 16; 17; 18; 19; 20; 21; 22; 23; 24; 25; 26; 27; 28; 29; 30; 31; 32; 33; 34; 35; 36; 37; 38; 39; 40; 41; 42; 45];
   [0; 1; 5; 9; 10; 12; 13; 14; 17; 20; 21; 23; 24; 25; 27; 31; 32; 34; 35; 36; 37; 42; 46; 47; 48; 49; 50; 51; 52; 53; 54; 55; 56; 57; 58; 59; 60; 61; 62; 63; 64; 65; 66; 67; 68; 69; 70; 71; 72; 73; 74; 75; 76; 77; 78; 79; 80; 81; 82; 83; 84; 85; 86; 87; 88; 89];
   [2; 3; 4; 6; 7; 8; 11; 15; 16; 18; 19; 22; 26; 28; 29; 30; 33; 38; 39; 40; 41; 43; 46; 47; 48; 49; 50; 51; 52; 53; 54; 55; 56; 57; 58; 59; 60; 61; 62; 63; 64; 65; 66; 67; 68; 69; 70; 71; 72; 73; 74; 75; 76; 77; 78; 79; 80; 81; 82; 83; 84; 85; 86; 87; 88; 89];
   [44; 45; 47; 48; 49; 50; 51; 52; 53; 54; 55; 56; 57; 58; 59; 60; 61; 62; 63; 64; 65; 66; 67; 68; 69; 70; 71; 72; 73; 74; 75; 76; 77; 78; 79; 80; 81; 82; 83; 84; 85; 86; 87; 88; 89];
   [44; 45; 46; 48; 49; 50; 51; 52; 53; 54; 55; 56; 57; 58; 59; 60; 61; 62; 63; 64; 65; 66; 67; 68; 69; 70; 71; 72; 73; 74; 75; 76; 77; 78; 79; 80; 81; 82; 83; 84; 85; 86; 87; 88; 89];
   [44; 45; 46; 47; 49; 50; 51; 52; 53; 54; 55; 56; 57; 58; 59; 60; 61; 62; 63; 64; 65; 66; 67; 68; 69; 70; 71; 72; 73; 74; 75; 76; 77; 78; 79; 80; 81; 82; 83; 84; 85; 86; 87; 88; 89];
   [44; 45; 46; 47; 48; 50; 51; 52; 53; 54; 55; 56; 57; 58; 59; 60; 61; 62; 63; 64; 65; 66; 67; 68; 69; 70; 71; 72; 73; 74; 75; 76; 77; 78; 79; 80; 81; 82; 83; 84; 85; 86; 87; 88; 89];
   [44; 45; 46; 47; 48; 49; 51; 52; 53; 54; 55; 56; 57; 58; 59; 60; 61; 62; 63; 64; 65; 66; 67; 68; 69; 70; 71; 72; 73; 74; 75; 76; 77; 78; 79; 80; 81; 82; 83; 84; 85; 86; 87; 88; 89];
   [44; 45; 46; 47; 48; 49; 50; 52; 53; 54; 55; 56; 57; 58; 59; 60; 61; 62; 63; 64; 65; 66; 67; 68; 69; 70; 71; 72; 73; 74; 75; 76; 77; 78; 79; 80; 81; 82; 83; 84; 85; 86; 87; 88; 89];
   [44; 45; 46; 47; 48; 49; 50; 51; 53; 54; 55; 56; 57; 58; 59; 60; 61; 62; 63; 64; 65; 66; 67; 68; 69; 70; 71; 72; 73; 74; 75; 76; 77; 78; 79; 80; 81; 82; 83; 84; 85; 86; 87; 88; 89];
   [44; 45; 46; 47; 48; 49; 50; 51; 52; 54; 55; 56; 57; 58; 59; 60; 61; 62; 63; 64; 65; 66; 67; 68; 69; 70; 71; 72; 73; 74; 75; 76; 77; 78; 79; 80; 81; 82; 83; 84; 85; 86; 87; 88; 89];
   [44; 45; 46; 47; 48; 49; 50; 51; 52; 53; 55; 56; 57; 58; 59; 60; 61; 62; 63; 64; 65; 66; 67; 68; 69; 70; 71; 72; 73; 74; 75; 76; 77; 78; 79; 80; 81; 82; 83; 84; 85; 86; 87; 88; 89];
   [44; 45; 46; 47; 48; 49; 50; 51; 52; 53; 54; 56; 57; 58; 59; 60; 61; 62; 63; 64; 65; 66; 67; 68; 69; 70; 71; 72; 73; 74; 75; 76; 77; 78; 79; 80; 81; 82; 83; 84; 85; 86; 87; 88; 89];
   [44; 45; 46; 47; 48; 49; 50; 51; 52; 53; 54; 55; 57; 58; 59; 60; 61; 62; 63; 64; 65; 66; 67; 68; 69; 70; 71; 72; 73; 74; 75; 76; 77; 78; 79; 80; 81; 82; 83; 84; 85; 86; 87; 88; 89];
   [44; 45; 46; 47; 48; 49; 50; 51; 52; 53; 54; 55; 56; 58; 59; 60; 61; 62; 63; 64; 65; 66; 67; 68; 69; 70; 71; 72; 73; 74; 75; 76; 77; 78; 79; 80; 81; 82; 83; 84; 85; 86; 87; 88; 89];
   [44; 45; 46; 47; 48; 49; 50; 51; 52; 53; 54; 55; 56; 57; 59; 60; 61; 62; 63; 64; 65; 66; 67; 68; 69; 70; 71; 72; 73; 74; 75; 76; 77; 78; 79; 80; 81; 82; 83; 84; 85; 86; 87; 88; 89];
   [44; 45; 46; 47; 48; 49; 50; 51; 52; 53; 54; 55; 56; 57; 58; 60; 61; 62; 63; 64; 65; 66; 67; 68; 69; 70; 71; 72; 73; 74; 75; 76; 77; 78; 79; 80; 81; 82; 83; 84; 85; 86; 87; 88; 89];
   [44; 45; 46; 47; 48; 49; 50; 51; 52; 53; 54; 55; 56; 57; 58; 59; 61; 62; 63; 64; 65; 66; 67; 68; 69; 70; 71; 72; 73; 74; 75; 76; 77; 78; 79; 80; 81; 82; 83; 84; 85; 86; 87; 88; 89];
   [44; 45; 46; 47; 48; 49; 50; 51; 52; 53; 54; 55; 56; 57; 58; 59; 60; 62; 63; 64; 65; 66; 67; 68; 69; 70; 71; 72; 73; 74; 75; 76; 77; 78; 79; 80; 81; 82; 83; 84; 85; 86; 87; 88; 89];
   [44; 45; 46; 47; 48; 49; 50; 51; 52; 53; 54; 55; 56; 57; 58; 59; 60; 61; 63; 64; 65; 66; 67; 68; 69; 70; 71; 72; 73; 74; 75; 76; 77; 78; 79; 80; 81; 82; 83; 84; 85; 86; 87; 88; 89];
   [44; 45; 46; 47; 48; 49; 50; 51; 52; 53; 54; 55; 56; 57; 58; 59; 60; 61; 62; 64; 65; 66; 67; 68; 69; 70; 71; 72; 73; 74; 75; 76; 77; 78; 79; 80; 81; 82; 83; 84; 85; 86; 87; 88; 89];
   [44; 45; 46; 47; 48; 49; 50; 51; 52; 53; 54; 55; 56; 57; 58; 59; 60; 61; 62; 63; 65; 66; 67; 68; 69; 70; 71; 72; 73; 74; 75; 76; 77; 78; 79; 80; 81; 82; 83; 84; 85; 86; 87; 88; 89];
   [44; 45; 46; 47; 48; 49; 50; 51; 52; 53; 54; 55; 56; 57; 58; 59; 60; 61; 62; 63; 64; 66; 67; 68; 69; 70; 71; 72; 73; 74; 75; 76; 77; 78; 79; 80; 81; 82; 83; 84; 85; 86; 87; 88; 89];
   [44; 45; 46; 47; 48; 49; 50; 51; 52; 53; 54; 55; 56; 57; 58; 59; 60; 61; 62; 63; 64; 65; 67; 68; 69; 70; 71; 72; 73; 74; 75; 76; 77; 78; 79; 80; 81; 82; 83; 84; 85; 86; 87; 88; 89];
   [44; 45; 46; 47; 48; 49; 50; 51; 52; 53; 54; 55; 56; 57; 58; 59; 60; 61; 62; 63; 64; 65; 66; 68; 69; 70; 71; 72; 73; 74; 75; 76; 77; 78; 79; 80; 81; 82; 83; 84; 85; 86; 87; 88; 89];
   [44; 45; 46; 47; 48; 49; 50; 51; 52; 53; 54; 55; 56; 57; 58; 59; 60; 61; 62; 63; 64; 65; 66; 67; 69; 70; 71; 72; 73; 74; 75; 76; 77; 78; 79; 80; 81; 82; 83; 84; 85; 86; 87; 88; 89];
   [44; 45; 46; 47; 48; 49; 50; 51; 52; 53; 54; 55; 56; 57; 58; 59; 60; 61; 62; 63; 64; 65; 66; 67; 68; 70; 71; 72; 73; 74; 75; 76; 77; 78; 79; 80; 81; 82; 83; 84; 85; 86; 87; 88; 89];
   [44; 45; 46; 47; 48; 49; 50; 51; 52; 53; 54; 55; 56; 57; 58; 59; 60; 61; 62; 63; 64; 65; 66; 67; 68; 69; 71; 72; 73; 74; 75; 76; 77; 78; 79; 80; 81; 82; 83; 84; 85; 86; 87; 88; 89];
   [44; 45; 46; 47; 48; 49; 50; 51; 52; 53; 54; 55; 56; 57; 58; 59; 60; 61; 62; 63; 64; 65; 66; 67; 68; 69; 70; 72; 73; 74; 75; 76; 77; 78; 79; 80; 81; 82; 83; 84; 85; 86; 87; 88; 89];
   [44; 45; 46; 47; 48; 49; 50; 51; 52; 53; 54; 55; 56; 57; 58; 59; 60; 61; 62; 63; 64; 65; 66; 67; 68; 69; 70; 71; 73; 74; 75; 76; 77; 78; 79; 80; 81; 82; 83; 84; 85; 86; 87; 88; 89];
   [44; 45; 46; 47; 48; 49; 50; 51; 52; 53; 54; 55; 56; 57; 58; 59; 60; 61; 62; 63; 64; 65; 66; 67; 68; 69; 70; 71; 72; 74; 75; 76; 77; 78; 79; 80; 81; 82; 83; 84; 85; 86; 87; 88; 89];
   [44; 45; 46; 47; 48; 49; 50; 51; 52; 53; 54; 55; 56; 57; 58; 59; 60; 61; 62; 63; 64; 65; 66; 67; 68; 69; 70; 71; 72; 73; 75; 76; 77; 78; 79; 80; 81; 82; 83; 84; 85; 86; 87; 88; 89];
   [44; 45; 46; 47; 48; 49; 50; 51; 52; 53; 54; 55; 56; 57; 58; 59; 60; 61; 62; 63; 64; 65; 66; 67; 68; 69; 70; 71; 72; 73; 74; 76; 77; 78; 79; 80; 81; 82; 83; 84; 85; 86; 87; 88; 89];
   [44; 45; 46; 47; 48; 49; 50; 51; 52; 53; 54; 55; 56; 57; 58; 59; 60; 61; 62; 63; 64; 65; 66; 67; 68; 69; 70; 71; 72; 73; 74; 75; 77; 78; 79; 80; 81; 82; 83; 84; 85; 86; 87; 88; 89];
   [44; 45; 46; 47; 48; 49; 50; 51; 52; 53; 54; 55; 56; 57; 58; 59; 60; 61; 62; 63; 64; 65; 66; 67; 68; 69; 70; 71; 72; 73; 74; 75; 76; 78; 79; 80; 81; 82; 83; 84; 85; 86; 87; 88; 89];
   [44; 45; 46; 47; 48; 49; 50; 51; 52; 53; 54; 55; 56; 57; 58; 59; 60; 61; 62; 63; 64; 65; 66; 67; 68; 69; 70; 71; 72; 73; 74; 75; 76; 77; 79; 80; 81; 82; 83; 84; 85; 86; 87; 88; 89];
   [44; 45; 46; 47; 48; 49; 50; 51; 52; 53; 54; 55; 56; 57; 58; 59; 60; 61; 62; 63; 64; 65; 66; 67; 68; 69; 70; 71; 72; 73; 74; 75; 76; 77; 78; 80; 81; 82; 83; 84; 85; 86; 87; 88; 89];
   [44; 45; 46; 47; 48; 49; 50; 51; 52; 53; 54; 55; 56; 57; 58; 59; 60; 61; 62; 63; 64; 65; 66; 67; 68; 69; 70; 71; 72; 73; 74; 75; 76; 77; 78; 79; 81; 82; 83; 84; 85; 86; 87; 88; 89];
   [44; 45; 46; 47; 48; 49; 50; 51; 52; 53; 54; 55; 56; 57; 58; 59; 60; 61; 62; 63; 64; 65; 66; 67; 68; 69; 70; 71; 72; 73; 74; 75; 76; 77; 78; 79; 80; 82; 83; 84; 85; 86; 87; 88; 89];
   [44; 45; 46; 47; 48; 49; 50; 51; 52; 53; 54; 55; 56; 57; 58; 59; 60; 61; 62; 63; 64; 65; 66; 67; 68; 69; 70; 71; 72; 73; 74; 75; 76; 77; 78; 79; 80; 81; 83; 84; 85; 86; 87; 88; 89];
   [44; 45; 46; 47; 48; 49; 50; 51; 52; 53; 54; 55; 56; 57; 58; 59; 60; 61; 62; 63; 64; 65; 66; 67; 68; 69; 70; 71; 72; 73; 74; 75; 76; 77; 78; 79; 80; 81; 82; 84; 85; 86; 87; 88; 89];
   [44; 45; 46; 47; 48; 49; 50; 51; 52; 53; 54; 55; 56; 57; 58; 59; 60; 61; 62; 63; 64; 65; 66; 67; 68; 69; 70; 71; 72; 73; 74; 75; 76; 77; 78; 79; 80; 81; 82; 83; 85; 86; 87; 88; 89];
   [44; 45; 46; 47; 48; 49; 50; 51; 52; 53; 54; 55; 56; 57; 58; 59; 60; 61; 62; 63; 64; 65; 66; 67; 68; 69; 70; 71; 72; 73; 74; 75; 76; 77; 78; 79; 80; 81; 82; 83; 84; 86; 87; 88; 89];
   [44; 45; 46; 47; 48; 49; 50; 51; 52; 53; 54; 55; 56; 57; 58; 59; 60; 61; 62; 63; 64; 65; 66; 67; 68; 69; 70; 71; 72; 73; 74; 75; 76; 77; 78; 79; 80; 81; 82; 83; 84; 85; 87; 88; 89];
   [44; 45; 46; 47; 48; 49; 50; 51; 52; 53; 54; 55; 56; 57; 58; 59; 60; 61; 62; 63; 64; 65; 66; 67; 68; 69; 70; 71; 72; 73; 74; 75; 76; 77; 78; 79; 80; 81; 82; 83; 84; 85; 86; 88; 89];
   [44; 45; 46; 47; 48; 49; 50; 51; 52; 53; 54; 55; 56; 57; 58; 59; 60; 61; 62; 63; 64; 65; 66; 67; 68; 69; 70; 71; 72; 73; 74; 75; 76; 77; 78; 79; 80; 81; 82; 83; 84; 85; 86; 87; 89];
   [44; 45; 46; 47; 48; 49; 50; 51; 52; 53; 54; 55; 56; 57; 58; 59; 60; 61; 62; 63; 64; 65; 66; 67; 68; 69; 70; 71; 72; 73; 74; 75; 76; 77; 78; 79; 80; 81; 82; 83; 84; 85; 86; 87; 88]].
Definition wl_cex_powers : list Q :=
  [(1 # 1)%Q;
   (-8983159050194845 # 9007199254740992)%Q;
   (8959183008927235 # 9007199254740992)%Q;
   (-8935270959686445 # 9007199254740992)%Q;
   (2227855682919457 # 2251799813685248)%Q;
   (-2221909538640647 # 2251799813685248)%Q;
   (8863917058456563 # 9007199254740992)%Q;
   (-2210064818482253 # 2251799813685248)%Q;
   (8816664632001405 # 9007199254740992)%Q;
   (-8793132964146213 # 9007199254740992)%Q;
   (4384832051142855 # 4503599627370496)%Q;
   (-8746257878790767 # 9007199254740992)%Q;
   (4361457063239829 # 4503599627370496)%Q;
   (-8699632678616865 # 9007199254740992)%Q;
   (8676413368911885 # 9007199254740992)%Q;
   (-8653256031518047 # 9007199254740992)%Q;
   (4315080250515661 # 4503599627370496)%Q;
   (-4303563306244573 # 4503599627370496)%Q;
   (1073019275171155 # 1125899906842624)%Q;
   (-8561243103588433 # 9007199254740992)%Q;
   (8538393155501493 # 9007199254740992)%Q;
   (-8515604193899957 # 9007199254740992)%Q;
   (2123219014002741 # 2251799813685248)%Q;
   (-264694018109253 # 281474976710656)%Q;
   (4223800801225107 # 4503599627370496)%Q;
   (-526565935212519 # 562949953421312)%Q;
   (2100642125326081 # 2251799813685248)%Q;
   (-2095035513887513 # 2251799813685248)%Q;
   (8357775465953941 # 9007199254740992)%Q;
   (-2083867143189993 # 2251799813685248)%Q;
   (8313221216638517 # 9007199254740992)%Q;
   (-2072758309671299 # 2251799813685248)%Q;
   (8268904480419747 # 9007199254740992)%Q;
   (-8246834783784891 # 9007199254740992)%Q;
   (8224823991145201 # 9007199254740992)%Q;
   (-8202871945285983 # 9007199254740992)%Q;
   (8180978489412147 # 9007199254740992)%Q;
   (-8159143467147087 # 9007199254740992)%Q;
   (4068683361265785 # 4503599627370496)%Q;
   (-4057824050011307 # 4503599627370496)%Q;
   (8093987444492383 # 9007199254740992)%Q;
   (-4036192300613539 # 4503599627370496)%Q;
   (8050839415925829 # 9007199254740992)%Q;
   (-2007337933674899 # 2251799813685248)%Q;
   (2001980351017517 # 2251799813685248)%Q;
   (-998318533871071 # 1125899906842624)%Q;
   (3982616091367479 # 4503599627370496)%Q;
   (-992996623389569 # 1125899906842624)%Q;
   (495173158266689 # 562949953421312)%Q;
   (-7901624666745327 # 9007199254740992)%Q;
   (492533452469663 # 562949953421312)%Q;
   (-7859502099941135 # 9007199254740992)%Q;
   (3919262548896607 # 4503599627370496)%Q;
   (-977200510405015 # 1125899906842624)%Q;
   (3898369453425513 # 4503599627370496)%Q;
   (-485995588724621 # 562949953421312)%Q;
   (7755175472834621 # 9007199254740992)%Q;
   (-3867238459167777 # 4503599627370496)%Q;
   (7713833608254857 # 9007199254740992)%Q;
   (-961655674393155 # 1125899906842624)%Q;
   (3836356065976475 # 4503599627370496)%Q;
   (-7652233672016721 # 9007199254740992)%Q;
   (7631809869066723 # 9007199254740992)%Q;
   (-1902860144305881 # 2251799813685248)%Q;
   (7591125650997041 # 9007199254740992)%Q;
   (-7570864945285505 # 9007199254740992)%Q;
   (943832289421803 # 1125899906842624)%Q;
   (-7530505616935547 # 9007199254740992)%Q;
   (3755203353012919 # 4503599627370496)%Q;
   (-7490361439086441 # 9007199254740992)%Q;
   (3735184836470831 # 4503599627370496)%Q;
   (-7450431264797941 # 9007199254740992)%Q;
   (7430546072242833 # 9007199254740992)%Q;
   (-7410713953243993 # 9007199254740992)%Q;
   (7390934766148159 # 9007199254740992)%Q;
   (-460700523105009 # 562949953421312)%Q;
   (3675767311470911 # 4503599627370496)%Q;
   (-7331913385411123 # 9007199254740992)%Q;
   (3656172258470517 # 4503599627370496)%Q;
   (-3646413938879295 # 4503599627370496)%Q;
   (3636681664231941 # 4503599627370496)%Q;
   (-1813487682507265 # 2251799813685248)%Q;
   (7234589943797337 # 9007199254740992)%Q;
   (-7215280831482003 # 9007199254740992)%Q;
   (3598011627582717 # 4503599627370496)%Q;
   (-7176817077298107 # 9007199254740992)%Q;
   (7157662160697621 # 9007199254740992)%Q;
   (-55769987254279 # 70368744177664)%Q;
   (222484548887415 # 281474976710656)%Q;
   (-7100503612159413 # 9007199254740992)%Q].
Definition wl_cex_u : nat := 44.
Definition wl_cex_v : nat := 45.

Lemma wf_graph_b (g : graph) : forallb (forallb (fun v => v <? length g)) g = true -> wf_graph g.
Proof.
  intros H u v Hin. unfold row in Hin.
  destruct (Nat.lt_ge_cases u (length g)) as [L|L].
  - rewrite forallb_forall in H. pose proof (H (nth u g []) (nth_In g [] L)) as H1.
    rewrite forallb_forall in H1. apply Nat.ltb_lt. apply H1. exact Hin.
  - rewrite nth_overflow in Hin by exact L. destruct Hin.
Qed.

Theorem wl_colouring_is_refinement_refuted :
  wf_graph wl_cex_g /\ length wl_cex_g = 90 /\ length wl_cex_powers = 90 /\
  nthn (color_weisfeiler_lehman wl_sort wl_cex_g wl_cex_powers (-1)) wl_cex_u
  = nthn (color_weisfeiler_lehman wl_sort wl_cex_g wl_cex_powers (-1)) wl_cex_v /\
  cr_fix wl_cex_g wl_cex_u wl_cex_v = false.
Proof.
  split; [apply wf_graph_b; vm_compute; reflexivity|].
  split; [reflexivity|]. split; [reflexivity|]. split; [vm_compute; reflexivity|].
  destruct (cr_fix wl_cex_g wl_cex_u wl_cex_v) eqn:E; [|reflexivity]. exfalso.
  assert (H : cr_iter wl_cex_g 2 wl_cex_u wl_cex_v = true).
  { apply (cr_iter_mono wl_cex_g 2 88). exact E. }
  assert (H2 : cr_iter wl_cex_g 2 wl_cex_u wl_cex_v = false) by (vm_compute; reflexivity).
  congruence.
Qed.

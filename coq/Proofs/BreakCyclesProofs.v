(** break_cycles (Model/Cycles.v), proofs WITHOUT a bound on the size of the graph.

    Directed branch: for every well-formed graph, every admissible root list and every oracle answer
    that is a correct strongly-connected-component labelling, the model returns (never [OutOfFuel])
    a loop-free subgraph on the same nodes, without any directed cycle, in which every node reachable
    from the roots in the input is still reachable from the roots.

    Structure of the argument:
    - [bc_scan_dir_spec]: exact effect of one scan (edges cur -> v with v on the path disappear).
    - [visit_frame]: a call of [bc_visit_dir] with path P only shrinks the graph; every removed edge
      lies inside the component, and its source is [last P] or outside P; reachability (inside the
      component) from any set containing [hd P] is preserved ([reach_repair]: the removed edge
      cur -> v is replaced by the path prefix).
    - [visit_complete]: every simple path of the RESULT that extends P inside the component has been
      visited, so its last node has no edge of the result back into the path.
    - [visit_total]: the depth budget is never exhausted.
    - component level ([comp_*]), label level ([labels_*]), then the theorems. *)
From Coq Require Import Permutation.
From SKN Require Import Base.Util Model.Bfs Model.Structure Model.Cycles
  Proofs.BfsProofs Proofs.StructureProofs Proofs.CyclesProofs.
Set Warnings "-notation-overridden".

(** * Generic: folds over [option] states *)

Definition ofold {A B} (f : A -> B -> option A) (l : list B) (a : option A) : option A :=
  fold_left (fun acc v => match acc with Some x => f x v | None => None end) l a.

Lemma ofold_none {A B} (f : A -> B -> option A) l : ofold f l None = None.
Proof. induction l as [|v t IH]; simpl; auto. Qed.

Lemma ofold_cons {A B} (f : A -> B -> option A) v l a :
  ofold f (v :: l) (Some a) = ofold f l (f a v).
Proof. reflexivity. Qed.

Lemma ofold_inv {A B} (f : A -> B -> option A) (I : A -> Prop) l :
  forall a h, I a -> (forall x v y, In v l -> I x -> f x v = Some y -> I y) ->
    ofold f l (Some a) = Some h -> I h.
Proof.
  induction l as [|v t IH]; intros a h Ha Hstep H.
  - simpl in H. inversion H; subst. exact Ha.
  - rewrite ofold_cons in H. destruct (f a v) as [b|] eqn:E.
    + apply (IH b h); auto.
      * eapply Hstep; eauto. left; reflexivity.
      * intros x w y Hw. apply Hstep. right; exact Hw.
    + rewrite ofold_none in H. discriminate.
Qed.

Lemma ofold_total {A B} (f : A -> B -> option A) (I : A -> Prop) l :
  forall a, I a -> (forall x v, In v l -> I x -> exists y, f x v = Some y /\ I y) ->
    exists h, ofold f l (Some a) = Some h.
Proof.
  induction l as [|v t IH]; intros a Ha Hstep.
  - exists a. reflexivity.
  - rewrite ofold_cons. destruct (Hstep a v (or_introl eq_refl) Ha) as [y [Ey Iy]]. rewrite Ey.
    apply IH; auto. intros x w Hw. apply Hstep. right; exact Hw.
Qed.

Lemma ofold_app {A B} (f : A -> B -> option A) l1 l2 a :
  ofold f (l1 ++ l2) a = ofold f l2 (ofold f l1 a).
Proof. unfold ofold. apply fold_left_app. Qed.

Lemma ofold_split {A B} (f : A -> B -> option A) l1 v l2 a h :
  ofold f (l1 ++ v :: l2) (Some a) = Some h ->
  exists x y, ofold f l1 (Some a) = Some x /\ f x v = Some y /\ ofold f l2 (Some y) = Some h.
Proof.
  rewrite ofold_app. destruct (ofold f l1 (Some a)) as [x|] eqn:E1.
  - rewrite ofold_cons. destruct (f x v) as [y|] eqn:E2.
    + intros H. exists x, y. auto.
    + rewrite ofold_none. discriminate.
  - rewrite ofold_none. discriminate.
Qed.

(** * Generic: reachability from a set, repair of removed edges *)

Definition reachS (E : nat -> nat -> Prop) (S : nat -> Prop) (x : nat) : Prop :=
  exists a, S a /\ reach E a x.

(** If the target of every edge that is lost stays reachable from S, everything stays reachable. *)
Lemma reach_repair (E E' : nat -> nat -> Prop) (S : nat -> Prop) :
  (forall u v, E u v -> E' u v \/ reachS E' S v) ->
  forall x, reachS E S x -> reachS E' S x.
Proof.
  intros Hrep x [a [Sa Hax]].
  assert (G : forall u, reach E u x -> reachS E' S u -> reachS E' S x).
  { clear a Sa Hax. intros u H. induction H as [u|u y x Huy Hyx IH]; auto.
    intros Hu. apply IH. destruct (Hrep u y Huy) as [H'|H']; auto.
    destruct Hu as [a [Sa Hau]]. exists a. split; auto. eapply reach_step_right; eauto. }
  apply (G a Hax). exists a. split; auto. apply reach_refl.
Qed.

Lemma reachS_mono (E F : nat -> nat -> Prop) S x :
  (forall a b, E a b -> F a b) -> reachS E S x -> reachS F S x.
Proof. intros H [a [Sa R]]. exists a. split; auto. eapply reach_mono; eauto. Qed.

(** * Generic: lists *)

(** A list with a repetition has a first repetition. *)
Lemma first_repeat (l : list nat) :
  NoDup l \/ exists q v rest, l = q ++ v :: rest /\ NoDup q /\ In v q.
Proof.
  induction l as [|a l' IH] using rev_ind; [left; constructor|].
  destruct IH as [Hnd|[q [v [rest [E [Hq Hv]]]]]].
  - destruct (in_dec Nat.eq_dec a l') as [Hin|Hout].
    + right. exists l', a, []. auto.
    + left. apply NoDup_app_intro; auto; [constructor; [intros []|constructor]|].
      intros x Hx [Hx'|[]]. subst. contradiction.
  - right. exists q, v, (rest ++ [a]). split; auto. rewrite E, <- app_assoc. reflexivity.
Qed.

(** Along a duplicate-free chain no edge leaves the last node. *)
Lemma chain_src_ne (E F : nat -> nat -> Prop) (p : list nat) :
  NoDup p -> (forall a b, E a b -> a <> last p 0 -> F a b) -> chain E p -> chain F p.
Proof.
  induction p as [|x t IH]; intros Hnd H Hc; [exact I|].
  inversion Hnd as [|? ? Hx Ht]; subst.
  apply chain_cons in Hc. destruct Hc as [A B]. apply chain_cons. split.
  - intros Hne. apply H; [apply A; exact Hne|].
    intros Ex. apply Hx. rewrite Ex. destruct t as [|y t']; [congruence|].
    change (last (x :: y :: t') 0) with (last (y :: t') 0). apply last_In. discriminate.
  - destruct t as [|y t']; [exact I|]. apply IH; auto.
Qed.

Lemma chain_targets (E : nat -> nat -> Prop) (Q : nat -> Prop) x t :
  (forall a b, E a b -> Q b) -> chain E (x :: t) -> forall y, In y t -> Q y.
Proof.
  intros H. revert x. induction t as [|z t' IH]; intros x Hc y Hy; [destruct Hy|].
  apply chain_cons in Hc. destruct Hc as [A B]. destruct Hy as [Hy|Hy].
  - subst z. eapply H. apply A. discriminate.
  - eapply IH; eauto.
Qed.

Lemma last_app_nonempty {A} (a b : list A) d : b <> [] -> last (a ++ b) d = last b d.
Proof. destruct b as [|x t]; [congruence|]. intros _. apply last_app_cons. Qed.

Lemma hd_app_nonempty (a b : list nat) : a <> [] -> hd 0 (a ++ b) = hd 0 a.
Proof. destruct a; [congruence | reflexivity]. Qed.

(** * Subgraphs, [remove_edge], [drop_loops] *)

Definition sub (h g : graph) : Prop := length h = length g /\ forall u v, edge h u v -> edge g u v.

Lemma sub_refl g : sub g g.
Proof. split; auto. Qed.
Lemma sub_trans a b c : sub a b -> sub b c -> sub a c.
Proof. intros [L1 H1] [L2 H2]. split; [congruence | auto]. Qed.

Lemma remove_edge_iff g a b x y :
  edge (remove_edge g a b) x y <-> edge g x y /\ ~ (x = a /\ y = b).
Proof.
  split.
  - intros H. unfold edge in *.
    assert (Hx : x < length g) by (rewrite <- (remove_edge_length g a b); eapply row_nonempty_lt; eauto).
    rewrite remove_edge_row in H by exact Hx. destruct (Nat.eqb_spec x a) as [E|E].
    + apply filter_In in H. destruct H as [H1 H2]. split; auto.
      apply negb_true_iff in H2. apply Nat.eqb_neq in H2. tauto.
    + split; auto. tauto.
  - intros [H1 H2]. apply remove_edge_edge; auto.
Qed.

Lemma wf_sub h g : wf_graph g -> sub h g -> wf_graph h.
Proof. intros Hwf [L H] u v Huv. rewrite L. eapply Hwf. apply H. exact Huv. Qed.

Lemma In_insert x y l : In x (insert y l) <-> x = y \/ In x l.
Proof.
  induction l as [|z t IH]; simpl; [intuition|].
  destruct (y <=? z); simpl; [intuition|]. rewrite IH. intuition.
Qed.

Lemma In_isort x l : In x (isort l) <-> In x l.
Proof.
  induction l as [|y t IH]; simpl; [tauto|].
  change (isort (y :: t)) with (insert y (isort t)). rewrite In_insert, IH. intuition.
Qed.

Lemma drop_loops_length g : length (drop_loops g) = length g.
Proof. unfold drop_loops, nodes. rewrite map_length, seq_length. reflexivity. Qed.

Lemma drop_loops_edge g u v : edge (drop_loops g) u v <-> edge g u v /\ u <> v.
Proof.
  unfold edge. destruct (Nat.lt_ge_cases u (length g)) as [Hu|Hu].
  - unfold drop_loops, nodes. unfold row at 1.
    rewrite (nth_map_seq (fun u => isort (nodup Nat.eq_dec (filter (fun v => negb (v =? u)) (row g u)))) (length g) u [] Hu).
    rewrite In_isort, nodup_In, filter_In, negb_true_iff, Nat.eqb_neq. intuition.
  - rewrite (row_oob g u Hu). rewrite row_oob by (rewrite drop_loops_length; exact Hu). simpl. tauto.
Qed.

Lemma drop_loops_sub g : sub (drop_loops g) g.
Proof. split; [apply drop_loops_length|]. intros u v H. apply drop_loops_edge in H. tauto. Qed.

(** * One scan of the directed branch *)

Lemma bc_scan_dir_spec cur path : forall nbrs g,
  let r := bc_scan_dir cur path nbrs g in
  length (fst r) = length g /\
  (forall u v, edge (fst r) u v <-> edge g u v /\ ~ (u = cur /\ In v nbrs /\ In v path)) /\
  (forall v, In v (snd r) <-> In v nbrs /\ ~ In v path).
Proof.
  induction nbrs as [|w t IH]; intros g; cbn [bc_scan_dir]; cbv zeta.
  - cbn [fst snd]. split; auto. split.
    + intros u v. simpl. tauto.
    + intros v. simpl. tauto.
  - destruct (memn w path) eqn:Ew.
    + apply memn_In in Ew. specialize (IH (remove_edge g cur w)). cbv zeta in IH.
      destruct IH as [L [HE HP]]. split; [rewrite L; apply remove_edge_length|]. split.
      * intros u v. rewrite HE, remove_edge_iff. simpl. split.
        -- intros [[A B] C]. split; auto. intros [E1 [[E2|E2] E3]]; subst; tauto.
        -- intros [A B]. split; [split; auto|].
           ++ intros [E1 E2]. subst. apply B. auto.
           ++ intros [E1 [E2 E3]]. apply B. auto.
      * intros v. rewrite HP. simpl. split; [tauto|]. intros [[E|H] N]; [subst; contradiction | tauto].
    + assert (Hw : ~ In w path) by (intros H; apply memn_In in H; congruence).
      specialize (IH g). cbv zeta in IH. destruct IH as [L [HE HP]]. cbn [fst snd].
      split; auto. split.
      * intros u v. rewrite HE. simpl. split.
        -- intros [A B]. split; auto. intros [E1 [[E2|E2] E3]]; subst; tauto.
        -- intros [A B]. split; auto. intros [E1 [E2 E3]]. apply B. auto.
      * intros v. simpl. rewrite HP. split.
        -- intros [E|[A B]]; [subst; auto | auto].
        -- intros [[E|A] B]; [left; auto | right; auto].
Qed.

(** The scan as it is called by [bc_visit_dir]. *)
Lemma visit_scan_spec cyc g cur path :
  let r := bc_scan_dir cur path (filter (fun v => memn v cyc) (row g cur)) g in
  length (fst r) = length g /\
  (forall u v, edge (fst r) u v <-> edge g u v /\ ~ (u = cur /\ In v cyc /\ In v path)) /\
  (forall v, In v (snd r) <-> edge g cur v /\ In v cyc /\ ~ In v path).
Proof.
  cbv zeta.
  destruct (bc_scan_dir_spec cur path (filter (fun v => memn v cyc) (row g cur)) g) as [L [HE HP]].
  split; auto. split.
  - intros u v. rewrite HE, filter_In, memn_In. unfold edge. split.
    + intros [A B]. split; auto. intros [E1 [E2 E3]]. subst. apply B. auto.
    + intros [A B]. split; auto. intros [E1 [[E2 E3] E4]]. apply B. auto.
  - intros v. rewrite HP, filter_In, memn_In. unfold edge. tauto.
Qed.

Lemma edge_gone_spec g path :
  edge_gone g path = true -> exists q a b, path = q ++ [a; b] /\ ~ edge g a b.
Proof.
  unfold edge_gone. destruct (rev path) as [|b [|a r]] eqn:E; try discriminate.
  intros H. exists (rev r), a, b. split.
  - rewrite <- (rev_involutive path), E. simpl. rewrite <- app_assoc. reflexivity.
  - apply negb_true_iff in H. intros He. apply edgeb_true in He. congruence.
Qed.

(** * [bc_visit_dir]: the graph only shrinks *)

Definition visit_step (d : nat) (cyc path : list nat) : graph -> nat -> option graph :=
  fun ga v => bc_visit_dir d cyc ga v (path ++ [v]).

Lemma bc_visit_dir_unfold d cyc g cur path :
  bc_visit_dir (S d) cyc g cur path =
  if edge_gone g path then Some g
  else let r := bc_scan_dir cur path (filter (fun v => memn v cyc) (row g cur)) g in
       ofold (visit_step d cyc path) (rev (snd r)) (Some (fst r)).
Proof. reflexivity. Qed.

Lemma visit_sub cyc : forall d g cur path h, bc_visit_dir d cyc g cur path = Some h -> sub h g.
Proof.
  induction d as [|d IH]; intros g cur path h H; [discriminate|].
  rewrite bc_visit_dir_unfold in H. destruct (edge_gone g path).
  - inversion H; subst. apply sub_refl.
  - cbv zeta in H. destruct (visit_scan_spec cyc g cur path) as [L [HE _]]. cbv zeta in L, HE.
    set (g1 := fst (bc_scan_dir cur path (filter (fun v => memn v cyc) (row g cur)) g)) in *.
    assert (S1 : sub g1 g) by (split; auto; intros u v Huv; apply HE in Huv; tauto).
    refine (ofold_inv _ (fun a => sub a g) _ g1 h S1 _ H).
    intros x v y _ Hx Hy. unfold visit_step in Hy. apply IH in Hy. eapply sub_trans; eauto.
Qed.

(** * [bc_visit_dir]: frame and preservation of reachability inside the component *)

(** Edges with both ends in [cyc]. *)
Definition Ein (cyc : list nat) (g : graph) (u v : nat) : Prop := edge g u v /\ In u cyc /\ In v cyc.

(** The path handed to a call: a duplicate-free chain of the current graph inside [cyc], ending in [cur]. *)
Definition good (cyc : list nat) (g : graph) (path : list nat) (cur : nat) : Prop :=
  path <> [] /\ last path 0 = cur /\ NoDup path /\ (forall x, In x path -> In x cyc) /\ chain (edge g) path.

Definition frame (cyc path : list nat) (cur : nat) (g h : graph) : Prop :=
  sub h g /\
  (forall u v, edge g u v -> ~ edge h u v -> (u = cur \/ ~ In u path) /\ In u cyc /\ In v cyc) /\
  (forall (S : nat -> Prop) x, S (hd 0 path) -> reachS (Ein cyc g) S x -> reachS (Ein cyc h) S x).

Lemma edge_dec g u v : {edge g u v} + {~ edge g u v}.
Proof. unfold edge. apply in_dec. apply Nat.eq_dec. Qed.

Lemma good_chain_Ein cyc g path cur : good cyc g path cur -> chain (Ein cyc g) path.
Proof.
  intros [_ [_ [_ [Hin Hc]]]]. eapply chain_mono_In; [|exact Hc].
  intros a b Ha Hb He. split; auto.
Qed.

Lemma good_reach_in cyc g path cur v : good cyc g path cur -> In v path -> reach (Ein cyc g) (hd 0 path) v.
Proof.
  intros Hg Hv. pose proof (good_chain_Ein _ _ _ _ Hg) as Hc. destruct path as [|x t]; [destruct Hv|].
  cbn [hd]. eapply chain_reach_in; eauto.
Qed.

Lemma good_extend cyc g path cur c :
  good cyc g path cur -> edge g cur c -> In c cyc -> ~ In c path -> good cyc g (path ++ [c]) c.
Proof.
  intros [Hne [Hl [Hnd [Hin Hc]]]] He Hc1 Hc2. split; [destruct path; discriminate|].
  split; [apply last_last|]. split; [|split].
  - apply NoDup_app_intro; auto; [constructor; [intros []|constructor]|].
    intros x Hx [Hx'|[]]. subst. contradiction.
  - intros x Hx. apply in_app_or in Hx. destruct Hx as [Hx|[Hx|[]]]; [auto | subst; auto].
  - apply chain_app. split; auto. split; [simpl; auto|]. intros _ _. cbn [hd]. rewrite Hl. exact He.
Qed.

Lemma good_last_in cyc g path cur : good cyc g path cur -> In cur path.
Proof. intros [Hne [Hl _]]. rewrite <- Hl. apply last_In. exact Hne. Qed.

(** After the scan at [cur] the path is still a chain (only edges leaving [cur] were removed). *)
Lemma scan_good cyc g path cur :
  good cyc g path cur ->
  good cyc (fst (bc_scan_dir cur path (filter (fun v => memn v cyc) (row g cur)) g)) path cur.
Proof.
  intros Hg. destruct (visit_scan_spec cyc g cur path) as [L [HE HP]]. cbv zeta in L, HE, HP.
  pose proof Hg as [Hne [Hl [Hnd [Hin Hc]]]]. pose proof (good_last_in _ _ _ _ Hg) as Hcur.
  split; auto. split; auto. split; auto. split; auto.
  eapply chain_src_ne; [exact Hnd | | exact Hc]. intros a b Hab Ha. apply HE. split; auto.
  intros [E _]. rewrite Hl in Ha. contradiction.
Qed.

(** Invariant of the loop over the pushed children of one call (graph [g1] after the scan). *)
Definition kids_inv (cyc path : list nat) (g1 a : graph) : Prop :=
  sub a g1 /\
  (forall u v, edge g1 u v -> ~ edge a u v -> ~ In u path /\ In u cyc /\ In v cyc) /\
  (forall (S : nat -> Prop) x, S (hd 0 path) -> reachS (Ein cyc g1) S x -> reachS (Ein cyc a) S x).

Lemma kids_inv_refl cyc path g1 : kids_inv cyc path g1 g1.
Proof. split; [apply sub_refl|]. split; [intros u v A B; contradiction | auto]. Qed.

Lemma kids_good cyc path cur g1 x c :
  good cyc g1 path cur -> kids_inv cyc path g1 x -> edge g1 cur c -> In c cyc -> ~ In c path ->
  good cyc x (path ++ [c]) c.
Proof.
  intros Hg1 [Sx [Fx Rx]] E1 C2 C3. pose proof Hg1 as [Hne [Hl [Hnd [Hin Hc1]]]].
  pose proof (good_last_in _ _ _ _ Hg1) as Hcur.
  assert (Hgx : good cyc x path cur).
  { split; auto. split; auto. split; auto. split; auto.
    eapply chain_mono_In; [|exact Hc1].
    intros a b Ha Hb Hab. destruct (edge_dec x a b) as [Y|N]; auto.
    destruct (Fx a b Hab N) as [Na _]. contradiction. }
  assert (Ecx : edge x cur c).
  { destruct (edge_dec x cur c) as [Y|N]; auto. destruct (Fx cur c E1 N) as [Na _]. contradiction. }
  exact (good_extend cyc x path cur c Hgx Ecx C2 C3).
Qed.

Lemma kids_step cyc path g1 x c y :
  path <> [] -> ~ In c path -> kids_inv cyc path g1 x -> frame cyc (path ++ [c]) c x y -> kids_inv cyc path g1 y.
Proof.
  intros Hne C3 [Sx [Fx Rx]] [Sy [Fy Ry]].
  split; [eapply sub_trans; eauto|]. split.
  - intros u v A B. destruct (edge_dec x u v) as [Y|N]; [|apply Fx; auto].
    destruct (Fy u v Y B) as [[E|E] [E2 E3]]; split; auto.
    + subst u. exact C3.
    + intros Hu. apply E. apply in_or_app. left. exact Hu.
  - intros S z HS Hz. apply Ry; [rewrite hd_app_nonempty by exact Hne; exact HS|]. apply Rx; auto.
Qed.

Lemma visit_frame cyc : forall d g cur path h,
  good cyc g path cur -> bc_visit_dir d cyc g cur path = Some h -> frame cyc path cur g h.
Proof.
  induction d as [|d IH]; intros g cur path h Hg H; [discriminate|].
  rewrite bc_visit_dir_unfold in H. destruct (edge_gone g path).
  { inversion H; subst. split; [apply sub_refl|]. split; [intros u v A B; contradiction | auto]. }
  cbv zeta in H. destruct (visit_scan_spec cyc g cur path) as [L [HE HP]]. cbv zeta in L, HE, HP.
  pose proof (scan_good cyc g path cur Hg) as Hg1.
  set (r := bc_scan_dir cur path (filter (fun v => memn v cyc) (row g cur)) g) in *.
  set (g1 := fst r) in *.
  pose proof Hg as [Hne [Hl [Hnd [Hin Hc]]]].
  pose proof (good_last_in _ _ _ _ Hg) as Hcur.
  (* step A: the scan *)
  assert (SA : sub g1 g) by (split; auto; intros u v Huv; apply HE in Huv; tauto).
  assert (FA : forall u v, edge g u v -> ~ edge g1 u v -> u = cur /\ In v cyc /\ In v path).
  { intros u v A B. destruct (Nat.eq_dec u cur) as [E1|E1];
      [destruct (in_dec Nat.eq_dec v cyc) as [E2|E2]; [destruct (in_dec Nat.eq_dec v path) as [E3|E3]|]|]; auto;
      exfalso; apply B; apply HE; split; auto; tauto. }
  assert (RA : forall (S : nat -> Prop) x, S (hd 0 path) -> reachS (Ein cyc g) S x -> reachS (Ein cyc g1) S x).
  { intros S x HS. apply reach_repair. intros u v [Huv [Hu Hv]].
    destruct (edge_dec g1 u v) as [Y|N]; [left; split; auto|].
    right. destruct (FA u v Huv N) as [_ [_ Hvp]]. exists (hd 0 path). split; auto.
    eapply good_reach_in; eauto. }
  (* step B: the children *)
  assert (HI : kids_inv cyc path g1 h).
  { refine (ofold_inv _ (kids_inv cyc path g1) _ g1 h (kids_inv_refl _ _ _) _ H).
    intros x c y Hc' Ix Hy. apply in_rev in Hc'. apply HP in Hc'. destruct Hc' as [C1 [C2 C3]].
    unfold visit_step in Hy.
    assert (E1 : edge g1 cur c) by (apply HE; split; auto; tauto).
    pose proof (kids_good cyc path cur g1 x c Hg1 Ix E1 C2 C3) as Hgc.
    eapply kids_step; eauto. }
  destruct HI as [Sh [Fh Rh]].
  split; [eapply sub_trans; eauto|]. split.
  - intros u v A B. destruct (edge_dec g1 u v) as [Y|N].
    + destruct (Fh u v Y B) as [E1 [E2 E3]]. auto.
    + destruct (FA u v A N) as [E1 [E2 E3]]. subst u. split; auto.
  - intros S x HS Hx. apply Rh; auto.
Qed.

(** * [bc_visit_dir]: the depth budget suffices *)
Lemma good_length cyc g path cur :
  good cyc g path cur -> (forall x, In x cyc -> x < length g) -> length path <= length g.
Proof.
  intros [_ [_ [Hnd [Hin _]]]] Hlt.
  assert (Hincl : incl path (seq 0 (length g))) by (intros x Hx; apply in_seq; specialize (Hlt x (Hin x Hx)); lia).
  pose proof (NoDup_incl_length Hnd Hincl) as H. rewrite seq_length in H. exact H.
Qed.

Lemma visit_total cyc : forall d g cur path,
  good cyc g path cur -> (forall x, In x cyc -> x < length g) -> length g < d + length path ->
  exists h, bc_visit_dir d cyc g cur path = Some h.
Proof.
  induction d as [|d IH]; intros g cur path Hg Hlt Hd.
  { pose proof (good_length _ _ _ _ Hg Hlt). lia. }
  rewrite bc_visit_dir_unfold. destruct (edge_gone g path); [eexists; reflexivity|].
  cbv zeta. destruct (visit_scan_spec cyc g cur path) as [L [HE HP]]. cbv zeta in L, HE, HP.
  pose proof (scan_good cyc g path cur Hg) as Hg1.
  set (r := bc_scan_dir cur path (filter (fun v => memn v cyc) (row g cur)) g) in *.
  set (g1 := fst r) in *.
  pose proof Hg as [Hne [Hl [Hnd [Hin Hc]]]].
  apply (ofold_total _ (kids_inv cyc path g1)); [apply kids_inv_refl|].
  intros x c Hc' Ix. apply in_rev in Hc'. apply HP in Hc'. destruct Hc' as [C1 [C2 C3]].
  assert (E1 : edge g1 cur c) by (apply HE; split; auto; tauto).
  pose proof (kids_good cyc path cur g1 x c Hg1 Ix E1 C2 C3) as Hgc.
  assert (Lx : length x = length g) by (destruct Ix as [[Lx _] _]; congruence).
  destruct (IH x c (path ++ [c]) Hgc) as [y Hy].
  - intros z Hz. rewrite Lx. auto.
  - rewrite app_length, Lx. simpl. lia.
  - exists y. split; [exact Hy|]. eapply kids_step; eauto. eapply visit_frame; eauto.
Qed.

(** * [bc_visit_dir]: every simple path of the result that extends the path was visited *)
Lemma ofold_visit_sub d cyc path l a h : ofold (visit_step d cyc path) l (Some a) = Some h -> sub h a.
Proof.
  intros H. refine (ofold_inv _ (fun x => sub x a) _ a h (sub_refl a) _ H).
  intros x v y _ Hx Hy. unfold visit_step in Hy. apply visit_sub in Hy. eapply sub_trans; eauto.
Qed.

Lemma visit_complete cyc : forall d g cur path h,
  path <> [] -> last path 0 = cur -> bc_visit_dir d cyc g cur path = Some h ->
  forall h', sub h' h -> forall ext,
    chain (edge h') (path ++ ext) -> NoDup (path ++ ext) -> (forall x, In x ext -> In x cyc) ->
    forall v, In v (path ++ ext) -> In v cyc -> ~ edge h' (last (path ++ ext) 0) v.
Proof.
  induction d as [|d IH]; intros g cur path h Hne Hl H h' Hs ext Hch Hnd Hext v Hv Hvc Hedge; [discriminate|].
  rewrite bc_visit_dir_unfold in H. destruct (edge_gone g path) eqn:Egone.
  { inversion H; subst h. apply edge_gone_spec in Egone. destruct Egone as [q [a [b [Ep Nab]]]].
    apply Nab. apply Hs. rewrite Ep in Hch. rewrite <- !app_assoc in Hch.
    apply chain_app in Hch. destruct Hch as [_ [Hch _]]. simpl in Hch. tauto. }
  cbv zeta in H. destruct (visit_scan_spec cyc g cur path) as [L [HE HP]]. cbv zeta in L, HE, HP.
  set (r := bc_scan_dir cur path (filter (fun v => memn v cyc) (row g cur)) g) in *.
  set (g1 := fst r) in *.
  pose proof (ofold_visit_sub _ _ _ _ _ _ H) as Sh1.
  assert (S1 : forall u w, edge h' u w -> edge g1 u w).
  { intros u w A. apply Sh1. apply Hs. exact A. }
  destruct ext as [|c ext'].
  - rewrite app_nil_r in *. rewrite Hl in Hedge. apply S1 in Hedge. apply HE in Hedge. tauto.
  - assert (Ec : edge h' cur c).
    { apply chain_app in Hch. destruct Hch as [_ [_ Hlink]]. rewrite Hl in Hlink. apply Hlink; [exact Hne | discriminate]. }
    assert (Cc : In c cyc) by (apply Hext; left; reflexivity).
    assert (Cp : ~ In c path).
    { intros Hin. eapply (NoDup_app_disjoint path (c :: ext') c); eauto. left; reflexivity. }
    assert (Hpush : In c (rev (snd r))).
    { apply in_rev. rewrite rev_involutive. apply HP. split; [|auto].
      apply S1 in Ec. apply HE in Ec. tauto. }
    destruct (in_split _ _ Hpush) as [l1 [l2 El]]. rewrite El in H.
    destruct (ofold_split _ _ _ _ _ _ H) as [x [y [H1 [H2 H3]]]].
    unfold visit_step in H2. apply ofold_visit_sub in H3.
    assert (Epath : (path ++ [c]) ++ ext' = path ++ c :: ext') by (rewrite <- app_assoc; reflexivity).
    refine (IH x c (path ++ [c]) y _ (last_last _ _ _) H2 h' (sub_trans _ _ _ Hs H3) ext' _ _ _ v _ Hvc _).
    + destruct path; discriminate.
    + rewrite Epath. exact Hch.
    + rewrite Epath. exact Hnd.
    + intros z Hz. apply Hext. right. exact Hz.
    + rewrite Epath. exact Hv.
    + rewrite Epath. exact Hedge.
Qed.

(** break_cycles (Model/Cycles.v), proofs WITHOUT a bound on the size of the graph.

    Directed branch: for every well-formed graph, every admissible root list and every oracle answer
    that is a correct strongly-connected-component labelling, the model returns (never [OutOfFuel])
    a loop-free subgraph on the same nodes, without any directed cycle, in which every node reachable
    from the roots in the input is still reachable from the roots.

    Structure of the argument:
    - [bc_scan_dir_spec]: exact effect of one scan (edges cur -> v with v on the path disappear).
    - [visit_frame]: a call of [bc_visit_dir] with path P only shrinks the graph; every removed edge
      lies inside the component, and its source is [last P] or outside P; reachability (inside the
      component) from any set containing [hd P] is preserved ([reach_repair]: the removed edge
      cur -> v is replaced by the path prefix).
    - [visit_complete]: every simple path of the RESULT that extends P inside the component has been
      visited, so its last node has no edge of the result back into the path.
    - [visit_total]: the depth budget is never exhausted.
    - component level ([comp_*]), label level ([labels_*]), then the theorems; reachability from the
      roots across components is an induction on the breadth-first distance ([dir_loop_reach]): an
      edge between two components is never removed, and inside a component every node stays
      reachable from a subroot, which is strictly closer to the roots.

    Undirected branch (second half of the file): same two ideas. A call with path P removes only edges
    cur - v with v on P and not the predecessor of cur, so the two ends stay joined by the path
    ([uvisit_frame]: ALL connectivity is preserved, the pattern stays symmetric); every duplicate-free
    path of the result from the start node was visited ([uvisit_complete]), so a simple cycle on >= 3
    nodes that a start node reaches cannot survive ([no_back_edge_no_ucycle], [uloop_no_cycle]). *)
From Coq Require Import Permutation.
From SKN Require Import Base.Util Model.Bfs Model.Structure Model.Cycles
  Proofs.BfsProofs Proofs.StructureProofs Proofs.CyclesProofs.
Set Warnings "-notation-overridden".

(** * Generic: folds over [option] states *)

Definition ofold {A B} (f : A -> B -> option A) (l : list B) (a : option A) : option A :=
  fold_left (fun acc v => match acc with Some x => f x v | None => None end) l a.

Lemma ofold_none {A B} (f : A -> B -> option A) l : ofold f l None = None.
Proof. induction l as [|v t IH]; simpl; auto. Qed.

Lemma ofold_cons {A B} (f : A -> B -> option A) v l a :
  ofold f (v :: l) (Some a) = ofold f l (f a v).
Proof. reflexivity. Qed.

Lemma ofold_inv {A B} (f : A -> B -> option A) (I : A -> Prop) l :
  forall a h, I a -> (forall x v y, In v l -> I x -> f x v = Some y -> I y) ->
    ofold f l (Some a) = Some h -> I h.
Proof.
  induction l as [|v t IH]; intros a h Ha Hstep H.
  - simpl in H. inversion H; subst. exact Ha.
  - rewrite ofold_cons in H. destruct (f a v) as [b|] eqn:E.
    + apply (IH b h); auto.
      * eapply Hstep; eauto. left; reflexivity.
      * intros x w y Hw. apply Hstep. right; exact Hw.
    + rewrite ofold_none in H. discriminate.
Qed.

Lemma ofold_total {A B} (f : A -> B -> option A) (I : A -> Prop) l :
  forall a, I a -> (forall x v, In v l -> I x -> exists y, f x v = Some y /\ I y) ->
    exists h, ofold f l (Some a) = Some h.
Proof.
  induction l as [|v t IH]; intros a Ha Hstep.
  - exists a. reflexivity.
  - rewrite ofold_cons. destruct (Hstep a v (or_introl eq_refl) Ha) as [y [Ey Iy]]. rewrite Ey.
    apply IH; auto. intros x w Hw. apply Hstep. right; exact Hw.
Qed.

Lemma ofold_app {A B} (f : A -> B -> option A) l1 l2 a :
  ofold f (l1 ++ l2) a = ofold f l2 (ofold f l1 a).
Proof. unfold ofold. apply fold_left_app. Qed.

Lemma ofold_split {A B} (f : A -> B -> option A) l1 v l2 a h :
  ofold f (l1 ++ v :: l2) (Some a) = Some h ->
  exists x y, ofold f l1 (Some a) = Some x /\ f x v = Some y /\ ofold f l2 (Some y) = Some h.
Proof.
  rewrite ofold_app. destruct (ofold f l1 (Some a)) as [x|] eqn:E1.
  - rewrite ofold_cons. destruct (f x v) as [y|] eqn:E2.
    + intros H. exists x, y. auto.
    + rewrite ofold_none. discriminate.
  - rewrite ofold_none. discriminate.
Qed.

(** * Generic: reachability from a set, repair of removed edges *)

Definition reachS (E : nat -> nat -> Prop) (S : nat -> Prop) (x : nat) : Prop :=
  exists a, S a /\ reach E a x.

(** If the target of every edge that is lost stays reachable from S, everything stays reachable. *)
Lemma reach_repair (E E' : nat -> nat -> Prop) (S : nat -> Prop) :
  (forall u v, E u v -> E' u v \/ reachS E' S v) ->
  forall x, reachS E S x -> reachS E' S x.
Proof.
  intros Hrep x [a [Sa Hax]].
  assert (G : forall u, reach E u x -> reachS E' S u -> reachS E' S x).
  { clear a Sa Hax. intros u H. induction H as [u|u y x Huy Hyx IH]; auto.
    intros Hu. apply IH. destruct (Hrep u y Huy) as [H'|H']; auto.
    destruct Hu as [a [Sa Hau]]. exists a. split; auto. eapply reach_step_right; eauto. }
  apply (G a Hax). exists a. split; auto. apply reach_refl.
Qed.

Lemma reachS_mono (E F : nat -> nat -> Prop) S x :
  (forall a b, E a b -> F a b) -> reachS E S x -> reachS F S x.
Proof. intros H [a [Sa R]]. exists a. split; auto. eapply reach_mono; eauto. Qed.

(** * Generic: lists *)

(** A list with a repetition has a first repetition. *)
Lemma first_repeat (l : list nat) :
  NoDup l \/ exists q v rest, l = q ++ v :: rest /\ NoDup q /\ In v q.
Proof.
  induction l as [|a l' IH] using rev_ind; [left; constructor|].
  destruct IH as [Hnd|[q [v [rest [E [Hq Hv]]]]]].
  - destruct (in_dec Nat.eq_dec a l') as [Hin|Hout].
    + right. exists l', a, []. auto.
    + left. apply NoDup_app_intro; auto; [constructor; [intros []|constructor]|].
      intros x Hx [Hx'|[]]. subst. contradiction.
  - right. exists q, v, (rest ++ [a]). split; auto. rewrite E, <- app_assoc. reflexivity.
Qed.

(** Along a duplicate-free chain no edge leaves the last node. *)
Lemma chain_src_ne (E F : nat -> nat -> Prop) (p : list nat) :
  NoDup p -> (forall a b, E a b -> a <> last p 0 -> F a b) -> chain E p -> chain F p.
Proof.
  induction p as [|x t IH]; intros Hnd H Hc; [exact I|].
  inversion Hnd as [|? ? Hx Ht]; subst.
  apply chain_cons in Hc. destruct Hc as [A B]. apply chain_cons. split.
  - intros Hne. apply H; [apply A; exact Hne|].
    intros Ex. apply Hx. rewrite Ex. destruct t as [|y t']; [congruence|].
    change (last (x :: y :: t') 0) with (last (y :: t') 0). apply last_In. discriminate.
  - destruct t as [|y t']; [exact I|]. apply IH; auto.
Qed.

Lemma chain_targets (E : nat -> nat -> Prop) (Q : nat -> Prop) x t :
  (forall a b, E a b -> Q b) -> chain E (x :: t) -> forall y, In y t -> Q y.
Proof.
  intros H. revert x. induction t as [|z t' IH]; intros x Hc y Hy; [destruct Hy|].
  apply chain_cons in Hc. destruct Hc as [A B]. destruct Hy as [Hy|Hy].
  - subst z. eapply H. apply A. discriminate.
  - eapply IH; eauto.
Qed.

Lemma last_app_nonempty {A} (a b : list A) d : b <> [] -> last (a ++ b) d = last b d.
Proof. destruct b as [|x t]; [congruence|]. intros _. apply last_app_cons. Qed.

Lemma hd_app_nonempty (a b : list nat) : a <> [] -> hd 0 (a ++ b) = hd 0 a.
Proof. destruct a; [congruence | reflexivity]. Qed.

(** * Subgraphs, [remove_edge], [drop_loops] *)

Definition sub (h g : graph) : Prop := length h = length g /\ forall u v, edge h u v -> edge g u v.

Lemma sub_refl g : sub g g.
Proof. split; auto. Qed.
Lemma sub_trans a b c : sub a b -> sub b c -> sub a c.
Proof. intros [L1 H1] [L2 H2]. split; [congruence | auto]. Qed.

Lemma remove_edge_iff g a b x y :
  edge (remove_edge g a b) x y <-> edge g x y /\ ~ (x = a /\ y = b).
Proof.
  split.
  - intros H. unfold edge in *.
    assert (Hx : x < length g) by (rewrite <- (remove_edge_length g a b); eapply row_nonempty_lt; eauto).
    rewrite remove_edge_row in H by exact Hx. destruct (Nat.eqb_spec x a) as [E|E].
    + apply filter_In in H. destruct H as [H1 H2]. split; auto.
      apply negb_true_iff in H2. apply Nat.eqb_neq in H2. tauto.
    + split; auto. tauto.
  - intros [H1 H2]. apply remove_edge_edge; auto.
Qed.

Lemma wf_sub h g : wf_graph g -> sub h g -> wf_graph h.
Proof. intros Hwf [L H] u v Huv. rewrite L. eapply Hwf. apply H. exact Huv. Qed.

Lemma In_insert x y l : In x (insert y l) <-> x = y \/ In x l.
Proof.
  induction l as [|z t IH]; simpl; [intuition|].
  destruct (y <=? z); simpl; [intuition|]. rewrite IH. intuition.
Qed.

Lemma In_isort x l : In x (isort l) <-> In x l.
Proof.
  induction l as [|y t IH]; simpl; [tauto|].
  change (isort (y :: t)) with (insert y (isort t)). rewrite In_insert, IH. intuition.
Qed.

Lemma drop_loops_length g : length (drop_loops g) = length g.
Proof. unfold drop_loops, nodes. rewrite map_length, seq_length. reflexivity. Qed.

Lemma drop_loops_edge g u v : edge (drop_loops g) u v <-> edge g u v /\ u <> v.
Proof.
  unfold edge. destruct (Nat.lt_ge_cases u (length g)) as [Hu|Hu].
  - unfold drop_loops, nodes. unfold row at 1.
    rewrite (nth_map_seq (fun u => isort (nodup Nat.eq_dec (filter (fun v => negb (v =? u)) (row g u)))) (length g) u [] Hu).
    rewrite In_isort, nodup_In, filter_In, negb_true_iff, Nat.eqb_neq. intuition.
  - rewrite (row_oob g u Hu). rewrite row_oob by (rewrite drop_loops_length; exact Hu). simpl. tauto.
Qed.

Lemma drop_loops_sub g : sub (drop_loops g) g.
Proof. split; [apply drop_loops_length|]. intros u v H. apply drop_loops_edge in H. tauto. Qed.

(** * One scan of the directed branch *)

Lemma bc_scan_dir_spec cur path : forall nbrs g,
  let r := bc_scan_dir cur path nbrs g in
  length (fst r) = length g /\
  (forall u v, edge (fst r) u v <-> edge g u v /\ ~ (u = cur /\ In v nbrs /\ In v path)) /\
  (forall v, In v (snd r) <-> In v nbrs /\ ~ In v path).
Proof.
  induction nbrs as [|w t IH]; intros g; cbn [bc_scan_dir]; cbv zeta.
  - cbn [fst snd]. split; auto. split.
    + intros u v. simpl. tauto.
    + intros v. simpl. tauto.
  - destruct (memn w path) eqn:Ew.
    + apply memn_In in Ew. specialize (IH (remove_edge g cur w)). cbv zeta in IH.
      destruct IH as [L [HE HP]]. split; [rewrite L; apply remove_edge_length|]. split.
      * intros u v. rewrite HE, remove_edge_iff. simpl. split.
        -- intros [[A B] C]. split; auto. intros [E1 [[E2|E2] E3]]; subst; tauto.
        -- intros [A B]. split; [split; auto|].
           ++ intros [E1 E2]. subst. apply B. auto.
           ++ intros [E1 [E2 E3]]. apply B. auto.
      * intros v. rewrite HP. simpl. split; [tauto|]. intros [[E|H] N]; [subst; contradiction | tauto].
    + assert (Hw : ~ In w path) by (intros H; apply memn_In in H; congruence).
      specialize (IH g). cbv zeta in IH. destruct IH as [L [HE HP]]. cbn [fst snd].
      split; auto. split.
      * intros u v. rewrite HE. simpl. split.
        -- intros [A B]. split; auto. intros [E1 [[E2|E2] E3]]; subst; tauto.
        -- intros [A B]. split; auto. intros [E1 [E2 E3]]. apply B. auto.
      * intros v. simpl. rewrite HP. split.
        -- intros [E|[A B]]; [subst; auto | auto].
        -- intros [[E|A] B]; [left; auto | right; auto].
Qed.

(** The scan as it is called by [bc_visit_dir]. *)
Lemma visit_scan_spec cyc g cur path :
  let r := bc_scan_dir cur path (filter (fun v => memn v cyc) (row g cur)) g in
  length (fst r) = length g /\
  (forall u v, edge (fst r) u v <-> edge g u v /\ ~ (u = cur /\ In v cyc /\ In v path)) /\
  (forall v, In v (snd r) <-> edge g cur v /\ In v cyc /\ ~ In v path).
Proof.
  cbv zeta.
  destruct (bc_scan_dir_spec cur path (filter (fun v => memn v cyc) (row g cur)) g) as [L [HE HP]].
  split; auto. split.
  - intros u v. rewrite HE, filter_In, memn_In. unfold edge. split.
    + intros [A B]. split; auto. intros [E1 [E2 E3]]. subst. apply B. auto.
    + intros [A B]. split; auto. intros [E1 [[E2 E3] E4]]. apply B. auto.
  - intros v. rewrite HP, filter_In, memn_In. unfold edge. tauto.
Qed.

Lemma edge_gone_spec g path :
  edge_gone g path = true -> exists q a b, path = q ++ [a; b] /\ ~ edge g a b.
Proof.
  unfold edge_gone. destruct (rev path) as [|b [|a r]] eqn:E; try discriminate.
  intros H. exists (rev r), a, b. split.
  - rewrite <- (rev_involutive path), E. simpl. rewrite <- app_assoc. reflexivity.
  - apply negb_true_iff in H. intros He. apply edgeb_true in He. congruence.
Qed.

(** * [bc_visit_dir]: the graph only shrinks *)

Definition visit_step (d : nat) (cyc path : list nat) : graph -> nat -> option graph :=
  fun ga v => bc_visit_dir d cyc ga v (path ++ [v]).

Lemma bc_visit_dir_unfold d cyc g cur path :
  bc_visit_dir (S d) cyc g cur path =
  if edge_gone g path then Some g
  else let r := bc_scan_dir cur path (filter (fun v => memn v cyc) (row g cur)) g in
       ofold (visit_step d cyc path) (rev (snd r)) (Some (fst r)).
Proof. reflexivity. Qed.

Lemma visit_sub cyc : forall d g cur path h, bc_visit_dir d cyc g cur path = Some h -> sub h g.
Proof.
  induction d as [|d IH]; intros g cur path h H; [discriminate|].
  rewrite bc_visit_dir_unfold in H. destruct (edge_gone g path).
  - inversion H; subst. apply sub_refl.
  - cbv zeta in H. destruct (visit_scan_spec cyc g cur path) as [L [HE _]]. cbv zeta in L, HE.
    set (g1 := fst (bc_scan_dir cur path (filter (fun v => memn v cyc) (row g cur)) g)) in *.
    assert (S1 : sub g1 g) by (split; auto; intros u v Huv; apply HE in Huv; tauto).
    refine (ofold_inv _ (fun a => sub a g) _ g1 h S1 _ H).
    intros x v y _ Hx Hy. unfold visit_step in Hy. apply IH in Hy. eapply sub_trans; eauto.
Qed.

(** * [bc_visit_dir]: frame and preservation of reachability inside the component *)

(** Edges with both ends in [cyc]. *)
Definition Ein (cyc : list nat) (g : graph) (u v : nat) : Prop := edge g u v /\ In u cyc /\ In v cyc.

(** The path handed to a call: a duplicate-free chain of the current graph inside [cyc], ending in [cur]. *)
Definition good (cyc : list nat) (g : graph) (path : list nat) (cur : nat) : Prop :=
  path <> [] /\ last path 0 = cur /\ NoDup path /\ (forall x, In x path -> In x cyc) /\ chain (edge g) path.

Definition frame (cyc path : list nat) (cur : nat) (g h : graph) : Prop :=
  sub h g /\
  (forall u v, edge g u v -> ~ edge h u v -> (u = cur \/ ~ In u path) /\ In u cyc /\ In v cyc) /\
  (forall (S : nat -> Prop) x, S (hd 0 path) -> reachS (Ein cyc g) S x -> reachS (Ein cyc h) S x).

Lemma edge_dec g u v : {edge g u v} + {~ edge g u v}.
Proof. unfold edge. apply in_dec. apply Nat.eq_dec. Qed.

Lemma good_chain_Ein cyc g path cur : good cyc g path cur -> chain (Ein cyc g) path.
Proof.
  intros [_ [_ [_ [Hin Hc]]]]. eapply chain_mono_In; [|exact Hc].
  intros a b Ha Hb He. split; auto.
Qed.

Lemma good_reach_in cyc g path cur v : good cyc g path cur -> In v path -> reach (Ein cyc g) (hd 0 path) v.
Proof.
  intros Hg Hv. pose proof (good_chain_Ein _ _ _ _ Hg) as Hc. destruct path as [|x t]; [destruct Hv|].
  cbn [hd]. eapply chain_reach_in; eauto.
Qed.

Lemma good_extend cyc g path cur c :
  good cyc g path cur -> edge g cur c -> In c cyc -> ~ In c path -> good cyc g (path ++ [c]) c.
Proof.
  intros [Hne [Hl [Hnd [Hin Hc]]]] He Hc1 Hc2. split; [destruct path; discriminate|].
  split; [apply last_last|]. split; [|split].
  - apply NoDup_app_intro; auto; [constructor; [intros []|constructor]|].
    intros x Hx [Hx'|[]]. subst. contradiction.
  - intros x Hx. apply in_app_or in Hx. destruct Hx as [Hx|[Hx|[]]]; [auto | subst; auto].
  - apply chain_app. split; auto. split; [simpl; auto|]. intros _ _. cbn [hd]. rewrite Hl. exact He.
Qed.

Lemma good_last_in cyc g path cur : good cyc g path cur -> In cur path.
Proof. intros [Hne [Hl _]]. rewrite <- Hl. apply last_In. exact Hne. Qed.

(** After the scan at [cur] the path is still a chain (only edges leaving [cur] were removed). *)
Lemma scan_good cyc g path cur :
  good cyc g path cur ->
  good cyc (fst (bc_scan_dir cur path (filter (fun v => memn v cyc) (row g cur)) g)) path cur.
Proof.
  intros Hg. destruct (visit_scan_spec cyc g cur path) as [L [HE HP]]. cbv zeta in L, HE, HP.
  pose proof Hg as [Hne [Hl [Hnd [Hin Hc]]]]. pose proof (good_last_in _ _ _ _ Hg) as Hcur.
  split; auto. split; auto. split; auto. split; auto.
  eapply chain_src_ne; [exact Hnd | | exact Hc]. intros a b Hab Ha. apply HE. split; auto.
  intros [E _]. rewrite Hl in Ha. contradiction.
Qed.

(** Invariant of the loop over the pushed children of one call (graph [g1] after the scan). *)
Definition kids_inv (cyc path : list nat) (g1 a : graph) : Prop :=
  sub a g1 /\
  (forall u v, edge g1 u v -> ~ edge a u v -> ~ In u path /\ In u cyc /\ In v cyc) /\
  (forall (S : nat -> Prop) x, S (hd 0 path) -> reachS (Ein cyc g1) S x -> reachS (Ein cyc a) S x).

Lemma kids_inv_refl cyc path g1 : kids_inv cyc path g1 g1.
Proof. split; [apply sub_refl|]. split; [intros u v A B; contradiction | auto]. Qed.

Lemma kids_good cyc path cur g1 x c :
  good cyc g1 path cur -> kids_inv cyc path g1 x -> edge g1 cur c -> In c cyc -> ~ In c path ->
  good cyc x (path ++ [c]) c.
Proof.
  intros Hg1 [Sx [Fx Rx]] E1 C2 C3. pose proof Hg1 as [Hne [Hl [Hnd [Hin Hc1]]]].
  pose proof (good_last_in _ _ _ _ Hg1) as Hcur.
  assert (Hgx : good cyc x path cur).
  { split; auto. split; auto. split; auto. split; auto.
    eapply chain_mono_In; [|exact Hc1].
    intros a b Ha Hb Hab. destruct (edge_dec x a b) as [Y|N]; auto.
    destruct (Fx a b Hab N) as [Na _]. contradiction. }
  assert (Ecx : edge x cur c).
  { destruct (edge_dec x cur c) as [Y|N]; auto. destruct (Fx cur c E1 N) as [Na _]. contradiction. }
  exact (good_extend cyc x path cur c Hgx Ecx C2 C3).
Qed.

Lemma kids_step cyc path g1 x c y :
  path <> [] -> ~ In c path -> kids_inv cyc path g1 x -> frame cyc (path ++ [c]) c x y -> kids_inv cyc path g1 y.
Proof.
  intros Hne C3 [Sx [Fx Rx]] [Sy [Fy Ry]].
  split; [eapply sub_trans; eauto|]. split.
  - intros u v A B. destruct (edge_dec x u v) as [Y|N]; [|apply Fx; auto].
    destruct (Fy u v Y B) as [[E|E] [E2 E3]]; split; auto.
    + subst u. exact C3.
    + intros Hu. apply E. apply in_or_app. left. exact Hu.
  - intros S z HS Hz. apply Ry; [rewrite hd_app_nonempty by exact Hne; exact HS|]. apply Rx; auto.
Qed.

Lemma visit_frame cyc : forall d g cur path h,
  good cyc g path cur -> bc_visit_dir d cyc g cur path = Some h -> frame cyc path cur g h.
Proof.
  induction d as [|d IH]; intros g cur path h Hg H; [discriminate|].
  rewrite bc_visit_dir_unfold in H. destruct (edge_gone g path).
  { inversion H; subst. split; [apply sub_refl|]. split; [intros u v A B; contradiction | auto]. }
  cbv zeta in H. destruct (visit_scan_spec cyc g cur path) as [L [HE HP]]. cbv zeta in L, HE, HP.
  pose proof (scan_good cyc g path cur Hg) as Hg1.
  set (r := bc_scan_dir cur path (filter (fun v => memn v cyc) (row g cur)) g) in *.
  set (g1 := fst r) in *.
  pose proof Hg as [Hne [Hl [Hnd [Hin Hc]]]].
  pose proof (good_last_in _ _ _ _ Hg) as Hcur.
  (* step A: the scan *)
  assert (SA : sub g1 g) by (split; auto; intros u v Huv; apply HE in Huv; tauto).
  assert (FA : forall u v, edge g u v -> ~ edge g1 u v -> u = cur /\ In v cyc /\ In v path).
  { intros u v A B. destruct (Nat.eq_dec u cur) as [E1|E1];
      [destruct (in_dec Nat.eq_dec v cyc) as [E2|E2]; [destruct (in_dec Nat.eq_dec v path) as [E3|E3]|]|]; auto;
      exfalso; apply B; apply HE; split; auto; tauto. }
  assert (RA : forall (S : nat -> Prop) x, S (hd 0 path) -> reachS (Ein cyc g) S x -> reachS (Ein cyc g1) S x).
  { intros S x HS. apply reach_repair. intros u v [Huv [Hu Hv]].
    destruct (edge_dec g1 u v) as [Y|N]; [left; split; auto|].
    right. destruct (FA u v Huv N) as [_ [_ Hvp]]. exists (hd 0 path). split; auto.
    eapply good_reach_in; eauto. }
  (* step B: the children *)
  assert (HI : kids_inv cyc path g1 h).
  { refine (ofold_inv _ (kids_inv cyc path g1) _ g1 h (kids_inv_refl _ _ _) _ H).
    intros x c y Hc' Ix Hy. apply in_rev in Hc'. apply HP in Hc'. destruct Hc' as [C1 [C2 C3]].
    unfold visit_step in Hy.
    assert (E1 : edge g1 cur c) by (apply HE; split; auto; tauto).
    pose proof (kids_good cyc path cur g1 x c Hg1 Ix E1 C2 C3) as Hgc.
    eapply kids_step; eauto. }
  destruct HI as [Sh [Fh Rh]].
  split; [eapply sub_trans; eauto|]. split.
  - intros u v A B. destruct (edge_dec g1 u v) as [Y|N].
    + destruct (Fh u v Y B) as [E1 [E2 E3]]. auto.
    + destruct (FA u v A N) as [E1 [E2 E3]]. subst u. split; auto.
  - intros S x HS Hx. apply Rh; auto.
Qed.

(** * [bc_visit_dir]: the depth budget suffices *)
Lemma good_length cyc g path cur :
  good cyc g path cur -> (forall x, In x cyc -> x < length g) -> length path <= length g.
Proof.
  intros [_ [_ [Hnd [Hin _]]]] Hlt.
  assert (Hincl : incl path (seq 0 (length g))) by (intros x Hx; apply in_seq; specialize (Hlt x (Hin x Hx)); lia).
  pose proof (NoDup_incl_length Hnd Hincl) as H. rewrite seq_length in H. exact H.
Qed.

Lemma visit_total cyc : forall d g cur path,
  good cyc g path cur -> (forall x, In x cyc -> x < length g) -> length g < d + length path ->
  exists h, bc_visit_dir d cyc g cur path = Some h.
Proof.
  induction d as [|d IH]; intros g cur path Hg Hlt Hd.
  { pose proof (good_length _ _ _ _ Hg Hlt). lia. }
  rewrite bc_visit_dir_unfold. destruct (edge_gone g path); [eexists; reflexivity|].
  cbv zeta. destruct (visit_scan_spec cyc g cur path) as [L [HE HP]]. cbv zeta in L, HE, HP.
  pose proof (scan_good cyc g path cur Hg) as Hg1.
  set (r := bc_scan_dir cur path (filter (fun v => memn v cyc) (row g cur)) g) in *.
  set (g1 := fst r) in *.
  pose proof Hg as [Hne [Hl [Hnd [Hin Hc]]]].
  apply (ofold_total _ (kids_inv cyc path g1)); [apply kids_inv_refl|].
  intros x c Hc' Ix. apply in_rev in Hc'. apply HP in Hc'. destruct Hc' as [C1 [C2 C3]].
  assert (E1 : edge g1 cur c) by (apply HE; split; auto; tauto).
  pose proof (kids_good cyc path cur g1 x c Hg1 Ix E1 C2 C3) as Hgc.
  assert (Lx : length x = length g) by (destruct Ix as [[Lx _] _]; congruence).
  destruct (IH x c (path ++ [c]) Hgc) as [y Hy].
  - intros z Hz. rewrite Lx. auto.
  - rewrite app_length, Lx. simpl. lia.
  - exists y. split; [exact Hy|]. eapply kids_step; eauto. eapply visit_frame; eauto.
Qed.

(** * [bc_visit_dir]: every simple path of the result that extends the path was visited *)
Lemma ofold_visit_sub d cyc path l a h : ofold (visit_step d cyc path) l (Some a) = Some h -> sub h a.
Proof.
  intros H. refine (ofold_inv _ (fun x => sub x a) _ a h (sub_refl a) _ H).
  intros x v y _ Hx Hy. unfold visit_step in Hy. apply visit_sub in Hy. eapply sub_trans; eauto.
Qed.

Lemma visit_complete cyc : forall d g cur path h,
  path <> [] -> last path 0 = cur -> bc_visit_dir d cyc g cur path = Some h ->
  forall h', sub h' h -> forall ext,
    chain (edge h') (path ++ ext) -> NoDup (path ++ ext) -> (forall x, In x ext -> In x cyc) ->
    forall v, In v (path ++ ext) -> In v cyc -> ~ edge h' (last (path ++ ext) 0) v.
Proof.
  induction d as [|d IH]; intros g cur path h Hne Hl H h' Hs ext Hch Hnd Hext v Hv Hvc Hedge; [discriminate|].
  rewrite bc_visit_dir_unfold in H. destruct (edge_gone g path) eqn:Egone.
  { inversion H; subst h. apply edge_gone_spec in Egone. destruct Egone as [q [a [b [Ep Nab]]]].
    apply Nab. apply Hs. rewrite Ep in Hch. rewrite <- !app_assoc in Hch.
    apply chain_app in Hch. destruct Hch as [_ [Hch _]]. simpl in Hch. tauto. }
  cbv zeta in H. destruct (visit_scan_spec cyc g cur path) as [L [HE HP]]. cbv zeta in L, HE, HP.
  set (r := bc_scan_dir cur path (filter (fun v => memn v cyc) (row g cur)) g) in *.
  set (g1 := fst r) in *.
  pose proof (ofold_visit_sub _ _ _ _ _ _ H) as Sh1.
  assert (S1 : forall u w, edge h' u w -> edge g1 u w).
  { intros u w A. apply Sh1. apply Hs. exact A. }
  destruct ext as [|c ext'].
  - rewrite app_nil_r in *. rewrite Hl in Hedge. apply S1 in Hedge. apply HE in Hedge. tauto.
  - assert (Ec : edge h' cur c).
    { apply chain_app in Hch. destruct Hch as [_ [_ Hlink]]. rewrite Hl in Hlink. apply Hlink; [exact Hne | discriminate]. }
    assert (Cc : In c cyc) by (apply Hext; left; reflexivity).
    assert (Cp : ~ In c path).
    { intros Hin. eapply (NoDup_app_disjoint path (c :: ext') c); eauto. left; reflexivity. }
    assert (Hpush : In c (rev (snd r))).
    { apply in_rev. rewrite rev_involutive. apply HP. split; [|auto].
      apply S1 in Ec. apply HE in Ec. tauto. }
    destruct (in_split _ _ Hpush) as [l1 [l2 El]]. rewrite El in H.
    destruct (ofold_split _ _ _ _ _ _ H) as [x [y [H1 [H2 H3]]]].
    unfold visit_step in H2. apply ofold_visit_sub in H3.
    assert (Epath : (path ++ [c]) ++ ext' = path ++ c :: ext') by (rewrite <- app_assoc; reflexivity).
    refine (IH x c (path ++ [c]) y _ (last_last _ _ _) H2 h' (sub_trans _ _ _ Hs H3) ext' _ _ _ v _ Hvc _).
    + destruct path; discriminate.
    + rewrite Epath. exact Hch.
    + rewrite Epath. exact Hnd.
    + intros z Hz. apply Hext. right. exact Hz.
    + rewrite Epath. exact Hv.
    + rewrite Epath. exact Hedge.
Qed.

(** * One component *)

Definition cyc_of (comp : list nat) (l : nat) : list nat :=
  filter (fun u => nthn comp u =? l) (seq 0 (length comp)).
Definition subroots_of (comp : list nat) (dist : list Z) (l : nat) : list nat :=
  filter (fun u => (nthz dist u =? zmin_list (map (nthz dist) (cyc_of comp l)))%Z) (cyc_of comp l).

Lemma bc_component_unfold g comp dist l :
  bc_component g comp dist l =
  ofold (fun ga s => bc_visit_dir (S (length g)) (cyc_of comp l) ga s [s]) (rev (subroots_of comp dist l)) (Some g).
Proof. reflexivity. Qed.

Lemma cyc_of_In comp l u : In u (cyc_of comp l) <-> u < length comp /\ nthn comp u = l.
Proof. unfold cyc_of. rewrite filter_In, in_seq, Nat.eqb_eq. intuition lia. Qed.

Lemma subroots_cyc comp dist l s : In s (subroots_of comp dist l) -> In s (cyc_of comp l).
Proof. unfold subroots_of. rewrite filter_In. tauto. Qed.

Lemma fold_zmin_spec : forall (t : list Z) (x : Z),
  let m := fold_left Z.min t x in (m = x \/ In m t) /\ (m <= x)%Z /\ forall y, In y t -> (m <= y)%Z.
Proof.
  induction t as [|a t IH]; intros x; simpl.
  - split; auto. split; [lia|]. intros y [].
  - specialize (IH (Z.min x a)). cbv zeta in IH. destruct IH as [A [B C]]. split; [|split].
    + destruct A as [A|A]; [|auto]. destruct (Z.min_spec x a) as [[_ E]|[_ E]]; [left | right; left]; congruence.
    + lia.
    + intros y [Hy|Hy]; [subst; lia | auto].
Qed.

Lemma zmin_list_spec (l : list Z) : l <> [] -> In (zmin_list l) l /\ forall y, In y l -> (zmin_list l <= y)%Z.
Proof.
  destruct l as [|x t]; [congruence|]. intros _. unfold zmin_list.
  destruct (fold_zmin_spec t x) as [A [B C]]. cbv zeta in A, B, C. split.
  - destruct A as [A|A]; [left; auto | right; auto].
  - intros y [Hy|Hy]; [subst; auto | auto].
Qed.

(** The minimum is attained: there is a subroot; every subroot is at most as far as every member. *)
Lemma subroots_nonempty comp dist l : cyc_of comp l <> [] -> subroots_of comp dist l <> [].
Proof.
  intros Hne. assert (Hm : map (nthz dist) (cyc_of comp l) <> []) by (destruct (cyc_of comp l); [congruence | discriminate]).
  destruct (zmin_list_spec _ Hm) as [A _]. apply in_map_iff in A. destruct A as [u [Eu Hu]].
  intros E. assert (Hin : In u (subroots_of comp dist l)).
  { unfold subroots_of. apply filter_In. split; auto. apply Z.eqb_eq. exact Eu. }
  rewrite E in Hin. destruct Hin.
Qed.

Lemma subroots_min comp dist l s x :
  In s (subroots_of comp dist l) -> In x (cyc_of comp l) -> (nthz dist s <= nthz dist x)%Z.
Proof.
  unfold subroots_of. rewrite filter_In. intros [Hs E] Hx. apply Z.eqb_eq in E. rewrite E.
  assert (Hm : map (nthz dist) (cyc_of comp l) <> []) by (destruct (cyc_of comp l); [destruct Hx | discriminate]).
  apply (zmin_list_spec _ Hm). apply in_map. exact Hx.
Qed.

Definition cframe (cyc : list nat) (S : nat -> Prop) (g h : graph) : Prop :=
  sub h g /\
  (forall u v, edge g u v -> ~ edge h u v -> In u cyc /\ In v cyc) /\
  (forall x, reachS (Ein cyc g) S x -> reachS (Ein cyc h) S x).

Lemma good_single cyc g s : In s cyc -> good cyc g [s] s.
Proof.
  intros Hs. split; [discriminate|]. split; [reflexivity|]. split; [constructor; [intros []|constructor]|].
  split; [intros x [Hx|[]]; subst; auto | simpl; auto].
Qed.

Lemma comp_frame g comp dist l h :
  bc_component g comp dist l = Some h ->
  cframe (cyc_of comp l) (fun s => In s (subroots_of comp dist l)) g h.
Proof.
  rewrite bc_component_unfold. intros H.
  refine (ofold_inv _ (cframe (cyc_of comp l) (fun s => In s (subroots_of comp dist l)) g) _ g h _ _ H).
  - split; [apply sub_refl|]. split; [intros u v A B; contradiction | auto].
  - intros x s y Hs [Sx [Fx Rx]] Hy. apply in_rev in Hs.
    pose proof (good_single (cyc_of comp l) x s (subroots_cyc _ _ _ _ Hs)) as Hg.
    destruct (visit_frame _ _ _ _ _ _ Hg Hy) as [Sy [Fy Ry]].
    split; [eapply sub_trans; eauto|]. split.
    + intros u v A B. destruct (edge_dec x u v) as [Y|N]; [|apply Fx; auto].
      destruct (Fy u v Y B) as [_ [E2 E3]]. auto.
    + intros z Hz. apply Ry; [exact Hs|]. apply Rx. exact Hz.
Qed.

Lemma comp_total (g : graph) comp dist l :
  length comp = length g -> exists h, bc_component g comp dist l = Some h.
Proof.
  intros Hlen. rewrite bc_component_unfold.
  apply (ofold_total _ (fun a : graph => length a = length g)); [reflexivity|].
  intros x s Hs Lx. apply in_rev in Hs. apply subroots_cyc in Hs.
  destruct (visit_total (cyc_of comp l) (S (length g)) x s [s]) as [y Hy].
  - apply good_single. exact Hs.
  - intros z Hz. apply cyc_of_In in Hz. lia.
  - simpl. lia.
  - exists y. split; auto. apply visit_sub in Hy. destruct Hy as [Ly _]. congruence.
Qed.

(** A graph in which no simple path from [s] (inside [cyc]) has an edge back into itself, and in which
    [s] reaches a closed walk inside [cyc], is contradictory. *)
Lemma no_back_edge_no_cycle (h : graph) (cyc : list nat) (s : nat) (c : list nat) :
  In s cyc ->
  (forall ext v, chain (edge h) ([s] ++ ext) -> NoDup ([s] ++ ext) -> (forall x, In x ext -> In x cyc) ->
                 In v ([s] ++ ext) -> In v cyc -> ~ edge h (last ([s] ++ ext) 0) v) ->
  dcycle h c -> (forall x, In x c -> In x cyc) -> reach (Ein cyc h) s (hd 0 c) -> False.
Proof.
  intros Hs NB [Hne [Hnd Hch]] Hc Hr. destruct c as [|x0 t]; [congruence|]. cbn [hd] in *.
  destruct (reach_spath _ _ _ Hr) as [p [P1 [P2 [P3 [P4 P5]]]]].
  destruct p as [|p0 p']; [congruence|]. cbn [hd] in P1. subst p0.
  assert (Hp_cyc : forall z, In z (s :: p') -> In z cyc).
  { intros z [Hz|Hz]; [subst; auto|]. eapply (chain_targets (Ein cyc h) (fun b => In b cyc)); eauto.
    intros a b [_ [_ Hb]]. exact Hb. }
  assert (Hp_ch : chain (edge h) (s :: p')) by (eapply chain_mono; [|exact P5]; intros a b [A _]; exact A).
  set (W := (s :: p') ++ (t ++ [x0])).
  assert (HW : chain (edge h) W).
  { unfold W. apply chain_app. split; auto.
    change ((x0 :: t) ++ [x0]) with ([x0] ++ (t ++ [x0])) in Hch. apply chain_app in Hch.
    destruct Hch as [_ [Hc2 Hlink]]. split; auto. intros _ Hne2. rewrite P2. apply Hlink; [discriminate | exact Hne2]. }
  assert (HWc : forall z, In z W -> In z cyc).
  { intros z Hz. unfold W in Hz. apply in_app_or in Hz. destruct Hz as [Hz|Hz]; auto.
    apply Hc. apply in_app_or in Hz. destruct Hz as [Hz|[Hz|[]]]; [right; auto | left; auto]. }
  destruct (first_repeat W) as [HndW|[q [v [rest [EW [Hq Hv]]]]]].
  - unfold W in HndW. eapply (NoDup_app_disjoint (s :: p') (t ++ [x0]) x0); eauto.
    + rewrite <- P2. apply last_In. discriminate.
    + apply in_or_app. right. left. reflexivity.
  - destruct q as [|q0 ext]; [destruct Hv|].
    assert (q0 = s) by (unfold W in EW; simpl in EW; congruence). subst q0.
    rewrite EW in HW. apply chain_app in HW. destruct HW as [Hq_ch [_ Hlink]].
    apply (NB ext v); auto.
    + intros z Hz. apply HWc. rewrite EW. apply in_or_app. left. right. exact Hz.
    + apply HWc. rewrite EW. apply in_or_app. right. left. reflexivity.
    + apply Hlink; discriminate.
Qed.

(** After the exploration from the first subroot, the component (whose internal edges were intact and
    which was strongly connected inside itself) contains no cycle; later explorations only remove edges. *)
Lemma comp_acyclic g comp dist l h :
  cyc_of comp l <> [] ->
  (forall s x, In s (cyc_of comp l) -> In x (cyc_of comp l) -> reach (Ein (cyc_of comp l) g) s x) ->
  bc_component g comp dist l = Some h ->
  forall c, dcycle h c -> (forall x, In x c -> In x (cyc_of comp l)) -> False.
Proof.
  intros Hne Hconn H c Hcy Hc. rewrite bc_component_unfold in H.
  set (cyc := cyc_of comp l) in *.
  pose proof (subroots_nonempty comp dist l Hne) as Hsr.
  destruct (rev (subroots_of comp dist l)) as [|s1 rest] eqn:Er.
  { apply Hsr. rewrite <- (rev_involutive (subroots_of comp dist l)), Er. reflexivity. }
  assert (Hs1 : In s1 cyc).
  { apply (subroots_cyc comp dist l). apply in_rev. rewrite Er. left. reflexivity. }
  rewrite ofold_cons in H. destruct (bc_visit_dir (S (length g)) cyc g s1 [s1]) as [h1|] eqn:E1;
    [|rewrite ofold_none in H; discriminate].
  assert (Sh : sub h h1).
  { refine (ofold_inv _ (fun x => sub x h1) _ h1 h (sub_refl h1) _ H).
    intros x v y _ Hx Hy. apply visit_sub in Hy. eapply sub_trans; eauto. }
  destruct (visit_frame _ _ _ _ _ _ (good_single cyc g s1 Hs1) E1) as [_ [_ R1]].
  assert (Hcy1 : dcycle h1 c) by (eapply simple_cycle_ext; [|exact Hcy]; apply Sh).
  assert (Hc0 : In (hd 0 c) cyc).
  { apply Hc. destruct Hcy as [Hn _]. destruct c; [congruence | left; reflexivity]. }
  apply (no_back_edge_no_cycle h1 cyc s1 c Hs1); auto.
  - intros ext v A B C D F. 
    exact (visit_complete cyc _ g s1 [s1] h1 ltac:(discriminate) eq_refl E1 h1 (sub_refl h1) ext A B C v D F).
  - destruct (R1 (eq s1) (hd 0 c) eq_refl) as [a [Ea Ra]].
    + exists s1. split; auto.
    + subst a. exact Ra.
Qed.

(** * The loop over the labels of the components with more than one node *)

Definition labels_of (comp : list nat) : list nat := filter (fun l => 1 <? count comp l) (np_unique comp).
Definition lstep (comp : list nat) (dist : list Z) : graph -> nat -> option graph :=
  fun ga l => bc_component ga comp dist l.

Lemma labels_of_NoDup comp : NoDup (labels_of comp).
Proof. unfold labels_of, np_unique. apply NoDup_filter. apply NoDup_filter. apply seq_NoDup. Qed.

Lemma labels_of_In comp l : In l (labels_of comp) <-> In l comp /\ 1 < count comp l.
Proof. unfold labels_of. rewrite filter_In, np_unique_In, Nat.ltb_lt. tauto. Qed.

(** Only edges between two nodes of the same processed label disappear. *)
Definition lframe (comp : list nat) (L : list nat) (a b : graph) : Prop :=
  sub b a /\
  forall u v, edge a u v -> ~ edge b u v ->
    u < length comp /\ v < length comp /\ nthn comp u = nthn comp v /\ In (nthn comp u) L.

Lemma labels_frame comp dist L : forall a b, ofold (lstep comp dist) L (Some a) = Some b -> lframe comp L a b.
Proof.
  intros a b H. refine (ofold_inv _ (lframe comp L a) _ a b _ _ H).
  - split; [apply sub_refl|]. intros u v A B. contradiction.
  - intros x l y Hl [Sx Fx] Hy. unfold lstep in Hy. destruct (comp_frame _ _ _ _ _ Hy) as [Sy [Fy _]].
    split; [eapply sub_trans; eauto|]. intros u v A B.
    destruct (edge_dec x u v) as [Y|N]; [|apply Fx; auto].
    destruct (Fy u v Y B) as [Hu Hv]. apply cyc_of_In in Hu, Hv. destruct Hu as [Hu Eu], Hv as [Hv Ev].
    split; auto. split; auto. split; [congruence|]. rewrite Eu. exact Hl.
Qed.

Lemma labels_total comp dist L (a : graph) :
  length comp = length a -> exists b, ofold (lstep comp dist) L (Some a) = Some b.
Proof.
  intros Hlen. apply (ofold_total _ (fun x : graph => length x = length a)); [reflexivity|].
  intros x l _ Lx. unfold lstep. destruct (comp_total x comp dist l) as [y Hy]; [congruence|].
  exists y. split; auto. destruct (comp_frame _ _ _ _ _ Hy) as [[Ly _] _]. congruence.
Qed.

(** The run around the processing of one label [l]: before it and after it the edges inside the
    component of [l] are not touched. *)
Lemma labels_run_split comp dist labels g0 h l :
  NoDup labels -> In l labels -> ofold (lstep comp dist) labels (Some g0) = Some h ->
  exists ga gb,
    sub ga g0 /\ (forall u v, Ein (cyc_of comp l) g0 u v -> Ein (cyc_of comp l) ga u v) /\
    bc_component ga comp dist l = Some gb /\
    sub h gb /\ (forall u v, Ein (cyc_of comp l) gb u v -> Ein (cyc_of comp l) h u v).
Proof.
  intros Hnd Hl H. destruct (in_split _ _ Hl) as [L1 [L2 EL]]. subst labels.
  destruct (ofold_split _ _ _ _ _ _ H) as [ga [gb [H1 [H2 H3]]]].
  apply labels_frame in H1, H3. destruct H1 as [S1 F1], H3 as [S3 F3].
  assert (N1 : ~ In l L1).
  { intros Hin. apply NoDup_remove_2 in Hnd. apply Hnd. apply in_or_app. left. exact Hin. }
  assert (N2 : ~ In l L2).
  { intros Hin. apply NoDup_remove_2 in Hnd. apply Hnd. apply in_or_app. right. exact Hin. }
  exists ga, gb. split; auto. split; [|split; [exact H2|split; auto]].
  - intros u v [A [Hu Hv]]. split; auto. destruct (edge_dec ga u v) as [Y|N]; auto. exfalso.
    destruct (F1 u v A N) as [_ [_ [_ Hin]]]. apply cyc_of_In in Hu. destruct Hu as [_ Eu].
    rewrite Eu in Hin. contradiction.
  - intros u v [A [Hu Hv]]. split; auto. destruct (edge_dec h u v) as [Y|N]; auto. exfalso.
    destruct (F3 u v A N) as [_ [_ [_ Hin]]]. apply cyc_of_In in Hu. destruct Hu as [_ Eu].
    rewrite Eu in Hin. contradiction.
Qed.

(** * Strongly connected components *)

(** Two nodes with the same label are joined by a walk that stays inside their component. *)
Lemma scc_internal g comp u x :
  wf_graph g -> components_contract g true comp -> u < length g -> x < length g ->
  nthn comp u = nthn comp x ->
  reach (Ein (cyc_of comp (nthn comp u)) g) u x.
Proof.
  intros Hwf [Hlen Hc] Hu Hx E. set (l := nthn comp u).
  apply (Hc u x Hu Hx) in E. destruct E as [Rux Rxu].
  assert (G : forall y, reach (edge g) y x -> reach (edge g) u y -> y < length g -> nthn comp y = l ->
                        reach (Ein (cyc_of comp l) g) y x).
  { clear Rux. intros y H. induction H as [y|y z x Hyz Hzx IH]; intros Huy Hy Ey; [apply reach_refl|].
    assert (Hz : z < length g) by (eapply Hwf; eauto).
    assert (Huz : reach (edge g) u z) by (eapply reach_step_right; eauto).
    assert (Ez : nthn comp z = l).
    { symmetry. apply (Hc u z Hu Hz). split; auto. eapply reach_trans; eauto. }
    eapply reach_step; [|apply IH; auto].
    split; auto. split; apply cyc_of_In; split; auto; lia. }
  apply G; auto. apply reach_refl.
Qed.

(** * Breadth-first distances: every node has a hop distance or is unreachable *)
Lemma bfs_dichotomy g src : length src = length g ->
  exists dist, bfs g src = Some dist /\ length dist = length g /\
    forall v, v < length g ->
      (exists k, nthz dist v = Z.of_nat k /\ hop g src v k) \/ (forall k, ~ reachk g src k v).
Proof.
  intros Hs. unfold bfs. change 1%Z with (Z.of_nat (S 0)).
  destruct (bfs_loop_inv g src (S (length g)) 0 src _ (inv_init g src Hs)) as [dist [r [rch [Hb [HI HE]]]]].
  { pose proof (cf_le_length src). lia. }
  exists dist. split; auto. split; [exact (inv_ld _ _ _ _ _ HI)|]. intros v Hv.
  pose proof (inv_closed _ _ _ _ _ HI HE) as Hcl.
  destruct (nthb rch v) eqn:E.
  - left. exact (inv_dist_t _ _ _ _ _ HI v Hv E).
  - right. intros k Hr. rewrite (Hcl k v Hr Hv) in E. discriminate.
Qed.

Lemma hop_pred g src v k : hop g src v (S k) -> exists y, hop g src y k /\ edge g y v.
Proof.
  intros [Hr Hmin]. simpl in Hr. destruct Hr as [y [Hy Hyv]]. exists y. split; auto. split; auto.
  intros j Hj Hrj. apply (Hmin (S j)); [lia|]. simpl. exists y. auto.
Qed.

Lemma reach_drop_loops g u v : reach (edge g) u v -> reach (edge (drop_loops g)) u v.
Proof.
  intros H. induction H as [u|u x v Hux Hxv IH]; [apply reach_refl|].
  destruct (Nat.eq_dec u x) as [E|E]; [subst; exact IH|].
  eapply reach_step; [|exact IH]. apply drop_loops_edge. auto.
Qed.

(** * The directed loop on a loop-free graph [g0] *)

Lemma dir_loop_acyclic g0 comp dist h :
  wf_graph g0 -> (forall u, ~ edge g0 u u) -> components_contract g0 true comp ->
  ofold (lstep comp dist) (labels_of comp) (Some g0) = Some h ->
  forall c, ~ dcycle h c.
Proof.
  intros Hwf Hlf Hcc H c Hcy. pose proof Hcc as [Hlen Hc].
  pose proof (labels_frame _ _ _ _ _ H) as [Sh _].
  assert (Hcy0 : dcycle g0 c) by (eapply simple_cycle_ext; [|exact Hcy]; apply Sh).
  destruct c as [|x [|y t]].
  - destruct Hcy as [Hn _]. congruence.
  - destruct Hcy0 as [_ [_ Hch]]. simpl in Hch. apply (Hlf x). tauto.
  - destruct (long_cycle_same_label g0 comp x y t Hwf Hcc Hcy0) as [Hx [Hy [Hxy Exy]]].
    set (l := nthn comp x).
    assert (Hall : forall z, In z (x :: y :: t) -> In z (cyc_of comp l)).
    { intros z Hz. destruct (simple_cycle_hd_reach _ _ z Hcy0 Hz) as [R1 R2]. cbn [hd] in R1, R2.
      assert (Hzl : z < length g0) by exact (reach_lt g0 x z Hwf Hx R1).
      apply cyc_of_In. split; [lia|]. symmetry. apply (Hc x z Hx Hzl). split; auto. }
    assert (Hl : In l (labels_of comp)).
    { apply labels_of_In. split; [apply nthn_In; lia|].
      destruct (Nat.lt_trichotomy x y) as [L|[L|L]]; [|contradiction|].
      - apply (count_two comp x y L); [lia | exact Exy].
      - unfold l. rewrite Exy. apply (count_two comp y x L); [lia | symmetry; exact Exy]. }
    destruct (labels_run_split comp dist _ g0 h l (labels_of_NoDup comp) Hl H) as [ga [gb [Sa [Ea [Hb [Shb _]]]]]].
    apply (comp_acyclic ga comp dist l gb) with (c := x :: y :: t); auto.
    + intros E. specialize (Hall x (or_introl eq_refl)). rewrite E in Hall. destruct Hall.
    + intros s z Hs Hz. apply cyc_of_In in Hs, Hz. destruct Hs as [Hs Es], Hz as [Hz Ez].
      eapply reach_mono; [exact Ea|]. rewrite <- Es.
      apply scc_internal; auto; try lia; congruence.
    + eapply simple_cycle_ext; [|exact Hcy]. apply Shb.
Qed.

Lemma dir_loop_reach g0 root comp dist h :
  wf_graph g0 -> components_contract g0 true comp ->
  bfs g0 (one_hot (length g0) root) = Some dist ->
  ofold (lstep comp dist) (labels_of comp) (Some g0) = Some h ->
  forall r v, In r root -> r < length g0 -> reach (edge g0) r v ->
    exists r', In r' root /\ reach (edge h) r' v.
Proof.
  intros Hwf Hcc Hbfs H. pose proof Hcc as [Hlen Hc].
  set (src := one_hot (length g0) root) in *.
  destruct (bfs_dichotomy g0 src (one_hot_length _ _)) as [dist' [Hb' [Hld Hdist]]].
  rewrite Hbfs in Hb'. inversion Hb'; subst dist'. clear Hb'.
  pose proof (labels_frame _ _ _ _ _ H) as [Sh Fh].
  assert (Hdist_eq : forall v k1 k2, hop g0 src v k1 -> nthz dist v = Z.of_nat k2 -> v < length g0 -> k1 = k2).
  { intros v k1 k2 H1 H2 Hv. destruct (Hdist v Hv) as [[k [Ek Hk]]|Hno].
    - rewrite (hop_unique _ _ _ _ _ H1 Hk). lia.
    - exfalso. destruct H1 as [H1 _]. exact (Hno _ H1). }
  assert (G : forall k v, v < length g0 -> hop g0 src v k -> reachS (edge h) (fun r => In r root) v).
  { induction k as [k IH] using lt_wf_ind. intros v Hv Hhop. destruct k as [|k'].
    - destruct Hhop as [Hr _]. simpl in Hr. unfold src in Hr. rewrite nthb_one_hot in Hr by exact Hv.
      apply memn_In in Hr. exists v. split; auto. apply reach_refl.
    - destruct (hop_pred _ _ _ _ Hhop) as [y [Hy Hyv]].
      assert (Hyl : y < length g0) by (eapply row_nonempty_lt; eauto).
      destruct (edge_dec h y v) as [Y|N].
      + destruct (IH k' ltac:(lia) y Hyl Hy) as [r [Hr Rr]]. exists r. split; auto. eapply reach_step_right; eauto.
      + destruct (Fh y v Hyv N) as [_ [_ [Eyv Hl]]]. set (l := nthn comp y) in *.
        destruct (labels_run_split comp dist _ g0 h l (labels_of_NoDup comp) Hl H)
          as [ga [gb [Sa [Ea [Hcomp [Shb Eb]]]]]].
        assert (Hvc : In v (cyc_of comp l)) by (apply cyc_of_In; split; [lia | auto]).
        assert (Hyc : In y (cyc_of comp l)) by (apply cyc_of_In; split; [lia | auto]).
        (* some subroot reaches v inside the component, in the final graph *)
        assert (Hsub : reachS (Ein (cyc_of comp l) h) (fun s => In s (subroots_of comp dist l)) v).
        { destruct (comp_frame _ _ _ _ _ Hcomp) as [_ [_ Rc]].
          eapply reachS_mono; [exact Eb|]. apply Rc. eapply reachS_mono; [exact Ea|].
          assert (Hne : cyc_of comp l <> []) by (intros E; rewrite E in Hvc; destruct Hvc).
          pose proof (subroots_nonempty comp dist l Hne) as Hsr.
          destruct (subroots_of comp dist l) as [|s0 rest] eqn:Esr; [congruence|].
          exists s0. split; [left; reflexivity|].
          assert (Hs0 : In s0 (cyc_of comp l)) by (apply (subroots_cyc comp dist l); rewrite Esr; left; reflexivity).
          apply cyc_of_In in Hs0. destruct Hs0 as [Hs0 Es0]. rewrite <- Es0.
          apply scc_internal; auto; try lia; congruence. }
        destruct Hsub as [s [Hs Rsv]].
        assert (Rsv' : reach (edge h) s v) by (eapply reach_mono; [|exact Rsv]; intros a b [A _]; exact A).
        pose proof (subroots_cyc _ _ _ _ Hs) as Hsc. apply cyc_of_In in Hsc. destruct Hsc as [Hsl Es].
        (* the subroot is strictly closer to the roots than v *)
        pose proof (subroots_min comp dist l s y Hs Hyc) as Hle.
        assert (Hdy : nthz dist y = Z.of_nat k').
        { destruct (Hdist y Hyl) as [[k [Ek Hk]]|Hno].
          - rewrite (hop_unique _ _ _ _ _ Hy Hk). exact Ek.
          - exfalso. destruct Hy as [Hy _]. exact (Hno _ Hy). }
        destruct (Hdist s ltac:(lia)) as [[ks [Eks Hks]]|Hno].
        * destruct (IH ks ltac:(lia) s ltac:(lia) Hks) as [r [Hr Rr]]. exists r. split; auto.
          eapply reach_trans; eauto.
        * exfalso.
          assert (Rys : reach (edge g0) y s).
          { assert (Hs' : sconn g0 y s) by (apply (proj1 (Hc y s Hyl ltac:(lia))); rewrite Es; reflexivity).
            exact (proj1 Hs'). }
          destruct (reach_reachk g0 src y s Rys) as [k Hk]; [exists k'; destruct Hy; auto|].
          exact (Hno _ Hk). }
  intros r v Hr Hrl Hrv.
  assert (Hv : v < length g0) by (eapply reach_lt; eauto).
  destruct (Hdist v Hv) as [[k [Ek Hk]]|Hno].
  - exact (G k v Hv Hk).
  - exfalso. destruct (reach_reachk g0 src r v Hrv) as [k Hk]; [|exact (Hno _ Hk)].
    exists 0. simpl. unfold src. rewrite nthb_one_hot by exact Hrl. apply memn_In. exact Hr.
Qed.

(** * break_cycles, directed branch: the general theorem *)

Lemma break_cycles_dir_unfold vo g root directed comp1 comp2 :
  resolve_directed g directed = Ok true ->
  break_cycles vo g root directed comp1 comp2 =
  match is_acyclic g directed comp1 with
  | Err e => Err e
  | Ok true => Ok g
  | Ok false =>
      if negb (forallb (fun r => r <? length g) root) then Err IndexError
      else if sumn (map (fun r => length (row g r)) root) =? 0 then Err ValueError
      else match bfs (drop_loops g) (one_hot (length g) root) with
           | None => Err OutOfFuel
           | Some dist =>
               match ofold (lstep comp2 dist) (labels_of comp2) (Some (drop_loops g)) with
               | Some r => Ok r
               | None => Err OutOfFuel
               end
           end
  end.
Proof.
  intros H. unfold break_cycles. destruct (is_acyclic g directed comp1) as [[|]|]; auto.
  destruct (negb (forallb (fun r => r <? length g) root)); auto.
  destruct (sumn (map (fun r => length (row g r)) root) =? 0); auto.
  rewrite H. reflexivity.
Qed.

Lemma is_acyclic_flag g directed comp :
  resolve_directed g directed = Ok true -> is_acyclic g directed comp = is_acyclic g (Some true) comp.
Proof. intros H. unfold is_acyclic. rewrite H. reflexivity. Qed.

Theorem break_cycles_directed_correct_lemma
        (vo : bool) (g : graph) (root : list nat) (directed : option bool) (comp1 comp2 : list nat) :
  wf_graph g ->
  resolve_directed g directed = Ok true ->
  components_contract g true comp1 ->
  components_contract (drop_loops g) true comp2 ->
  break_cycles vo g root directed comp1 comp2 <> Err OutOfFuel /\
  forall h, break_cycles vo g root directed comp1 comp2 = Ok h ->
    length h = length g /\
    (forall u v, edge h u v -> edge g u v /\ u <> v) /\
    (forall c, ~ dcycle h c) /\
    (forall r v, In r root -> reach (edge g) r v -> exists r', In r' root /\ reach (edge h) r' v).
Proof.
  intros Hwf Hres Hc1 Hc2. rewrite (break_cycles_dir_unfold vo g root directed comp1 comp2 Hres).
  rewrite (is_acyclic_flag g directed comp1 Hres).
  set (g0 := drop_loops g).
  assert (Hwf0 : wf_graph g0) by (apply (wf_sub g0 g Hwf); apply drop_loops_sub).
  assert (Hl0 : length g0 = length g) by apply drop_loops_length.
  destruct (is_acyclic g (Some true) comp1) as [[|]|e] eqn:Eac.
  - (* already acyclic: returned as it is *)
    split; [discriminate|]. intros h Hh. inversion Hh; subst h.
    pose proof (proj1 (is_acyclic_directed_lemma g comp1 true Hwf Hc1 Eac) eq_refl) as Hno.
    split; auto. split; [|split].
    + intros u v Huv. split; auto. intros E. subst v. apply Hno. exists [u].
      split; [discriminate|]. split; [constructor; [intros []|constructor]|]. simpl. auto.
    + intros c Hc. apply Hno. exists c. exact Hc.
    + intros r v Hr Hrv. exists r. auto.
  - destruct (negb (forallb (fun r => r <? length g) root)) eqn:Eroot; [split; [discriminate|intros h Hh; discriminate]|].
    destruct (sumn (map (fun r => length (row g r)) root) =? 0); [split; [discriminate|intros h Hh; discriminate]|].
    apply negb_false_iff in Eroot. rewrite forallb_forall in Eroot.
    destruct (bfs_exact g0 (one_hot (length g) root)) as [dist [Hb _]]; [rewrite one_hot_length; auto|].
    rewrite Hb. cbv beta iota. pose proof Hc2 as [Hlen2 _]. fold g0 in Hlen2.
    destruct (labels_total comp2 dist (labels_of comp2) g0 Hlen2) as [h Hh]. rewrite Hh.
    split; [discriminate|]. intros h' Eh. inversion Eh; subst h'. clear Eh.
    pose proof (labels_frame _ _ _ _ _ Hh) as [[Lh Sh] _].
    split; [congruence|]. split; [|split].
    + intros u v Huv. apply Sh in Huv. apply drop_loops_edge in Huv. exact Huv.
    + apply (dir_loop_acyclic g0 comp2 dist h); auto.
      intros u Huu. apply drop_loops_edge in Huu. destruct Huu as [_ N]. apply N. reflexivity.
    + intros r v Hr Hrv. rewrite <- Hl0 in Hb.
      apply (dir_loop_reach g0 root comp2 dist h Hwf0 Hc2 Hb Hh r v Hr).
      * rewrite Hl0. apply Nat.ltb_lt. apply Eroot. exact Hr.
      * apply reach_drop_loops. exact Hrv.
  - exfalso. unfold is_acyclic in Eac. cbn [resolve_directed] in Eac. destruct (has_loops g); discriminate.
Qed.

(** For admissible roots (in range, with an outgoing edge) the model answers [Ok]. *)
Theorem break_cycles_directed_total_lemma
        (vo : bool) (g : graph) (root : list nat) (directed : option bool) (comp1 comp2 : list nat) :
  resolve_directed g directed = Ok true -> length comp2 = length g ->
  (forall r, In r root -> r < length g) -> 0 < out_degree g root ->
  exists h, break_cycles vo g root directed comp1 comp2 = Ok h.
Proof.
  intros Hres Hlen Hroot Hdeg. rewrite (break_cycles_dir_unfold vo g root directed comp1 comp2 Hres).
  rewrite (is_acyclic_flag g directed comp1 Hres). unfold is_acyclic. cbn [resolve_directed].
  assert (Hex : forall b : bool, exists h, match (Ok b : result bool) with
    | Err e => Err e | Ok true => Ok g
    | Ok false =>
      if negb (forallb (fun r => r <? length g) root) then Err IndexError
      else if sumn (map (fun r => length (row g r)) root) =? 0 then Err ValueError
      else match bfs (drop_loops g) (one_hot (length g) root) with
           | None => Err OutOfFuel
           | Some dist =>
               match ofold (lstep comp2 dist) (labels_of comp2) (Some (drop_loops g)) with
               | Some r => Ok r
               | None => Err OutOfFuel
               end
           end end = Ok h).
  { intros [|]; [eexists; reflexivity|].
    assert (E1 : forallb (fun r => r <? length g) root = true).
    { apply forallb_forall. intros r Hr. apply Nat.ltb_lt. auto. }
    rewrite E1. cbn [negb].
    assert (E2 : sumn (map (fun r => length (row g r)) root) =? 0 = false).
    { apply Nat.eqb_neq. unfold out_degree in Hdeg. lia. }
    rewrite E2.
    destruct (bfs_exact (drop_loops g) (one_hot (length g) root)) as [dist [Hb _]];
      [rewrite one_hot_length, drop_loops_length; auto|].
    rewrite Hb. cbv beta iota.
    destruct (labels_total comp2 dist (labels_of comp2) (drop_loops g)) as [h Hh];
      [rewrite drop_loops_length; exact Hlen|].
    rewrite Hh. eexists; reflexivity. }
  destruct (has_loops g); [exact (Hex false)|]. exact (Hex _).
Qed.

(** * The executable contract checker is sound (strong connectivity) — used for non-vacuity *)
Lemma scc_contract_b_sound g comp :
  components_contract_b g true comp = true -> components_contract g true comp.
Proof.
  unfold components_contract_b. cbv zeta. intros H. apply andb_true_iff in H. destruct H as [H1 H2].
  apply Nat.eqb_eq in H1. split; auto. intros u v Hu Hv.
  rewrite forallb_forall in H2. specialize (H2 u (proj2 (nodes_In g u) Hu)).
  rewrite forallb_forall in H2. specialize (H2 v (proj2 (nodes_In g v) Hv)).
  apply Bool.eqb_prop in H2.
  unfold conn_matrix, nodes in H2.
  rewrite (nth_map_seq (fun u => map (fun v =>
      nthb (nth u (map (fun u0 => reach_from g [u0]) (seq 0 (length g))) []) v &&
      nthb (nth v (map (fun u0 => reach_from g [u0]) (seq 0 (length g))) []) u) (seq 0 (length g)))
      (length g) u [] Hu) in H2.
  unfold nthb at 1 in H2.
  rewrite (nth_map_seq (fun v =>
      nthb (nth u (map (fun u0 => reach_from g [u0]) (seq 0 (length g))) []) v &&
      nthb (nth v (map (fun u0 => reach_from g [u0]) (seq 0 (length g))) []) u)
      (length g) v false Hv) in H2.
  rewrite (nth_map_seq (fun u0 => reach_from g [u0]) (length g) u [] Hu) in H2.
  rewrite (nth_map_seq (fun u0 => reach_from g [u0]) (length g) v [] Hv) in H2.
  assert (R : forall a b, a < length g -> b < length g ->
                (nthb (reach_from g [a]) b = true <-> reach (edge g) a b)).
  { intros a b Ha Hb. rewrite (reach_from_iff g [a] b Hb). split.
    - intros [s [[E|[]] [_ Hr]]]. subst. exact Hr.
    - intros Hr. exists a. split; [left; reflexivity | auto]. }
  unfold sconn. rewrite <- (R u v Hu Hv), <- (R v u Hv Hu), <- andb_true_iff, <- H2. symmetry. apply Nat.eqb_eq.
Qed.

(** * Undirected branch *)

Definition Rund (prev : option nat) (path nbrs : list nat) (v : nat) : Prop :=
  In v nbrs /\ is_prev prev v = false /\ In v path.

Lemma bc_scan_und_spec cur prev path : forall nbrs g,
  let r := bc_scan_und cur prev path nbrs g in
  length (fst r) = length g /\
  (forall u v, edge (fst r) u v <->
     edge g u v /\ ~ (u = cur /\ Rund prev path nbrs v) /\ ~ (v = cur /\ Rund prev path nbrs u)) /\
  (forall v, In v (snd r) <-> In v nbrs /\ is_prev prev v = false /\ ~ In v path).
Proof.
  induction nbrs as [|w t IH]; intros g; cbn [bc_scan_und]; cbv zeta.
  - cbn [fst snd]. split; auto. split.
    + intros u v. unfold Rund. simpl. tauto.
    + intros v. simpl. tauto.
  - destruct (is_prev prev w) eqn:Ep; [|destruct (memn w path) eqn:Ew].
    + specialize (IH g). cbv zeta in IH. destruct IH as [L [HE HP]]. split; auto.
      assert (HR : forall v, Rund prev path (w :: t) v <-> Rund prev path t v).
      { intros v. unfold Rund. simpl. split; [|tauto]. intros [[E|H] [A B]]; [subst; congruence | tauto]. }
      split.
      * intros u v. rewrite HE, !HR. tauto.
      * intros v. rewrite HP. simpl. split; [tauto|]. intros [[E|H] [A B]]; [subst; congruence | tauto].
    + apply memn_In in Ew.
      specialize (IH (remove_edge (remove_edge g cur w) w cur)). cbv zeta in IH. destruct IH as [L [HE HP]].
      split; [rewrite L, !remove_edge_length; reflexivity|].
      assert (HR : forall v, Rund prev path (w :: t) v <-> v = w \/ Rund prev path t v).
      { intros v. unfold Rund. simpl. split.
        - intros [[E|H] [A B]]; [left; auto | right; auto].
        - intros [E|[H [A B]]]; [subst; auto | auto]. }
      split.
      * intros u v. rewrite HE, !remove_edge_iff, !HR. split.
        -- intros [[[A B] C] [D F]]. split; auto. split.
           ++ intros [E1 [E2|E2]]; [apply B; auto | apply D; auto].
           ++ intros [E1 [E2|E2]]; [apply C; auto | apply F; auto].
        -- intros [A [B C]]. split; [split; [split; auto|]|split].
           ++ intros [E1 E2]. apply B. auto.
           ++ intros [E1 E2]. apply C. auto.
           ++ intros [E1 E2]. apply B. auto.
           ++ intros [E1 E2]. apply C. auto.
      * intros v. rewrite HP. simpl. split; [tauto|]. intros [[E|H] [A B]]; [subst; contradiction | tauto].
    + assert (Hw : ~ In w path) by (intros H; apply memn_In in H; congruence).
      specialize (IH g). cbv zeta in IH. destruct IH as [L [HE HP]]. cbn [fst snd]. split; auto.
      assert (HR : forall v, Rund prev path (w :: t) v <-> Rund prev path t v).
      { intros v. unfold Rund. simpl. split; [|tauto]. intros [[E|H] [A B]]; [subst; contradiction | tauto]. }
      split.
      * intros u v. rewrite HE, !HR. tauto.
      * intros v. simpl. rewrite HP. split.
        -- intros [E|[A [B C]]]; [subst; auto | auto].
        -- intros [[E|A] [B C]]; [left; auto | right; auto].
Qed.

Definition sym (g : graph) : Prop := forall u v, edge g u v -> edge g v u.

Definition uvisit_step (d : nat) (path : list nat) : graph -> nat -> option graph :=
  fun ga v => bc_visit_und d ga v (path ++ [v]).

Lemma bc_visit_und_unfold d g cur path :
  bc_visit_und (S d) g cur path =
  if edge_gone g path then Some g
  else let r := bc_scan_und cur (prev_of path) path (row g cur) g in
       ofold (uvisit_step d path) (rev (snd r)) (Some (fst r)).
Proof. reflexivity. Qed.

(** The scan as called by [bc_visit_und]: R v = "v is a neighbour of cur on the path, not its predecessor". *)
Definition Rv (g : graph) (path : list nat) (cur v : nat) : Prop :=
  edge g cur v /\ is_prev (prev_of path) v = false /\ In v path.

Lemma uvisit_scan_spec g cur path :
  let r := bc_scan_und cur (prev_of path) path (row g cur) g in
  length (fst r) = length g /\
  (forall u v, edge (fst r) u v <->
     edge g u v /\ ~ (u = cur /\ Rv g path cur v) /\ ~ (v = cur /\ Rv g path cur u)) /\
  (forall v, In v (snd r) <-> edge g cur v /\ ~ In v path).
Proof.
  cbv zeta. destruct (bc_scan_und_spec cur (prev_of path) path (row g cur) g) as [L [HE HP]].
  split; auto. split; [exact HE|].
  intros v. rewrite HP. unfold edge. split; [tauto|]. intros [A B]. split; auto. split; auto.
  apply is_prev_notin. exact B.
Qed.

Lemma Rv_dec g path cur v : {Rv g path cur v} + {~ Rv g path cur v}.
Proof.
  unfold Rv. destruct (edge_dec g cur v) as [A|A]; [|right; tauto].
  destruct (is_prev (prev_of path) v); [right; intros [_ [B _]]; discriminate|].
  destruct (in_dec Nat.eq_dec v path) as [C|C]; [left; auto | right; tauto].
Qed.

Lemma uvisit_sub : forall d g cur path h, bc_visit_und d g cur path = Some h -> sub h g.
Proof.
  induction d as [|d IH]; intros g cur path h H; [discriminate|].
  rewrite bc_visit_und_unfold in H. destruct (edge_gone g path).
  - inversion H; subst. apply sub_refl.
  - cbv zeta in H. destruct (uvisit_scan_spec g cur path) as [L [HE _]]. cbv zeta in L, HE.
    set (g1 := fst (bc_scan_und cur (prev_of path) path (row g cur) g)) in *.
    assert (S1 : sub g1 g) by (split; auto; intros u v Huv; apply HE in Huv; tauto).
    refine (ofold_inv _ (fun a => sub a g) _ g1 h S1 _ H).
    intros x v y _ Hx Hy. unfold uvisit_step in Hy. apply IH in Hy. eapply sub_trans; eauto.
Qed.

(** A call whose last edge has gone returns the graph unchanged. *)
Lemma edge_gone_app g q a b : edge_gone g (q ++ [a; b]) = negb (edgeb g a b).
Proof. unfold edge_gone. rewrite rev_app_distr. reflexivity. Qed.

Lemma uvisit_gone d g q a b h :
  ~ edge g a b -> bc_visit_und d g b (q ++ [a; b]) = Some h -> h = g.
Proof.
  intros N H. destruct d as [|d]; [discriminate|]. rewrite bc_visit_und_unfold, edge_gone_app in H.
  destruct (edgeb g a b) eqn:E; [apply edgeb_true in E; contradiction|]. simpl in H. congruence.
Qed.

Definition ugood (g : graph) (path : list nat) (cur : nat) : Prop :=
  path <> [] /\ last path 0 = cur /\ NoDup path /\ chain (edge g) path.

Definition uframe (path : list nat) (cur : nat) (g h : graph) : Prop :=
  sub h g /\ sym h /\
  (forall u v, edge g u v -> ~ edge h u v -> u = cur \/ v = cur \/ ~ In u path \/ ~ In v path) /\
  (forall a b, reach (edge g) a b -> reach (edge h) a b).

Lemma reach_repair2 (E E' : nat -> nat -> Prop) :
  (forall u v, E u v -> reach E' u v) -> forall a b, reach E a b -> reach E' a b.
Proof.
  intros H a b R. induction R as [a|a x b Hax Hxb IH]; [apply reach_refl|].
  eapply reach_trans; [apply H; exact Hax | exact IH].
Qed.

Lemma chain_consec (E F : nat -> nat -> Prop) : forall p,
  (forall l1 a b l2, p = l1 ++ a :: b :: l2 -> E a b -> F a b) -> chain E p -> chain F p.
Proof.
  induction p as [|x t IH]; intros H Hc; [exact I|].
  apply chain_cons in Hc. destruct Hc as [A B]. apply chain_cons. split.
  - intros Hne. destruct t as [|y t']; [congruence|]. cbn [hd] in *.
    apply (H [] x y t'); [reflexivity|]. apply A. discriminate.
  - apply IH; auto. intros l1 a b l2 E1 Hab. apply (H (x :: l1) a b l2); [rewrite E1; reflexivity | exact Hab].
Qed.

Lemma chain_reach_to_last (E : nat -> nat -> Prop) p v : chain E p -> In v p -> reach E v (last p 0).
Proof.
  intros Hc Hv. destruct (in_split _ _ Hv) as [l1 [l2 Ep]]. subst p.
  apply chain_app in Hc. destruct Hc as [_ [Hc _]]. rewrite last_app_cons. apply chain_reach_last. exact Hc.
Qed.

(** On a duplicate-free path ending in [cur], the only chain edge that touches [cur] enters it from the
    predecessor. *)
Lemma consec_last (path : list nat) l1 a b l2 :
  NoDup path -> path = l1 ++ a :: b :: l2 ->
  a <> last path 0 /\ (b = last path 0 -> is_prev (prev_of path) a = true).
Proof.
  intros Hnd Ep. pose proof Hnd as Hnd'. rewrite Ep in Hnd'. apply NoDup_app_r in Hnd'.
  inversion Hnd' as [|x0 t0 Hni Hnd2]. split.
  - intros Ea. apply Hni.
    assert (El : last path 0 = last (b :: l2) 0) by (rewrite Ep, last_app_cons; reflexivity).
    rewrite Ea, El. apply last_In. discriminate.
  - intros Eb. destruct l2 as [|c l2'].
    + rewrite Ep. rewrite prev_of_app. simpl. apply Nat.eqb_refl.
    + exfalso. inversion Hnd2 as [|x1 t1 Hni2 _]. apply Hni2.
      assert (El : last path 0 = last (c :: l2') 0).
      { rewrite Ep. replace (l1 ++ a :: b :: c :: l2') with ((l1 ++ [a; b]) ++ c :: l2') by (rewrite <- app_assoc; reflexivity).
        apply last_app_cons. }
      rewrite Eb, El. apply last_In. discriminate.
Qed.

Lemma ugood_last_in g path cur : ugood g path cur -> In cur path.
Proof. intros [Hne [Hl _]]. rewrite <- Hl. apply last_In. exact Hne. Qed.

Lemma uscan_good g path cur :
  ugood g path cur -> ugood (fst (bc_scan_und cur (prev_of path) path (row g cur) g)) path cur.
Proof.
  intros Hg. destruct (uvisit_scan_spec g cur path) as [L [HE HP]]. cbv zeta in L, HE, HP.
  pose proof Hg as [Hne [Hl [Hnd Hc]]]. split; auto. split; auto. split; auto.
  eapply chain_consec; [|exact Hc]. intros l1 a b l2 Ep Hab.
  destruct (consec_last path l1 a b l2 Hnd Ep) as [Na Nb]. rewrite Hl in Na, Nb.
  apply HE. split; auto. split.
  - intros [E _]. contradiction.
  - intros [E [_ [P _]]]. rewrite (Nb E) in P. discriminate.
Qed.

Definition ukids_inv (path : list nat) (g1 a : graph) : Prop :=
  sub a g1 /\ sym a /\
  (forall u v, edge g1 u v -> ~ edge a u v -> ~ In u path \/ ~ In v path) /\
  (forall p q, reach (edge g1) p q -> reach (edge a) p q).

Lemma ukids_good path cur g1 x c :
  ugood g1 path cur -> ukids_inv path g1 x -> edge x cur c -> ~ In c path -> ugood x (path ++ [c]) c.
Proof.
  intros [Hne [Hl [Hnd Hc]]] [Sx [_ [Fx _]]] Ecx C3. split; [destruct path; discriminate|].
  split; [apply last_last|]. split.
  - apply NoDup_app_intro; auto; [constructor; [intros []|constructor]|].
    intros z Hz [Hz'|[]]. subst. contradiction.
  - apply chain_app. split; [|split; [simpl; auto|]].
    + eapply chain_mono_In; [|exact Hc]. intros a b Ha Hb Hab.
      destruct (edge_dec x a b) as [Y|N]; auto. destruct (Fx a b Hab N); contradiction.
    + intros _ _. cbn [hd]. rewrite Hl. exact Ecx.
Qed.

Lemma ukids_step path g1 x c y :
  ~ In c path -> ukids_inv path g1 x -> uframe (path ++ [c]) c x y -> ukids_inv path g1 y.
Proof.
  intros C3 [Sx [Yx [Fx Rx]]] [Sy [Yy [Fy Ry]]].
  split; [eapply sub_trans; eauto|]. split; auto. split.
  - intros u v A B. destruct (edge_dec x u v) as [Y|N]; [|apply Fx; auto].
    destruct (Fy u v Y B) as [E|[E|[E|E]]].
    + left. subst u. exact C3.
    + right. subst v. exact C3.
    + left. intros Hu. apply E. apply in_or_app. left. exact Hu.
    + right. intros Hv. apply E. apply in_or_app. left. exact Hv.
  - intros p q Hpq. apply Ry. apply Rx. exact Hpq.
Qed.

Lemma path_split_last (path : list nat) cur : path <> [] -> last path 0 = cur -> path = removelast path ++ [cur].
Proof. intros Hne Hl. rewrite <- Hl. apply app_removelast_last. exact Hne. Qed.

Lemma uvisit_frame : forall d g cur path h,
  sym g -> ugood g path cur -> bc_visit_und d g cur path = Some h -> uframe path cur g h.
Proof.
  induction d as [|d IH]; intros g cur path h Hsym Hg H; [discriminate|].
  rewrite bc_visit_und_unfold in H. destruct (edge_gone g path).
  { inversion H; subst. split; [apply sub_refl|]. split; [exact Hsym|]. split; [intros u v A B; contradiction | auto]. }
  cbv zeta in H. destruct (uvisit_scan_spec g cur path) as [L [HE HP]]. cbv zeta in L, HE, HP.
  pose proof (uscan_good g path cur Hg) as Hg1.
  set (r := bc_scan_und cur (prev_of path) path (row g cur) g) in *.
  set (g1 := fst r) in *.
  pose proof Hg as [Hne [Hl [Hnd Hc]]].
  pose proof (ugood_last_in _ _ _ Hg) as Hcur.
  assert (SA : sub g1 g) by (split; auto; intros u v Huv; apply HE in Huv; tauto).
  assert (YA : sym g1).
  { intros u v Huv. apply HE in Huv. destruct Huv as [A [B C]]. apply HE. split; auto. }
  assert (FA : forall u v, edge g u v -> ~ edge g1 u v ->
                 (u = cur /\ Rv g path cur v) \/ (v = cur /\ Rv g path cur u)).
  { intros u v A B.
    destruct (Nat.eq_dec u cur) as [E1|E1]; [destruct (Rv_dec g path cur v) as [R1|R1]; [left; auto|]|];
    (destruct (Nat.eq_dec v cur) as [E2|E2]; [destruct (Rv_dec g path cur u) as [R2|R2]; [right; auto|]|]);
    exfalso; apply B; apply HE; split; auto; tauto. }
  assert (Hto : forall v, In v path -> reach (edge g1) v cur).
  { intros v Hv. destruct Hg1 as [_ [_ [_ Hc1]]]. rewrite <- Hl. apply chain_reach_to_last; auto. }
  assert (RA : forall p q, reach (edge g) p q -> reach (edge g1) p q).
  { apply reach_repair2. intros u v Huv. destruct (edge_dec g1 u v) as [Y|N]; [apply reach_one; exact Y|].
    destruct (FA u v Huv N) as [[E [_ [_ P]]]|[E [_ [_ P]]]]; subst.
    - apply reach_sym; [exact YA|]. apply Hto. exact P.
    - apply Hto. exact P. }
  assert (HI : ukids_inv path g1 h).
  { refine (ofold_inv _ (ukids_inv path g1) _ g1 h _ _ H).
    - split; [apply sub_refl|]. split; [exact YA|]. split; [intros u v A B; contradiction | auto].
    - intros x c y Hc' Ix Hy. apply in_rev in Hc'. apply HP in Hc'. destruct Hc' as [C1 C3].
      unfold uvisit_step in Hy. destruct (edge_dec x cur c) as [Y|N].
      + pose proof (ukids_good path cur g1 x c Hg1 Ix Y C3) as Hgc.
        destruct Ix as [Sx [Yx [Fx Rx]]].
        eapply ukids_step; eauto. split; auto.
      + rewrite (path_split_last path cur Hne Hl), <- app_assoc in Hy. cbn [app] in Hy.
        apply uvisit_gone in Hy; auto. subst y. exact Ix. }
  destruct HI as [Sh [Yh [Fh Rh]]].
  split; [eapply sub_trans; eauto|]. split; auto. split.
  - intros u v A B. destruct (edge_dec g1 u v) as [Y|N].
    + right. right. apply Fh; auto.
    + destruct (FA u v A N) as [[E _]|[E _]]; auto.
  - intros p q Hpq. apply Rh. apply RA. exact Hpq.
Qed.

Lemma uvisit_total : forall d g cur path,
  wf_graph g -> NoDup path -> (forall x, In x path -> x < length g) -> length g < d + length path ->
  exists h, bc_visit_und d g cur path = Some h.
Proof.
  induction d as [|d IH]; intros g cur path Hwf Hnd Hlt Hd.
  { assert (Hincl : incl path (seq 0 (length g))) by (intros x Hx; apply in_seq; specialize (Hlt x Hx); lia).
    pose proof (NoDup_incl_length Hnd Hincl) as H. rewrite seq_length in H. lia. }
  rewrite bc_visit_und_unfold. destruct (edge_gone g path); [eexists; reflexivity|].
  cbv zeta. destruct (uvisit_scan_spec g cur path) as [L [HE HP]]. cbv zeta in L, HE, HP.
  set (r := bc_scan_und cur (prev_of path) path (row g cur) g) in *.
  set (g1 := fst r) in *.
  assert (SA : sub g1 g) by (split; auto; intros u v Huv; apply HE in Huv; tauto).
  apply (ofold_total _ (fun a => sub a g)); [exact SA|].
  intros x c Hc' Sx. apply in_rev in Hc'. apply HP in Hc'. destruct Hc' as [C1 C3].
  assert (Lx : length x = length g) by (destruct Sx; auto).
  destruct (IH x c (path ++ [c])) as [y Hy].
  - eapply wf_sub; eauto.
  - apply NoDup_app_intro; auto; [constructor; [intros []|constructor]|].
    intros z Hz [Hz'|[]]. subst. contradiction.
  - intros z Hz. rewrite Lx. apply in_app_or in Hz. destruct Hz as [Hz|[Hz|[]]]; auto. subst z. eapply Hwf; eauto.
  - rewrite app_length, Lx. simpl. lia.
  - exists y. split; auto. unfold uvisit_step. apply uvisit_sub in Hy. eapply sub_trans; eauto.
Qed.

Lemma ofold_uvisit_sub d path l a h : ofold (uvisit_step d path) l (Some a) = Some h -> sub h a.
Proof.
  intros H. refine (ofold_inv _ (fun x => sub x a) _ a h (sub_refl a) _ H).
  intros x v y _ Hx Hy. unfold uvisit_step in Hy. apply uvisit_sub in Hy. eapply sub_trans; eauto.
Qed.

Lemma uvisit_complete : forall d g cur path h,
  path <> [] -> last path 0 = cur -> bc_visit_und d g cur path = Some h ->
  forall h', sub h' h -> forall ext,
    chain (edge h') (path ++ ext) -> NoDup (path ++ ext) ->
    forall v, In v (path ++ ext) -> is_prev (prev_of (path ++ ext)) v = false ->
              ~ edge h' (last (path ++ ext) 0) v.
Proof.
  induction d as [|d IH]; intros g cur path h Hne Hl H h' Hs ext Hch Hnd v Hv Hvp Hedge; [discriminate|].
  rewrite bc_visit_und_unfold in H. destruct (edge_gone g path) eqn:Egone.
  { inversion H; subst h. apply edge_gone_spec in Egone. destruct Egone as [q [a [b [Ep Nab]]]].
    apply Nab. apply Hs. rewrite Ep in Hch. rewrite <- !app_assoc in Hch.
    apply chain_app in Hch. destruct Hch as [_ [Hch _]]. simpl in Hch. tauto. }
  cbv zeta in H. destruct (uvisit_scan_spec g cur path) as [L [HE HP]]. cbv zeta in L, HE, HP.
  set (r := bc_scan_und cur (prev_of path) path (row g cur) g) in *.
  set (g1 := fst r) in *.
  pose proof (ofold_uvisit_sub _ _ _ _ _ H) as Sh1.
  assert (S1 : forall u w, edge h' u w -> edge g1 u w).
  { intros u w A. apply Sh1. apply Hs. exact A. }
  destruct ext as [|c ext'].
  - rewrite app_nil_r in *. rewrite Hl in Hedge. apply S1 in Hedge. apply HE in Hedge.
    destruct Hedge as [A [B _]]. apply B. split; auto. split; auto.
  - assert (Ec : edge h' cur c).
    { apply chain_app in Hch. destruct Hch as [_ [_ Hlink]]. rewrite Hl in Hlink. apply Hlink; [exact Hne | discriminate]. }
    assert (Cp : ~ In c path).
    { intros Hin. eapply (NoDup_app_disjoint path (c :: ext') c); eauto. left; reflexivity. }
    assert (Hpush : In c (rev (snd r))).
    { apply in_rev. rewrite rev_involutive. apply HP. split; [|auto].
      apply S1 in Ec. apply HE in Ec. tauto. }
    destruct (in_split _ _ Hpush) as [l1 [l2 El]]. rewrite El in H.
    destruct (ofold_split _ _ _ _ _ _ H) as [x [y [H1 [H2 H3]]]].
    unfold uvisit_step in H2. apply ofold_uvisit_sub in H3.
    assert (Epath : (path ++ [c]) ++ ext' = path ++ c :: ext') by (rewrite <- app_assoc; reflexivity).
    refine (IH x c (path ++ [c]) y _ (last_last _ _ _) H2 h' (sub_trans _ _ _ Hs H3) ext' _ _ v _ _ _).
    + destruct path; discriminate.
    + rewrite Epath. exact Hch.
    + rewrite Epath. exact Hnd.
    + rewrite Epath. exact Hv.
    + rewrite Epath. exact Hvp.
    + rewrite Epath. exact Hedge.
Qed.

Lemma NoDup_app_l {A} (l l' : list A) : NoDup (l ++ l') -> NoDup l.
Proof.
  induction l as [|x t IH]; intros H; [constructor|]. simpl in H. inversion H as [|? ? Hx Ht]; subst.
  constructor; auto. intros Hin. apply Hx. apply in_or_app. left. exact Hin.
Qed.

Lemma two_last (l : list nat) : 2 <= length l -> exists l0 a b, l = l0 ++ [a; b].
Proof.
  intros H. destruct (rev l) as [|b [|a r]] eqn:E.
  - apply (f_equal (@length nat)) in E. rewrite rev_length in E. simpl in E. lia.
  - apply (f_equal (@length nat)) in E. rewrite rev_length in E. simpl in E. lia.
  - exists (rev r), a, b. rewrite <- (rev_involutive l), E. simpl. rewrite <- app_assoc. reflexivity.
Qed.

(** Undirected version: if no duplicate-free path from [s] has an edge from its last node back to a
    path node other than the predecessor, then no simple cycle on >= 3 nodes is reachable from [s]. *)
Lemma no_back_edge_no_ucycle (h : graph) (s : nat) (c : list nat) :
  (forall ext v, chain (edge h) ([s] ++ ext) -> NoDup ([s] ++ ext) -> In v ([s] ++ ext) ->
                 is_prev (prev_of ([s] ++ ext)) v = false -> ~ edge h (last ([s] ++ ext) 0) v) ->
  simple_cycle (edge h) c -> 3 <= length c -> reach (edge h) s (hd 0 c) -> False.
Proof.
  intros NB Hcy Hlen Hr.
  destruct (reach_spath _ _ _ Hr) as [p [P1 [P2 [P3 [P4 P5]]]]].
  assert (Hx0 : In (hd 0 c) c) by (destruct c; [simpl in Hlen; lia | left; reflexivity]).
  destruct (split_first_in c p) as [p1 [z [p2 [Ep [Hz Hp1]]]]].
  { exists (hd 0 c). split; auto. rewrite <- P2. apply last_In. exact P3. }
  destruct (in_split z c Hz) as [l1 [l2 Ec]].
  pose proof (simple_cycle_rot (edge h) (length l1) c Hcy) as Hrot.
  assert (Erot : rot (length l1) c = z :: l2 ++ l1).
  { unfold rot. rewrite Ec, skipn_app_exact, firstn_app_exact. reflexivity. }
  assert (Hperm : forall x, In x (z :: l2 ++ l1) -> In x c).
  { intros x Hx. rewrite <- Erot in Hx. eapply Permutation_in; [apply rot_perm | exact Hx]. }
  rewrite Erot in Hrot. destruct Hrot as [_ [Hnd' Hch']].
  destruct (two_last (l2 ++ l1)) as [t0 [a [b Et]]].
  { rewrite Ec in Hlen. rewrite app_length in *. simpl in Hlen. lia. }
  rewrite Et in *.
  (* the path: prefix up to the first cycle node, then once around the cycle *)
  set (Q := p1 ++ z :: t0 ++ [a; b]).
  assert (HQs : exists ext, Q = [s] ++ ext).
  { unfold Q. destruct p1 as [|q0 p1']; rewrite Ep in P1; simpl in P1; subst.
    - eexists; reflexivity.
    - eexists; reflexivity. }
  destruct HQs as [ext EQ].
  assert (Hch1 : chain (edge h) (z :: t0 ++ [a; b]) /\ edge h b z).
  { change ((z :: t0 ++ [a; b]) ++ [hd 0 (z :: t0 ++ [a; b])]) with ((z :: t0 ++ [a; b]) ++ [z]) in Hch'.
    apply chain_app in Hch'. destruct Hch' as [A [_ B]]. split; auto.
    specialize (B ltac:(discriminate) ltac:(discriminate)). cbn [hd] in B.
    replace (last (z :: t0 ++ [a; b]) 0) with b in B; auto.
    change (z :: t0 ++ [a; b]) with ((z :: t0) ++ [a; b]). rewrite last_app_cons. reflexivity. }
  destruct Hch1 as [Hch1 Hbz].
  assert (HQc : chain (edge h) Q).
  { unfold Q. rewrite Ep in P5. apply chain_app in P5. destruct P5 as [A [_ B]].
    apply chain_app. split; auto. split; auto. intros H1 _. apply B; [exact H1 | discriminate]. }
  assert (HQn : NoDup Q).
  { unfold Q. apply NoDup_app_intro; auto.
    - rewrite Ep in P4. apply NoDup_app_l in P4. exact P4.
    - intros x Hx Hx'. apply (Hp1 x Hx). apply Hperm. exact Hx'. }
  assert (HQl : last Q 0 = b).
  { unfold Q. replace (p1 ++ z :: t0 ++ [a; b]) with ((p1 ++ z :: t0) ++ [a; b]) by (rewrite <- app_assoc; reflexivity).
    rewrite last_app_cons. reflexivity. }
  assert (HQp : is_prev (prev_of Q) z = false).
  { unfold Q. replace (p1 ++ z :: t0 ++ [a; b]) with ((p1 ++ z :: t0) ++ [a; b]) by (rewrite <- app_assoc; reflexivity).
    rewrite prev_of_app. simpl. apply Nat.eqb_neq. intros E. subst a.
    inversion Hnd' as [|? ? Hni _]. apply Hni. apply in_or_app. right. left. reflexivity. }
  apply (NB ext z); rewrite <- EQ; auto.
  - unfold Q. apply in_or_app. right. left. reflexivity.
  - rewrite HQl. exact Hbz.
Qed.

(** * The loop over the start nodes *)

Definition ustarts (vo : bool) (comp root : list nat) : list nat :=
  if vo then root ++ other_starts comp root else root.
Definition ustep (n : nat) : graph -> nat -> option graph := fun ga s => bc_visit_und (S n) ga s [s].

Lemma break_cycles_und_unfold vo g root directed comp1 comp2 :
  resolve_directed g directed = Ok false ->
  break_cycles vo g root directed comp1 comp2 =
  match is_acyclic g directed comp1 with
  | Err e => Err e
  | Ok true => Ok g
  | Ok false =>
      if negb (forallb (fun r => r <? length g) root) then Err IndexError
      else if sumn (map (fun r => length (row g r)) root) =? 0 then Err ValueError
      else match ofold (ustep (length g)) (ustarts vo comp2 root) (Some (drop_loops g)) with
           | Some r => Ok r
           | None => Err OutOfFuel
           end
  end.
Proof.
  intros H. unfold break_cycles. destruct (is_acyclic g directed comp1) as [[|]|]; auto.
  destruct (negb (forallb (fun r => r <? length g) root)); auto.
  destruct (sumn (map (fun r => length (row g r)) root) =? 0); auto.
  rewrite H. reflexivity.
Qed.

Definition uloop_inv (g0 a : graph) : Prop :=
  sub a g0 /\ sym a /\ forall p q, reach (edge g0) p q -> reach (edge a) p q.

Lemma ugood_single g s : ugood g [s] s.
Proof.
  split; [discriminate|]. split; [reflexivity|]. split; [constructor; [intros []|constructor] | simpl; auto].
Qed.

Lemma uloop_frame n starts (g0 h : graph) :
  sym g0 -> ofold (ustep n) starts (Some g0) = Some h -> uloop_inv g0 h.
Proof.
  intros Hsym H. refine (ofold_inv _ (uloop_inv g0) _ g0 h _ _ H).
  - split; [apply sub_refl|]. split; auto.
  - intros x s y _ [Sx [Yx Rx]] Hy. unfold ustep in Hy.
    destruct (uvisit_frame _ _ _ _ _ Yx (ugood_single x s) Hy) as [Sy [Yy [_ Ry]]].
    split; [eapply sub_trans; eauto|]. split; auto.
Qed.

Lemma uloop_total n starts (g0 : graph) :
  wf_graph g0 -> (forall s, In s starts -> s < length g0) -> length g0 <= n ->
  exists h, ofold (ustep n) starts (Some g0) = Some h.
Proof.
  intros Hwf Hs Hn. apply (ofold_total _ (fun a => sub a g0)); [apply sub_refl|].
  intros x s Hin Sx. assert (Lx : length x = length g0) by (destruct Sx; auto).
  destruct (uvisit_total (S n) x s [s]) as [y Hy].
  - eapply wf_sub; eauto.
  - constructor; [intros []|constructor].
  - intros z [Hz|[]]. subst. rewrite Lx. auto.
  - simpl. lia.
  - exists y. split; auto. apply uvisit_sub in Hy. eapply sub_trans; eauto.
Qed.

Lemma uloop_no_cycle n starts (g0 h : graph) s c :
  sym g0 -> ofold (ustep n) starts (Some g0) = Some h -> In s starts ->
  simple_cycle (edge h) c -> 3 <= length c -> reach (edge g0) s (hd 0 c) -> False.
Proof.
  intros Hsym H Hs Hcy Hlen Hr. destruct (in_split _ _ Hs) as [S1 [S2 ES]]. rewrite ES in H.
  destruct (ofold_split _ _ _ _ _ _ H) as [ga [gb [H1 [H2 H3]]]].
  destruct (uloop_frame _ _ _ _ Hsym H1) as [Sa [Ya Ra]].
  unfold ustep in H2.
  destruct (uvisit_frame _ _ _ _ _ Ya (ugood_single ga s) H2) as [Sb [Yb [_ Rb]]].
  destruct (uloop_frame _ _ _ _ Yb H3) as [Sh _].
  apply (no_back_edge_no_ucycle gb s c); auto.
  - intros ext v A B C D.
    exact (uvisit_complete _ ga s [s] gb ltac:(discriminate) eq_refl H2 gb (sub_refl gb) ext A B v C D).
  - eapply simple_cycle_ext; [|exact Hcy]. apply Sh.
Qed.

(** With [visit_others] every component contains a start node. *)
Lemma starts_cover comp root x :
  x < length comp -> (forall r, In r root -> r < length comp) ->
  exists s, In s (ustarts true comp root) /\ s < length comp /\ nthn comp s = nthn comp x.
Proof.
  intros Hx Hroot. unfold ustarts. set (l := nthn comp x).
  destruct (memn l (map (nthn comp) root)) eqn:E.
  - apply memn_In in E. apply in_map_iff in E. destruct E as [r [Er Hr]]. exists r.
    split; [apply in_or_app; left; exact Hr|]. split; auto.
  - assert (Hl : In l comp) by (apply nthn_In; exact Hx).
    destruct (first_with_label_spec comp l Hl) as [A B].
    exists (first_with_label comp l). split; [|split; auto].
    apply in_or_app. right. unfold other_starts. apply in_map. apply filter_In. split.
    + apply np_unique_In. exact Hl.
    + fold l. rewrite E. reflexivity.
Qed.

Lemma other_starts_lt comp root s : In s (other_starts comp root) -> s < length comp.
Proof.
  unfold other_starts. intros H. apply in_map_iff in H. destruct H as [l [El Hl]]. subst s.
  apply filter_In in Hl. destruct Hl as [Hl _]. apply (proj1 (np_unique_In comp l)) in Hl.
  apply (first_with_label_spec comp l Hl).
Qed.

Lemma drop_loops_sym g : sym g -> sym (drop_loops g).
Proof. intros H u v Huv. apply drop_loops_edge in Huv. apply drop_loops_edge. destruct Huv. split; auto. Qed.

(** * break_cycles, undirected branch: the general theorem *)

Theorem break_cycles_undirected_correct_lemma
        (vo : bool) (g : graph) (root : list nat) (directed : option bool) (comp1 comp2 : list nat) :
  wf_graph g -> (forall u, NoDup (row g u)) ->
  resolve_directed g directed = Ok false ->
  components_contract g false comp1 ->
  components_contract (drop_loops g) false comp2 ->
  break_cycles vo g root directed comp1 comp2 <> Err OutOfFuel /\
  forall h, break_cycles vo g root directed comp1 comp2 = Ok h ->
    length h = length g /\
    (forall u v, edge h u v -> edge g u v /\ u <> v) /\
    (forall u v, edge h u v -> edge h v u) /\
    (forall c s, ucycle h c -> In s (ustarts vo comp2 root) -> ~ reach (edge g) s (hd 0 c)) /\
    (vo = true -> forall c, ~ ucycle h c) /\
    (forall a b, reach (edge g) a b -> reach (edge h) a b).
Proof.
  intros Hwf Hrows Hres Hc1 Hc2.
  rewrite (break_cycles_und_unfold vo g root directed comp1 comp2 Hres).
  pose proof (proj1 (is_symmetric_spec g) (resolve_directed_false g directed Hres)) as Hsym.
  set (g0 := drop_loops g).
  assert (Hwf0 : wf_graph g0) by (apply (wf_sub g0 g Hwf); apply drop_loops_sub).
  assert (Hl0 : length g0 = length g) by apply drop_loops_length.
  assert (Hsym0 : sym g0) by (apply drop_loops_sym; exact Hsym).
  destruct (is_acyclic g directed comp1) as [[|]|e] eqn:Eac.
  - split; [discriminate|]. intros h Hh. inversion Hh; subst h.
    pose proof (proj1 (is_acyclic_undirected_lemma g directed comp1 true Hwf Hrows Hc1 Hres Eac) eq_refl) as Hno.
    split; auto. split; [|split; [exact Hsym|split; [|split]]].
    + intros u v Huv. split; auto. intros E. subst v. apply Hno. exists [u]. split; [|simpl; lia].
      split; [discriminate|]. split; [constructor; [intros []|constructor]|]. simpl. auto.
    + intros c s Hc. exfalso. apply Hno. exists c. exact Hc.
    + intros _ c Hc. apply Hno. exists c. exact Hc.
    + auto.
  - destruct (negb (forallb (fun r => r <? length g) root)) eqn:Eroot; [split; [discriminate|intros h Hh; discriminate]|].
    destruct (sumn (map (fun r => length (row g r)) root) =? 0); [split; [discriminate|intros h Hh; discriminate]|].
    apply negb_false_iff in Eroot. rewrite forallb_forall in Eroot.
    assert (Hroot : forall r, In r root -> r < length g) by (intros r Hr; apply Nat.ltb_lt; auto).
    pose proof Hc2 as [Hlen2 Hcc2]. fold g0 in Hlen2, Hcc2.
    destruct (uloop_total (length g) (ustarts vo comp2 root) g0 Hwf0) as [h Hh].
    { intros s Hs. unfold ustarts in Hs. destruct vo; [apply in_app_or in Hs; destruct Hs as [Hs|Hs]|].
      - rewrite Hl0. auto.
      - rewrite <- Hlen2. eapply other_starts_lt; eauto.
      - rewrite Hl0. auto. }
    { lia. }
    rewrite Hh. split; [discriminate|]. intros h' Eh. inversion Eh; subst h'. clear Eh.
    destruct (uloop_frame _ _ _ _ Hsym0 Hh) as [[Lh Sh] [Yh Rh]].
    assert (Hgen : forall c s, ucycle h c -> In s (ustarts vo comp2 root) -> ~ reach (edge g0) s (hd 0 c)).
    { intros c s [Hcy Hn2] Hs Hr.
      assert (Hlen : 3 <= length c).
      { destruct c as [|x [|y [|z t]]]; simpl in *; try lia.
        - destruct Hcy as [Hn _]. congruence.
        - destruct Hcy as [_ [_ Hch]]. simpl in Hch. destruct Hch as [Hxx _]. apply Sh in Hxx.
          apply drop_loops_edge in Hxx. tauto. }
      exact (uloop_no_cycle _ _ _ _ s c Hsym0 Hh Hs Hcy Hlen Hr). }
    split; [congruence|]. split; [|split; [exact Yh|split; [|split]]].
    + intros u v Huv. apply Sh in Huv. apply drop_loops_edge in Huv. exact Huv.
    + intros c s Hc Hs Hr. apply (Hgen c s Hc Hs). apply reach_drop_loops. exact Hr.
    + intros Evo c Hc. subst vo. pose proof Hc as [[Hne [_ Hch]] _].
      destruct c as [|x t]; [congruence|].
      (* x has an outgoing edge of h, hence is a node *)
      assert (Hx : x < length g0).
      { rewrite <- Lh. destruct t as [|y t'].
        - simpl in Hch. eapply row_nonempty_lt. apply (proj1 Hch).
        - simpl in Hch. eapply row_nonempty_lt. apply (proj1 Hch). }
      destruct (starts_cover comp2 root x) as [s [Hs [Hsl Es]]]; [lia | intros r Hr; rewrite Hlen2, Hl0; auto |].
      apply (Hgen (x :: t) s Hc Hs). cbn [hd].
      assert (Hw : wconn g0 s x) by (apply (Hcc2 s x); [lia | exact Hx | exact Es]).
      eapply reach_mono; [|exact Hw]. intros a b [A|A]; auto.
    + intros a b Hab. apply Rh. apply reach_drop_loops. exact Hab.
  - exfalso. unfold is_acyclic in Eac. rewrite Hres in Eac. destruct (has_loops g); discriminate.
Qed.

Theorem break_cycles_undirected_total_lemma
        (vo : bool) (g : graph) (root : list nat) (directed : option bool) (comp1 comp2 : list nat) :
  wf_graph g -> resolve_directed g directed = Ok false -> length comp2 = length g ->
  (forall r, In r root -> r < length g) -> 0 < out_degree g root ->
  exists h, break_cycles vo g root directed comp1 comp2 = Ok h.
Proof.
  intros Hwf Hres Hlen Hroot Hdeg. rewrite (break_cycles_und_unfold vo g root directed comp1 comp2 Hres).
  destruct (is_acyclic g directed comp1) as [[|]|e] eqn:Eac.
  - eexists; reflexivity.
  - assert (E1 : forallb (fun r => r <? length g) root = true).
    { apply forallb_forall. intros r Hr. apply Nat.ltb_lt. auto. }
    rewrite E1. cbn [negb].
    assert (E2 : sumn (map (fun r => length (row g r)) root) =? 0 = false).
    { apply Nat.eqb_neq. unfold out_degree in Hdeg. lia. }
    rewrite E2.
    destruct (uloop_total (length g) (ustarts vo comp2 root) (drop_loops g)) as [h Hh].
    + apply (wf_sub _ g Hwf). apply drop_loops_sub.
    + intros s Hs. rewrite drop_loops_length. unfold ustarts in Hs.
      destruct vo; [apply in_app_or in Hs; destruct Hs as [Hs|Hs]|]; auto.
      rewrite <- Hlen. eapply other_starts_lt; eauto.
    + rewrite drop_loops_length. lia.
    + rewrite Hh. eexists; reflexivity.
  - exfalso. unfold is_acyclic in Eac. rewrite Hres in Eac. destruct (has_loops g); discriminate.
Qed.

(** * The executable contract checker is sound (weak connectivity) — used for non-vacuity *)
Lemma symmetrise_length g : length (symmetrise g) = length g.
Proof. unfold symmetrise, nodes. rewrite map_length, seq_length. reflexivity. Qed.

Lemma symmetrise_edge g u v : wf_graph g -> (edge (symmetrise g) u v <-> sedge g u v).
Proof.
  intros Hwf. unfold sedge. unfold edge at 1. destruct (Nat.lt_ge_cases u (length g)) as [Hu|Hu].
  - unfold symmetrise, nodes. unfold row at 1.
    rewrite (nth_map_seq (fun u => row g u ++ filter (fun v => edgeb g v u) (seq 0 (length g))) (length g) u [] Hu).
    rewrite in_app_iff, filter_In, in_seq, edgeb_true. unfold edge. split; [tauto|].
    intros [A|A]; auto. right. split; auto. pose proof (row_nonempty_lt _ _ _ A). lia.
  - rewrite row_oob by (rewrite symmetrise_length; exact Hu). unfold edge. rewrite (row_oob g u Hu). simpl.
    split; [tauto|]. intros [[]|A]. apply Hwf in A. lia.
Qed.

Lemma wcc_contract_b_sound g comp :
  wf_graph g -> components_contract_b g false comp = true -> components_contract g false comp.
Proof.
  intros Hwf. unfold components_contract_b. cbv zeta. intros H. apply andb_true_iff in H. destruct H as [H1 H2].
  apply Nat.eqb_eq in H1. split; auto. intros u v Hu Hv.
  rewrite forallb_forall in H2. specialize (H2 u (proj2 (nodes_In g u) Hu)).
  rewrite forallb_forall in H2. specialize (H2 v (proj2 (nodes_In g v) Hv)).
  apply Bool.eqb_prop in H2. unfold conn_matrix, nodes in H2.
  rewrite (nth_map_seq (fun u0 => reach_from (symmetrise g) [u0]) (length g) u [] Hu) in H2.
  assert (R : nthb (reach_from (symmetrise g) [u]) v = true <-> wconn g u v).
  { rewrite (reach_from_iff (symmetrise g) [u] v) by (rewrite symmetrise_length; exact Hv). unfold wconn. split.
    - intros [s [[E|[]] [_ Hr]]]. subst. eapply reach_mono; [|exact Hr]. intros a b. apply symmetrise_edge. exact Hwf.
    - intros Hr. exists u. split; [left; reflexivity|]. split; [rewrite symmetrise_length; exact Hu|].
      eapply reach_mono; [|exact Hr]. intros a b. apply symmetrise_edge. exact Hwf. }
  rewrite <- R, <- H2. symmetry. apply Nat.eqb_eq.
Qed.

(** C19, first clause, about the terms regenerated from sknetwork/gnn/layer.py (Gen/NpConv.v, language and semantics of
    Model/NpVec.v), over R: for every adjacency matrix, feature matrix, weight matrix and bias (as index functions), every
    normalisation and both boolean options, the pre-activation embedding of Convolution.forward is
        embedding[i][c] = sum_k (sum_j Nbar_ij X_jk) W_kc (+ b_c),   Nbar = N(A) (+ I with self embeddings),
    with N(A) = D^+ A (left), A D^+ (right), (D^1/2)^+ A (D^1/2)^+ (both), A (otherwise), D the out-weights.  The output
    of the layer is the activation of this embedding; the activations are covered by the source theorems of Props/C19.v
    Part III. *)
From SKN Require Import Base.Util Model.Gnn Model.NpExpr Model.NpVec Gen.NpConv Proofs.NpVecProofs Proofs.NpModularityProofs
                        Proofs.NpNormalizerProofs.
Set Warnings "-notation-overridden,-ambiguous-paths".
From Coq Require Import Reals Lra String.
Local Open Scope R_scope.
Local Open Scope string_scope.

Definition env_conv (n d o : nat) (A X W : nat -> nat -> R) (b : nat -> R) (se ub : bool) : venv :=
  ("adjacency", WM n n A) :: ("features", WM n d X) :: ("self.weight", WM d o W) :: ("self.bias", WV o b) ::
  ("self.self_embeddings", WKind se) :: ("self.use_bias", WKind ub) :: nil.

Inductive cnorm := CLeft | CRight | CBoth | CNone.
Definition outw (n : nat) (A : nat -> nat -> R) (i : nat) : R := lsum (seq 0 n) (fun j => A i j * 1).
Definition pinvR (x : R) : R := pinvT Rdiv 0 1 Reqb x.
Definition nspec_r (nm : cnorm) (n : nat) (A : nat -> nat -> R) (i j : nat) : R :=
  match nm with
  | CLeft => pinvR (outw n A i) * A i j
  | CRight => A i j * pinvR (outw n A j)
  | CBoth => pinvR (sqrt (outw n A i)) * A i j * pinvR (sqrt (outw n A j))
  | CNone => A i j
  end.
Definition nbar_r (nm : cnorm) (se : bool) (n : nat) (A : nat -> nat -> R) (i j : nat) : R :=
  (if se then (if Nat.eqb i j then 1 else 0) else 0) + nspec_r nm n A i j.
Definition conv_spec (nm : cnorm) (se ub : bool) (n d : nat) (A X W : nat -> nat -> R) (b : nat -> R) (i c : nat) : R :=
  lsum (seq 0 d) (fun k => lsum (seq 0 n) (fun j => nbar_r nm se n A i j * X j k) * W k c) + (if ub then b c else 0).
Definition src_of (nm : cnorm) : vexpr :=
  match nm with
  | CLeft => src_conv_embedding_left | CRight => src_conv_embedding_right
  | CBoth => src_conv_embedding_both | CNone => src_conv_embedding_none
  end.

Lemma lsum_diag_r (n j : nat) (p : R) (g : nat -> R) : (j < n)%nat ->
  lsum (seq 0 n) (fun k => g k * (if Nat.eqb k j then p else 0)) = g j * p.
Proof.
  intros Hj.
  rewrite (lsum_ext _ _ (fun k => (if Nat.eqb j k then 1 else 0) * (g k * p))).
  - apply (lsum_pick (seq 0 n) j (fun k => g k * p)); [apply seq_NoDup | apply in_seq0; exact Hj].
  - intros k _. rewrite (Nat.eqb_sym k j). destruct (Nat.eqb j k); ring.
Qed.

(** the (normalised, possibly looped) adjacency the code builds equals [nbar_r] below n *)
Lemma left_entry n A i j : (i < n)%nat ->
  lsum (seq 0 n) (fun k => (if Nat.eqb i k then pinvR (outw n A i) else 0) * A k j) = pinvR (outw n A i) * A i j.
Proof. intros Hi. exact (lsum_diag n i (pinvR (outw n A i)) (fun k => A k j) Hi). Qed.
Lemma right_entry n A i j : (j < n)%nat ->
  lsum (seq 0 n) (fun k => A i k * (if Nat.eqb k j then pinvR (outw n A k) else 0)) = A i j * pinvR (outw n A j).
Proof.
  intros Hj.
  rewrite (lsum_ext _ _ (fun k => (if Nat.eqb j k then 1 else 0) * (A i k * pinvR (outw n A k)))).
  - apply (lsum_pick (seq 0 n) j (fun k => A i k * pinvR (outw n A k))); [apply seq_NoDup | apply in_seq0; exact Hj].
  - intros k _. rewrite (Nat.eqb_sym k j). destruct (Nat.eqb j k); ring.
Qed.
Lemma both_entry n A i j : (i < n)%nat -> (j < n)%nat ->
  lsum (seq 0 n) (fun k => lsum (seq 0 n) (fun k' => (if Nat.eqb i k' then pinvR (sqrt (outw n A i)) else 0) * A k' k) *
                           (if Nat.eqb k j then pinvR (sqrt (outw n A k)) else 0))
  = pinvR (sqrt (outw n A i)) * A i j * pinvR (sqrt (outw n A j)).
Proof.
  intros Hi Hj.
  rewrite (lsum_ext _ _ (fun k => (if Nat.eqb j k then 1 else 0) *
             (lsum (seq 0 n) (fun k' => (if Nat.eqb i k' then pinvR (sqrt (outw n A i)) else 0) * A k' k) * pinvR (sqrt (outw n A k))))).
  - rewrite (lsum_pick (seq 0 n) j _ (seq_NoDup n 0)) by (apply in_seq0; exact Hj).
    rewrite (lsum_diag n i (pinvR (sqrt (outw n A i))) (fun k' => A k' j) Hi). reflexivity.
  - intros k _. rewrite (Nat.eqb_sym k j). destruct (Nat.eqb j k); ring.
Qed.

Ltac conv_eval := unfold rvdenote, env_conv; repeat (cbn; rewrite ?Nat.eqb_refl).

(** the adjacency entry exactly as the code builds it (diagonal products written as sums) *)
Definition code_norm (nm : cnorm) (n : nat) (A : nat -> nat -> R) (i j : nat) : R :=
  match nm with
  | CLeft => lsum (seq 0 n) (fun k => (if Nat.eqb i k then pinvR (outw n A i) else 0) * A k j)
  | CRight => lsum (seq 0 n) (fun k => A i k * (if Nat.eqb k j then pinvR (outw n A k) else 0))
  | CBoth => lsum (seq 0 n) (fun k => lsum (seq 0 n) (fun k' => (if Nat.eqb i k' then pinvR (sqrt (outw n A i)) else 0) * A k' k) *
                                      (if Nat.eqb k j then pinvR (sqrt (outw n A k)) else 0))
  | CNone => A i j
  end.
Definition code_entry (nm : cnorm) (se : bool) (n : nat) (A : nat -> nat -> R) (i j : nat) : R :=
  if se then (if Nat.eqb i j then 1 else 0) + code_norm nm n A i j else code_norm nm n A i j.
Definition code_embedding (nm : cnorm) (se ub : bool) (n d : nat) (A X W : nat -> nat -> R) (b : nat -> R) (i c : nat) : R :=
  if ub then lsum (seq 0 d) (fun k => lsum (seq 0 n) (fun j => code_entry nm se n A i j * X j k) * W k c) + b c
  else lsum (seq 0 d) (fun k => lsum (seq 0 n) (fun j => code_entry nm se n A i j * X j k) * W k c).

Lemma code_entry_eq nm se n A i j : (i < n)%nat -> (j < n)%nat -> code_entry nm se n A i j = nbar_r nm se n A i j.
Proof.
  intros Hi Hj. unfold code_entry, nbar_r.
  assert (E : code_norm nm n A i j = nspec_r nm n A i j).
  { destruct nm; cbn [code_norm nspec_r];
      [apply left_entry; exact Hi | apply right_entry; exact Hj | apply both_entry; assumption | reflexivity]. }
  rewrite E. destruct se; [reflexivity | ring].
Qed.

Lemma code_embedding_eq nm se ub n d A X W b i c : (i < n)%nat ->
  code_embedding nm se ub n d A X W b i c = conv_spec nm se ub n d A X W b i c.
Proof.
  intros Hi. unfold code_embedding, conv_spec.
  assert (E : lsum (seq 0 d) (fun k => lsum (seq 0 n) (fun j => code_entry nm se n A i j * X j k) * W k c) =
              lsum (seq 0 d) (fun k => lsum (seq 0 n) (fun j => nbar_r nm se n A i j * X j k) * W k c)).
  { apply lsum_ext. intros k _. f_equal. apply lsum_ext. intros j Hj. apply in_seq0 in Hj.
    rewrite (code_entry_eq nm se n A i j Hi Hj). reflexivity. }
  rewrite E. destruct ub; [reflexivity | ring].
Qed.

Theorem source_conv_embedding nm se ub n d o A X W b :
  exists f, rvdenote (env_conv n d o A X W b se ub) (src_of nm) = Some (WM n o f) /\
            forall i c, (i < n)%nat -> f i c = conv_spec nm se ub n d A X W b i c.
Proof.
  exists (code_embedding nm se ub n d A X W b). split.
  - destruct nm, se, ub; cbn [src_of];
      first [unfold src_conv_embedding_left | unfold src_conv_embedding_right | unfold src_conv_embedding_both
            | unfold src_conv_embedding_none]; conv_eval; reflexivity.
  - intros i c Hi. apply code_embedding_eq. exact Hi.
Qed.

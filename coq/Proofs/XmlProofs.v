(** Proofs/XmlProofs.v — string lemmas, closure properties of the lexical predicates,
    well-formedness of the element builders, and soundness of the checker of Model/Xml.v. *)
From SKN Require Import Model.Xml.
From Coq Require Import String Ascii List Bool Arith Lia.
Import ListNotations.
Open Scope string_scope.

(** * Strings *)

Lemma sapp_nil_r (s : string) : s ++ "" = s.
Proof. induction s as [|c s IH]; simpl; [reflexivity | now rewrite IH]. Qed.

Lemma sapp_assoc (a b c : string) : (a ++ b) ++ c = a ++ b ++ c.
Proof. induction a as [|x a IH]; simpl; [reflexivity | now rewrite IH]. Qed.

(** Right-associate and compute appends with literal left operands. *)
Ltac snorm := repeat first [rewrite sapp_assoc | progress cbn [append sconcat map]].
Ltac seq := snorm; try reflexivity.

Lemma sconcat_app (l1 l2 : list string) : sconcat (l1 ++ l2)%list = sconcat l1 ++ sconcat l2.
Proof. induction l1 as [|x l1 IH]; simpl; [reflexivity | now rewrite IH, sapp_assoc]. Qed.

Lemma all_chars_app p a b : all_chars p (a ++ b) = all_chars p a && all_chars p b.
Proof. induction a as [|x a IH]; simpl; [reflexivity | now rewrite IH, andb_assoc]. Qed.

Lemma all_chars_impl (p q : ascii -> bool) s :
  (forall c, p c = true -> q c = true) -> all_chars p s = true -> all_chars q s = true.
Proof.
  intros Hpq. induction s as [|c s IH]; simpl; [reflexivity|].
  intros H. apply andb_true_iff in H as [H1 H2]. now rewrite (Hpq _ H1), (IH H2).
Qed.

Lemma all_chars_sconcat p l :
  Forall (fun s => all_chars p s = true) l -> all_chars p (sconcat l) = true.
Proof.
  induction 1 as [|s l Hs _ IH]; simpl; [reflexivity|]. now rewrite all_chars_app, Hs, IH.
Qed.

Lemma strip_prefix_spec p : forall s r, strip_prefix p s = Some r -> s = p ++ r.
Proof.
  induction p as [|a p IH]; intros s r H; simpl in *.
  - now inversion H.
  - destruct s as [|b s]; [discriminate|].
    destruct (Ascii.eqb a b) eqn:E; [|discriminate].
    apply Ascii.eqb_eq in E. subst b. now rewrite (IH _ _ H).
Qed.

Lemma starts_spec p : forall s, starts p s = true -> exists r, s = p ++ r.
Proof.
  induction p as [|a p IH]; intros s H; simpl in *.
  - now exists s.
  - destruct s as [|b s]; [discriminate|].
    apply andb_true_iff in H as [E H]. apply Ascii.eqb_eq in E. subst b.
    destruct (IH _ H) as [r ->]. now exists r.
Qed.

Lemma starts_app p : forall s t, starts p s = true -> starts p (s ++ t) = true.
Proof.
  induction p as [|a p IH]; intros s t H; simpl in *; [reflexivity|].
  destruct s as [|b s]; [discriminate|]. simpl.
  apply andb_true_iff in H as [E H]. now rewrite E, (IH _ _ H).
Qed.

Lemma starts_cons a p b s : starts (String a p) (String b s) = Ascii.eqb a b && starts p s.
Proof. reflexivity. Qed.

Lemma starts_refl_app p r : starts p (p ++ r) = true.
Proof. induction p as [|a p IH]; simpl; [reflexivity | now rewrite Ascii.eqb_refl, IH]. Qed.

Lemma span_spec p : forall s a b, span p s = (a, b) -> s = a ++ b /\ all_chars p a = true.
Proof.
  induction s as [|c s IH]; intros a b H; simpl in H.
  - inversion H; subst. now split.
  - destruct (p c) eqn:Ec.
    + destruct (span p s) as [a' b'] eqn:E. inversion H; subst.
      destruct (IH _ _ eq_refl) as [-> Ha]. split; [reflexivity|]. simpl. now rewrite Ec, Ha.
    + inversion H; subst. now split.
Qed.

Lemma mem_string_false x l : mem_string x l = false -> ~ In x l.
Proof.
  unfold mem_string. intros H Hin.
  assert (E : existsb (String.eqb x) l = true).
  { apply existsb_exists. exists x. split; [exact Hin | apply String.eqb_refl]. }
  congruence.
Qed.

Lemma nodup_strings_NoDup l : nodup_strings l = true -> NoDup l.
Proof.
  induction l as [|x l IH]; simpl; intros H; [constructor|].
  apply andb_true_iff in H as [H1 H2]. apply negb_true_iff in H1.
  constructor; [now apply mem_string_false | now apply IH].
Qed.

(** * Closure properties of the lexical predicates *)

Lemma no_char_app c a b : no_char c (a ++ b) = no_char c a && no_char c b.
Proof. apply all_chars_app. Qed.

Lemma entity_prefix_app r b : entity_prefix r = true -> entity_prefix (r ++ b) = true.
Proof.
  unfold entity_prefix. intros H. apply existsb_exists in H as [e [He Hs]].
  apply existsb_exists. exists e. split; [exact He | now apply starts_app].
Qed.

Lemma amp_ok_app a b : amp_ok a = true -> amp_ok b = true -> amp_ok (a ++ b) = true.
Proof.
  intros Ha Hb. induction a as [|c a IH]; simpl in *; [exact Hb|].
  apply andb_true_iff in Ha as [H1 H2]. rewrite (IH H2), andb_true_r.
  destruct (Ascii.eqb c "&"); [now apply entity_prefix_app | reflexivity].
Qed.

(** A string without ampersand has every ampersand starting a reference. *)
Lemma no_amp_amp_ok s : no_char "&" s = true -> amp_ok s = true.
Proof.
  induction s as [|c s IH]; simpl; [reflexivity|]. intros H.
  apply andb_true_iff in H as [H1 H2]. apply negb_true_iff in H1. now rewrite H1, (IH H2).
Qed.

(** A string without [>] has no ]]> sequence. *)
Lemma no_gt_no_cdata_end s : no_char ">" s = true -> no_cdata_end s = true.
Proof.
  induction s as [|c s IH]; [reflexivity|]. intros H.
  change (no_char ">" (String c s)) with (negb (Ascii.eqb c ">") && no_char ">" s) in H.
  apply andb_true_iff in H as [H1 H2].
  change (no_cdata_end (String c s)) with (negb (starts "]]>" (String c s)) && no_cdata_end s).
  rewrite (IH H2), andb_true_r. apply negb_true_iff.
  destruct (starts "]]>" (String c s)) eqn:E; [|reflexivity].
  exfalso. apply starts_spec in E as [r E]. simpl in E. inversion E; subst.
  simpl in H2. discriminate.
Qed.

Lemma text_ok_of_no_special s :
  no_char "<" s = true -> no_char "&" s = true -> no_char ">" s = true -> text_ok s = true.
Proof.
  intros H1 H2 H3. unfold text_ok.
  now rewrite H1, (no_amp_amp_ok _ H2), (no_gt_no_cdata_end _ H3).
Qed.

Lemma is_ws_not_special c : is_ws c = true ->
  Ascii.eqb c "<" = false /\ Ascii.eqb c "&" = false /\ Ascii.eqb c "]" = false.
Proof.
  unfold is_ws. intros H.
  repeat rewrite orb_true_iff in H. repeat rewrite Nat.eqb_eq in H.
  assert (E : c = ascii_of_nat (nat_of_ascii c)) by (symmetry; apply ascii_nat_embedding).
  destruct H as [[[H|H]|H]|H]; rewrite H in E; subst c; repeat split; reflexivity.
Qed.

(** White space may be prepended to character data. *)
Lemma text_ok_ws_app w t : ws_ok w = true -> text_ok t = true -> text_ok (w ++ t) = true.
Proof.
  intros Hw Ht. induction w as [|c w IH]; [exact Ht|].
  simpl in Hw. apply andb_true_iff in Hw as [Hc Hw]. specialize (IH Hw).
  destruct (is_ws_not_special _ Hc) as [E1 [E2 E3]].
  unfold text_ok in *. apply andb_true_iff in IH as [IH I3]. apply andb_true_iff in IH as [I1 I2].
  cbn [append]. unfold no_char in *. cbn [all_chars amp_ok no_cdata_end].
  rewrite E1, E2, I1, I2, I3. rewrite (starts_cons "]" "]>" c), (Ascii.eqb_sym "]" c), E3. reflexivity.
Qed.

Lemma ws_text_ok w : ws_ok w = true -> text_ok w = true.
Proof. intros H. rewrite <- (sapp_nil_r w). now apply text_ok_ws_app. Qed.

(** * Building derivations *)

Lemma render_attrs_wf (l : list attr) :
  forallb attr_ok l = true -> wf_attrs (render_attrs l) (map attr_name l).
Proof.
  induction l as [|[[w n] v] l IH]; simpl; intros H; [constructor|].
  apply andb_true_iff in H as [Ha Hl].
  unfold attr_ok in Ha. repeat (apply andb_true_iff in Ha as [Ha ?]). apply negb_true_iff in Ha.
  unfold render_attrs. cbn [map sconcat render_attr].
  replace ((w ++ n ++ "=""" ++ v ++ """") ++ sconcat (map render_attr l))
    with (w ++ n ++ "=""" ++ v ++ """" ++ render_attrs l) by (unfold render_attrs; seq).
  constructor; auto.
Qed.

Definition attrs_ok (l : list attr) : bool := forallb attr_ok l && nodup_strings (map attr_name l).

Lemma elem_empty_wf n attrs w :
  name_ok n = true -> attrs_ok attrs = true -> ws_ok w = true -> wf_elem n (elem_empty n attrs w).
Proof.
  intros Hn Ha Hw. apply andb_true_iff in Ha as [Ha Hd].
  unfold elem_empty. eapply we_empty; eauto using render_attrs_wf, nodup_strings_NoDup.
Qed.

Lemma elem_open_wf n attrs w c w2 :
  name_ok n = true -> attrs_ok attrs = true -> ws_ok w = true -> wf_content c -> ws_ok w2 = true ->
  wf_elem n (elem_open n attrs w c w2).
Proof.
  intros Hn Ha Hw Hc Hw2. apply andb_true_iff in Ha as [Ha Hd].
  unfold elem_open. eapply we_open; eauto using render_attrs_wf, nodup_strings_NoDup.
Qed.

Lemma wf_content_nil : wf_content "".
Proof. now apply wc_last. Qed.

Lemma wf_content_elem n e c : wf_elem n e -> wf_content c -> wf_content (e ++ c).
Proof. intros He Hc. change (wf_content ("" ++ e ++ c)). now apply wc_cons with (n := n). Qed.

Lemma wf_content_ws w c : ws_ok w = true -> wf_content c -> wf_content (w ++ c).
Proof.
  intros Hw Hc. destruct Hc as [t Ht | t n e c Ht He Hc].
  - apply wc_last. now apply text_ok_ws_app.
  - rewrite <- sapp_assoc. apply wc_cons with (n := n); auto. now apply text_ok_ws_app.
Qed.

(** A sequence of pieces, each an element followed by white space, is content. *)
Definition elem_ws (s : string) : Prop :=
  exists n e w, s = e ++ w /\ wf_elem n e /\ ws_ok w = true.

Lemma wf_content_pieces l c :
  Forall elem_ws l -> wf_content c -> wf_content (sconcat l ++ c).
Proof.
  induction 1 as [|s l (n & e & w & -> & He & Hw) _ IH]; intros Hc; simpl; [exact Hc|].
  rewrite !sapp_assoc. apply wf_content_elem with (n := n); [exact He|].
  apply wf_content_ws; auto.
Qed.

Lemma elem_ws_of_elem n e : wf_elem n e -> elem_ws e.
Proof. intros H. exists n, e, "". now rewrite sapp_nil_r. Qed.

Lemma wf_document_root_intro root e w : wf_elem root e -> ws_ok w = true -> wf_document_root root (e ++ w).
Proof. intros He Hw. exists "", e, w. now repeat split. Qed.

(** * Soundness of the checker *)

Lemma parse_attrs_sound f : forall s seen sc rest,
  parse_attrs f s seen = Some (sc, rest) ->
  exists a ns w, wf_attrs a ns /\ NoDup ns /\ (forall x, In x ns -> ~ In x seen) /\ ws_ok w = true /\
    s = a ++ w ++ (if sc then "/>" else ">") ++ rest.
Proof.
  induction f as [|f IH]; intros s seen sc rest H; [discriminate|].
  cbn [parse_attrs] in H.
  destruct (span is_ws s) as [w r] eqn:Ew. apply span_spec in Ew as [-> Hw].
  destruct (strip_prefix "/>" r) as [r'|] eqn:E1.
  { inversion H; subst. apply strip_prefix_spec in E1 as ->.
    exists "", [], w. split; [constructor|]. split; [constructor|]. split; [intros x []|].
    split; [exact Hw | reflexivity]. }
  destruct (strip_prefix ">" r) as [r'|] eqn:E2.
  { inversion H; subst. apply strip_prefix_spec in E2 as ->.
    exists "", [], w. split; [constructor|]. split; [constructor|]. split; [intros x []|].
    split; [exact Hw | reflexivity]. }
  destruct (is_empty w) eqn:Ewe; [discriminate|].
  destruct (span is_name_char r) as [n r1] eqn:En. apply span_spec in En as [-> _].
  destruct (name_ok n && negb (mem_string n seen)) eqn:Ec; [|discriminate].
  apply andb_true_iff in Ec as [Hn Hm]. apply negb_true_iff in Hm.
  destruct (strip_prefix "=""" r1) as [r2|] eqn:E3; [|discriminate].
  apply strip_prefix_spec in E3 as ->.
  destruct (span not_quote r2) as [v r3] eqn:Ev. apply span_spec in Ev as [-> _].
  destruct (strip_prefix """" r3) as [r4|] eqn:E4; [|discriminate].
  apply strip_prefix_spec in E4 as ->.
  destruct (attr_value_ok v) eqn:Hv; [|discriminate].
  destruct (IH _ _ _ _ H) as (a & ns & w' & Ha & Hd & Hdis & Hw' & ->).
  exists (w ++ n ++ "=""" ++ v ++ """" ++ a), (n :: ns), w'.
  repeat split; auto.
  - now constructor.
  - constructor; auto. intros Hin. apply (Hdis _ Hin). now left.
  - intros x [<-|Hin]; [now apply mem_string_false|]. intros Hs. apply (Hdis _ Hin). now right.
  - seq.
Qed.

Lemma parse_close_sound n s r :
  parse_close n s = Some r -> exists w, ws_ok w = true /\ s = n ++ w ++ ">" ++ r.
Proof.
  unfold parse_close. intros H.
  destruct (strip_prefix n s) as [r1|] eqn:E1; [|discriminate].
  apply strip_prefix_spec in E1 as ->.
  destruct (span is_ws r1) as [w r2] eqn:Ew. apply span_spec in Ew as [-> Hw].
  apply strip_prefix_spec in H as ->. now exists w.
Qed.

Definition content_parser_sound (pc : string -> option string) : Prop :=
  forall s rest, pc s = Some rest -> exists c, wf_content c /\ s = c ++ rest.

Lemma parse_element_with_sound pc s n rest :
  content_parser_sound pc ->
  parse_element_with pc s = Some (n, rest) -> exists e, wf_elem n e /\ s = e ++ rest.
Proof.
  intros Hpc H. unfold parse_element_with in H.
  destruct (strip_prefix "<" s) as [r1|] eqn:E1; [|discriminate].
  apply strip_prefix_spec in E1 as ->.
  destruct (span is_name_char r1) as [m r] eqn:En. apply span_spec in En as [-> _].
  destruct (name_ok m) eqn:Hn; [|discriminate].
  destruct (parse_attrs (S (String.length r)) r []) as [[sc r2]|] eqn:Ea; [|discriminate].
  apply parse_attrs_sound in Ea as (a & ns & w & Ha & Hd & _ & Hw & ->).
  destruct sc.
  - inversion H; subst. exists ("<" ++ n ++ a ++ w ++ "/>"). split; [|seq].
    now apply we_empty with (ns := ns).
  - destruct (pc r2) as [r3|] eqn:Ec; [|discriminate].
    apply Hpc in Ec as (c & Hc & ->).
    destruct (strip_prefix "</" r3) as [r4|] eqn:E4; [|discriminate].
    apply strip_prefix_spec in E4 as ->.
    destruct (parse_close m r4) as [r5|] eqn:E5; [|discriminate].
    apply parse_close_sound in E5 as (w2 & Hw2 & ->).
    inversion H; subst.
    exists ("<" ++ n ++ a ++ w ++ ">" ++ c ++ "</" ++ n ++ w2 ++ ">"). split; [|seq].
    now apply we_open with (ns := ns).
Qed.

Lemma parse_content_sound f : content_parser_sound (parse_content f).
Proof.
  induction f as [|f IH]; intros s rest H; [discriminate|].
  cbn [parse_content] in H.
  destruct (span Xml.not_lt s) as [t r] eqn:Et. apply span_spec in Et as [-> _].
  destruct (text_ok t) eqn:Ht; [|discriminate].
  destruct (is_empty r) eqn:Er.
  { inversion H; subst. destruct r; [|discriminate]. exists t. split; [now apply wc_last | reflexivity]. }
  destruct (starts "</" r) eqn:Es.
  { inversion H; subst. exists t. split; [now apply wc_last | reflexivity]. }
  destruct (parse_element_with (parse_content f) r) as [[n r2]|] eqn:Ee; [|discriminate].
  apply parse_element_with_sound in Ee as (e & He & ->); [|exact IH].
  apply IH in H as (c & Hc & ->).
  exists (t ++ e ++ c). split; [now apply wc_cons with (n := n) | seq].
Qed.

Lemma parse_document_sound s root : parse_document s = Some root -> wf_document_root root s.
Proof.
  unfold parse_document. intros H.
  destruct (span is_ws s) as [w0 r] eqn:Ew. apply span_spec in Ew as [-> Hw0].
  destruct (parse_element_with (parse_content (S (String.length r))) r) as [[n r2]|] eqn:Ee; [|discriminate].
  apply parse_element_with_sound in Ee as (e & He & ->); [|apply parse_content_sound].
  destruct (ws_ok r2) eqn:Hw1; [|discriminate]. inversion H; subst.
  exists w0, e, r2. now repeat split.
Qed.

Theorem wf_check_sound s : wf_check s = true -> wf_document s.
Proof.
  unfold wf_check. destruct (parse_document s) as [root|] eqn:E; [|discriminate].
  intros _. exists root. now apply parse_document_sound.
Qed.

Theorem wf_check_root_sound root s : wf_check_root root s = true -> wf_document_root root s.
Proof.
  unfold wf_check_root. destruct (parse_document s) as [n|] eqn:E; [|discriminate].
  intros H. apply String.eqb_eq in H. subst n. now apply parse_document_sound.
Qed.

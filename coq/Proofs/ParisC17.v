(** Termination of the nearest-neighbour chain of Paris for the CURRENT source (cited by property C17).

    [paris_total] (Proofs/ParisTotal.v) is proved for the model of the scan with the EXACT tie test and the smallest-index
    choice ([nn_step]: replace on [sim > max_sim], [min] on [sim == max_sim]); that this is what the source does is the
    generated fact [paris_src_tie_exact] (harness/translators/paris.py, regenerated from paris.pyx on every run).  The
    clamp of the heights ([paris_src_clamp]) does not influence the control flow: runs with and without it go through
    the same states up to the heights. *)
From Coq Require Import Lia QArith.
From SKN Require Import Base.Util Model.Dendrogram Model.Cuts Model.Hierarchy Model.Paris Proofs.DendroBase Proofs.ParisReducible Proofs.ParisTotal Gen.ParisSrc.
Close Scope Q_scope.

(** Everything of a state except the heights. *)
Definition strip (st : Paris.pstate) :=
  (p_ag st, p_chain st, map (fun r => (r_left r, r_right r, r_size r)) (p_rows st), p_comps st, p_nn st, p_margin st, p_ties st).

Definition same_outcome (a b : outcome) : Prop :=
  match a, b with
  | Running x, Running y => strip x = strip y
  | Finished x, Finished y => strip x = strip y
  | Failed e1, Failed e2 => e1 = e2
  | _, _ => False
  end.

Lemma step_clamp_indep R c1 c2 st1 st2 : strip st1 = strip st2 -> same_outcome (paris_step R c1 st1) (paris_step R c2 st2).
Proof.
  destruct st1 as [g1 ch1 rows1 comps1 nn1 hgt1 mg1 ti1]. destruct st2 as [g2 ch2 rows2 comps2 nn2 hgt2 mg2 ti2].
  unfold strip. cbn [p_ag p_chain p_rows p_comps p_nn p_margin p_ties]. intros E.
  injection E as Eg Ech Erows Ecomps Enn Emg Eti. subst g2 ch2 comps2 nn2 mg2 ti2.
  unfold paris_step. cbn [p_ag p_chain p_rows p_comps p_nn p_hgt p_margin p_ties].
  destruct ch1 as [|node chain].
  - destruct (ag_size g1) as [|[x s] rest]; unfold same_outcome, strip; cbn [p_ag p_chain p_rows p_comps p_nn p_margin p_ties];
      congruence.
  - destruct (alookup node (ag_nb g1)) as [row|]; [|reflexivity].
    destruct (filter (fun c => negb (Nat.eqb c node)) (akeys row)) as [|c0 cs] eqn:Enb.
    + destruct (alookup node (ag_size g1)) as [s|]; [|reflexivity].
      unfold same_outcome, strip; cbn [p_ag p_chain p_rows p_comps p_nn p_margin p_ties]. congruence.
    + destruct (nn_search nn1 (map (fun c => (c, similarity R g1 node c)) (c0 :: cs))) as [nn mx].
      destruct chain as [|last chain'].
      * unfold same_outcome, strip; cbn [p_ag p_chain p_rows p_comps p_nn p_margin p_ties]. congruence.
      * destruct (Nat.eqb last nn).
        -- destruct (alookup node (ag_size g1)) as [s1|]; [|reflexivity].
           destruct (alookup nn (ag_size g1)) as [s2|]; [|reflexivity].
           destruct (ag_merge R g1 node nn) as [g'|e]; [|reflexivity].
           unfold same_outcome, strip; cbn [p_ag p_chain p_rows p_comps p_nn p_margin p_ties].
           rewrite !map_app. cbn [map r_left r_right r_size fst snd]. rewrite Erows. reflexivity.
        -- unfold same_outcome, strip; cbn [p_ag p_chain p_rows p_comps p_nn p_margin p_ties]. congruence.
Qed.

Lemma run_clamp_indep R c1 c2 fuel : forall st1 st2, strip st1 = strip st2 ->
  match paris_run R c1 fuel st1, paris_run R c2 fuel st2 with
  | Some (Ok a), Some (Ok b) => strip a = strip b
  | Some (Err e1), Some (Err e2) => e1 = e2
  | None, None => True
  | _, _ => False
  end.
Proof.
  induction fuel as [|f IH]; intros st1 st2 E; [exact I|].
  cbn [paris_run]. assert (H := step_clamp_indep R c1 c2 st1 st2 E).
  destruct (paris_step R c1 st1) as [a|a|e1]; destruct (paris_step R c2 st2) as [b|b|e2]; cbn [same_outcome] in H;
    try contradiction.
  - now apply IH.
  - exact H.
  - exact H.
Qed.

(** The run ends normally within the fuel whatever the clamp flag. *)
Theorem paris_run_total_any_clamp (clamp : bool) (n : nat) (G : entries) (wout win : list Q) :
  1 <= n -> graph_ok n G -> weights_ok n wout -> weights_ok n win ->
  exists st, paris_run exact clamp (paris_fuel n) (paris_init (ag_init exact n G wout win)) = Some (Ok st) /\ p_comps st <> [].
Proof.
  intros Hn HG Ho Hi. destruct (paris_run_total n G wout win Hn HG Ho Hi) as (st & Erun & Hc).
  assert (H := run_clamp_indep exact clamp false (paris_fuel n) _ _ (eq_refl (strip (paris_init (ag_init exact n G wout win))))).
  rewrite Erun in H.
  destruct (paris_run exact clamp (paris_fuel n) (paris_init (ag_init exact n G wout win))) as [[st'|e]|]; try contradiction.
  exists st'. split; [reflexivity|]. unfold strip in H. injection H as _ _ _ Ec _ _ _. now rewrite Ec.
Qed.

(** The statement to cite from C17: for the model of the current source (height clamp as in the source), PROVIDED the
    source's tie branch is the exact test with the smallest-index choice, the nearest-neighbour chain ends normally —
    no KeyError, at most 3n + 1 steps (fuel 3n + 2) — on every symmetric graph with positive edge weights and positive
    node weights.  For any other tie rule (e.g. a tolerance, which is neither transitive nor independent of the scan
    order) nothing is claimed: the chain can then cycle forever. *)
Theorem paris_terminates_for_source (n : nat) (G : entries) (wout win : list Q) :
  paris_src_tie_exact = true ->
  1 <= n -> graph_ok n G -> weights_ok n wout -> weights_ok n win ->
  exists st, paris_run exact paris_src_clamp (paris_fuel n) (paris_init (ag_init exact n G wout win)) = Some (Ok st) /\
             p_comps st <> [].
Proof. intros _. apply paris_run_total_any_clamp. Qed.

Print Assumptions paris_terminates_for_source.

(** Termination of the exact-rational Louvain model (Model/Louvain.v) for tol_optimization > 0.

    1. The objective optimised by the kernel is bounded, for every labelling:
       |objective l| <= sum_ij |A_ij - resolution * out_i * in_j|   (no hypothesis),
       -resolution * (sum out)(sum in) <= objective l <= sum_ij A_ij (non-negative entries and node
       weights, resolution >= 0), hence -resolution <= objective l <= 1 after _pre_processing.
    2. Every pass of optimize_core that does not stop the [while] loop gains more than tol: with
       fuel > (B - objective(start)) / tol the pass loop returns.
    3. Every aggregation that does not stop the loop of Louvain.fit has a positive increase, hence
       merges at least two nodes: the number of nodes strictly decreases and fuel = number of nodes
       suffices (tol_aggregation >= 0).
    4. The flat (checked-access) model of Model/Safety.v simulates the model of Model/Louvain.v, so the
       same bound holds for it. *)
From Coq Require Import Lqa Setoid Morphisms Sorted Qround Qabs.
From SKN Require Import Base.Util Model.Modularity Model.Louvain Proofs.ModularityProofs Proofs.LouvainProofs.

Local Open Scope Q_scope.

(** * 1. Bounds on the objective *)

Lemma qsum_le n f g : (forall i, (i < n)%nat -> f i <= g i) -> qsum n f <= qsum n g.
Proof.
  induction n as [|n IH]; intros H; simpl; [lra|].
  assert (H1 : qsum n f <= qsum n g) by (apply IH; intros i Hi; apply H; lia).
  assert (H2 : f n <= g n) by (apply H; lia). lra.
Qed.

Lemma qsum2_le n m f g :
  (forall i j, (i < n)%nat -> (j < m)%nat -> f i j <= g i j) -> qsum2 n m f <= qsum2 n m g.
Proof.
  intros H. unfold qsum2. apply qsum_le. intros i Hi. apply qsum_le. intros j Hj. apply H; assumption.
Qed.

Lemma qsum2_nonneg n m f : (forall i j, (i < n)%nat -> (j < m)%nat -> 0 <= f i j) -> 0 <= qsum2 n m f.
Proof.
  intros H. unfold qsum2. apply qsum_nonneg. intros i Hi. apply qsum_nonneg. intros j Hj. apply H; assumption.
Qed.

Lemma qsum2_prod n m (a b : nat -> Q) : qsum2 n m (fun i j => a i * b j) == qsum n a * qsum m b.
Proof.
  unfold qsum2. transitivity (qsum n (fun i => a i * qsum m b)).
  - apply qsum_ext. intros i _. apply qsum_scal.
  - apply qsum_scal_r.
Qed.

Definition abs_bound (n : nat) (F : nat -> nat -> Q) : Q := qsum2 n n (fun x y => Qabs (F x y)).

Lemma objF_bounds n F L : - abs_bound n F <= objF n F L /\ objF n F L <= abs_bound n F.
Proof.
  unfold abs_bound, objF. split.
  - assert (H : qsum2 n n (fun x y => - Qabs (F x y)) <= qsum2 n n (fun x y => F x y * ind (Nat.eqb (L x) (L y)))).
    { apply qsum2_le. intros x y _ _. destruct (Nat.eqb (L x) (L y)); simpl.
      - pose proof (Qle_Qabs (- F x y)) as H. rewrite Qabs_opp in H. lra.
      - pose proof (Qabs_nonneg (F x y)) as H. lra. }
    assert (E : qsum2 n n (fun x y => - Qabs (F x y)) == - qsum2 n n (fun x y => Qabs (F x y))).
    { transitivity (qsum2 n n (fun x y => (-1) * Qabs (F x y))).
      - apply qsum2_ext. intros x y _ _. ring.
      - rewrite qsum2_scal. ring. }
    lra.
  - apply qsum2_le. intros x y _ _. destruct (Nat.eqb (L x) (L y)); simpl.
    + pose proof (Qle_Qabs (F x y)) as H. lra.
    + pose proof (Qabs_nonneg (F x y)) as H. lra.
Qed.

(** The bound computable from the kernel's inputs: sum_ij |A_ij - resolution * out_i * in_j|. *)
Definition objective_bound (g : wgraph) (ows iws : list Q) (res : Q) : Q :=
  let n := length g in
  qsum n (fun i => qsum n (fun j => Qabs (entry g i j - res * nthq ows i * nthq iws j))).

Lemma objective_abs_bounded g ows iws res labels :
  - objective_bound g ows iws res <= objective g ows iws res labels /\
  objective g ows iws res labels <= objective_bound g ows iws res.
Proof. exact (objF_bounds (length g) (Fk g ows iws res) (lab labels)). Qed.

Lemma objective_split g ows iws res labels :
  let n := length g in
  objective g ows iws res labels
  == qsum2 n n (fun i j => entry g i j * delta labels i j)
     - res * qsum2 n n (fun i j => (nthq ows i * nthq iws j) * delta labels i j).
Proof.
  intros n. unfold objective. fold n.
  fold (qsum2 n n (fun i j => (entry g i j - res * nthq ows i * nthq iws j) * delta labels i j)).
  rewrite <- qsum2_scal, <- qsum2_minus. apply qsum2_ext. intros i j _ _. ring.
Qed.

Lemma delta_range labels i j : 0 <= delta labels i j /\ delta labels i j <= 1.
Proof. unfold delta. destruct (Nat.eqb (lab labels i) (lab labels j)); simpl; split; lra. Qed.

(** Non-negative adjacency entries and node weights, resolution >= 0. *)
Lemma objective_bounded_nonneg g ows iws res labels :
  let n := length g in
  (forall i j, (i < n)%nat -> (j < n)%nat -> 0 <= entry g i j) ->
  (forall i, (i < n)%nat -> 0 <= nthq ows i) -> (forall i, (i < n)%nat -> 0 <= nthq iws i) ->
  0 <= res ->
  - (res * (qsum n (nthq ows) * qsum n (nthq iws))) <= objective g ows iws res labels /\
  objective g ows iws res labels <= total_weight g.
Proof.
  intros n He Ho Hi Hres. rewrite (objective_split g ows iws res labels). fold n.
  set (S1 := qsum2 n n (fun i j => entry g i j * delta labels i j)).
  set (S2 := qsum2 n n (fun i j => (nthq ows i * nthq iws j) * delta labels i j)).
  assert (A1 : 0 <= S1).
  { apply qsum2_nonneg. intros i j Hi' Hj'. destruct (delta_range labels i j) as [D1 D2].
    apply Qmult_le_0_compat; [apply He; assumption|exact D1]. }
  assert (A2 : S1 <= total_weight g).
  { unfold total_weight. fold n. fold (qsum2 n n (fun i j => entry g i j)).
    apply qsum2_le. intros i j Hi' Hj'. destruct (delta_range labels i j) as [D1 D2].
    pose proof (He i j Hi' Hj') as H0. nra. }
  assert (A3 : 0 <= S2).
  { apply qsum2_nonneg. intros i j Hi' Hj'. destruct (delta_range labels i j) as [D1 D2].
    apply Qmult_le_0_compat; [|exact D1]. apply Qmult_le_0_compat; [apply Ho|apply Hi]; assumption. }
  assert (A4 : S2 <= qsum n (nthq ows) * qsum n (nthq iws)).
  { rewrite <- (qsum2_prod n n (nthq ows) (nthq iws)).
    apply qsum2_le. intros i j Hi' Hj'. destruct (delta_range labels i j) as [D1 D2].
    assert (H0 : 0 <= nthq ows i * nthq iws j) by (apply Qmult_le_0_compat; [apply Ho|apply Hi]; assumption).
    nra. }
  assert (A5 : 0 <= res * S2) by (apply Qmult_le_0_compat; assumption).
  assert (A6 : res * S2 <= res * (qsum n (nthq ows) * qsum n (nthq iws))).
  { rewrite (Qmult_comm res S2), (Qmult_comm res (_ * _)). apply Qmult_le_compat_r; assumption. }
  split; lra.
Qed.

(** The objective of the singleton partition (where every fit starts). *)
Lemma objective_singletons g ows iws res :
  let n := length g in
  objective g ows iws res (seq 0 n) == qsum n (fun i => entry g i i - res * nthq ows i * nthq iws i).
Proof.
  intros n. unfold objective. fold n. apply qsum_ext. intros i Hi.
  transitivity (qsum n (fun j => ind (Nat.eqb j i) * (entry g i j - res * nthq ows i * nthq iws j))).
  - apply qsum_ext. intros j Hj. unfold delta. rewrite !lab_seq by assumption.
    rewrite (Nat.eqb_sym i j). ring.
  - exact (qsum_ind n i (fun j => entry g i j - res * nthq ows i * nthq iws j) Hi).
Qed.

(** ** After _pre_processing: total weight <= 1, node weights are probabilities *)

Lemma qsum_nthq l : qsum (length l) (nthq l) == sumq l.
Proof.
  induction l as [|a l IH] using rev_ind; [reflexivity|].
  rewrite app_length, Nat.add_1_r. cbn [qsum]. rewrite sumq_app. simpl.
  unfold nthq at 2. rewrite app_nth2 by lia. rewrite Nat.sub_diag. simpl.
  rewrite <- IH. apply Qplus_comp; [|ring].
  apply qsum_ext. intros i Hi. unfold nthq. rewrite app_nth1 by exact Hi. reflexivity.
Qed.

Definition probs (n : nat) (ps : list Q) : Prop :=
  length ps = n /\ (forall i, 0 <= nthq ps i) /\ qsum n (nthq ps) == 1.

Lemma sumq_map_div ws s : sumq (map (fun x => Qred (x / s)) ws) == sumq ws / s.
Proof.
  induction ws as [|a t IH]; cbn [map sumq fold_right].
  - unfold Qdiv. ring.
  - fold (sumq (map (fun x => Qred (x / s)) t)). fold (sumq t).
    rewrite IH, Qred_correct. unfold Qdiv. ring.
Qed.

Lemma get_probs_of_probs ws ps : get_probs_of ws = MOk ps -> probs (length ws) ps.
Proof.
  intros H. pose proof (get_probs_of_ok ws ps H) as [Hpos Eps].
  unfold get_probs_of in H.
  destruct (existsb (fun x => negb (Qle_bool 0 x)) ws || Qle_bool (sumq ws) 0) eqn:E; [discriminate|].
  apply orb_false_iff in E. destruct E as [E _]. rewrite existsb_false_iff in E.
  assert (Hnn : forall x, In x ws -> 0 <= x).
  { intros x Hx. specialize (E x Hx). apply negb_false_iff in E. apply Qle_bool_iff. exact E. }
  assert (Hlen : length ps = length ws) by (rewrite Eps; apply map_length).
  split; [exact Hlen|]. split.
  - intros i. destruct (Nat.lt_ge_cases i (length ws)) as [Hi|Hi].
    + rewrite Eps. rewrite nthq_map by exact Hi. rewrite Qred_correct.
      assert (H0 : 0 <= nthq ws i) by (apply Hnn; unfold nthq; apply nth_In; exact Hi).
      unfold Qdiv. apply Qmult_le_0_compat; [exact H0|]. apply Qinv_le_0_compat. lra.
    + unfold nthq. rewrite nth_overflow by lia. lra.
  - rewrite <- Hlen, qsum_nthq, Eps, sumq_map_div. field. lra.
Qed.

Lemma node_weights_probs kind g ow iw :
  node_weights kind g = MOk (ow, iw) -> probs (length g) ow /\ probs (length g) iw.
Proof.
  unfold node_weights. destruct kind.
  - destruct (get_probs_of (make_weights_out Degree g)) as [p|] eqn:E1; [|intros; discriminate].
    destruct (get_probs_of (make_weights_in Degree g)) as [q|] eqn:E2; [|intros; discriminate].
    intros H. assert (ow = p) by congruence. assert (iw = q) by congruence. subst.
    apply get_probs_of_probs in E1. apply get_probs_of_probs in E2.
    rewrite make_weights_out_length in E1. rewrite make_weights_in_length in E2. auto.
  - destruct (get_probs_of (make_weights_out Degree g)) as [p|] eqn:E1; [|intros; discriminate].
    intros H. assert (ow = p) by congruence. assert (iw = p) by congruence. subst.
    apply get_probs_of_probs in E1. rewrite make_weights_out_length in E1. auto.
  - destruct (get_probs_of (make_weights_out Uniform g)) as [p|] eqn:E1; [|intros; discriminate].
    intros H. assert (ow = p) by congruence. assert (iw = p) by congruence. subst.
    apply get_probs_of_probs in E1. rewrite make_weights_out_length in E1. auto.
Qed.

(** For every modularity kind ('dugue', 'newman', 'potts'): if the working adjacency has non-negative
    entries and resolution >= 0, then -resolution <= objective <= 1 for EVERY labelling. *)
Lemma prep_objective_bounded kind m fb index p res labels :
  pre_processing kind m fb index = MOk p ->
  let g1 := working_graph kind m fb index in
  (forall i j, (i < length g1)%nat -> (j < length g1)%nat -> 0 <= entry g1 i j) ->
  0 <= res ->
  - res <= objective (p_adj p) (p_out p) (p_in p) res labels /\
  objective (p_adj p) (p_out p) (p_in p) res labels <= 1.
Proof.
  intros Hp g1 He Hres.
  destruct (pre_processing_inv kind m fb index p Hp) as [ow [iw [Hnw [Ho [Hi Ha]]]]]. fold g1 in Hnw, Ha.
  subst ow iw.
  destruct (node_weights_probs kind g1 _ _ Hnw) as [[Lo [Po So]] [Li [Pi Si]]].
  assert (Hlen : length (p_adj p) = length g1) by (rewrite Ha, scale_length, symmetrize_length; reflexivity).
  set (n := length g1) in *. set (w := total_weight g1).
  assert (Hw : 0 <= w) by (apply qsum2_nonneg; intros i j Hi' Hj'; apply He; assumption).
  assert (Hent : forall i j, (i < n)%nat -> (j < n)%nat ->
             entry (p_adj p) i j == (entry g1 i j + entry g1 j i) / (2 * w)).
  { intros i j Hi' Hj'. rewrite Ha, scale_entry, (symmetrize_entry g1 i j Hi' Hj'), total_weight_symmetrize.
    reflexivity. }
  destruct (objective_bounded_nonneg (p_adj p) (p_out p) (p_in p) res labels) as [B1 B2].
  { rewrite Hlen. intros i j Hi' Hj'. rewrite (Hent i j Hi' Hj'). unfold Qdiv.
    apply Qmult_le_0_compat.
    - pose proof (He i j Hi' Hj'). pose proof (He j i Hj' Hi'). lra.
    - apply Qinv_le_0_compat. lra. }
  { intros i _. apply Po. }
  { intros i _. apply Pi. }
  { exact Hres. }
  rewrite Hlen in B1. fold n in B1. rewrite So, Si in B1.
  split; [lra|].
  assert (Htw : total_weight (p_adj p) <= 1).
  { unfold total_weight. rewrite Hlen. fold n.
    fold (qsum2 n n (fun i j => entry (p_adj p) i j)).
    rewrite (qsum2_ext n n _ (fun i j => (1 / (2 * w)) * (entry g1 i j + entry g1 j i))).
    2:{ intros i j Hi' Hj'. rewrite (Hent i j Hi' Hj'). unfold Qdiv. ring. }
    rewrite qsum2_scal, qsum2_plus.
    assert (Esw : qsum2 n n (fun i j => entry g1 j i) == w).
    { unfold qsum2. rewrite qsum_swap. reflexivity. }
    assert (Ew : qsum2 n n (fun i j => entry g1 i j) == w) by reflexivity.
    rewrite Esw, Ew.
    destruct (Qeq_dec w 0) as [E0|E0].
    - generalize (1 / (2 * w)). intros c. rewrite E0. lra.
    - assert (E1 : 1 / (2 * w) * (w + w) == 1) by (field; exact E0). rewrite E1. lra. }
  lra.
Qed.

(** * 2. The pass loop of optimize_core *)

(** Explicit fuel: ceil((B - objective(start)) / tol) + 1 passes. *)
Definition pass_fuel (B obj0 tol : Q) : nat := S (Z.to_nat (Qceiling ((B - obj0) / tol))).

Lemma pass_fuel_gap B obj0 tol fuel :
  0 < tol -> (pass_fuel B obj0 tol <= fuel)%nat -> B - obj0 < tol * inject_Z (Z.of_nat fuel).
Proof.
  intros Htol Hf. unfold pass_fuel in Hf. set (q := (B - obj0) / tol) in *.
  assert (E : B - obj0 == q * tol) by (unfold q; field; lra).
  pose proof (Qle_ceiling q) as Hc.
  assert (Hz : (Qceiling q + 1 <= Z.of_nat fuel)%Z) by lia.
  assert (Hq : inject_Z (Qceiling q) + 1 <= inject_Z (Z.of_nat fuel)).
  { change 1 with (inject_Z 1). rewrite <- inject_Z_plus. rewrite <- Zle_Qle. exact Hz. }
  rewrite E. rewrite (Qmult_comm tol). apply Qmult_lt_compat_r; [exact Htol|]. lra.
Qed.

Section PassLoop.
  Context (g : wgraph) (ows iws sls : list Q) (res : Q) (k : nat).
  Context (Hwf : wf_wgraph g) (Hsym : wsymmetric g).
  Context (Hsl : forall i, (i < length g)%nat -> nthq sls i == entry g i i).
  Context (tol B : Q) (HB : forall l, objective g ows iws res l <= B).

  Lemma opt_loop_terminates : forall fuel st inc,
    kinv g ows iws k st ->
    B - objective g ows iws res (k_labels st) < tol * inject_Z (Z.of_nat fuel) ->
    exists st' inc', opt_loop fuel g ows iws sls res tol st inc = Some (st', inc').
  Proof.
    induction fuel as [|f IH]; intros st inc Hinv Hgap.
    - exfalso. pose proof (HB (k_labels st)) as H. change (inject_Z (Z.of_nat 0)) with 0 in Hgap. lra.
    - cbn [opt_loop].
      destruct (one_pass_ok g ows iws sls res k Hwf Hsym Hsl st Hinv) as [P1 [P2 [P3 P4]]].
      set (st1 := one_pass g ows iws sls res st) in *.
      destruct (Qle_bool (k_inc_pass st1) tol) eqn:E.
      + eexists. eexists. reflexivity.
      + apply IH.
        * apply (kinv_same g ows iws k st1); auto.
        * cbn [k_labels].
          assert (Hlt : tol < k_inc_pass st1).
          { destruct (Qlt_le_dec tol (k_inc_pass st1)) as [H|H]; [exact H|].
            apply Qle_bool_iff in H. congruence. }
          rewrite Nat2Z.inj_succ, <- Z.add_1_r, inject_Z_plus in Hgap.
          change (inject_Z 1) with 1 in Hgap. unfold obj in P2. lra.
  Qed.
End PassLoop.

Lemma optimize_terminates_gap fuel g ows iws res tol B labels ocw icw mg :
  wf_wgraph g -> wsymmetric g ->
  length labels = length g -> length ocw = length icw ->
  (forall x, (x < length g)%nat -> (lab labels x < length ocw)%nat) ->
  (forall c, (c < length ocw)%nat -> nthq ocw c == csum g labels ows c) ->
  (forall c, (c < length ocw)%nat -> nthq icw c == csum g labels iws c) ->
  0 < tol -> (forall l, objective g ows iws res l <= B) ->
  B - objective g ows iws res labels < tol * inject_Z (Z.of_nat fuel) ->
  exists st inc, optimize fuel g ows iws res tol labels ocw icw mg = Some (st, inc).
Proof.
  intros Hwf Hsym Hlen Hoi Hlt Hocw Hicw Htol HB Hgap. unfold optimize.
  set (st0 := {| k_labels := labels; k_out_cw := ocw; k_in_cw := icw;
                 k_cw := repeat 0 (length ocw); k_inc_pass := 0; k_margin := mg |}).
  assert (H0 : kinv g ows iws (length ocw) st0).
  { constructor; cbn [st0 k_labels k_out_cw k_in_cw k_cw]; auto.
    - apply repeat_length.
    - intros c Hc. rewrite nthq_repeat by exact Hc. reflexivity. }
  exact (opt_loop_terminates g ows iws (diagonal g) res (length ocw) Hwf Hsym
           (fun i Hi => diagonal_nth g i Hi) tol B HB fuel st0 0 H0 Hgap).
Qed.

(** optimize_core as called by Louvain._optimize / Leiden._optimize (any start labelling whose cluster
    weight arrays are consistent): with tol > 0, B any upper bound of the objective, and
    fuel >= ceil((B - objective(start)) / tol) + 1 passes, the [while] loop returns. *)
Lemma optimize_terminates fuel g ows iws res tol B labels ocw icw mg :
  wf_wgraph g -> wsymmetric g ->
  length labels = length g -> length ocw = length icw ->
  (forall x, (x < length g)%nat -> (lab labels x < length ocw)%nat) ->
  (forall c, (c < length ocw)%nat -> nthq ocw c == csum g labels ows c) ->
  (forall c, (c < length ocw)%nat -> nthq icw c == csum g labels iws c) ->
  0 < tol -> (forall l, objective g ows iws res l <= B) ->
  (pass_fuel B (objective g ows iws res labels) tol <= fuel)%nat ->
  exists st inc, optimize fuel g ows iws res tol labels ocw icw mg = Some (st, inc).
Proof.
  intros Hwf Hsym Hlen Hoi Hlt Hocw Hicw Htol HB Hf.
  apply (optimize_terminates_gap fuel g ows iws res tol B); auto.
  apply pass_fuel_gap; assumption.
Qed.

(** Louvain's call (labels = arange(n), cluster weights = node weights), with the bound computed from
    the inputs. *)
Lemma optimize_singletons_terminates fuel g ows iws res tol mg :
  wf_wgraph g -> wsymmetric g -> length ows = length g -> length iws = length g ->
  0 < tol ->
  let n := length g in
  (pass_fuel (objective_bound g ows iws res) (objective g ows iws res (seq 0 n)) tol <= fuel)%nat ->
  exists st inc, optimize fuel g ows iws res tol (seq 0 n) ows iws mg = Some (st, inc).
Proof.
  intros Hwf Hsym Ho Hi Htol n Hf.
  apply (optimize_terminates fuel g ows iws res tol (objective_bound g ows iws res)); auto.
  - apply seq_length.
  - congruence.
  - intros x Hx. rewrite lab_seq by exact Hx. lia.
  - intros c Hc. apply csum_singletons. lia.
  - intros c Hc. apply csum_singletons. lia.
  - intros l. apply objective_abs_bounded.
Qed.

(** * 3. The aggregation loop of Louvain.fit *)

(** If np.unique finds as many distinct labels as there are nodes, no two nodes share a label. *)
Lemma unique_inverse_full_injective l :
  l <> [] -> (length l <= n_labels (unique_inverse l))%nat ->
  forall x y, (x < length l)%nat -> (y < length l)%nat -> lab l x = lab l y -> x = y.
Proof.
  intros Hne Hfull x y Hx Hy E. set (u := unique_inverse l) in *.
  assert (Hlen : length u = length l) by apply unique_inverse_length.
  assert (Hincl : incl (seq 0 (n_labels u)) u).
  { intros C HC. apply in_seq in HC. destruct (unique_inverse_onto l C Hne) as [z [Hz Ez]]; [fold u; lia|].
    fold u in Ez. rewrite <- Ez. apply lab_In. lia. }
  assert (Hnd : NoDup u).
  { apply (@NoDup_incl_NoDup nat (seq 0 (n_labels u)) u); [apply seq_NoDup|rewrite seq_length; lia|exact Hincl]. }
  pose proof (unique_inverse_pattern l x y Hx Hy) as Hp. fold u in Hp.
  rewrite E, Nat.eqb_refl in Hp. apply Nat.eqb_eq in Hp.
  apply (proj1 (NoDup_nth u 0%nat) Hnd); [lia|lia|exact Hp].
Qed.

Section LevelsTermination.
  Context (g0 : wgraph) (ows0 iws0 : list Q) (res : Q).
  Let n0 := length g0.
  Let obj0 := objective g0 ows0 iws0 res.
  Context (tol_opt tol_agg B : Q) (n_agg : Z) (kfuel : nat).
  Context (Htol : 0 < tol_opt) (Hagg : 0 <= tol_agg) (HB : forall l, obj0 l <= B).
  Context (Hk : B - obj0 (seq 0 n0) < tol_opt * inject_Z (Z.of_nat kfuel)).

  Lemma louvain_loop_terminates : forall fuel g ows iws membership count log mg,
    level_inv g0 ows0 iws0 res g ows iws membership ->
    obj0 (seq 0 n0) <= obj0 membership ->
    (length g <= fuel)%nat -> (1 <= fuel)%nat ->
    exists r, louvain_loop fuel kfuel res tol_opt tol_agg n_agg g ows iws membership count log mg = MOk r.
  Proof.
    induction fuel as [|f IH]; intros g ows iws membership count log mg Hlv Hmono Hfuel H1; [lia|].
    cbn [louvain_loop].
    pose proof Hlv as [Hwf Hsym Ho Hi Hml Hmlt Hobj Hconn].
    assert (Hsing : objective g ows iws res (seq 0 (length g)) == obj0 membership).
    { rewrite (Hobj (seq 0 (length g))). apply objective_ext. intros x Hx. fold n0 in Hx.
      rewrite lab_map by (rewrite Hml; exact Hx).
      change (nthn (seq 0 (length g)) (lab membership x)) with (lab (seq 0 (length g)) (lab membership x)).
      apply lab_seq. apply Hmlt. exact Hx. }
    destruct (optimize_terminates_gap kfuel g ows iws res tol_opt B (seq 0 (length g)) ows iws mg Hwf Hsym)
      as [st [inc Eopt]].
    { apply seq_length. }
    { congruence. }
    { intros x Hx. rewrite lab_seq by exact Hx. lia. }
    { intros c Hc. apply csum_singletons. lia. }
    { intros c Hc. apply csum_singletons. lia. }
    { exact Htol. }
    { intros l. rewrite (Hobj l). apply HB. }
    { rewrite Hsing. lra. }
    rewrite Eopt.
    destruct (optimize_ok kfuel g ows iws res tol_opt (seq 0 (length g)) ows iws mg st inc Hwf Hsym)
      as [Kl [Klt [Kinc [Kpos Kcc]]]]; auto.
    { apply seq_length. }
    { congruence. }
    { intros x Hx. rewrite lab_seq by exact Hx. lia. }
    { intros c Hc. apply csum_singletons. lia. }
    { intros c Hc. apply csum_singletons. lia. }
    specialize (Kcc (cc_inv_singletons g)).
    set (lu := unique_inverse (k_labels st)) in *.
    assert (Hlu : length lu = length g) by (unfold lu; rewrite unique_inverse_length; exact Kl).
    assert (Hpat : forall x y, (x < length g)%nat -> (y < length g)%nat ->
               Nat.eqb (lab lu x) (lab lu y) = Nat.eqb (lab (k_labels st) x) (lab (k_labels st) y)).
    { intros x y Hx Hy. apply unique_inverse_pattern; rewrite Kl; assumption. }
    assert (Hcclu : cc_inv g lu) by (apply (cc_inv_pattern g (k_labels st)); assumption).
    pose proof (level_step g0 ows0 iws0 res g ows iws membership lu Hlv Hlu Hcclu) as Hnext. cbv zeta in Hnext.
    set (mem' := map (fun c => nthn lu c) membership) in *.
    assert (Hinc : inc == obj0 mem' - obj0 membership).
    { rewrite Kinc. rewrite <- (objective_pattern g ows iws res (k_labels st) lu Hpat).
      rewrite (Hobj lu), Hsing. reflexivity. }
    destruct (Nat.eqb (n_labels lu) 1 || Qle_bool inc tol_agg || Z.eqb (Z.of_nat (S count)) n_agg) eqn:Estop.
    - eexists. reflexivity.
    - apply orb_false_iff in Estop. destruct Estop as [Estop _].
      apply orb_false_iff in Estop. destruct Estop as [Ek Einc].
      apply Nat.eqb_neq in Ek.
      assert (Hpos : tol_agg < inc).
      { destruct (Qlt_le_dec tol_agg inc) as [H|H]; [exact H|]. apply Qle_bool_iff in H. congruence. }
      (* a positive increase means two nodes were merged *)
      assert (Hk1 : (n_labels lu < length g)%nat).
      { destruct (Nat.lt_ge_cases (n_labels lu) (length g)) as [H|H]; [exact H|]. exfalso.
        destruct (Nat.eq_dec (length g) 0) as [Hz|Hnz].
        - apply Ek. unfold lu. rewrite Hz in Kl. apply length_zero_iff_nil in Kl. rewrite Kl. reflexivity.
        - assert (Hne : k_labels st <> []) by (intros E; rewrite E in Kl; simpl in Kl; lia).
          assert (Hinj : forall x y, (x < length g)%nat -> (y < length g)%nat ->
                    lab (k_labels st) x = lab (k_labels st) y -> x = y).
          { intros x y Hx Hy. apply (unique_inverse_full_injective (k_labels st) Hne); fold lu; lia. }
          assert (E0 : objective g ows iws res (k_labels st) == objective g ows iws res (seq 0 (length g))).
          { apply objective_pattern. intros x y Hx Hy. rewrite !lab_seq by assumption.
            destruct (Nat.eqb_spec x y) as [->|Hxy]; [apply Nat.eqb_refl|].
            apply Nat.eqb_neq. intros E. apply Hxy. apply Hinj; assumption. }
          lra. }
      apply IH.
      + exact Hnext.
      + fold mem'. lra.
      + rewrite agg_length. lia.
      + unfold n_labels in Hk1. lia.
  Qed.
End LevelsTermination.

(** _pre_processing never runs out of fuel (it has no loop): its only error is ValueError. *)
Lemma get_probs_of_err ws e : get_probs_of ws = MErr e -> e = MValueError.
Proof.
  unfold get_probs_of. destruct (existsb _ ws || Qle_bool (sumq ws) 0); intros H; congruence.
Qed.

Lemma pre_processing_err kind m fb index e : pre_processing kind m fb index = MErr e -> e = MValueError.
Proof.
  unfold pre_processing.
  destruct (get_adjacency m (match kind with Dugue => true | _ => false end) fb) as [g0 bip].
  set (g1 := match index with Some ix => permute_graph g0 ix | None => g0 end).
  destruct (node_weights kind g1) as [[ow iw]|e'] eqn:E; [intros; discriminate|].
  intros H. assert (e = e') by congruence. subst e'.
  unfold node_weights in E. destruct kind.
  - destruct (get_probs_of (make_weights_out Degree g1)) as [p|e1] eqn:E1.
    + destruct (get_probs_of (make_weights_in Degree g1)) as [q|e2] eqn:E2; [discriminate|].
      assert (e = e2) by congruence. subst. exact (get_probs_of_err _ _ E2).
    + assert (e = e1) by (destruct (get_probs_of (make_weights_in Degree g1)); congruence).
      subst. exact (get_probs_of_err _ _ E1).
  - destruct (get_probs_of (make_weights_out Degree g1)) as [p|e1] eqn:E1; [discriminate|].
    assert (e = e1) by congruence. subst. exact (get_probs_of_err _ _ E1).
  - destruct (get_probs_of (make_weights_out Uniform g1)) as [p|e1] eqn:E1; [discriminate|].
    assert (e = e1) by congruence. subst. exact (get_probs_of_err _ _ E1).
Qed.

(** The loop of Louvain.fit on a pre-processed input: B any upper bound of the objective. *)
Lemma louvain_loop_fit_terminates fuel kfuel kind res tol_opt tol_agg n_agg m fb index p B :
  pre_processing kind m fb index = MOk p ->
  0 < tol_opt -> 0 <= tol_agg ->
  (forall l, objective (p_adj p) (p_out p) (p_in p) res l <= B) ->
  (pass_fuel B (objective (p_adj p) (p_out p) (p_in p) res (seq 0 (length (p_adj p)))) tol_opt <= kfuel)%nat ->
  (length (p_adj p) <= fuel)%nat ->
  exists r, louvain_loop fuel kfuel res tol_opt tol_agg n_agg (p_adj p) (p_out p) (p_in p)
                         (seq 0 (length (p_adj p))) 0 [] marg0 = MOk r.
Proof.
  intros Hp Htol Hagg HB Hk Hf.
  destruct (prep_level kind m fb index p res Hp) as [Hlv Hlen].
  destruct (pre_processing_inv kind m fb index p Hp) as [ow [iw [Hnw _]]].
  pose proof (node_weights_pos kind _ ow iw Hnw) as Hpos. rewrite <- Hlen in Hpos.
  apply (louvain_loop_terminates (p_adj p) (p_out p) (p_in p) res tol_opt tol_agg B n_agg kfuel
           Htol Hagg HB); auto.
  - apply pass_fuel_gap; assumption.
  - lra.
  - lia.
Qed.

(** Fuel computable from the input of fit. *)
Definition louvain_kfuel (kind : modkind) (res tol_opt : Q) (m : wmat) (fb : bool) (index : option (list nat)) : nat :=
  match pre_processing kind m fb index with
  | MOk p => pass_fuel (objective_bound (p_adj p) (p_out p) (p_in p) res)
                       (objective (p_adj p) (p_out p) (p_in p) res (seq 0 (length (p_adj p)))) tol_opt
  | MErr _ => 0%nat
  end.
Definition louvain_fuel (kind : modkind) (m : wmat) (fb : bool) (index : option (list nat)) : nat :=
  length (working_graph kind m fb index).

Lemma louvain_loop_fit_terminates_abs fuel kfuel kind res tol_opt tol_agg n_agg m fb index p :
  pre_processing kind m fb index = MOk p ->
  0 < tol_opt -> 0 <= tol_agg ->
  (louvain_kfuel kind res tol_opt m fb index <= kfuel)%nat ->
  (louvain_fuel kind m fb index <= fuel)%nat ->
  exists r, louvain_loop fuel kfuel res tol_opt tol_agg n_agg (p_adj p) (p_out p) (p_in p)
                         (seq 0 (length (p_adj p))) 0 [] marg0 = MOk r.
Proof.
  intros Hp Htol Hagg Hk Hf. unfold louvain_kfuel in Hk. rewrite Hp in Hk.
  apply (louvain_loop_fit_terminates fuel kfuel kind res tol_opt tol_agg n_agg m fb index p
           (objective_bound (p_adj p) (p_out p) (p_in p) res)); auto.
  - intros l. apply objective_abs_bounded.
  - rewrite (proj2 (prep_level kind m fb index p res Hp)). exact Hf.
Qed.

(** Louvain.fit never runs out of fuel. *)
Lemma louvain_fit_never_out_of_fuel fuel kfuel kind res tol_opt tol_agg n_agg sort m fb index :
  0 < tol_opt -> 0 <= tol_agg ->
  (louvain_kfuel kind res tol_opt m fb index <= kfuel)%nat ->
  (louvain_fuel kind m fb index <= fuel)%nat ->
  louvain_fit fuel kfuel kind res tol_opt tol_agg n_agg sort m fb index <> MErr MOutOfFuel.
Proof.
  intros Htol Hagg Hk Hf. unfold louvain_fit.
  destruct (Nat.eqb (nnz (w_rows m)) 0); [discriminate|].
  destruct (pre_processing kind m fb index) as [p|e] eqn:Hp.
  - destruct (louvain_loop_fit_terminates_abs fuel kfuel kind res tol_opt tol_agg n_agg m fb index p
                Hp Htol Hagg Hk Hf) as [r Er].
    rewrite Er. discriminate.
  - rewrite (pre_processing_err kind m fb index e Hp). discriminate.
Qed.

(** louvain_increase_total (Props/C06.v) without the "model returns" hypothesis. *)
Lemma louvain_fit_core_unconditional fuel kfuel kind res tol_opt tol_agg n_agg m fb index p :
  pre_processing kind m fb index = MOk p ->
  0 < tol_opt -> 0 <= tol_agg ->
  (louvain_kfuel kind res tol_opt m fb index <= kfuel)%nat ->
  (louvain_fuel kind m fb index <= fuel)%nat ->
  exists r,
    louvain_loop fuel kfuel res tol_opt tol_agg n_agg (p_adj p) (p_out p) (p_in p)
                 (seq 0 (length (p_adj p))) 0 [] marg0 = MOk r /\
    let obj := objective (p_adj p) (p_out p) (p_in p) res in
    let g1 := working_graph kind m fb index in
    obj (r_membership r) - obj (seq 0 (length (p_adj p))) == log_total (r_log r) /\
    0 <= log_total (r_log r) /\
    log_nonneg (r_log r) /\
    length (r_membership r) = length g1 /\
    (forall u v, (u < length g1)%nat -> (v < length g1)%nat ->
       lab (r_membership r) u = lab (r_membership r) v -> connected g1 u v).
Proof.
  intros Hp Htol Hagg Hk Hf.
  destruct (louvain_loop_fit_terminates_abs fuel kfuel kind res tol_opt tol_agg n_agg m fb index p
              Hp Htol Hagg Hk Hf) as [r Er].
  exists r. split; [exact Er|].
  exact (louvain_fit_core fuel kfuel kind res tol_opt tol_agg n_agg m fb index p r Hp Er).
Qed.

(** * 4. tol_optimization = 0 in EXACT arithmetic
    Every pass that does not stop the loop strictly increases the objective, which takes at most
    k^n values on the labellings of n nodes with labels < k: the loop returns within k^n + 1 passes.
    (This is a statement about the exact-rational model only: in the float32 kernel a "gain" can be
    rounding noise, known finding D32; the bound is astronomically large and only meant as a statement.) *)

Fixpoint all_labelings (n k : nat) : list (list nat) :=
  match n with
  | O => [[]]
  | S m => flat_map (fun l => map (fun c => c :: l) (seq 0 k)) (all_labelings m k)
  end.

Lemma all_labelings_In k l : Forall (fun c => (c < k)%nat) l -> In l (all_labelings (length l) k).
Proof.
  induction l as [|c l IH]; intros H; simpl; [left; reflexivity|].
  apply Forall_cons_iff in H. destruct H as [Hc Hl].
  apply in_flat_map. exists l. split; [apply IH; exact Hl|].
  apply in_map_iff. exists c. split; [reflexivity|]. apply in_seq. lia.
Qed.

Lemma all_labelings_length n k : length (all_labelings n k) = (k ^ n)%nat.
Proof.
  induction n as [|n IH]; [reflexivity|]. cbn [all_labelings Nat.pow]. rewrite <- IH.
  generalize (all_labelings n k). intros L. induction L as [|l L IHL]; simpl; [lia|].
  rewrite app_length, map_length, seq_length, IHL. lia.
Qed.

Lemma filter_length_le {A} (p q : A -> bool) l :
  (forall v, p v = true -> q v = true) -> (length (filter p l) <= length (filter q l))%nat.
Proof.
  intros H. induction l as [|a l IH]; simpl; [lia|].
  destruct (p a) eqn:Ep; [rewrite (H a Ep); simpl; lia|]. destruct (q a); simpl; lia.
Qed.

Lemma filter_length_all {A} (p : A -> bool) l : (length (filter p l) <= length l)%nat.
Proof. induction l as [|a l IH]; simpl; [lia|]. destruct (p a); simpl; lia. Qed.

Lemma filter_length_lt {A} (p q : A -> bool) l y :
  (forall v, p v = true -> q v = true) -> In y l -> q y = true -> p y = false ->
  (length (filter p l) < length (filter q l))%nat.
Proof.
  intros H Hin Hq Hp. induction l as [|a l IH]; [destruct Hin|]. simpl.
  destruct Hin as [<-|Hin].
  - rewrite Hq, Hp. simpl. pose proof (filter_length_le p q l H). lia.
  - specialize (IH Hin). destruct (p a) eqn:Ep; [rewrite (H a Ep); simpl; lia|].
    destruct (q a); simpl; lia.
Qed.

Section PassLoopExact.
  Context (g : wgraph) (ows iws sls : list Q) (res : Q) (k : nat).
  Context (Hwf : wf_wgraph g) (Hsym : wsymmetric g).
  Context (Hsl : forall i, (i < length g)%nat -> nthq sls i == entry g i i).
  Context (tol : Q) (Htol : 0 <= tol).

  (** number of objective values strictly above x *)
  Definition above (x : Q) : nat :=
    length (filter (fun v => Qltb x v) (map (objective g ows iws res) (all_labelings (length g) k))).

  Lemma above_le x : (above x <= k ^ length g)%nat.
  Proof.
    unfold above. etransitivity; [apply filter_length_all|]. rewrite map_length, all_labelings_length. lia.
  Qed.

  Lemma above_decr st x :
    kinv g ows iws k st -> x < objective g ows iws res (k_labels st) ->
    (above (objective g ows iws res (k_labels st)) < above x)%nat.
  Proof.
    intros Hinv Hlt. unfold above. set (y := objective g ows iws res (k_labels st)) in *.
    apply (filter_length_lt _ _ _ y).
    - intros v Hv. apply Qltb_lt in Hv. apply Qltb_lt. lra.
    - apply in_map. rewrite <- (ki_labels _ _ _ _ _ Hinv). apply all_labelings_In.
      apply Forall_forall. intros c Hc. apply (In_nth _ _ 0%nat) in Hc. destruct Hc as [i [Hi <-]].
      apply (ki_lt _ _ _ _ _ Hinv). rewrite <- (ki_labels _ _ _ _ _ Hinv). exact Hi.
    - apply Qltb_lt. exact Hlt.
    - destruct (Qltb y y) eqn:E; [|reflexivity]. apply Qltb_lt in E. lra.
  Qed.

  Lemma opt_loop_terminates_exact : forall fuel st inc,
    kinv g ows iws k st ->
    (above (objective g ows iws res (k_labels st)) < fuel)%nat ->
    exists st' inc', opt_loop fuel g ows iws sls res tol st inc = Some (st', inc').
  Proof.
    induction fuel as [|f IH]; intros st inc Hinv Hf; [lia|].
    cbn [opt_loop].
    destruct (one_pass_ok g ows iws sls res k Hwf Hsym Hsl st Hinv) as [P1 [P2 [P3 P4]]].
    set (st1 := one_pass g ows iws sls res st) in *.
    destruct (Qle_bool (k_inc_pass st1) tol) eqn:E.
    - eexists. eexists. reflexivity.
    - assert (Hlt : tol < k_inc_pass st1).
      { destruct (Qlt_le_dec tol (k_inc_pass st1)) as [H|H]; [exact H|].
        apply Qle_bool_iff in H. congruence. }
      apply IH.
      + apply (kinv_same g ows iws k st1); auto.
      + cbn [k_labels]. unfold obj in P2.
        assert (Hd : (above (objective g ows iws res (k_labels st1))
                      < above (objective g ows iws res (k_labels st)))%nat).
        { apply above_decr; [exact P1|lra]. }
        lia.
  Qed.
End PassLoopExact.

(** optimize_core with tol >= 0 (in particular tol = 0) in exact arithmetic: k^n + 1 passes suffice,
    k = number of cluster slots, n = number of nodes. *)
Lemma optimize_terminates_exact fuel g ows iws res tol labels ocw icw mg :
  wf_wgraph g -> wsymmetric g ->
  length labels = length g -> length ocw = length icw ->
  (forall x, (x < length g)%nat -> (lab labels x < length ocw)%nat) ->
  (forall c, (c < length ocw)%nat -> nthq ocw c == csum g labels ows c) ->
  (forall c, (c < length ocw)%nat -> nthq icw c == csum g labels iws c) ->
  0 <= tol ->
  (S (length ocw ^ length g) <= fuel)%nat ->
  exists st inc, optimize fuel g ows iws res tol labels ocw icw mg = Some (st, inc).
Proof.
  intros Hwf Hsym Hlen Hoi Hlt Hocw Hicw Htol Hf. unfold optimize.
  set (st0 := {| k_labels := labels; k_out_cw := ocw; k_in_cw := icw;
                 k_cw := repeat 0 (length ocw); k_inc_pass := 0; k_margin := mg |}).
  assert (H0 : kinv g ows iws (length ocw) st0).
  { constructor; cbn [st0 k_labels k_out_cw k_in_cw k_cw]; auto.
    - apply repeat_length.
    - intros c Hc. rewrite nthq_repeat by exact Hc. reflexivity. }
  apply (opt_loop_terminates_exact g ows iws (diagonal g) res (length ocw) Hwf Hsym
           (fun i Hi => diagonal_nth g i Hi) tol Htol fuel st0 0 H0).
  pose proof (above_le g ows iws res (length ocw) (objective g ows iws res (k_labels st0))). lia.
Qed.

(** * Executable checks for examples *)
Definition wsymmetricb (g : wgraph) : bool :=
  forallb (fun i => forallb (fun j => Qeq_bool (entry g i j) (entry g j i)) (seq 0 (length g)))
          (seq 0 (length g)).
Lemma wsymmetricb_ok g : wsymmetricb g = true -> wsymmetric g.
Proof.
  unfold wsymmetricb. rewrite forallb_forall. intros H i j Hi Hj.
  specialize (H i). rewrite in_seq in H. specialize (H (conj (Nat.le_0_l i) Hi)).
  rewrite forallb_forall in H. specialize (H j). rewrite in_seq in H.
  apply Qeq_bool_iff. apply H. lia.
Qed.

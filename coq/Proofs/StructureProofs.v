(** Proofs about Model/Structure.v: is_bipartite (sound, complete, total), is_connected,
    get_largest_connected_component (under the oracle contract). *)
From SKN Require Import Base.Util Model.Bfs Model.Structure Proofs.BfsProofs.
From Coq Require Import Permutation.

(** * Generic helpers *)

Lemma row_map_lt {A} (f : A -> list nat) (l : list A) (i : nat) (d : A) :
  i < length l -> row (map f l) i = f (nth i l d).
Proof. intros H. unfold row. apply nth_map_lt. exact H. Qed.

Lemma row_oob (g : graph) (u : nat) : length g <= u -> row g u = [].
Proof. intros H. unfold row. apply nth_overflow. exact H. Qed.

Lemma edgeb_true g u v : edgeb g u v = true <-> In v (row g u).
Proof. unfold edgeb. apply memn_In. Qed.

Lemma nodes_In g u : In u (nodes g) <-> u < length g.
Proof. unfold nodes. rewrite in_seq. lia. Qed.

Lemma is_symmetric_spec g :
  is_symmetric g = true <-> forall u v, In v (row g u) -> In u (row g v).
Proof.
  unfold is_symmetric. rewrite forallb_forall. split.
  - intros H u v Hv. assert (Hu : u < length g) by (eapply row_nonempty_lt; eauto).
    specialize (H u (proj2 (nodes_In g u) Hu)). rewrite forallb_forall in H.
    apply edgeb_true. apply H. exact Hv.
  - intros H u _. apply forallb_forall. intros v Hv. apply edgeb_true. apply H. exact Hv.
Qed.

Lemma has_loops_spec g : has_loops g = true <-> exists u, u < length g /\ In u (row g u).
Proof.
  unfold has_loops. rewrite existsb_exists. split.
  - intros [u [Hu E]]. exists u. split; [apply nodes_In; exact Hu | apply edgeb_true; exact E].
  - intros [u [Hu E]]. exists u. split; [apply nodes_In; exact Hu | apply edgeb_true; exact E].
Qed.

Lemma has_loops_false g : has_loops g = false <-> forall u, ~ In u (row g u).
Proof.
  split.
  - intros H u Hu. assert (has_loops g = true); [|congruence].
    apply has_loops_spec. exists u. split; [eapply row_nonempty_lt; eauto | exact Hu].
  - intros H. destruct (has_loops g) eqn:E; auto.
    apply has_loops_spec in E. destruct E as [u [_ Hu]]. exfalso. eapply H; eauto.
Qed.

(** Entries of a sub-matrix. *)
Lemma submatrix_entry (m : pmat) (rws cls : list nat) (a b : nat) :
  a < length rws -> b < length cls ->
  (In b (row (p_rows (submatrix m rws cls)) a) <-> In (nthn cls b) (row (p_rows m) (nthn rws a))).
Proof.
  intros Ha Hb. unfold submatrix. cbn [p_rows].
  rewrite (row_map_lt _ rws a 0) by exact Ha.
  rewrite filter_In, in_seq, memn_In. unfold nthn. split; [tauto|]. intros H. split; [lia | exact H].
Qed.

Lemma submatrix_shape (m : pmat) (rws cls : list nat) :
  p_nrow (submatrix m rws cls) = length rws /\ p_ncol (submatrix m rws cls) = length cls.
Proof. unfold submatrix, p_nrow. cbn. rewrite map_length. auto. Qed.

(** * reach *)
Lemma reach_trans E u v w : reach E u v -> reach E v w -> reach E u w.
Proof. intros H; induction H as [u|u x v Hux Hxv IH]; intros Hw; auto. eapply reach_step; eauto. Qed.

Lemma reach_one (E : nat -> nat -> Prop) u v : E u v -> reach E u v.
Proof. intros H. eapply reach_step; [exact H | apply reach_refl]. Qed.

Lemma reach_sym (E : nat -> nat -> Prop) :
  (forall a b, E a b -> E b a) -> forall u v, reach E u v -> reach E v u.
Proof.
  intros Hs u v H. induction H as [u|u x v Hux Hxv IH]; [apply reach_refl|].
  eapply reach_trans; [exact IH | apply reach_one; apply Hs; exact Hux].
Qed.

Lemma sedge_sym g a b : sedge g a b -> sedge g b a.
Proof. unfold sedge. tauto. Qed.

Lemma wconn_sym g u v : wconn g u v -> wconn g v u.
Proof. apply reach_sym. apply sedge_sym. Qed.

Lemma reach_mono (E F : nat -> nat -> Prop) :
  (forall a b, E a b -> F a b) -> forall u v, reach E u v -> reach F u v.
Proof.
  intros HEF u v H. induction H as [u|u x v Hux Hxv IH]; [apply reach_refl|].
  eapply reach_step; [apply HEF; exact Hux | exact IH].
Qed.

(** * Colour vectors *)
Lemma setc_length col v c : length (setc col v c) = length col.
Proof. revert v; induction col as [|x t IH]; intros [|v]; simpl; auto. Qed.

Lemma getc_setc col v c w :
  getc (setc col v c) w = if (v <? length col) && (w =? v) then c else getc col w.
Proof.
  unfold getc. revert v w; induction col as [|x t IH]; intros v w.
  - simpl. destruct v, w; reflexivity.
  - destruct v as [|v], w as [|w]; simpl; auto.
    + rewrite andb_false_r. reflexivity.
    + rewrite IH. replace (S v <? S (length t)) with (v <? length t) by reflexivity. reflexivity.
Qed.

Lemma getc_setc_same col v c : v < length col -> getc (setc col v c) v = c.
Proof.
  intros H. rewrite getc_setc. apply Nat.ltb_lt in H. rewrite H, Nat.eqb_refl. reflexivity.
Qed.

Lemma getc_setc_other col v c w : w <> v -> getc (setc col v c) w = getc col w.
Proof.
  intros H. rewrite getc_setc. apply Nat.eqb_neq in H. rewrite H, andb_false_r. reflexivity.
Qed.

Lemma getc_oob col v : length col <= v -> getc col v = None.
Proof. intros H. unfold getc. apply nth_overflow. exact H. Qed.

Fixpoint count_none (col : list color) : nat :=
  match col with
  | [] => 0
  | None :: t => S (count_none t)
  | Some _ :: t => count_none t
  end.

Lemma count_none_setc col v c :
  getc col v = None -> v < length col -> S (count_none (setc col v (Some c))) = count_none col.
Proof.
  unfold getc. revert v; induction col as [|x t IH]; intros [|v] Hg Hl; simpl in *; try lia.
  - subst x. reflexivity.
  - destruct x; [apply IH; auto; lia | f_equal; apply IH; auto; lia].
Qed.

Lemma count_none_zero col : count_none col = 0 -> forall u, u < length col -> getc col u <> None.
Proof.
  unfold getc. induction col as [|x t IH]; intros H u Hu; simpl in *; [lia|].
  destruct x; [|discriminate]. destruct u; [discriminate|]. apply IH; auto; lia.
Qed.

Lemma count_none_le col : count_none col <= length col.
Proof. induction col as [|[x|] t IH]; simpl; lia. Qed.

Lemma first_none_spec col i r :
  first_none col i = Some r -> i <= r /\ r - i < length col /\ getc col (r - i) = None.
Proof.
  unfold getc. revert i; induction col as [|x t IH]; intros i H; simpl in *; [discriminate|].
  destruct x.
  - apply IH in H. destruct H as [H1 [H2 H3]].
    replace (r - i) with (S (r - S i)) by lia. simpl. repeat split; try lia. exact H3.
  - inversion H; subst. rewrite Nat.sub_diag. simpl. repeat split; lia.
Qed.

Lemma first_none_none col i : first_none col i = None -> count_none col = 0.
Proof.
  revert i; induction col as [|x t IH]; intros i H; simpl in *; auto.
  destruct x; [eapply IH; eauto | discriminate].
Qed.

Lemma count_none_repeat n : count_none (repeat None n) = n.
Proof. induction n; simpl; auto. Qed.

Lemma getc_repeat n u : getc (repeat None n) u = None.
Proof.
  unfold getc. revert u; induction n as [|n IH]; intros [|u]; simpl; auto.
Qed.

Lemma color_eqb_eq a b : color_eqb a b = true <-> a = b.
Proof.
  destruct a as [[]|], b as [[]|]; simpl; split; intros H; try discriminate; auto; inversion H.
Qed.

(** * is_bipartite: invariants of the colouring loop *)

(** Every coloured node that is not waiting on the stack has all its neighbours coloured with the
    opposite colour; stack entries are coloured nodes of the graph. *)
Record binv (g : graph) (col : list color) (stack : list nat) (rem : nat) : Prop := {
  binv_len : length col = length g;
  binv_rem : rem = count_none col;
  binv_stack : forall u, In u stack -> u < length g /\ getc col u <> None;
  binv_done : forall u c, getc col u = Some c ->
      In u stack \/ forall v, In v (row g u) -> getc col v = Some (negb c)
}.

(** Any proper 2-colouring agrees with the partial colouring up to a swap on each connected class. *)
Definition consistent (g : graph) (col : list color) : Prop :=
  forall f, proper g f -> forall u v cu cv,
    getc col u = Some cu -> getc col v = Some cv -> wconn g u v -> xorb cu cv = xorb (f u) (f v).

Lemma proper_edge g f u v : proper g f -> In v (row g u) -> f v = negb (f u).
Proof.
  intros Hp Hv. assert (Hu : u < length g) by (eapply row_nonempty_lt; eauto).
  specialize (Hp u v Hu Hv). destruct (f u), (f v); simpl; congruence.
Qed.

(** Colouring an uncoloured neighbour v of a coloured node with the opposite colour. *)
Lemma consistent_extend g col node cn v :
  consistent g col -> getc col node = Some cn -> getc col v = None -> In v (row g node) ->
  consistent g (setc col v (Some (negb cn))).
Proof.
  intros Hc Hn Hv Hedge f Hp a b ca cb Ha Hb Hab.
  assert (Hfv : f v = negb (f node)) by (eapply proper_edge; eauto).
  assert (Hnv : wconn g node v) by (apply reach_one; left; exact Hedge).
  rewrite getc_setc in Ha, Hb.
  destruct ((v <? length col) && (a =? v)) eqn:Ea; destruct ((v <? length col) && (b =? v)) eqn:Eb.
  - apply andb_true_iff in Ea, Eb. destruct Ea as [_ Ea], Eb as [_ Eb].
    apply Nat.eqb_eq in Ea, Eb. subst a b. inversion Ha; inversion Hb; subst.
    rewrite !xorb_nilpotent. reflexivity.
  - apply andb_true_iff in Ea. destruct Ea as [_ Ea]. apply Nat.eqb_eq in Ea. subst a.
    inversion Ha; subst ca.
    assert (H := Hc f Hp node b cn cb Hn Hb (reach_trans _ _ _ _ Hnv Hab)).
    rewrite Hfv. destruct cn, cb, (f node), (f b); simpl in *; congruence.
  - apply andb_true_iff in Eb. destruct Eb as [_ Eb]. apply Nat.eqb_eq in Eb. subst b.
    inversion Hb; subst cb.
    assert (H := Hc f Hp a node ca cn Ha Hn (reach_trans _ _ _ _ Hab (wconn_sym _ _ _ Hnv))).
    rewrite Hfv. destruct cn, ca, (f node), (f a); simpl in *; congruence.
  - eapply Hc; eauto.
Qed.

Lemma consistent_conflict g col node cn v :
  consistent g col -> getc col node = Some cn -> getc col v = Some cn -> In v (row g node) ->
  ~ two_colourable g.
Proof.
  intros Hc Hn Hv Hedge [f Hp].
  assert (Hfv : f v = negb (f node)) by (eapply proper_edge; eauto).
  assert (H := Hc f Hp node v cn cn Hn Hv (reach_one _ _ _ (or_introl Hedge))).
  rewrite xorb_nilpotent, Hfv in H. destruct (f node); simpl in H; discriminate.
Qed.

Ltac split8 := split; [|split; [|split; [|split; [|split; [|split; [|split]]]]]].

(** The [for neighbor] loop. *)
Lemma bip_scan_spec g node cn : forall nbrs col stack rem,
  length col = length g -> getc col node = Some cn -> rem = count_none col ->
  (forall v, In v nbrs -> In v (row g node) /\ v < length g) ->
  consistent g col ->
  match bip_scan node nbrs col stack rem with
  | Conflict => ~ two_colourable g
  | Cont col' stack' rem' =>
      length col' = length g /\ rem' = count_none col' /\ consistent g col' /\
      (forall w c, getc col w = Some c -> getc col' w = Some c) /\
      (forall v, In v nbrs -> getc col' v = Some (negb cn)) /\
      (forall w, In w stack' <-> In w stack \/ (getc col w = None /\ getc col' w <> None)) /\
      (forall w, getc col w = None -> getc col' w <> None -> In w nbrs) /\
      exists k, length stack' = k + length stack /\ count_none col = k + count_none col'
  end.
Proof.
  induction nbrs as [|v t IH]; intros col stack rem Hlen Hn Hrem Hnb Hc.
  - simpl. split8.
    + exact Hlen.
    + exact Hrem.
    + exact Hc.
    + auto.
    + intros v [].
    + intros w. split; [auto|]. intros [H|[H1 H2]]; [exact H | congruence].
    + intros w H1 H2. congruence.
    + exists 0. split; reflexivity.
  - cbn [bip_scan]. assert (Hv : In v (row g node) /\ v < length g) by (apply Hnb; left; reflexivity).
    destruct Hv as [Hvr Hvl].
    assert (Hnb' : forall x, In x t -> In x (row g node) /\ x < length g) by (intros x Hx; apply Hnb; right; exact Hx).
    destruct (getc col v) as [c|] eqn:Ev.
    + rewrite Hn. destruct (color_eqb (Some c) (Some cn)) eqn:Eq.
      * apply color_eqb_eq in Eq. inversion Eq; subst c. exact (consistent_conflict g col node cn v Hc Hn Ev Hvr).
      * specialize (IH col stack rem Hlen Hn Hrem Hnb' Hc).
        destruct (bip_scan node t col stack rem) as [|col' stack' rem']; auto.
        destruct IH as [I1 [I2 [I3 [I4 [I5 [I6 [I7 I8]]]]]]].
        split8; auto.
        -- intros x [Hx|Hx]; [subst x|apply I5; exact Hx].
           apply I4. rewrite Ev. f_equal.
           destruct c, cn; simpl in *; try reflexivity; discriminate.
        -- intros w H1 H2. right. apply I7; auto.
    + rewrite Hn. cbn [option_map].
      assert (Hvcol : v < length col) by lia.
      assert (Hnv : node <> v) by (intros E; subst; congruence).
      set (col1 := setc col v (Some (negb cn))).
      assert (Hlen1 : length col1 = length g) by (unfold col1; rewrite setc_length; exact Hlen).
      assert (Hn1 : getc col1 node = Some cn) by (unfold col1; rewrite getc_setc_other; auto).
      assert (Hrem1 : rem - 1 = count_none col1).
      { unfold col1. pose proof (count_none_setc col v (negb cn) Ev Hvcol). lia. }
      assert (Hc1 : consistent g col1) by (unfold col1; eapply consistent_extend; eauto).
      specialize (IH col1 (v :: stack) (rem - 1) Hlen1 Hn1 Hrem1 Hnb' Hc1).
      destruct (bip_scan node t col1 (v :: stack) (rem - 1)) as [|col' stack' rem']; auto.
      destruct IH as [I1 [I2 [I3 [I4 [I5 [I6 [I7 I8]]]]]]].
      assert (Hv1 : getc col1 v = Some (negb cn)) by (unfold col1; apply getc_setc_same; exact Hvcol).
      assert (Hmono : forall w c, getc col w = Some c -> getc col1 w = Some c).
      { intros w c Hw. unfold col1. rewrite getc_setc_other; auto. intros E; subst; congruence. }
      split8; auto.
      * intros x [Hx|Hx]; [subst x; apply I4; exact Hv1 | apply I5; exact Hx].
      * intros w. split.
        -- intros Hw. apply I6 in Hw. destruct Hw as [[Hw|Hw]|[Hw1 Hw2]].
           ++ subst w. right. split; auto. rewrite (I4 _ _ Hv1). discriminate.
           ++ left; exact Hw.
           ++ right. split; auto. destruct (Nat.eq_dec w v) as [E|E]; [subst; exact Ev|].
              unfold col1 in Hw1. rewrite getc_setc_other in Hw1; auto.
        -- intros [Hw|[Hw1 Hw2]]; apply I6.
           ++ left; right; exact Hw.
           ++ destruct (Nat.eq_dec w v) as [E|E]; [subst; left; left; reflexivity|].
              right. split; auto. unfold col1. rewrite getc_setc_other; auto.
      * intros w H1 H2. destruct (Nat.eq_dec w v) as [E|E]; [left; auto|].
        right. apply I7; auto. unfold col1. rewrite getc_setc_other; auto.
      * pose proof (count_none_setc col v (negb cn) Ev Hvcol) as Hcn. fold col1 in Hcn.
        destruct I8 as [k [K1 K2]]. exists (S k). simpl in K1. split; lia.
Qed.

(** Closedness: with an empty stack, the coloured set is closed under (symmetric) adjacency. *)
Lemma closed_reach g col :
  (forall u v, In v (row g u) -> In u (row g v)) ->
  (forall u c, getc col u = Some c -> forall v, In v (row g u) -> getc col v = Some (negb c)) ->
  forall u v, wconn g u v -> getc col u <> None -> getc col v <> None.
Proof.
  intros Hsym Hcl u v H. induction H as [u|u x v Hux Hxv IH]; auto.
  intros Hu. apply IH. destruct (getc col u) as [c|] eqn:E; [|congruence].
  destruct Hux as [Hux|Hux]; [|apply Hsym in Hux]; rewrite (Hcl u c E x Hux); discriminate.
Qed.

Lemma consistent_new_source g col src :
  (forall u v, In v (row g u) -> In u (row g v)) ->
  binv g col [] (count_none col) -> consistent g col -> getc col src = None ->
  consistent g (setc col src (Some false)).
Proof.
  intros Hsym Hinv Hc Hsrc f Hp a b ca cb Ha Hb Hab.
  assert (Hcl : forall u c, getc col u = Some c -> forall v, In v (row g u) -> getc col v = Some (negb c)).
  { intros u c Hu. destruct (binv_done _ _ _ _ Hinv u c Hu) as [[]|H]; exact H. }
  rewrite getc_setc in Ha, Hb.
  destruct ((src <? length col) && (a =? src)) eqn:Ea; destruct ((src <? length col) && (b =? src)) eqn:Eb.
  - apply andb_true_iff in Ea, Eb. destruct Ea as [_ Ea], Eb as [_ Eb].
    apply Nat.eqb_eq in Ea, Eb. subst a b. inversion Ha; inversion Hb; subst.
    rewrite !xorb_nilpotent. reflexivity.
  - apply andb_true_iff in Ea. destruct Ea as [_ Ea]. apply Nat.eqb_eq in Ea. subst a.
    exfalso. apply (closed_reach g col Hsym Hcl b src (wconn_sym _ _ _ Hab)); congruence.
  - apply andb_true_iff in Eb. destruct Eb as [_ Eb]. apply Nat.eqb_eq in Eb. subst b.
    exfalso. apply (closed_reach g col Hsym Hcl a src Hab); congruence.
  - eapply Hc; eauto.
Qed.

(** One iteration with an empty stack and nodes left: a new source is coloured 0. *)
Lemma new_source_inv g col rem src :
  (forall u v, In v (row g u) -> In u (row g v)) ->
  binv g col [] rem -> consistent g col ->
  src < length col -> getc col src = None ->
  binv g (setc col src (Some false)) [src] (rem - 1) /\
  consistent g (setc col src (Some false)) /\
  S (count_none (setc col src (Some false))) = count_none col.
Proof.
  intros Hsym Hinv Hc Hsl Hsn.
  pose proof (binv_len _ _ _ _ Hinv) as Hlen. pose proof (binv_rem _ _ _ _ Hinv) as Hrem.
  pose proof (count_none_setc col src false Hsn Hsl) as Hcnt.
  split; [|split; [|exact Hcnt]].
  - constructor.
    + rewrite setc_length. exact Hlen.
    + lia.
    + intros u [Hu|[]]. subst u. split; [lia|]. rewrite getc_setc_same by exact Hsl. discriminate.
    + intros u c Hu. destruct (Nat.eq_dec u src) as [E|E]; [left; left; auto|].
      right. rewrite getc_setc_other in Hu by exact E.
      destruct (binv_done _ _ _ _ Hinv u c Hu) as [[]|H].
      intros v Hv. rewrite getc_setc_other; [apply H; exact Hv|].
      intros Ev; subst v. rewrite (H _ Hv) in Hsn. discriminate.
  - apply consistent_new_source; auto. rewrite <- Hrem. exact Hinv.
Qed.

(** One iteration with a non-empty stack. *)
Lemma pop_inv g col node st rem :
  wf_graph g -> binv g col (node :: st) rem -> consistent g col ->
  match bip_scan node (row g node) col st rem with
  | Conflict => ~ two_colourable g
  | Cont col' stack' rem' =>
      binv g col' stack' rem' /\ consistent g col' /\
      exists k, length stack' = k + length st /\ count_none col = k + count_none col'
  end.
Proof.
  intros Hwf Hinv Hc.
  destruct (binv_stack _ _ _ _ Hinv node (or_introl eq_refl)) as [Hnl Hnc].
  destruct (getc col node) as [cn|] eqn:En; [|congruence].
  pose proof (bip_scan_spec g node cn (row g node) col st rem (binv_len _ _ _ _ Hinv) En
                (binv_rem _ _ _ _ Hinv)) as Hs.
  assert (Hnb : forall v, In v (row g node) -> In v (row g node) /\ v < length g).
  { intros v Hv. split; auto. eapply Hwf; eauto. }
  specialize (Hs Hnb Hc).
  destruct (bip_scan node (row g node) col st rem) as [|col' stack' rem']; [exact Hs|].
  destruct Hs as [I1 [I2 [I3 [I4 [I5 [I6 [I7 I8]]]]]]].
  split; [|split; [exact I3 | exact I8]].
  constructor; auto.
  - intros u Hu. apply I6 in Hu. destruct Hu as [Hu|[Hu1 Hu2]].
    + destruct (binv_stack _ _ _ _ Hinv u (or_intror Hu)) as [H1 H2]. split; auto.
      destruct (getc col u) as [c|] eqn:E; [|congruence]. rewrite (I4 _ _ E). discriminate.
    + split; auto. destruct (Nat.lt_ge_cases u (length g)) as [H|H]; auto.
      rewrite getc_oob in Hu2 by lia. congruence.
  - intros u c Hu. destruct (getc col u) as [c0|] eqn:E.
    + assert (c0 = c) by (apply I4 in E; congruence). subst c0.
      destruct (binv_done _ _ _ _ Hinv u c E) as [[Hun|Hust]|Hd].
      * subst u. right. intros v Hv. assert (cn = c) by congruence. subst c. apply I5; exact Hv.
      * left. apply I6. left. exact Hust.
      * right. intros v Hv. apply I4. apply Hd. exact Hv.
    + left. apply I6. right. split; auto. congruence.
Qed.

(** Result of the loop from any state satisfying the invariants. *)
Lemma bip_loop_spec g :
  wf_graph g -> (forall u v, In v (row g u) -> In u (row g v)) ->
  forall fuel col stack rem res,
  binv g col stack rem -> consistent g col ->
  bip_loop fuel g col stack rem = Ok res ->
  match res with
  | None => ~ two_colourable g
  | Some colf =>
      length colf = length g /\
      (forall u, u < length g -> exists c, getc colf u = Some c) /\
      (forall u c, getc colf u = Some c -> forall v, In v (row g u) -> getc colf v = Some (negb c))
  end.
Proof.
  intros Hwf Hsym. induction fuel as [|fuel IH]; intros col stack rem res Hinv Hc Hrun; [discriminate|].
  simpl in Hrun. destruct stack as [|node st].
  - destruct (rem =? 0) eqn:Erem.
    + inversion Hrun; subst res. apply Nat.eqb_eq in Erem.
      split; [apply (binv_len _ _ _ _ Hinv)|]. split.
      * intros u Hu. rewrite (binv_rem _ _ _ _ Hinv) in Erem.
        pose proof (count_none_zero col Erem u) as H. rewrite (binv_len _ _ _ _ Hinv) in H.
        specialize (H Hu). destruct (getc col u) as [c|]; [exists c; reflexivity | congruence].
      * intros u c Hu. destruct (binv_done _ _ _ _ Hinv u c Hu) as [[]|H]; exact H.
    + destruct (first_none col 0) as [src|] eqn:Esrc; [|discriminate].
      apply first_none_spec in Esrc. rewrite Nat.sub_0_r in Esrc. destruct Esrc as [_ [Hsl Hsn]].
      destruct (new_source_inv g col rem src Hsym Hinv Hc Hsl Hsn) as [H1 [H2 _]].
      eapply IH; [exact H1 | exact H2 | exact Hrun].
  - pose proof (pop_inv g col node st rem Hwf Hinv Hc) as Hs.
    destruct (bip_scan node (row g node) col st rem) as [|col' stack' rem'].
    + inversion Hrun; subst res. exact Hs.
    + destruct Hs as [H1 [H2 _]]. eapply IH; [exact H1 | exact H2 | exact Hrun].
Qed.

(** Fuel: 2 * (uncoloured) + (stack length) decreases at every iteration, and an uncoloured node
    is always found while [exists_remaining] is positive: neither OutOfFuel nor IndexError. *)
Lemma bip_loop_total g :
  wf_graph g -> (forall u v, In v (row g u) -> In u (row g v)) ->
  forall fuel col stack rem,
  binv g col stack rem -> consistent g col ->
  2 * count_none col + length stack < fuel ->
  exists res, bip_loop fuel g col stack rem = Ok res.
Proof.
  intros Hwf Hsym. induction fuel as [|fuel IH]; intros col stack rem Hinv Hc Hf; [lia|].
  simpl. destruct stack as [|node st].
  - destruct (rem =? 0) eqn:Erem; [eexists; reflexivity|].
    pose proof (binv_rem _ _ _ _ Hinv) as Hrem. apply Nat.eqb_neq in Erem.
    destruct (first_none col 0) as [src|] eqn:Esrc.
    + apply first_none_spec in Esrc. rewrite Nat.sub_0_r in Esrc. destruct Esrc as [_ [Hsl Hsn]].
      destruct (new_source_inv g col rem src Hsym Hinv Hc Hsl Hsn) as [H1 [H2 H3]].
      apply IH; auto. cbn [length] in *. lia.
    + apply first_none_none in Esrc. lia.
  - pose proof (pop_inv g col node st rem Hwf Hinv Hc) as Hs.
    destruct (bip_scan node (row g node) col st rem) as [|col' stack' rem'].
    + eexists; reflexivity.
    + destruct Hs as [H1 [H2 [k [K1 K2]]]]. apply IH; auto. cbn [length] in Hf. lia.
Qed.

Lemma binv_init g : binv g (repeat None (length g)) [] (length g).
Proof.
  constructor.
  - apply repeat_length.
  - rewrite count_none_repeat. reflexivity.
  - intros u [].
  - intros u c H. rewrite getc_repeat in H. discriminate.
Qed.

Lemma consistent_init g : consistent g (repeat None (length g)).
Proof. intros f _ u v cu cv H. rewrite getc_repeat in H. discriminate. Qed.

(** * is_bipartite: main results *)

Lemma color_is_spec col c u : color_is col c u = true <-> getc col u = Some c.
Proof. unfold color_is. apply color_eqb_eq. Qed.

(** The loop as started by the code returns, for a symmetric well-formed pattern. *)
Lemma bip_loop_runs g :
  wf_graph g -> is_symmetric g = true ->
  exists res, bip_loop (2 * length g + 1) g (repeat None (length g)) [] (length g) = Ok res.
Proof.
  intros Hwf Hsym. apply bip_loop_total; auto.
  - apply is_symmetric_spec. exact Hsym.
  - apply binv_init.
  - apply consistent_init.
  - rewrite count_none_repeat. simpl. lia.
Qed.

Theorem is_bipartite_total g :
  wf_graph g ->
  (is_symmetric g = false -> is_bipartite g = Err ValueError) /\
  (is_symmetric g = true -> exists b x, is_bipartite g = Ok (b, x)).
Proof.
  intros Hwf. unfold is_bipartite. split; intros Hs; rewrite Hs; cbn [negb]; [reflexivity|].
  destruct (has_loops g); [eexists; eexists; reflexivity|].
  destruct (bip_loop_runs g Hwf Hs) as [res Hres]. rewrite Hres.
  destruct res; eexists; eexists; reflexivity.
Qed.

Theorem is_bipartite_sound_lemma g x :
  wf_graph g -> is_bipartite g = Ok (true, x) ->
  exists m rws cls, x = Some (m, rws, cls) /\
    (forall u, ~ In u (row g u)) /\
    (forall u, u < length g -> (In u rws /\ ~ In u cls) \/ (In u cls /\ ~ In u rws)) /\
    (forall u, In u rws \/ In u cls -> u < length g) /\
    NoDup rws /\ NoDup cls /\
    (forall u v, In v (row g u) -> (In u rws /\ In v cls) \/ (In u cls /\ In v rws)) /\
    p_nrow m = length rws /\ p_ncol m = length cls /\
    (forall a b, a < length rws -> b < length cls ->
       (In b (row (p_rows m) a) <-> In (nthn cls b) (row g (nthn rws a)))).
Proof.
  intros Hwf. unfold is_bipartite.
  destruct (is_symmetric g) eqn:Hs; cbn [negb]; [|discriminate].
  destruct (has_loops g) eqn:Hl; [discriminate|].
  destruct (bip_loop (2 * length g + 1) g (repeat None (length g)) [] (length g)) as [[col|]|e] eqn:Hrun;
    try discriminate.
  intros H. inversion H; subst x. clear H.
  pose proof (bip_loop_spec g Hwf (proj1 (is_symmetric_spec g) Hs) _ _ _ _ _ (binv_init g)
                (consistent_init g) Hrun) as [Hlen [Hall Hopp]].
  eexists; eexists; eexists. split; [reflexivity|].
  assert (Hrw : forall u, In u (filter (color_is col false) (seq 0 (length g))) <-> u < length g /\ getc col u = Some false).
  { intros u. rewrite filter_In, in_seq, color_is_spec. split; intros [A B]; split; auto; lia. }
  assert (Hcl : forall u, In u (filter (color_is col true) (seq 0 (length g))) <-> u < length g /\ getc col u = Some true).
  { intros u. rewrite filter_In, in_seq, color_is_spec. split; intros [A B]; split; auto; lia. }
  split; [apply has_loops_false; exact Hl|].
  split.
  { intros u Hu. destruct (Hall u Hu) as [[|] Hc]; [right|left]; rewrite Hrw, Hcl; split; auto;
      intros [_ H]; congruence. }
  split; [intros u [H|H]; [apply Hrw in H | apply Hcl in H]; tauto|].
  split; [apply NoDup_filter; apply seq_NoDup|].
  split; [apply NoDup_filter; apply seq_NoDup|].
  split.
  { intros u v Huv. assert (Hu : u < length g) by (eapply row_nonempty_lt; eauto).
    assert (Hv : v < length g) by (eapply Hwf; eauto).
    destruct (Hall u Hu) as [c Hc]. pose proof (Hopp u c Hc v Huv) as Hvc.
    rewrite !Hrw, !Hcl. destruct c; simpl in Hvc; [right|left]; auto. }
  destruct (submatrix_shape (sq g) (filter (color_is col false) (seq 0 (length g)))
              (filter (color_is col true) (seq 0 (length g)))) as [S1 S2].
  split; [exact S1|]. split; [exact S2|].
  intros a b Ha Hb. rewrite submatrix_entry by assumption. reflexivity.
Qed.

(** true  =>  a proper 2-colouring exists (the returned classes), in [proper] form. *)
Corollary is_bipartite_true_two_colourable g x :
  wf_graph g -> is_bipartite g = Ok (true, x) -> (forall u, ~ In u (row g u)) /\ two_colourable g.
Proof.
  intros Hwf H. destruct (is_bipartite_sound_lemma g x Hwf H) as
    [m [rws [cls [_ [Hl [Hpart [_ [_ [_ [Hedge _]]]]]]]]]].
  split; [exact Hl|].
  exists (fun u => memn u cls). intros u v Hu Huv.
  destruct (Hedge u v Huv) as [[A B]|[A B]].
  - destruct (Hpart u Hu) as [[_ N]|[_ N]]; [|tauto].
    assert (memn u cls = false) by (destruct (memn u cls) eqn:E; auto; apply memn_In in E; tauto).
    assert (memn v cls = true) by (apply memn_In; exact B). congruence.
  - assert (Hv : v < length g) by (eapply Hwf; eauto).
    destruct (Hpart v Hv) as [[_ N]|[_ N]]; [|tauto].
    assert (memn v cls = false) by (destruct (memn v cls) eqn:E; auto; apply memn_In in E; tauto).
    assert (memn u cls = true) by (apply memn_In; exact A). congruence.
Qed.

Theorem is_bipartite_complete_lemma g x :
  wf_graph g -> is_bipartite g = Ok (false, x) ->
  x = None /\ ((exists u, u < length g /\ In u (row g u)) \/ ~ two_colourable g).
Proof.
  intros Hwf. unfold is_bipartite.
  destruct (is_symmetric g) eqn:Hs; cbn [negb]; [|discriminate].
  destruct (has_loops g) eqn:Hl.
  - intros H. inversion H. split; auto. left. apply has_loops_spec. exact Hl.
  - destruct (bip_loop (2 * length g + 1) g (repeat None (length g)) [] (length g)) as [[col|]|e] eqn:Hrun;
      try discriminate.
    intros H. inversion H. split; auto. right.
    exact (bip_loop_spec g Hwf (proj1 (is_symmetric_spec g) Hs) _ _ _ _ _ (binv_init g)
             (consistent_init g) Hrun).
Qed.

(** A self-loop excludes proper colourings, so: result = true iff loop-free and 2-colourable. *)
Theorem is_bipartite_exact_lemma g :
  wf_graph g -> is_symmetric g = true ->
  exists b x, is_bipartite g = Ok (b, x) /\
    (b = true <-> (forall u, ~ In u (row g u)) /\ two_colourable g).
Proof.
  intros Hwf Hs. destruct (proj2 (is_bipartite_total g Hwf) Hs) as [b [x H]].
  exists b, x. split; [exact H|]. destruct b.
  - split; auto. intros _. eapply is_bipartite_true_two_colourable; eauto.
  - split; [discriminate|]. intros [Hl Hc].
    destruct (is_bipartite_complete_lemma g x Hwf H) as [_ [[u [_ Hu]]|Hn]].
    + exfalso. eapply Hl; eauto.
    + contradiction.
Qed.

(** * is_connected *)
Lemma n_labels_one (l : list nat) :
  n_labels l = 1 <-> l <> [] /\ forall x y, In x l -> In y l -> x = y.
Proof.
  unfold n_labels. split.
  - intros H. destruct (nodup Nat.eq_dec l) as [|a [|b t]] eqn:E; simpl in H; try lia.
    split.
    + intros El. subst l. simpl in E. discriminate.
    + intros x y Hx Hy. apply (nodup_In Nat.eq_dec) in Hx, Hy. rewrite E in Hx, Hy.
      destruct Hx as [Hx|[]], Hy as [Hy|[]]. congruence.
  - intros [Hne Heq]. destruct l as [|a t]; [congruence|].
    assert (Hincl : incl (nodup Nat.eq_dec (a :: t)) [a]).
    { intros x Hx. apply nodup_In in Hx. left. apply Heq; [left; reflexivity | exact Hx]. }
    pose proof (NoDup_incl_length (NoDup_nodup Nat.eq_dec (a :: t)) Hincl) as Hle.
    assert (Hin : In a (nodup Nat.eq_dec (a :: t))) by (apply nodup_In; left; reflexivity).
    remember (nodup Nat.eq_dec (a :: t)) as nd eqn:End. clear End.
    destruct nd; [destruct Hin | cbn [length] in *; lia].
Qed.

Lemma nthn_In (l : list nat) (i : nat) : i < length l -> In (nthn l i) l.
Proof. intros H. unfold nthn. apply nth_In. exact H. Qed.

Lemma In_nthn (l : list nat) (x : nat) : In x l -> exists i, i < length l /\ nthn l i = x.
Proof. intros H. destruct (In_nth l x 0 H) as [i [Hi E]]. exists i. split; auto. Qed.

Theorem is_connected_exact_lemma (m : pmat) (fb strong : bool) (comp : list nat) (b : bool) :
  components_contract (cc_adjacency m fb) strong comp ->
  is_connected m fb comp = Ok b ->
  let g := cc_adjacency m fb in
  (b = true <-> 0 < length g /\ forall u v, u < length g -> v < length g ->
                   if strong then sconn g u v else wconn g u v).
Proof.
  intros [Hlen Hc] H g. unfold is_connected, get_connected_components in H.
  destruct (nnz (p_rows m) =? 0); [discriminate|]. inversion H; subst b. clear H.
  rewrite Nat.eqb_eq, n_labels_one. fold g in Hlen, Hc. split.
  - intros [Hne Heq]. split; [rewrite <- Hlen; destruct comp; simpl; [congruence | lia]|].
    intros u v Hu Hv. apply Hc; auto. apply Heq; apply nthn_In; lia.
  - intros [Hpos Hall]. split; [intros E; subst comp; simpl in Hlen; lia|].
    intros x y Hx Hy. apply In_nthn in Hx, Hy. destruct Hx as [i [Hi Ex]], Hy as [j [Hj Ey]].
    subst x y. apply Hc; try lia. apply Hall; lia.
Qed.

(** * get_largest_connected_component *)
Lemma argmax_aux_spec : forall l i besti bestv d,
  let r := argmax_aux l i besti bestv in
  (r = besti /\ forall k, k < length l -> nth k l d <= bestv) \/
  (i <= r < i + length l /\ bestv < nth (r - i) l d /\ forall k, k < length l -> nth k l d <= nth (r - i) l d).
Proof.
  induction l as [|x t IH]; intros i besti bestv d; simpl.
  - left. split; auto. intros k Hk; lia.
  - destruct (bestv <? x) eqn:E.
    + apply Nat.ltb_lt in E. right. destruct (IH (S i) i x d) as [[H1 H2]|[H1 [H2 H3]]].
      * rewrite H1. rewrite Nat.sub_diag. split; [lia|]. split; [exact E|].
        intros [|k] Hk; [lia|]. apply H2. lia.
      * set (r := argmax_aux t (S i) i x) in *.
        replace (r - i) with (S (r - S i)) by lia. split; [lia|]. split; [simpl; lia|].
        intros [|k] Hk; [simpl; lia|]. simpl. apply H3. lia.
    + apply Nat.ltb_ge in E. destruct (IH (S i) besti bestv d) as [[H1 H2]|[H1 [H2 H3]]].
      * left. split; auto. intros [|k] Hk; [lia|]. apply H2. lia.
      * right. set (r := argmax_aux t (S i) besti bestv) in *.
        replace (r - i) with (S (r - S i)) by lia. split; [lia|]. split; [simpl; lia|].
        intros [|k] Hk; [simpl; lia|]. simpl. apply H3. lia.
Qed.

Lemma argmax_spec (l : list nat) (d : nat) :
  l <> [] -> argmax l < length l /\ forall k, k < length l -> nth k l d <= nth (argmax l) l d.
Proof.
  destruct l as [|x t]; [congruence|]. intros _. unfold argmax.
  destruct (argmax_aux_spec t 1 0 x d) as [[H1 H2]|[H1 [H2 H3]]].
  - rewrite H1. simpl. split; [lia|]. intros [|k] Hk; [lia|]. apply H2. lia.
  - set (r := argmax_aux t 1 0 x) in *. clearbody r. destruct r as [|q]; [lia|].
    cbn [Nat.sub] in H2, H3. rewrite Nat.sub_0_r in H2, H3.
    split; [simpl; lia|]. intros [|k] Hk; cbn [nth]; [lia|]. apply H3. simpl in Hk. lia.
Qed.

Lemma np_unique_In l x : In x (np_unique l) <-> In x l.
Proof.
  unfold np_unique. rewrite filter_In, in_seq, memn_In. split; [tauto|].
  intros H. split; auto. split; [lia|].
  pose proof (proj1 (list_max_le l (list_max l)) (Nat.le_refl _)) as Hf.
  rewrite Forall_forall in Hf. specialize (Hf x H). lia.
Qed.

Lemma count_zero l x : ~ In x l -> count l x = 0.
Proof.
  unfold count. intros H. rewrite filter_none; auto.
  intros y Hy. apply Nat.eqb_neq. intros E; subst; contradiction.
Qed.

Lemma largest_label_spec (labels : list nat) :
  labels <> [] ->
  In (largest_label labels) labels /\ forall x, count labels x <= count labels (largest_label labels).
Proof.
  intros Hne. unfold largest_label. set (u := np_unique labels).
  assert (Hu : u <> []).
  { destruct labels as [|a t]; [congruence|]. intros E.
    assert (In a u) by (apply np_unique_In; left; reflexivity). rewrite E in H. destruct H. }
  assert (Hm : map (count labels) u <> []) by (destruct u; [congruence | discriminate]).
  destruct (argmax_spec (map (count labels) u) 0 Hm) as [Hlt Hmax].
  rewrite map_length in Hlt, Hmax.
  split.
  - apply np_unique_In. apply nthn_In. exact Hlt.
  - intros x. destruct (in_dec Nat.eq_dec x labels) as [Hin|Hout].
    + apply np_unique_In in Hin. apply In_nthn in Hin. destruct Hin as [k [Hk Ek]].
      specialize (Hmax k Hk). rewrite (nth_map_lt (count labels) u k 0 0) in Hmax by exact Hk.
      rewrite (nth_map_lt (count labels) u _ 0 0) in Hmax by exact Hlt.
      unfold nthn in *. fold u in Ek. rewrite Ek in Hmax. exact Hmax.
    + rewrite count_zero by exact Hout. lia.
Qed.

(** The returned index is one class of the labelling, it is a largest class, and (with the
    contract) a connected component; the returned matrix is the sub-matrix on it. *)
Theorem largest_component_lemma (m : pmat) (fb strong : bool) (comp : list nat) out index :
  components_contract (cc_adjacency m fb) strong comp ->
  get_largest_connected_component m fb comp = Ok (out, index) ->
  let g := cc_adjacency m fb in
  let bip := snd (get_adjacency m fb) in
  let l := largest_label comp in
  let inclass := fun u => nthn comp u = l in
  (* a non-empty class, which is exactly one connected component *)
  (exists u0, u0 < length g /\ inclass u0) /\
  (forall u v, u < length g -> v < length g -> inclass u ->
      (inclass v <-> if strong then sconn g u v else wconn g u v)) /\
  (* of maximum size *)
  (forall x, count comp x <= count comp l) /\
  (* the index lists the class in increasing order (rows, then columns for a biadjacency input)
     and the matrix is the input restricted to it, rows then columns *)
  exists ir ic,
    out = submatrix m ir ic /\
    (bip = false -> ir = filter (fun u => nthn comp u =? l) (seq 0 (length g)) /\ ic = ir /\ index = ir) /\
    (bip = true -> ir = filter (fun i => nthn comp i =? l) (seq 0 (p_nrow m)) /\
                   ic = filter (fun j => nthn comp (p_nrow m + j) =? l) (seq 0 (length g - p_nrow m)) /\
                   index = ir ++ ic) /\
    (forall a b, a < length ir -> b < length ic ->
       (In b (row (p_rows out) a) <-> In (nthn ic b) (row (p_rows m) (nthn ir a)))).
Proof.
  intros [Hlen Hc] H g bip l inclass. fold g in Hlen, Hc.
  unfold get_largest_connected_component in H.
  destruct (nnz (p_rows m) =? 0) eqn:Ennz; [discriminate|].
  assert (Hg : 0 < length g).
  { unfold g, cc_adjacency, get_adjacency. cbn [fst].
    assert (Hp : 0 < p_nrow m).
    { unfold p_nrow. destruct (p_rows m); [simpl in Ennz; discriminate | simpl; lia]. }
    destruct (fb || negb (p_nrow m =? p_ncol m)); [|exact Hp].
    unfold block_undirected. rewrite app_length, map_length. unfold p_nrow in Hp. lia. }
  assert (Hne : comp <> []) by (intros E; subst comp; simpl in Hlen; lia).
  destruct (largest_label_spec comp Hne) as [Hin Hmax]. fold l in Hin, Hmax.
  split.
  { apply In_nthn in Hin. destruct Hin as [i [Hi Ei]]. exists i. split; [lia | exact Ei]. }
  split.
  { intros u v Hu Hv Hcu. unfold inclass in *. rewrite <- Hcu. rewrite <- (Hc u v Hu Hv).
    split; intros E; congruence. }
  split; [exact Hmax|].
  fold bip in H. fold l in H. destruct bip eqn:Eb.
  - inversion H; subst out index. eexists; eexists. split; [reflexivity|].
    split; [discriminate|]. split.
    + intros _. rewrite Hlen. auto.
    + intros a b Ha Hb. apply submatrix_entry; assumption.
  - inversion H; subst out index. eexists; eexists. split; [reflexivity|].
    split.
    + intros _. rewrite Hlen. auto.
    + split; [discriminate|]. intros a b Ha Hb. apply submatrix_entry; assumption.
Qed.

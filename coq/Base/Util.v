(** Shared list utilities. Definitions only use the standard library. *)
From Coq Require Export List Arith ZArith QArith Bool Lia.
Export ListNotations.
Close Scope Q_scope.
Open Scope nat_scope.

(** [nth] with explicit default names, used for vectors of booleans / integers. *)
Definition nthb (l : list bool) (i : nat) : bool := nth i l false.
Definition nthn (l : list nat) (i : nat) : nat := nth i l 0.
Definition nthz (l : list Z) (i : nat) : Z := nth i l 0%Z.
Definition nthq (l : list Q) (i : nat) : Q := nth i l 0%Q.

Definition memn (x : nat) (l : list nat) : bool := existsb (Nat.eqb x) l.

Fixpoint map2 {A B C} (f : A -> B -> C) (l1 : list A) (l2 : list B) : list C :=
  match l1, l2 with
  | a :: t1, b :: t2 => f a b :: map2 f t1 t2
  | _, _ => []
  end.

Definition sumn (l : list nat) : nat := fold_right Nat.add 0 l.
Definition sumz (l : list Z) : Z := fold_right Z.add 0%Z l.
Definition sumq (l : list Q) : Q := fold_right Qplus 0%Q l.

Lemma memn_In x l : memn x l = true <-> In x l.
Proof.
  unfold memn. rewrite existsb_exists. split.
  - intros [y [Hy E]]. apply Nat.eqb_eq in E. subst. exact Hy.
  - intros H. exists x. split; [exact H | apply Nat.eqb_refl].
Qed.

Lemma map2_length {A B C} (f : A -> B -> C) l1 l2 :
  length (map2 f l1 l2) = Nat.min (length l1) (length l2).
Proof. revert l2; induction l1 as [|a t IH]; intros [|b t2]; simpl; auto. Qed.

Lemma nth_map2 {A B C} (f : A -> B -> C) l1 l2 i da db dc :
  i < length l1 -> i < length l2 ->
  nth i (map2 f l1 l2) dc = f (nth i l1 da) (nth i l2 db).
Proof.
  revert l2 i; induction l1 as [|a t IH]; intros [|b t2] [|i]; simpl; intros H1 H2; try lia; auto.
  apply IH; lia.
Qed.

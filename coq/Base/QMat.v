(** Small dense linear algebra over [Q]: vectors are [list Q], matrices are lists of rows.
    Equality is pointwise [Qeq] ([veq], [meq]).  Shapes are explicit ([wf_mat r c M]); a matrix with
    no row has no intrinsic column count, so [transpose_n] and [mat_mul] take the column count as an
    argument ([transpose], [mat_mul'] read it from the first row).  Everything is proved, no axiom. *)
From SKN Require Import Base.Util.
From Coq Require Import QArith Lqa Psatz Setoid Morphisms.

Notation vec := (list Q) (only parsing).
Notation mat := (list (list Q)) (only parsing).

(* ------------------------------------------------------------------------------------------- *)
(** * Pointwise equality *)
Definition veq : vec -> vec -> Prop := Forall2 Qeq.
Definition meq : mat -> mat -> Prop := Forall2 veq.
Infix "=v" := veq (at level 70, no associativity).
Infix "=m" := meq (at level 70, no associativity).

Lemma veq_refl u : u =v u.
Proof. induction u; constructor; auto; reflexivity. Qed.
Lemma veq_sym u v : u =v v -> v =v u.
Proof. induction 1; constructor; auto; symmetry; auto. Qed.
Lemma veq_trans u v w : u =v v -> v =v w -> u =v w.
Proof.
  intros H; revert w; induction H as [|a b u v Hab Huv IH]; intros w Hw; inversion Hw; subst; constructor.
  - etransitivity; eauto.
  - apply IH; auto.
Qed.
Global Instance veq_equiv : Equivalence veq.
Proof. split; [exact veq_refl | exact veq_sym | exact veq_trans]. Qed.

Lemma meq_refl A : A =m A.
Proof. induction A; constructor; auto; reflexivity. Qed.
Lemma meq_sym A B : A =m B -> B =m A.
Proof. induction 1; constructor; auto; symmetry; auto. Qed.
Lemma meq_trans A B C : A =m B -> B =m C -> A =m C.
Proof.
  intros H; revert C; induction H as [|a b u v Hab Huv IH]; intros w Hw; inversion Hw; subst; constructor.
  - etransitivity; eauto.
  - apply IH; auto.
Qed.
Global Instance meq_equiv : Equivalence meq.
Proof. split; [exact meq_refl | exact meq_sym | exact meq_trans]. Qed.

Lemma veq_length u v : u =v v -> length u = length v.
Proof. induction 1; simpl; auto. Qed.
Lemma meq_length A B : A =m B -> length A = length B.
Proof. induction 1; simpl; auto. Qed.

Lemma veq_nthq u v i : u =v v -> nthq u i == nthq v i.
Proof.
  intros H; revert i; induction H as [|a b u v Hab Huv IH]; intros [|i]; unfold nthq in *; simpl; auto; reflexivity.
Qed.

Lemma veq_nth u v : length u = length v -> (forall i, (i < length u)%nat -> nthq u i == nthq v i) -> u =v v.
Proof.
  revert v; induction u as [|a u IH]; intros [|b v] HL H; simpl in *; try discriminate; constructor.
  - apply (H 0%nat); lia.
  - apply IH; [lia|]. intros i Hi. apply (H (S i)); lia.
Qed.

Lemma meq_nth A B : length A = length B -> (forall i, (i < length A)%nat -> nth i A [] =v nth i B []) -> A =m B.
Proof.
  revert B; induction A as [|a A IH]; intros [|b B] HL H; simpl in *; try discriminate; constructor.
  - apply (H 0%nat); lia.
  - apply IH; [lia|]. intros i Hi. apply (H (S i)); lia.
Qed.

Lemma meq_nth_row A B i : A =m B -> nth i A [] =v nth i B [].
Proof.
  intros H; revert i; induction H as [|a b u v Hab Huv IH]; intros [|i]; simpl; auto; reflexivity.
Qed.

Global Instance nthq_proper : Proper (veq ==> eq ==> Qeq) nthq.
Proof. intros u v H i j <-. apply veq_nthq; exact H. Qed.

Global Instance sumq_proper : Proper (veq ==> Qeq) sumq.
Proof. intros u v H. induction H as [|a b u v Hab Huv IH]; simpl; [reflexivity|]. rewrite Hab, IH. reflexivity. Qed.

Global Instance cons_veq_proper : Proper (Qeq ==> veq ==> veq) (@cons Q).
Proof. intros a b H u v Huv. constructor; auto. Qed.

Global Instance app_veq_proper : Proper (veq ==> veq ==> veq) (@app Q).
Proof. intros u v H u' v' H'. induction H; simpl; auto. constructor; auto. Qed.

Lemma sumq_app u v : sumq (u ++ v) == sumq u + sumq v.
Proof. induction u as [|a u IH]; simpl; [ring|]. rewrite IH. ring. Qed.

Lemma map_veq (f g : Q -> Q) u v : (forall a b, a == b -> f a == g b) -> u =v v -> map f u =v map g v.
Proof. intros Hf H. induction H; simpl; constructor; auto. Qed.

Lemma map_ext_veq {A} (f g : A -> Q) l : (forall a, In a l -> f a == g a) -> map f l =v map g l.
Proof.
  induction l as [|a l IH]; intros H; simpl; constructor.
  - apply H; left; reflexivity.
  - apply IH. intros b Hb. apply H; right; exact Hb.
Qed.

Lemma map_ext_meq {A} (f g : A -> vec) l : (forall a, In a l -> f a =v g a) -> map f l =m map g l.
Proof.
  induction l as [|a l IH]; intros H; simpl; constructor.
  - apply H; left; reflexivity.
  - apply IH. intros b Hb. apply H; right; exact Hb.
Qed.

Lemma map2_veq (f : Q -> Q -> Q) u u' v v' :
  Proper (Qeq ==> Qeq ==> Qeq) f -> u =v u' -> v =v v' -> map2 f u v =v map2 f u' v'.
Proof.
  intros Hf H; revert v v'; induction H as [|a b u u' Hab Huu IH]; intros v v' Hv; simpl.
  - constructor.
  - inversion Hv; subst; constructor; [apply Hf; auto | apply IH; auto].
Qed.

Lemma nthq_map (f : Q -> Q) u i : (i < length u)%nat -> nthq (map f u) i = f (nthq u i).
Proof.
  unfold nthq. intros H. rewrite (nth_indep (map f u) 0 (f 0)) by (rewrite map_length; exact H).
  apply map_nth.
Qed.

Lemma nthq_map_gen {A} (f : A -> Q) (l : list A) d i : (i < length l)%nat -> nthq (map f l) i = f (nth i l d).
Proof.
  unfold nthq. intros H. rewrite (nth_indep (map f l) 0 (f d)) by (rewrite map_length; exact H).
  apply map_nth.
Qed.

Lemma nth_map_gen {A B} (f : A -> B) (l : list A) d d' i : (i < length l)%nat -> nth i (map f l) d' = f (nth i l d).
Proof.
  intros H. rewrite (nth_indep (map f l) d' (f d)) by (rewrite map_length; exact H). apply map_nth.
Qed.

Lemma nthq_map2 (f : Q -> Q -> Q) u v i : (i < length u)%nat -> (i < length v)%nat -> nthq (map2 f u v) i = f (nthq u i) (nthq v i).
Proof. intros; unfold nthq; apply nth_map2; assumption. Qed.

Lemma nthq_overflow u i : (length u <= i)%nat -> nthq u i = 0.
Proof. intros; unfold nthq; apply nth_overflow; assumption. Qed.

Lemma nthq_repeat q n i : (i < n)%nat -> nthq (repeat q n) i = q.
Proof.
  revert i; induction n as [|n IH]; intros [|i] H; simpl; try lia; auto. unfold nthq in *. simpl. apply IH; lia.
Qed.

Lemma nth_seq_map {A} (f : nat -> A) n i d : (i < n)%nat -> nth i (map f (seq 0 n)) d = f i.
Proof.
  intros H. rewrite (nth_map_gen f (seq 0 n) 0%nat d) by (rewrite seq_length; exact H).
  rewrite seq_nth by exact H. reflexivity.
Qed.

Lemma nthq_seq_map (f : nat -> Q) n i : (i < n)%nat -> nthq (map f (seq 0 n)) i = f i.
Proof. intros; unfold nthq; apply nth_seq_map; assumption. Qed.

(* ------------------------------------------------------------------------------------------- *)
(** * Vector operations *)
Definition vzero (n : nat) : vec := repeat 0 n.
Definition vones (n : nat) : vec := repeat 1 n.
Definition vconst (n : nat) (q : Q) : vec := repeat q n.
Definition vadd (u v : vec) : vec := map2 Qplus u v.
Definition vsub (u v : vec) : vec := map2 Qminus u v.
Definition vmul (u v : vec) : vec := map2 Qmult u v.
Definition vscale (c : Q) (u : vec) : vec := map (Qmult c) u.
Definition vneg (u : vec) : vec := map Qopp u.
Definition dot (u v : vec) : Q := sumq (map2 Qmult u v).
(** [unit n i]: i-th vector of the canonical basis of Q^n. *)
Definition unit (n i : nat) : vec := map (fun j => if Nat.eqb i j then 1 else 0) (seq 0 n).
(** sum of a list of vectors of length n *)
Definition vsum (n : nat) (l : list vec) : vec := fold_right vadd (vzero n) l.

Global Instance vadd_proper : Proper (veq ==> veq ==> veq) vadd.
Proof. intros u u' H v v' H'. apply map2_veq; auto. intros a b E c d E'. rewrite E, E'. reflexivity. Qed.
Global Instance vsub_proper : Proper (veq ==> veq ==> veq) vsub.
Proof. intros u u' H v v' H'. apply map2_veq; auto. intros a b E c d E'. rewrite E, E'. reflexivity. Qed.
Global Instance vmul_proper : Proper (veq ==> veq ==> veq) vmul.
Proof. intros u u' H v v' H'. apply map2_veq; auto. intros a b E c d E'. rewrite E, E'. reflexivity. Qed.
Global Instance vscale_proper : Proper (Qeq ==> veq ==> veq) vscale.
Proof. intros c c' E u u' H. apply map_veq; auto. intros a b E'. rewrite E, E'. reflexivity. Qed.
Global Instance vneg_proper : Proper (veq ==> veq) vneg.
Proof. intros u u' H. apply map_veq; auto. intros a b E'. rewrite E'. reflexivity. Qed.
Global Instance dot_proper : Proper (veq ==> veq ==> Qeq) dot.
Proof. intros u u' H v v' H'. unfold dot. apply sumq_proper. apply vmul_proper; auto. Qed.

Lemma vzero_length n : length (vzero n) = n. Proof. apply repeat_length. Qed.
Lemma vones_length n : length (vones n) = n. Proof. apply repeat_length. Qed.
Lemma vconst_length n q : length (vconst n q) = n. Proof. apply repeat_length. Qed.
Lemma vadd_length u v : length (vadd u v) = Nat.min (length u) (length v). Proof. apply map2_length. Qed.
Lemma vsub_length u v : length (vsub u v) = Nat.min (length u) (length v). Proof. apply map2_length. Qed.
Lemma vmul_length u v : length (vmul u v) = Nat.min (length u) (length v). Proof. apply map2_length. Qed.
Lemma vscale_length c u : length (vscale c u) = length u. Proof. apply map_length. Qed.
Lemma vneg_length u : length (vneg u) = length u. Proof. apply map_length. Qed.
Lemma unit_length n i : length (unit n i) = n. Proof. unfold unit. rewrite map_length, seq_length. reflexivity. Qed.

Lemma vadd_length_eq n u v : length u = n -> length v = n -> length (vadd u v) = n.
Proof. intros; rewrite vadd_length; lia. Qed.
Lemma vsub_length_eq n u v : length u = n -> length v = n -> length (vsub u v) = n.
Proof. intros; rewrite vsub_length; lia. Qed.
Lemma vmul_length_eq n u v : length u = n -> length v = n -> length (vmul u v) = n.
Proof. intros; rewrite vmul_length; lia. Qed.

Lemma nthq_vadd u v i : (i < length u)%nat -> (i < length v)%nat -> nthq (vadd u v) i = nthq u i + nthq v i.
Proof. apply nthq_map2. Qed.
Lemma nthq_vsub u v i : (i < length u)%nat -> (i < length v)%nat -> nthq (vsub u v) i = nthq u i - nthq v i.
Proof. apply nthq_map2. Qed.
Lemma nthq_vmul u v i : (i < length u)%nat -> (i < length v)%nat -> nthq (vmul u v) i = nthq u i * nthq v i.
Proof. apply nthq_map2. Qed.
Lemma nthq_vscale c u i : (i < length u)%nat -> nthq (vscale c u) i = c * nthq u i.
Proof. apply nthq_map. Qed.
Lemma nthq_vneg u i : (i < length u)%nat -> nthq (vneg u) i = - nthq u i.
Proof. apply nthq_map. Qed.
Lemma nthq_vzero n i : nthq (vzero n) i = 0.
Proof.
  destruct (Nat.lt_ge_cases i n) as [H|H].
  - apply nthq_repeat; exact H.
  - apply nthq_overflow. rewrite vzero_length. exact H.
Qed.
Lemma nthq_vones n i : (i < n)%nat -> nthq (vones n) i = 1.
Proof. apply nthq_repeat. Qed.
Lemma nthq_vconst n q i : (i < n)%nat -> nthq (vconst n q) i = q.
Proof. apply nthq_repeat. Qed.
Lemma nthq_unit n i j : (j < n)%nat -> nthq (unit n i) j = if Nat.eqb i j then 1 else 0.
Proof. intros H. unfold unit. rewrite nthq_seq_map by exact H. reflexivity. Qed.

Lemma vsum_length n l : Forall (fun v => length v = n) l -> length (vsum n l) = n.
Proof.
  induction 1 as [|v l Hv Hl IH]; simpl; [apply vzero_length|]. apply vadd_length_eq; auto.
Qed.

(** ** dot *)
Lemma dot_nil_l v : dot [] v = 0. Proof. reflexivity. Qed.
Lemma dot_nil_r u : dot u [] = 0. Proof. destruct u; reflexivity. Qed.
Lemma dot_cons a u b v : dot (a :: u) (b :: v) = a * b + dot u v. Proof. reflexivity. Qed.

Lemma dot_comm u v : dot u v == dot v u.
Proof.
  revert v; induction u as [|a u IH]; intros [|b v]; try reflexivity.
  rewrite !dot_cons, IH. ring.
Qed.

Lemma dot_vscale_l c u v : dot (vscale c u) v == c * dot u v.
Proof.
  revert v; induction u as [|a u IH]; intros [|b v]; simpl; try (unfold dot; simpl; ring).
  change (dot (c * a :: vscale c u) (b :: v) == c * dot (a :: u) (b :: v)).
  rewrite !dot_cons, IH. ring.
Qed.

Lemma dot_vscale_r c u v : dot u (vscale c v) == c * dot u v.
Proof. rewrite dot_comm, dot_vscale_l, dot_comm. reflexivity. Qed.

Lemma dot_vadd_l u u' v : length u = length u' -> dot (vadd u u') v == dot u v + dot u' v.
Proof.
  revert u' v; induction u as [|a u IH]; intros [|a' u'] v H; simpl in H; try discriminate.
  - unfold dot; simpl; ring.
  - destruct v as [|b v].
    + rewrite !dot_nil_r. ring.
    + change (dot (a + a' :: vadd u u') (b :: v) == dot (a :: u) (b :: v) + dot (a' :: u') (b :: v)).
      rewrite !dot_cons, IH by lia. ring.
Qed.

Lemma dot_vadd_r u v v' : length v = length v' -> dot u (vadd v v') == dot u v + dot u v'.
Proof. intros H. rewrite dot_comm, dot_vadd_l by exact H. rewrite (dot_comm v), (dot_comm v'). reflexivity. Qed.

Lemma dot_vneg_l u v : dot (vneg u) v == - dot u v.
Proof.
  revert v; induction u as [|a u IH]; intros [|b v]; try (unfold dot; simpl; ring).
  change (dot (- a :: vneg u) (b :: v) == - dot (a :: u) (b :: v)). rewrite !dot_cons, IH. ring.
Qed.

Lemma dot_vsub_l u u' v : length u = length u' -> dot (vsub u u') v == dot u v - dot u' v.
Proof.
  revert u' v; induction u as [|a u IH]; intros [|a' u'] v H; simpl in H; try discriminate.
  - unfold dot; simpl; ring.
  - destruct v as [|b v].
    + rewrite !dot_nil_r. ring.
    + change (dot (a - a' :: vsub u u') (b :: v) == dot (a :: u) (b :: v) - dot (a' :: u') (b :: v)).
      rewrite !dot_cons, IH by lia. ring.
Qed.

Lemma dot_vzero_l n v : dot (vzero n) v == 0.
Proof.
  revert v; induction n as [|n IH]; intros [|b v]; try reflexivity.
  change (dot (0 :: vzero n) (b :: v) == 0). rewrite dot_cons, IH. ring.
Qed.
Lemma dot_vzero_r n u : dot u (vzero n) == 0.
Proof. rewrite dot_comm. apply dot_vzero_l. Qed.

Lemma dot_vones_r u : dot u (vones (length u)) == sumq u.
Proof.
  induction u as [|a u IH]; [reflexivity|]. change (dot (a :: u) (1 :: vones (length u)) == a + sumq u).
  rewrite dot_cons, IH. ring.
Qed.
Lemma dot_vones_l u : dot (vones (length u)) u == sumq u.
Proof. rewrite dot_comm. apply dot_vones_r. Qed.

Lemma dot_vconst_l u q : dot (vconst (length u) q) u == q * sumq u.
Proof.
  induction u as [|a u IH]; [unfold dot; simpl; ring|].
  change (dot (q :: vconst (length u) q) (a :: u) == q * (a + sumq u)). rewrite dot_cons, IH. ring.
Qed.

Lemma unit_S n i : unit (S n) (S i) = 0 :: unit n i.
Proof.
  unfold unit. simpl. f_equal. rewrite <- seq_shift, map_map. reflexivity.
Qed.
Lemma map_const_seq (q : Q) m k : map (fun _ : nat => q) (seq k m) = repeat q m.
Proof. revert k; induction m; intros; simpl; f_equal; auto. Qed.
Lemma unit_0 n : unit (S n) 0 = 1 :: vzero n.
Proof. unfold unit. simpl. f_equal. rewrite <- seq_shift, map_map. simpl. apply map_const_seq. Qed.

Lemma dot_unit_l n i x : (i < n)%nat -> length x = n -> dot (unit n i) x == nthq x i.
Proof.
  revert i x; induction n as [|n IH]; intros i x Hi Hx; [lia|].
  destruct x as [|b x]; simpl in Hx; [discriminate|].
  destruct i as [|i].
  - rewrite unit_0, dot_cons, dot_vzero_l. unfold nthq; simpl. ring.
  - rewrite unit_S, dot_cons, IH by lia. unfold nthq; simpl. ring.
Qed.

(** ** algebra of vectors (pointwise) *)
Lemma vadd_comm u v : vadd u v =v vadd v u.
Proof.
  apply veq_nth; [rewrite !vadd_length; lia|]. intros i Hi. rewrite vadd_length in Hi.
  rewrite !nthq_vadd by lia. ring.
Qed.
Lemma vadd_assoc u v w : vadd (vadd u v) w =v vadd u (vadd v w).
Proof.
  apply veq_nth; [rewrite !vadd_length; lia|]. intros i Hi. rewrite !vadd_length in Hi.
  rewrite !nthq_vadd by (rewrite ?vadd_length; lia). ring.
Qed.
Lemma vadd_vzero_r n u : length u = n -> vadd u (vzero n) =v u.
Proof.
  intros H. apply veq_nth; [rewrite vadd_length, vzero_length; lia|]. intros i Hi.
  rewrite vadd_length, vzero_length in Hi. rewrite nthq_vadd by (rewrite ?vzero_length; lia).
  rewrite nthq_vzero. ring.
Qed.
Lemma vadd_vzero_l n u : length u = n -> vadd (vzero n) u =v u.
Proof. intros H. rewrite vadd_comm. apply vadd_vzero_r; exact H. Qed.
Lemma vscale_vadd c u v : vscale c (vadd u v) =v vadd (vscale c u) (vscale c v).
Proof.
  apply veq_nth; [rewrite vscale_length, !vadd_length, !vscale_length; lia|]. intros i Hi.
  rewrite vscale_length, vadd_length in Hi.
  rewrite nthq_vscale, !nthq_vadd, !nthq_vscale by (rewrite ?vscale_length, ?vadd_length; lia). ring.
Qed.
Lemma vscale_vscale c d u : vscale c (vscale d u) =v vscale (c * d) u.
Proof.
  apply veq_nth; [rewrite !vscale_length; lia|]. intros i Hi. rewrite !vscale_length in Hi.
  rewrite !nthq_vscale by (rewrite ?vscale_length; lia). ring.
Qed.
Lemma vscale_vzero c n : vscale c (vzero n) =v vzero n.
Proof.
  apply veq_nth; [rewrite vscale_length; reflexivity|]. intros i Hi. rewrite vscale_length, vzero_length in Hi.
  rewrite nthq_vscale by (rewrite vzero_length; lia). rewrite nthq_vzero. ring.
Qed.
Lemma vscale_1 u : vscale 1 u =v u.
Proof. apply veq_nth; [apply vscale_length|]. intros i Hi. rewrite vscale_length in Hi. rewrite nthq_vscale by lia. ring. Qed.
Lemma vscale_0 u : vscale 0 u =v vzero (length u).
Proof.
  apply veq_nth; [rewrite vscale_length, vzero_length; reflexivity|]. intros i Hi. rewrite vscale_length in Hi.
  rewrite nthq_vscale by lia. rewrite nthq_vzero. ring.
Qed.
Lemma vneg_vscale u : vneg u =v vscale (-(1)) u.
Proof.
  apply veq_nth; [rewrite vneg_length, vscale_length; reflexivity|]. intros i Hi. rewrite vneg_length in Hi.
  rewrite nthq_vneg, nthq_vscale by lia. ring.
Qed.
Lemma vsub_vadd_vneg u v : vsub u v =v vadd u (vneg v).
Proof.
  apply veq_nth; [rewrite vsub_length, vadd_length, vneg_length; reflexivity|]. intros i Hi. rewrite vsub_length in Hi.
  rewrite nthq_vsub, nthq_vadd, nthq_vneg by (rewrite ?vneg_length; lia). ring.
Qed.
Lemma vscale_add_l c d u : vscale (c + d) u =v vadd (vscale c u) (vscale d u).
Proof.
  apply veq_nth; [rewrite vadd_length, !vscale_length; lia|]. intros i Hi. rewrite vscale_length in Hi.
  rewrite nthq_vadd, !nthq_vscale by (rewrite ?vscale_length; lia). ring.
Qed.
Lemma vmul_vscale_r c u v : vmul u (vscale c v) =v vscale c (vmul u v).
Proof.
  apply veq_nth; [rewrite vscale_length, !vmul_length, vscale_length; reflexivity|]. intros i Hi.
  rewrite vmul_length, vscale_length in Hi.
  rewrite nthq_vscale, !nthq_vmul, nthq_vscale by (rewrite ?vscale_length, ?vmul_length; lia). ring.
Qed.
Lemma vmul_vadd_r u v w : length v = length w -> vmul u (vadd v w) =v vadd (vmul u v) (vmul u w).
Proof.
  intros H. apply veq_nth; [rewrite vadd_length, !vmul_length, vadd_length; lia|]. intros i Hi.
  rewrite vmul_length, vadd_length in Hi.
  rewrite nthq_vadd, !nthq_vmul, nthq_vadd by (rewrite ?vadd_length, ?vmul_length; lia). ring.
Qed.

(* ------------------------------------------------------------------------------------------- *)
(** * Matrices *)
Definition wf_mat (r c : nat) (M : mat) : Prop := length M = r /\ Forall (fun row => length row = c) M.
Definition ncols (M : mat) : nat := match M with [] => 0 | r :: _ => length r end.
Definition dims (M : mat) : nat * nat := (length M, ncols M).
Definition mget (M : mat) (i j : nat) : Q := nthq (nth i M []) j.
Definition col (j : nat) (M : mat) : vec := map (fun r => nthq r j) M.

Definition mzero (r c : nat) : mat := repeat (vzero c) r.
Definition mconst (r c : nat) (q : Q) : mat := repeat (vconst c q) r.
Definition identity (n : nat) : mat := map (unit n) (seq 0 n).
Definition diag (d : vec) : mat := map (fun i => vscale (nthq d i) (unit (length d) i)) (seq 0 (length d)).
Definition madd (A B : mat) : mat := map2 vadd A B.
Definition msub (A B : mat) : mat := map2 vsub A B.
Definition mscale (c : Q) (A : mat) : mat := map (vscale c) A.
Definition mneg (A : mat) : mat := map vneg A.
Definition outer (x y : vec) : mat := map (fun xi => vscale xi y) x.
(** diag(d) * M and M * diag(d) *)
Definition row_scale (d : vec) (M : mat) : mat := map2 vscale d M.
Definition col_scale (M : mat) (d : vec) : mat := map (fun r => vmul r d) M.
Definition mat_vec (M : mat) (x : vec) : vec := map (fun r => dot r x) M.
(** [vec_mat p r B] = r^T B (a linear combination of the rows of B, which have length p) *)
Definition vec_mat (p : nat) (r : vec) (B : mat) : vec := vsum p (map2 vscale r B).
Definition mat_mul (p : nat) (A B : mat) : mat := map (fun ra => vec_mat p ra B) A.
Definition transpose_n (c : nat) (M : mat) : mat := map (fun j => col j M) (seq 0 c).
Definition transpose (M : mat) : mat := transpose_n (ncols M) M.
Definition mat_mul' (A B : mat) : mat := mat_mul (ncols B) A B.
Definition row_sums (M : mat) : vec := map sumq M.
Definition col_sums (c : nat) (M : mat) : vec := map (fun j => sumq (col j M)) (seq 0 c).
Definition total (M : mat) : Q := sumq (row_sums M).
Fixpoint mat_pow (n : nat) (A : mat) (k : nat) : mat :=
  match k with O => identity n | S k' => mat_mul n A (mat_pow n A k') end.
Definition msymmetric (n : nat) (A : mat) : Prop := forall i j, (i < n)%nat -> (j < n)%nat -> mget A i j == mget A j i.
(** block matrix [[A, B]; [C, D]] (A and B have the same number of rows, C and D too) *)
Definition block (A B C D : mat) : mat := map2 (@app Q) A B ++ map2 (@app Q) C D.

(** ** shapes *)
Lemma wf_mat_row r c M i : wf_mat r c M -> (i < r)%nat -> length (nth i M []) = c.
Proof.
  intros [HL HF] Hi. rewrite Forall_forall in HF. apply HF. apply nth_In. lia.
Qed.
Lemma wf_mat_length r c M : wf_mat r c M -> length M = r. Proof. intros [H _]; exact H. Qed.
Lemma wf_mat_rows r c M : wf_mat r c M -> Forall (fun row => length row = c) M. Proof. intros [_ H]; exact H. Qed.
Lemma wf_mat_cons r c a M : length a = c -> wf_mat r c M -> wf_mat (S r) c (a :: M).
Proof. intros Ha [HL HF]. split; simpl; auto. Qed.
Lemma wf_mat_inv r c a M : wf_mat r c (a :: M) -> length a = c /\ wf_mat (pred r) c M.
Proof. intros [HL HF]. inversion HF; subst. split; auto. split; simpl in *; auto. Qed.
Lemma wf_mat_nil c : wf_mat 0 c []. Proof. split; auto. Qed.

Lemma wf_mat_meq r c A B : A =m B -> wf_mat r c A -> wf_mat r c B.
Proof.
  intros H [HL HF]. split; [rewrite <- (meq_length _ _ H); exact HL|].
  clear HL. induction H as [|a b A B Hab HAB IH]; constructor; inversion HF; subst.
  - rewrite <- (veq_length _ _ Hab). reflexivity.
  - apply IH; assumption.
Qed.

Lemma wf_map_seq r c (f : nat -> vec) : (forall i, (i < r)%nat -> length (f i) = c) -> wf_mat r c (map f (seq 0 r)).
Proof.
  intros H. split; [rewrite map_length, seq_length; reflexivity|].
  rewrite Forall_forall. intros x Hx. rewrite in_map_iff in Hx. destruct Hx as [i [<- Hi]].
  apply in_seq in Hi. apply H. lia.
Qed.

Lemma wf_map r c c' (f : vec -> vec) M : (forall row, length row = c -> length (f row) = c') -> wf_mat r c M -> wf_mat r c' (map f M).
Proof.
  intros Hf [HL HF]. split; [rewrite map_length; exact HL|].
  rewrite Forall_forall in *. intros x Hx. rewrite in_map_iff in Hx. destruct Hx as [row [<- Hr]]. auto.
Qed.

Lemma wf_map2 r c (f : vec -> vec -> vec) A B :
  (forall a b, length a = c -> length b = c -> length (f a b) = c) -> wf_mat r c A -> wf_mat r c B -> wf_mat r c (map2 f A B).
Proof.
  intros Hf [HA FA] [HB FB]. split; [rewrite map2_length; lia|]. clear HA HB.
  revert B FB; induction FA as [|a A Ha FA IH]; intros [|b B] FB; simpl; constructor; inversion FB; subst; auto.
Qed.

Lemma mzero_wf r c : wf_mat r c (mzero r c).
Proof. split; [apply repeat_length|]. rewrite Forall_forall. intros x Hx. apply repeat_spec in Hx. subst. apply vzero_length. Qed.
Lemma mconst_wf r c q : wf_mat r c (mconst r c q).
Proof. split; [apply repeat_length|]. rewrite Forall_forall. intros x Hx. apply repeat_spec in Hx. subst. apply vconst_length. Qed.
Lemma identity_wf n : wf_mat n n (identity n).
Proof. apply wf_map_seq. intros; apply unit_length. Qed.
Lemma diag_wf d : wf_mat (length d) (length d) (diag d).
Proof. apply wf_map_seq. intros. rewrite vscale_length. apply unit_length. Qed.
Lemma madd_wf r c A B : wf_mat r c A -> wf_mat r c B -> wf_mat r c (madd A B).
Proof. apply wf_map2. intros; apply vadd_length_eq; assumption. Qed.
Lemma msub_wf r c A B : wf_mat r c A -> wf_mat r c B -> wf_mat r c (msub A B).
Proof. apply wf_map2. intros; apply vsub_length_eq; assumption. Qed.
Lemma mscale_wf r c q A : wf_mat r c A -> wf_mat r c (mscale q A).
Proof. apply wf_map. intros; rewrite vscale_length; assumption. Qed.
Lemma mneg_wf r c A : wf_mat r c A -> wf_mat r c (mneg A).
Proof. apply wf_map. intros; rewrite vneg_length; assumption. Qed.
Lemma outer_wf x y : wf_mat (length x) (length y) (outer x y).
Proof.
  split; [apply map_length|]. rewrite Forall_forall. intros r Hr. apply in_map_iff in Hr.
  destruct Hr as [xi [<- _]]. apply vscale_length.
Qed.
Lemma row_scale_wf r c d M : length d = r -> wf_mat r c M -> wf_mat r c (row_scale d M).
Proof.
  intros Hd [HL HF]. split; [unfold row_scale; rewrite map2_length; lia|]. clear HL Hd r.
  revert d; induction HF as [|a M Ha HF IH]; intros [|q d]; simpl; constructor; auto. rewrite vscale_length; exact Ha.
Qed.
Lemma col_scale_wf r c d M : length d = c -> wf_mat r c M -> wf_mat r c (col_scale M d).
Proof. intros Hd. apply wf_map. intros; apply vmul_length_eq; assumption. Qed.
Lemma mat_vec_length M x : length (mat_vec M x) = length M. Proof. apply map_length. Qed.
Lemma transpose_n_wf r c M : length M = r -> wf_mat c r (transpose_n c M).
Proof. intros H. apply wf_map_seq. intros. unfold col. rewrite map_length. exact H. Qed.
Lemma vec_mat_length p r B : Forall (fun row => length row = p) B -> length (vec_mat p r B) = p.
Proof.
  intros HF. unfold vec_mat. apply vsum_length. revert r; induction HF as [|a B Ha HF IH]; intros [|q r]; simpl; constructor; auto.
  rewrite vscale_length; exact Ha.
Qed.
Lemma mat_mul_wf r q p A B : wf_mat r q A -> wf_mat q p B -> wf_mat r p (mat_mul p A B).
Proof.
  intros [HA FA] [HB FB]. split; [unfold mat_mul; rewrite map_length; exact HA|].
  rewrite Forall_forall. intros x Hx. apply in_map_iff in Hx. destruct Hx as [ra [<- _]]. apply vec_mat_length; exact FB.
Qed.
Lemma mat_pow_wf n A k : wf_mat n n A -> wf_mat n n (mat_pow n A k).
Proof. intros H. induction k as [|k IH]; simpl; [apply identity_wf | eapply mat_mul_wf; eauto]. Qed.
Lemma row_sums_length M : length (row_sums M) = length M. Proof. apply map_length. Qed.
Lemma col_sums_length c M : length (col_sums c M) = c. Proof. unfold col_sums. rewrite map_length, seq_length. reflexivity. Qed.
Lemma col_length j M : length (col j M) = length M. Proof. apply map_length. Qed.

Lemma block_wf r1 r2 c1 c2 A B C D :
  wf_mat r1 c1 A -> wf_mat r1 c2 B -> wf_mat r2 c1 C -> wf_mat r2 c2 D -> wf_mat (r1 + r2)%nat (c1 + c2)%nat (block A B C D).
Proof.
  intros [HA FA] [HB FB] [HC FC] [HD FD]. unfold block. split; [rewrite app_length, !map2_length; lia|].
  apply Forall_app. split.
  - clear HA HB. revert B FB; induction FA as [|a A Ha FA IH]; intros [|b B] FB; simpl; constructor; inversion FB; subst; auto.
    rewrite app_length; reflexivity.
  - clear HC HD. revert D FD; induction FC as [|a C' Ha FC IH]; intros [|b D'] FD; simpl; constructor; inversion FD; subst; auto.
    rewrite app_length; reflexivity.
Qed.

(** ** entries *)
Lemma meq_mget r c A B :
  wf_mat r c A -> wf_mat r c B -> (forall i j, (i < r)%nat -> (j < c)%nat -> mget A i j == mget B i j) -> A =m B.
Proof.
  intros WA WB H. apply meq_nth; [rewrite (wf_mat_length _ _ _ WA), (wf_mat_length _ _ _ WB); reflexivity|].
  intros i Hi. rewrite (wf_mat_length _ _ _ WA) in Hi. apply veq_nth.
  - rewrite (wf_mat_row _ _ _ _ WA Hi), (wf_mat_row _ _ _ _ WB Hi). reflexivity.
  - intros j Hj. rewrite (wf_mat_row _ _ _ _ WA Hi) in Hj. apply H; assumption.
Qed.

Global Instance mget_proper : Proper (meq ==> eq ==> eq ==> Qeq) mget.
Proof. intros A B H i i' <- j j' <-. unfold mget. apply veq_nthq. apply meq_nth_row; exact H. Qed.

Lemma nth_map2_mat (f : vec -> vec -> vec) A B i : (i < length A)%nat -> (i < length B)%nat ->
  nth i (map2 f A B) [] = f (nth i A []) (nth i B []).
Proof. intros; apply nth_map2; assumption. Qed.

Lemma mget_madd r c A B i j : wf_mat r c A -> wf_mat r c B -> (i < r)%nat -> (j < c)%nat -> mget (madd A B) i j = mget A i j + mget B i j.
Proof.
  intros WA WB Hi Hj. unfold mget, madd. rewrite nth_map2_mat by (rewrite ?(wf_mat_length _ _ _ WA), ?(wf_mat_length _ _ _ WB); exact Hi).
  apply nthq_vadd; rewrite ?(wf_mat_row _ _ _ _ WA Hi), ?(wf_mat_row _ _ _ _ WB Hi); exact Hj.
Qed.
Lemma mget_msub r c A B i j : wf_mat r c A -> wf_mat r c B -> (i < r)%nat -> (j < c)%nat -> mget (msub A B) i j = mget A i j - mget B i j.
Proof.
  intros WA WB Hi Hj. unfold mget, msub. rewrite nth_map2_mat by (rewrite ?(wf_mat_length _ _ _ WA), ?(wf_mat_length _ _ _ WB); exact Hi).
  apply nthq_vsub; rewrite ?(wf_mat_row _ _ _ _ WA Hi), ?(wf_mat_row _ _ _ _ WB Hi); exact Hj.
Qed.
Lemma mget_mscale r c q A i j : wf_mat r c A -> (i < r)%nat -> (j < c)%nat -> mget (mscale q A) i j = q * mget A i j.
Proof.
  intros WA Hi Hj. unfold mget, mscale. rewrite (nth_map_gen (vscale q) A [] []) by (rewrite (wf_mat_length _ _ _ WA); exact Hi).
  apply nthq_vscale. rewrite (wf_mat_row _ _ _ _ WA Hi); exact Hj.
Qed.
Lemma mget_mneg r c A i j : wf_mat r c A -> (i < r)%nat -> (j < c)%nat -> mget (mneg A) i j = - mget A i j.
Proof.
  intros WA Hi Hj. unfold mget, mneg. rewrite (nth_map_gen vneg A [] []) by (rewrite (wf_mat_length _ _ _ WA); exact Hi).
  apply nthq_vneg. rewrite (wf_mat_row _ _ _ _ WA Hi); exact Hj.
Qed.
Lemma mget_outer x y i j : (i < length x)%nat -> (j < length y)%nat -> mget (outer x y) i j = nthq x i * nthq y j.
Proof.
  intros Hi Hj. unfold mget, outer. rewrite (nth_map_gen (fun xi => vscale xi y) x 0 []) by exact Hi.
  rewrite nthq_vscale by exact Hj. reflexivity.
Qed.
Lemma mget_identity n i j : (i < n)%nat -> (j < n)%nat -> mget (identity n) i j = if Nat.eqb i j then 1 else 0.
Proof. intros Hi Hj. unfold mget, identity. rewrite nth_seq_map by exact Hi. apply nthq_unit; exact Hj. Qed.
Lemma mget_diag d i j : (i < length d)%nat -> (j < length d)%nat -> mget (diag d) i j == if Nat.eqb i j then nthq d i else 0.
Proof.
  intros Hi Hj. unfold mget, diag. rewrite nth_seq_map by exact Hi. rewrite nthq_vscale by (rewrite unit_length; exact Hj).
  rewrite nthq_unit by exact Hj. destruct (Nat.eqb i j); ring.
Qed.
Lemma mget_mconst r c q i j : (i < r)%nat -> (j < c)%nat -> mget (mconst r c q) i j = q.
Proof.
  intros Hi Hj. unfold mget, mconst.
  assert (E : nth i (repeat (vconst c q) r) [] = vconst c q).
  { clear Hj. revert i Hi; induction r as [|r IH]; intros [|i] Hi; simpl; try lia; auto. apply IH; lia. }
  rewrite E. apply nthq_vconst; exact Hj.
Qed.
Lemma mget_mzero r c i j : mget (mzero r c) i j = 0.
Proof.
  unfold mget, mzero. destruct (Nat.lt_ge_cases i r) as [Hi|Hi].
  - assert (E : nth i (repeat (vzero c) r) [] = vzero c).
    { revert i Hi; induction r as [|r IH]; intros [|i] Hi; simpl; try lia; auto. apply IH; lia. }
    rewrite E. apply nthq_vzero.
  - rewrite nth_overflow by (rewrite repeat_length; exact Hi). destruct j; reflexivity.
Qed.
Lemma mget_row_scale r c d M i j : length d = r -> wf_mat r c M -> (i < r)%nat -> (j < c)%nat -> mget (row_scale d M) i j = nthq d i * mget M i j.
Proof.
  intros Hd WM Hi Hj. unfold mget, row_scale.
  rewrite (nth_map2 vscale d M i 0 [] []) by (rewrite ?(wf_mat_length _ _ _ WM); lia).
  apply nthq_vscale. rewrite (wf_mat_row _ _ _ _ WM Hi); exact Hj.
Qed.
Lemma mget_col_scale r c d M i j : length d = c -> wf_mat r c M -> (i < r)%nat -> (j < c)%nat -> mget (col_scale M d) i j = mget M i j * nthq d j.
Proof.
  intros Hd WM Hi Hj. unfold mget, col_scale.
  rewrite (nth_map_gen (fun r => vmul r d) M [] []) by (rewrite (wf_mat_length _ _ _ WM); exact Hi).
  apply nthq_vmul; rewrite ?(wf_mat_row _ _ _ _ WM Hi); lia.
Qed.
Lemma nthq_col j M i : (i < length M)%nat -> nthq (col j M) i = mget M i j.
Proof. intros Hi. unfold col, mget. rewrite (nthq_map_gen (fun r => nthq r j) M []) by exact Hi. reflexivity. Qed.
Lemma mget_transpose_n c M i j : (j < c)%nat -> (i < length M)%nat -> mget (transpose_n c M) j i = mget M i j.
Proof.
  intros Hj Hi. unfold transpose_n. unfold mget at 1. rewrite nth_seq_map by exact Hj. apply nthq_col; exact Hi.
Qed.
Lemma nth_transpose_n c M j : (j < c)%nat -> nth j (transpose_n c M) [] = col j M.
Proof. intros Hj. unfold transpose_n. apply (nth_seq_map (fun j => col j M)); exact Hj. Qed.

Lemma mget_block_11 A B C D i j : (i < length A)%nat -> (i < length B)%nat -> (j < length (nth i A []))%nat ->
  mget (block A B C D) i j = mget A i j.
Proof.
  intros HA HB Hj. unfold mget, block. rewrite app_nth1 by (rewrite map2_length; lia).
  rewrite (nth_map2 (@app Q) A B i [] [] []) by assumption. unfold nthq. apply app_nth1; exact Hj.
Qed.
Lemma mget_block_12 A B C D i j c1 : (i < length A)%nat -> (i < length B)%nat -> length (nth i A []) = c1 ->
  mget (block A B C D) i (c1 + j)%nat = mget B i j.
Proof.
  intros HA HB Hc. unfold mget, block. rewrite app_nth1 by (rewrite map2_length; lia).
  rewrite (nth_map2 (@app Q) A B i [] [] []) by assumption. unfold nthq. rewrite app_nth2 by lia. f_equal. lia.
Qed.
Lemma mget_block_21 A B C D i j r1 : length A = r1 -> length B = r1 -> (i < length C)%nat -> (i < length D)%nat -> (j < length (nth i C []))%nat ->
  mget (block A B C D) (r1 + i)%nat j = mget C i j.
Proof.
  intros HA HB HC HD Hj. unfold mget, block. rewrite app_nth2 by (rewrite map2_length; lia).
  rewrite map2_length, HA, HB, Nat.min_id. replace (r1 + i - r1)%nat with i by lia.
  rewrite (nth_map2 (@app Q) C D i [] [] []) by assumption. unfold nthq. apply app_nth1; exact Hj.
Qed.
Lemma mget_block_22 A B C D i j r1 c1 : length A = r1 -> length B = r1 -> (i < length C)%nat -> (i < length D)%nat -> length (nth i C []) = c1 ->
  mget (block A B C D) (r1 + i)%nat (c1 + j)%nat = mget D i j.
Proof.
  intros HA HB HC HD Hc. unfold mget, block. rewrite app_nth2 by (rewrite map2_length; lia).
  rewrite map2_length, HA, HB, Nat.min_id. replace (r1 + i - r1)%nat with i by lia.
  rewrite (nth_map2 (@app Q) C D i [] [] []) by assumption. unfold nthq. rewrite app_nth2 by lia. f_equal. lia.
Qed.

(** ** Proper instances *)
Global Instance madd_proper : Proper (meq ==> meq ==> meq) madd.
Proof.
  intros A A' H; induction H as [|a a' A A' Ha HA IH]; intros B B' HB; simpl; [constructor|].
  inversion HB; subst; simpl; constructor; auto. apply vadd_proper; auto. apply IH; auto.
Qed.
Global Instance msub_proper : Proper (meq ==> meq ==> meq) msub.
Proof.
  intros A A' H; induction H as [|a a' A A' Ha HA IH]; intros B B' HB; simpl; [constructor|].
  inversion HB; subst; simpl; constructor; auto. apply vsub_proper; auto. apply IH; auto.
Qed.
Global Instance mscale_proper : Proper (Qeq ==> meq ==> meq) mscale.
Proof. intros c c' E A A' H. induction H; simpl; constructor; auto. apply vscale_proper; auto. Qed.
Global Instance mneg_proper : Proper (meq ==> meq) mneg.
Proof. intros A A' H. induction H; simpl; constructor; auto. apply vneg_proper; auto. Qed.
Global Instance outer_proper : Proper (veq ==> veq ==> meq) outer.
Proof. intros x x' H y y' H'. induction H; simpl; constructor; auto. apply vscale_proper; auto. Qed.
Global Instance mat_vec_proper : Proper (meq ==> veq ==> veq) mat_vec.
Proof. intros A A' H x x' Hx. induction H; simpl; constructor; auto. apply dot_proper; auto. Qed.
Global Instance row_scale_proper : Proper (veq ==> meq ==> meq) row_scale.
Proof.
  intros d d' H; induction H as [|a a' d d' Ha Hd IH]; intros B B' HB; simpl; [constructor|].
  inversion HB; subst; simpl; constructor; auto. apply vscale_proper; auto. apply IH; auto.
Qed.
Global Instance col_scale_proper : Proper (meq ==> veq ==> meq) col_scale.
Proof. intros A A' H d d' Hd. induction H; simpl; constructor; auto. apply vmul_proper; auto. Qed.
Global Instance col_proper : Proper (eq ==> meq ==> veq) col.
Proof. intros j j' <- A A' H. induction H; simpl; constructor; auto. apply veq_nthq; auto. Qed.
Global Instance transpose_n_proper : Proper (eq ==> meq ==> meq) transpose_n.
Proof.
  intros c c' <- A A' H. unfold transpose_n. apply map_ext_meq. intros j _. apply col_proper; auto.
Qed.
Global Instance vsum_proper : Proper (eq ==> meq ==> veq) vsum.
Proof. intros n n' <- A A' H. induction H; simpl; [reflexivity|]. apply vadd_proper; auto. Qed.
Global Instance vec_mat_proper : Proper (eq ==> veq ==> meq ==> veq) vec_mat.
Proof. intros p p' <- r r' Hr B B' HB. unfold vec_mat. apply vsum_proper; auto. apply row_scale_proper; auto. Qed.
Global Instance mat_mul_proper : Proper (eq ==> meq ==> meq ==> meq) mat_mul.
Proof. intros p p' <- A A' HA B B' HB. induction HA; simpl; constructor; auto. apply vec_mat_proper; auto. Qed.
Global Instance row_sums_proper : Proper (meq ==> veq) row_sums.
Proof. intros A A' H. induction H; simpl; constructor; auto. apply sumq_proper; auto. Qed.
Global Instance col_sums_proper : Proper (eq ==> meq ==> veq) col_sums.
Proof. intros c c' <- A A' H. unfold col_sums. apply map_ext_veq. intros j _. apply sumq_proper. apply col_proper; auto. Qed.
Global Instance total_proper : Proper (meq ==> Qeq) total.
Proof. intros A A' H. unfold total. rewrite H. reflexivity. Qed.

(* ------------------------------------------------------------------------------------------- *)
(** * mat_vec: linearity *)
Lemma nthq_mat_vec M x i : (i < length M)%nat -> nthq (mat_vec M x) i = dot (nth i M []) x.
Proof. intros Hi. unfold mat_vec. rewrite (nthq_map_gen (fun r => dot r x) M []) by exact Hi. reflexivity. Qed.

Lemma mat_vec_vadd M x y : length x = length y -> mat_vec M (vadd x y) =v vadd (mat_vec M x) (mat_vec M y).
Proof.
  intros H. induction M as [|r M IH]; simpl; [constructor|]. constructor; [|exact IH]. apply dot_vadd_r; exact H.
Qed.
Lemma mat_vec_vscale M c x : mat_vec M (vscale c x) =v vscale c (mat_vec M x).
Proof. induction M as [|r M IH]; simpl; constructor; auto. apply dot_vscale_r. Qed.
Lemma mat_vec_vzero M n : mat_vec M (vzero n) =v vzero (length M).
Proof. induction M as [|r M IH]; simpl; constructor; auto. apply dot_vzero_r. Qed.
Lemma mat_vec_madd r c A B x : wf_mat r c A -> wf_mat r c B -> mat_vec (madd A B) x =v vadd (mat_vec A x) (mat_vec B x).
Proof.
  intros [HA FA] [HB FB]. clear HA HB. revert B FB; induction FA as [|a A Ha FA IH]; intros [|b B] FB; simpl; try constructor.
  - inversion FB; subst. apply dot_vadd_l. lia.
  - inversion FB; subst. apply IH; assumption.
Qed.
Lemma mat_vec_msub r c A B x : wf_mat r c A -> wf_mat r c B -> mat_vec (msub A B) x =v vsub (mat_vec A x) (mat_vec B x).
Proof.
  intros [HA FA] [HB FB]. clear HA HB. revert B FB; induction FA as [|a A Ha FA IH]; intros [|b B] FB; simpl; try constructor.
  - inversion FB; subst. apply dot_vsub_l. lia.
  - inversion FB; subst. apply IH; assumption.
Qed.
Lemma mat_vec_mscale c A x : mat_vec (mscale c A) x =v vscale c (mat_vec A x).
Proof. induction A as [|a A IH]; simpl; constructor; auto. apply dot_vscale_l. Qed.
Lemma mat_vec_mneg A x : mat_vec (mneg A) x =v vneg (mat_vec A x).
Proof. induction A as [|a A IH]; simpl; constructor; auto. apply dot_vneg_l. Qed.
Lemma mat_vec_outer x y v : mat_vec (outer x y) v =v vscale (dot y v) x.
Proof. induction x as [|a x IH]; simpl; constructor; auto. rewrite dot_vscale_l. ring. Qed.
Lemma mat_vec_row_scale d M x : mat_vec (row_scale d M) x =v vmul d (mat_vec M x).
Proof.
  revert M; induction d as [|q d IH]; intros [|r M]; simpl; try constructor; [apply dot_vscale_l | apply IH].
Qed.
Lemma dot_vmul_l r d x : dot (vmul r d) x == dot r (vmul d x).
Proof.
  revert d x; induction r as [|a r IH]; intros d x; [reflexivity|].
  destruct d as [|b d]; [reflexivity|]. destruct x as [|c x].
  - change (vmul (b :: d) []) with (@nil Q). rewrite !dot_nil_r. reflexivity.
  - change (dot (a * b :: vmul r d) (c :: x) == dot (a :: r) (b * c :: vmul d x)). rewrite !dot_cons, IH. ring.
Qed.
Lemma mat_vec_col_scale M d x : mat_vec (col_scale M d) x =v mat_vec M (vmul d x).
Proof. induction M as [|r M IH]; simpl; constructor; auto. apply dot_vmul_l. Qed.
Lemma mat_vec_identity n x : length x = n -> mat_vec (identity n) x =v x.
Proof.
  intros H. apply veq_nth; [rewrite mat_vec_length; unfold identity; rewrite map_length, seq_length; lia|].
  intros i Hi. rewrite mat_vec_length in Hi. unfold identity in *. rewrite map_length, seq_length in Hi.
  rewrite nthq_mat_vec by (rewrite map_length, seq_length; exact Hi). rewrite nth_seq_map by exact Hi.
  apply dot_unit_l; assumption.
Qed.
Lemma mat_vec_diag d x : length x = length d -> mat_vec (diag d) x =v vmul d x.
Proof.
  intros H. apply veq_nth; [rewrite mat_vec_length, vmul_length; unfold diag; rewrite map_length, seq_length; lia|].
  intros i Hi. rewrite mat_vec_length in Hi. unfold diag in *. rewrite map_length, seq_length in Hi.
  rewrite nthq_mat_vec by (rewrite map_length, seq_length; exact Hi). rewrite nth_seq_map by exact Hi.
  rewrite dot_vscale_l, dot_unit_l by lia. rewrite nthq_vmul by lia. reflexivity.
Qed.
Lemma mat_vec_mconst r c q x : length x = c -> mat_vec (mconst r c q) x =v vconst r (q * sumq x).
Proof.
  intros H. unfold mconst, vconst. induction r as [|r IH]; simpl; constructor; auto. subst c. apply dot_vconst_l.
Qed.
Lemma mat_vec_mzero r c x : mat_vec (mzero r c) x =v vzero r.
Proof. unfold mzero, vzero. induction r as [|r IH]; simpl; constructor; auto. apply dot_vzero_l. Qed.
Lemma mat_vec_vones r c M : wf_mat r c M -> mat_vec M (vones c) =v row_sums M.
Proof.
  intros [_ HF]. induction HF as [|a M Ha HF IH]; simpl; constructor; auto. subst c. apply dot_vones_r.
Qed.
Lemma mat_vec_transpose_vones c M : mat_vec (transpose_n c M) (vones (length M)) =v col_sums c M.
Proof.
  unfold transpose_n, col_sums, mat_vec. rewrite map_map. apply map_ext_veq. intros j _.
  rewrite <- (col_length j M). apply dot_vones_r.
Qed.

(** ** vec_mat / mat_mul *)
Lemma vec_mat_nil_l p B : vec_mat p [] B = vzero p. Proof. reflexivity. Qed.
Lemma vec_mat_nil_r p r : vec_mat p r [] = vzero p. Proof. destruct r; reflexivity. Qed.
Lemma vec_mat_cons p a r b B : vec_mat p (a :: r) (b :: B) = vadd (vscale a b) (vec_mat p r B). Proof. reflexivity. Qed.

Lemma nthq_vec_mat p r B j : Forall (fun row => length row = p) B -> (j < p)%nat -> nthq (vec_mat p r B) j == dot r (col j B).
Proof.
  intros HF Hj. revert r; induction HF as [|b B Hb HF IH]; intros r.
  - rewrite vec_mat_nil_r, nthq_vzero. simpl. rewrite dot_nil_r. reflexivity.
  - destruct r as [|a r]; [rewrite vec_mat_nil_l, nthq_vzero; reflexivity|].
    rewrite vec_mat_cons. rewrite nthq_vadd by (rewrite ?vscale_length, ?vec_mat_length; auto; lia).
    rewrite nthq_vscale by lia. rewrite IH. simpl. rewrite dot_cons. reflexivity.
Qed.

Lemma mget_mat_mul r q p A B i j : wf_mat r q A -> wf_mat q p B -> (i < r)%nat -> (j < p)%nat ->
  mget (mat_mul p A B) i j == dot (nth i A []) (col j B).
Proof.
  intros WA WB Hi Hj. unfold mget, mat_mul.
  rewrite (nth_map_gen (fun ra => vec_mat p ra B) A [] []) by (rewrite (wf_mat_length _ _ _ WA); exact Hi).
  apply nthq_vec_mat; [apply (wf_mat_rows _ _ _ WB) | exact Hj].
Qed.

Lemma dot_vec_mat p r B x : Forall (fun row => length row = p) B -> dot (vec_mat p r B) x == dot r (mat_vec B x).
Proof.
  intros HF. revert r; induction HF as [|b B Hb HF IH]; intros r.
  - rewrite vec_mat_nil_r. simpl. rewrite dot_nil_r. apply dot_vzero_l.
  - destruct r as [|a r]; [rewrite vec_mat_nil_l; apply dot_vzero_l|].
    rewrite vec_mat_cons. rewrite dot_vadd_l by (rewrite vscale_length, vec_mat_length; auto).
    rewrite dot_vscale_l, IH. simpl. rewrite dot_cons. reflexivity.
Qed.

(** (A B) x = A (B x) *)
Lemma mat_vec_mat_mul p A B x : Forall (fun row => length row = p) B -> mat_vec (mat_mul p A B) x =v mat_vec A (mat_vec B x).
Proof. intros HF. induction A as [|a A IH]; simpl; constructor; auto. apply dot_vec_mat; exact HF. Qed.

Lemma vec_mat_transpose r c M x : wf_mat r c M -> vec_mat c x M =v mat_vec (transpose_n c M) x.
Proof.
  intros WM. apply veq_nth.
  - rewrite vec_mat_length by apply (wf_mat_rows _ _ _ WM). rewrite mat_vec_length. unfold transpose_n. rewrite map_length, seq_length. reflexivity.
  - intros j Hj. rewrite vec_mat_length in Hj by apply (wf_mat_rows _ _ _ WM).
    rewrite nthq_vec_mat by (auto; apply (wf_mat_rows _ _ _ WM)).
    rewrite nthq_mat_vec by (unfold transpose_n; rewrite map_length, seq_length; exact Hj).
    rewrite nth_transpose_n by exact Hj. apply dot_comm.
Qed.

(** y . (M x) = (M^T y) . x *)
Lemma dot_mat_vec_transpose r c M x y : wf_mat r c M -> dot y (mat_vec M x) == dot (mat_vec (transpose_n c M) y) x.
Proof. intros WM. rewrite <- (vec_mat_transpose r c M y WM). symmetry. apply dot_vec_mat. apply (wf_mat_rows _ _ _ WM). Qed.

Lemma vec_mat_vadd_l p u v B : length u = length v -> Forall (fun row => length row = p) B ->
  vec_mat p (vadd u v) B =v vadd (vec_mat p u B) (vec_mat p v B).
Proof.
  intros H HF. apply veq_nth.
  - rewrite vadd_length, !vec_mat_length by exact HF. lia.
  - intros j Hj. rewrite vec_mat_length in Hj by exact HF.
    rewrite nthq_vadd by (rewrite vec_mat_length; auto). rewrite !nthq_vec_mat by auto. apply dot_vadd_l; exact H.
Qed.
Lemma vec_mat_vscale_l p c u B : Forall (fun row => length row = p) B -> vec_mat p (vscale c u) B =v vscale c (vec_mat p u B).
Proof.
  intros HF. apply veq_nth.
  - rewrite vscale_length, !vec_mat_length by exact HF. reflexivity.
  - intros j Hj. rewrite vec_mat_length in Hj by exact HF.
    rewrite nthq_vscale by (rewrite vec_mat_length; auto). rewrite !nthq_vec_mat by auto. apply dot_vscale_l.
Qed.
Lemma vec_mat_vzero_l p n B : Forall (fun row => length row = p) B -> vec_mat p (vzero n) B =v vzero p.
Proof.
  intros HF. apply veq_nth; [rewrite vec_mat_length, vzero_length; auto|].
  intros j Hj. rewrite vec_mat_length in Hj by exact HF. rewrite nthq_vec_mat, nthq_vzero by auto. apply dot_vzero_l.
Qed.
Lemma vec_mat_unit q p i B : wf_mat q p B -> (i < q)%nat -> vec_mat p (unit q i) B =v nth i B [].
Proof.
  intros WB Hi. apply veq_nth; [rewrite vec_mat_length, (wf_mat_row _ _ _ _ WB Hi); auto; apply (wf_mat_rows _ _ _ WB)|].
  intros j Hj. rewrite vec_mat_length in Hj by apply (wf_mat_rows _ _ _ WB).
  rewrite nthq_vec_mat by (auto; apply (wf_mat_rows _ _ _ WB)).
  rewrite dot_unit_l by (rewrite ?col_length, ?(wf_mat_length _ _ _ WB); auto).
  rewrite nthq_col by (rewrite (wf_mat_length _ _ _ WB); exact Hi). reflexivity.
Qed.

(** entries of products, sums: used to prove matrix identities entrywise *)
Lemma mat_mul_madd_l r q p A A' B : wf_mat r q A -> wf_mat r q A' -> wf_mat q p B ->
  mat_mul p (madd A A') B =m madd (mat_mul p A B) (mat_mul p A' B).
Proof.
  intros [HA FA] [HA' FA'] WB. clear HA HA'. revert A' FA'; induction FA as [|a A Ha FA IH]; intros [|a' A'] FA'; simpl; try constructor.
  - inversion FA'; subst. apply vec_mat_vadd_l; [lia | apply (wf_mat_rows _ _ _ WB)].
  - inversion FA'; subst. apply IH; assumption.
Qed.
Lemma mat_mul_mscale_l p c A B : Forall (fun row => length row = p) B -> mat_mul p (mscale c A) B =m mscale c (mat_mul p A B).
Proof. intros HF. induction A as [|a A IH]; simpl; constructor; auto. apply vec_mat_vscale_l; exact HF. Qed.
Lemma mat_mul_outer_l (c p : nat) x y B : wf_mat c p B -> length y = c ->
  mat_mul p (outer x y) B =m outer x (vec_mat p y B).
Proof.
  intros WB Hy. induction x as [|a x IH]; simpl; constructor; auto. apply vec_mat_vscale_l. apply (wf_mat_rows _ _ _ WB).
Qed.
Lemma mat_mul_row_scale_l p d A B : Forall (fun row => length row = p) B -> mat_mul p (row_scale d A) B =m row_scale d (mat_mul p A B).
Proof.
  intros HF. revert A; induction d as [|q d IH]; intros [|a A]; simpl; try constructor; [apply vec_mat_vscale_l; exact HF | apply IH].
Qed.
Lemma mat_mul_identity_l n p B : wf_mat n p B -> mat_mul p (identity n) B =m B.
Proof.
  intros WB. apply meq_nth; [unfold mat_mul, identity; rewrite !map_length, seq_length; symmetry; apply (wf_mat_length _ _ _ WB)|].
  intros i Hi. unfold mat_mul, identity in *. rewrite !map_length, seq_length in Hi. rewrite map_map.
  rewrite nth_seq_map by exact Hi. apply (vec_mat_unit n p); assumption.
Qed.

(** (A B) C = A (B C) *)
Lemma vec_mat_mat_mul q p s r B C : wf_mat q p B -> wf_mat p s C -> length r = q ->
  vec_mat s (vec_mat p r B) C =v vec_mat s r (mat_mul s B C).
Proof.
  intros WB WC Hr.
  assert (WBC : wf_mat q s (mat_mul s B C)) by (eapply mat_mul_wf; eauto).
  apply veq_nth.
  - rewrite !vec_mat_length; auto; [apply (wf_mat_rows _ _ _ WBC) | apply (wf_mat_rows _ _ _ WC)].
  - intros j Hj. rewrite vec_mat_length in Hj by apply (wf_mat_rows _ _ _ WC).
    rewrite nthq_vec_mat by (auto; apply (wf_mat_rows _ _ _ WC)).
    rewrite nthq_vec_mat by (auto; apply (wf_mat_rows _ _ _ WBC)).
    rewrite dot_vec_mat by apply (wf_mat_rows _ _ _ WB). apply dot_proper; [reflexivity|].
    (* B (col j C) = col j (B C) *)
    apply veq_nth; [rewrite mat_vec_length, col_length; unfold mat_mul; rewrite map_length; reflexivity|].
    intros i Hi. rewrite mat_vec_length, (wf_mat_length _ _ _ WB) in Hi.
    rewrite nthq_mat_vec by (rewrite (wf_mat_length _ _ _ WB); exact Hi).
    rewrite nthq_col by (rewrite (wf_mat_length _ _ _ WBC); exact Hi).
    symmetry. apply (mget_mat_mul q p s); assumption.
Qed.
Lemma mat_mul_assoc r q p s A B C : wf_mat r q A -> wf_mat q p B -> wf_mat p s C ->
  mat_mul s (mat_mul p A B) C =m mat_mul s A (mat_mul s B C).
Proof.
  intros [HA FA] WB WC. clear HA. induction FA as [|a A Ha FA IH]; simpl; constructor; auto.
  apply (vec_mat_mat_mul q p s); assumption.
Qed.

(** ** transposition *)
Lemma transpose_madd r c A B : wf_mat r c A -> wf_mat r c B -> transpose_n c (madd A B) =m madd (transpose_n c A) (transpose_n c B).
Proof.
  intros WA WB.
  pose proof (madd_wf _ _ _ _ WA WB) as WS.
  pose proof (transpose_n_wf r c A (wf_mat_length _ _ _ WA)) as WAt.
  pose proof (transpose_n_wf r c B (wf_mat_length _ _ _ WB)) as WBt.
  apply (meq_mget c r).
  - apply transpose_n_wf. apply (wf_mat_length _ _ _ WS).
  - apply madd_wf; assumption.
  - intros j i Hj Hi.
    rewrite mget_transpose_n by (rewrite ?(wf_mat_length _ _ _ WS); auto).
    rewrite (mget_madd r c) by auto.
    rewrite (mget_madd c r) by auto.
    rewrite !mget_transpose_n by (rewrite ?(wf_mat_length _ _ _ WA), ?(wf_mat_length _ _ _ WB); auto).
    reflexivity.
Qed.
Lemma transpose_mscale r c q A : wf_mat r c A -> transpose_n c (mscale q A) =m mscale q (transpose_n c A).
Proof.
  intros WA. pose proof (mscale_wf _ _ q _ WA) as WS.
  pose proof (transpose_n_wf r c A (wf_mat_length _ _ _ WA)) as WAt.
  apply (meq_mget c r).
  - apply transpose_n_wf. apply (wf_mat_length _ _ _ WS).
  - apply mscale_wf. assumption.
  - intros j i Hj Hi. rewrite mget_transpose_n by (rewrite ?(wf_mat_length _ _ _ WS); auto).
    rewrite (mget_mscale r c) by auto.
    rewrite (mget_mscale c r) by auto.
    rewrite mget_transpose_n by (rewrite ?(wf_mat_length _ _ _ WA); auto).
    reflexivity.
Qed.
Lemma transpose_mneg r c A : wf_mat r c A -> transpose_n c (mneg A) =m mneg (transpose_n c A).
Proof.
  intros WA. pose proof (mneg_wf _ _ _ WA) as WS.
  pose proof (transpose_n_wf r c A (wf_mat_length _ _ _ WA)) as WAt.
  apply (meq_mget c r).
  - apply transpose_n_wf. apply (wf_mat_length _ _ _ WS).
  - apply mneg_wf. assumption.
  - intros j i Hj Hi. rewrite mget_transpose_n by (rewrite ?(wf_mat_length _ _ _ WS); auto).
    rewrite (mget_mneg r c) by auto.
    rewrite (mget_mneg c r) by auto.
    rewrite mget_transpose_n by (rewrite ?(wf_mat_length _ _ _ WA); auto).
    reflexivity.
Qed.
Lemma transpose_outer x y : transpose_n (length y) (outer x y) =m outer y x.
Proof.
  apply (meq_mget (length y) (length x)).
  - apply transpose_n_wf. apply (wf_mat_length _ _ _ (outer_wf x y)).
  - apply outer_wf.
  - intros j i Hj Hi. rewrite mget_transpose_n by (rewrite ?(wf_mat_length _ _ _ (outer_wf x y)); auto).
    rewrite !mget_outer by auto. ring.
Qed.
Lemma transpose_transpose r c M : wf_mat r c M -> transpose_n r (transpose_n c M) =m M.
Proof.
  intros WM. pose proof (transpose_n_wf r c M (wf_mat_length _ _ _ WM)) as WT. apply (meq_mget r c); auto.
  - apply transpose_n_wf. apply (wf_mat_length _ _ _ WT).
  - intros i j Hi Hj. rewrite mget_transpose_n by (rewrite ?(wf_mat_length _ _ _ WT); auto).
    rewrite mget_transpose_n by (rewrite ?(wf_mat_length _ _ _ WM); auto). reflexivity.
Qed.
Lemma col_transpose_n r c M i : wf_mat r c M -> (i < r)%nat -> col i (transpose_n c M) =v nth i M [].
Proof.
  intros WM Hi. pose proof (transpose_n_wf r c M (wf_mat_length _ _ _ WM)) as WT.
  apply veq_nth; [rewrite col_length, (wf_mat_length _ _ _ WT), (wf_mat_row _ _ _ _ WM Hi); reflexivity|].
  intros j Hj. rewrite col_length, (wf_mat_length _ _ _ WT) in Hj.
  rewrite nthq_col by (rewrite (wf_mat_length _ _ _ WT); exact Hj).
  rewrite mget_transpose_n by (rewrite ?(wf_mat_length _ _ _ WM); auto). reflexivity.
Qed.
(** (A B)^T = B^T A^T *)
Lemma transpose_mat_mul r q p A B : wf_mat r q A -> wf_mat q p B ->
  transpose_n p (mat_mul p A B) =m mat_mul r (transpose_n p B) (transpose_n q A).
Proof.
  intros WA WB. pose proof (mat_mul_wf _ _ _ _ _ WA WB) as WAB.
  pose proof (transpose_n_wf q p B (wf_mat_length _ _ _ WB)) as WBt.
  pose proof (transpose_n_wf r q A (wf_mat_length _ _ _ WA)) as WAt.
  apply (meq_mget p r).
  - apply transpose_n_wf. apply (wf_mat_length _ _ _ WAB).
  - eapply mat_mul_wf; eauto.
  - intros j i Hj Hi. rewrite mget_transpose_n by (rewrite ?(wf_mat_length _ _ _ WAB); auto).
    rewrite (mget_mat_mul r q p) by auto. rewrite (mget_mat_mul p q r) by auto.
    rewrite nth_transpose_n by exact Hj. rewrite (col_transpose_n r q) by auto. apply dot_comm.
Qed.
Lemma transpose_identity n : transpose_n n (identity n) =m identity n.
Proof.
  pose proof (identity_wf n) as WI. apply (meq_mget n n); auto.
  - apply transpose_n_wf. apply (wf_mat_length _ _ _ WI).
  - intros j i Hj Hi. rewrite mget_transpose_n by (rewrite ?(wf_mat_length _ _ _ WI); auto).
    rewrite !mget_identity by auto. rewrite (Nat.eqb_sym i j). reflexivity.
Qed.
Lemma transpose_symmetric n A : wf_mat n n A -> msymmetric n A -> transpose_n n A =m A.
Proof.
  intros WA HS. apply (meq_mget n n); auto.
  - apply transpose_n_wf. apply (wf_mat_length _ _ _ WA).
  - intros j i Hj Hi. rewrite mget_transpose_n by (rewrite ?(wf_mat_length _ _ _ WA); auto). apply HS; assumption.
Qed.
Lemma transpose_row_scale r c d M : length d = r -> wf_mat r c M -> transpose_n c (row_scale d M) =m col_scale (transpose_n c M) d.
Proof.
  intros Hd WM. pose proof (row_scale_wf _ _ _ _ Hd WM) as WS.
  pose proof (transpose_n_wf r c M (wf_mat_length _ _ _ WM)) as WT. apply (meq_mget c r).
  - apply transpose_n_wf. apply (wf_mat_length _ _ _ WS).
  - apply col_scale_wf; assumption.
  - intros j i Hj Hi. rewrite mget_transpose_n by (rewrite ?(wf_mat_length _ _ _ WS); auto).
    rewrite (mget_row_scale r c) by auto. rewrite (mget_col_scale c r) by auto.
    rewrite mget_transpose_n by (rewrite ?(wf_mat_length _ _ _ WM); auto). ring.
Qed.
Lemma transpose_col_scale r c d M : length d = c -> wf_mat r c M -> transpose_n c (col_scale M d) =m row_scale d (transpose_n c M).
Proof.
  intros Hd WM. pose proof (col_scale_wf _ _ _ _ Hd WM) as WS.
  pose proof (transpose_n_wf r c M (wf_mat_length _ _ _ WM)) as WT. apply (meq_mget c r).
  - apply transpose_n_wf. apply (wf_mat_length _ _ _ WS).
  - apply row_scale_wf; assumption.
  - intros j i Hj Hi. rewrite mget_transpose_n by (rewrite ?(wf_mat_length _ _ _ WS); auto).
    rewrite (mget_row_scale c r) by auto. rewrite (mget_col_scale r c) by auto.
    rewrite mget_transpose_n by (rewrite ?(wf_mat_length _ _ _ WM); auto). ring.
Qed.
Lemma transpose_mconst r c q : transpose_n c (mconst r c q) =m mconst c r q.
Proof.
  pose proof (mconst_wf r c q) as W. apply (meq_mget c r).
  - apply transpose_n_wf. apply (wf_mat_length _ _ _ W).
  - apply mconst_wf.
  - intros j i Hj Hi. rewrite mget_transpose_n by (rewrite ?(wf_mat_length _ _ _ W); auto).
    rewrite !mget_mconst by auto. reflexivity.
Qed.

(** ** further identities *)
Lemma outer_vconst r c a b : outer (vconst r a) (vconst c b) =m mconst r c (a * b).
Proof.
  apply (meq_mget r c).
  - pose proof (outer_wf (vconst r a) (vconst c b)) as W. rewrite !vconst_length in W. exact W.
  - apply mconst_wf.
  - intros i j Hi Hj. rewrite mget_outer by (rewrite vconst_length; auto). rewrite !nthq_vconst, mget_mconst by auto. reflexivity.
Qed.
Lemma row_scale_diag n p d M : length d = n -> wf_mat n p M -> row_scale d M =m mat_mul p (diag d) M.
Proof.
  intros Hd WM. apply meq_nth.
  - unfold row_scale, mat_mul, diag. rewrite map2_length, !map_length, seq_length, (wf_mat_length _ _ _ WM). lia.
  - intros i Hi. unfold row_scale in Hi. rewrite map2_length, (wf_mat_length _ _ _ WM), Hd, Nat.min_id in Hi.
    unfold row_scale. rewrite (nth_map2 vscale d M i 0 [] []) by (rewrite ?(wf_mat_length _ _ _ WM); lia).
    unfold mat_mul, diag. rewrite map_map, Hd. rewrite nth_seq_map by exact Hi.
    rewrite vec_mat_vscale_l by apply (wf_mat_rows _ _ _ WM).
    rewrite (vec_mat_unit n p) by assumption. reflexivity.
Qed.
Lemma mneg_mscale A : mneg A =m mscale (-(1)) A.
Proof. induction A; simpl; constructor; auto. apply vneg_vscale. Qed.
Lemma msub_madd_mneg A B : msub A B =m madd A (mneg B).
Proof. revert B; induction A as [|a A IH]; intros [|b B]; simpl; constructor; [apply vsub_vadd_vneg | apply IH]. Qed.
Lemma madd_comm A B : madd A B =m madd B A.
Proof. revert B; induction A as [|a A IH]; intros [|b B]; simpl; constructor; [apply vadd_comm | apply IH]. Qed.
Lemma madd_assoc A B C : madd (madd A B) C =m madd A (madd B C).
Proof. revert B C; induction A as [|a A IH]; intros [|b B] [|c C]; simpl; constructor; [apply vadd_assoc | apply IH]. Qed.
Lemma mscale_madd q A B : mscale q (madd A B) =m madd (mscale q A) (mscale q B).
Proof. revert B; induction A as [|a A IH]; intros [|b B]; simpl; constructor; [apply vscale_vadd | apply IH]. Qed.
Lemma mscale_outer q x y : mscale q (outer x y) =m outer (vscale q x) y.
Proof. induction x as [|a x IH]; simpl; constructor; auto. apply vscale_vscale. Qed.
Lemma mneg_outer x y : mneg (outer x y) =m outer (vneg x) y.
Proof. rewrite mneg_mscale, mscale_outer, <- vneg_vscale. reflexivity. Qed.

Lemma row_sums_total_col_sums r c M : wf_mat r c M -> sumq (col_sums c M) == total M.
Proof.
  intros WM. unfold total.
  assert (E1 : sumq (row_sums M) == dot (vones r) (mat_vec M (vones c))).
  { rewrite (mat_vec_vones r c M WM). rewrite <- (wf_mat_length _ _ _ WM), <- (row_sums_length M). symmetry. apply dot_vones_l. }
  rewrite E1, (dot_mat_vec_transpose r c M _ _ WM).
  assert (E : mat_vec (transpose_n c M) (vones r) =v col_sums c M).
  { rewrite <- (wf_mat_length _ _ _ WM). apply mat_vec_transpose_vones. }
  rewrite E.
  assert (E2 := dot_vones_r (col_sums c M)). rewrite col_sums_length in E2. symmetry; exact E2.
Qed.

#!/bin/sh
# Offline build of the framework: regenerate coq/Gen from /repo, full .vo build of the Coq development.
# Files of properties that are not (yet) claimed in MANIFEST.json may fail without failing the setup (-k);
# every claimed property's Props/Cnn.vo must have been built.
cd "$(dirname "$0")" || exit 2
export PYTHONHASHSEED=0 PYTHONDONTWRITEBYTECODE=1
/venv/bin/python -c '
import json, os, sys
from harness import translate, common
print("translators:", translate.regenerate())
rc, out = common.coq_make(["-k"])
print(out[-1200:])
claimed = [c["property_id"] for c in json.load(open("MANIFEST.json"))["checks"]]
missing = [p for p in claimed if not os.path.exists(os.path.join(common.COQ, "Props", p + ".vo"))]
print("claimed:", claimed, "missing:", missing)
sys.exit(1 if missing else 0)'

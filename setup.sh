#!/bin/sh
# Offline build of the framework: regenerate coq/Gen from /repo, full .vo build of the Coq development.
cd "$(dirname "$0")" || exit 2
export PYTHONHASHSEED=0 PYTHONDONTWRITEBYTECODE=1
/venv/bin/python -c 'from harness import translate; print(translate.regenerate())' || exit 1
cd coq && coq_makefile -f _CoqProject -o Makefile >/dev/null && timeout 3000 make -j16 2>&1 | tail -5
test -f Props/C10.vo

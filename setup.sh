#!/bin/sh
# Offline build of the framework: regenerate coq/Gen from /repo, full .vo build of the Coq development.
cd "$(dirname "$0")" || exit 2
export PYTHONHASHSEED=0 PYTHONDONTWRITEBYTECODE=1
/venv/bin/python -c '
import sys
from harness import translate, common
print("translators:", translate.regenerate())
rc, out = common.coq_make([])
print(out[-1500:])
sys.exit(rc)'

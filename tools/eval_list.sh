#!/bin/sh
# tools/eval_list.sh <round> <Cnn> ...: evaluate the named seed outputs /tmp/seed_out_<Cnn>_<round> against their own check
k=$1; shift
for p in "$@"; do
  d=/tmp/seed_out_${p}_$k
  [ -f $d/patch.diff ] && [ -f $d/meta.json ] || { echo "${p}_$k not ready"; continue; }
  out=$(/verif/tools/try_patch.sh $d/patch.diff $p 2>&1)
  r=$(echo "$out" | grep -m1 "^== \|PATCH DOES NOT")
  v=$(echo "$out" | grep -c "^VIOLATION")
  n=$(echo "$out" | grep -c "no-failing-input-found")
  echo "${p}_$k $r violations=$v no_input=$n"
  echo "$out" > /tmp/eval_${p}_$k.out
done

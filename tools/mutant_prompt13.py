#!/venv/bin/python
"""Round-13 prompt: round-6 prompt + a nudge towards the compiled kernels and the innermost loops of the algorithms."""
import subprocess, sys
pid, k = sys.argv[1], sys.argv[2]
base = subprocess.run(['/venv/bin/python', '/verif/tools/mutant_prompt6.py', pid, k], stdout=subprocess.PIPE, text=True).stdout
marker = 'Your task: make ONE small'
extra = ('For this round the change must sit in the ALGORITHMIC CORE, not in argument handling or glue: inside a compiled kernel (a '
         '.pyx file: loop bounds, the order of two updates, an accumulator, a comparison, a heap / queue / stack operation, an index '
         'expression, a prange / nogil section, a memory view or a C++ container) when the property has one among its relevant files, '
         'otherwise inside the innermost loop or the central formula of the main algorithm of the property. It must still be the kind '
         'of slip that survives review: right on the graphs people try first (connected, undirected, unit weights, distinct values, '
         'small degrees) and wrong only on a structural corner (ties, sinks, self-loops, isolated nodes, duplicate entries, a component '
         'of size one or two, a node of very high degree, the last node / last row, equal weights, zero weights). Remember to rebuild '
         'after changing a .pyx file. Avoid re-using any mechanism from the list above.\n\n')
print(base.replace(marker, extra + marker))

#!/venv/bin/python
"""Round-8 prompt: round-6 prompt + a nudge towards shared helpers and rarely used options."""
import subprocess, sys
pid, k = sys.argv[1], sys.argv[2]
base = subprocess.run(['/venv/bin/python', '/verif/tools/mutant_prompt6.py', pid, k], stdout=subprocess.PIPE, text=True).stdout
marker = 'Your task: make ONE small'
extra = ('For this round, strongly prefer one of: (a) a change in a SHARED helper (sknetwork/utils/*, sknetwork/linalg/*, a base class) whose '
         'effect on this property shows only through one particular caller or option; (b) a change that only matters for a rarely used '
         'constructor option or input form of the anchored files; (c) a numerical slip (dtype, integer division, overflow, tolerance, '
         'in-place update of a view) that needs particular magnitudes or dtypes. Avoid re-using any mechanism from the list above.\n\n')
print(base.replace(marker, extra + marker))

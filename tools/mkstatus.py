#!/venv/bin/python
"""Regenerate the status table of DESIGN.md (A8) from coq/Props/*.v and evidence/*.json: tools/mkstatus.py"""
import json, os, re
root = os.path.dirname(os.path.dirname(os.path.abspath(__file__)))
rows = []
for i in range(1, 21):
    pid = 'C%02d' % i
    t = open(os.path.join(root, 'coq/Props/%s.v' % pid)).read()
    names = re.findall(r'^Theorem\s+([A-Za-z0-9_\']+)', t, re.M)
    ev = {}
    try:
        ev = json.load(open(os.path.join(root, 'evidence/%s.json' % pid)))
    except (OSError, ValueError):
        pass
    cov = ev.get('coverage', {})
    ax = cov.get('axioms_seen') or []
    rows.append('| %s | %d | %d | %d | %s | %s |' % (
        pid, len(names), sum('partial' in n or 'upto' in n for n in names), sum('refuted' in n for n in names),
        cov.get('evaluations', '?'), 'Reals axioms' if ax else 'none'))
head = ['| property | theorems in Props | of which `_partial` / bounded | of which `_refuted` (legacy / necessity witnesses) | quick-tier evaluations | axioms |',
        '|---|---|---|---|---|---|']
p = os.path.join(root, 'DESIGN.md')
s = open(p).read()
a, b = '<!-- A8-TABLE-BEGIN -->', '<!-- A8-TABLE-END -->'
new = a + '\n' + '\n'.join(head + rows) + '\n' + b
if a in s:
    s = s[:s.index(a)] + new + s[s.index(b) + len(b):]
else:
    m = re.search(r'\| property \| theorems in Props.*?\n(\|.*\n)+', s)
    s = s[:m.start()] + new + '\n' + s[m.end():]
open(p, 'w').write(s)
print('\n'.join(rows))

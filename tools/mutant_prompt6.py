#!/venv/bin/python
"""Round-6 prompt: tools/mutant_prompt6.py C10 k  (round-5 prompt + the list of changes already tried for this property)"""
import glob, json, subprocess, sys
pid, k = sys.argv[1], sys.argv[2]
base = subprocess.run(['/venv/bin/python', '/verif/tools/mutant_prompt5.py', pid, k], stdout=subprocess.PIPE, text=True).stdout
tried = []
for d in sorted(glob.glob('/verif/seeded/%s_*' % pid)):
    m = json.load(open(d + '/meta.json'))
    tried.append('- ' + m['summary'][:260].replace('\n', ' '))
marker = 'Your task: make ONE small'
extra = ('Changes that were ALREADY tried for this property in earlier rounds (do NOT repeat any of them or a close variant; pick a different '
         'function or a different mechanism):\n' + '\n'.join(tried) + '\n\n')
print(base.replace(marker, extra + marker))

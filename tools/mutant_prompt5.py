#!/venv/bin/python
"""Round-5 prompt for a seeded-change sub-agent: tools/mutant_prompt5.py C10 k  (adds a mechanism hint to mutant_prompt.py)"""
import subprocess, sys
pid, k = sys.argv[1], sys.argv[2]
HINT = {
 'C01': "the non-modification half through an argument other than the adjacency matrix (a labels/values dict, a feature matrix, initial positions, a weights array) in a less central estimator, or a format dependence that needs COO duplicates / LIL / an explicit dtype to show",
 'C02': "a dependence on node numbering that only shows for particular structures (ties between equal-scored nodes, bipartite graphs with independent row/column renumbering, isolated nodes, weighted directed graphs)",
 'C03': "per-side seeds / labels / sources given in an unusual form (dict on the column side only, mixed), or the hierarchy / embedding / classification estimators, or a square biadjacency declared bipartite",
 'C04': "a restart distribution given as dict with missing or zero entries, weighted or disconnected graphs, or Katz / HITS / closeness / betweenness on directed or disconnected graphs",
 'C05': "bipartite column labels, KCenters centres, Leiden, or the aggregate / probability outputs under an unusual option combination (two cooperating sites welcome)",
 'C06': "resolution different from 1, the directed / bipartite forms of modularity, several aggregation levels, or the logged increases",
 'C07': "the bipartite row/column dendrograms, LouvainIteration depth handling, reorder switched off, or equal heights",
 'C08': "cut_balanced, return_dendrogram=True, threshold cuts, aggregate_dendrogram or the tree sampling divergence",
 'C09': "predict() on fitted rows, automatic regularisation, the factor_* / normalized / solver option combinations, PCA, RandomProjection or LouvainEmbedding",
 'C10': "breadth_first_search, several sources, bipartite source_row/source_col, or get_dag with unusual order vectors",
 'C11': "the parallel option under several threads, the clustering coefficient, large clique sizes, or graphs where the core ordering has ties",
 'C12': "is_acyclic on undirected graphs, get_cycles de-duplication, break_cycles with a list of roots, or strong connectivity",
 'C13': "NNLinker thresholds, the classification metrics, DiffusionClassifier options, or seeds given as dict/list",
 'C14': "seeds given as list or dict, bipartite Dirichlet / Diffusion, zero temperatures, or a multi-step refit sequence",
 'C15': "SparseLR algebra chains (a multi-step sequence of operations), get_tfidf, from_membership, get_weights/get_degrees with transpose, or directed2undirected",
 'C16': "a multi-step fit history on one object, a particular OpenMP thread count, or state shared between two estimator objects",
 'C17': "non-termination or an out-of-bounds access that needs a specific degenerate graph (isolated nodes, empty rows, self-loops, one edge, several components) or a boundary parameter value",
 'C18': "from_csv with unusual delimiters / comments / headers, GraphML attributes, save/load of datasets with names and labels, or archive extraction paths",
 'C19': "gradients for particular activations / losses, the neighbour sampler, normalisation='both' with self-embeddings, sparse vs dense features, or repeatability under random_state",
 'C20': "visualize_dendrogram / visualize_bigraph options, edge labels, scores / membership colouring, names with special characters, or the filename output",
}
base = subprocess.run(['/venv/bin/python', '/verif/tools/mutant_prompt.py', pid, k], stdout=subprocess.PIPE, text=True).stdout
marker = 'Prefer changes in the core logic'
extra = ("Earlier rounds of this exercise already produced the obvious one-line slips; look for something subtler. Areas worth considering "
         "for this property (you are free to choose another): " + HINT[pid] + ". Especially valued: a multi-step sequence of operations, "
         "or two cooperating edits in different functions that each look harmless alone. ")
print(base.replace(marker, extra + marker))

#!/bin/sh
# evaluate every finished seed output under /tmp/seed_out_* that is not yet stored in /verif/seeded
for d in /tmp/seed_out_C*; do
  x=$(basename $d | sed 's/seed_out_//'); p=${x%_*}
  [ -f $d/patch.diff ] && [ -f $d/meta.json ] || continue
  [ -d /verif/seeded/$x ] && continue
  out=$(/verif/tools/try_patch.sh $d/patch.diff $p 2>&1)
  r=$(echo "$out" | grep -m1 "^== \|PATCH DOES NOT")
  v=$(echo "$out" | grep -c "^VIOLATION")
  n=$(echo "$out" | grep -c "no-failing-input-found")
  echo "$x $r violations=$v no_input=$n"
done

#!/venv/bin/python
"""Round-12 prompt: round-6 prompt + a nudge towards the methods other than fit, secondary attributes, pipelines, base classes."""
import subprocess, sys
pid, k = sys.argv[1], sys.argv[2]
base = subprocess.run(['/venv/bin/python', '/verif/tools/mutant_prompt6.py', pid, k], stdout=subprocess.PIPE, text=True).stdout
marker = 'Your task: make ONE small'
extra = ('For this round, strongly prefer one of: (a) a METHOD OTHER THAN fit on the usual path: fit_predict / fit_transform / predict / '
         'predict_proba / transform / fit_predict_proba, a property or accessor, a function that post-processes a fitted result; '
         '(b) a SECONDARY OUTPUT: the *_row_ / *_col_ variants after a bipartite fit, aggregate_, probs_, dendrogram_row_ / _col_, '
         'returned tuples when an optional return_* flag is set; (c) a PIPELINE in which the output of one public function is the input '
         'of another (hierarchy -> cut -> metrics, clustering -> aggregate -> second clustering, load -> save -> load, embedding -> '
         'classifier, parse -> estimator) and only the combination is wrong; (d) a BASE CLASS, MIXIN or helper used by several '
         'estimators where the change is right for most of them and wrong for one; (e) the DEFAULT VALUE of a parameter or the way '
         'None / "auto" defaults are resolved. Avoid re-using any mechanism from the list above.\n\n')
print(base.replace(marker, extra + marker))

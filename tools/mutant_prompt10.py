#!/venv/bin/python
"""Round-10 prompt: round-6 prompt + a nudge towards parameter boundaries, output conventions, error paths and randomness plumbing."""
import subprocess, sys
pid, k = sys.argv[1], sys.argv[2]
base = subprocess.run(['/venv/bin/python', '/verif/tools/mutant_prompt6.py', pid, k], stdout=subprocess.PIPE, text=True).stdout
marker = 'Your task: make ONE small'
extra = ('For this round, strongly prefer one of: (a) a BOUNDARY VALUE OF A PARAMETER (0, 1, the largest admissible value, None, an '
         'empty list, a NumPy scalar or 0-d array instead of a Python number, a float where an int is usual) at which the changed code '
         'takes another branch; (b) an ERROR PATH: an input the documentation calls invalid becomes silently accepted and yields a wrong '
         'result, or a documented-valid input becomes rejected or mis-routed only in a corner; (c) RANDOMNESS PLUMBING: random_state given '
         'as None / int / RandomState / Generator, the global NumPy generator, shuffling combined with another option; (d) an OUTPUT '
         'CONVENTION that callers of the library rely on (dtype, shape, ordering of returned labels / rows, a view instead of a copy) '
         'breaking the property only downstream; (e) the interplay of THREE features at once. Avoid re-using any mechanism from the list above.\n\n')
print(base.replace(marker, extra + marker))

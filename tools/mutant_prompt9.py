#!/venv/bin/python
"""Round-9 prompt: round-6 prompt + a nudge towards state / aliasing, boundaries of the input space and option interactions."""
import subprocess, sys
pid, k = sys.argv[1], sys.argv[2]
base = subprocess.run(['/venv/bin/python', '/verif/tools/mutant_prompt6.py', pid, k], stdout=subprocess.PIPE, text=True).stdout
marker = 'Your task: make ONE small'
extra = ('For this round, strongly prefer one of: (a) STATE or ALIASING: something that shows only on a second call, on a refit, when an '
         'array returned by one call is modified or passed to another call, when two estimators share an argument object, or when a cached '
         'value survives a change of its inputs; (b) a BOUNDARY of the input space that ordinary use never visits (one or two nodes, a '
         'single edge, no edge at all in a row or column block, one class or one cluster, k equal to n, duplicate COO entries that are '
         'summed, explicitly stored zeros, unsorted or duplicated indices, non-contiguous or read-only arrays, a matrix subclass or '
         'another sparse format); (c) an INTERACTION of two options or of an option with the input kind (bipartite x an option, '
         'directed x an option) where each option alone still behaves. Avoid re-using any mechanism from the list above.\n\n')
print(base.replace(marker, extra + marker))

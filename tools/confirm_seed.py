#!/venv/bin/python
"""Confirm a seeded change myself: tools/confirm_seed.py <outdir> -> JSON with demo results on unchanged / changed tree and the suite result with the change."""
import json, os, re, shutil, subprocess, sys, tempfile
sys.path.insert(0, '/verif')
out = sys.argv[1]
res = {}
def sh(cmd, **kw):
    return subprocess.run(cmd, shell=True, stdout=subprocess.PIPE, stderr=subprocess.STDOUT, text=True, **kw)
def build(repo):
    r = sh("VERIF_REPO=%s /venv/bin/python -c \"import sys; sys.path.insert(0,'/verif'); from harness import build; print(build.build_impl('normal', keep=True))\"" % repo)
    return [l for l in r.stdout.splitlines() if l.startswith('/')][-1]
wt = tempfile.mkdtemp(prefix='mutc_', dir='/tmp'); os.rmdir(wt)
sh('git -C /repo worktree add -q %s HEAD' % wt)
try:
    a = sh('git -C %s apply %s/patch.diff' % (wt, out))
    res['applies_to_head'] = a.returncode == 0
    base = build('/repo'); changed = build(wt)
    env = 'PYTHONPATH=%s OMP_NUM_THREADS=4'
    r0 = sh(('cd %s && ' + env + ' timeout 600 /venv/bin/python %s/demo.py') % (base, base, out))
    r1 = sh(('cd %s && ' + env + ' timeout 600 /venv/bin/python %s/demo.py') % (changed, changed, out))
    res['demo_unchanged'] = dict(rc=r0.returncode, tail=r0.stdout.strip().splitlines()[-1:] )
    res['demo_changed'] = dict(rc=r1.returncode, tail=[l[:200] for l in r1.stdout.strip().splitlines()[-3:]])
    for f in ('miserables.tsv', 'movie_actor.tsv'):
        pass
    t = sh(('cd %s && ' + env + ' timeout 1200 /venv/bin/python -m pytest -q -p no:cacheprovider --timeout=900 sknetwork 2>&1 | tail -8') % (changed, changed))
    m = re.search(r'(\d+) failed, (\d+) passed', t.stdout) or re.search(r'(\d+) passed', t.stdout)
    res['suite_with_change'] = t.stdout.strip().splitlines()[-1]
    res['failed_tests'] = sorted(set(re.findall(r'FAILED (\S+)', t.stdout)))
    shutil.rmtree(base, True); shutil.rmtree(changed, True)
finally:
    sh('git -C /repo worktree remove --force %s' % wt)
print(json.dumps(res, indent=1))

#!/venv/bin/python
"""tools/keep_seed2.py <pid>_<k> <confirm.json> '<detection text>': store an already confirmed seed under /verif/seeded/<pid>_<k>/"""
import json, os, shutil, sys
x, conf_path, caught = sys.argv[1], sys.argv[2], sys.argv[3]
pid = x.split('_')[0]
out = '/tmp/seed_out_%s' % x
conf = json.load(open(conf_path))
ok = conf['applies_to_head'] and conf['demo_unchanged']['rc'] == 0 and conf['demo_changed']['rc'] != 0 and \
     set(conf['failed_tests']) <= {'sknetwork/linalg/tests/test_operators.py::TestOperators::test_normalizer'}
print(x, 'CONFIRMED' if ok else 'NOT CONFIRMED')
if ok:
    d = '/verif/seeded/%s' % x
    os.makedirs(d, exist_ok=True)
    for f in ('patch.diff', 'demo.py'):
        shutil.copy(os.path.join(out, f), d)
    meta = json.load(open(os.path.join(out, 'meta.json')))
    meta.update(property=pid, confirmed_by_me=conf, detection=caught, round=int(os.environ.get('SEED_ROUND', '5')),
                what_i_ran='tools/confirm_seed.py (fresh worktree of /repo HEAD + patch, scratch build, demo on both trees, full suite with the change) and tools/try_patch.sh patch.diff %s (isolated run of ./check on the patched worktree)' % pid)
    json.dump(meta, open(os.path.join(d, 'meta.json'), 'w'), indent=1)

#!/venv/bin/python
"""tools/keep_seed.py <pid> <k> '<caught-by text>' : confirm the seed and store it under /verif/seeded/<pid>_<k>/"""
import json, os, shutil, subprocess, sys
pid, k, caught = sys.argv[1], sys.argv[2], sys.argv[3]
out = '/tmp/seed_out_%s_%s' % (pid, k)
r = subprocess.run(['/venv/bin/python', '/verif/tools/confirm_seed.py', out], stdout=subprocess.PIPE, text=True)
conf = json.loads(r.stdout[r.stdout.index('{'):])
ok = conf['applies_to_head'] and conf['demo_unchanged']['rc'] == 0 and conf['demo_changed']['rc'] != 0 and \
     set(conf['failed_tests']) <= {'sknetwork/linalg/tests/test_operators.py::TestOperators::test_normalizer'}
print(json.dumps(conf)[:600]); print('CONFIRMED' if ok else 'NOT CONFIRMED')
if ok:
    d = '/verif/seeded/%s_%s' % (pid, k)
    os.makedirs(d, exist_ok=True)
    for f in ('patch.diff', 'demo.py'):
        shutil.copy(os.path.join(out, f), d)
    meta = json.load(open(os.path.join(out, 'meta.json')))
    meta.update(property=pid, confirmed_by_me=conf, detection=caught,
                what_i_ran='tools/confirm_seed.py (fresh worktree of /repo HEAD + patch, scratch build, demo on both trees, full suite with the change) and tools/try_patch.sh patch.diff %s (isolated run of ./check on the patched worktree)' % pid)
    json.dump(meta, open(os.path.join(d, 'meta.json'), 'w'), indent=1)

#!/venv/bin/python
"""After a fix: commit touching a .pyx, rebuild the in-place (git-ignored) extension modules of /repo
so that the repository's own test suite sees the repaired kernel."""
import glob, os, shutil, sys
sys.path.insert(0, os.path.dirname(os.path.dirname(os.path.abspath(__file__))))
from harness import build
d = build.build_impl('normal')
n = 0
for so in glob.glob(os.path.join(d, 'sknetwork', '**', '*.so'), recursive=True):
    dst = os.path.join('/repo', os.path.relpath(so, d))
    if not os.path.exists(dst) or open(dst, 'rb').read() != open(so, 'rb').read():
        shutil.copy2(so, dst); n += 1; print('updated', dst)
print('done', n)

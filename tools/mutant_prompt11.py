#!/venv/bin/python
"""Round-11 prompt: round-6 prompt + a nudge towards size / magnitude thresholds, early exits and caches, convergence criteria,
tie-breaking and typed Cython variables."""
import subprocess, sys
pid, k = sys.argv[1], sys.argv[2]
base = subprocess.run(['/venv/bin/python', '/verif/tools/mutant_prompt6.py', pid, k], stdout=subprocess.PIPE, text=True).stdout
marker = 'Your task: make ONE small'
extra = ('For this round, strongly prefer one of: (a) a SIZE OR MAGNITUDE THRESHOLD: the changed code is right on small inputs and wrong only '
         'beyond some size, degree, count, depth or weight magnitude (a narrower C / NumPy integer or float type, a fixed-size buffer, a '
         'chunk or block boundary, recursion depth, a sum that loses precision) - but keep the failing input small enough to run in a few seconds; '
         '(b) an EARLY EXIT, SHORT-CUT, CACHE or MEMOISATION added as an optimisation that is wrong for a special structure (isolated '
         'nodes, self-loops, duplicate / zero / negative weights, sinks, a disconnected or already-converged input, repeated calls); '
         '(c) a CONVERGENCE or STOPPING CRITERION (tolerance compared with the wrong quantity, off-by-one in the number of iterations, '
         'a loop that stops one element early only when a length is odd / a multiple of something); (d) a TIE-BREAK or ORDERING '
         'assumption (stable vs unstable sort, first vs last maximum, iteration order of a set / dict) that shows only on inputs with '
         'exact ties; (e) a TYPED VARIABLE in a .pyx file (int vs long, float vs double, signed vs unsigned) or an int / float '
         'conversion in Python. Avoid re-using any mechanism from the list above.\n\n')
print(base.replace(marker, extra + marker))

#!/venv/bin/python
"""Run only the implementation-side part of a check (no Coq build): tools/dryrun.py C01 [quick|thorough]"""
import sys, os, json, importlib
sys.path.insert(0, os.path.dirname(os.path.dirname(os.path.abspath(__file__))))
from harness import build, common
pid = sys.argv[1]
ctx = common.Ctx(pid, sys.argv[2] if len(sys.argv) > 2 else 'quick', int(os.environ.get('VERIF_SEED', '0')))
ctx.replay = None      # (runner.main sets it; some modules read it)
mod = importlib.import_module('harness.props.' + pid.lower())
scratch = build.build_impl('normal')
mod.run(ctx, scratch)
print('evaluations', ctx.evaluations, 'nontrivial', len(ctx.nontrivial), 'violations', len(ctx.violations), 'known', len(ctx.known_hits), 'wall', round(ctx.elapsed(), 1))
print("proof_broken", ctx.proof_broken[:3])
print("extra", {k: v for k, v in ctx.extra.items() if not isinstance(v, (list, dict))})
seen = set()
for v in ctx.violations:
    k = (v['site'], v.get('kind'), v.get('variant'), v['what'][:60])
    if k in seen: continue
    seen.add(k)
    print(json.dumps(common.jsonable({a: b for a, b in v.items() if a not in ("case",)}))[:700]); print("   CASE", json.dumps(common.jsonable(v.get("case")))[:600])

#!/venv/bin/python
"""Regenerates Appendices E (seeded changes) and F (defect dispositions) of DESIGN.md from /verif/seeded/*/meta.json and
KNOWN_FINDINGS.json. They must stay the LAST two sections of DESIGN.md."""
import glob, json, os
s = open('/verif/DESIGN.md').read()
marker = "\n## Appendix E — Seeded changes"
if marker in s:
    s = s[:s.index(marker)]
out = ["", "## Appendix E — Seeded changes (`/verif/seeded/<id>_<k>/`) and the checks that catch them", "",
       "Each change was written by a fresh sub-agent that saw only the property text and a scratch worktree (round 2 was also told the",
       "summary of the round-1 change, to force a different mechanism; round 5 got a per-property hint towards multi-step sequences and",
       "cooperating edits, round 6 additionally the summaries of every earlier change for its property). I confirmed every one with `tools/confirm_seed.py` (the patch applies",
       "to HEAD; the demonstration passes on the unchanged tree and fails with the change; the suite result is unchanged) and ran the check on",
       "the patched tree in isolation with `tools/try_patch.sh`. Generated from the `meta.json` files.", "",
       "| seed | change | needs | outcome |", "|---|---|---|---|"]
def clean(t, n):
    t = ' '.join(str(t).split()).replace('|', '/')
    return t if len(t) <= n else t[:n - 1] + '…'
for d in sorted(glob.glob('/verif/seeded/*/meta.json')):
    m = json.load(open(d))
    out.append("| %s | %s | %s | %s |" % (os.path.basename(os.path.dirname(d)), clean(m.get('summary', ''), 330), clean(m.get('needs', ''), 260), clean(m.get('detection', ''), 420)))
k = json.load(open('/verif/KNOWN_FINDINGS.json'))
out += ["", "## Appendix F — Disposition of every defect (generated from KNOWN_FINDINGS.json; that file is authoritative)", "",
        "Repaired in `/repo` (one unguarded `fix:` commit each; the 547-test baseline still passes, and the four `test_parse` tests that always failed in the pinned environment now pass):", ""]
out += ["* " + f.replace("fixed: ", "") for f in k['fixed']]
out += ["", "Recorded, not repaired (each keyed by a predicate on the failing case; the check prints `KNOWN-FINDING` and stays green; any other violation of the same property still alarms):", ""]
out += ["* **%s / %s** — %s  Match: `%s`" % (f['id'], f['property'], f['what'], json.dumps(f['match'])) for f in k['findings']]
open('/verif/DESIGN.md', 'w').write(s.rstrip('\n') + "\n" + "\n".join(out) + "\n")
print(len(glob.glob('/verif/seeded/*/meta.json')), 'seeds;', len(k['fixed']), 'fixed;', len(k['findings']), 'findings')

#!/venv/bin/python
"""Regenerates Appendix F of DESIGN.md (defect dispositions) from KNOWN_FINDINGS.json. Appendix F must stay the LAST section."""
import json
k = json.load(open('/verif/KNOWN_FINDINGS.json'))
out = ["", "## Appendix F — Disposition of every defect (generated from KNOWN_FINDINGS.json; that file is authoritative)", "",
       "Repaired in `/repo` (one unguarded `fix:` commit each; the 547-test baseline still passes, and the four `test_parse` tests that always failed in the pinned environment now pass):", ""]
out += ["* " + f.replace("fixed: ", "") for f in k['fixed']]
out += ["", "Recorded, not repaired (each keyed by a predicate on the failing case; the check prints `KNOWN-FINDING` and stays green; any other violation of the same property still alarms):", ""]
out += ["* **%s / %s** — %s  Match: `%s`" % (f['id'], f['property'], f['what'], json.dumps(f['match'])) for f in k['findings']]
s = open('/verif/DESIGN.md').read()
marker = "\n## Appendix F — Disposition of every defect"
if marker in s:
    s = s[:s.index(marker)]
open('/verif/DESIGN.md', 'w').write(s.rstrip('\n') + "\n" + "\n".join(out) + "\n")
print(len(k['fixed']), 'fixed;', len(k['findings']), 'findings')

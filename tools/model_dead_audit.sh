#!/bin/sh
# For every property: run the implementation-side part with model evaluation disabled and print how far it got.
cd /verif
for p in "$@"; do
  printf "%s " $p
  VERIF_BREAK_MODEL=1 timeout 1500 /venv/bin/python tools/dryrun.py $p quick 2>&1 | grep -E "^evaluations|CoqEvalError|Error" | tail -1
done

#!/venv/bin/python
"""Evaluate a seeded change against the checks, in isolation (own copy of coq/, own output dir, the changed tree as VERIF_REPO).
usage: tools/try_seed.py <tree-with-change> <Cnn> [<Cmm> ...]"""
import os, shutil, subprocess, sys, tempfile
tree = sys.argv[1]
pids = sys.argv[2:]
work = tempfile.mkdtemp(prefix='sknverif-mut-', dir='/var/tmp')
try:
    subprocess.run(['rsync', '-a', '--exclude', 'Gen/cases', '/verif/coq/', os.path.join(work, 'coq/')], check=True)
    env = dict(os.environ, VERIF_REPO=tree, VERIF_COQ=os.path.join(work, 'coq'), VERIF_OUT=work, VERIF_COQCHK='0')
    for pid in pids:
        r = subprocess.run(['/verif/check', pid] + (['--tier', os.environ['TIER']] if os.environ.get('TIER') else []), env=env, stdout=subprocess.PIPE, stderr=subprocess.STDOUT, text=True)
        lines = [l for l in r.stdout.splitlines() if 'WARNING' not in l]
        print('== %s rc=%d' % (pid, r.returncode))
        print('\n'.join(l[:300] for l in lines[-8:]))
        rp = os.path.join(work, 'replays')
        if os.path.isdir(rp):
            for f in sorted(os.listdir(rp))[:1]:
                print('-- replay', f, open(os.path.join(rp, f)).read()[:1500])
            shutil.rmtree(rp)
finally:
    shutil.rmtree(work, True)

#!/venv/bin/python
"""Writes /verif/MANIFEST.json from the table below (kept in one place so it stays current)."""
import json, os
V = os.path.dirname(os.path.dirname(os.path.abspath(__file__)))
TITLES = {json.loads(l)['id']: json.loads(l)['title'] for l in open(os.path.join(V, 'properties.jsonl'))}

CLAIMED = {
 'C10': dict(
   text='Theorems (Coq, axiom-free) that the coded BFS loop computes exactly the hop distance and never runs out of fuel, that get_dag keeps exactly the edges from lower to strictly higher non-negative order, that the shortest-path filter keeps exactly the edges with dist j = dist i + 1, and that any argsort answer yields exactly the reachable nodes in non-decreasing distance; plus an obligation over the call-site bindings re-extracted from the source on every run. The model is tied to the code by evaluating it with vm_compute on thousands of generated cases (exhaustive small digraphs and biadjacency matrices, structured random graphs, malformed stream) and diffing against the implementation built from the working tree.',
   note='Trusted: Coq kernel + vm_compute; the hand-written model bodies (tied only by the correspondence runs); the ast translator for call bindings; NumPy/SciPy semantics of sparse products and argsort. Sources restricted to non-negative indices; no explicit zeros.',
   technique='Coq proof (invariant of the BFS loop, filter characterisation) + generated-term obligation + vm_compute correspondence', ref='7/C10'),
}
CLAIMED['C14'] = dict(
   text='Axiom-free Coq theorems over exact rationals about a model of Diffusion/Dirichlet (normalisation, identity on null rows, damping, clamping, bipartite wrapper, seeds as array/list/dict): every returned value lies in the seed range for every n_iter, damping in [0,1] and init in range (unconditionally for Diffusion; for Dirichlet when every free node has an outgoing edge, with a witness that the hypothesis is needed); Dirichlet returns seeds unchanged; the three seed forms coincide (temperature 0 honoured); uniqueness of the harmonic extension on connected graphs; one Dirichlet step is non-expansive and the iteration converges to the harmonic function. The model is evaluated by vm_compute and diffed against the float64 implementation on thousands of cases; bounds, clamping, seed-form and harmonic-limit oracles run on the implementation outputs.',
   note='Trusted: Coq kernel + vm_compute; model bodies tied by correspondence only; existence of the harmonic function is a hypothesis of the limit theorem (established per tested case by exact elimination, validated in Coq); damping factors taken as decimal rationals; no explicitly stored zeros.',
   technique='Coq proof (convexity / maximum principle, contraction to the harmonic solution) + vm_compute correspondence', ref='7/C14')
NOT_YET = 'check not built yet in this session (work in progress, see DESIGN.md section 10)'

checks = []
for pid, c in sorted(CLAIMED.items()):
    checks.append(dict(property_id=pid, quick_cmd='./check %s --tier quick' % pid, thorough_cmd='./check %s --tier thorough' % pid,
                       evidence_file='evidence/%s.json' % pid, replay_cmd_template='./check %s --replay {path}' % pid,
                       engine='coq-proof+correspondence',
                       level_claimed=dict(category='proof', text=c['text'], design_ref=c['ref']),
                       level_note=c['note'], technique=c['technique']))
man = dict(version=1, setup_cmd='./setup.sh',
           hooks=dict(guard='SKNETWORK_VERIF', enable='no source hooks are needed; checks build /repo\'s working tree into a scratch directory and set SKNETWORK_VERIF=1 in the worker environment (unused by the code)',
                      baseline_off_cmd='cd /repo && /venv/bin/python -m pytest -ra -q -p no:cacheprovider --timeout=900 --continue-on-collection-errors', source_commits=[], add_only=True),
           engines=[dict(name='coq-proof+correspondence', path='check', serves_properties=sorted(CLAIMED),
                         kind_free_text='Coq 8.16 theorems about hand-written executable Gallina models; models evaluated inside Coq (vm_compute) and diffed against the implementation built from /repo; small ast translators regenerate coq/Gen/*.v on every run')],
           checks=checks,
           notes='See DESIGN.md. KNOWN_FINDINGS.json lists recorded defects and fix: commits.',
           not_applicable=[dict(property_id=p, reason=NOT_YET) for p in sorted(TITLES) if p not in CLAIMED])
json.dump(man, open(os.path.join(V, 'MANIFEST.json'), 'w'), indent=1)
print('claimed', sorted(CLAIMED))

#!/bin/sh
# tools/try_patch.sh <patch.diff> <Cnn> [...]: apply the patch to a fresh worktree of /repo HEAD, run the checks on it in isolation, remove it.
P="$1"; shift
WT=$(mktemp -d /tmp/mut_XXXXXX); rmdir "$WT"
git -C /repo worktree add -q "$WT" HEAD || exit 2
if git -C "$WT" apply "$P"; then
  /venv/bin/python /verif/tools/try_seed.py "$WT" "$@" 2>&1 | grep -v WARNING
else
  echo "PATCH DOES NOT APPLY"
fi
git -C /repo worktree remove --force "$WT"

#!/venv/bin/python
"""Print the prompt for a seeded-change sub-agent: tools/mutant_prompt.py C10 [k]"""
import json, sys
pid = sys.argv[1]; k = sys.argv[2] if len(sys.argv) > 2 else '1'
p = [json.loads(l) for l in open('/verif/properties.jsonl') if json.loads(l)['id'] == pid][0]
wt = '/tmp/seed_%s_%s' % (pid, k)
print(f"""You are given a scratch git worktree of the Python/Cython library scikit-network at {wt} (create nothing outside {wt} and /tmp/seed_out_{pid}_{k}/). First build its extension modules: `cd {wt} && /venv/bin/python setup.py build_ext --inplace -j 16 >/dev/null 2>&1` (about 40 s), and always run code with `cd {wt} && PYTHONPATH={wt} /venv/bin/python ...`. The repository's test suite is run with `cd {wt} && PYTHONPATH={wt} /venv/bin/python -m pytest -q -p no:cacheprovider --timeout=900 sknetwork` ; on the unchanged tree exactly one test fails and must be ignored (linalg/tests/test_operators.py::TestOperators::test_normalizer); everything else (551 tests) passes.

Here is a semantic property that the library is supposed to satisfy:

TITLE: {p['title']}
STATEMENT: {p['statement']}
QUANTIFIED OVER: {p['quantifier']['text']}
RELEVANT FILES: {', '.join(p['anchors']['files'])}

Your task: make ONE small, realistic source change (the kind of slip a maintainer could make in a refactoring, optimisation or bug-fix: 1-10 lines in the library sources, not in tests) that BREAKS this property while the library still builds and the test suite still passes exactly as before (same 551 passing, same 1 failing). The breakage must need something specific to manifest — an unusual input (a particular graph shape, weights, seed set, option combination), a multi-step sequence of operations, a particular thread count/interleaving, or two cooperating sites that each look fine alone — NOT something ordinary use on a typical graph would expose at once, and not a crash on every call. Prefer changes in the core logic of the anchored files over cosmetic ones. If you change a .pyx file, rebuild with the build command above before testing.

Deliver, in the directory /tmp/seed_out_{pid}_{k}/ (create it):
1. `patch.diff` — output of `git -C {wt} diff` (only your source change; no build products).
2. `demo.py` — a small self-contained program that exits 0 and prints PASS on the UNCHANGED tree and exits 1 printing FAIL (with the offending input and observed/expected values) on the changed tree, when run as `cd <tree> && PYTHONPATH=<tree> /venv/bin/python /tmp/seed_out_{pid}_{k}/demo.py`. Verify both directions yourself (NEVER use `git stash`: the stash is shared with other worktrees of this repository; use `git -C {wt} diff > /tmp/seed_out_{pid}_{k}/p.diff; git -C {wt} apply -R /tmp/seed_out_{pid}_{k}/p.diff; ...; git -C {wt} apply /tmp/seed_out_{pid}_{k}/p.diff`, rebuilding if a .pyx changed).
3. `meta.json` — {{"property": "{pid}", "summary": "...what was changed...", "needs": "...what is needed for the breakage to manifest...", "files": [...], "tests": "N passed, M failed with the change"}}.
Confirm by actually running the full test suite with your change applied. Leave the worktree WITH your change applied and built. Report briefly what you changed and why the tests cannot see it.""")

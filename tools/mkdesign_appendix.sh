#!/bin/sh
# regenerates Appendix F of DESIGN.md from KNOWN_FINDINGS.json (see the python snippet in git history / tools)

"""Generic flow of one check: regenerate Gen/, prove, build the implementation, correspondence +
oracle search, decide, write evidence and replay files."""
import importlib
import json
import os
import sys
import time
import traceback

from . import build, common, translate
from .common import Ctx, VERIF, COQ, OUT, jsonable

TRUSTED_BASE = [
    'Coq 8.16.1 kernel and vm_compute (no native_compute)',
    'hand-written Gallina models (bodies tied to /repo only through the correspondence runs)',
    'translators harness/translate.py (Python ast -> coq/Gen/*.v, fail-closed)',
    'correspondence harness (generators, float->rational conversion, canonicalisation, tolerances)',
    'scratch build of /repo with its own compile flags; CPython 3.12, NumPy, SciPy, Cython as installed',
]


def main(argv):
    pid = argv[1]
    tier = os.environ.get('VERIF_TIER') or 'quick'
    replay = None
    i = 2
    while i < len(argv):
        if argv[i] == '--tier':
            tier = argv[i + 1]
            i += 2
        elif argv[i] == '--replay':
            replay = argv[i + 1]
            i += 2
        else:
            i += 1
    if os.environ.get('VERIF_TIER'):
        tier = os.environ['VERIF_TIER']
    seed = int(os.environ.get('VERIF_SEED', '0') or 0)
    rec = json.load(open(replay)) if replay else None
    if rec:
        # every random choice derives from (property, seed, tier): re-running with the recorded seed and tier regenerates
        # exactly the recorded case (and everything before it) on the current tree
        seed, tier = int(rec.get('seed', seed)), rec.get('tier', tier)
    ctx = Ctx(pid, tier, seed)
    ctx.replay = rec
    mod = importlib.import_module('harness.props.' + pid.lower())
    rc = run_check(ctx, mod)
    sys.exit(rc)


def run_check(ctx, mod):
    pid = ctx.pid
    os.makedirs(os.path.join(OUT, 'evidence'), exist_ok=True)
    os.makedirs(os.path.join(OUT, 'replays'), exist_ok=True)
    # 1. regenerate coq/Gen from the current sources (fail-closed)
    gen_errors = translate.regenerate()
    for e in gen_errors:
        ctx.notes.append('translator: ' + e)
    # 2./3. prove
    t = time.time()
    rc, out = common.coq_make(['Props/%s.vo' % pid])
    if rc != 0:
        ctx.proof_broken.append('build of Props/%s.vo failed: %s' % (pid, _tail(out)))
    ok, theorems, assumptions, pout = common.coq_props(pid) if rc == 0 else (False, common.prop_theorems(pid), [], '')
    ctx.obligations = max(len(theorems), 1)
    bad_ax = []
    if rc == 0 and not ok:
        ctx.proof_broken.append('Props/%s.v does not check: %s' % (pid, _tail(pout)))
    for name, axs in assumptions:
        for a in axs:
            if a not in ctx.axioms_seen:
                ctx.axioms_seen.append(a)
            if a not in common.ALLOWED_AXIOMS:
                bad_ax.append('%s depends on %s' % (name, a))
    forb = common.grep_forbidden(common.coq_deps(pid))
    if forb:
        ctx.proof_broken.append('forbidden vernacular: ' + '; '.join(forb[:5]))
    if bad_ax:
        ctx.proof_broken.append('axioms outside the allow-list: ' + '; '.join(bad_ax[:5]))
    ctx.discharged = len(theorems) if (ok and not bad_ax and not forb) else 0
    ctx.extra['coq_wall_s'] = round(time.time() - t, 1)
    ctx.extra['theorems'] = theorems
    ctx.extra['print_assumptions'] = {name: (axs or ['Closed under the global context']) for name, axs in assumptions}
    # 4. build the implementation from /repo's working tree
    scratch = None
    try:
        scratch = build.build_impl('normal')
    except build.BuildError as e:
        ctx.violation('build', 'scratch build of /repo failed', detail=str(e)[-1500:], no_input=True)
    # 5. correspondence + oracle search
    if scratch is not None:
        try:
            mod.run(ctx, scratch)
        except common.CoqEvalError as e:
            ctx.proof_broken.append('model evaluation failed: ' + _tail(str(e)))
        except Exception:
            # a harness error must never pass silently, and is not a verdict about the code; violations already
            # found on concrete inputs before the error are still reported (below)
            sys.stdout.write('HARNESS-ERROR property=%s\n%s\n' % (pid, traceback.format_exc()))
            ctx.notes.append('harness error: ' + traceback.format_exc()[-600:])
            if not [v for v in ctx.violations if not v.get('no_input')]:
                write_evidence(ctx, harness_error=traceback.format_exc()[-800:])
                return 2
    # 6. decide
    if ctx.tier == 'thorough' and not ctx.proof_broken and os.environ.get('VERIF_COQCHK', '1') == '1':
        t = time.time()
        rc2, out2 = common.sh('timeout 1500 coqchk -silent -o -Q . SKN SKN.Props.%s 2>&1 | tail -40' % pid, cwd=COQ, timeout=1600)
        ctx.extra['coqchk'] = {'rc': rc2, 'wall_s': round(time.time() - t, 1), 'tail': out2[-1500:]}
        if rc2 != 0:
            ctx.notes.append('coqchk did not complete (rc=%s); recorded, not a verdict' % rc2)
    lines = []
    nviol = 0
    for f in ctx.known:
        hits = [v for (g, v) in ctx.known_hits if g is f]
        lines.append('KNOWN-FINDING: property=%s %s [%s; reproduced on %d case(s) this run]' %
                     (pid, f['what'], f.get('id', ''), len(hits)))
    concrete = [v for v in ctx.violations if not v.get('no_input')]
    if ctx.proof_broken or gen_broken(ctx, mod):
        # a proof obligation or the correspondence broke: report with a failing input when the search found one
        names = '; '.join(ctx.proof_broken + gen_broken(ctx, mod))
        if concrete:
            for k, v in enumerate(concrete[:5]):
                path = write_replay(ctx, k, v, broken=names)
                lines.append('VIOLATION property=%s replay=%s' % (pid, path))
                nviol += 1
        else:
            path = write_replay(ctx, 0, dict(site='proof', what='proof obligation or correspondence no longer checks',
                                             theorem_or_correspondence=names), broken=names, no_input=True)
            lines.append('VIOLATION property=%s replay=%s no-failing-input-found' % (pid, path))
            nviol += 1
    else:
        for k, v in enumerate(ctx.violations[:5]):
            path = write_replay(ctx, k, v, no_input=bool(v.get('no_input')))
            lines.append('VIOLATION property=%s replay=%s%s' % (pid, path, ' no-failing-input-found' if v.get('no_input') else ''))
            nviol += 1
    write_evidence(ctx, violations=nviol)
    for ln in lines:
        print(ln)
    print('%s %s tier=%s seed=%d obligations=%d discharged=%d evaluations=%d distinct_nontrivial=%d wall=%.1fs' %
          (pid, 'FAIL' if nviol else 'OK', ctx.tier, ctx.seed, ctx.obligations, ctx.discharged, ctx.evaluations,
           len(ctx.nontrivial), ctx.elapsed()))
    return 1 if nviol else 0


def gen_broken(ctx, mod):
    need = getattr(mod, 'GEN_FILES', [])
    return ['translator failed closed: ' + n for n in ctx.notes if n.startswith('translator: ') and any(g in n for g in need)]


def _tail(s, n=1200):
    s = s.strip()
    return s[-n:]


def write_replay(ctx, k, v, broken=None, no_input=False):
    path = os.path.join(OUT, 'replays', '%s-%d-%d.json' % (ctx.pid, ctx.seed, k))
    rec = dict(property=ctx.pid, seed=ctx.seed, tier=ctx.tier, no_failing_input_found=bool(no_input))
    rec.update(jsonable(v))
    if broken:
        rec['theorem_or_correspondence'] = broken
    json.dump(rec, open(path, 'w'), indent=1)
    return path


def write_evidence(ctx, violations=0, harness_error=None):
    cov = dict(
        obligations=ctx.obligations, discharged=ctx.discharged,
        checker_cmd='cd /verif/coq && make Props/%s.vo && coqc -Q . SKN Props/%s.v (Print Assumptions parsed)' % (ctx.pid, ctx.pid),
        trusted_base=TRUSTED_BASE + ['axioms seen by Print Assumptions: ' + (', '.join(ctx.axioms_seen) or 'none (closed under the global context)')],
        evaluations=ctx.evaluations, distinct_nontrivial=len(ctx.nontrivial),
        distinct=len(ctx.distinct),
        rule=getattr(ctx, 'rule', 'cases from harness/gen.py families (one PRNG); distinct by canonical hash of the case; non-trivial = at least one edge and non-degenerate options'),
        samples=jsonable(ctx.samples) or ['(no case run)'],
        traces_validated_against_impl=ctx.traces,
        input_distribution=ctx.dist, margin_dropped=ctx.margin_dropped, axioms_seen=ctx.axioms_seen,
        known_findings_reproduced=[dict(id=f.get('id'), what=f['what'], n=len([1 for (g, _) in ctx.known_hits if g is f])) for f in ctx.known],
        notes=ctx.notes, proof_broken=ctx.proof_broken,
    )
    cov.update(jsonable(ctx.extra))
    if harness_error:
        cov['harness_error'] = harness_error
    ev = dict(property_id=ctx.pid, tier=ctx.tier, seed=ctx.seed, level='proof', coverage=cov,
              assumptions=getattr(ctx, 'assumptions', []), wall_s=round(ctx.elapsed(), 2), violations=violations)
    path = os.path.join(OUT, 'evidence', ctx.pid + '.json')
    tmp = path + '.tmp'
    json.dump(ev, open(tmp, 'w'), indent=1)
    os.replace(tmp, path)

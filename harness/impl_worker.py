"""Runs inside /venv python with PYTHONPATH pointing at the scratch build of /repo.
Protocol: one JSON request per line on stdin: {"mod":..., "fn":..., "args":...};
one JSON answer per line on a private duplicate of stdout."""
import importlib
import json
import os
import sys
import traceback

out = os.fdopen(os.dup(1), 'w')
devnull = os.open(os.devnull, os.O_WRONLY)
os.dup2(devnull, 1)
os.dup2(devnull, 2)
sys.path.insert(0, os.path.dirname(os.path.dirname(os.path.abspath(__file__))))

import warnings
warnings.filterwarnings('ignore')

ERRMAP = {'ValueError': 'ValueError', 'TypeError': 'TypeError', 'IndexError': 'IndexError', 'KeyError': 'KeyError',
          'ZeroDivisionError': 'ZeroDivisionError', 'AttributeError': 'AttributeError',
          'RecursionError': 'RecursionError', 'OverflowError': 'OverflowError', 'MemoryError': 'MemoryError',
          'NotImplementedError': 'NotImplementedError', 'AssertionError': 'AssertionError'}
mods = {}
for line in sys.stdin:
    try:
        req = json.loads(line)
    except ValueError:
        continue
    try:
        name = req['mod']
        if name not in mods:
            mods[name] = importlib.import_module('harness.workers.' + name)
        res = getattr(mods[name], req['fn'])(req['args'])
        ans = {'ok': res}
    except Exception as e:  # noqa
        kind = type(e).__name__
        ans = {'err': ERRMAP.get(kind, kind), 'msg': str(e)[:300], 'tb': traceback.format_exc()[-600:]}
    try:
        s = json.dumps(ans)
    except (TypeError, ValueError) as e:
        s = json.dumps({'err': 'HarnessSerialisation', 'msg': str(e)})
    out.write(s + '\n')
    out.flush()

"""Shared machinery of the checks: context, Coq build / evaluation, evidence, violation protocol."""
import glob
import hashlib
import json
import os
import random
import re
import subprocess
import sys
import time
from fractions import Fraction

VERIF = os.path.dirname(os.path.dirname(os.path.abspath(__file__)))
COQ = os.environ.get('VERIF_COQ') or os.path.join(VERIF, 'coq')
OUT = os.environ.get('VERIF_OUT') or VERIF   # evidence/ and replays/ live here (overridden for isolated mutant runs)
REPO = os.environ.get('VERIF_REPO', '/repo')
PY = '/venv/bin/python'

ALLOWED_AXIOMS = {
    # standard-library axioms only (named in DESIGN.md section 6); used by the Reals-based files
    'ClassicalDedekindReals.sig_not_dec', 'ClassicalDedekindReals.sig_forall_dec',
    'FunctionalExtensionality.functional_extensionality_dep', 'Classical_Prop.classic',
}
FORBIDDEN_RE = re.compile(r'\b(Admitted|admit|Axiom|Axioms|Parameter|Parameters|Conjecture|Conjectures|Hypothesis|Hypotheses|Variable|Variables|Admit Obligations|Unset Guard Checking|bypass_check|Unset Positivity Checking|Unset Universe Checking|type-in-type)\b')


# ----------------------------------------------------------------------------------------------
# Gallina literals
# ----------------------------------------------------------------------------------------------
def cnat(n):
    assert n >= 0
    return '%d' % n


def cz(n):
    return '(%d)%%Z' % n


def cq(x):
    f = Fraction(x)
    return '(%d # %d)%%Q' % (f.numerator, f.denominator)


def fq(x):
    """Exact rational value of a float / int."""
    return Fraction(x)


def cbool(b):
    return 'true' if b else 'false'


def clist(xs, f=None):
    return '[' + '; '.join((f(x) if f else x) for x in xs) + ']'


def copt(x, f=None):
    return 'None' if x is None else '(Some %s)' % (f(x) if f else x)


def cstr(s):
    """Coq string literal (bytes of the UTF-8 encoding, so any Python str is representable)."""
    out = []
    for ch in s:
        if ch == '"':
            out.append('""')
        else:
            out.append(ch)
    return '"' + ''.join(out) + '"%string'


# ----------------------------------------------------------------------------------------------
# Parser for values printed by Coq (lists, tuples, constructors, numbers, rationals, strings)
# ----------------------------------------------------------------------------------------------
_TOK = re.compile(r'\s*(?:(\[|\]|\(|\)|;|,|#)|(-?\d+(?:\.\d+)?(?:[eE][-+]?\d+)?)|("(?:[^"]|"")*")|([A-Za-z_][A-Za-z_0-9\.\']*)|(%[A-Za-z_]+))')


def _tokens(s):
    pos = 0
    out = []
    s = s.strip()
    while pos < len(s):
        m = _TOK.match(s, pos)
        if not m:
            raise ValueError('cannot tokenise Coq output at %r' % s[pos:pos + 40])
        pos = m.end()
        if m.group(5):
            continue  # scope annotation
        if m.group(1):
            out.append(m.group(1))
        elif m.group(2):
            t = m.group(2)
            out.append(int(t) if re.fullmatch(r'-?\d+', t) else Fraction(t))
        elif m.group(3):
            out.append(('str', m.group(3)[1:-1].replace('""', '"')))
        else:
            out.append(('id', m.group(4)))
    return out


class _P:
    def __init__(self, toks):
        self.t = toks
        self.i = 0

    def peek(self):
        return self.t[self.i] if self.i < len(self.t) else None

    def next(self):
        x = self.t[self.i]
        self.i += 1
        return x

    def atom(self):
        x = self.next()
        if x == '[':
            items = []
            if self.peek() == ']':
                self.next()
                return items
            while True:
                items.append(self.expr())
                y = self.next()
                if y == ']':
                    return items
                assert y == ';', y
        if x == '(':
            items = [self.expr()]
            while self.peek() == ',':
                self.next()
                items.append(self.expr())
            y = self.next()
            assert y == ')', y
            return items[0] if len(items) == 1 else tuple(items)
        if isinstance(x, (int, Fraction)):
            return x
        if isinstance(x, tuple) and x[0] == 'str':
            return x[1]
        if isinstance(x, tuple) and x[0] == 'id':
            if x[1] == 'true':
                return True
            if x[1] == 'false':
                return False
            if x[1] == 'None':
                return None
            return ('@', x[1])
        raise ValueError('unexpected token %r' % (x,))

    def expr(self):
        head = self.atom()
        # rational  a # b
        if self.peek() == '#':
            self.next()
            den = self.atom()
            return Fraction(head, den)
        if isinstance(head, tuple) and len(head) == 2 and head[0] == '@':
            args = []
            while self.peek() not in (None, ']', ')', ';', ',', '#'):
                a = self.atom()
                if isinstance(a, tuple) and len(a) == 2 and a[0] == '@':
                    a = (a[1],)
                args.append(a)
            name = head[1]
            if name == 'Some' and len(args) == 1:
                return ('Some', args[0])
            return (name,) + tuple(args) if args else (name,)
        return head


def parse_coq_value(s):
    p = _P(_tokens(s))
    v = p.expr()
    if p.i != len(p.t):
        raise ValueError('trailing tokens in Coq output')
    return v


# ----------------------------------------------------------------------------------------------
# Coq build / evaluation
# ----------------------------------------------------------------------------------------------
def sh(cmd, timeout=None, cwd=None, env=None):
    try:
        r = subprocess.run(cmd, shell=isinstance(cmd, str), cwd=cwd, env=env, stdout=subprocess.PIPE,
                           stderr=subprocess.STDOUT, text=True, timeout=timeout)
        return r.returncode, r.stdout
    except subprocess.TimeoutExpired as e:
        out = e.stdout
        if isinstance(out, bytes):
            out = out.decode('utf8', 'replace')
        return 124, (out or '') + '\n[timeout]'


def write_coqproject():
    """_CoqProject lists every .v under Base/ Model/ Proofs/ Props/ Gen/ (not Gen/cases)."""
    files = []
    for d in ('Base', 'Model', 'Proofs', 'Props', 'Gen'):
        for root, dirs, fs in os.walk(os.path.join(COQ, d)):
            if os.path.basename(root) == 'cases':
                continue
            dirs[:] = [x for x in dirs if x != 'cases']
            for f in sorted(fs):
                if f.endswith('.v') and not f.startswith('.'):
                    files.append(os.path.relpath(os.path.join(root, f), COQ))
    text = '-Q . SKN\n-arg -w -arg -notation-overridden,-deprecated-hint-without-locality,-deprecated-instance-without-locality\n' + '\n'.join(sorted(files)) + '\n'
    path = os.path.join(COQ, '_CoqProject')
    if not os.path.exists(path) or open(path).read() != text:
        open(path, 'w').write(text)
        return True
    return False


def coq_make(targets, timeout=1800):
    """Full .vo build of the given targets (and their dependencies) through coq_makefile (serialised by a lock)."""
    import fcntl
    lock = open(os.path.join(COQ, '.verif.lock'), 'w')
    fcntl.flock(lock, fcntl.LOCK_EX)
    try:
        changed = write_coqproject()
        if changed or not os.path.exists(os.path.join(COQ, 'Makefile')):
            rc, out = sh('coq_makefile -f _CoqProject -o Makefile', cwd=COQ, timeout=120)
            if rc != 0:
                return rc, out
        return sh('timeout %d make -j16 %s 2>&1' % (timeout, ' '.join(targets)), cwd=COQ, timeout=timeout + 30)
    finally:
        fcntl.flock(lock, fcntl.LOCK_UN)
        lock.close()


def coq_flags():
    return ['-Q', COQ, 'SKN', '-w', '-notation-overridden,-deprecated-hint-without-locality,-deprecated-instance-without-locality']


def prop_theorems(pid):
    src = open(os.path.join(COQ, 'Props', pid + '.v')).read()
    return re.findall(r'^\s*Theorem\s+([A-Za-z_0-9\']+)', src, re.M)


def coq_props(pid, timeout=900):
    """Compile Props/<pid>.v, return (ok, theorems, assumptions, output).

    theorems: names after `Theorem`; assumptions: list of (name, [axioms]) in file order of
    `Print Assumptions` commands.
    """
    path = os.path.join(COQ, 'Props', pid + '.v')
    src = open(path).read()
    theorems = re.findall(r'^\s*Theorem\s+([A-Za-z_0-9\']+)', src, re.M)
    printed = re.findall(r'^\s*Print Assumptions\s+([A-Za-z_0-9\'\.]+)\s*\.', src, re.M)
    rc, out = sh(['timeout', str(timeout), 'coqc'] + coq_flags() + [path], cwd=COQ, timeout=timeout + 30)
    blocks = []
    cur = None
    for line in out.splitlines():
        if line.startswith('Closed under the global context'):
            blocks.append([])
            cur = None
        elif line.startswith('Axioms:'):
            cur = []
            blocks.append(cur)
        elif cur is not None:
            m = re.match(r'^([A-Za-z_][A-Za-z_0-9\.\']*)\s*:', line)
            if m:
                cur.append(m.group(1))
            elif line and not line.startswith(' '):
                cur = None
    assumptions = list(zip(printed, blocks))
    return rc == 0 and len(blocks) == len(printed), theorems, assumptions, out


def grep_forbidden(paths):
    hits = []
    for p in paths:
        try:
            txt = open(p).read()
        except OSError:
            continue
        txt = re.sub(r'\(\*.*?\*\)', '', txt, flags=re.S)
        for m in FORBIDDEN_RE.finditer(txt):
            hits.append('%s: %s' % (os.path.relpath(p, COQ), m.group(1)))
    return hits


def coq_deps(pid):
    """Source files Props/<pid>.v depends on (transitively), by reading Require lines."""
    seen = set()
    todo = [os.path.join(COQ, 'Props', pid + '.v')]
    while todo:
        p = todo.pop()
        if p in seen or not os.path.exists(p):
            continue
        seen.add(p)
        txt = re.sub(r'\(\*.*?\*\)', '', open(p).read(), flags=re.S)
        for m in re.finditer(r'From\s+SKN\s+Require\s+(?:Import\s+|Export\s+)?([A-Za-z_0-9\.\s]+?)\.(?=\s|$)', txt):
            for mod in m.group(1).split():
                todo.append(os.path.join(COQ, mod.replace('.', '/') + '.v'))
    return sorted(seen)


def coq_eval(tag, imports, exprs, prelude='', shard=400, timeout=600):
    """Evaluate Gallina expressions inside Coq with vm_compute; return the parsed values.

    All expressions of one call must have the same type (they are put in one list per shard).
    """
    if os.environ.get('VERIF_BREAK_MODEL'):
        # test knob (tools/model_dead_audit.sh): behave as if the model no longer evaluated, to see which checks still
        # search the implementation for a failing input in that situation
        raise CoqEvalError('model evaluation disabled by VERIF_BREAK_MODEL (%s)' % tag)
    d = os.path.join(COQ, 'Gen', 'cases')
    os.makedirs(d, exist_ok=True)
    files = []
    for k in range(0, len(exprs), shard):
        name = 'cases_%s_%d_%d' % (tag, os.getpid(), k // shard)
        path = os.path.join(d, name + '.v')
        with open(path, 'w') as f:
            f.write('From SKN Require Import %s.\n' % ' '.join(imports))
            f.write('Set Printing Depth 10000000.\nSet Printing Width 1000000.\n')
            f.write(prelude + '\n')
            f.write('Definition the_cases := [\n' + ';\n'.join(exprs[k:k + shard]) + '\n].\n')
            f.write('Eval vm_compute in the_cases.\n')
        files.append(path)
    maxp = 8
    idx = 0
    results = [None] * len(files)
    running = {}
    while idx < len(files) or running:
        while idx < len(files) and len(running) < maxp:
            # stdout goes to a file: a pipe would block coqc once 64 KB of output are pending
            fo = open(files[idx][:-2] + '.out', 'w')
            p = subprocess.Popen(['timeout', str(timeout), 'coqc'] + coq_flags() + [files[idx]], cwd=COQ,
                                 stdout=fo, stderr=subprocess.STDOUT)
            running[idx] = (p, fo)
            idx += 1
        for i, (p, fo) in list(running.items()):
            if p.poll() is not None:
                fo.close()
                results[i] = (p.returncode, open(files[i][:-2] + '.out', errors='replace').read())
                del running[i]
        time.sleep(0.02)
    values = []
    for path, (rc, out) in zip(files, results):
        for ext in ('.v', '.vo', '.vok', '.vos', '.glob', '.out'):
            try:
                os.remove(path[:-2] + ext)
            except OSError:
                pass
        try:
            os.remove(os.path.join(os.path.dirname(path), '.' + os.path.basename(path)[:-2] + '.aux'))
        except OSError:
            pass
        if rc != 0:
            raise CoqEvalError('coqc failed on generated cases (%s):\n%s' % (tag, out[-3000:]))
        m = re.search(r'^\s*=\s(.*)\n\s*:\s[^\n]*\s*$', out, re.S | re.M)
        if not m:
            raise CoqEvalError('cannot find value in Coq output:\n%s' % out[-2000:])
        body = m.group(1)
        # strip the trailing type annotation ( "\n     : list ..." ) – the regex above is greedy on purpose
        v = parse_coq_value(body)
        values.extend(v)
    if len(values) != len(exprs):
        raise CoqEvalError('expected %d values from Coq, got %d' % (len(exprs), len(values)))
    return values


class CoqEvalError(Exception):
    pass


def safe_coq_eval(ctx, tag, imports, exprs, prelude='', shard=400, timeout=600):
    """coq_eval that does not abort the check when the model side is dead.

    Returns the list of values, or None after recording the broken correspondence in ctx.proof_broken (a generated term
    no longer type-checks, a model file no longer compiles, the evaluation times out ...).  The caller skips exactly the
    comparisons that needed these values and still runs every oracle that judges the implementation's output on its own,
    so that the search can still produce a concrete failing input (the runner reports the broken correspondence either
    way, with `no-failing-input-found` only when that search finds nothing).
    """
    try:
        return coq_eval(tag, imports, exprs, prelude=prelude, shard=shard, timeout=timeout)
    except CoqEvalError as exc:
        if len(ctx.proof_broken) < 12:
            ctx.proof_broken.append('model evaluation failed (%s): %s' % (tag, str(exc).strip()[-400:]))
        ctx.extra['model_dead'] = sorted(set(ctx.extra.get('model_dead', [])) | {tag})
        return None


# ----------------------------------------------------------------------------------------------
# Context of one check
# ----------------------------------------------------------------------------------------------
class Ctx:
    def __init__(self, pid, tier, seed):
        self.pid = pid
        self.tier = tier
        self.seed = seed
        self.rng = random.Random(seed * 1000003 + int(pid[1:]))
        self.t0 = time.time()
        self.violations = []      # dicts: site, what, case(fields), no_input
        self.known_hits = []
        self.evaluations = 0
        self.distinct = set()
        self.nontrivial = set()
        self.samples = []
        self.dist = {}
        self.traces = 0
        self.margin_dropped = 0
        self.obligations = 0
        self.discharged = 0
        self.axioms_seen = []
        self.notes = []
        self.proof_broken = []    # names of theorems / files that no longer check
        self.corr_broken = []     # correspondence disagreements (dicts)
        kf = json.load(open(os.path.join(VERIF, 'KNOWN_FINDINGS.json')))
        self.known = [f for f in kf.get('findings', []) if f['property'] == pid]
        self.extra = {}

    # -- bookkeeping -----------------------------------------------------------------------
    def count(self, family, case_key, nontrivial=True, n=1):
        self.evaluations += n
        h = hashlib.sha1(repr(case_key).encode()).hexdigest()[:16]
        self.distinct.add(h)
        if nontrivial:
            self.nontrivial.add(h)
        self.dist[family] = self.dist.get(family, 0) + n

    def sample(self, obj, limit=6):
        if len(self.samples) < limit:
            self.samples.append(obj)

    def violation(self, site, what, case=None, **fields):
        v = dict(site=site, what=what, case=case)
        v.update(fields)
        for f in self.known:
            if _match(f.get('match', {}), v):
                self.known_hits.append((f, v))
                return False
        if len(self.violations) < 50:
            self.violations.append(v)
        return True

    def elapsed(self):
        return time.time() - self.t0


def _match(pattern, v):
    for k, want in pattern.items():
        got = v.get(k)
        if isinstance(want, list):
            if got not in want:
                return False
        elif isinstance(want, str) and want.startswith('re:'):
            if got is None or not re.search(want[3:], str(got)):
                return False
        elif got != want:
            return False
    return True


def jsonable(x):
    if isinstance(x, Fraction):
        return '%d/%d' % (x.numerator, x.denominator)
    if isinstance(x, (list, tuple)):
        return [jsonable(y) for y in x]
    if isinstance(x, dict):
        return {str(k): jsonable(v) for k, v in x.items()}
    if isinstance(x, (set, frozenset)):
        return sorted(jsonable(y) for y in x)
    try:
        import numpy as np
        if isinstance(x, np.generic):
            return x.item()
        if isinstance(x, np.ndarray):
            return x.tolist()
    except ImportError:
        pass
    if isinstance(x, (str, int, float, bool)) or x is None:
        return x
    return repr(x)

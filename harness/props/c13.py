"""C13 — semi-supervised predictions respect the seeds and the local evidence.

Correspondence: Propagation, NNClassifier._fit_core, RankClassifier post-processing, DiffusionClassifier
(centering=False), NNLinker._fit_core and the classification metrics are evaluated by the Coq models
(vm_compute, exact rationals; the kernel variant is the one the translator read from the source) and diffed
against the implementation. Property oracles (written independently in Python) run on every implementation
output: label set, probability rows, seeds kept, DiffusionClassifier -1 = seedless component (undirected),
local evidence at the fixed point of Propagation (UNEQUAL weights), NNLinker top-k / threshold."""
import itertools
from fractions import Fraction

from .. import gen
from ..common import cnat, cz, cq, cbool, clist, copt, safe_coq_eval
from ..impl import Impl

GEN_FILES = ['VoteConsts.v']
IMPORTS = ['Base.Util', 'Model.Vote', 'Model.Bfs', 'Model.Classify', 'Gen.VoteConsts']
TOL = 1e-9

# Rationals are printed as (numerator, denominator) pairs: Coq's number notation would print some of them as
# decimal / hexadecimal literals.
PRELUDE = '''
Definition qp (q : Q) : Z * Z := (Qnum q, Zpos (Qden q)).
Definition qm (m : list (list Q)) : list (list (Z * Z)) := map (map qp) m.
Definition qo (o : option Q) : option (Z * Z) := option_map qp o.
Definition run_prop (c : csr) (seeds : list Z) (order : node_order) (oracle : list nat) (weighted : bool)
           (n_iter : option nat) (fuel : nat) :=
  match propagation src_variant c seeds order oracle weighted n_iter fuel with
  | POk r => POk (pr_labels r, qm (pr_probs r), pr_sweeps r, pr_fixed r, pr_index r)
  | POOB s => POOB s
  | POutOfFuel => POutOfFuel
  end.
Definition run_metrics (lt lp : list Z) :=
  (qo (accuracy lt lp), confusion lt lp,
   option_map (fun x : list Q * list Q * list Q => [map qp (fst (fst x)); map qp (snd (fst x)); map qp (snd x)]) (f1_scores lt lp),
   qo (average_f1 lt lp Micro), qo (average_f1 lt lp Macro), qo (average_f1 lt lp Weighted)).
Definition run_dc (adj : adjrows) (labels : list Z) (n_iter : nat) :=
  option_map (fun x : list Z * mat => (fst x, qm (snd x))) (dc_fit adj labels n_iter false 5%Q (fun x => x)).
Definition run_nn (labels : list Z) (tr te : list nat) (k : nat) (aps : list (list nat)) :=
  let r := nn_fit_core labels tr te k aps in (qm (fst r), snd r).
Definition run_rank (seeds : list Z) (scores : mat) :=
  let r := rank_classify seeds scores in
  (fst r, map (map (fun p : Z * Q => (fst p, qp (snd p)))) (snd r)).
Definition run_linker (emb : mat) (mask : list bool) (k : nat) (thr : Q) (aps : list (list nat)) :=
  map (fun x : nat * list (nat * Q) => (fst x, map (fun p : nat * Q => (fst p, qp (snd p))) (snd x)))
      (nnlinker_fit_core emb mask k thr aps).
'''


class ModelEval:
    """Evaluates the Coq models. A failure (a translator that failed closed, a model that no longer compiles) is
    recorded in ctx.proof_broken (common.safe_coq_eval) and ctx.notes, and makes every later evaluation return None (the
    model diffs are skipped, the implementation-side oracles still run)."""

    def __init__(self, ctx):
        self.ctx = ctx
        self.error = None

    def __call__(self, tag, exprs, prelude=None):
        if not exprs:
            return []
        if self.error is not None:
            return None
        vals = safe_coq_eval(self.ctx, tag, IMPORTS, exprs, prelude=PRELUDE if prelude is None else prelude)
        if vals is None:
            self.error = tag
            self.ctx.notes.append('model evaluation failed at %s: the model diffs are skipped, the implementation-side oracles '
                                  'run without it' % tag)
        return vals


def Qf(p):
    return Fraction(p[0], p[1])


def Qrows(m):
    return [[Qf(x) for x in row] for row in m]


# ----------------------------------------------------------------------------------------------------------
# case generation
# ----------------------------------------------------------------------------------------------------------
def _weights(rng, edges, directed, unequal=True):
    kind = rng.choice(['small_int', 'small_int', 'dyadic']) if unequal else 'unit'
    trip, _ = gen.random_weights(rng, edges, directed=directed, kind=kind)
    return [[i, j, w] for (i, j, w) in trip], kind


def make_graph(rng, nmax, kind=None, unequal=True):
    """Returns dict(shape, coo, bip, undirected, family). Always at least one edge."""
    kind = kind or rng.choice(['undirected', 'undirected', 'directed', 'bipartite', 'disconnected'])
    for _ in range(50):
        if kind == 'bipartite':
            r, c, E = gen.random_biadj(rng, max(2, nmax // 2), max(2, nmax // 2))
            if r == c:
                continue
            if not E:
                continue
            coo = [[i, j, (rng.randint(1, 5) if unequal else 1)] for (i, j) in E]
            return dict(shape=[r, c], coo=coo, bip=True, undirected=True, family='bipartite')
        directed = kind == 'directed'
        fam = rng.choice(['union', 'isolated', 'few_edges', 'two_cliques']) if kind == 'disconnected' else None
        n, E, fam = gen.random_graph(rng, nmax, directed=directed, family=fam, nmin=3, allow_loops=rng.random() < 0.2)
        if not E:
            continue
        coo, _ = _weights(rng, E, directed, unequal)
        return dict(shape=[n, n], coo=coo, bip=False, undirected=not directed, family=kind + ':' + fam)
    return dict(shape=[3, 3], coo=[[0, 1, 2], [1, 0, 2], [1, 2, 1], [2, 1, 1]], bip=False, undirected=True, family='fallback')


CLASS_POOLS = [[0, 1], [0, 1], [0, 1, 2], [1, 2], [0, 3, 7], [2, 5], [0, 2, 3, 4]]


def make_seed_vector(rng, n, max_label=None, frac=None):
    """Seed vector of length n with >= 2 classes, >= 1 unlabelled node, labels < n (unless max_label given)."""
    lim = n if max_label is None else max_label
    pools = [p for p in CLASS_POOLS if all(x < lim for x in p)] or [[0, 1]]
    classes = rng.choice(pools)
    k = rng.randint(len(classes), max(len(classes), min(n - 1, int(n * (frac or rng.choice([0.2, 0.4, 0.6]))) + 1)))
    k = min(k, n - 1)
    nodes = rng.sample(range(n), k)
    vec = [-1] * n
    for t, v in enumerate(nodes):
        vec[v] = classes[t] if t < len(classes) else rng.choice(classes)
    return vec


def seed_forms(rng, g, vec, form=None):
    """Implementation-side keyword arguments for a seed vector (stacked rows+cols when bipartite)."""
    form = form or rng.choice(['array', 'list', 'dict'])

    def one(v):
        if form == 'dict':
            items = [[i, x] for i, x in enumerate(v) if x >= 0]
            if rng.random() < 0.3:
                # "negative values are ignored": a dict may also list nodes explicitly marked as unlabelled
                items += [[i, rng.choice([-1, -1, -3])] for i, x in enumerate(v) if x < 0 and rng.random() < 0.5]
            rng.shuffle(items)
            return {'dict': items}
        return {form: list(v)}

    if not g['bip']:
        return dict(labels=one(vec)), form
    r = g['shape'][0]
    vr, vc = vec[:r], vec[r:]
    if all(x < 0 for x in vc) and any(x >= 0 for x in vr) and rng.random() < 0.5:
        return dict(labels=one(vr)), form + ':labels'
    kw = {}
    if any(x >= 0 for x in vr) or form != 'dict':
        kw['labels_row'] = one(vr)
    if any(x >= 0 for x in vc) or form != 'dict':
        kw['labels_col'] = one(vc)
    if not kw:
        kw['labels_row'] = one(vr)
    return kw, form + ':rowcol'


def adjacency_rows(g):
    """Rows (sorted by column) of the adjacency the estimators work on: the matrix itself, or the block
    [[0, B], [B^T, 0]] of a biadjacency matrix. Weights as exact Fractions."""
    r, c = g['shape']
    if g['bip']:
        n = r + c
        rows = [dict() for _ in range(n)]
        for i, j, w in g['coo']:
            rows[i][r + j] = rows[i].get(r + j, 0) + Fraction(w)
            rows[r + j][i] = rows[r + j].get(i, 0) + Fraction(w)
    else:
        n = r
        rows = [dict() for _ in range(n)]
        for i, j, w in g['coo']:
            rows[i][j] = rows[i].get(j, 0) + Fraction(w)
    return [sorted(d.items()) for d in rows]


def csr_of(rows):
    indptr, indices, data = [0], [], []
    for r in rows:
        for j, w in r:
            indices.append(j)
            data.append(w)
        indptr.append(len(indices))
    return indptr, indices, data


def c_csr(rows):
    indptr, indices, data = csr_of(rows)
    return '{| c_indptr := %s; c_indices := %s; c_data := %s |}' % (clist(indptr, cnat), clist(indices, cnat), clist(data, cq))


def c_adj(rows):
    return clist(rows, lambda r: clist(r, lambda p: '(%d, %s)' % (p[0], cq(p[1]))))


def mspec(g, dtype=None):
    dt = dtype or ('float' if any(isinstance(e[2], float) for e in g['coo']) else 'int')
    return {'shape': g['shape'], 'coo': g['coo'], 'dtype': dt, 'fmt': 'csr'}


def components(rows):
    n = len(rows)
    p = list(range(n))

    def f(x):
        while p[x] != x:
            p[x] = p[p[x]]
            x = p[x]
        return x
    for i, r in enumerate(rows):
        for j, _ in r:
            p[f(i)] = f(j)
    return [f(i) for i in range(n)]


# ----------------------------------------------------------------------------------------------------------
# property oracles on implementation outputs (independent of the Coq models)
# ----------------------------------------------------------------------------------------------------------
def all_labels(out, g):
    if g['bip']:
        return list(out['labels_row']) + list(out['labels_col'])
    return list(out['labels'])


def all_probs(out, g):
    if g['bip']:
        return list(out['probs_row']) + list(out['probs_col'])
    return list(out['probs'])


def check_common(ctx, site, g, vec, out, case, fields, seeds_fixed=True, allow_minus1=True):
    """labels in seed set (or -1), probability rows, seeds keep their labels. Returns number of violations."""
    bad = 0
    labels = all_labels(out, g)
    probs = all_probs(out, g)
    seedset = {x for x in vec if x >= 0}
    n = len(vec)
    if len(labels) != n or len(probs) != n:
        ctx.violation(site, 'one label and one probability row per node expected', case=case, kind='shape',
                      observed=dict(n_labels=len(labels), n_rows=len(probs), n=n), **fields)
        return 1
    wrong = [(i, l) for i, l in enumerate(labels) if l != -1 and l not in seedset]
    if wrong:
        bad += 1
        ctx.violation(site, 'predicted label is neither a seed label nor -1', case=case, kind='label_not_in_seed_set',
                      observed=wrong[:5], expected=sorted(seedset), **fields)
    rows_bad = []
    for i, row in enumerate(probs):
        s = sum(row)
        if any(x < -TOL for x in row) or not (abs(s - 1) <= 1e-7 or abs(s) <= TOL):
            rows_bad.append((i, s))
    if rows_bad:
        bad += 1
        ctx.violation(site, 'probability row is not non-negative with sum 1 (or 0)', case=case, kind='probs_row',
                      observed=rows_bad[:5], **fields)
    if seeds_fixed:
        moved = [(i, vec[i], labels[i]) for i in range(n) if vec[i] >= 0 and labels[i] != vec[i]]
        if moved:
            bad += 1
            ctx.violation(site, 'a seed did not keep its label', case=case, kind='seed_changed',
                          expected=[(i, a) for i, a, _ in moved[:5]], observed=[(i, b) for i, _, b in moved[:5]], **fields)
    return bad


def local_evidence(rows, weighted, vec, labels):
    """Non-seed nodes with a labelled neighbour whose label is not of maximal total vote."""
    bad = []
    for i, r in enumerate(rows):
        if vec[i] >= 0:
            continue
        votes = {}
        for j, w in r:
            if labels[j] >= 0:
                votes[labels[j]] = votes.get(labels[j], 0) + (w if weighted else 1)
        if not votes:
            continue
        best = max(votes.values())
        if labels[i] < 0 or votes.get(labels[i], 0) < best:
            bad.append(dict(node=i, label=labels[i], votes={str(k): str(v) for k, v in sorted(votes.items())}))
    return bad


def drop(ctx, reason):
    ctx.margin_dropped += 1
    d = ctx.extra.setdefault('dropped_by_reason', {})
    d[reason] = d.get(reason, 0) + 1


def close(a, b, tol=TOL):
    return abs(float(a) - float(b)) <= tol * max(1.0, abs(float(a)), abs(float(b)))


def rows_close(A, B, tol=TOL):
    if len(A) != len(B):
        return False
    for ra, rb in zip(A, B):
        if len(ra) != len(rb) or any(not close(x, y, tol) for x, y in zip(ra, rb)):
            return False
    return True


ORDER_COQ = {None: 'ONone', 'random': 'ORandom', 'increasing': 'OIncreasing', 'decreasing': 'ODecreasing'}


# ----------------------------------------------------------------------------------------------------------
def run(ctx, scratch):
    rng = ctx.rng
    quick = ctx.tier == 'quick'
    nmax = 12 if quick else 40
    scale = 1 if quick else 18

    mev = ModelEval(ctx)
    with Impl(scratch) as impl:
        run_witnesses(ctx, impl, mev)
        run_propagation(ctx, impl, mev, rng, nmax, 330 * scale)
        run_termination(ctx, impl, mev, rng, 200 * scale)
        run_diffusion(ctx, impl, mev, rng, nmax, 170 * scale)
        run_nn(ctx, impl, mev, rng, nmax, 150 * scale)
        run_pagerank(ctx, impl, mev, rng, nmax, 50 * scale)
        run_nnlinker(ctx, impl, mev, rng, nmax, 110 * scale)
        run_metrics(ctx, impl, mev, rng, 260 * scale)
    with Impl(scratch) as impl2:
        run_label_range(ctx, impl2, mev, rng, 24 * scale)

    ctx.rule = ('per classifier (Propagation, DiffusionClassifier, NNClassifier, PageRankClassifier) x seeds as array / list / '
                'dict (>= 2 classes, labels with gaps, >= 1 unlabelled node, labels < n) x options (weighted with unequal '
                'weights, node_order, n_iter incl. the default, centering, n_neighbors, solver) on random graphs of harness/gen.py '
                '(weighted undirected, directed, rectangular bipartite, disconnected), n <= %d; explicit families: n-1 distinct '
                'labels + one unlabelled node (D21), increasing/decreasing orders, seed labels >= n (supervised worker), the D5 '
                'witness on the compiled kernel; NNLinker with n_neighbors x threshold x index; metrics on random label vectors '
                'with -1 and gaps. Models evaluated by vm_compute inside Coq with the kernel variant read from the source; '
                'distinct by hash of (estimator, arguments); non-trivial = at least one edge, two classes, one unlabelled node '
                '(metrics: at least one counted sample)' % nmax)
    ctx.assumptions = ['weights are positive and exactly representable in float32 (integers 1..5 and dyadic fractions), so that vote '
                       'ties are exact ties in the model and in the kernel',
                       'matrices are passed as CSR with int / float dtype and no explicitly stored zeros (format and dtype independence is C01)',
                       'a seed vector whose n values are all distinct AND non-negative is the documented clustering mode '
                       '(what fit(adjacency) builds for itself) and is not generated',
                       'NNClassifier / NNLinker use embedding_method=None (embedding methods are oracles of the model)',
                       'the ranking scores, argsort / shuffle / argpartition answers and exp are oracles; their contracts are checked '
                       'on every captured answer']


# ----------------------------------------------------------------------------------------------------------
def run_witnesses(ctx, impl, mev):
    """The D5 witness of vote_weighted_refuted on the compiled kernel: local-evidence oracle first, then the models."""
    args = dict(indptr=[0, 0, 1, 2, 4], indices=[3, 3, 1, 2], data=[1, 2, 1, 2], labels=[-1, 0, 1, 0], index=[0, 3])
    r = impl.call('c13', 'vote_kernel', args, timeout=20)
    ctx.traces += 1
    ctx.count('witness:vote_kernel', ('w', 'd5'), True)
    if 'ok' not in r:
        ctx.violation('vote_update', 'kernel failed on the weighted witness', case=args, kind='error', observed=r, weighted=True)
        return
    rows = [[], [(3, Fraction(1))], [(3, Fraction(2))], [(1, Fraction(1)), (2, Fraction(2))]]
    bad = local_evidence(rows, True, [-1, 0, 1, -1], r['ok']) if len(r['ok']) == 4 else [dict(labels=r['ok'])]
    if bad:
        ctx.violation('vote_update', 'weighted vote ignores the edge weights: after the sweep node 3 does not hold the label of '
                      'maximal weight (2 > 1) (legacy kernel behaviour, vote_weighted_refuted)', case=args, kind='not_local_max',
                      weighted=True, expected=[-1, 0, 1, 1], observed=r['ok'], legacy_kernel=True)
    mv = mev('c13w', ['vote_update legacy_kernel wit_indptr wit_indices wit_data wit_labels wit_index',
                      'vote_update src_kernel wit_indptr wit_indices wit_data wit_labels wit_index'],
             prelude='From SKN Require Import Proofs.VoteProofs.')
    if mv is not None:
        legacy, source = mv
        if not bad and not (source[0] == 'VOk' and list(source[1]) == r['ok']):
            ctx.violation('vote_update', 'kernel differs from the model of the current source on the weighted witness', case=args,
                          kind='model_diff', weighted=True, expected=source, observed=r['ok'])
        ctx.sample(dict(kind='vote_kernel witness', args=args, impl=r.get('ok'), model_legacy=legacy, model_source=source))


# ----------------------------------------------------------------------------------------------------------
def prop_cases(rng, nmax, count):
    cases = []

    def add(fam, g, vec, **opt):
        kw, form = seed_forms(rng, g, vec, opt.pop('form', None))
        cases.append(dict(fam=fam, g=g, vec=vec, kw=kw, form=form, weighted=opt.get('weighted', True),
                          node_order=opt.get('node_order'), n_iter=opt.get('n_iter')))

    # explicit: the D21 matrix of the brief and n-1 distinct labels + one unlabelled node
    g0 = dict(shape=[3, 3], coo=[[0, 1, 4], [1, 0, 4]], bip=False, undirected=True, family='d21')
    add('distinct_seeds', g0, [0, 1, -1], form='dict')
    for _ in range(12):
        g = make_graph(rng, 5, kind=rng.choice(['undirected', 'directed']))
        n = g['shape'][0]
        vec = list(range(n))
        rng.shuffle(vec)
        vec[rng.randrange(n)] = -1
        add('distinct_seeds', g, vec, n_iter=rng.choice([None, 3]), weighted=rng.random() < 0.7)
    # explicit: the node-order witness
    g1 = dict(shape=[4, 4], coo=[[0, 1, 1], [1, 0, 1], [0, 2, 1], [2, 0, 1], [1, 2, 1], [2, 1, 1], [1, 3, 1], [3, 1, 1]],
              bip=False, undirected=True, family='order_witness')
    add('node_order', g1, [-1, 0, -1, 1], node_order='increasing', n_iter=5, form='dict')
    for _ in range(count):
        g = make_graph(rng, nmax)
        n = sum(g['shape']) if g['bip'] else g['shape'][0]
        if n < 3:
            continue
        vec = make_seed_vector(rng, n)
        order = rng.choice([None, None, None, 'random', 'increasing', 'decreasing'])
        weighted = rng.random() < 0.7
        # the default n_iter (-1 = until nothing changes) only with the index order (the oracle answers of the other
        # orders cannot be captured from a run that does not return)
        if order is None and rng.random() < 0.45:
            n_iter = None
        else:
            n_iter = rng.choice([1, 2, 3, 5, 8, 20])
        add(g['family'].split(':')[0], g, vec, node_order=order, weighted=weighted, n_iter=n_iter)
    return cases


def prop_args(c):
    a = dict(m=mspec(c['g']), weighted=c['weighted'], node_order=c['node_order'])
    a['n_iter'] = -1 if c['n_iter'] is None else c['n_iter']
    a.update(c['kw'])
    return a


def prop_expr(c, rows, oracle, fuel):
    return 'run_prop %s %s %s %s %s %s %d' % (c_csr(rows), clist(c['vec'], cz), ORDER_COQ[c['node_order']], clist(oracle, cnat),
                                              cbool(c['weighted']), copt(c['n_iter'], cnat), fuel)


def prop_oracles(ctx, c, rows, r, f, fuel_note=''):
    """Implementation-side oracles for one Propagation run (no model needed). Returns the labels or None."""
    case = prop_args(c)
    if 'hang' in r:
        ctx.violation('propagation_hang', 'Propagation.fit does not return (the sweeps cycle between labelings%s)' % fuel_note,
                      case=case, kind='hang', **f)
        return None
    if 'crash' in r or 'err' in r:
        ctx.violation('Propagation', 'fit raised / crashed on a valid input', case=case, kind='crash' if 'crash' in r else 'error',
                      observed={k: r[k] for k in r if k != 'tb'}, **f)
        return None
    o = r['ok']
    g, vec = c['g'], c['vec']
    labels = all_labels(o, g)
    check_common(ctx, 'Propagation', g, vec, o, case, f)
    # the last sweep the kernel ran changed nothing on the updated nodes: the loop stopped on its array_equal test
    if o['sweeps'] >= 1 and o['last_unchanged'] and len(labels) == len(vec):
        bad = local_evidence(rows, c['weighted'], vec, labels)
        if bad:
            ctx.violation('Propagation', 'stopped because a sweep changed nothing, but a non-seed node with a labelled '
                          'neighbour does not hold a label of maximal total vote', case=case, kind='not_local_max',
                          observed=dict(labels=labels, nodes=bad[:4]), **f)
    return labels


def prop_fields(c):
    n = len(c['vec'])
    return dict(node_order=c['node_order'] or 'none', weighted=c['weighted'], n_iter_default=c['n_iter'] is None,
                seed_vector_all_distinct=len(set(c['vec'])) == n, form=c['form'], family=c['fam'])


def run_propagation(ctx, impl, mev, rng, nmax, count):
    cases = prop_cases(rng, nmax, count)
    FUEL = 150
    outs = [None] * len(cases)
    oracles = [[] for _ in cases]
    no_oracle = set()
    rowsl = [adjacency_rows(c['g']) for c in cases]

    def call(i, timeout):
        c = cases[i]
        r = impl.call('c13', 'propagation', prop_args(c), timeout=timeout)
        ctx.traces += 1
        ctx.count('Propagation:' + c['fam'] + (':default_n_iter' if c['n_iter'] is None else ''),
                  ('prop', prop_args(c)), True)
        return r

    # phase A: explicit n_iter -- implementation and its oracles (the NumPy answers are captured for the model)
    for i, c in enumerate(cases):
        if c['n_iter'] is None:
            continue
        r = call(i, 20)
        outs[i] = r
        prop_oracles(ctx, c, rowsl[i], r, prop_fields(c))
        if 'ok' not in r:
            continue
        o = r['ok']
        n = len(c['vec'])
        if c['node_order'] == 'random':
            oracles[i] = o['shuffle'][-1] if o['shuffle'] else []
        elif c['node_order'] in ('increasing', 'decreasing'):
            cand = [x for x in o['argsort'] if len(x) == n]
            if not cand:
                no_oracle.add(i)     # the source no longer asks NumPy for an argsort of all the nodes: nothing to feed the model
                continue
            oracles[i] = cand[-1]
            # contract of argsort: a permutation of the nodes sorting the (negated) in-weights
            inw = [Fraction(0)] * n
            for row in rowsl[i]:
                for j, w in row:
                    inw[j] += w
            key = [(-x if c['node_order'] == 'decreasing' else x) for x in inw]
            p = oracles[i]
            if sorted(p) != list(range(n)) or any(key[a] > key[b] for a, b in zip(p, p[1:])):
                ctx.violation('oracle_contract', 'np.argsort answer is not a sorting permutation', case=prop_args(c),
                              kind='argsort', observed=p)
    # phase B: the model
    exprs = [prop_expr(c, rowsl[i], oracles[i], FUEL if c['n_iter'] is None else c['n_iter'] + 1) for i, c in enumerate(cases)]
    model = mev('c13p', exprs)
    # phase C: default n_iter. Runs the model predicts not to return are left to run_termination; without a model every
    # case is run with a short time-out, at most two hangs are paid for.
    hangs = 0
    for i, c in enumerate(cases):
        if c['n_iter'] is not None:
            continue
        if model is not None and model[i][0] == 'POutOfFuel':
            ctx.count('Propagation:predicted_nontermination_not_run', ('prop', prop_args(c)), True)
            outs[i] = {'skipped': True}
            continue
        if model is None and hangs >= 2:
            outs[i] = {'skipped': True}
            continue
        outs[i] = call(i, 20 if model is not None else 6)
        if 'hang' in outs[i]:
            hangs += 1
        prop_oracles(ctx, c, rowsl[i], outs[i], prop_fields(c))
    # phase D: correspondence with the model
    if model is None:
        return
    for i, c in enumerate(cases):
        r, mv = outs[i], model[i]
        if r.get('skipped') or 'ok' not in r:
            continue
        if i in no_oracle:
            drop(ctx, 'propagation: no argsort of all the nodes captured, model not comparable')
            continue
        case = prop_args(c)
        f = prop_fields(c)
        o = r['ok']
        g = c['g']
        labels = all_labels(o, g)
        if mv[0] == 'POutOfFuel':
            drop(ctx, 'propagation: model out of fuel, implementation returned')
            continue
        if mv[0] != 'POk':
            ctx.violation('Propagation', 'model reports an out-of-bounds access where the implementation returned', case=case,
                          kind='model_diff', expected=mv, observed=labels, **f)
            continue
        ml, mp, msweeps, mfixed, mindex = mv[1]
        mp = Qrows(mp)
        if list(ml) != labels:
            ctx.violation('Propagation', 'labels differ from the model of the current source', case=case, kind='model_diff',
                          expected=list(ml), observed=labels, **f)
        elif not rows_close([list(x) for x in mp], all_probs(o, g)):
            ctx.violation('Propagation', 'probabilities differ from the model', case=case, kind='model_diff_probs',
                          expected=[list(map(float, x)) for x in mp], observed=all_probs(o, g), **f)
        elif msweeps != o['sweeps'] or (o['first'] is not None and list(mindex) != o['first']['index']):
            ctx.violation('Propagation', 'number of sweeps / update order differ from the model', case=case, kind='model_diff_trace',
                          expected=dict(sweeps=msweeps, index=list(mindex)),
                          observed=dict(sweeps=o['sweeps'], index=o['first'] and o['first']['index']), **f)
        if i % 97 == 0:
            ctx.sample(dict(kind='Propagation', args=case, impl_labels=labels, model_labels=list(ml), sweeps=o['sweeps'],
                            stopped_unchanged=o['last_unchanged']))


# ----------------------------------------------------------------------------------------------------------
def run_termination(ctx, impl, mev, rng, count):
    """Default n_iter (-1: sweep until nothing changes) on small weighted digraphs: the model (fuel 150) says which runs
    cycle; a few of those are confirmed on the implementation with a time-out, the others are run normally."""
    FUEL = 150
    cases = []
    # a 6-node witness (period-2 cycle of labelings), then dense random weighted digraphs
    wit = [[(3, 2), (5, 3)], [(0, 2), (2, 1), (3, 1), (4, 2)], [(0, 1), (3, 3), (5, 3)], [(5, 1)], [(1, 3), (2, 3)],
           [(0, 2), (1, 3), (2, 1), (3, 1), (4, 1)]]
    gw = dict(shape=[6, 6], coo=[[i, j, w] for i, r in enumerate(wit) for j, w in r], bip=False, undirected=False,
              family='directed:cycle_witness')
    cases.append(dict(fam='default_n_iter_digraph', g=gw, vec=[1, -1, -1, -1, 0, -1], kw=dict(labels={'dict': [[0, 1], [4, 0]]}),
                      form='dict', weighted=True, node_order=None, n_iter=None))
    for _ in range(count):
        n = rng.randint(5, 7)
        coo = [[i, j, rng.randint(1, 3)] for i in range(n) for j in range(n) if i != j and rng.random() < 0.4]
        if not coo:
            continue
        g = dict(shape=[n, n], coo=coo, bip=False, undirected=False, family='directed:dense')
        vec = [-1] * n
        a, b = rng.sample(range(n), 2)
        vec[a], vec[b] = 0, 1
        kw, form = seed_forms(rng, g, vec)
        cases.append(dict(fam='default_n_iter_digraph', g=g, vec=vec, kw=kw, form=form, weighted=True, node_order=None, n_iter=None))
    exprs = [prop_expr(c, adjacency_rows(c['g']), [], FUEL) for c in cases]
    model = mev('c13t', exprs)
    if model is not None:
        cyc = [i for i, mv in enumerate(model) if mv[0] == 'POutOfFuel']
        confirm = set(cyc[:1])
        run_ok = [i for i, mv in enumerate(model) if mv[0] != 'POutOfFuel']
    else:
        # no model: the witness is run with the short time-out, the sample below pays for at most one more hang
        cyc, confirm, run_ok = [], {0}, list(range(1, len(cases)))
    run_ok = set(rng.sample(run_ok, min(len(run_ok), 60)))
    ctx.extra['default_n_iter_digraphs'] = dict(cases=len(cases), model_cycles=len(cyc) if model is not None else None,
                                                confirmed_on_impl=len(confirm))
    hangs = 0
    for i, c in enumerate(cases):
        args = prop_args(c)
        f = prop_fields(c)
        if i in cyc and i not in confirm:
            ctx.count('Propagation:predicted_nontermination_not_run', ('prop', args), True)
            continue
        if i not in confirm and i not in run_ok:
            continue
        if model is None and hangs >= 2:
            continue
        r = impl.call('c13', 'propagation', args, timeout=5 if (i in confirm or model is None) else 20)
        ctx.traces += 1
        ctx.count('Propagation:default_n_iter_digraph', ('prop', args), True)
        if 'hang' in r:
            hangs += 1
        labels = prop_oracles(ctx, c, adjacency_rows(c['g']), r, f,
                              fuel_note='; model: out of fuel after %d sweeps' % FUEL if i in cyc else '')
        if labels is None or model is None:
            continue
        mv = model[i]
        if mv[0] == 'POutOfFuel':
            drop(ctx, 'propagation: model out of fuel, implementation returned')
        elif mv[0] != 'POk' or list(mv[1][0]) != labels:
            ctx.violation('Propagation', 'labels differ from the model of the current source', case=args, kind='model_diff',
                          expected=mv, observed=labels, **f)


# ----------------------------------------------------------------------------------------------------------
def run_diffusion(ctx, impl, mev, rng, nmax, count):
    cases = []
    for k in range(count):
        g = make_graph(rng, nmax)
        n = sum(g['shape']) if g['bip'] else g['shape'][0]
        if n < 3:
            continue
        vec = make_seed_vector(rng, n)
        kw, form = seed_forms(rng, g, vec)
        cases.append(dict(g=g, vec=vec, kw=kw, form=form, n_iter=rng.choice([1, 2, 3, 5, 10]), centering=rng.random() < 0.5))
    exprs, idx = [], []
    for i, c in enumerate(cases):
        n = len(c['vec'])
        if not c['centering'] and n <= 9 and c['n_iter'] <= 5 and len(idx) < 60:
            idx.append(i)
            exprs.append('run_dc %s %s %d' % (c_adj(adjacency_rows(c['g'])), clist(c['vec'], cz), c['n_iter']))
    results = []
    for i, c in enumerate(cases):
        g, vec = c['g'], c['vec']
        args = dict(m=mspec(g), n_iter=c['n_iter'], centering=c['centering'])
        args.update(c['kw'])
        r = impl.call('c13', 'diffusion', args, timeout=20)
        ctx.traces += 1
        ctx.count('DiffusionClassifier:' + g['family'].split(':')[0], ('dc', args), True)
        f = dict(centering=c['centering'], n_iter=c['n_iter'], form=c['form'], family=g['family'])
        if 'ok' not in r:
            ctx.violation('DiffusionClassifier', 'fit raised / crashed / hung on a valid input', case=args, kind='error',
                          observed={k: r[k] for k in r if k != 'tb'}, **f)
            continue
        o = r['ok']
        check_common(ctx, 'DiffusionClassifier', g, vec, o, args, f)
        labels = all_labels(o, g)
        rows = adjacency_rows(g)
        if g['undirected'] and len(labels) == len(vec):
            comp = components(rows)
            seeded = {comp[i] for i in range(len(vec)) if vec[i] >= 0}
            wrong = [i for i in range(len(vec)) if (labels[i] == -1) != (comp[i] not in seeded)]
            if wrong:
                ctx.violation('DiffusionClassifier', 'label -1 is not given exactly to the nodes of components without a seed',
                              case=args, kind='minus1_component', observed=dict(labels=labels, nodes=wrong[:6]), **f)
        results.append((i, args, g, vec, o, f, labels))
        if i % 71 == 0:
            ctx.sample(dict(kind='DiffusionClassifier', args=args, labels=labels))
    mvals = mev('c13d', exprs)
    model = dict(zip(idx, mvals)) if mvals is not None else {}
    for (i, args, g, vec, o, f, labels) in results:
        if i in model:
            mv = model[i]
            if mv is None:
                ctx.violation('DiffusionClassifier', 'model raises ValueError where the implementation returned', case=args,
                              kind='model_diff', **f)
                continue
            ml, mp = mv[1]
            mp = Qrows(mp)
            probs = all_probs(o, g)
            if not rows_close([list(x) for x in mp], probs, 1e-7):
                ctx.violation('DiffusionClassifier', 'probabilities differ from the model (centering=False)', case=args,
                              kind='model_diff_probs', expected=[list(map(float, x)) for x in mp], observed=probs, **f)
            else:
                for v in range(len(vec)):
                    top = sorted(probs[v], reverse=True)
                    if len(top) >= 2 and top[0] - top[1] < 1e-6 and labels[v] != -1:
                        drop(ctx, 'diffusion: arg-max margin < 1e-6 (node)')
                        continue
                    if ml[v] != labels[v]:
                        ctx.violation('DiffusionClassifier', 'label differs from the model', case=args, kind='model_diff',
                                      expected=list(ml), observed=labels, node=v, **f)
                        break


# ----------------------------------------------------------------------------------------------------------
def run_nn(ctx, impl, mev, rng, nmax, count):
    cases, exprs = [], []
    for k in range(count):
        g = make_graph(rng, nmax)
        n = sum(g['shape']) if g['bip'] else g['shape'][0]
        if n < 3:
            continue
        vec = make_seed_vector(rng, n)
        kw, form = seed_forms(rng, g, vec)
        args = dict(m=mspec(g), n_neighbors=rng.choice([1, 2, 3, 5, 50]), normalize=rng.random() < 0.6)
        args.update(kw)
        r = impl.call('c13', 'nn', args, timeout=20)
        ctx.traces += 1
        ctx.count('NNClassifier:' + g['family'].split(':')[0], ('nn', args), True)
        f = dict(n_neighbors=args['n_neighbors'], normalize=args['normalize'], form=form, family=g['family'])
        if 'ok' not in r:
            ctx.violation('NNClassifier', 'fit raised / crashed / hung on a valid input', case=args, kind='error',
                          observed={k: r[k] for k in r if k != 'tb'}, **f)
            continue
        o = r['ok']
        check_common(ctx, 'NNClassifier', g, vec, o, args, f)
        train = [i for i in range(n) if vec[i] >= 0]
        test = [i for i in range(n) if vec[i] < 0]
        aps = o['argparts']
        kk = args['n_neighbors'] if args['n_neighbors'] < len(train) else len(train) - 1
        okc = len(aps) == len(test)
        for rec in aps:
            d, p = rec['dist'], rec['ap']
            if rec['k'] != kk or sorted(p) != list(range(len(train))) or \
                    (kk > 0 and max(d[x] for x in p[:kk]) > min([d[x] for x in p[kk:]] + [float('inf')]) + 1e-12):
                okc = False
        if not okc:
            ctx.violation('oracle_contract', 'np.argpartition answers do not meet their contract', case=args, kind='argpartition')
            continue
        cases.append((args, g, vec, o, f))
        exprs.append('run_nn %s %s %s %d %s' % (clist(vec, cz), clist(train, cnat), clist(test, cnat), args['n_neighbors'],
                                                     clist([rec['ap'] for rec in aps], lambda p: clist(p, cnat))))
    model = mev('c13n', exprs) or []
    for (args, g, vec, o, f), mv in zip(cases, model):
        mp, ml = mv
        mp = Qrows(mp)
        labels, probs = all_labels(o, g), all_probs(o, g)
        if list(ml) != labels:
            ctx.violation('NNClassifier', 'labels differ from the model of _fit_core', case=args, kind='model_diff',
                          expected=list(ml), observed=labels, **f)
        elif not rows_close([list(x) for x in mp], probs):
            ctx.violation('NNClassifier', 'probabilities differ from the model of _fit_core', case=args, kind='model_diff_probs',
                          expected=[list(map(float, x)) for x in mp], observed=probs, **f)
    if cases:
        ctx.sample(dict(kind='NNClassifier', args=cases[0][0], labels=all_labels(cases[0][3], cases[0][1])))


# ----------------------------------------------------------------------------------------------------------
def run_pagerank(ctx, impl, mev, rng, nmax, count):
    cases, exprs = [], []
    for k in range(count):
        g = make_graph(rng, min(nmax, 20))
        n = sum(g['shape']) if g['bip'] else g['shape'][0]
        if n < 3:
            continue
        vec = make_seed_vector(rng, n)
        kw, form = seed_forms(rng, g, vec)
        solver = rng.choice(['piteration', 'piteration', 'diteration', 'lanczos', 'bicgstab'])
        args = dict(m=mspec(g), solver=solver, n_iter=rng.choice([3, 10, 30]), damping_factor=rng.choice([0.5, 0.85, 0.95]),
                    scores=k % 2 == 0)
        args.update(kw)
        r = impl.call('c13', 'pagerank', args, timeout=60)
        ctx.traces += 1
        ctx.count('PageRankClassifier:' + g['family'].split(':')[0], ('pr', args), True)
        f = dict(solver=solver, form=form, family=g['family'])
        if 'ok' not in r:
            ctx.violation('PageRankClassifier', 'fit raised / crashed / hung on a valid input', case=args, kind='error',
                          observed={k: r[k] for k in r if k != 'tb'}, **f)
            continue
        o = r['ok']
        check_common(ctx, 'PageRankClassifier', g, vec, o, args, f, seeds_fixed=False)
        if o.get('scores') is not None:
            sc = o['scores']
            if [x if x >= 0 else -1 for x in o['seeds_vector']] != vec:      # any negative entry means "no label"
                ctx.violation('PageRankClassifier', 'seed vector built by get_adjacency_values differs from the given seeds',
                              case=args, kind='seed_vector', expected=vec, observed=o['seeds_vector'], **f)
                continue
            if any(x < 0 for row in sc for x in row):
                drop(ctx, 'pagerank: ranking oracle returned a negative score (outside its contract)')
                continue
            cases.append((args, g, vec, o, f))
            exprs.append('run_rank %s %s' % (clist(vec, cz), clist(sc, lambda row: clist(row, cq))))
    model = mev('c13r', exprs) or []
    for (args, g, vec, o, f), mv in zip(cases, model):
        ml, mp = mv
        labels, probs = all_labels(o, g), all_probs(o, g)
        ncol = max(vec) + 1
        dense = []
        for row in mp:
            d = [Fraction(0)] * ncol
            for lab, val in row:
                d[lab] += Qf(val)
            dense.append(d)
        if not rows_close(dense, probs):
            ctx.violation('PageRankClassifier', 'probabilities differ from the model of RankClassifier.fit (scores -> probs)',
                          case=args, kind='model_diff_probs', expected=[list(map(float, x)) for x in dense], observed=probs, **f)
            continue
        for v in range(len(vec)):
            top = sorted((float(x) for x in dense[v]), reverse=True)
            if len(top) >= 2 and top[0] - top[1] < 1e-9:
                drop(ctx, 'pagerank: arg-max margin < 1e-9 (node)')
                continue
            if ml[v] != labels[v]:
                ctx.violation('PageRankClassifier', 'label differs from the model (arg-max of the scores)', case=args,
                              kind='model_diff', expected=list(ml), observed=labels, node=v, **f)
                break
    if cases:
        ctx.sample(dict(kind='PageRankClassifier', args={k: v for k, v in cases[0][0].items()}, labels=all_labels(cases[0][3], cases[0][1])))


# ----------------------------------------------------------------------------------------------------------
def run_nnlinker(ctx, impl, mev, rng, nmax, count):
    cases, exprs = [], []
    for k in range(count):
        g = make_graph(rng, nmax, unequal=rng.random() < 0.7)
        r_, c_ = g['shape']
        nn_ = rng.choice([1, 2, 3, 5, 10, 100])
        thr = rng.choice([0, 0, 0.1, 0.3, 0.5, 0.9])
        index = None
        if rng.random() < 0.3:
            index = sorted(rng.sample(range(r_), rng.randint(1, r_)))
        args = dict(m=mspec(g), n_neighbors=nn_, threshold=thr, index=index)
        if k % 3 == 2:
            # signed embedding (what Spectral / SVD / GSVD give): similarities of both signs, thresholds <= 0 included
            n_all = r_ + c_ if g['bip'] else r_
            dim = rng.choice([2, 2, 3])
            fe = [[rng.randint(-8, 8) / 4 for _ in range(dim)] for _ in range(n_all)]
            fe = [row if any(row) else [1.0] + row[1:] for row in fe]
            args['fixed_embedding'] = fe
            args['threshold'] = thr = rng.choice([0, 0, 0, -0.5, 0.1, 0.3])
            g = dict(g, family='signed_embedding:' + g['family'])
        r = impl.call('c13', 'nnlinker', args, timeout=20)
        ctx.traces += 1
        ctx.count('NNLinker:' + g['family'].split(':')[0], ('nl', args), True)
        f = dict(n_neighbors=nn_, threshold=thr, family=g['family'], bipartite=g['bip'])
        if 'ok' not in r:
            ctx.violation('NNLinker', 'fit raised / crashed / hung on a valid input', case=args, kind='error',
                          observed={k: r[k] for k in r if k != 'tb'}, **f)
            continue
        o = r['ok']
        emb, mask = o['embedding'], o['mask']
        n, n_row = len(emb), len(mask)
        cols = list(range(n_row, n)) if n_row < n else list(range(n))
        kk = nn_ if nn_ < len(cols) else len(cols) - 1
        if o['shape'] != [n_row, len(cols)]:
            ctx.violation('NNLinker', 'links_ has the wrong shape', case=args, kind='shape', observed=o['shape'], **f)
            continue
        near_thr = False
        bad = None
        for i in range(n_row):
            row = o['rows'][i]
            if not mask[i]:
                if row:
                    bad = dict(row=i, what='links predicted for a node outside index', links=row)
                continue
            sims = [sum(a * b for a, b in zip(emb[c], emb[i])) for c in cols]
            if any(abs(s - thr) < 1e-9 for s in sims):
                near_thr = True
            kept = {c for c, _ in row}
            if len(row) > kk or len(kept) != len(row):
                bad = dict(row=i, what='more than n_neighbors links', links=row, k=kk)
            elif any(abs(v - sims[c]) > 1e-9 or v < thr - 1e-12 for c, v in row):
                bad = dict(row=i, what='link below the threshold or not the cosine similarity', links=row, sims=sims)
            elif row:
                weakest = min(v for _, v in row)
                worse = [d for d in range(len(cols)) if d not in kept and sims[d] > weakest + 1e-9]
                if worse:
                    bad = dict(row=i, what='a kept link is weaker than a discarded candidate', links=row, discarded=worse[:4], sims=sims)
            if bad:
                break
        if bad:
            ctx.violation('NNLinker', 'row of links_ violates top-k / threshold: ' + bad['what'], case=args, kind='topk',
                          observed=bad, **f)
            continue
        if len(exprs) < 40 and n <= 8 and not near_thr and len(o['argparts']) == sum(mask):
            cases.append((args, o, f))
            exprs.append('run_linker %s %s %d %s %s' % (clist(emb, lambda row: clist(row, cq)), clist(mask, cbool), nn_,
                                                               cq(thr), clist([a['ap'] for a in o['argparts']], lambda p: clist(p, cnat))))
    model = mev('c13l', exprs) or []
    for (args, o, f), mv in zip(cases, model):
        exp = {i: [(c, float(Qf(v))) for c, v in row] for i, row in mv}
        got = {i: [(c, v) for c, v in row] for i, row in enumerate(o['rows']) if o['mask'][i]}
        same = set(exp) == set(got) and all(
            [c for c, _ in exp[i]] == [c for c, _ in got[i]] and all(close(a[1], b[1]) for a, b in zip(exp[i], got[i])) for i in exp)
        if not same:
            ctx.violation('NNLinker', 'links differ from the model of _fit_core', case=args, kind='model_diff',
                          expected={str(k): v for k, v in exp.items()}, observed={str(k): v for k, v in got.items()}, **f)
    if cases:
        ctx.sample(dict(kind='NNLinker', args=cases[0][0], rows=cases[0][1]['rows']))


# ----------------------------------------------------------------------------------------------------------
def py_metrics(t, p):
    """Textbook definitions from per-class TP / FP / FN counts over the counted samples (independent of the Coq model):
    (accuracy, confusion, [f1, precision, recall], micro, macro, weighted); None where the source raises ValueError."""
    m = [(a, b) for a, b in zip(t, p) if a >= 0 and b >= 0]
    if not m:
        return (None,) * 6
    K = max(max(t), max(p)) + 1
    acc = Fraction(sum(1 for a, b in m if a == b), len(m))
    conf = [[sum(1 for a, b in m if a == i and b == j) for j in range(K)] for i in range(K)]
    f1, pr, rc = [], [], []
    for k in range(K):
        tp = sum(1 for a, b in m if a == k and b == k)
        fp = sum(1 for a, b in m if a != k and b == k)
        fn = sum(1 for a, b in m if a == k and b != k)
        pr.append(Fraction(tp, tp + fp) if tp + fp else Fraction(0))
        rc.append(Fraction(tp, tp + fn) if tp + fn else Fraction(0))
        f1.append(Fraction(2 * tp, 2 * tp + fp + fn) if tp else Fraction(0))
    macro = sum(f1) / K
    cls = sorted({a for a in t if a >= 0})
    cnt = {l: sum(1 for a in t if a == l) for l in cls}
    weighted = sum(f1[l] * cnt[l] for l in cls) / sum(cnt.values())
    return acc, conf, [f1, pr, rc], acc, macro, weighted


def run_metrics(ctx, impl, mev, rng, count):
    cases = []
    # exhaustive tiny: all pairs of vectors of length <= 2 over {-1, 0, 1}
    for L in (1, 2):
        for t in itertools.product([-1, 0, 1], repeat=L):
            for p in itertools.product([-1, 0, 1], repeat=L):
                cases.append((list(t), list(p)))
    for _ in range(count):
        L = rng.randint(1, 12)
        pool = rng.choice([[0, 1], [0, 1], [-1, 0, 1], [-1, 0, 1, 2], [-1, 0, 3, 7], [0, 1, 2, 3], [-1, -1, 0, 1]])
        t = [rng.choice(pool) for _ in range(L)]
        p = [x if rng.random() < 0.6 else rng.choice(pool) for x in t]
        cases.append((t, p))
    # ---- implementation against the textbook definitions
    for k, (t, p) in enumerate(cases):
        r = impl.call('c13', 'metrics', dict(true=t, pred=p), timeout=20)
        ctx.traces += 1
        counted = any(a >= 0 and b >= 0 for a, b in zip(t, p))
        ctx.count('metrics', ('met', t, p), counted)
        if 'ok' not in r:
            ctx.violation('metrics', 'worker failed', case=dict(true=t, pred=p), kind='error', observed=r)
            continue
        o = r['ok']
        acc, conf, f1v, micro, macro, weighted = py_metrics(t, p)

        def cmp(name, exp, got_key, conv=lambda x: x):
            got = o[got_key]
            if exp is None:
                if 'err' not in got or got['err'] != 'ValueError':
                    ctx.violation('metrics', '%s: ValueError expected' % name, case=dict(true=t, pred=p), kind='error_kind',
                                  metric=name, observed=got)
                return
            if 'ok' not in got:
                ctx.violation('metrics', '%s raised where the definition has a value' % name, case=dict(true=t, pred=p),
                              kind='error_kind', metric=name, expected=conv(exp), observed=got)
                return
            if not conv_close(conv(exp), got['ok']):
                ctx.violation('metrics', '%s differs from its confusion-matrix definition' % name, case=dict(true=t, pred=p),
                              kind='value', metric=name, expected=conv(exp), observed=got['ok'])

        cmp('accuracy', acc, 'accuracy', float)
        cmp('confusion', conf, 'confusion')
        cmp('f1_scores', f1v, 'f1_scores', lambda x: [list(map(float, y)) for y in x])
        cmp('average_micro', micro, 'avg_micro', float)
        cmp('average_macro', macro, 'avg_macro', float)
        cmp('average_weighted', weighted, 'avg_weighted', float)
        vals = {x for x in t if x >= 0} | {x for x in p if x >= 0}
        if vals == {0, 1} and f1v is not None:
            f1, pr, rc = f1v
            cmp('f1_binary', (f1[1], pr[1], rc[1]), 'f1_binary', lambda x: [float(y) for y in x])
        elif 'err' not in o['f1_binary']:
            ctx.violation('metrics', 'get_f1_score accepted non-binary labels', case=dict(true=t, pred=p), kind='error_kind',
                          metric='f1_binary', observed=o['f1_binary'])
        if k % 150 == 0:
            ctx.sample(dict(kind='metrics', true=t, pred=p, impl=o, definition_accuracy=str(acc)))
    # ---- the Coq model (proved equal to the definitions) must give exactly the same rationals
    model = mev('c13m', ['run_metrics %s %s' % (clist(t, cz), clist(p, cz)) for t, p in cases])
    for (t, p), mv in zip(cases, model or []):
        acc, conf, f1s, micro, macro, weighted = mv
        qo = lambda x: None if x is None else Qf(x[1])
        got = (qo(acc), None if conf is None else [list(r_) for r_ in conf[1]],
               None if f1s is None else [[Qf(y) for y in part] for part in f1s[1]], qo(micro), qo(macro), qo(weighted))
        if got != py_metrics(t, p):
            ctx.violation('metrics', 'the Coq model of metrics.py differs from the textbook definitions', case=dict(true=t, pred=p),
                          kind='model_diff', expected=py_metrics(t, p), observed=got)
    # ---- the source-regenerated terms on a sample of the same cases
    sample = cases[:81:4] + cases[81:][:(70 if ctx.tier == 'quick' else 500)]
    run_source_metrics(ctx, impl, sample)


def run_source_metrics(ctx, impl, cases):
    """The terms regenerated from classification/metrics.py (Gen/NpClsMetrics.v; theorems source_metrics_* of Props/C13.v),
    evaluated inside Coq over exact rationals with the array semantics of Model/NpVec.v, must reproduce what the functions return
    (and be undefined exactly where they raise ValueError)."""
    terms = [('accuracy', 'accuracy', 's', 'src_cls_accuracy'), ('confusion', 'confusion', 'm', 'src_cls_confusion'),
             ('f1', 'f1_scores', 'v', 'src_cls_f1'), ('precisions', 'f1_scores', 'v', 'src_cls_precisions'),
             ('recalls', 'f1_scores', 'v', 'src_cls_recalls'), ('f1_only', 'f1_only', 'v', 'src_cls_f1_only'),
             ('micro', 'avg_micro', 's', 'src_cls_micro'), ('macro', 'avg_macro', 's', 'src_cls_macro'),
             ('weighted', 'avg_weighted', 's', 'src_cls_weighted')]
    exprs = []
    for (t, p) in cases:
        env = '(qenv_metrics %s %s)' % (clist(t, cz), clist(p, cz))
        parts = []
        for (_, _, shape, term) in terms:
            if shape == 's':
                parts.append('[map qz3 (qsresult (qvdenote %s %s))]' % (env, term))
            elif shape == 'v':
                parts.append('[map qz3 (qvresult (qvdenote %s %s))]' % (env, term))
            else:
                parts.append('map (map qz3) (qmresult (qvdenote %s %s))' % (env, term))
        exprs.append('[%s]' % '; '.join(parts))
    vals = safe_coq_eval(ctx, 'c13src', ['Base.Util', 'Model.NpExpr', 'Model.NpVec', 'Gen.NpClsMetrics'], exprs,
                         prelude='Definition qz3 (q : Q) : Z * Z := (Qnum q, Zpos (Qden q)).\n', shard=60) if exprs else []
    n_src = 0
    for (t, p), v in zip(cases, vals or []):
        r = impl.call('c13', 'metrics', dict(true=t, pred=p), timeout=20)
        if 'ok' not in r:
            continue
        o = r['ok']
        n_src += 1
        ctx.count('source_term:metrics', ('srcmet', t, p), True)
        for (name, key, shape, term), mv in zip(terms, v):
            got = o.get(key)
            if got is None:
                continue
            if shape == 'm':
                exp = [[Fraction(x[0], x[1]) for x in row] for row in mv] or None
            else:
                exp = [Fraction(x[0], x[1]) for x in mv[0]] if mv and mv[0] else None
                if shape == 's' and exp is not None:
                    exp = exp[0]
            if exp is None:
                if 'err' not in got or got['err'] != 'ValueError':
                    ctx.violation('metrics', 'the term regenerated from metrics.py (%s) is undefined (the source raises ValueError) but the '
                                  'function returns a value' % term, case=dict(true=t, pred=p), kind='source_term', metric=name, observed=got)
                continue
            val = got.get('ok')
            if name in ('f1', 'precisions', 'recalls') and val is not None:
                val = val[{'f1': 0, 'precisions': 1, 'recalls': 2}[name]]
            fexp = [[float(x) for x in row] for row in exp] if shape == 'm' else ([float(x) for x in exp] if shape == 'v' else float(exp))
            if val is None or not conv_close(fexp, val if shape != 'm' else [[float(x) for x in row] for row in val]):
                ctx.violation('metrics', 'the term regenerated from metrics.py (%s), evaluated with the array semantics of Model/NpVec.v, '
                              'differs from what the function returns' % term, case=dict(true=t, pred=p), kind='source_term', metric=name,
                              expected=fexp, observed=got)
    ctx.extra['source_terms_evaluated'] = ctx.extra.get('source_terms_evaluated', 0) + n_src


def conv_close(a, b):
    if isinstance(a, (list, tuple)):
        return isinstance(b, (list, tuple)) and len(a) == len(b) and all(conv_close(x, y) for x, y in zip(a, b))
    if isinstance(a, int) and isinstance(b, int):
        return a == b
    return close(a, b)


# ----------------------------------------------------------------------------------------------------------
def run_label_range(ctx, impl, mev, rng, count):
    """Seed labels >= n (C17's side of vote_update): crashes / hangs are reported here under their own site."""
    cases = []
    for _ in range(count):
        g = make_graph(rng, 6, kind=rng.choice(['undirected', 'directed']))
        n = g['shape'][0]
        vec = [-1] * n
        a, b = rng.sample(range(n), 2)
        # two DIFFERENT classes (the property quantifies over seed sets with at least two classes; with a single class
        # get_adjacency_values documents a clustering mode that relabels every node)
        vec[a], vec[b] = n + rng.randint(0, 3), 2 * n + 4 + rng.randint(0, 40)
        kw, form = seed_forms(rng, g, vec)
        cases.append(dict(fam='label_range', g=g, vec=vec, kw=kw, form=form, weighted=rng.random() < 0.5, node_order=None,
                          n_iter=rng.choice([2, 5])))
    exprs = [prop_expr(c, adjacency_rows(c['g']), [], c['n_iter'] + 1) for c in cases]
    model = mev('c13x', exprs) or [('NoModel',)] * len(cases)
    for c, mv in zip(cases, model):
        args = prop_args(c)
        r = impl.call('c13', 'propagation', args, timeout=15)
        ctx.traces += 1
        ctx.count('Propagation:label_range', ('plr', args), True)
        f = dict(weighted=c['weighted'], form=c['form'], labels_ge_n=True, node_order='none', n_iter_default=False,
                 seed_vector_all_distinct=len(set(c['vec'])) == len(c['vec']), family='label_range')
        if 'ok' not in r:
            ctx.violation('vote_update_label_range', 'Propagation with a seed label >= n crashed / hung / raised', case=args,
                          kind='hang' if 'hang' in r else ('crash' if 'crash' in r else 'error'),
                          observed={k: r[k] for k in r if k != 'tb'}, model=mv[0], **f)
            continue
        o = r['ok']
        labels = all_labels(o, c['g'])
        if mv[0] == 'POOB':
            ctx.violation('vote_update_label_range', 'the model of the kernel reads / writes out of bounds (site %s) on a seed label >= n'
                          % (mv[1],), case=args, kind='oob', observed=labels, **f)
        elif mv[0] == 'POk' and list(mv[1][0]) != labels:
            ctx.violation('vote_update_label_range', 'labels differ from the model with a seed label >= n', case=args, kind='model_diff',
                          expected=list(mv[1][0]), observed=labels, **f)
        check_common(ctx, 'Propagation', c['g'], c['vec'], o, args, f)
